#!/usr/bin/env python3
"""Regenerates /verif/MANIFEST.json from the table below (kept by hand; levels follow what
lean/Audit.lean actually lists for each property)."""
import json, os, re, sys
V = os.path.dirname(os.path.dirname(os.path.abspath(__file__)))
sys.path.insert(0, V)
from vlib import core

PROOF_NOTE = ("Trusted: Lean 4.33.0 kernel + axioms propext/Classical.choice/Quot.sound (audited by #print axioms every run, "
              "no sorry/admit/native_decide/bv_decide); the statements in lean/BGV/Props; the correspondence check "
              "(harness/bgh.cpp over the real headers under ASan+UBSan vs the compiled Lean driver, exact transcript equality) "
              "which is evidence, not proof, that the model is the code; libstdc++ containers as specified. "
              "Not modelled: floating-point rounding, allocation failure, C++ object lifetime.")

# id -> (technique, text)
CLAIMS = {
 "C01": ("Lean 4 refinement proof (directed graph model -> set of ordered pairs) + differential correspondence to the C++ classes",
         "Theorems over the executable Lean model of LabeledDirectedGraph for every history/size/label type; the model is tied to /repo by running identical histories through the real classes and the model and diffing complete observer dumps after every call."),
}
DEFAULT_TEXT = ("Executable Lean model of the code, tied to /repo on every run by differential correspondence (identical histories through "
                "the real classes under ASan+UBSan and through the compiled model, complete observer dumps compared after every call); "
                "property theorems about the model are listed in lean/Audit.lean and audited each run.")
TECH = {
 "C01": "Lean 4 refinement proof + model/implementation correspondence",
 "C02": "Lean 4 invariant/refinement proof + model/implementation correspondence",
 "C03": "Lean 4 invariant proof (label store = edge set) + correspondence",
 "C04": "Lean 4 refinement proof to a multiplicity matrix for every history (directed and undirected; graph part = base-class call, counters = sums) + correspondence incl. 32-bit boundary multiplicities",
 "C05": "Lean 4 refinement proof over exact arithmetic for every history (directed and undirected; total = sum of present weights, weight matrix) + correspondence",
 "C06": "Lean 4 proof (operator== iff equal abstraction, all eight classes) + correspondence on history pairs incl. non-representable totals",
 "C07": "Lean 4 proof (rejected call returns the same state) + sanitizer-backed correspondence",
 "C08": "Lean 4 proof (directed and undirected iterator machines = (filtered) flattened adjacency) + exhaustive-shape correspondence",
 "C09": "Lean 4 proofs: reversal, edge-list constructors (= add one at a time), getDirectedGraph, Undirected(directed), round trip + correspondence",
 "C10": "Lean 4 proof (subgraph = restriction, for every iteration order) + correspondence",
 "C11": "Lean 4 proofs: both BFS searches correct (queue-loop invariants), path reconstruction, all-shortest-paths machine = set of geodesics + correspondence on all small graphs",
 "C12": "Lean 4 proof of label-correcting Dijkstra for every legal pop order + correspondence with observed pop order",
 "C13": "Lean 4 proofs: tokeniser, decimal round trip, graph-level write/load round trip, vertex-name numbering + byte-exact correspondence",
 "C14": "Lean 4 proofs: record layout and round trip, graph-level write/load round trip, integer codecs + byte-exact correspondence",
 "C15": "Lean 4 totality/truncation proof + every-cut-offset correspondence under sanitizers",
 "C16": "Lean 4 proofs about forced duplicates and removeDuplicateEdges (directed, undirected, weighted, multigraph) + correspondence",
 "C17": "multi-configuration differential run of the correspondence corpora (dynamic; Lean carries only the modelled UB classes)",
 "C18": "Lean 4 schedule-independence theorem over a source-regenerated effect table + TSan reader runs",
 "C19": "Lean 4 proofs of scan bounds (both BFS searches: each vertex once; Dijkstra with min pops: E+1) + exact scan-count correspondence",
 "C20": "Lean 4 theorem over source-regenerated header/linkage table + compiler matrix",
}

def main():
    thms = core.audit_theorems()
    claimed = [l.strip() for l in open(os.path.join(V, "tools", "claimed.txt")) if l.strip() and not l.startswith("#")]
    other = {}
    p = os.path.join(V, "tools", "levels.json")
    if os.path.exists(p):
        other = json.load(open(p))
    na = json.load(open(os.path.join(V, "tools", "not_applicable.json")))
    checks = []
    for pid in claimed:
        n = len(thms.get(pid, []))
        cat = other.get(pid, {}).get("category") or ("proof" if n else "exploration")
        text = other.get(pid, {}).get("text") or (DEFAULT_TEXT + (f" {n} property theorem(s) currently proved." if n else " No property theorem is registered yet for this id; the level is reported as exploration until one is."))
        checks.append({
            "property_id": pid,
            "quick_cmd": f"python3 check.py {pid} --tier quick",
            "thorough_cmd": f"python3 check.py {pid} --tier thorough",
            "evidence_file": f"/verif/evidence/{pid}.json",
            "replay_cmd_template": f"python3 check.py {pid} --replay {{path}}",
            "engine": "bgv",
            "level_claimed": {"category": cat, "text": text, "design_ref": f"DESIGN.md §6 {pid}"},
            "level_note": other.get(pid, {}).get("note") or PROOF_NOTE,
            "technique": TECH[pid],
        })
    m = {
        "version": 1,
        "setup_cmd": "cd /verif/lean && lake build BGV bgdriver && cd /verif && python3 tools/prebuild.py",
        "hooks": {
            "guard": "BASEGRAPH_VERIF",
            "enable": "no source hook is needed: the harness #includes /repo/include directly and observes scan counts / pop order through wrapper graph types; checks compile harness/*.cpp against /repo's working tree on every run",
            "baseline_off_cmd": "cmake -S /repo -B /repo/_build -G Ninja && cmake --build /repo/_build && ctest --test-dir /repo/_build -j8 --timeout 900",
            "source_commits": [],
            "add_only": True,
        },
        "engines": [{"name": "bgv", "path": "/verif/check.py", "serves_properties": claimed,
                     "kind_free_text": "Lean 4 model + theorems (lean/BGV), compiled model driver, C++ protocol harness over the real headers, Python orchestration (vlib)"}],
        "checks": checks,
        "not_applicable": [x for x in na if x["property_id"] not in claimed],
        "notes": "See DESIGN.md. known_findings.json lists repaired defects (fixed:) and open findings.",
    }
    json.dump(m, open(os.path.join(V, "MANIFEST.json"), "w"), indent=1)
    print("claimed", claimed)

main()
