#!/usr/bin/env python3
"""harmless_eval.py <patch.diff> <name>
Applies a behaviour-preserving refactoring in a scratch worktree and runs every quick check against
it (VERIF_REPO): none may report a VIOLATION.  Files the result under /verif/harmless/<name>/."""
import json, os, shutil, subprocess, sys, time, concurrent.futures as cf
V = os.path.dirname(os.path.dirname(os.path.abspath(__file__)))
IDS = ["C%02d" % i for i in range(1, 21)]

def sh(cmd, cwd=None, env=None, timeout=3600):
    e = dict(os.environ); e.update(env or {})
    p = subprocess.run(cmd, cwd=cwd, shell=isinstance(cmd, str), stdout=subprocess.PIPE, stderr=subprocess.STDOUT, env=e, timeout=timeout)
    return p.returncode, p.stdout.decode("utf-8", "replace")

def main():
    patch, name = os.path.abspath(sys.argv[1]), sys.argv[2]
    wt = f"/tmp/hr_eval_{os.getpid()}"
    sh(["git", "-C", "/repo", "worktree", "add", "--detach", wt, "HEAD"])
    res = {"name": name}
    try:
        rc, o = sh(["git", "-C", wt, "apply", patch])
        res["patch_applies"] = rc == 0
        rc, o = sh(f"cmake -S {wt} -B {wt}/_build -G Ninja -DBUILD_TESTS=ON -DCMAKE_BUILD_TYPE=RelWithDebInfo -DCMAKE_CXX_FLAGS=-Wno-error >/dev/null && cmake --build {wt}/_build 2>&1 | tail -2 && ctest --test-dir {wt}/_build -j8 --timeout 300 2>&1 | tail -3")
        res["suite_passes"] = (rc == 0 and "100% tests passed" in o)
        shutil.rmtree(wt + "/_build", ignore_errors=True)
        evd = f"/tmp/hr_ev_{os.getpid()}"
        os.makedirs(evd, exist_ok=True)
        def one(q):
            t0 = time.time()
            rc, o = sh([sys.executable, os.path.join(V, "check.py"), q, "--tier", "quick"], cwd=V,
                       env={"VERIF_REPO": wt, "VERIF_EVIDENCE_DIR": evd}, timeout=3000)
            vio = [l for l in o.split("\n") if l.startswith("VIOLATION")]
            head = []
            for l in vio[:1]:
                if "replay=" in l:
                    rp = l.split("replay=")[1].split()[0]
                    if os.path.exists(rp):
                        head = open(rp).read().split("\n")[:40]
            return q, {"rc": rc, "lines": vio[:3], "wall_s": round(time.time() - t0, 1), "replay_head": head}
        with cf.ThreadPoolExecutor(max_workers=5) as ex:
            det = dict(ex.map(one, IDS))
        shutil.rmtree(evd, ignore_errors=True)
        res["checks"] = {k: v for k, v in det.items() if v["rc"] != 0 or v["lines"]}
        res["alarms"] = sorted(res["checks"].keys())
        d = os.path.join(V, "harmless", name)
        os.makedirs(d, exist_ok=True)
        shutil.copy(patch, os.path.join(d, "patch.diff"))
        notes = os.path.join(os.path.dirname(patch), "notes.txt")
        if os.path.exists(notes):
            shutil.copy(notes, os.path.join(d, "notes.txt"))
        json.dump(res, open(os.path.join(d, "result.json"), "w"), indent=1)
    finally:
        sh(["git", "-C", "/repo", "worktree", "remove", "--force", wt])
    print(json.dumps({k: v for k, v in res.items() if k != "checks"}))
    for k, v in res.get("checks", {}).items():
        print(k, v["lines"][:2])

if __name__ == "__main__":
    main()
