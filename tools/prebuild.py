#!/usr/bin/env python3
"""setup helper: pre-compiles the harness binaries against /repo/include (content-hash cached):
the ASan+UBSan protocol harness every check uses, the libstdc++ debug-mode build shared by the
C07 / C08 / C15 / C17 checks, and the -O2 -DNDEBUG build of the release pass."""
import concurrent.futures as cf
import os, sys
sys.path.insert(0, os.path.dirname(os.path.dirname(os.path.abspath(__file__))))
from vlib import core


def main_harness():
    try:
        return core.build_harness()
    except core.BuildError as e:
        return "harness build failed (checks will report it):\n" + e.output[-2000:]


def debug_harness():
    try:
        from vlib import special
        cfg = special.CONFIGS_QUICK[1]
        return core.build_harness(name="bgh17-" + cfg[0], flags=cfg[2], compiler=cfg[1], defines=cfg[3])
    except core.BuildError as e:
        return "debug-mode harness build failed (checks will report it):\n" + e.output[-2000:]
    except Exception as e:   # never fail the setup
        return f"debug-mode harness not prebuilt: {e}"


def release_harness():
    try:
        return core.build_harness(name="bgh17-g++-O2-ndebug", flags=["-std=c++17", "-O2"], compiler="g++", defines=["-DNDEBUG"])
    except core.BuildError as e:
        return "release harness build failed (checks will report it):\n" + e.output[-2000:]
    except Exception as e:   # never fail the setup
        return f"release harness not prebuilt: {e}"


with cf.ThreadPoolExecutor(max_workers=3) as ex:
    for r in ex.map(lambda f: f(), [main_harness, debug_harness, release_harness]):
        print(r)
