#!/usr/bin/env python3
"""setup helper: pre-compiles the harness binaries against /repo/include (content-hash cached)."""
import os, sys
sys.path.insert(0, os.path.dirname(os.path.dirname(os.path.abspath(__file__))))
from vlib import core
try:
    print(core.build_harness())
except core.BuildError as e:
    print("harness build failed (checks will report it):\n" + e.output[-2000:])
