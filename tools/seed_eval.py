#!/usr/bin/env python3
"""seed_eval.py <pid> <mutant-dir> <name> [--also C03,C06]
Confirms a seeded change (compiles, passes the existing suite, demo fails with / passes without),
runs the property's quick check against it in a scratch worktree (VERIF_REPO), and files it under
/verif/seeded/<pid>-<name>/ with meta.json.  Never touches /repo's working tree."""
import json, os, shutil, subprocess, sys, time
V = os.path.dirname(os.path.dirname(os.path.abspath(__file__)))

def sh(cmd, cwd=None, env=None, timeout=3600):
    e = dict(os.environ); e.update(env or {})
    p = subprocess.run(cmd, cwd=cwd, shell=isinstance(cmd, str), stdout=subprocess.PIPE, stderr=subprocess.STDOUT, env=e, timeout=timeout)
    return p.returncode, p.stdout.decode("utf-8", "replace")

def demo_flags(demo):
    """default flags, or the ones given in a first-line comment `// g++ ...` of the demo (sanitizers, debug mode)"""
    flags = ["-std=c++17", "-pthread"]
    try:
        first = open(demo).readline().strip()
    except OSError:
        return flags
    if first.startswith("//") and "g++" in first:
        toks = first.split()
        extra = [t for t in toks if t.startswith(("-f", "-D", "-O", "-g", "-std=", "-pthread")) ]
        if extra:
            flags = extra if any(t.startswith("-std=") for t in extra) else ["-std=c++17"] + extra
            if "-pthread" not in flags:
                flags.append("-pthread")
    return flags


def main():
    pid, mdir, name = sys.argv[1], sys.argv[2], sys.argv[3]
    also = []
    if "--also" in sys.argv:
        also = sys.argv[sys.argv.index("--also") + 1].split(",")
    wt = f"/tmp/eval_wt_{os.getpid()}"
    sh(["git", "-C", "/repo", "worktree", "add", "--detach", wt, "HEAD"])
    res = {"property": pid, "name": name, "source": mdir}
    try:
        patch = os.path.join(mdir, "patch.diff")
        demo = os.path.join(mdir, "demo.cpp")
        demosh = os.path.join(mdir, "demo.sh")
        use_sh = os.path.exists(demosh)
        if use_sh:
            rc, o = sh(["sh", demosh, wt + "/include"], cwd=mdir, timeout=600)
            res["demo_compiles_clean"] = True
            res["demo_clean_rc"] = rc
        else:
            rc, o = sh(["g++"] + demo_flags(demo) + ["-I", wt + "/include", demo, "-o", wt + "/demo_clean"])
            res["demo_compiles_clean"] = rc == 0
            rc, o = sh([wt + "/demo_clean"], cwd=wt, timeout=300)
            res["demo_clean_rc"] = rc
        rc, o = sh(["git", "-C", wt, "apply", os.path.abspath(patch)])
        res["patch_applies"] = rc == 0
        if rc != 0:
            res["error"] = o[-500:]
        if use_sh:
            rc, o = sh(["sh", demosh, wt + "/include"], cwd=mdir, timeout=600)
            res["demo_compiles_mutant"] = True
        else:
            rc, o = sh(["g++"] + demo_flags(demo) + ["-I", wt + "/include", demo, "-o", wt + "/demo_mut"])
            res["demo_compiles_mutant"] = rc == 0
            if rc != 0 and pid == "C20":
                # C20 is about compiling: a demonstration that no longer compiles *is* the failure
                res["demo_compiles_mutant"] = True
                res["demo_fails_by_not_compiling"] = True
                rc = 1
            else:
                try:
                    rc, o = sh([wt + "/demo_mut"], cwd=wt, timeout=300)
                except subprocess.TimeoutExpired:
                    rc, o = 124, "timeout"
        res["demo_mutant_rc"] = rc
        res["demo_mutant_tail"] = o[-300:]
        rc, o = sh(f"cmake -S {wt} -B {wt}/_build -G Ninja -DBUILD_TESTS=ON -DCMAKE_BUILD_TYPE=RelWithDebInfo -DCMAKE_CXX_FLAGS=-Wno-error >/dev/null && cmake --build {wt}/_build 2>&1 | tail -2 && ctest --test-dir {wt}/_build -j8 --timeout 300 2>&1 | tail -3")
        res["suite_passes_with_mutant"] = (rc == 0 and "100% tests passed" in o)
        res["suite_tail"] = o[-200:]
        shutil.rmtree(wt + "/_build", ignore_errors=True)
        evd = f"/tmp/eval_ev_{os.getpid()}"
        os.makedirs(evd, exist_ok=True)
        det = {}
        for q in [pid] + also:
            t0 = time.time()
            rc, o = sh([sys.executable, os.path.join(V, "check.py"), q, "--tier", "quick"], cwd=V,
                       env={"VERIF_REPO": wt, "VERIF_EVIDENCE_DIR": evd}, timeout=3000)
            vio = [l for l in o.split("\n") if l.startswith("VIOLATION") or l.startswith("KNOWN-FINDING")]
            det[q] = {"rc": rc, "lines": vio[:4], "wall_s": round(time.time() - t0, 1)}
            # keep the first replay for the record
            for l in vio[:1]:
                if "replay=" in l:
                    rp = l.split("replay=")[1].split()[0]
                    if os.path.exists(rp):
                        det[q]["replay_head"] = [x for x in open(rp).read().split("\n") if x and not x.startswith("#")][:12]
        res["checks"] = det
        res["detected_by_own_check"] = det[pid]["rc"] == 1 and any(l.startswith("VIOLATION") for l in det[pid]["lines"])
        shutil.rmtree(evd, ignore_errors=True)
        confirmed = (res["demo_compiles_clean"] and res["demo_clean_rc"] == 0 and res["patch_applies"]
                     and res["demo_compiles_mutant"] and res["demo_mutant_rc"] != 0 and res["suite_passes_with_mutant"])
        res["confirmed"] = confirmed
        notes = ""
        if os.path.exists(os.path.join(mdir, "notes.txt")):
            notes = open(os.path.join(mdir, "notes.txt")).read()
        if confirmed:
            d = os.path.join(V, "seeded", f"{pid}-{name}")
            k = 2
            while os.path.exists(d) and os.path.abspath(d) != os.path.abspath(mdir):   # never overwrite an earlier change
                d = os.path.join(V, "seeded", f"{pid}-{name}-{k}"); k += 1
            os.makedirs(d, exist_ok=True)
            shutil.copy(patch, os.path.join(d, "patch.diff"))
            if os.path.exists(demo):
                shutil.copy(demo, os.path.join(d, "demo.cpp"))
            if use_sh:
                shutil.copy(demosh, os.path.join(d, "demo.sh"))
            meta = {
                "property": pid,
                "breaks": notes.strip()[:1500],
                "what_i_ran": [
                    "g++ -std=c++17 -I<wt>/include demo.cpp && ./demo  on the clean worktree -> rc %d" % res["demo_clean_rc"],
                    "git apply patch.diff; demo again -> rc %d" % res["demo_mutant_rc"],
                    "cmake -DBUILD_TESTS=ON + ctest with the patch -> " + ("100% tests passed" if res["suite_passes_with_mutant"] else "FAILED"),
                    "VERIF_REPO=<wt> python3 check.py %s --tier quick -> rc %d" % (pid, det[pid]["rc"]),
                ],
                "checks": det,
                "detected": res["detected_by_own_check"],
            }
            json.dump(meta, open(os.path.join(d, "meta.json"), "w"), indent=1)
    finally:
        sh(["git", "-C", "/repo", "worktree", "remove", "--force", wt])
    print(json.dumps({k: v for k, v in res.items() if k not in ("suite_tail", "demo_mutant_tail")}, indent=1))

main()
