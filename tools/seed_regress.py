#!/usr/bin/env python3
"""seed_regress.py [-j N] [name-substring ...]
Re-runs every kept seeded change (/verif/seeded/<id>/patch.diff) against the quick check of its
property in a scratch worktree of /repo (VERIF_REPO) and reports the ones that are no longer
detected.  Used after a change to the harness, the driver or the workloads.  Never touches /repo's
working tree; removes its worktrees."""
import json, os, shutil, subprocess, sys, time, concurrent.futures as cf
V = os.path.dirname(os.path.dirname(os.path.abspath(__file__)))


def sh(cmd, cwd=None, env=None, timeout=3600):
    e = dict(os.environ); e.update(env or {})
    p = subprocess.run(cmd, cwd=cwd, stdout=subprocess.PIPE, stderr=subprocess.STDOUT, env=e, timeout=timeout)
    return p.returncode, p.stdout.decode("utf-8", "replace")


def one(name):
    d = os.path.join(V, "seeded", name)
    meta = json.load(open(os.path.join(d, "meta.json")))
    pid = meta["property"]
    # the check that is recorded as detecting it (some are caught by a neighbouring property's check)
    checks = [q for q, c in meta.get("checks", {}).items() if c.get("rc") == 1] or [pid]
    wt = f"/tmp/regress_wt_{os.getpid()}_{name}"
    evd = f"/tmp/regress_ev_{os.getpid()}_{name}"
    sh(["git", "-C", "/repo", "worktree", "add", "--detach", wt, "HEAD"])
    try:
        rc, o = sh(["git", "-C", wt, "apply", os.path.join(d, "patch.diff")])
        if rc != 0:
            return name, "patch-does-not-apply", 0
        os.makedirs(evd, exist_ok=True)
        t0 = time.time()
        hit = False
        for q in checks:
            rc, o = sh([sys.executable, os.path.join(V, "check.py"), q, "--tier", "quick"], cwd=V,
                       env={"VERIF_REPO": wt, "VERIF_EVIDENCE_DIR": evd}, timeout=3000)
            if rc == 1 and any(l.startswith("VIOLATION") for l in o.split("\n")):
                hit = True
                break
        return name, ("detected" if hit else "MISSED"), round(time.time() - t0, 1)
    finally:
        sh(["git", "-C", "/repo", "worktree", "remove", "--force", wt])
        shutil.rmtree(evd, ignore_errors=True)


def main():
    args = sys.argv[1:]
    j = 4
    if args[:1] == ["-j"]:
        j = int(args[1]); args = args[2:]
    names = sorted(n for n in os.listdir(os.path.join(V, "seeded")) if os.path.exists(os.path.join(V, "seeded", n, "meta.json")))
    if args:
        names = [n for n in names if any(a in n for a in args)]
    res = {}
    with cf.ThreadPoolExecutor(max_workers=j) as ex:
        for name, verdict, wall in ex.map(one, names):
            res[name] = verdict
            print(f"{verdict:22s} {wall:6.1f}s  {name}", flush=True)
    missed = [n for n, v in res.items() if v != "detected"]
    print(f"{len(res) - len(missed)}/{len(res)} detected; not detected: {missed}")
    sh(["git", "-C", "/repo", "worktree", "prune"])
    sys.exit(1 if missed else 0)


if __name__ == "__main__":
    main()
