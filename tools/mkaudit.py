#!/usr/bin/env python3
"""Regenerates lean/Audit.lean and the Props imports of lean/BGV.lean from lean/BGV/Props/*.lean:
every `theorem Cxx_…` found in Props/Cxx*.lean is a proof obligation of property Cxx."""
import os, re, glob
V = os.path.dirname(os.path.dirname(os.path.abspath(__file__)))
out = ["import BGV", "/-! `#print axioms` for every property theorem; `-- Cxx` section markers are read by vlib/core.py -/", ""]
by = {}
for f in sorted(glob.glob(os.path.join(V, "lean/BGV/Props/*.lean"))):
    s = open(f).read()
    for n in re.findall(r"^theorem\s+(C\d\d_\w+)", s, re.M):
        by.setdefault(n[:3], []).append(n)
for pid in sorted(by):
    out.append(f"-- {pid}")
    out += [f"#print axioms BGV.{n}" for n in by[pid]]
    out.append("")
open(os.path.join(V, "lean/Audit.lean"), "w").write("\n".join(out))
print({k: len(v) for k, v in by.items()})
