#!/usr/bin/env python3
"""ast_facts.py — translator: reads /repo's headers (text + clang JSON AST of a TU that includes
them all) and REGENERATES the Lean fact tables

    lean/BGVGen/Headers.lean   guards, includes, namespace-scope definitions with linkage class   (C20)
    lean/BGVGen/Effects.lean   per function: const entry point?  constructs that can write shared
                               state from const code (mutable fields, casts removing const,
                               non-const statics / namespace-scope variables)                     (C18)
    lean/BGVGen/EntryPoints.lean  public members / free functions taking vertex indices          (C07, C20)

The theorems in lean/BGVGen/C18.lean and C20.lean are `decide`d over these tables on every run.
"""
import json
import os
import re
import subprocess
import sys

V = os.path.dirname(os.path.dirname(os.path.abspath(__file__)))
REPO = os.environ.get("VERIF_REPO", "/repo")
INC = os.path.join(REPO, "include")
OUT = os.path.join(V, "lean", "BGVGen")
WORK = os.path.join(V, ".work", "ast")


# library functions that modify (or hand out pointers into) process-wide state
GLOBAL_STATE_CALLS = {"setlocale", "uselocale", "global", "strtok", "rand", "srand", "random", "srandom", "drand48", "srand48",
                      "tmpnam", "tempnam", "mktemp", "setenv", "putenv", "unsetenv", "asctime", "ctime", "gmtime", "localtime",
                      "strerror", "readdir", "getenv_s", "signal", "atexit", "exit", "chdir", "umask", "set_terminate",
                      "set_new_handler", "sync_with_stdio"}


def headers():
    hs = []
    for d, _, fs in os.walk(os.path.join(INC, "BaseGraph")):
        for f in fs:
            if f.endswith((".h", ".hpp")):
                hs.append(os.path.relpath(os.path.join(d, f), INC))
    return sorted(hs)


def strip_comments(text):
    text = re.sub(r"/\*.*?\*/", lambda m: "\n" * m.group(0).count("\n"), text, flags=re.S)
    return re.sub(r"//[^\n]*", "", text)


def guard_of(text):
    """include-guard structure: first directive `#ifndef X`, next `#define X`, last directive `#endif`,
    nothing but whitespace outside; or `#pragma once` as the first directive."""
    t = strip_comments(text)
    lines = [l.strip() for l in t.split("\n")]
    dirs = [(i, l) for i, l in enumerate(lines) if l.startswith("#")]
    if not dirs:
        return None
    if re.match(r"#\s*pragma\s+once\b", dirs[0][1]):
        return "#pragma once"
    m = re.match(r"#\s*ifndef\s+(\w+)", dirs[0][1])
    if not m or len(dirs) < 3:
        return None
    m2 = re.match(r"#\s*define\s+(\w+)\s*$", dirs[1][1])
    if not m2 or m2.group(1) != m.group(1):
        return None
    if not re.match(r"#\s*endif\b", dirs[-1][1]):
        return None
    # nothing before the #ifndef or after the #endif
    if any(l for l in lines[:dirs[0][0]]) or any(l for l in lines[dirs[-1][0] + 1:]):
        return None
    # the first #ifndef must be closed by the last #endif (balanced conditionals in between)
    depth = 0
    for k, (_, l) in enumerate(dirs):
        if re.match(r"#\s*if", l):
            depth += 1
        elif re.match(r"#\s*endif", l):
            depth -= 1
            if depth == 0 and k != len(dirs) - 1:
                return None
    return m.group(1) if depth == 0 else None


def includes_of(text):
    return re.findall(r'#\s*include\s*"(BaseGraph/[^"]+)"', strip_comments(text))


def run_clang(hs):
    os.makedirs(WORK, exist_ok=True)
    tu = os.path.join(WORK, f"all-{os.getpid()}.cpp")
    with open(tu, "w") as f:
        for h in hs:
            f.write(f'#include "{h}"\n')
    p = subprocess.run(["clang++-14", "-std=c++17", "-I", INC, "-fsyntax-only", "-Xclang", "-ast-dump=json",
                        "-Xclang", "-ast-dump-filter=BaseGraph", tu], stdout=subprocess.PIPE, stderr=subprocess.PIPE)
    os.remove(tu)
    txt = p.stdout.decode("utf-8", "replace")
    dec = json.JSONDecoder()
    i, objs = 0, []
    while i < len(txt):
        while i < len(txt) and txt[i] in " \n\r\t":
            i += 1
        if i >= len(txt):
            break
        if txt[i] != "{":
            j = txt.find("\n", i)
            i = j + 1 if j >= 0 else len(txt)
            continue
        o, j = dec.raw_decode(txt, i)
        objs.append(o)
        i = j
    return objs, p.returncode, p.stderr.decode("utf-8", "replace")


class Walker:
    """walks the AST keeping track of the current source file (clang prints `file` only when it changes)"""

    def __init__(self):
        self.free = []
        self.ns_stack = []      # enclosing namespaces (functions in a `detail` namespace are not public API)
        self.file = None
        self.defs = []          # (header, name, kind)
        self.funcs = []         # dicts
        self.entry = []         # (class, method, nparams)
        self.seen_ids = set()

    def note_loc(self, node):
        for key in ("loc", "range"):
            l = node.get(key)
            if not l:
                continue
            cands = [l] if key == "loc" else [l.get("begin", {})]
            for c in cands:
                for sub in (c, c.get("spellingLoc", {}), c.get("expansionLoc", {})):
                    f = sub.get("file")
                    if f:
                        self.file = f

    def header(self):
        if self.file and self.file.startswith(INC):
            return os.path.relpath(self.file, INC)
        return None

    def has_body(self, node):
        return any(ch.get("kind") == "CompoundStmt" for ch in node.get("inner", []))

    def scan_effects(self, node, acc, in_func):
        k = node.get("kind")
        if k == "CXXConstCastExpr":
            acc.append("const_cast")
        elif k in ("CStyleCastExpr", "CXXReinterpretCastExpr", "CXXFunctionalCastExpr"):
            dst = node.get("type", {}).get("qualType", "")
            src = ""
            inner = node.get("inner", [])
            if inner:
                src = inner[0].get("type", {}).get("qualType", "")
            if ("*" in dst or "&" in dst) and re.search(r"\bconst\b[^*&]*[*&]", src) and not re.search(r"\bconst\b[^*&]*[*&]", dst):
                acc.append("cast-drops-const")
        elif k == "VarDecl" and in_func and node.get("storageClass") == "static":
            if not node.get("type", {}).get("qualType", "").startswith("const "):
                acc.append("static-local:" + node.get("name", "?"))
        elif k == "DeclRefExpr":
            # a call into the C / C++ library that reads-and-writes process-wide state: a const entry point that
            # reaches one is not safe to call concurrently (setlocale, strtok, rand, std::locale::global, …)
            ref = node.get("referencedDecl", {})
            if ref.get("kind") in ("FunctionDecl", "CXXMethodDecl") and ref.get("name") in GLOBAL_STATE_CALLS:
                acc.append("global-state-call:" + ref.get("name"))
        elif k == "MemberExpr":
            pass
        for ch in node.get("inner", []):
            if isinstance(ch, dict):
                self.scan_effects(ch, acc, in_func)

    def func_record(self, node, cls, templated):
        name = node.get("name", "?")
        qt = node.get("type", {}).get("qualType", "")
        is_const_method = node.get("kind") == "CXXMethodDecl" and bool(re.search(r"\)\s*const\b", qt))
        params = [ch for ch in node.get("inner", []) if ch.get("kind") == "ParmVarDecl"]
        ptypes = [p.get("type", {}).get("qualType", "") for p in params]
        graph_params = [t for t in ptypes if re.search(r"Graph|Multigraph", t)]
        free_const = node.get("kind") == "FunctionDecl" and bool(graph_params) and all(t.startswith("const ") for t in graph_params)
        acc = []
        if self.has_body(node):
            self.scan_effects(node, acc, True)
        return dict(name=(cls + "::" if cls else "") + name, const=bool(is_const_method or free_const),
                    writes=sorted(set(acc)), hdr=self.header() or "?", has_body=self.has_body(node),
                    vparams=sum(1 for t in ptypes if "VertexIndex" in t or t in ("unsigned int",)))


    def walk(self, node, cls=None, access="public", templated=False, depth=0):
        self.note_loc(node)
        k = node.get("kind")
        hdr = self.header()
        nid = node.get("id")
        if k in ("NamespaceDecl",):
            self.ns_stack.append(node.get("name", ""))
            for ch in node.get("inner", []):
                self.walk(ch, cls, access, templated, depth)
            self.ns_stack.pop()
            return
        if hdr is None:
            return
        if k in ("ClassTemplateDecl", "FunctionTemplateDecl", "TypeAliasTemplateDecl", "VarTemplateDecl"):
            for ch in node.get("inner", []):
                if ch.get("kind") in ("CXXRecordDecl", "FunctionDecl", "CXXMethodDecl", "CXXConstructorDecl", "TypeAliasDecl", "VarDecl"):
                    self.walk(ch, cls, access, True, depth)
                    break      # the pattern only, not the instantiations
            return
        if k == "CXXRecordDecl":
            if not node.get("completeDefinition"):
                return
            name = node.get("name", "?")
            if cls is None and nid not in self.seen_ids:
                self.seen_ids.add(nid)
                self.defs.append((hdr, name, "type"))
            acc = "private" if node.get("tagUsed") == "class" else "public"
            for ch in node.get("inner", []):
                ck = ch.get("kind")
                if ck == "AccessSpecDecl":
                    acc = ch.get("access", acc)
                elif ck == "FieldDecl":
                    self.note_loc(ch)
                    if ch.get("mutable"):
                        self.funcs.append(dict(name=f"{name}::<field {ch.get('name')}>", const=True, writes=["mutable-field:" + ch.get("name", "?")],
                                               hdr=hdr, has_body=False, vparams=0))
                elif ck in ("CXXMethodDecl", "CXXConstructorDecl", "FunctionTemplateDecl", "CXXRecordDecl", "ClassTemplateDecl", "FriendDecl"):
                    if ck == "FunctionTemplateDecl":
                        for g in ch.get("inner", []):
                            if g.get("kind") in ("CXXMethodDecl", "CXXConstructorDecl"):
                                self.note_loc(g)
                                if not g.get("isImplicit"):
                                    r = self.func_record(g, (cls + "::" if cls else "") + name, True)
                                    self.funcs.append(r)
                                    if acc == "public":
                                        self.entry.append((name, g.get("name", "?"), r["vparams"]))
                                break
                    elif ck in ("CXXMethodDecl", "CXXConstructorDecl"):
                        self.note_loc(ch)
                        if not ch.get("isImplicit"):
                            r = self.func_record(ch, (cls + "::" if cls else "") + name, templated)
                            self.funcs.append(r)
                            if acc == "public":
                                self.entry.append((name, ch.get("name", "?"), r["vparams"]))
                    elif ck in ("CXXRecordDecl", "ClassTemplateDecl"):
                        self.walk(ch, (cls + "::" if cls else "") + name, acc, templated, depth + 1)
            return
        if k in ("FunctionDecl", "CXXMethodDecl", "CXXConstructorDecl"):
            if node.get("isImplicit"):
                return
            r = self.func_record(node, cls, templated)
            self.funcs.append(r)
            # public API = free functions of the API namespaces; `detail` / anonymous namespaces and names with a
            # leading underscore (the library's own convention, cf. `_isSystemBigEndian`) are internal helpers
            if k == "FunctionDecl" and cls is None and "detail" not in self.ns_stack and "" not in self.ns_stack[1:] \
                    and not node.get("name", "?").startswith("_"):
                self.free.append((hdr, node.get("name", "?"), r["vparams"]))
            if not self.has_body(node):
                return
            name = node.get("name", "?")
            if k != "FunctionDecl" or templated:
                kind = "template"        # members of class templates defined out of class, function templates
            elif node.get("inline") or node.get("constexpr"):
                kind = "inline"
            elif node.get("storageClass") == "static":
                kind = "internal"
            else:
                # a non-template member function of a non-template class defined out of class, or a plain function
                kind = "strong"
            # an out-of-class definition of a previously-declared inline function stays inline
            if kind == "strong" and node.get("previousDecl"):
                prev = self.inline_ids.get(node.get("previousDecl"))
                if prev:
                    kind = "inline"
            sig = re.sub(r"\s+", " ", node.get("type", {}).get("qualType", ""))
            owner = cls or self.record_names.get(node.get("parentDeclContextId"))
            self.defs.append((hdr, (owner + "::" if owner else "") + name + " : " + sig, kind))
            return
        if k == "VarDecl":
            name = node.get("name", "?")
            qt = node.get("type", {}).get("qualType", "")
            if templated:
                kind = "template"
            elif node.get("inline"):
                kind = "inline"
            elif node.get("constexpr") or qt.startswith("const ") or node.get("storageClass") == "static":
                kind = "internal"
            elif node.get("storageClass") == "extern" and "init" not in node:
                return
            else:
                kind = "strong"
            self.defs.append((hdr, name, kind))
            if kind == "strong":
                self.funcs.append(dict(name=f"<namespace-scope variable {name}>", const=True, writes=["non-const-global:" + name],
                                       hdr=hdr, has_body=False, vparams=0))
            return
        if k in ("TypedefDecl", "TypeAliasDecl", "EnumDecl"):
            self.defs.append((hdr, node.get("name", "?"), "type"))
            return


def collect_record_names(objs):
    names = {}

    def rec(n):
        if isinstance(n, dict):
            if n.get("kind") in ("CXXRecordDecl", "ClassTemplateDecl") and n.get("name"):
                names[n.get("id")] = n.get("name")
            for ch in n.get("inner", []):
                rec(ch)
    for o in objs:
        rec(o)
    return names


def collect_inline_ids(objs):
    ids = {}

    def rec(n):
        if isinstance(n, dict):
            if n.get("kind") in ("FunctionDecl", "CXXMethodDecl") and (n.get("inline") or n.get("constexpr")):
                ids[n.get("id")] = True
            for ch in n.get("inner", []):
                rec(ch)
    for o in objs:
        rec(o)
    return ids


def lean_str(s):
    return '"' + s.replace("\\", "\\\\").replace('"', '\\"') + '"'


def main():
    hs = headers()
    objs, rc, err = run_clang(hs)
    w = Walker()
    w.inline_ids = collect_inline_ids(objs)
    w.record_names = collect_record_names(objs)
    for o in objs:
        w.walk(o)
    os.makedirs(OUT, exist_ok=True)
    # ---------------- Headers.lean
    lines = ["/-! GENERATED by /verif/translator/ast_facts.py from /repo/include — do not edit. -/",
             "namespace BGVGen", "",
             "inductive Linkage where", "  | type | template | inline | internal | strong", "  deriving DecidableEq, Repr", "",
             "structure Header where", "  name : String", "  guarded : Bool", "  includes : List String",
             "  defs : List (String × Linkage)", "", "def headers : List Header := ["]
    rows = []
    for h in hs:
        text = open(os.path.join(INC, h)).read()
        g = guard_of(text)
        ds = []
        seen = set()
        for (hh, name, kind) in w.defs:
            if hh == h and (name, kind) not in seen:
                seen.add((name, kind))
                ds.append(f"({lean_str(name)}, .{kind})")
        incs = ", ".join(lean_str(i) for i in includes_of(text))
        rows.append(f"  ⟨{lean_str(h)}, {'true' if g else 'false'}, [{incs}],\n    [{', '.join(ds)}]⟩")
    lines.append(",\n".join(rows))
    lines += ["]", "", f"def clangParsedOk : Bool := {'true' if rc == 0 else 'false'}", "", "end BGVGen", ""]
    open(os.path.join(OUT, "Headers.lean"), "w").write("\n".join(lines))
    # ---------------- Effects.lean
    lines = ["/-! GENERATED by /verif/translator/ast_facts.py from /repo/include — do not edit. -/",
             "namespace BGVGen", "",
             "structure Fn where", "  name : String", "  header : String", "  isConstEntry : Bool", "  writes : List String", "",
             "def functions : List Fn := ["]
    rows = []
    seenf = set()
    for f in w.funcs:
        key = (f["name"], f["hdr"], f["const"], tuple(f["writes"]))
        if key in seenf:
            continue
        seenf.add(key)
        ws = ", ".join(lean_str(x) for x in f["writes"])
        rows.append(f"  ⟨{lean_str(f['name'])}, {lean_str(f['hdr'])}, {'true' if f['const'] else 'false'}, [{ws}]⟩")
    lines.append(",\n".join(rows))
    lines += ["]", "", "end BGVGen", ""]
    open(os.path.join(OUT, "Effects.lean"), "w").write("\n".join(lines))
    # ---------------- EntryPoints.lean
    lines = ["/-! GENERATED by /verif/translator/ast_facts.py from /repo/include — do not edit. -/",
             "namespace BGVGen", "", "/-- (class, public member, number of vertex-index parameters) -/",
             "def entryPoints : List (String × String × Nat) := ["]
    rows = sorted(set(w.entry))
    lines.append(",\n".join(f"  ({lean_str(c)}, {lean_str(m)}, {n})" for (c, m, n) in rows))
    lines += ["]", "", "/-- (header, free function, number of parameters whose type mentions a vertex index) -/",
              "def freeEntryPoints : List (String × String × Nat) := ["]
    frows = sorted(set(w.free))
    lines.append(",\n".join(f"  ({lean_str(h)}, {lean_str(m)}, {n})" for (h, m, n) in frows))
    lines += ["]", "", "end BGVGen", ""]
    open(os.path.join(OUT, "EntryPoints.lean"), "w").write("\n".join(lines))
    summary = dict(headers=len(hs), unguarded=[h for h in hs if not guard_of(open(os.path.join(INC, h)).read())],
                   defs=len(w.defs), strong=[d for d in w.defs if d[2] == "strong"],
                   functions=len(seenf), const_with_writes=[f["name"] for f in w.funcs if f["const"] and f["writes"]],
                   entry_points=len(rows), clang_rc=rc)
    json.dump(summary, sys.stdout, indent=1)
    print()
    if rc != 0:
        sys.stderr.write(err[-2000:])


if __name__ == "__main__":
    main()
