// bgh.cpp — interpreter of the /verif line protocol over the REAL BaseGraph classes.
// Build: g++ -std=c++17 -O1 -g -fsanitize=address,undefined -fno-sanitize-recover=all -I/repo/include bgh.cpp
// Usage: bgh <echo-file> < ops.txt > transcript.txt
// Every input line is echoed to <echo-file>; lines that need an implementation-side
// oracle (hash-set iteration order, Dijkstra pop order, file bytes) are rewritten there so
// that the Lean driver can be fed the same choices.  Output format: see lean/Driver.lean.
#include "BaseGraph/algorithms/paths.hpp"
#include "BaseGraph/algorithms/topology.hpp"
#include "BaseGraph/directed_graph.hpp"
#include "BaseGraph/directed_multigraph.hpp"
#include "BaseGraph/directed_weighted_graph.hpp"
#include "BaseGraph/fileio.hpp"
#include "BaseGraph/undirected_graph.hpp"
#include "BaseGraph/undirected_multigraph.hpp"
#include "BaseGraph/undirected_weighted_graph.hpp"

#include <cmath>
#include <cstdio>
#include <deque>
#include <forward_list>
#include <fstream>
#include <iostream>
#include <map>
#include <memory>
#include <set>
#include <sstream>
#include <string>
#include <unistd.h>
#include <vector>

#include "harness_common.hpp"
#include "harness_algo.hpp"
#include "harness_io.hpp"

using namespace BaseGraph;
typedef std::vector<std::string> Args;

// ---------------------------------------------------------------- dumps
// quiet mode: implicit dumps are dropped from the transcript, so they are not computed either
// (an explicit `dump` request still is)
static bool g_skipDump = false;
template <class Gr> static void dumpBase(std::ostream &o, const Gr &g) {
    size_t n = g.getSize();
    for (size_t i = 0; i < n; ++i)
        o << "N " << i << ": " << guard([&] { return joinSeq(g.getOutNeighbours(i)); }) << "\n";
    for (size_t i = 0; i < n; ++i) {
        o << "H " << i << ": ";
        for (size_t j = 0; j < n; ++j)
            o << guard([&] { return std::string(g.hasEdge(i, j) ? "1" : "0"); });
        o << "\n";
    }
    o << "E " << guard([&] {
        std::ostringstream s;
        auto E = g.edges();
        s << "pre: ";
        bool first = true;
        for (auto it = E.begin(); it != E.end(); ++it) {
            Edge e = *it;
            if (!first) s << " ";
            first = false;
            s << e.first << "," << e.second;
        }
        s << " | post: ";
        first = true;
        auto it = E.begin();
        while (it != E.end()) {
            auto old = it++;
            Edge e = *old;
            if (!first) s << " ";
            first = false;
            s << e.first << "," << e.second;
        }
        s << " | be=" << (E.begin() == E.end() ? 1 : 0);
        // the same through two separate edges() calls per comparison (a view must not own a copy of the graph)
        s << " | two: ";
        first = true;
        size_t guardCount = 0;
        for (auto it2 = g.edges().begin(); it2 != g.edges().end() && guardCount < 100000; ++it2, ++guardCount) {
            Edge e = *it2;
            if (!first) s << " ";
            first = false;
            s << e.first << "," << e.second;
        }
        s << " | be2=" << (g.edges().begin() == g.edges().end() ? 1 : 0);
        return s.str();
    }) << "\n";
    o << "V " << guard([&] {
        std::vector<VertexIndex> vs, ps;
        for (VertexIndex v : g) vs.push_back(v);
        // the same traversal written with post-increment (`*it++`)
        auto it = g.begin();
        while (it != g.end()) ps.push_back(*it++);
        return "pre: " + joinSeq(vs) + " | post: " + joinSeq(ps);
    }) << "\n";
}

template <class Gr> static void dumpDirObs(std::ostream &o, const Gr &g) {
    size_t n = g.getSize();
    o << "O out: " << eachGuard(n, [&](size_t i) { return std::to_string(g.getOutDegree(i)); })
      << " | outs: " << guard([&] { return joinSeq(g.getOutDegrees()); })
      << " | in: " << eachGuard(n, [&](size_t i) { return std::to_string(g.getInDegree(i)); })
      << " | ins: " << guard([&] { return joinSeq(g.getInDegrees()); }) << "\n";
    o << "M " << guard([&] { return showMatrix(g.getAdjacencyMatrix()); }) << "\n";
}
// `getNeighbours` (LabeledUndirectedGraph only) is documented as "same as getOutNeighbours": a line
// appears only when it is not
template <class Gr> static void dumpNbCheck(std::ostream &o, const Gr &g) {
    size_t n = g.getSize();
    for (size_t i = 0; i < n; ++i) {
        std::string a = guard([&] { return joinSeq(g.getNeighbours(i)); }), b = guard([&] { return joinSeq(g.getOutNeighbours(i)); });
        if (a != b) o << "K " << i << ": getNeighbours=" << a << " getOutNeighbours=" << b << "\n";
    }
}
template <class Gr> static void dumpUndObs(std::ostream &o, const Gr &g) {
    size_t n = g.getSize();
    o << "G deg2: " << eachGuard(n, [&](size_t i) { return std::to_string(g.getDegree(i, true)); })
      << " | deg1: " << eachGuard(n, [&](size_t i) { return std::to_string(g.getDegree(i, false)); })
      << " | degs2: " << guard([&] { return joinSeq(g.getDegrees(true)); })
      << " | degs1: " << guard([&] { return joinSeq(g.getDegrees(false)); })
      // the same observers with the flag left out (default argument: self-loops counted twice)
      << " | degd: " << eachGuard(n, [&](size_t i) { return std::to_string(g.getDegree(i)); })
      << " | degsd: " << guard([&] { return joinSeq(g.getDegrees()); })
      << " | Md=M2: " << guard([&] { return std::string(g.getAdjacencyMatrix() == g.getAdjacencyMatrix(true) ? "1" : "0"); }) << "\n";
    o << "M2 " << guard([&] { return showMatrix(g.getAdjacencyMatrix(true)); }) << "\n";
    o << "M1 " << guard([&] { return showMatrix(g.getAdjacencyMatrix(false)); }) << "\n";
}


// ---------------------------------------------------------------- file routines (writers)
// arithmetic labels are written with the library's DEFAULT formatter argument (std::to_string), the others with the
// harness codec
template <class L, class Gr> static typename std::enable_if<std::is_arithmetic<L>::value>::type writeTextAs(const Gr &g, const std::string &path) {
    io::writeTextEdgeList(g, path);
}
template <class L, class Gr> static typename std::enable_if<!std::is_arithmetic<L>::value>::type writeTextAs(const Gr &g, const std::string &path) {
    io::writeTextEdgeList(g, path, std::function<std::string(const L &)>([](const L &l) { return TextCodec<L>::to(l); }));
}
template <class L, class Gr> static typename std::enable_if<TextCodec<L>::ok, bool>::type writeTextVerb(const Gr &g, std::string &out) {
    std::string path = scratchPath();
    spit(path, "stale bytes of an earlier, longer file\n0 1 2 3 4 5 6 7 8 9\n"); // writers must replace, not extend
    std::string r = guard([&] {
        writeTextAs<L>(g, path);
        return std::string("ok");
    });
    out = "R " + r + "\n";
    if (r == "ok") out += "F " + toHex(slurp(path)) + "\n";
    unlink(path.c_str());
    return true;
}
template <class L, class Gr> static typename std::enable_if<std::is_same<L, NoLabel>::value, bool>::type writeTextVerb(const Gr &g, std::string &out) {
    std::string path = scratchPath();
    spit(path, "stale bytes of an earlier, longer file\n0 1 2 3 4 5 6 7 8 9\n"); // writers must replace, not extend
    std::string r = guard([&] { io::writeTextEdgeList(g, path); return std::string("ok"); });
    out = "R " + r + "\n";
    if (r == "ok") out += "F " + toHex(slurp(path)) + "\n";
    unlink(path.c_str());
    return true;
}
template <class L, class Gr> static typename std::enable_if<!TextCodec<L>::ok && !std::is_same<L, NoLabel>::value, bool>::type writeTextVerb(const Gr &, std::string &) { return false; }

template <class L> struct BinOk { static const bool ok = std::is_arithmetic<L>::value; };
template <class L, class Gr> static typename std::enable_if<BinOk<L>::ok || std::is_same<L, NoLabel>::value, bool>::type writeBinVerb(const Gr &g, std::string &out) {
    std::string path = scratchPath();
    spit(path, "stale bytes of an earlier, longer file\n0 1 2 3 4 5 6 7 8 9\n"); // writers must replace, not extend
    std::string r = guard([&] { io::writeBinaryEdgeList(g, path); return std::string("ok"); });
    out = "R " + r + "\n";
    if (r == "ok") out += "F " + toHex(slurp(path)) + "\n";
    unlink(path.c_str());
    return true;
}
template <class L, class Gr> static typename std::enable_if<!(BinOk<L>::ok || std::is_same<L, NoLabel>::value), bool>::type writeBinVerb(const Gr &, std::string &) { return false; }

// ---------------------------------------------------------------- slots
struct SlotBase {
    virtual ~SlotBase() {}
    virtual std::string cls() const = 0;
    virtual std::string kind() const = 0;
    virtual void dump(std::ostream &o, int s) = 0;
    virtual bool mutate(const std::string &verb, const Args &a, std::string &out) = 0;
    virtual bool query(const std::string &name, const Args &a, std::string &out) = 0;
    virtual SlotBase *clone() const = 0;
    virtual bool assignFrom(const SlotBase *src) = 0; // *this = *src (same dynamic type)
    virtual SlotBase *moveClone() const = 0;              // move-constructed from a temporary copy
    virtual bool moveAssignFrom(const SlotBase *src) = 0; // *this = std::move(temporary copy of *src)
    virtual bool eq(const SlotBase *o, bool &e, bool &ne) const = 0;
    // conversions / algorithms / io: default "not supported"
    virtual SlotBase *reversed(std::string &out) const { return nullptr; }
    virtual SlotBase *toDirected(std::string &out) const { return nullptr; }
    virtual SlotBase *ofDirected(std::string &out) const { return nullptr; }
    virtual SlotBase *subgraph(const std::unordered_set<VertexIndex> &S, bool remap, std::string &out) const { return nullptr; }
    virtual bool algo(const std::string &verb, const Args &a, std::string &out, std::string &echo) { return false; }
    virtual bool io(const std::string &verb, const Args &a, std::string &out) { return false; }
    // roundtriptext / roundtripbin: write this graph to a scratch file and load it back
    virtual SlotBase *roundtrip(bool text, const std::string &kind, std::string &out) const { return nullptr; }
};


// label tokens: integers (LK<L>::of), or, for std::string labels only, `?<hex>`: the bytes themselves
template <class L> struct LabTok {
    static bool parse(const std::string &t, L &out) { long long l; if (!pl(t, l)) return false; out = LK<L>::of(l); return true; }
};
template <> struct LabTok<std::string> {
    static bool parse(const std::string &t, std::string &out) {
        if (!t.empty() && t[0] == '?') return fromHex(t.substr(1), out);
        long long l; if (!pl(t, l)) return false; out = LK<std::string>::of(l); return true;
    }
};
template <class L, bool UND> struct GrSlot;
template <class L, bool UND> static SlotBase *roundtripImpl(const GrSlot<L, UND> &self, bool text, std::string &out);

template <class L, bool UND> struct GrSlot : SlotBase {
    typedef typename std::conditional<UND, LabeledUndirectedGraph<L>, LabeledDirectedGraph<L>>::type Gr;
    Gr g;
    GrSlot(size_t n) : g(n) {}
    GrSlot(const Gr &h) : g(h) {}
    std::string cls() const override { return UND ? "und" : "dir"; }
    std::string kind() const override { return LK<L>::name(); }
    void dump(std::ostream &o, int s) override {
        if (g_skipDump) return;
        o << "D " << s << " " << cls() << " size=" << g.getSize() << " en=" << g.getEdgeNumber() << "\n";
        dumpBase(o, g);
        if (LK<L>::labelled) {
            size_t n = g.getSize();
            for (size_t i = 0; i < n; ++i) {
                o << "L " << i << ":";
                for (size_t j = 0; j < n; ++j)
                    o << " " << guard([&] { return LK<L>::show(g.getEdgeLabel(i, j, true)); }) << "/"
                      << guard([&] { return LK<L>::show(g.getEdgeLabel(i, j, false)); });
                o << "\n";
            }
        }
        dumpObs(o);
    }
    template <bool U = UND> typename std::enable_if<U>::type dumpObs(std::ostream &o) { dumpNbCheck(o, g); dumpUndObs(o, g); }
    template <bool U = UND> typename std::enable_if<!U>::type dumpObs(std::ostream &o) { dumpDirObs(o, g); }

    template <bool U = UND> typename std::enable_if<!U, bool>::type recip(const Args &a, std::string &out) {
        VertexIndex i, j; L lab; bool f;
        if (a.size() != 4 || !pv(a[0], i) || !pv(a[1], j) || !LabTok<L>::parse(a[2], lab) || !pf(a[3], f)) return false;
        out = guard([&] {
            if (LK<L>::labelled) { if (g_dflt) g.addReciprocalEdge(i, j, lab); else g.addReciprocalEdge(i, j, lab, f); }
            else { if (g_dflt) g.addReciprocalEdge(i, j); else g.addReciprocalEdge(i, j, f); }
            return std::string("ok");
        });
        return true;
    }
    template <bool U = UND> typename std::enable_if<U, bool>::type recip(const Args &, std::string &) { return false; }

    bool mutate(const std::string &verb, const Args &a, std::string &out) override {
        VertexIndex i, j; L lab; bool f; size_t n;
        if (verb == "resize") {
            if (a.size() != 1 || !ps(a[0], n)) return false;
            out = guard([&] { g.resize(n); return std::string("ok"); });
            return true;
        }
        if (verb == "addEdge") {
            if (a.size() != 4 || !pv(a[0], i) || !pv(a[1], j) || !LabTok<L>::parse(a[2], lab) || !pf(a[3], f)) return false;
            out = guard([&] {
                if (LK<L>::labelled) { if (g_dflt) g.addEdge(i, j, lab); else g.addEdge(i, j, lab, f); }
                else { if (g_dflt) g.addEdge(i, j); else g.addEdge(i, j, f); }
                return std::string("ok");
            });
            return true;
        }
        if (verb == "addReciprocalEdge") return recip(a, out);
        if (verb == "setEdgeLabel") {
            if (a.size() != 4 || !pv(a[0], i) || !pv(a[1], j) || !LabTok<L>::parse(a[2], lab) || !pf(a[3], f)) return false;
            out = guard([&] { if (g_dflt) g.setEdgeLabel(i, j, lab); else g.setEdgeLabel(i, j, lab, f); return std::string("ok"); });
            return true;
        }
        if (verb == "removeEdge") {
            if (a.size() != 2 || !pv(a[0], i) || !pv(a[1], j)) return false;
            out = guard([&] { g.removeEdge(i, j); return std::string("ok"); });
            return true;
        }
        if (verb == "removeFrontEdge") {
            // the natural emptying loop `g.removeEdge(v, g.getOutNeighbours(v).front())`: the second argument is a
            // reference into the very list the call edits
            if (a.size() != 1 || !pv(a[0], i)) return false;
            out = guard([&] {
                const auto &nb = g.getOutNeighbours(i);
                if (nb.empty()) return std::string("none");
                g.removeEdge(i, nb.front());
                return std::string("ok");
            });
            return true;
        }
        if (verb == "removeSelfLoops" && a.empty()) { out = guard([&] { g.removeSelfLoops(); return std::string("ok"); }); return true; }
        if (verb == "removeDuplicateEdges" && a.empty()) { out = guard([&] { g.removeDuplicateEdges(); return std::string("ok"); }); return true; }
        if (verb == "clearEdges" && a.empty()) { out = guard([&] { g.clearEdges(); return std::string("ok"); }); return true; }
        if (verb == "removeVertexFromEdgeList") {
            if (a.size() != 1 || !pv(a[0], i)) return false;
            out = guard([&] { g.removeVertexFromEdgeList(i); return std::string("ok"); });
            return true;
        }
        return false;
    }
    template <bool U = UND> typename std::enable_if<!U, bool>::type degQ(const std::string &name, const Args &a, std::string &out) {
        VertexIndex v;
        if (name == "getInDegree" && a.size() == 1 && pv(a[0], v)) { out = guard([&] { return std::to_string(g.getInDegree(v)); }); return true; }
        if (name == "getOutDegree" && a.size() == 1 && pv(a[0], v)) { out = guard([&] { return std::to_string(g.getOutDegree(v)); }); return true; }
        return false;
    }
    template <bool U = UND> typename std::enable_if<U, bool>::type degQ(const std::string &name, const Args &a, std::string &out) {
        VertexIndex v; bool t;
        if (name == "getDegree" && a.size() == 2 && pv(a[0], v) && pf(a[1], t)) { const bool df = g_dflt; out = guard([&] { return std::to_string(df ? g.getDegree(v) : g.getDegree(v, t)); }); return true; }
        if (name == "getNeighbours" && a.size() == 1 && pv(a[0], v)) { out = guard([&] { return joinSeq(g.getNeighbours(v)); }); return true; }
        return false;
    }
    bool query(const std::string &name, const Args &a, std::string &out) override {
        VertexIndex i, j; long long l; bool t;
        if (name == "hasEdge" && a.size() == 2 && pv(a[0], i) && pv(a[1], j)) { out = guard([&] { return std::string(g.hasEdge(i, j) ? "1" : "0"); }); return true; }
        { L lab; if (name == "hasEdgeL" && a.size() == 3 && pv(a[0], i) && pv(a[1], j) && LabTok<L>::parse(a[2], lab)) { out = guard([&] { return std::string(g.hasEdge(i, j, lab) ? "1" : "0"); }); return true; } }
        if (name == "getEdgeLabel" && a.size() == 3 && pv(a[0], i) && pv(a[1], j) && pf(a[2], t)) { const bool df = g_dflt; out = guard([&] { return LK<L>::show(df ? g.getEdgeLabel(i, j) : g.getEdgeLabel(i, j, t)); }); return true; }
        if (name == "getOutNeighbours" && a.size() == 1 && pv(a[0], i)) { out = guard([&] { return joinSeq(g.getOutNeighbours(i)); }); return true; }
        return degQ(name, a, out);
    }
    SlotBase *clone() const override { return new GrSlot<L, UND>(g); }
    SlotBase *moveClone() const override { auto tmp = g; auto *r = new GrSlot<L, UND>(tmp); r->g = decltype(g)(std::move(tmp)); return r; }
    bool moveAssignFrom(const SlotBase *src) override {
        auto p = dynamic_cast<const GrSlot<L, UND> *>(src);
        if (!p) return false;
        auto tmp = p->g;
        g = std::move(tmp);
        return true;
    }
    bool assignFrom(const SlotBase *src) override {
        auto p = dynamic_cast<const GrSlot<L, UND> *>(src);
        if (!p) return false;
        g = p->g;
        return true;
    }
    bool eq(const SlotBase *o, bool &e, bool &ne) const override {
        auto p = dynamic_cast<const GrSlot<L, UND> *>(o);
        if (!p) return false;
        e = (g == p->g);
        ne = (g != p->g);
        return true;
    }
    template <bool U = UND> typename std::enable_if<!U, SlotBase *>::type rev(std::string &out) const {
        SlotBase *r = nullptr;
        out = guard([&] { r = new GrSlot<L, false>(g.getReversedGraph()); return std::string("ok"); });
        return r;
    }
    template <bool U = UND> typename std::enable_if<U, SlotBase *>::type rev(std::string &out) const { out = "bad-op"; return nullptr; }
    SlotBase *reversed(std::string &out) const override { return rev(out); }
    template <bool U = UND> typename std::enable_if<U, SlotBase *>::type toDir(std::string &out) const {
        SlotBase *r = nullptr;
        out = guard([&] { r = new GrSlot<L, false>(g.getDirectedGraph()); return std::string("ok"); });
        return r;
    }
    template <bool U = UND> typename std::enable_if<!U, SlotBase *>::type toDir(std::string &out) const { out = "bad-op"; return nullptr; }
    SlotBase *toDirected(std::string &out) const override { return toDir(out); }
    template <bool U = UND> typename std::enable_if<!U, SlotBase *>::type ofDir(std::string &out) const {
        SlotBase *r = nullptr;
        out = guard([&] { r = new GrSlot<L, true>(LabeledUndirectedGraph<L>(g)); return std::string("ok"); });
        return r;
    }
    template <bool U = UND> typename std::enable_if<U, SlotBase *>::type ofDir(std::string &out) const { out = "bad-op"; return nullptr; }
    SlotBase *ofDirected(std::string &out) const override { return ofDir(out); }
    SlotBase *subgraph(const std::unordered_set<VertexIndex> &S, bool remap, std::string &out) const override {
        SlotBase *r = nullptr;
        out = guard([&] {
            if (!remap) {
                r = new GrSlot<L, UND>(algorithms::getSubgraph(g, S));
                return std::string("ok");
            }
            auto pr = algorithms::getSubgraphWithRemap(g, S);
            r = new GrSlot<L, UND>(pr.first);
            std::map<VertexIndex, VertexIndex> sorted(pr.second.begin(), pr.second.end());
            std::string s = "ok map=";
            bool first = true;
            for (auto &kv : sorted) {
                if (!first) s += " ";
                first = false;
                s += std::to_string(kv.first) + ":" + std::to_string(kv.second);
            }
            return s;
        });
        return r;
    }
    bool algo(const std::string &verb, const Args &a, std::string &out, std::string &echo) override {
        return runAlgo(g, verb, a, out, echo);
    }
    SlotBase *roundtrip(bool text, const std::string &kind, std::string &out) const override {
        if (kind != LK<L>::name()) return nullptr;
        return roundtripImpl<L, UND>(*this, text, out);
    }
    bool io(const std::string &verb, const Args &a, std::string &out) override {
        if (a.size() != 1 || a[0] != LK<L>::name()) return false;
        if (verb == "writetext") return writeTextVerb<L>(g, out);
        if (verb == "writebin") return writeBinVerb<L>(g, out);
        return false;
    }
};

template <bool UND> struct MgSlot : SlotBase {
    typedef typename std::conditional<UND, UndirectedMultigraph, DirectedMultigraph>::type Gr;
    Gr g;
    MgSlot(size_t n) : g(n) {}
    MgSlot(const Gr &h) : g(h) {}
    std::string cls() const override { return UND ? "umulti" : "dmulti"; }
    std::string kind() const override { return "-"; }
    void dump(std::ostream &o, int s) override {
        if (g_skipDump) return;
        o << "D " << s << " " << cls() << " size=" << g.getSize() << " en=" << g.getEdgeNumber()
          << " tot=" << g.getTotalEdgeNumber() << "\n";
        dumpBase(o, g);
        size_t n = g.getSize();
        for (size_t i = 0; i < n; ++i)
            o << "X " << i << ": " << eachGuard(n, [&](size_t j) { return std::to_string(g.getEdgeMultiplicity(i, j)); }) << "\n";
        dumpObs(o);
    }
    template <bool U = UND> typename std::enable_if<U>::type dumpObs(std::ostream &o) { dumpUndObs(o, g); }
    template <bool U = UND> typename std::enable_if<!U>::type dumpObs(std::ostream &o) { dumpDirObs(o, g); }

    template <bool U = UND> typename std::enable_if<!U, bool>::type recip(const std::string &verb, const Args &a, std::string &out) {
        VertexIndex i, j; unsigned k; bool f;
        if (verb == "addReciprocalEdge") {
            if (a.size() != 3 || !pv(a[0], i) || !pv(a[1], j) || !pf(a[2], f)) return false;
            out = guard([&] { if (g_dflt) g.addReciprocalEdge(i, j); else g.addReciprocalEdge(i, j, f); return std::string("ok"); });
            return true;
        }
        if (a.size() != 4 || !pv(a[0], i) || !pv(a[1], j) || !pv(a[2], k) || !pf(a[3], f)) return false;
        out = guard([&] { if (g_dflt) g.addReciprocalMultiedge(i, j, k); else g.addReciprocalMultiedge(i, j, k, f); return std::string("ok"); });
        return true;
    }
    template <bool U = UND> typename std::enable_if<U, bool>::type recip(const std::string &, const Args &, std::string &) { return false; }

    bool mutate(const std::string &verb, const Args &a, std::string &out) override {
        VertexIndex i, j; unsigned k; bool f; size_t n;
        if (verb == "resize") {
            if (a.size() != 1 || !ps(a[0], n)) return false;
            out = guard([&] { g.resize(n); return std::string("ok"); });
            return true;
        }
        if (verb == "addEdge") {
            if (a.size() != 3 || !pv(a[0], i) || !pv(a[1], j) || !pf(a[2], f)) return false;
            out = guard([&] { if (g_dflt) g.addEdge(i, j); else g.addEdge(i, j, f); return std::string("ok"); });
            return true;
        }
        if (verb == "addMultiedge") {
            if (a.size() != 4 || !pv(a[0], i) || !pv(a[1], j) || !pv(a[2], k) || !pf(a[3], f)) return false;
            out = guard([&] { if (g_dflt) g.addMultiedge(i, j, k); else g.addMultiedge(i, j, k, f); return std::string("ok"); });
            return true;
        }
        if (verb == "addReciprocalEdge" || verb == "addReciprocalMultiedge") return recip(verb, a, out);
        if (verb == "removeEdge") {
            if (a.size() != 2 || !pv(a[0], i) || !pv(a[1], j)) return false;
            out = guard([&] { g.removeEdge(i, j); return std::string("ok"); });
            return true;
        }
        if (verb == "removeFrontEdge") {
            // the natural emptying loop `g.removeEdge(v, g.getOutNeighbours(v).front())`: the second argument is a
            // reference into the very list the call edits
            if (a.size() != 1 || !pv(a[0], i)) return false;
            out = guard([&] {
                const auto &nb = g.getOutNeighbours(i);
                if (nb.empty()) return std::string("none");
                g.removeEdge(i, nb.front());
                return std::string("ok");
            });
            return true;
        }
        if (verb == "removeMultiedge") {
            if (a.size() != 3 || !pv(a[0], i) || !pv(a[1], j) || !pv(a[2], k)) return false;
            out = guard([&] { g.removeMultiedge(i, j, k); return std::string("ok"); });
            return true;
        }
        if (verb == "setEdgeMultiplicity") {
            if (a.size() != 3 || !pv(a[0], i) || !pv(a[1], j) || !pv(a[2], k)) return false;
            out = guard([&] { g.setEdgeMultiplicity(i, j, k); return std::string("ok"); });
            return true;
        }
        if (verb == "removeSelfLoops" && a.empty()) { out = guard([&] { g.removeSelfLoops(); return std::string("ok"); }); return true; }
        if (verb == "removeDuplicateEdges" && a.empty()) { out = guard([&] { g.removeDuplicateEdges(); return std::string("ok"); }); return true; }
        if (verb == "clearEdges" && a.empty()) { out = guard([&] { g.clearEdges(); return std::string("ok"); }); return true; }
        if (verb == "removeVertexFromEdgeList") {
            if (a.size() != 1 || !pv(a[0], i)) return false;
            out = guard([&] { g.removeVertexFromEdgeList(i); return std::string("ok"); });
            return true;
        }
        return false;
    }
    template <bool U = UND> typename std::enable_if<!U, bool>::type degQ(const std::string &name, const Args &a, std::string &out) {
        VertexIndex v;
        if (name == "getInDegree" && a.size() == 1 && pv(a[0], v)) { out = guard([&] { return std::to_string(g.getInDegree(v)); }); return true; }
        if (name == "getOutDegree" && a.size() == 1 && pv(a[0], v)) { out = guard([&] { return std::to_string(g.getOutDegree(v)); }); return true; }
        return false;
    }
    template <bool U = UND> typename std::enable_if<U, bool>::type degQ(const std::string &name, const Args &a, std::string &out) {
        VertexIndex v; bool t;
        if (name == "getDegree" && a.size() == 2 && pv(a[0], v) && pf(a[1], t)) { const bool df = g_dflt; out = guard([&] { return std::to_string(df ? g.getDegree(v) : g.getDegree(v, t)); }); return true; }
        return false;
    }
    bool query(const std::string &name, const Args &a, std::string &out) override {
        VertexIndex i, j;
        if (name == "hasEdge" && a.size() == 2 && pv(a[0], i) && pv(a[1], j)) { out = guard([&] { return std::string(g.hasEdge(i, j) ? "1" : "0"); }); return true; }
        if (name == "getEdgeMultiplicity" && a.size() == 2 && pv(a[0], i) && pv(a[1], j)) { out = guard([&] { return std::to_string(g.getEdgeMultiplicity(i, j)); }); return true; }
        if (name == "getOutNeighbours" && a.size() == 1 && pv(a[0], i)) { out = guard([&] { return joinSeq(g.getOutNeighbours(i)); }); return true; }
        return degQ(name, a, out);
    }
    SlotBase *clone() const override { return new MgSlot<UND>(g); }
    SlotBase *moveClone() const override { auto tmp = g; auto *r = new MgSlot<UND>(tmp); r->g = decltype(g)(std::move(tmp)); return r; }
    bool moveAssignFrom(const SlotBase *src) override {
        auto p = dynamic_cast<const MgSlot<UND> *>(src);
        if (!p) return false;
        auto tmp = p->g;
        g = std::move(tmp);
        return true;
    }
    bool assignFrom(const SlotBase *src) override {
        auto p = dynamic_cast<const MgSlot<UND> *>(src);
        if (!p) return false;
        g = p->g;
        return true;
    }
    bool eq(const SlotBase *o, bool &e, bool &ne) const override {
        auto p = dynamic_cast<const MgSlot<UND> *>(o);
        if (!p) return false;
        e = (g == p->g);
        ne = (g != p->g);
        return true;
    }
    // the searches see a multigraph through its public asLabeledGraph() view (multiplicities ignored)
    bool algo(const std::string &verb, const Args &a, std::string &out, std::string &echo) override {
        if (verb == "dijkstra") return false;
        return runAlgo(g.asLabeledGraph(), verb, a, out, echo);
    }
};

template <bool UND> struct WgSlot : SlotBase {
    typedef typename std::conditional<UND, UndirectedWeightedGraph, DirectedWeightedGraph>::type Gr;
    Gr g;
    WgSlot(size_t n) : g(n) {}
    WgSlot(const Gr &h) : g(h) {}
    std::string cls() const override { return UND ? "uw" : "dw"; }
    std::string kind() const override { return "-"; }
    void dump(std::ostream &o, int s) override {
        if (g_skipDump) return;
        o << "D " << s << " " << cls() << " size=" << g.getSize() << " en=" << g.getEdgeNumber()
          << " tot=" << showW(g.getTotalWeight()) << "\n";
        dumpBase(o, g);
        size_t n = g.getSize();
        for (size_t i = 0; i < n; ++i) {
            o << "W " << i << ":";
            for (size_t j = 0; j < n; ++j)
                o << " " << guard([&] { return showW(g.getEdgeWeight(i, j, true)); }) << "/"
                  << guard([&] { return showW(g.getEdgeWeight(i, j, false)); });
            o << "\n";
        }
        o << "WM " << guard([&] { return showWMatrix(g.getWeightMatrix()); }) << "\n";
        dumpObs(o);
    }
    template <bool U = UND> typename std::enable_if<U>::type dumpObs(std::ostream &o) { dumpUndObs(o, g); }
    template <bool U = UND> typename std::enable_if<!U>::type dumpObs(std::ostream &o) { dumpDirObs(o, g); }

    template <bool U = UND> typename std::enable_if<!U, bool>::type recip(const Args &a, std::string &out) {
        VertexIndex i, j; bool f;
        if (a.size() != 3 || !pv(a[0], i) || !pv(a[1], j) || !pf(a[2], f)) return false;
        out = guard([&] { g.addReciprocalEdge(i, j, f); return std::string("ok"); });
        return true;
    }
    template <bool U = UND> typename std::enable_if<U, bool>::type recip(const Args &, std::string &) { return false; }

    bool mutate(const std::string &verb, const Args &a, std::string &out) override {
        VertexIndex i, j; long double w; bool f; size_t n;
        if (verb == "resize") {
            if (a.size() != 1 || !ps(a[0], n)) return false;
            out = guard([&] { g.resize(n); return std::string("ok"); });
            return true;
        }
        if (verb == "addEdge") {
            if (a.size() != 4 || !pv(a[0], i) || !pv(a[1], j) || !pw(a[2], w) || !pf(a[3], f)) return false;
            out = guard([&] { if (g_dflt) g.addEdge(i, j, (double)(w / 4.0L * g_wscale)); else g.addEdge(i, j, (double)(w / 4.0L * g_wscale), f); return std::string("ok"); });
            return true;
        }
        if (verb == "addReciprocalEdge") return recip(a, out);
        if (verb == "setEdgeWeight") {
            if (a.size() != 3 || !pv(a[0], i) || !pv(a[1], j) || !pw(a[2], w)) return false;
            out = guard([&] { g.setEdgeWeight(i, j, (double)(w / 4.0L * g_wscale)); return std::string("ok"); });
            return true;
        }
        if (verb == "removeEdge") {
            if (a.size() != 2 || !pv(a[0], i) || !pv(a[1], j)) return false;
            out = guard([&] { g.removeEdge(i, j); return std::string("ok"); });
            return true;
        }
        if (verb == "removeFrontEdge") {
            // the natural emptying loop `g.removeEdge(v, g.getOutNeighbours(v).front())`: the second argument is a
            // reference into the very list the call edits
            if (a.size() != 1 || !pv(a[0], i)) return false;
            out = guard([&] {
                const auto &nb = g.getOutNeighbours(i);
                if (nb.empty()) return std::string("none");
                g.removeEdge(i, nb.front());
                return std::string("ok");
            });
            return true;
        }
        if (verb == "removeSelfLoops" && a.empty()) { out = guard([&] { g.removeSelfLoops(); return std::string("ok"); }); return true; }
        if (verb == "removeDuplicateEdges" && a.empty()) { out = guard([&] { g.removeDuplicateEdges(); return std::string("ok"); }); return true; }
        if (verb == "clearEdges" && a.empty()) { out = guard([&] { g.clearEdges(); return std::string("ok"); }); return true; }
        if (verb == "removeVertexFromEdgeList") {
            if (a.size() != 1 || !pv(a[0], i)) return false;
            out = guard([&] { g.removeVertexFromEdgeList(i); return std::string("ok"); });
            return true;
        }
        return false;
    }
    template <bool U = UND> typename std::enable_if<!U, bool>::type degQ(const std::string &name, const Args &a, std::string &out) {
        VertexIndex v;
        if (name == "getInDegree" && a.size() == 1 && pv(a[0], v)) { out = guard([&] { return std::to_string(g.getInDegree(v)); }); return true; }
        if (name == "getOutDegree" && a.size() == 1 && pv(a[0], v)) { out = guard([&] { return std::to_string(g.getOutDegree(v)); }); return true; }
        return false;
    }
    template <bool U = UND> typename std::enable_if<U, bool>::type degQ(const std::string &name, const Args &a, std::string &out) {
        VertexIndex v; bool t;
        if (name == "getDegree" && a.size() == 2 && pv(a[0], v) && pf(a[1], t)) { const bool df = g_dflt; out = guard([&] { return std::to_string(df ? g.getDegree(v) : g.getDegree(v, t)); }); return true; }
        return false;
    }
    bool query(const std::string &name, const Args &a, std::string &out) override {
        VertexIndex i, j; bool t;
        if (name == "hasEdge" && a.size() == 2 && pv(a[0], i) && pv(a[1], j)) { out = guard([&] { return std::string(g.hasEdge(i, j) ? "1" : "0"); }); return true; }
        if (name == "getEdgeWeight" && a.size() == 3 && pv(a[0], i) && pv(a[1], j) && a[2] == "d") { out = guard([&] { return showW(g.getEdgeWeight(i, j)); }); return true; }
        if (name == "getEdgeWeight" && a.size() == 3 && pv(a[0], i) && pv(a[1], j) && pf(a[2], t)) { out = guard([&] { return showW(g.getEdgeWeight(i, j, t)); }); return true; }
        if (name == "getOutNeighbours" && a.size() == 1 && pv(a[0], i)) { out = guard([&] { return joinSeq(g.getOutNeighbours(i)); }); return true; }
        return degQ(name, a, out);
    }
    SlotBase *clone() const override { return new WgSlot<UND>(g); }
    SlotBase *moveClone() const override { auto tmp = g; auto *r = new WgSlot<UND>(tmp); r->g = decltype(g)(std::move(tmp)); return r; }
    bool moveAssignFrom(const SlotBase *src) override {
        auto p = dynamic_cast<const WgSlot<UND> *>(src);
        if (!p) return false;
        auto tmp = p->g;
        g = std::move(tmp);
        return true;
    }
    bool assignFrom(const SlotBase *src) override {
        auto p = dynamic_cast<const WgSlot<UND> *>(src);
        if (!p) return false;
        g = p->g;
        return true;
    }
    bool eq(const SlotBase *o, bool &e, bool &ne) const override {
        auto p = dynamic_cast<const WgSlot<UND> *>(o);
        if (!p) return false;
        e = (g == p->g);
        ne = (g != p->g);
        return true;
    }
    bool algo(const std::string &verb, const Args &a, std::string &out, std::string &echo) override {
        if (verb == "dijkstra") return runDijkstra(g, verb, a, out, echo);
        // the hop-count searches see a weighted graph through its public asLabeledGraph() view
        return runAlgo(g.asLabeledGraph(), verb, a, out, echo);
    }
};

// ---------------------------------------------------------------- factories
template <bool UND> static SlotBase *newGr(const std::string &kind, size_t n) {
    if (kind == "none") return new GrSlot<NoLabel, UND>(n);
    if (kind == "int") return new GrSlot<int, UND>(n);
    if (kind == "uint") return new GrSlot<unsigned, UND>(n);
    if (kind == "dbl") return new GrSlot<double, UND>(n);
    if (kind == "chr") return new GrSlot<char, UND>(n);
    if (kind == "str") return new GrSlot<std::string, UND>(n);
    if (kind == "pt") return new GrSlot<Pt, UND>(n);
    if (kind == "i16") return new GrSlot<short, UND>(n);
    if (kind == "i64") return new GrSlot<long long, UND>(n);
    if (kind == "flt") return new GrSlot<float, UND>(n);
    return nullptr;
}
static SlotBase *newSlot(const std::string &cls, const std::string &kind, size_t n) {
    if (cls == "dir") return newGr<false>(kind, n);
    if (cls == "und") return newGr<true>(kind, n);
    if (cls == "dmulti") return new MgSlot<false>(n);
    if (cls == "umulti") return new MgSlot<true>(n);
    if (cls == "dw") return new WgSlot<false>(n);
    if (cls == "uw") return new WgSlot<true>(n);
    return nullptr;
}

// edge-list constructors -------------------------------------------------
template <class Gr, class Elem, class Slot> static SlotBase *ctorFrom(const std::string &container, const std::vector<Elem> &es, std::string &out) {
    SlotBase *r = nullptr;
    out = guard([&] {
        if (container == "vector") { r = new Slot(Gr(es)); }
        else if (container == "list") { std::list<Elem> c(es.begin(), es.end()); r = new Slot(Gr(c)); }
        else if (container == "deque") { std::deque<Elem> c(es.begin(), es.end()); r = new Slot(Gr(c)); }
        else if (container == "flist") { std::forward_list<Elem> c(es.begin(), es.end()); r = new Slot(Gr(c)); }
        else return std::string("bad-op");
        return std::string("ok");
    });
    return r;
}
template <class L, bool UND> static SlotBase *ctorGr(const std::string &container, const std::vector<std::array<long long, 3>> &t, std::string &out) {
    typedef typename GrSlot<L, UND>::Gr Gr;
    std::vector<LabeledEdge<L>> es;
    for (auto &x : t) es.push_back(LabeledEdge<L>((VertexIndex)x[0], (VertexIndex)x[1], LK<L>::of(x[2])));
    return ctorFrom<Gr, LabeledEdge<L>, GrSlot<L, UND>>(container, es, out);
}
template <bool UND> static SlotBase *ctorNone(const std::string &container, const std::vector<std::array<long long, 3>> &t, std::string &out) {
    typedef typename GrSlot<NoLabel, UND>::Gr Gr;
    std::vector<Edge> es;
    for (auto &x : t) es.push_back(Edge((VertexIndex)x[0], (VertexIndex)x[1]));
    if (container == "set") {
        SlotBase *r = nullptr;
        out = guard([&] { std::set<Edge> c(es.begin(), es.end()); r = new GrSlot<NoLabel, UND>(Gr(c)); return std::string("ok"); });
        return r;
    }
    return ctorFrom<Gr, Edge, GrSlot<NoLabel, UND>>(container, es, out);
}
template <bool UND> static SlotBase *ctorGrK(const std::string &kind, const std::string &container, const std::vector<std::array<long long, 3>> &t, std::string &out) {
    if (kind == "none") return ctorNone<UND>(container, t, out);
    if (kind == "int") return ctorGr<int, UND>(container, t, out);
    if (kind == "uint") return ctorGr<unsigned, UND>(container, t, out);
    if (kind == "dbl") return ctorGr<double, UND>(container, t, out);
    if (kind == "chr") return ctorGr<char, UND>(container, t, out);
    if (kind == "str") return ctorGr<std::string, UND>(container, t, out);
    if (kind == "pt") return ctorGr<Pt, UND>(container, t, out);
    out = "bad-op";
    return nullptr;
}
template <bool UND> static SlotBase *ctorMg(const std::string &container, const std::vector<std::array<long long, 3>> &t, std::string &out) {
    typedef typename MgSlot<UND>::Gr Gr;
    std::vector<LabeledEdge<EdgeMultiplicity>> es;
    for (auto &x : t) es.push_back(LabeledEdge<EdgeMultiplicity>((VertexIndex)x[0], (VertexIndex)x[1], (EdgeMultiplicity)x[2]));
    return ctorFrom<Gr, LabeledEdge<EdgeMultiplicity>, MgSlot<UND>>(container, es, out);
}
#ifdef BGH_WEIGHTED_CTOR
template <bool UND> static SlotBase *ctorWg(const std::string &container, const std::vector<std::array<long long, 3>> &t, std::string &out) {
    typedef typename WgSlot<UND>::Gr Gr;
    std::vector<LabeledEdge<EdgeWeight>> es;
    for (auto &x : t) es.push_back(LabeledEdge<EdgeWeight>((VertexIndex)x[0], (VertexIndex)x[1], x[2] / 4.0));
    return ctorFrom<Gr, LabeledEdge<EdgeWeight>, WgSlot<UND>>(container, es, out);
}
#endif


// ---------------------------------------------------------------- file routines (loaders)
static std::string showNames(const std::vector<std::string> &names) {
    std::string s = "names=";
    for (size_t i = 0; i < names.size(); ++i) { if (i) s += ","; s += toHex(names[i]); }
    return s;
}
template <class L> static std::pair<LabeledDirectedGraph<L>, std::vector<std::string>>
loadTextG(std::false_type, const std::string &path, bool named, const std::function<L(const std::string &)> &f) {
    return named ? io::loadTextVertexLabeledEdgeList<LabeledDirectedGraph, L>(path, f) : io::loadTextEdgeList<LabeledDirectedGraph, L>(path, f);
}
template <class L> static std::pair<LabeledUndirectedGraph<L>, std::vector<std::string>>
loadTextG(std::true_type, const std::string &path, bool named, const std::function<L(const std::string &)> &f) {
    return named ? io::loadTextVertexLabeledEdgeList<LabeledUndirectedGraph, L>(path, f) : io::loadTextEdgeList<LabeledUndirectedGraph, L>(path, f);
}
static std::pair<LabeledDirectedGraph<NoLabel>, std::vector<std::string>> loadTextN(std::false_type, const std::string &path, bool named) {
    return named ? io::loadTextVertexLabeledEdgeList<LabeledDirectedGraph, NoLabel>(path) : io::loadTextEdgeList<LabeledDirectedGraph, NoLabel>(path);
}
static std::pair<LabeledUndirectedGraph<NoLabel>, std::vector<std::string>> loadTextN(std::true_type, const std::string &path, bool named) {
    return named ? io::loadTextVertexLabeledEdgeList<LabeledUndirectedGraph, NoLabel>(path) : io::loadTextEdgeList<LabeledUndirectedGraph, NoLabel>(path);
}
template <class L, bool UND> static SlotBase *loadTextT(const std::string &path, bool named, std::string &r) {
    SlotBase *res = nullptr;
    r = guard([&] {
        std::function<L(const std::string &)> f = [](const std::string &s) { return TextCodec<L>::from(s); };
        auto pr = loadTextG<L>(std::integral_constant<bool, UND>(), path, named, f);
        res = new GrSlot<L, UND>(pr.first);
        return "ok " + showNames(pr.second);
    });
    return res;
}
template <bool UND> static SlotBase *loadTextNone(const std::string &path, bool named, std::string &r) {
    SlotBase *res = nullptr;
    r = guard([&] {
        auto pr = loadTextN(std::integral_constant<bool, UND>(), path, named);
        res = new GrSlot<NoLabel, UND>(pr.first);
        return "ok " + showNames(pr.second);
    });
    return res;
}
template <class L> static LabeledDirectedGraph<L> loadBinG(std::false_type, const std::string &path) { return io::loadBinaryEdgeList<LabeledDirectedGraph, L>(path); }
template <class L> static LabeledUndirectedGraph<L> loadBinG(std::true_type, const std::string &path) { return io::loadBinaryEdgeList<LabeledUndirectedGraph, L>(path); }
template <class L, bool UND> static SlotBase *loadBinT(const std::string &path, std::string &r) {
    SlotBase *res = nullptr;
    r = guard([&] { res = new GrSlot<L, UND>(loadBinG<L>(std::integral_constant<bool, UND>(), path)); return std::string("ok"); });
    return res;
}
template <bool UND> static SlotBase *loadK(const std::string &verb, const std::string &kind, const std::string &path, std::string &r) {
    bool named = verb == "loadtextnamed";
    if (verb == "loadtext" || verb == "loadtextnamed") {
        if (kind == "none") return loadTextNone<UND>(path, named, r);
        if (kind == "int") return loadTextT<int, UND>(path, named, r);
        if (kind == "str") return loadTextT<std::string, UND>(path, named, r);
        r = "bad-op"; return nullptr;
    }
    if (kind == "none") return loadBinT<NoLabel, UND>(path, r);
    if (kind == "chr") return loadBinT<char, UND>(path, r);
    if (kind == "i16") return loadBinT<short, UND>(path, r);
    if (kind == "int") return loadBinT<int, UND>(path, r);
    if (kind == "uint") return loadBinT<unsigned, UND>(path, r);
    if (kind == "i64") return loadBinT<long long, UND>(path, r);
    if (kind == "flt") return loadBinT<float, UND>(path, r);
    if (kind == "dbl") return loadBinT<double, UND>(path, r);
    r = "bad-op"; return nullptr;
}
// loadtext|loadtextnamed|loadbin <slot> <cls> <kind> <hex>   /   openfail <slot> <routine> <cls> <kind>
static bool ioLoad(const std::string &verb, const Args &a, std::string &out, SlotBase *&res, int slot) {
    res = nullptr;
    if (verb == "openfail") {
        if (a.size() != 3) return false;
        const std::string &routine = a[0], &cls = a[1], &kind = a[2];
        std::string bad = "/nonexistent-dir-bgh/x.dat";
        std::string r = "bad-op";
        if (routine == "loadtext" || routine == "loadtextnamed" || routine == "loadbin") {
            SlotBase *tmp = cls == "dir" ? loadK<false>(routine, kind, bad, r) : cls == "und" ? loadK<true>(routine, kind, bad, r) : nullptr;
            delete tmp;
        } else if (routine == "writetext" || routine == "writebin") {
            std::unique_ptr<SlotBase> g(newSlot(cls, kind, 2));
            if (g) {
                setenv("BGH_TMP", "/nonexistent-dir-bgh", 1);
                std::string o;
                if (g->io(routine, Args{kind}, o)) r = o.substr(2, o.find('\n') - 2);
                unsetenv("BGH_TMP");
                const char *keep = getenv("BGH_TMP_SAVED");
                if (keep) setenv("BGH_TMP", keep, 1);
            }
        }
        if (r == "bad-op") return false;
        out = "R " + r + "\n";
        return true;
    }
    if (a.size() != 3) return false;
    std::string bytes;
    if (!fromHex(a[2], bytes)) return false;
    std::string path = scratchPath();
    spit(path, bytes);
    std::string r;
    if (a[0] == "dir") res = loadK<false>(verb, a[1], path, r);
    else if (a[0] == "und") res = loadK<true>(verb, a[1], path, r);
    else r = "bad-op";
    unlink(path.c_str());
    if (r == "bad-op") return false;
    std::ostringstream o;
    o << "R " << r << "\n";
    if (res) res->dump(o, slot); else o << "D " << slot << " empty\n";
    out = o.str();
    return true;
}


// ---------------------------------------------------------------- round trips
template <class L, bool UND> struct RtText {
    static SlotBase *run(const GrSlot<L, UND> &, std::string &out) { out = "bad-op"; return nullptr; }
};
template <bool UND> struct RtText<int, UND> {
    static SlotBase *run(const GrSlot<int, UND> &self, std::string &out) {
        std::string path = scratchPath(), w, r;
        SlotBase *res = nullptr;
        GrSlot<int, UND> &me = const_cast<GrSlot<int, UND> &>(self);
        me.io("writetext", Args{"int"}, w);
        if (w.compare(0, 4, "R ok") != 0) { out = w.substr(2, w.find('\n') - 2); return nullptr; }
        std::string bytes; fromHex(w.substr(w.find("F ") + 2, w.rfind('\n') - w.find("F ") - 2), bytes);
        spit(path, bytes);
        res = loadTextT<int, UND>(path, false, r);
        unlink(path.c_str());
        out = r + "\nF " + toHex(bytes);
        return res;
    }
};
template <bool UND> struct RtText<std::string, UND> {
    static SlotBase *run(const GrSlot<std::string, UND> &self, std::string &out) {
        std::string path = scratchPath(), w, r;
        GrSlot<std::string, UND> &me = const_cast<GrSlot<std::string, UND> &>(self);
        me.io("writetext", Args{"str"}, w);
        if (w.compare(0, 4, "R ok") != 0) { out = w.substr(2, w.find('\n') - 2); return nullptr; }
        std::string bytes; fromHex(w.substr(w.find("F ") + 2, w.rfind('\n') - w.find("F ") - 2), bytes);
        spit(path, bytes);
        SlotBase *res = loadTextT<std::string, UND>(path, false, r);
        unlink(path.c_str());
        out = r + "\nF " + toHex(bytes);
        return res;
    }
};
template <bool UND> struct RtText<NoLabel, UND> {
    static SlotBase *run(const GrSlot<NoLabel, UND> &self, std::string &out) {
        std::string path = scratchPath(), w, r;
        GrSlot<NoLabel, UND> &me = const_cast<GrSlot<NoLabel, UND> &>(self);
        me.io("writetext", Args{"none"}, w);
        if (w.compare(0, 4, "R ok") != 0) { out = w.substr(2, w.find('\n') - 2); return nullptr; }
        std::string bytes; fromHex(w.substr(w.find("F ") + 2, w.rfind('\n') - w.find("F ") - 2), bytes);
        spit(path, bytes);
        SlotBase *res = loadTextNone<UND>(path, false, r);
        unlink(path.c_str());
        out = r + "\nF " + toHex(bytes);
        return res;
    }
};
template <class L, bool UND, bool OK = BinOk<L>::ok || std::is_same<L, NoLabel>::value> struct RtBin {
    static SlotBase *run(const GrSlot<L, UND> &, std::string &out) { out = "bad-op"; return nullptr; }
};
template <class L, bool UND> struct RtBin<L, UND, true> {
    static SlotBase *run(const GrSlot<L, UND> &self, std::string &out) {
        std::string path = scratchPath(), w, r;
        GrSlot<L, UND> &me = const_cast<GrSlot<L, UND> &>(self);
        me.io("writebin", Args{LK<L>::name()}, w);
        if (w.compare(0, 4, "R ok") != 0) { out = w.substr(2, w.find('\n') - 2); return nullptr; }
        std::string bytes; fromHex(w.substr(w.find("F ") + 2, w.rfind('\n') - w.find("F ") - 2), bytes);
        spit(path, bytes);
        SlotBase *res = loadBinT<L, UND>(path, r);
        unlink(path.c_str());
        out = r + "\nF " + toHex(bytes);
        return res;
    }
};
template <class L, bool UND> static SlotBase *roundtripImpl(const GrSlot<L, UND> &self, bool text, std::string &out) {
    return text ? RtText<L, UND>::run(self, out) : RtBin<L, UND>::run(self, out);
}

// ---------------------------------------------------------------- main loop

// swapbytes <kind> <token>: the public io::swapBytes on a value of the label type (the big-endian code path of
// the binary codec, dead on this host) and the host's endianness as the library detects it
template <class T> static std::string swapBytesOf(long long tok) {
    T v = LK<T>::of(tok);
    BaseGraph::io::swapBytes(v);
    std::string raw(reinterpret_cast<const char *>(&v), sizeof(T));
    return "ok bytes=" + toHex(raw) + " be=" + (BaseGraph::io::_isSystemBigEndian() ? "1" : "0");
}
static bool swapBytesVerb(const std::string &kind, const std::string &tok, std::string &out) {
    long long l;
    if (!pl(tok, l)) return false;
    if (kind == "chr") out = swapBytesOf<char>(l);
    else if (kind == "i16") out = swapBytesOf<short>(l);
    else if (kind == "int") out = swapBytesOf<int>(l);
    else if (kind == "uint") out = swapBytesOf<unsigned>(l);
    else if (kind == "i64") out = swapBytesOf<long long>(l);
    else if (kind == "flt") out = swapBytesOf<float>(l);
    else if (kind == "dbl") out = swapBytesOf<double>(l);
    else return false;
    return true;
}

int main(int argc, char **argv) {
    std::ios::sync_with_stdio(false);
    if (getenv("BGH_TMP")) setenv("BGH_TMP_SAVED", getenv("BGH_TMP"), 1);
    std::ofstream echoFile;
    if (argc > 1) echoFile.open(argv[1]);
    std::map<int, std::unique_ptr<SlotBase>> slots;
    std::ostream &o = std::cout;
    std::string line;
    const bool flushEach = getenv("BGH_FLUSH") != nullptr;
    bool quiet = false;
    auto get = [&](int s) -> SlotBase * {
        auto it = slots.find(s);
        return it == slots.end() ? nullptr : it->second.get();
    };
    while (std::getline(std::cin, line)) {
        std::string t = trim(line);
        if (t.empty() || t[0] == '#') { if (echoFile.is_open()) echoFile << t << "\n"; continue; }
        if (t == "mode quiet" || t == "mode verbose") { quiet = (t == "mode quiet"); o << "> " << t << "\n"; if (echoFile.is_open()) echoFile << t << "\n"; continue; }
        if (t.compare(0, 12, "mode wscale ") == 0) {
            Args ws = split(t);
            long double a_ = 1, b_ = 1;
            if (ws.size() == 4 && pw(ws[2], a_) && pw(ws[3], b_) && a_ > 0 && b_ > 0) { g_wscale = a_ / b_; o << "> " << t << "\n"; if (echoFile.is_open()) echoFile << t << "\n"; continue; }
        }
        if (t == "reset") { slots.clear(); quiet = false; g_wscale = 1.0L; o << "R reset\n"; o.flush(); if (echoFile.is_open()) { echoFile << t << "\n"; echoFile.flush(); } continue; }
        Args w = split(t);
        g_skipDump = quiet && !w.empty() && w[0] != "dump";
        std::string echo = t;
        std::ostringstream out;
        bool ok = false;
        const std::string &verb = w[0];
        int a = -1, b = -1;
        if (verb == "new" && w.size() == 5) {
            size_t n;
            if (pi(w[1], a) && ps(w[4], n)) {
                SlotBase *s = newSlot(w[2], w[3], n);
                if (s) { slots[a].reset(s); out << "R ok\n"; s->dump(out, a); ok = true; }
            }
        } else if (verb == "chainpath" && w.size() == 3 && (w[1] == "dir" || w[1] == "und")) {
            // a path graph 0-1-…-(n-1) far longer than any model-side history: the searches and the path
            // reconstruction must cope with geodesics of that many hops (no recursion on the hop count)
            size_t n;
            if (ps(w[2], n) && n >= 1 && n <= 5000000) {
                auto run = [&](auto g) {
                    for (size_t i = 0; i + 1 < n; ++i) g.addEdge(i, i + 1);
                    auto p = algorithms::findGeodesics(g, 0, n - 1);
                    // (the all-paths machine copies its path list at every step: quadratic in the hop count by design,
                    //  so it is only run on the short chains)
                    auto ps_ = n <= 2000 ? algorithms::findAllGeodesics(g, 0, n - 1) : algorithms::MultiplePaths{p};
                    bool good = p.size() == n && ps_.size() == 1 && ps_.front().size() == n;
                    size_t k = 0;
                    for (auto v : p) { if (v != k) good = false; ++k; }
                    k = 0;
                    if (ps_.size() == 1) for (auto v : ps_.front()) { if (v != k) good = false; ++k; }
                    return std::string(good ? "ok" : "wrong") + " len=" + std::to_string(p.size()) + " paths=" + std::to_string(ps_.size());
                };
                out << "R " << guard([&] { return w[1] == "dir" ? run(DirectedGraph(n)) : run(UndirectedGraph(n)); }) << "\n";
                ok = true;
            }
        } else if (verb == "tokenise" && w.size() == 2) {
            // io::findEdgeFromString on one line (hex), default separators
            std::string line;
            if (fromHex(w[1], line)) {
                out << "R " << guard([&] { auto t = io::findEdgeFromString(line); return "ok " + toHex(t[0]) + " " + toHex(t[1]) + " " + toHex(t[2]); }) << "\n";
                ok = true;
            }
        } else if (verb == "findsource") {
            // algorithms::findSourceVertex on an arbitrary distance vector (`-` = empty)
            std::vector<size_t> d;
            bool good = true;
            for (size_t k = 1; k < w.size() && good; ++k) { size_t x; if (w[k] == "-") continue; if (!ps(w[k], x)) good = false; else d.push_back(x); }
            if (good) { out << "R " << guard([&] { return "ok source: " + std::to_string(algorithms::findSourceVertex(d)); }) << "\n"; ok = true; }
        } else if (verb == "swapbytes" && w.size() == 3) {
            std::string r;
            if (swapBytesVerb(w[1], w[2], r)) { out << "R " << r << "\n"; ok = true; }
        } else if (verb == "dump" && w.size() == 2) {
            if (pi(w[1], a)) { ok = true; auto it = get(a); if (!it) out << "D " << a << " empty\n"; else it->dump(out, a); }
        } else if (verb == "q" && w.size() >= 3) {
            if (pi(w[1], a) && get(a)) {
                std::string r;
                Args rest(w.begin() + 3, w.end());
                if (get(a)->query(w[2], rest, r)) { out << "R " << r << "\n"; ok = true; }
            }
        } else if (verb == "eq" && w.size() == 3) {
            if (pi(w[1], a) && pi(w[2], b) && get(a) && get(b)) {
                bool e, ne;
                if (get(a)->eq(get(b), e, ne)) { out << "R eq=" << e << " ne=" << ne << "\n"; ok = true; }
            }
        } else if ((verb == "copy" || verb == "assign" || verb == "movecopy" || verb == "moveassign" || verb == "reversed" || verb == "todirected" || verb == "ofdirected") && w.size() == 3) {
            if (pi(w[1], a) && pi(w[2], b) && get(a)) {
                SlotBase *src = get(a);
                std::string r = "ok";
                SlotBase *res = nullptr;
                bool supported = true;
                if (verb == "copy") res = src->clone();
                else if (verb == "movecopy") res = src->moveClone();
                else if (verb == "assign" || verb == "moveassign") {
                    const bool mv = verb == "moveassign";
                    SlotBase *dst = get(b);
                    if (dst && dst != src && (mv ? dst->moveAssignFrom(src) : dst->assignFrom(src))) res = nullptr;
                    else if (dst == src) { if (mv) dst->moveAssignFrom(src); else dst->assignFrom(src); }
                    else { res = mv ? src->moveClone() : src->clone(); }
                    if (!res && dst) { // assigned in place
                        out << "R ok\n"; src->dump(out, a); dst->dump(out, b); ok = true;
                    }
                } else if (verb == "reversed") { res = src->reversed(r); supported = r != "bad-op"; }
                else if (verb == "todirected") { res = src->toDirected(r); supported = r != "bad-op"; }
                else if (verb == "ofdirected") { res = src->ofDirected(r); supported = r != "bad-op"; }
                if (!ok && supported && (res || r != "ok")) {
                    if (a == b) { // keep src alive for its dump
                        out << "R " << r << "\n"; src->dump(out, a);
                        slots[b].reset(res);
                        if (res) res->dump(out, b); else out << "D " << b << " empty\n";
                    } else {
                        slots[b].reset(res);
                        out << "R " << r << "\n"; src->dump(out, a);
                        if (res) res->dump(out, b); else out << "D " << b << " empty\n";
                    }
                    ok = true;
                }
            }
        } else if ((verb == "roundtriptext" || verb == "roundtripbin") && w.size() == 4) {
            if (pi(w[1], a) && pi(w[2], b) && get(a) && a != b) {
                std::string r;
                SlotBase *res = get(a)->roundtrip(verb == "roundtriptext", w[3], r);
                if (r != "bad-op" && !r.empty()) {
                    slots[b].reset(res);
                    out << "R " << r << "\n";
                    if (res) res->dump(out, b); else out << "D " << b << " empty\n";
                    ok = true;
                }
            }
        } else if (verb == "ctor" && w.size() >= 5 && (w.size() - 5) % 3 == 0) {
            if (pi(w[1], a)) {
                std::vector<std::array<long long, 3>> t3;
                bool good = true;
                for (size_t k = 5; k + 2 < w.size() + 0 && good; k += 3) {
                    VertexIndex i, j; long long l;
                    if (!pv(w[k], i) || !pv(w[k + 1], j) || !pl(w[k + 2], l)) good = false;
                    else t3.push_back({(long long)i, (long long)j, l});
                }
                if (good) {
                    std::string r = "bad-op";
                    SlotBase *res = nullptr;
                    const std::string &cls = w[2];
                    if (cls == "dir") res = ctorGrK<false>(w[3], w[4], t3, r);
                    else if (cls == "und") res = ctorGrK<true>(w[3], w[4], t3, r);
                    else if (cls == "dmulti") res = ctorMg<false>(w[4], t3, r);
                    else if (cls == "umulti") res = ctorMg<true>(w[4], t3, r);
#ifdef BGH_WEIGHTED_CTOR
                    else if (cls == "dw") res = ctorWg<false>(w[4], t3, r);
                    else if (cls == "uw") res = ctorWg<true>(w[4], t3, r);
#endif
                    if (r != "bad-op") {
                        slots[a].reset(res);
                        out << "R " << r << "\n";
                        if (res) res->dump(out, a); else out << "D " << a << " empty\n";
                        ok = true;
                    }
                }
            }
        } else if ((verb == "subgraph" || verb == "subgraphremap") && w.size() >= 4 && (w[3] == "S" || w[3] == "ord")) {
            if (pi(w[1], a) && pi(w[2], b) && get(a)) {
                std::unordered_set<VertexIndex> S;
                bool good = true;
                for (size_t k = 4; k < w.size() && good; ++k) { VertexIndex v; if (!pv(w[k], v)) good = false; else S.insert(v); }
                if (good) {
                    std::string r;
                    SlotBase *src = get(a);
                    SlotBase *res = src->subgraph(S, verb == "subgraphremap", r);
                    if (!r.empty()) {
                        echo = verb + " " + w[1] + " " + w[2] + " ord";
                        for (VertexIndex v : S) echo += " " + std::to_string(v);
                        out << "R " << r << "\n";
                        src->dump(out, a);
                        if (a != b) slots[b].reset(res);
                        if (res) res->dump(out, b); else out << "D " << b << " empty\n";
                        if (a == b) slots[b].reset(res);
                        ok = true;
                    }
                }
            }
        } else if (isAlgoVerb(verb) && w.size() >= 2) {
            if (pi(w[1], a) && get(a)) {
                std::string r;
                Args rest(w.begin() + 2, w.end());
                if (get(a)->algo(verb, rest, r, echo)) { out << r; ok = true; }
            }
        } else if (isIoWriteVerb(verb) && w.size() >= 2) {
            if (pi(w[1], a) && get(a)) {
                std::string r;
                Args rest(w.begin() + 2, w.end());
                if (get(a)->io(verb, rest, r)) { out << r; ok = true; }
            }
        } else if (isIoLoadVerb(verb) && w.size() >= 2) {
            if (pi(w[1], a)) {
                std::string r;
                SlotBase *res = nullptr;
                Args rest(w.begin() + 2, w.end());
                if (ioLoad(verb, rest, r, res, a)) { if (verb != "openfail") slots[a].reset(res); out << r; ok = true; }
            }
        } else if (w.size() >= 2) {
            if (pi(w[1], a) && get(a)) {
                std::string r;
                Args rest(w.begin() + 2, w.end());
                if (get(a)->mutate(verb, rest, r)) { out << "R " << r << "\n"; get(a)->dump(out, a); ok = true; }
            }
        }
        o << "> " << echo << "\n";
        if (ok) {
            if (!quiet || verb == "dump") o << out.str();
            else { // quiet: outcome (R/P) lines only
                std::istringstream is(out.str());
                std::string l;
                while (std::getline(is, l))
                    if (l.compare(0, 2, "R ") == 0 || l.compare(0, 2, "P ") == 0 || l.compare(0, 2, "F ") == 0) o << l << "\n";
            }
        } else o << "bad-op\n";
        if (echoFile.is_open()) echoFile << echo << "\n";
        if (flushEach) { o.flush(); if (echoFile.is_open()) echoFile.flush(); }
    }
    o.flush();
    return 0;
}
