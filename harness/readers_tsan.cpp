// readers_tsan.cpp — property C18: N threads call every const entry point on SHARED graph objects
// (one per class / label kind); every thread must obtain exactly the single-threaded transcript,
// and ThreadSanitizer must stay silent.   Build: g++ -std=c++17 -O1 -g1 -fsanitize=thread
// Usage: readers_tsan <seed> <threads> <rounds>
#define main bgh_main
#include "bgh.cpp"
#undef main
#include <atomic>
#include <clocale>
#include <random>
#include <thread>

static std::string transcript(SlotBase *s, int n) {
    std::ostringstream o;
    s->dump(o, 0);
    std::string out, echo;
    bool e = false, ne = false;
    if (s->eq(s, e, ne)) o << "eq=" << e << ne << "\n";
    std::unique_ptr<SlotBase> c(s->clone());
    if (c && s->eq(c.get(), e, ne)) o << "copy-eq=" << e << ne << "\n";
    std::string r;
    std::unique_ptr<SlotBase> rev(s->reversed(r));
    if (rev) rev->dump(o, 1);
    std::unique_ptr<SlotBase> td(s->toDirected(r));
    if (td) td->dump(o, 2);
    std::unique_ptr<SlotBase> od(s->ofDirected(r));
    if (od) od->dump(o, 3);
    std::unordered_set<VertexIndex> S;
    for (int v = 0; v < n; v += 2) S.insert(v);
    std::unique_ptr<SlotBase> sg(s->subgraph(S, false, r));
    if (sg) { o << r << "\n"; sg->dump(o, 4); }
    std::unique_ptr<SlotBase> sr(s->subgraph(S, true, r));
    if (sr) { o << r << "\n"; sr->dump(o, 5); }
    for (int v = 0; v < n; ++v) {
        for (const char *verb : {"bfs", "allpred", "geodesicsfrom", "allgeodesicsfrom", "dijkstra"}) {
            out.clear(); echo = std::string(verb) + " 0 " + std::to_string(v);
            if (s->algo(verb, Args{std::to_string(v)}, out, echo)) o << out;
        }
        for (int t = 0; t < n; ++t) {
            for (const char *verb : {"geodesic", "allgeodesics", "pathto3", "allpathsto3"}) {
                out.clear();
                if (s->algo(verb, Args{std::to_string(v), std::to_string(t)}, out, echo)) o << out;
            }
            // the public reconstruction functions called directly (search from v, and from t)
            for (const char *verb : {"pathto", "allpathsto"}) {
                out.clear();
                if (s->algo(verb, Args{std::to_string(v), std::to_string(v), std::to_string(t)}, out, echo)) o << out;
                out.clear();
                if (s->algo(verb, Args{std::to_string(t), std::to_string(v), std::to_string(t)}, out, echo)) o << out;
            }
        }
    }
    for (const char *verb : {"writetext", "writebin"}) {
        out.clear();
        if (s->io(verb, Args{s->kind()}, out)) o << out;
    }
    return o.str();
}

int main(int argc, char **argv) {
    unsigned seed = argc > 1 ? (unsigned)atoi(argv[1]) : 1;
    int nthreads = argc > 2 ? atoi(argv[2]) : 4;
    int rounds = argc > 3 ? atoi(argv[3]) : 3;
    std::mt19937 rng(seed);
    struct Spec { const char *cls; const char *kind; bool negativeDag = false; };
    std::vector<Spec> specs = {{"dir", "none"}, {"dir", "int"}, {"dir", "str"}, {"und", "none"}, {"und", "int"}, {"und", "dbl"},
                               {"dmulti", "-"}, {"umulti", "-"}, {"dw", "-"}, {"uw", "-"},
                               // an acyclic weighted graph with negative weights: code paths (warnings, clamps) that
                               // only weights below zero reach are const code too
                               {"dw", "-", true}};
    std::vector<std::unique_ptr<SlotBase>> slots;
    std::vector<int> sizes;
    for (auto &sp : specs) {
        int n = 2 + rng() % 5;
        std::unique_ptr<SlotBase> s(newSlot(sp.cls, sp.kind, n));
        int m = rng() % (n * n + 1);
        for (int k = 0; k < m; ++k) {
            std::string out;
            std::string i = std::to_string(rng() % n), j = std::to_string(rng() % n), l = std::to_string(rng() % 9);
            std::string cls = sp.cls;
            if (cls == "dir" || cls == "und") s->mutate("addEdge", Args{i, j, l, "0"}, out);
            else if (cls == "dmulti" || cls == "umulti") s->mutate("addMultiedge", Args{i, j, std::to_string(1 + rng() % 3), "0"}, out);
            else if (sp.negativeDag) {
                int a = rng() % n, b = rng() % n;
                if (a == b) continue;
                s->mutate("addEdge", Args{std::to_string(std::min(a, b)), std::to_string(std::max(a, b)), std::to_string((int)(rng() % 17) - 8), "0"}, out);
            }
            else s->mutate("addEdge", Args{i, j, l, "0"}, out);
        }
        slots.push_back(std::move(s));
        sizes.push_back(n);
    }
    // No single-threaded warm-up: the threads make the FIRST calls of every const entry point (a lazily
    // initialised static or cache would race here); the single-threaded reference is computed afterwards.
    // A locale other than "C" is installed first, so that code which switches the process locale and
    // restores it is visible (the final locale is compared) instead of being a no-op.
    const char *want = setlocale(LC_ALL, "C.UTF-8");
    std::string loc0 = setlocale(LC_ALL, nullptr);
    (void)want;
    std::atomic<int> mismatches(0);
    std::atomic<long> calls(0);
    std::vector<std::vector<std::pair<size_t, std::string>>> got(nthreads);
    std::vector<std::thread> ts;
    for (int t = 0; t < nthreads; ++t)
        ts.emplace_back([&, t] {
            g_scratchTid = t + 1;
            for (int r = 0; r < rounds; ++r)
                for (size_t k = 0; k < slots.size(); ++k) {
                    size_t idx = (k + t) % slots.size();
                    got[t].emplace_back(idx, transcript(slots[idx].get(), sizes[idx]));
                    ++calls;
                }
        });
    for (auto &t : ts) t.join();
    std::vector<std::string> ref;
    for (size_t k = 0; k < slots.size(); ++k) ref.push_back(transcript(slots[k].get(), sizes[k]));
    for (int t = 0; t < nthreads; ++t)
        for (auto &pr : got[t])
            if (pr.second != ref[pr.first]) {
                if (mismatches++ == 0) std::cerr << "MISMATCH thread " << t << " graph " << specs[pr.first].cls << "/" << specs[pr.first].kind << "\n";
            }
    std::string loc1 = setlocale(LC_ALL, nullptr);
    if (loc1 != loc0) {
        std::cerr << "LOCALE CHANGED by const operations: " << loc0 << " -> " << loc1 << "\n";
        ++mismatches;
    }
    size_t bytes = 0;
    for (auto &r : ref) bytes += r.size();
    std::cout << "readers seed=" << seed << " threads=" << nthreads << " rounds=" << rounds << " graphs=" << slots.size()
              << " transcripts=" << calls.load() << " reference_bytes=" << bytes << " mismatches=" << mismatches.load() << "\n";
    return mismatches.load() ? 3 : 0;
}
