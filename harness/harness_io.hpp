// harness_io.hpp — file-routine verbs (filled in below)
#pragma once
#include "harness_common.hpp"
static inline bool isIoWriteVerb(const std::string &) { return false; }
static inline bool isIoLoadVerb(const std::string &) { return false; }
template <class L, bool UND> struct IoOps {
    template <class Gr> static bool write(const Gr &, const std::string &, const std::vector<std::string> &, std::string &) { return false; }
};
struct SlotBase;
static inline bool ioLoad(const std::string &, const std::vector<std::string> &, std::string &, SlotBase *&, int) { return false; }
