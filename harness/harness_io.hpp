// harness_io.hpp — helpers for the file-routine verbs: hex, scratch files, label codecs.
#pragma once
#include "BaseGraph/fileio.hpp"
#include "harness_common.hpp"
#include <cstdlib>
#include <fstream>
#include <unistd.h>

static inline std::string toHex(const std::string &b) {
    static const char *d = "0123456789abcdef";
    std::string s;
    for (unsigned char c : b) { s += d[c >> 4]; s += d[c & 15]; }
    return s.empty() ? "-" : s;
}
static inline bool fromHex(const std::string &h, std::string &out) {
    out.clear();
    if (h == "-") return true;
    if (h.size() % 2) return false;
    auto v = [](char c) -> int { if (c >= '0' && c <= '9') return c - '0'; if (c >= 'a' && c <= 'f') return c - 'a' + 10; return -1; };
    for (size_t i = 0; i < h.size(); i += 2) { int a = v(h[i]), b = v(h[i + 1]); if (a < 0 || b < 0) return false; out += (char)(a * 16 + b); }
    return true;
}
// reader threads (readers_tsan.cpp) write to distinct files: a per-thread suffix
static thread_local int g_scratchTid = 0;
static inline std::string scratchPath() {
    const char *d = getenv("BGH_TMP");
    std::string dir = d ? d : "/tmp";
    return dir + "/bgh-" + std::to_string((long)getpid()) + "-" + std::to_string(g_scratchTid) + ".dat";
}
static inline std::string slurp(const std::string &path) {
    std::ifstream f(path, std::ios::binary);
    return std::string((std::istreambuf_iterator<char>(f)), std::istreambuf_iterator<char>());
}
static inline void spit(const std::string &path, const std::string &bytes) {
    std::ofstream f(path, std::ios::binary | std::ios::trunc);
    f.write(bytes.data(), (std::streamsize)bytes.size());
}

// text codecs: label <-> text as the documentation suggests (to_string / stoi, identity for strings)
template <class L> struct TextCodec { static const bool ok = false; };
template <> struct TextCodec<int> {
    static const bool ok = true;
    static std::string to(const int &v) { return std::to_string(v); }
    static int from(const std::string &s) { return std::stoi(s); }
};
template <> struct TextCodec<std::string> {
    static const bool ok = true;
    static std::string to(const std::string &v) { return v; }
    static std::string from(const std::string &s) { return s; }
};
static inline bool isIoWriteVerb(const std::string &v) { return v == "writetext" || v == "writebin"; }
static inline bool isIoLoadVerb(const std::string &v) { return v == "loadtext" || v == "loadtextnamed" || v == "loadbin" || v == "openfail"; }
