// harness_common.hpp — parsing, printing, exception mapping, label-kind codecs.
#pragma once
#include "BaseGraph/types.h"
#include <cmath>
#include <cstdio>
#include <sstream>
#include <stdexcept>
#include <string>
#include <vector>

struct Pt {
    int a = 0;
    int b = 0;
    bool operator==(const Pt &o) const { return a == o.a && b == o.b; }
};

static inline std::string trim(const std::string &s) {
    size_t b = s.find_first_not_of(" \t\r\n");
    if (b == std::string::npos) return "";
    size_t e = s.find_last_not_of(" \t\r\n");
    return s.substr(b, e - b + 1);
}
static inline std::vector<std::string> split(const std::string &s) {
    std::vector<std::string> r;
    size_t i = 0;
    while (i <= s.size()) {
        size_t j = s.find(' ', i);
        if (j == std::string::npos) j = s.size();
        r.push_back(s.substr(i, j - i));
        i = j + 1;
    }
    return r;
}
static inline bool pull(const std::string &s, unsigned long long &v) {
    if (s.empty() || s.size() > 19) return false;
    v = 0;
    for (char c : s) { if (c < '0' || c > '9') return false; v = v * 10 + (c - '0'); }
    return true;
}
static inline bool pv(const std::string &s, unsigned &v) { unsigned long long x; if (!pull(s, x) || x > 4294967295ULL) return false; v = (unsigned)x; return true; }
static inline bool ps(const std::string &s, size_t &v) { unsigned long long x; if (!pull(s, x)) return false; v = (size_t)x; return true; }
static inline bool pi(const std::string &s, int &v) { unsigned long long x; if (!pull(s, x) || x > 1000000) return false; v = (int)x; return true; }
static inline bool pl(const std::string &s, long long &v) {
    if (s.empty()) return false;
    bool neg = s[0] == '-';
    unsigned long long x;
    if (!pull(neg ? s.substr(1) : s, x)) return false;
    v = neg ? -(long long)x : (long long)x;
    return true;
}
// weights: decimal integers (quarter units) of any length; beyond 64 bits they are converted through
// long double (the values used are exactly representable)
static inline bool pw(const std::string &s, long double &v) {
    if (s.empty()) return false;
    size_t k = s[0] == '-' ? 1 : 0;
    if (k == s.size()) return false;
    for (size_t t = k; t < s.size(); ++t) if (s[t] < '0' || s[t] > '9') return false;
    long long small;
    if (s.size() - k <= 18 && pl(s, small)) { v = (long double)small; return true; }
    v = strtold(s.c_str(), nullptr);
    return true;
}
// flag tokens: 0 / 1, or `d` = "leave the argument out" (the call site then uses the overload / default argument);
// g_dflt tells the call site which it was
static bool g_dflt = false;
static inline bool pf(const std::string &s, bool &v) { g_dflt = false; if (s == "1") { v = true; return true; } if (s == "0") { v = false; return true; } if (s == "d") { v = false; g_dflt = true; return true; } return false; }

template <class F> static std::string guard(F f) {
    try { return f(); }
    catch (std::out_of_range &) { return "!oor"; }
    catch (std::invalid_argument &) { return "!inv"; }
    catch (std::runtime_error &) { return "!rte"; }
    catch (std::exception &) { return "!exc"; }
    catch (...) { return "!unk"; }
}
template <class F> static std::string eachGuard(size_t n, F f) {
    std::string s;
    for (size_t i = 0; i < n; ++i) { if (i) s += " "; s += guard([&] { return f(i); }); }
    return s;
}
template <class C> static std::string joinSeq(const C &c) {
    std::string s; bool first = true;
    for (auto &x : c) { if (!first) s += " "; first = false; s += std::to_string(x); }
    return s;
}
static inline std::string showMatrix(const std::vector<std::vector<size_t>> &m) {
    std::string s;
    for (size_t i = 0; i < m.size(); ++i) { if (i) s += " / "; s += joinSeq(m[i]); }
    return s;
}
// weights travel as integers in units of 1/4; anything else is printed as a hex float so that
// it can never be mistaken for an exact value
// `mode wscale a b`: every weight given to a weighted graph is multiplied by a/b (so that sums are not exactly
// representable: 7/10, 1/3, …) and Dijkstra's distances are printed divided by it, rounded to the quarter
// unit they denote exactly.  Only for the path-search workloads on graphs whose non-zero weights are all equal
// (then every route with the same exact length has the same floating-point length too).
static long double g_wscale = 1.0L;
static inline std::string showQuarterLD(long double w) {
    long double q = w * 4.0L;
    if (std::isfinite((double)q) && std::fabs((double)q) < 9e15 && q == std::floor(q)) return std::to_string((long long)q);
    if (std::isinf((double)q)) return q > 0 ? "inf" : "-inf";
    char buf[64]; snprintf(buf, sizeof buf, "%La", w); return std::string("~") + buf;
}
static inline std::string showQuarter(double w) { return showQuarterLD((long double)w); }
// a weight as the model sees it: divided by the scale of `mode wscale`, and snapped to the quarter unit it denotes
// when the division left a rounding error of that size only
static inline std::string showW(long double w) {
    if (g_wscale == 1.0L || !std::isfinite((double)w)) return showQuarterLD(w);
    long double q = w / g_wscale * 4.0L, r = std::nearbyint((double)q);
    if (std::fabs((double)(q - r)) < 1e-6 && std::fabs((double)r) < 9e15) return std::to_string((long long)r);
    return showQuarterLD(w / g_wscale);
}
static inline std::string showWMatrix(const std::vector<std::vector<double>> &m) {
    std::string s;
    for (size_t i = 0; i < m.size(); ++i) {
        if (i) s += " / ";
        for (size_t j = 0; j < m[i].size(); ++j) { if (j) s += " "; s += showW(m[i][j]); }
    }
    return s;
}

// label kinds: token (integer) <-> value, injective, default value <-> token 0
template <class L> struct LK;
template <> struct LK<BaseGraph::NoLabel> {
    static const bool labelled = false;
    static std::string name() { return "none"; }
    static BaseGraph::NoLabel of(long long) { return {}; }
    static std::string show(const BaseGraph::NoLabel &) { return "-"; }
};
template <> struct LK<int> {
    static const bool labelled = true;
    static std::string name() { return "int"; }
    static int of(long long t) { return (int)t; }
    static std::string show(const int &v) { return std::to_string(v); }
};
template <> struct LK<unsigned> {
    static const bool labelled = true;
    static std::string name() { return "uint"; }
    static unsigned of(long long t) { return (unsigned)t; }
    static std::string show(const unsigned &v) { return std::to_string(v); }
};
template <> struct LK<double> {
    static const bool labelled = true;
    static std::string name() { return "dbl"; }
    static double of(long long t) { return t / 4.0; }
    static std::string show(const double &v) { return showQuarter(v); }
};
template <> struct LK<char> {
    static const bool labelled = true;
    static std::string name() { return "chr"; }
    static char of(long long t) { return (char)t; }
    static std::string show(const char &v) { return std::to_string((int)(signed char)v); }
};
static inline std::string hexOf(const std::string &b) {
    static const char *d = "0123456789abcdef";
    std::string s;
    for (unsigned char c : b) { s += d[c >> 4]; s += d[c & 15]; }
    return s;
}
template <> struct LK<std::string> {
    static const bool labelled = true;
    static std::string name() { return "str"; }
    static std::string of(long long t) { return t == 0 ? std::string() : "s" + std::to_string(t); }
    static std::string show(const std::string &v) {
        if (v.empty()) return "0";
        if (v[0] == 's' && v.size() > 1 && v.size() < 9) {
            long long k;
            if (pl(v.substr(1), k) && k != 0 && k < 1000000 && k > -1000000 && of(k) == v) return std::to_string(k);
        }
        return "?" + hexOf(v);
    }
};
template <> struct LK<short> {
    static const bool labelled = true;
    static std::string name() { return "i16"; }
    static short of(long long t) { return (short)t; }
    static std::string show(const short &v) { return std::to_string(v); }
};
template <> struct LK<long long> {
    static const bool labelled = true;
    static std::string name() { return "i64"; }
    static long long of(long long t) { return t; }
    static std::string show(const long long &v) { return std::to_string(v); }
};
template <> struct LK<float> {
    static const bool labelled = true;
    static std::string name() { return "flt"; }
    static float of(long long t) { return t / 4.0f; }
    static std::string show(const float &v) { return showQuarter((double)v); }
};
template <> struct LK<Pt> {
    static const bool labelled = true;
    static std::string name() { return "pt"; }
    static Pt of(long long t) { Pt p; p.a = (int)t; p.b = (int)(3 * t); return p; }
    static std::string show(const Pt &v) { return v.b == 3 * v.a ? std::to_string(v.a) : "?" + std::to_string(v.a) + ":" + std::to_string(v.b); }
};
