// harness_algo.hpp — path-search verbs.  Scan counts (C19) and the Dijkstra pop order (C12) are
// observed through wrapper graph types: every algorithm is a template over the graph type and
// calls getOutNeighbours exactly once per scan, so no source hook is needed.
#pragma once
#include "BaseGraph/algorithms/paths.hpp"
#include "BaseGraph/directed_graph.hpp"
#include "BaseGraph/undirected_graph.hpp"
#include "harness_common.hpp"

template <class L> struct CountDir : public BaseGraph::LabeledDirectedGraph<L> {
    typedef BaseGraph::LabeledDirectedGraph<L> Base;
    mutable std::vector<BaseGraph::VertexIndex> log;
    CountDir(const Base &g) : Base(g) {}
    const BaseGraph::Successors &getOutNeighbours(BaseGraph::VertexIndex v) const {
        log.push_back(v);
        return Base::getOutNeighbours(v);
    }
};
template <class L> struct CountUnd : public BaseGraph::LabeledUndirectedGraph<L> {
    typedef BaseGraph::LabeledUndirectedGraph<L> Base;
    mutable std::vector<BaseGraph::VertexIndex> log;
    CountUnd(const Base &g) : Base(g) {}
    const BaseGraph::Successors &getOutNeighbours(BaseGraph::VertexIndex v) const {
        log.push_back(v);
        return Base::getOutNeighbours(v);
    }
};
template <class L> static CountDir<L> wrapCount(const BaseGraph::LabeledDirectedGraph<L> &g) { return CountDir<L>(g); }
template <class L> static CountUnd<L> wrapCount(const BaseGraph::LabeledUndirectedGraph<L> &g) { return CountUnd<L>(g); }

template <class WG> struct CountW {
    const WG &g;
    mutable std::vector<BaseGraph::VertexIndex> log;
    CountW(const WG &g) : g(g) {}
    size_t getSize() const { return g.getSize(); }
    const BaseGraph::Successors &getOutNeighbours(BaseGraph::VertexIndex v) const {
        log.push_back(v);
        return g.getOutNeighbours(v);
    }
    BaseGraph::EdgeWeight getEdgeWeight(BaseGraph::VertexIndex a, BaseGraph::VertexIndex b) const { return g.getEdgeWeight(a, b); }
};

static inline bool isAlgoVerb(const std::string &v) {
    return v == "bfs" || v == "allpred" || v == "geodesic" || v == "allgeodesics" || v == "geodesicsfrom" ||
           v == "allgeodesicsfrom" || v == "dijkstra" || v == "pathto" || v == "pathto3" || v == "allpathsto" || v == "allpathsto3";
}
template <class Gr> static std::string showVE(const Gr &g) {
    size_t e = 0;
    for (size_t i = 0; i < g.getSize(); ++i) e += g.getOutNeighbours(i).size();
    return " | VE: " + std::to_string(g.getSize()) + " " + std::to_string(e);
}
static inline std::string showPath(const std::list<BaseGraph::VertexIndex> &p) {
    if (p.empty()) return "-";
    std::string s; bool first = true;
    for (auto v : p) { if (!first) s += ","; first = false; s += std::to_string(v); }
    return s;
}
static inline std::string showPaths(const std::list<std::list<BaseGraph::VertexIndex>> &ps) {
    if (ps.empty()) return "-";
    std::string s; bool first = true;
    for (auto &p : ps) { if (!first) s += " "; first = false; s += showPath(p); }
    return s;
}

template <class Gr> static bool runAlgo(const Gr &g0, const std::string &verb, const std::vector<std::string> &a, std::string &out, std::string &echo) {
    using namespace BaseGraph;
    VertexIndex s, t;
    if (verb == "bfs" && a.size() == 1 && pv(a[0], s)) {
        auto g = wrapCount(g0);
        std::string body;
        std::string r = guard([&] {
            auto res = algorithms::findVertexPredecessors(g, s);
            body = "P dist: " + joinSeq(res.first) + " | pred: " + joinSeq(res.second) + " | scans: " + joinSeq(g.log) + showVE(g0) + "\n";
            return std::string("ok");
        });
        out = "R " + r + "\n" + (r == "ok" ? body : "");
        return true;
    }
    if (verb == "allpred" && a.size() == 1 && pv(a[0], s)) {
        auto g = wrapCount(g0);
        std::string body;
        std::string r = guard([&] {
            auto res = algorithms::findAllVertexPredecessors(g, s);
            std::string ps; bool first = true;
            for (auto &l : res.second) { if (!first) ps += " "; first = false; ps += showPath(l); }
            body = "P dist: " + joinSeq(res.first) + " | preds: " + ps + " | scans: " + joinSeq(g.log) + showVE(g0) + "\n";
            return std::string("ok");
        });
        out = "R " + r + "\n" + (r == "ok" ? body : "");
        return true;
    }
    if (verb == "geodesic" && a.size() == 2 && pv(a[0], s) && pv(a[1], t)) {
        out = "R " + guard([&] { return "ok path: " + showPath(algorithms::findGeodesics(g0, s, t)); }) + "\n";
        return true;
    }
    if (verb == "allgeodesics" && a.size() == 2 && pv(a[0], s) && pv(a[1], t)) {
        out = "R " + guard([&] { return "ok paths: " + showPaths(algorithms::findAllGeodesics(g0, s, t)); }) + "\n";
        return true;
    }
    // the public reconstruction functions called directly, on the predecessors of a search from `ps`
    VertexIndex ps;
    if (verb == "pathto" && a.size() == 3 && pv(a[0], ps) && pv(a[1], s) && pv(a[2], t)) {
        out = "R " + guard([&] {
            auto pr = algorithms::findVertexPredecessors(g0, ps);
            return "ok path: " + showPath(algorithms::findPathToVertexFromPredecessors(g0, s, t, pr));
        }) + "\n";
        return true;
    }
    if (verb == "pathto3" && a.size() == 2 && pv(a[0], ps) && pv(a[1], t)) {
        out = "R " + guard([&] {
            auto pr = algorithms::findVertexPredecessors(g0, ps);
            return "ok path: " + showPath(algorithms::findPathToVertexFromPredecessors(g0, t, pr));
        }) + "\n";
        return true;
    }
    if (verb == "allpathsto" && a.size() == 3 && pv(a[0], ps) && pv(a[1], s) && pv(a[2], t)) {
        out = "R " + guard([&] {
            auto pr = algorithms::findAllVertexPredecessors(g0, ps);
            return "ok paths: " + showPaths(algorithms::findMultiplePathsToVertexFromPredecessors(g0, s, t, pr));
        }) + "\n";
        return true;
    }
    if (verb == "allpathsto3" && a.size() == 2 && pv(a[0], ps) && pv(a[1], t)) {
        out = "R " + guard([&] {
            auto pr = algorithms::findAllVertexPredecessors(g0, ps);
            return "ok paths: " + showPaths(algorithms::findMultiplePathsToVertexFromPredecessors(g0, t, pr));
        }) + "\n";
        return true;
    }
    if (verb == "geodesicsfrom" && a.size() == 1 && pv(a[0], s)) {
        out = "R " + guard([&] {
            auto res = algorithms::findGeodesicsFromVertex(g0, s);
            std::string r = "ok from: "; bool first = true;
            for (auto &p : res) { if (!first) r += " "; first = false; r += showPath(p); }
            return r;
        }) + "\n";
        return true;
    }
    if (verb == "allgeodesicsfrom" && a.size() == 1 && pv(a[0], s)) {
        out = "R " + guard([&] {
            auto res = algorithms::findAllGeodesicsFromVertex(g0, s);
            std::string r = "ok allfrom: "; bool first = true;
            for (auto &ps : res) { if (!first) r += " | "; first = false; r += showPaths(ps); }
            return r;
        }) + "\n";
        return true;
    }
    return false;
}

template <class Gr> static bool runDijkstra(const Gr &g0, const std::string &verb, const std::vector<std::string> &a, std::string &out, std::string &echo) {
    using namespace BaseGraph;
    VertexIndex s;
    if (verb != "dijkstra" || a.empty() || !pv(a[0], s)) return false;
    CountW<Gr> g(g0);
    std::string body;
    std::string r = guard([&] {
        auto res = algorithms::findGeodesicsDijkstra(g, s);
        std::string d; bool first = true;
        for (double x : res.first) { if (!first) d += " "; first = false; d += showW(x); }
        body = "P dist: " + d + " | pred: " + joinSeq(res.second) + " | scans: n=" + std::to_string(g.log.size()) + showVE(g0) + "\n";
        return std::string("ok");
    });
    // echo: the line the model replays, with the observed pop order as oracle
    {
        std::string e = "dijkstra";
        size_t sp = echo.find(' ');
        std::string slot = echo.substr(sp + 1, echo.find(' ', sp + 1) - sp - 1);
        e += " " + slot + " " + a[0];
        if (r == "ok") { e += " pops"; for (auto v : g.log) e += " " + std::to_string(v); }
        echo = e;
    }
    out = "R " + r + "\n" + (r == "ok" ? body : "");
    return true;
}
