// harness_algo.hpp — path-search verbs (filled in below)
#pragma once
#include "harness_common.hpp"
static inline bool isAlgoVerb(const std::string &) { return false; }
template <class Gr> static bool runAlgo(const Gr &, const std::string &, const std::vector<std::string> &, std::string &, std::string &) { return false; }
template <class Gr> static bool runDijkstra(const Gr &, const std::string &, const std::vector<std::string> &, std::string &, std::string &) { return false; }
