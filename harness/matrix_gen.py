#!/usr/bin/env python3
"""matrix_gen.py — client programs for property C20: one *cell* per documented entry point and
label kind.  A cell is a function body that uses the entry point the way the documentation shows
(default arguments included).  cells(kind) -> list of (cell_id, entry, code)."""

KINDS = {
    "none": dict(L="BaseGraph::NoLabel", lab="BaseGraph::NoLabel()", labelled=False, arithmetic=False, pod=False),
    "int": dict(L="int", lab="7", labelled=True, arithmetic=True, pod=True),
    "dbl": dict(L="double", lab="1.5", labelled=True, arithmetic=True, pod=True),
    "str": dict(L="std::string", lab='std::string("a")', labelled=True, arithmetic=False, pod=False),
    "pt": dict(L="Pt", lab="Pt{1, 2}", labelled=True, arithmetic=False, pod=True),
    # the documentation's own example of a user label: not trivially copyable
    "flight": dict(L="Flight", lab='Flight{"Company A", 10.}', labelled=True, arithmetic=False, pod=False),
}

PRELUDE = r'''
#include <forward_list>
#include <deque>
#include "BaseGraph/types.h"
#include "BaseGraph/directed_graph.hpp"
#include "BaseGraph/undirected_graph.hpp"
#include "BaseGraph/directed_multigraph.hpp"
#include "BaseGraph/undirected_multigraph.hpp"
#include "BaseGraph/directed_weighted_graph.hpp"
#include "BaseGraph/undirected_weighted_graph.hpp"
#include "BaseGraph/fileio.hpp"
#include "BaseGraph/algorithms/paths.hpp"
#include "BaseGraph/algorithms/topology.hpp"
#include <deque>
#include <list>
#include <set>
#include <sstream>
#include <string>
#include <unordered_set>
#include <vector>
struct Pt { int a; int b; bool operator==(const Pt &o) const { return a == o.a && b == o.b; } };
struct Flight { std::string company; double distance; bool operator==(const Flight &o) const { return company == o.company && distance == o.distance; } };
using namespace BaseGraph;
'''


def simple_cells(kind, und):
    k = KINDS[kind]
    G = ("LabeledUndirectedGraph<%s>" if und else "LabeledDirectedGraph<%s>") % k["L"]
    lab = k["lab"]
    c = []

    def add(entry, code):
        c.append((f"{'und' if und else 'dir'}.{kind}.{entry}.{len(c)}", f"{G}::{entry}", code))
    add("ctor", f"{G} g(3); {G} h; (void)g; (void)h;")
    if kind == "none":
        add("ctor-edges", f"std::vector<Edge> v = {{{{0, 2}}, {{0, 1}}}}; {G} g(v); std::list<Edge> l = {{{{0, 2}}}}; {G} h(l); std::deque<Edge> d; {G} i(d); std::set<Edge> s; {G} j(s);")
        add("ctor-edges", f"std::forward_list<Edge> f = {{{{0, 2}}, {{0, 1}}}}; {G} g(f);")
    else:
        add("ctor-edges", f"std::vector<LabeledEdge<{k['L']}>> v; v.push_back(LabeledEdge<{k['L']}>(0, 2, {lab})); {G} g(v); std::list<LabeledEdge<{k['L']}>> l(v.begin(), v.end()); {G} h(l);")
        # containers that offer nothing beyond iteration (no size(), no random access): the documentation asks
        # only for "a container that can be traversed with a range-based for"
        add("ctor-edges", f"std::vector<LabeledEdge<{k['L']}>> v; v.push_back(LabeledEdge<{k['L']}>(0, 2, {lab})); std::forward_list<LabeledEdge<{k['L']}>> f(v.begin(), v.end()); {G} g(f); std::deque<LabeledEdge<{k['L']}>> d(v.begin(), v.end()); {G} h(d);")
    add("getSize", f"{G} g(3); size_t n = g.getSize(); (void)n;")
    add("resize", f"{G} g(3); g.resize(5);")
    add("getEdgeNumber", f"{G} g(3); size_t n = g.getEdgeNumber(); (void)n;")
    add("operator==", f"{G} g(3), h(3); bool b = (g == h) && !(g != h); (void)b;")
    add("addEdge", f"{G} g(3); g.addEdge(0, 1, {lab}); g.addEdge(0, 2, {lab}, true); g.addEdge(1, 2); g.addEdge(1, 0, true);")
    if not und:
        add("addReciprocalEdge", f"{G} g(3); g.addReciprocalEdge(0, 1, {lab}); g.addReciprocalEdge(0, 2, {lab}, true); g.addReciprocalEdge(1, 2); g.addReciprocalEdge(1, 0, true);")
    add("hasEdge", f"{G} g(3); bool b = g.hasEdge(0, 1); bool d = g.hasEdge(0, 1, {lab}); (void)b; (void)d;")
    add("getOutNeighbours", f"{G} g(3); for (auto j : g.getOutNeighbours(0)) (void)j;")
    add("removeEdge", f"{G} g(3); g.removeEdge(0, 1);")
    add("getEdgeLabel", f"{G} g(3); g.addEdge(0, 1, {lab}); auto a = g.getEdgeLabel(0, 1); auto b = g.getEdgeLabel(0, 2, false); (void)a; (void)b;")
    add("setEdgeLabel", f"{G} g(3); g.addEdge(0, 1, {lab}); g.setEdgeLabel(0, 1, {lab}); g.setEdgeLabel(0, 2, {lab}, true);")
    add("removeDuplicateEdges", f"{G} g(3); g.removeDuplicateEdges();")
    add("removeSelfLoops", f"{G} g(3); g.removeSelfLoops();")
    add("removeVertexFromEdgeList", f"{G} g(3); g.removeVertexFromEdgeList(0);")
    add("clearEdges", f"{G} g(3); g.clearEdges();")
    add("getAdjacencyMatrix", f"{G} g(3); AdjacencyMatrix m = g.getAdjacencyMatrix(); (void)m;")
    add("operator<<", f"{G} g(3); std::ostringstream os; os << g;")
    add("begin", f"{G} g(3); for (VertexIndex v : g) (void)v; auto b = g.begin(); auto e = g.end(); (void)b; (void)e;")
    add("edges", f"{G} g(3); for (auto e : g.edges()) (void)e; auto it = g.edges().begin(); ++it; it++; bool q = it == g.edges().end(); (void)q;")
    add("assertVertexInRange", f"{G} g(3); g.assertVertexInRange(0);")
    add("copy", f"{G} g(3); {G} h(g); {G} i; i = g; (void)h;")
    if und:
        add("getNeighbours", f"{G} g(3); for (auto j : g.getNeighbours(0)) (void)j;")
        add("getDegree", f"{G} g(3); size_t a = g.getDegree(0); size_t b = g.getDegree(0, false); (void)a; (void)b;")
        add("getDegrees", f"{G} g(3); auto a = g.getDegrees(); auto b = g.getDegrees(false); (void)a; (void)b;")
        add("getAdjacencyMatrix-flag", f"{G} g(3); auto m = g.getAdjacencyMatrix(false); (void)m;")
        add("getDirectedGraph", f"{G} g(3); LabeledDirectedGraph<{k['L']}> d = g.getDirectedGraph(); (void)d;")
        add("ctor-directed", f"LabeledDirectedGraph<{k['L']}> d(3); {G} g(d); (void)g;")
    else:
        add("getReversedGraph", f"{G} g(3); {G} r = g.getReversedGraph(); (void)r;")
        add("getInDegree", f"{G} g(3); size_t a = g.getInDegree(0); auto b = g.getInDegrees(); (void)a; (void)b;")
        add("getOutDegree", f"{G} g(3); size_t a = g.getOutDegree(0); auto b = g.getOutDegrees(); (void)a; (void)b;")
    # algorithms
    add("findVertexPredecessors", f"{G} g(3); auto p = algorithms::findVertexPredecessors(g, 0); auto q = algorithms::findPathToVertexFromPredecessors(g, 0, 0, p); auto r = algorithms::findPathToVertexFromPredecessors(g, 0, p); (void)q; (void)r;")
    add("findAllVertexPredecessors", f"{G} g(3); auto p = algorithms::findAllVertexPredecessors(g, 0); auto q = algorithms::findMultiplePathsToVertexFromPredecessors(g, 0, 0, p); auto r = algorithms::findMultiplePathsToVertexFromPredecessors(g, 0, p); (void)q; (void)r;")
    add("findGeodesics", f"{G} g(3); auto a = algorithms::findGeodesics(g, 0, 1); auto b = algorithms::findAllGeodesics(g, 0, 1); auto c = algorithms::findGeodesicsFromVertex(g, 0); auto d = algorithms::findAllGeodesicsFromVertex(g, 0); (void)a; (void)b; (void)c; (void)d;")
    add("getSubgraph", f"{G} g(3); std::unordered_set<VertexIndex> s = {{0, 1}}; auto a = algorithms::getSubgraph(g, s); auto b = algorithms::getSubgraphWithRemap(g, s); (void)a; (void)b;")
    # file routines
    T = "LabeledUndirectedGraph" if und else "LabeledDirectedGraph"
    if kind == "none" or k["arithmetic"]:
        add("writeTextEdgeList-default", f'{G} g(3); io::writeTextEdgeList(g, "/tmp/x");')
    if k["labelled"]:
        conv = {"int": "std::to_string(l)", "dbl": "std::to_string(l)", "str": "l", "pt": "std::to_string(l.a)", "flight": "l.company"}[kind]
        add("writeTextEdgeList-codec", f'{G} g(3); io::writeTextEdgeList<{T}, {k["L"]}>(g, "/tmp/x", [](const {k["L"]} &l) {{ return std::string({conv}); }});')
        back = {"int": "std::stoi(s)", "dbl": "std::stod(s)", "str": "s", "pt": "Pt{std::stoi(s), 0}", "flight": "Flight{s, 0.}"}[kind]
        add("loadTextEdgeList-codec", f'auto p = io::loadTextEdgeList<{T}, {k["L"]}>("/tmp/x", [](const std::string &s) {{ return {k["L"]}({back}); }}); (void)p;')
    add("loadTextEdgeList-default", f'auto p = io::loadTextEdgeList<{T}, {k["L"]}>("/tmp/x"); (void)p;')
    add("loadTextVertexLabeledEdgeList-default", f'auto p = io::loadTextVertexLabeledEdgeList<{T}, {k["L"]}>("/tmp/x"); (void)p;')
    if kind == "none" or k["pod"]:
        add("writeBinaryEdgeList-default", f'{G} g(3); io::writeBinaryEdgeList(g, "/tmp/x");')
        add("loadBinaryEdgeList-default", f'auto g = io::loadBinaryEdgeList<{T}, {k["L"]}>("/tmp/x"); (void)g;')
    if k["labelled"] and kind != "str":
        # caller-supplied serialisers (the only way to write a label that is not plain data; std::string
        # labels are rejected by a documented static_assert)
        add("writeBinaryEdgeList-codec", f'{G} g(3); io::writeBinaryEdgeList<{T}, {k["L"]}>(g, "/tmp/x", [](std::ofstream &f, {k["L"]} l) {{ (void)f; (void)l; }});')
        add("loadBinaryEdgeList-codec", f'auto g = io::loadBinaryEdgeList<{T}, {k["L"]}>("/tmp/x", [](std::ifstream &f, {k["L"]} &l) -> std::ifstream & {{ (void)l; return f; }}); (void)g;')
    return c


def fixed_cells():
    c = []

    def add(entry, code):
        c.append((f"fixed.{entry}.{len(c)}", entry, code))
    for G, und in (("DirectedMultigraph", False), ("UndirectedMultigraph", True)):
        add(f"{G}::ctor", f"{G} g(3); {G} h; std::list<LabeledEdge<EdgeMultiplicity>> l = {{{{0, 2, 1}}, {{0, 1, 4}}}}; {G} i(l); std::vector<LabeledEdge<EdgeMultiplicity>> v; {G} j(v);")
        add(f"{G}::ctor", f"std::forward_list<LabeledEdge<EdgeMultiplicity>> f = {{{{0, 2, 1}}, {{0, 1, 4}}}}; {G} g(f); std::deque<LabeledEdge<EdgeMultiplicity>> d(f.begin(), f.end()); {G} h(d);")
        add(f"{G}::basic", f"{G} g(3); g.resize(4); (void)g.getSize(); (void)g.getEdgeNumber(); (void)g.getTotalEdgeNumber(); {G} h(g); bool b = (g == h) && !(g != h); (void)b;")
        add(f"{G}::addEdge", f"{G} g(3); g.addEdge(0, 1); g.addEdge(0, 1, true); g.addMultiedge(0, 2, 3); g.addMultiedge(0, 2, 3, true);")
        if not und:
            add(f"{G}::addReciprocal", f"{G} g(3); g.addReciprocalEdge(0, 1); g.addReciprocalEdge(0, 1, true); g.addReciprocalMultiedge(0, 2, 3); g.addReciprocalMultiedge(0, 2, 3, true);")
        add(f"{G}::remove", f"{G} g(3); g.removeEdge(0, 1); g.removeMultiedge(0, 1, 2); g.setEdgeMultiplicity(0, 1, 2); g.removeDuplicateEdges(); g.removeSelfLoops(); g.removeVertexFromEdgeList(0); g.clearEdges();")
        add(f"{G}::observers", f"{G} g(3); (void)g.hasEdge(0, 1); (void)g.getEdgeMultiplicity(0, 1); (void)g.getOutNeighbours(0); auto &b = g.asLabeledGraph(); (void)b; for (VertexIndex v : g) (void)v; for (auto e : g.edges()) (void)e; std::ostringstream os; os << g;")
        if und:
            add(f"{G}::degrees", f"{G} g(3); (void)g.getDegree(0); (void)g.getDegree(0, false); (void)g.getDegrees(); (void)g.getDegrees(false); (void)g.getAdjacencyMatrix(); (void)g.getAdjacencyMatrix(false);")
        else:
            add(f"{G}::degrees", f"{G} g(3); (void)g.getOutDegree(0); (void)g.getOutDegrees(); (void)g.getInDegree(0); (void)g.getInDegrees(); (void)g.getAdjacencyMatrix();")
    for G, und in (("DirectedWeightedGraph", False), ("UndirectedWeightedGraph", True)):
        add(f"{G}::ctor", f"{G} g(3); {G} h;")
        add(f"{G}::ctor-edges", f"std::list<LabeledEdge<EdgeWeight>> l = {{{{0, 2, 0.5}}, {{0, 1, -2}}}}; {G} g(l); std::vector<LabeledEdge<EdgeWeight>> v; {G} h(v);")
        add(f"{G}::ctor-edges", f"std::forward_list<LabeledEdge<EdgeWeight>> f = {{{{0, 2, 0.5}}, {{0, 1, -2}}}}; {G} g(f); std::deque<LabeledEdge<EdgeWeight>> d(f.begin(), f.end()); {G} h(d);")
        add(f"{G}::basic", f"{G} g(3); g.resize(4); (void)g.getSize(); (void)g.getEdgeNumber(); (void)g.getTotalWeight(); {G} h(g); bool b = (g == h) && !(g != h); (void)b;")
        add(f"{G}::addEdge", f"{G} g(3); g.addEdge(0, 1, 0.5); g.addEdge(0, 1, 0.5, true); g.setEdgeWeight(0, 1, 2.);")
        if not und:
            add(f"{G}::addReciprocalEdge", f"{G} g(3); g.addReciprocalEdge(0, 1); g.addReciprocalEdge(0, 1, true);")
        add(f"{G}::remove", f"{G} g(3); g.removeEdge(0, 1); g.removeDuplicateEdges(); g.removeSelfLoops(); g.removeVertexFromEdgeList(0); g.clearEdges();")
        add(f"{G}::observers", f"{G} g(3); (void)g.hasEdge(0, 1); (void)g.getEdgeWeight(0, 1); (void)g.getEdgeWeight(0, 1, false); (void)g.getOutNeighbours(0); (void)g.getWeightMatrix(); (void)g.getAdjacencyMatrix(); auto &b = g.asLabeledGraph(); (void)b; for (VertexIndex v : g) (void)v; for (auto e : g.edges()) (void)e; std::ostringstream os; os << g;")
        if und:
            add(f"{G}::degrees", f"{G} g(3); (void)g.getDegree(0); (void)g.getDegree(0, false); (void)g.getDegrees(); (void)g.getDegrees(false); (void)g.getAdjacencyMatrix(false);")
        else:
            add(f"{G}::degrees", f"{G} g(3); (void)g.getOutDegree(0); (void)g.getOutDegrees(); (void)g.getInDegree(0); (void)g.getInDegrees();")
        add(f"{G}::dijkstra", f"{G} g(3); auto r = algorithms::findGeodesicsDijkstra(g, 0); (void)r;")
    add("io::helpers", 'io::VertexCountMapper m; (void)m("a"); std::string s = "1 2 x"; auto t = io::findEdgeFromString(s); (void)t; auto v = algorithms::findSourceVertex(std::vector<size_t>{1, 0}); (void)v;')
    add("types", "VertexIterator it(0); ++it; it++; (void)*it; NoLabel a, b; (void)(a == b); Edge e(0, 1); (void)e; Successors su; AdjacencyLists al; AdjacencyMatrix am; WeightMatrix wm; (void)su; (void)al; (void)am; (void)wm; (void)hashEdge()(e);")
    return c


def all_groups():
    """group name -> list of cells; each group is one translation unit"""
    groups = {}
    for kind in KINDS:
        groups[f"simple-{kind}"] = simple_cells(kind, False) + simple_cells(kind, True)
    groups["fixed"] = fixed_cells()
    return groups


def tu_source(cells):
    out = [PRELUDE]
    for n, (cid, entry, code) in enumerate(cells):
        out.append(f"// cell {cid}: {entry}\nvoid cell_{n}() {{ {code} }}\n")
    return "\n".join(out)


if __name__ == "__main__":
    import sys
    g = all_groups()
    print({k: len(v) for k, v in g.items()})
    if len(sys.argv) > 1:
        print(tu_source(g[sys.argv[1]]))
