// property C20: header BaseGraph/algorithms/topology.hpp has no include guard; this well-formed client does not compile:
#include "BaseGraph/algorithms/topology.hpp"
#include "BaseGraph/algorithms/topology.hpp"
int main() { return 0; }
/* g++ -std=c++14 says:
: redefinition of ‘template<template<class ...> class Graph, class EdgeLabel> Graph<EdgeLabel> BaseGraph::algorithms::getSubgraph(const Graph<EdgeLabel>&, const std::unordered_set<unsigned int>&)’
   19 | getSubgraph(const Graph<EdgeLabel> &graph,
      | ^~~~~~~~~~~
In file included from /verif/.work/matrix-23407/twice.cpp:1:
/repo/include/BaseGraph/algorithms/topology.hpp:19:1: note: ‘template<template<class ...> class Graph, class EdgeLabel> Graph<EdgeLabel> BaseGraph::algorithms::getSubgraph(const Graph<EdgeLabel>&, const std::unordered_set<unsigned int>&)’ previously declared here
   19 | getSubgraph(const Graph<EdgeLabel> &graph,
      | ^~~~~~~~~~~
/repo/include/BaseGraph/algorithms/topology.hpp:40:1: error: redefinition of ‘template<template<class ...> class Graph, class EdgeLabel> std::pair<Graph<EdgeLabel>, std::unordered_map<unsigned int, unsigned int> > BaseGraph::algorithms::getSubgraphWithRemap(const Graph<EdgeLabel>&, const std::unordered_set<unsigned int>&)’
   40 | getSubgraphWithRemap(const Graph<EdgeLabel> &graph,
      | ^~~~~~~~~~~~~~~~~~~~
/repo/include/BaseGraph/algorithms/topology.hpp:40:1: note: ‘template<template<class ...> class Graph, class EdgeLabel> std::pair<Graph<EdgeLabel>, std::unordered_map<unsigned int, unsigned int> > BaseGraph::algorithms::getSubgraphWithRemap(const Graph<EdgeLabel>&, const std::unordered_set<unsigned int>&)’ previously declared here
   40 | getSubgraphWithRemap(const Graph<EdgeLabel> &graph,
      | ^~~~~~~~~~~~~~~~~~~~

*/
