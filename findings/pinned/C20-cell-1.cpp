// property C20: documented entry point LabeledDirectedGraph<int>::writeTextEdgeList-default does not compile when used as documented
// cell dir.int.writeTextEdgeList-default.30; g++ -std=c++14 -fsyntax-only; also failing with: clang++-14 c++17, g++ c++14

#include "BaseGraph/types.h"
#include "BaseGraph/directed_graph.hpp"
#include "BaseGraph/undirected_graph.hpp"
#include "BaseGraph/directed_multigraph.hpp"
#include "BaseGraph/undirected_multigraph.hpp"
#include "BaseGraph/directed_weighted_graph.hpp"
#include "BaseGraph/undirected_weighted_graph.hpp"
#include "BaseGraph/fileio.hpp"
#include "BaseGraph/algorithms/paths.hpp"
#include "BaseGraph/algorithms/topology.hpp"
#include <deque>
#include <list>
#include <set>
#include <sstream>
#include <string>
#include <unordered_set>
#include <vector>
struct Pt { int a; int b; bool operator==(const Pt &o) const { return a == o.a && b == o.b; } };
using namespace BaseGraph;
void cell() { LabeledDirectedGraph<int> g(3); io::writeTextEdgeList(g, "/tmp/x"); }
int main() { return 0; }
/*
ng&, std::function<std::__cxx11::basic_string<char>(const EdgeLabel&)>) [with Graph = BaseGraph::LabeledDirectedGraph; EdgeLabel = int; std::string = std::__cxx11::basic_string<char>]’:
/verif/.work/matrix-23407/simple-int-30.cpp:22:68: error: cannot resolve overloaded function ‘to_string’ based on conversion to type ‘std::function<std::__cxx11::basic_string<char>(const int&)>’
   22 | void cell() { LabeledDirectedGraph<int> g(3); io::writeTextEdgeList(g, "/tmp/x"); }
      |                                               ~~~~~~~~~~~~~~~~~~~~~^~~~~~~~~~~~~
/verif/.work/matrix-23407/simple-int-30.cpp:22:68: note:   when instantiating default argument for call to ‘void BaseGraph::io::writeTextEdgeList(const Graph<EdgeLabel>&, const std::string&, std::function<std::__cxx11::basic_string<char>(const EdgeLabel&)>) [with Graph = BaseGraph::LabeledDirectedGraph; EdgeLabel = int; std::string = std::__cxx11::basic_string<char>]’
/verif/.work/matrix-23407/simple-int-30.cpp: In function ‘void cell()’:
/verif/.work/matrix-23407/simple-int-30.cpp:22:68: error: cannot resolve overloaded function ‘to_string’ based on conversion to type ‘std::function<std::__cxx11::basic_string<char>(const int&)>’

*/
