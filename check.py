#!/usr/bin/env python3
"""check.py <Cxx> [--tier quick|thorough] [--replay FILE]

Decides one property of /verif/properties.jsonl for /repo's current working tree:
  1. lake build of the Lean model + proofs, forbidden-token grep, `#print axioms` audit of the
     property's theorems (the proof obligations);
  2. correspondence: the C++ harness (real classes, ASan+UBSan) and the compiled Lean driver run
     the same histories; transcripts must agree exactly;
  3. on disagreement: search for a concrete failing input (projection = what the property itself
     constrains), shrink it, report  VIOLATION property=<id> replay=<path>  [no-failing-input-found].
Exit 0 iff everything held.  Evidence: /verif/evidence/<id>.json.
"""
import argparse
import json
import os
import random
import sys
import time

sys.path.insert(0, os.path.dirname(os.path.abspath(__file__)))
from vlib import core, engine, props  # noqa: E402

# build configurations beyond the sanitizer build of the main pass (name, compiler, flags, defines)
EXTRA_CONFIGS = {
    "debugmode": ("g++-O1-glibcxx-debug", "g++", ["-std=c++17", "-O1", "-g1"], ["-D_GLIBCXX_DEBUG", "-D_GLIBCXX_DEBUG_PEDANTIC"]),
    "release": ("g++-O2-ndebug", "g++", ["-std=c++17", "-O2"], ["-DNDEBUG"]),
}
try:
    from vlib import special  # noqa: E402
except ImportError:  # pragma: no cover
    special = None

KNOWN = os.path.join(core.VERIF, "known_findings.json")

TRUSTED_BASE = [
    "Lean 4.33.0 kernel; axioms propext, Classical.choice, Quot.sound only (audited by #print axioms each run)",
    "statements in lean/BGV/Props and lean/BGV/Spec",
    "correspondence check: harness/bgh.cpp, lean/Driver.lean (parsing/printing glue), vlib orchestration, generator reach",
    "libstdc++ containers behave as specified; compiler; not modelled: floating-point rounding, allocation failure, OS file layer, C++ object lifetime",
]


def load_known():
    try:
        return json.load(open(KNOWN))
    except (OSError, ValueError):
        return {"open": [], "fixed": []}


def match_known(pid, shrunk_ops):
    """an open known finding matches when its signature (list of op verbs / substrings) all occur"""
    for k in load_known().get("open", []):
        if k.get("property") != pid:
            continue
        sig = k.get("signature", [])
        text = "\n".join(shrunk_ops)
        if sig and all(s in text for s in sig):
            return k
    return None


def proof_part(pid, tier="quick"):
    """returns (obligations, discharged, problems[list of str], theorem names)"""
    problems = []
    hits = core.grep_forbidden()
    if hits:
        problems.append("forbidden tokens in Lean sources: " + "; ".join(hits[:5]))
    thms = core.audit_theorems().get(pid, [])
    rc, out, ax = core.audit_axioms()
    discharged = 0
    for t in thms:
        a = ax.get(t)
        if a is None:
            problems.append(f"theorem {t} not accepted / not found by `lake env lean Audit.lean`")
        elif not set(a) <= core.ALLOWED_AXIOMS:
            problems.append(f"theorem {t} depends on disallowed axioms {a}")
        else:
            discharged += 1
    if rc != 0 and thms:
        problems.append("Audit.lean did not elaborate: " + out[-800:])
    if tier == "thorough" and thms:
        # independent re-check of the compiled proofs of this property's modules by leanchecker
        import glob, re as _re
        mods = []
        for f in sorted(glob.glob(os.path.join(core.LEAN, "BGV", "Props", "*.lean"))):
            if _re.search(r"^theorem\s+%s_" % pid, open(f).read(), _re.M):
                mods.append("BGV.Props." + os.path.basename(f)[:-5])
        with core.lean_lock():
            for mod in mods:
                rc2, out2 = core.sh(["lake", "env", "leanchecker", mod], cwd=core.LEAN, timeout=1800)
                if rc2 != 0:
                    problems.append(f"leanchecker rejected {mod}: " + out2[-400:])
        LEANCHECKED[:] = mods
    return len(thms), discharged, problems, thms


LEANCHECKED = []


def replay_text(pid, kind, fail, shrunk, note=""):
    m = fail["mismatch"]
    lines = [f"# property {pid}: {kind}", f"# {note}" if note else "#",
             f"# first differing step {m['step']}: {m['op']}",
             "# --- shrunk history (feed to: check.py %s --replay <this file>) ---" % pid]
    lines += shrunk
    lines += ["# --- implementation said ---"] + ["#   " + l for l in m["impl"][:60]]
    lines += ["# --- model (proved to meet the property) said ---"] + ["#   " + l for l in m["model"][:60]]
    if m.get("impl_err"):
        lines += ["# --- stderr of the implementation run ---"] + ["#   " + l for l in m["impl_err"].split("\n")[-40:]]
    return "\n".join(lines) + "\n"


# ------------------------------------------------------------------ C07: the API surface is tied to the model
# Public entry points that receive a vertex index from the caller, as covered by C07's theorems and by
# vlib/props.py:invalid_calls.  The inventory is REGENERATED from /repo's headers on every run
# (translator/ast_facts.py -> lean/BGVGen/EntryPoints.lean); an entry point that takes a vertex index and
# is not listed here is one about which neither a theorem nor the correspondence says anything.
C07_COVERED = {
    "LabeledDirectedGraph": {"addEdge", "addReciprocalEdge", "removeEdge", "hasEdge", "getEdgeLabel", "setEdgeLabel",
                             "removeVertexFromEdgeList", "getOutNeighbours", "getInDegree", "getOutDegree"},
    "LabeledUndirectedGraph": {"addEdge", "removeEdge", "hasEdge", "getEdgeLabel", "setEdgeLabel",
                               "removeVertexFromEdgeList", "getDegree", "getNeighbours"},
    "DirectedMultigraph": {"addEdge", "addMultiedge", "addReciprocalEdge", "addReciprocalMultiedge", "getEdgeMultiplicity",
                           "getInDegree", "getOutDegree", "hasEdge", "removeEdge", "removeMultiedge",
                           "removeVertexFromEdgeList", "setEdgeMultiplicity"},
    "UndirectedMultigraph": {"addEdge", "addMultiedge", "getDegree", "getEdgeMultiplicity", "hasEdge", "removeEdge",
                             "removeMultiedge", "removeVertexFromEdgeList", "setEdgeMultiplicity"},
    "DirectedWeightedGraph": {"addEdge", "addReciprocalEdge", "getEdgeWeight", "removeEdge", "removeVertexFromEdgeList",
                              "setEdgeWeight"},
    "UndirectedWeightedGraph": {"addEdge", "getEdgeWeight", "removeEdge", "removeVertexFromEdgeList", "setEdgeWeight"},
    "": {"findVertexPredecessors", "findAllVertexPredecessors", "findGeodesics", "findAllGeodesics",
         "findGeodesicsFromVertex", "findAllGeodesicsFromVertex", "findGeodesicsDijkstra",
         "findPathToVertexFromPredecessors", "findMultiplePathsToVertexFromPredecessors",
         "getSubgraph", "getSubgraphWithRemap"},
}
# not entry points for a caller's vertex index: the range check itself, iterator constructors (reached
# only through begin()/end()), and the loader whose VertexIndex-typed parameter is a name->index callback
C07_NOT_INDEX_INPUTS = {("LabeledDirectedGraph", "assertVertexInRange"), ("VertexIterator", "VertexIterator"),
                        ("constEdgeIterator", "constEdgeIterator"), ("", "loadTextVertexLabeledEdgeList")}


def c07_api_tie():
    """returns (inventory size, list of uncovered entry points) from the regenerated table"""
    import re as _re
    with core.lean_lock():
        special.run_translator()
        ep = open(os.path.join(core.LEAN, "BGVGen", "EntryPoints.lean")).read()
    members, free = ep.split("def freeEntryPoints")[0], ep.split("def freeEntryPoints")[1] if "def freeEntryPoints" in ep else ""
    inv, unc = 0, []
    for (c, m_, n) in _re.findall(r'\("([^"]*)", "([^"]+)", (\d+)\)', members):
        if int(n) == 0 or (c, m_) in C07_NOT_INDEX_INPUTS:
            continue
        inv += 1
        if m_ not in C07_COVERED.get(c, set()):
            unc.append(f"{c}::{m_} ({n} vertex-index parameter(s))")
    for (h, m_, n) in _re.findall(r'\("([^"]*)", "([^"]+)", (\d+)\)', free):
        if int(n) == 0 or ("", m_) in C07_NOT_INDEX_INPUTS:
            continue
        inv += 1
        if m_ not in C07_COVERED[""]:
            unc.append(f"{m_} in {h} ({n} vertex-index parameter(s))")
    return inv, sorted(set(unc))


def main():
    ap = argparse.ArgumentParser()
    ap.add_argument("pid")
    ap.add_argument("--tier", default=os.environ.get("VERIF_TIER", "quick"))
    ap.add_argument("--replay")
    args = ap.parse_args()
    pid, tier = args.pid, args.tier
    if tier not in ("quick", "thorough"):
        tier = "quick"
    seed = int(os.environ.get("VERIF_SEED", "20260926"))
    t0 = time.time()
    core.sweep_work()
    violations = 0
    out_lines = []

    def violation(replay_path, nofail=False):
        nonlocal violations
        violations += 1
        s = f"VIOLATION property={pid} replay={replay_path}"
        if nofail:
            s += " no-failing-input-found"
        print(s, flush=True)

    # ---- 1. proofs
    proof_problems = []
    obligations = discharged = 0
    thms = []
    try:
        core.build_lean()
        obligations, discharged, proof_problems, thms = proof_part(pid, tier)
    except core.BuildError as e:
        proof_problems.append(f"{e.what} failed:\n{e.output[-3000:]}")
    if proof_problems:
        p = core.write_replay(pid, "proof-obligations.txt",
                              f"# property {pid}: proof obligations that no longer check\n" + "\n".join(proof_problems) + "\n")
        violation(p, nofail=True)

    api = None
    if pid == "C07" and special is not None and not args.replay:
        try:
            api = c07_api_tie()
            if api[1]:
                p = core.write_replay(pid, "entry-points.txt",
                                      "# property C07 quantifies over every public entry point that takes a vertex index.\n"
                                      "# These entry points of /repo's headers (regenerated inventory, lean/BGVGen/EntryPoints.lean)\n"
                                      "# are covered neither by a C07 theorem nor by the rejected-call workload, so the property is\n"
                                      "# no longer shown to hold for them:\n" + "\n".join(api[1]) + "\n")
                violation(p, nofail=True)
        except Exception as e:   # the translator failing is reported, not swallowed
            p = core.write_replay(pid, "entry-points.txt", f"# the entry-point inventory could not be regenerated from /repo: {e}\n")
            violation(p, nofail=True)

    if special is not None and pid in special.HANDLERS:
        # properties with their own machinery (C17, C18, C20, …)
        rc = special.HANDLERS[pid](pid, tier, seed, args, dict(obligations=obligations, discharged=discharged,
                                                                 thms=thms, violations_fn=lambda: violations, t0=t0,
                                                                 trusted=TRUSTED_BASE, violation=violation))
        sys.exit(rc)

    # ---- 2. correspondence
    stats = engine.Stats()
    failures = []
    proj = engine.c19_projection if pid == "C19" else engine.make_projection(props.PROJECTION.get(pid, engine.ALL_PREFIXES), strip_scans=(pid in ("C11", "C12")))
    harness = None
    if not (proof_problems and not os.path.exists(core.DRIVER)):
        try:
            harness = core.build_harness()
        except core.BuildError as e:
            p = core.write_replay(pid, "harness-build.txt", f"# harness does not build against /repo/include\n{e.output[-6000:]}\n")
            violation(p, nofail=True)
    if harness and os.path.exists(core.DRIVER):
        if args.replay:
            ops = [l.rstrip("\n") for l in open(args.replay) if l.strip() and not l.startswith("#")]
            marks = [l.split(":", 1)[1].strip() for l in open(args.replay) if l.startswith("# replay-config:")]
            if marks and marks[0] in EXTRA_CONFIGS:
                cfg = EXTRA_CONFIGS[marks[0]]
                harness = core.build_harness(name="bgh17-" + cfg[0], flags=cfg[2], compiler=cfg[1], defines=cfg[3])
            m, r = engine.run_one(ops, harness, proj, tag="replay")
            print(r["impl"])
            if m is not None:
                failures.append(dict(ops=ops, meta={}, mismatch=m))
            stats.evaluations = 1
        else:
            rng = random.Random(seed)
            corpus = os.path.join(core.VERIF, "corpus", pid)
            hs = []
            if os.path.isdir(corpus):
                for f in sorted(os.listdir(corpus)):
                    ops = [l.rstrip("\n") for l in open(os.path.join(corpus, f)) if l.strip() and not l.startswith("#")]
                    hs.append(({"corpus": f}, ops))
            failures += engine.run_histories(hs, harness, proj, stats) if hs else []
            failures += engine.run_histories(props.WORKLOADS[pid](tier, rng), harness, proj, stats)

    # ---- 2a. C19: the Dijkstra correspondence is broken but no explored history exceeds the bound -> guided search
    #          for a graph on which the implementation does (vlib/c19search.py); confirmed through the usual path
    guided = None
    if (pid == "C19" and harness and failures and not args.replay and os.path.exists(core.DRIVER)
            and not any(f["mismatch"]["kind"] == "violation" for f in failures)
            and any(str(f["mismatch"].get("op", "")).startswith("dijkstra") for f in failures)):
        from vlib import c19search
        t0 = time.time()
        try:    # an optimised build of the same harness evaluates ~20x more graphs per second than the sanitizer build
            fast = core.build_harness(name="bghO2", flags=["-O2"])
        except core.BuildError:
            fast = harness
        cand, tried = c19search.search(fast, seed, budget_s=75 if tier == "quick" else 300)
        guided = {"graphs_evaluated": tried, "found": cand is not None, "wall_s": round(time.time() - t0, 1)}
        if cand is not None:
            m, _ = engine.run_one(cand, harness, proj, tag="c19search")
            if m is not None and m["kind"] == "violation":
                failures.insert(0, dict(ops=cand, meta={"family": "guided-search"}, mismatch=m))
            else:
                guided["found"] = False

    # ---- 2b. C07 / C15 also say "never reads or writes out of bounds" (and C08: every traversal "is defined"): the same workload once more under
    #          libstdc++'s debug mode, whose assertions see what ASan cannot (an access inside a small-string
    #          buffer, `back()` of an empty string, an invalidated iterator)
    debug_mode = None
    if pid in ("C07", "C08", "C15") and harness and special is not None and os.path.exists(core.DRIVER) and not args.replay:
        cfg = special.CONFIGS_QUICK[1]
        try:
            dbg = core.build_harness(name="bgh17-" + cfg[0], flags=cfg[2], compiler=cfg[1], defines=cfg[3])
            st2 = engine.Stats()
            f2 = engine.run_histories(props.WORKLOADS[pid](tier, random.Random(seed)), dbg, proj, st2)
            debug_mode = {"configuration": cfg[0], "histories": st2.evaluations, "mismatches": len(f2)}
            for k, fl in enumerate(f2[:2]):
                try:
                    shrunk = engine.shrink(fl["ops"], dbg, proj, fl["mismatch"]["kind"], budget=60)
                except Exception:
                    shrunk = fl["ops"]
                m = fl["mismatch"]
                text = [f"# property {pid}: under libstdc++ debug mode ({cfg[1]} {' '.join(cfg[2] + cfg[3])}) this history does not",
                        "# produce the model's transcript: a debug-mode assertion (an out-of-bounds or otherwise undefined access)",
                        "# replay-config: debugmode",
                        f"# first differing step {m['step']}: {m['op']}"] + shrunk
                text += ["# --- this configuration said ---"] + ["#   " + l for l in m["impl"][:30]]
                text += ["# --- model said ---"] + ["#   " + l for l in m["model"][:30]]
                if m.get("impl_err"):
                    text += ["# --- stderr ---"] + ["#   " + l for l in m["impl_err"].split("\n")[-25:]]
                p = core.write_replay(pid, f"debugmode-{k + 1}.ops", "\n".join(text) + "\n")
                violation(p)
        except core.BuildError as e:
            p = core.write_replay(pid, "harness-build-debugmode.txt", f"# harness does not build in libstdc++ debug mode\n{e.output[-4000:]}\n")
            violation(p, nofail=True)

    # ---- 2c. the configuration users actually ship: -O2 -DNDEBUG.  Code whose effect sits inside an `assert(...)`, or that
    #          relies on what an unoptimised build happens to do, passes every sanitizer build and fails here.  Run only
    #          when the main pass found nothing (its replays are the better ones).
    release_mode = None
    if (pid in props.WORKLOADS and harness and not failures and os.path.exists(core.DRIVER) and not args.replay
            and not proof_problems):
        cfg = EXTRA_CONFIGS["release"]
        try:
            rel = core.build_harness(name="bgh17-" + cfg[0], flags=cfg[2], compiler=cfg[1], defines=cfg[3])
            st3 = engine.Stats()
            f3 = engine.run_histories(props.WORKLOADS[pid](tier, random.Random(seed)), rel, proj, st3)
            release_mode = {"configuration": cfg[0], "histories": st3.evaluations, "mismatches": len(f3)}
            f3.sort(key=lambda f: 0 if f["mismatch"]["kind"] == "violation" else 1)
            for k, fl in enumerate(f3[:2]):
                try:
                    shrunk = engine.shrink(fl["ops"], rel, proj, fl["mismatch"]["kind"], budget=60)
                except Exception:
                    shrunk = fl["ops"]
                m = fl["mismatch"]
                isv = m["kind"] == "violation"
                text = [f"# property {pid}: in a release build ({cfg[1]} {' '.join(cfg[2] + cfg[3])}) this history "
                        + ("contradicts the property" if isv else "does not produce the model's transcript (the property's own relation holds on it)"),
                        "# replay-config: release",
                        f"# first differing step {m['step']}: {m['op']}"] + shrunk
                text += ["# --- this configuration said ---"] + ["#   " + l for l in m["impl"][:30]]
                text += ["# --- model said ---"] + ["#   " + l for l in m["model"][:30]]
                p = core.write_replay(pid, f"release-{k + 1}.ops", "\n".join(text) + "\n")
                violation(p, nofail=not isv)
        except core.BuildError as e:
            p = core.write_replay(pid, "harness-build-release.txt", f"# harness does not build with -O2 -DNDEBUG\n{e.output[-4000:]}\n")
            violation(p, nofail=True)

    # ---- 3. classify, shrink, report
    reported = set()
    failures.sort(key=lambda f: 0 if f["mismatch"]["kind"] == "violation" else 1)
    for fl in failures[:5]:
        kind = fl["mismatch"]["kind"]
        try:
            shrunk = engine.shrink(fl["ops"], harness, proj, kind)
            m2, _ = engine.run_one(shrunk, harness, proj, tag="final")
            if m2 is not None:
                fl = dict(ops=shrunk, meta=fl["meta"], mismatch=m2)
            else:
                shrunk = fl["ops"]
        except Exception as e:  # shrinking is best effort
            shrunk = fl["ops"]
            core.log(f"[shrink] failed: {e}")
        sig = "\n".join(shrunk)
        if sig in reported:
            continue
        reported.add(sig)
        k = match_known(pid, shrunk) if kind == "violation" else None
        if k:
            print(f"KNOWN-FINDING: property={pid} {k.get('what', '')}", flush=True)
            continue
        if kind == "violation":
            p = core.write_replay(pid, f"violation-{len(reported)}.ops",
                                  replay_text(pid, "the implementation's observable behaviour contradicts the property on this history", fl, shrunk))
            violation(p)
        else:
            p = core.write_replay(pid, f"divergence-{len(reported)}.ops",
                                  replay_text(pid, "correspondence model==implementation no longer checks (theorems therefore no longer speak about this code); "
                                              "the property's own relation was not violated on any explored history", fl, shrunk,
                                              note="broken: correspondence bgh(harness) vs bgdriver(model) for " + ", ".join(thms[:3])))
            violation(p, nofail=True)

    # ---- 4. evidence
    cov = stats.coverage()
    level = "proof" if obligations > 0 else "exploration"
    cov.update({
        "obligations": obligations, "discharged": discharged,
        "checker_cmd": "cd /verif/lean && lake build BGV && lake env lean Audit.lean   (#print axioms on: " + ", ".join(thms) + ")"
                       + ("; lake env leanchecker " + " ".join(LEANCHECKED) if LEANCHECKED else ""),
        "trusted_base": TRUSTED_BASE,
        "traces_validated_against_impl": stats.evaluations,
        "rule": "histories from vlib/props.py (exhaustive small scopes + seeded random, corpus first); distinct = sha1 of the op list; "
                "non-trivial = at least one step after which the dumped state of a slot differs from its previous dump",
        "correspondence_failures": len(failures),
        "theorems": thms,
    })
    if debug_mode is not None:
        cov["libstdcxx_debug_mode"] = debug_mode
    if guided is not None:
        cov["guided_search_for_failing_input"] = guided
    if release_mode is not None:
        cov["release_build_ndebug"] = release_mode
    if api is not None:
        cov["entry_points_taking_a_vertex_index"] = api[0]
        cov["entry_points_not_covered"] = api[1]
    if not cov["samples"]:
        cov["samples"] = [["<no history was run>"]]
    core.write_evidence(pid, tier, seed, level, cov, time.time() - t0, violations,
                        assumptions=TRUSTED_BASE)
    core.log(f"[{pid}] tier={tier} seed={seed} histories={stats.evaluations} steps={stats.steps} "
             f"obligations={discharged}/{obligations} violations={violations} wall={time.time()-t0:.1f}s")
    sys.exit(1 if violations else 0)


if __name__ == "__main__":
    main()
