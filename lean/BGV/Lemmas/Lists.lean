/-!
# BGV.Lemmas.Lists — generic facts about `List (List Nat)` updates, sums and counting
-/
namespace BGV

theorem getD_modify {α} (a : List (List α)) (i k : Nat) (f : List α → List α) (hf : f [] = []) :
    (a.modify i f).getD k [] = if i = k then f (a.getD k []) else a.getD k [] := by
  simp only [List.getD_eq_getElem?_getD, List.getElem?_modify]
  cases h : a[k]? <;> simp [hf] <;> split <;> simp_all

theorem getD_modify_lt {α} (a : List (List α)) (i k : Nat) (f : List α → List α) (hi : i < a.length) :
    (a.modify i f).getD k [] = if i = k then f (a.getD k []) else a.getD k [] := by
  simp only [List.getD_eq_getElem?_getD, List.getElem?_modify]
  by_cases hik : i = k
  · subst hik; simp [hi]
  · simp [hik]

theorem getD_modify_ge {α} (a : List (List α)) (i k : Nat) (f : List α → List α) (hi : a.length ≤ i) :
    (a.modify i f).getD k [] = a.getD k [] := by
  simp only [List.getD_eq_getElem?_getD, List.getElem?_modify]
  by_cases hik : i = k
  · subst hik
    have : a[i]? = none := by simp [hi]
    simp [this]
  · simp [hik]

theorem sum_len_modify (a : List (List Nat)) (i : Nat) (f : List Nat → List Nat) (hi : i < a.length) :
    ((a.modify i f).map List.length).sum + (a.getD i []).length
      = (a.map List.length).sum + (f (a.getD i [])).length := by
  induction a generalizing i with
  | nil => simp at hi
  | cons x xs ih =>
    cases i with
    | zero => simp [List.modify]; omega
    | succ j =>
      have hj : j < xs.length := by simpa using hi
      have := ih j hj
      simp [List.modify] at this ⊢
      omega

theorem modify_of_ge {α} (a : List α) (i : Nat) (f : α → α) (hi : a.length ≤ i) : a.modify i f = a := by
  apply List.ext_getElem?
  intro k
  simp only [List.getElem?_modify]
  by_cases hik : i = k
  · subst hik
    have : a[i]? = none := by simp [hi]
    simp [this]
  · simp [hik]

theorem getD_len_le_sum (a : List (List Nat)) (i : Nat) :
    (a.getD i []).length ≤ (a.map List.length).sum := by
  induction a generalizing i with
  | nil => simp
  | cons x xs ih =>
    cases i with
    | zero => simp
    | succ j => have := ih j; simp at this ⊢; omega

theorem getD_replicate_nil {α} (n k : Nat) : (List.replicate n ([] : List α)).getD k [] = [] := by
  simp [List.getD_eq_getElem?_getD, List.getElem?_replicate]
  split <;> simp

theorem getD_append_replicate {α} (a : List (List α)) (m k : Nat) :
    (a ++ List.replicate m []).getD k [] = a.getD k [] := by
  simp only [List.getD_eq_getElem?_getD]
  by_cases hk : k < a.length
  · simp [List.getElem?_append_left hk]
  · have hk' : a.length ≤ k := by omega
    rw [List.getElem?_append_right hk']
    have : a[k]? = none := by simp [hk']
    simp [this, List.getElem?_replicate]
    split <;> simp

theorem sum_map_length_append_replicate (a : List (List Nat)) (m : Nat) :
    ((a ++ List.replicate m []).map List.length).sum = (a.map List.length).sum := by
  simp

/-- a duplicate-free list of numbers below `n` is as long as the set of numbers below `n` it contains -/
theorem nodup_length_eq_filter_range (l : List Nat) (n : Nat) (hn : l.Nodup) (hb : ∀ x ∈ l, x < n) :
    l.length = ((List.range n).filter (fun x => l.contains x)).length := by
  have h1 : ((List.range n).filter (fun x => l.contains x)).Nodup :=
    List.Nodup.sublist List.filter_sublist List.nodup_range
  have hp : l.Perm ((List.range n).filter (fun x => l.contains x)) := by
    apply (List.perm_ext_iff_of_nodup hn h1).2
    intro x
    simp only [List.mem_filter, List.mem_range, List.contains_eq_mem, decide_eq_true_eq]
    constructor
    · intro hx; exact ⟨hb x hx, hx⟩
    · intro hx; exact hx.2
  exact hp.length_eq

end BGV

namespace BGV

/-! ### sums over an index range and filtered lengths (undirected counting) -/

theorem sum_map_range_change (n a : Nat) (f f' : Nat → Nat) (ha : a < n) (h : ∀ k, k ≠ a → f' k = f k) :
    ((List.range n).map f').sum + f a = ((List.range n).map f).sum + f' a := by
  induction n with
  | zero => omega
  | succ n ih =>
    rw [List.range_succ, List.map_append, List.map_append, List.sum_append, List.sum_append]
    simp only [List.map_cons, List.map_nil, List.sum_cons, List.sum_nil, Nat.add_zero]
    by_cases han : a = n
    · subst han
      have : (List.range a).map f' = (List.range a).map f := by
        apply List.map_congr_left
        intro k hk
        have : k < a := by simpa using hk
        exact h k (by omega)
      rw [this]; omega
    · have := ih (by omega)
      have hn := h n (fun e => han e.symm)
      omega

theorem sum_map_range_congr (n : Nat) (f f' : Nat → Nat) (h : ∀ k, k < n → f' k = f k) :
    ((List.range n).map f').sum = ((List.range n).map f).sum := by
  congr 1
  apply List.map_congr_left
  intro k hk
  exact h k (by simpa using hk)

theorem length_filter_append_singleton {α} (l : List α) (x : α) (p : α → Bool) :
    ((l ++ [x]).filter p).length = (l.filter p).length + (if p x then 1 else 0) := by
  rw [List.filter_append, List.length_append]
  by_cases hx : p x = true <;> simp [List.filter, hx]

/-- removing the (at most one) occurrence of `x` from a duplicate-free list -/
theorem length_filter_ne_of_nodup (l : List Nat) (x : Nat) (p : Nat → Bool) (hn : l.Nodup) :
    ((l.filter (· != x)).filter p).length + (if x ∈ l ∧ p x = true then 1 else 0) = (l.filter p).length := by
  induction l with
  | nil => simp
  | cons y ys ih =>
    have hn' := List.nodup_cons.1 hn
    have := ih hn'.2
    by_cases hyx : y = x
    · subst hyx
      have hnot : y ∉ ys := hn'.1
      have hf : ys.filter (· != y) = ys := by
        apply List.filter_eq_self.2
        intro a ha; simp; intro e; subst e; exact hnot ha
      simp only [List.filter_cons, bne_self_eq_false, Bool.false_eq_true, if_false, hf, List.mem_cons, true_or, true_and]
      by_cases hp : p y = true <;> simp [hp]
    · have hb : (y != x) = true := by simpa using hyx
      simp only [List.filter_cons, hb, if_true, List.mem_cons]
      have hor : (x = y ∨ x ∈ ys) ↔ x ∈ ys := by
        constructor
        · rintro (e | h); exact absurd e.symm hyx; exact h
        · exact Or.inr
      by_cases hp : p y = true
      · simp only [hp, if_true, List.length_cons, hor] at this ⊢; omega
      · simp only [hp, Bool.false_eq_true, if_false, hor] at this ⊢; exact this

theorem length_filter_partition {α} (l : List α) (q p : α → Bool) :
    ((l.filter q).filter p).length + ((l.filter (fun a => !q a)).filter p).length = (l.filter p).length := by
  induction l with
  | nil => rfl
  | cons y ys ih =>
    by_cases hq : q y = true
    · by_cases hp : p y = true
      · simp only [List.filter_cons, hq, hp, if_true, Bool.not_true, Bool.false_eq_true, if_false, List.length_cons]
        omega
      · simp only [List.filter_cons, hq, hp, if_true, Bool.not_true, Bool.false_eq_true, if_false]
        exact ih
    · have hq' : q y = false := by simpa using hq
      by_cases hp : p y = true
      · simp only [List.filter_cons, hq', hp, if_true, Bool.not_false, Bool.false_eq_true, if_false, List.length_cons]
        omega
      · simp only [List.filter_cons, hq', hp, if_true, Bool.not_false, Bool.false_eq_true, if_false]
        exact ih

theorem length_filter_ne_eq (l : List Nat) (x : Nat) (hn : l.Nodup) :
    (l.filter (· != x)).length + (if x ∈ l then 1 else 0) = l.length := by
  have := length_filter_ne_of_nodup l x (fun _ => true) hn
  have ht : ∀ (m : List Nat), m.filter (fun _ => true) = m := fun m => List.filter_eq_self.2 (fun _ _ => rfl)
  rw [ht, ht] at this
  simpa using this

theorem sum_eq_zero_of_forall (l : List Nat) (h : ∀ x ∈ l, x = 0) : l.sum = 0 := by
  induction l with
  | nil => rfl
  | cons a as ih =>
    have h1 := h a (by simp)
    have h2 := ih (fun x hx => h x (by simp [hx]))
    simp [h1, h2]

theorem le_sum_of_mem' (l : List Nat) (x : Nat) (h : x ∈ l) : x ≤ l.sum := by
  induction l with
  | nil => simp at h
  | cons a as ih =>
    simp only [List.sum_cons]
    rcases List.mem_cons.1 h with rfl | h
    · omega
    · have := ih h; omega

end BGV
