/-!
# BGV.Lemmas.Lists — generic facts about `List (List Nat)` updates, sums and counting
-/
namespace BGV

theorem getD_modify {α} (a : List (List α)) (i k : Nat) (f : List α → List α) (hf : f [] = []) :
    (a.modify i f).getD k [] = if i = k then f (a.getD k []) else a.getD k [] := by
  simp only [List.getD_eq_getElem?_getD, List.getElem?_modify]
  cases h : a[k]? <;> simp [hf] <;> split <;> simp_all

theorem getD_modify_lt {α} (a : List (List α)) (i k : Nat) (f : List α → List α) (hi : i < a.length) :
    (a.modify i f).getD k [] = if i = k then f (a.getD k []) else a.getD k [] := by
  simp only [List.getD_eq_getElem?_getD, List.getElem?_modify]
  by_cases hik : i = k
  · subst hik; simp [hi]
  · simp [hik]

theorem getD_modify_ge {α} (a : List (List α)) (i k : Nat) (f : List α → List α) (hi : a.length ≤ i) :
    (a.modify i f).getD k [] = a.getD k [] := by
  simp only [List.getD_eq_getElem?_getD, List.getElem?_modify]
  by_cases hik : i = k
  · subst hik
    have : a[i]? = none := by simp [hi]
    simp [this]
  · simp [hik]

theorem sum_len_modify (a : List (List Nat)) (i : Nat) (f : List Nat → List Nat) (hi : i < a.length) :
    ((a.modify i f).map List.length).sum + (a.getD i []).length
      = (a.map List.length).sum + (f (a.getD i [])).length := by
  induction a generalizing i with
  | nil => simp at hi
  | cons x xs ih =>
    cases i with
    | zero => simp [List.modify]; omega
    | succ j =>
      have hj : j < xs.length := by simpa using hi
      have := ih j hj
      simp [List.modify] at this ⊢
      omega

theorem modify_of_ge {α} (a : List α) (i : Nat) (f : α → α) (hi : a.length ≤ i) : a.modify i f = a := by
  apply List.ext_getElem?
  intro k
  simp only [List.getElem?_modify]
  by_cases hik : i = k
  · subst hik
    have : a[i]? = none := by simp [hi]
    simp [this]
  · simp [hik]

theorem getD_len_le_sum (a : List (List Nat)) (i : Nat) :
    (a.getD i []).length ≤ (a.map List.length).sum := by
  induction a generalizing i with
  | nil => simp
  | cons x xs ih =>
    cases i with
    | zero => simp
    | succ j => have := ih j; simp at this ⊢; omega

theorem getD_replicate_nil {α} (n k : Nat) : (List.replicate n ([] : List α)).getD k [] = [] := by
  simp [List.getD_eq_getElem?_getD, List.getElem?_replicate]
  split <;> simp

theorem getD_append_replicate {α} (a : List (List α)) (m k : Nat) :
    (a ++ List.replicate m []).getD k [] = a.getD k [] := by
  simp only [List.getD_eq_getElem?_getD]
  by_cases hk : k < a.length
  · simp [List.getElem?_append_left hk]
  · have hk' : a.length ≤ k := by omega
    rw [List.getElem?_append_right hk']
    have : a[k]? = none := by simp [hk']
    simp [this, List.getElem?_replicate]
    split <;> simp

theorem sum_map_length_append_replicate (a : List (List Nat)) (m : Nat) :
    ((a ++ List.replicate m []).map List.length).sum = (a.map List.length).sum := by
  simp

/-- a duplicate-free list of numbers below `n` is as long as the set of numbers below `n` it contains -/
theorem nodup_length_eq_filter_range (l : List Nat) (n : Nat) (hn : l.Nodup) (hb : ∀ x ∈ l, x < n) :
    l.length = ((List.range n).filter (fun x => l.contains x)).length := by
  have h1 : ((List.range n).filter (fun x => l.contains x)).Nodup :=
    List.Nodup.sublist List.filter_sublist List.nodup_range
  have hp : l.Perm ((List.range n).filter (fun x => l.contains x)) := by
    apply (List.perm_ext_iff_of_nodup hn h1).2
    intro x
    simp only [List.mem_filter, List.mem_range, List.contains_eq_mem, decide_eq_true_eq]
    constructor
    · intro hx; exact ⟨hb x hx, hx⟩
    · intro hx; exact hx.2
  exact hp.length_eq

end BGV
