import BGV.Model.Graph
/-!
# BGV.Spec.AGraph — what a user means by a graph

A directed graph is a number of vertices and a partial function from ordered pairs to labels;
a call history denotes a graph by folding the obvious set operations.  Nothing here mentions
lists, counters or cursors.
-/
namespace BGV

/-- abstract (labelled) directed graph -/
structure AG (L : Type) where
  n : Nat
  lab : Nat → Nat → Option L

theorem AG.ext' {L : Type} {a b : AG L} (hn : a.n = b.n) (hl : ∀ x y, a.lab x y = b.lab x y) : a = b := by
  cases a; cases b
  simp only at hn
  subst hn
  congr
  funext x y
  exact hl x y

def AG.empty {L : Type} (n : Nat) : AG L := ⟨n, fun _ _ => none⟩
def AG.hasEdge {L : Type} (a : AG L) (i j : Nat) : Bool := (a.lab i j).isSome

/-- public mutators of `LabeledDirectedGraph` / `LabeledUndirectedGraph` with `force = false` -/
inductive SOp (L : Type) where
  | addEdge (i j : Nat) (l : L)
  | addReciprocalEdge (i j : Nat) (l : L)
  | removeEdge (i j : Nat)
  | removeSelfLoops
  | removeVertexFromEdgeList (v : Nat)
  | clearEdges
  | resize (m : Nat)
  | setEdgeLabel (i j : Nat) (l : L)

/-- the call is *valid* for a graph with `n` vertices: indices in range, `resize` does not shrink -/
def SOp.valid {L : Type} (n : Nat) : SOp L → Prop
  | .addEdge i j _ => i < n ∧ j < n
  | .addReciprocalEdge i j _ => i < n ∧ j < n
  | .removeEdge i j => i < n ∧ j < n
  | .removeSelfLoops => True
  | .removeVertexFromEdgeList v => v < n
  | .clearEdges => True
  | .resize m => n ≤ m
  | .setEdgeLabel i j _ => i < n ∧ j < n

/-- number of vertices after a valid call -/
def SOp.newSize {L : Type} (n : Nat) : SOp L → Nat
  | .resize m => m
  | _ => n

namespace AG
variable {L : Type} [Inhabited L]

/-- add the ordered pair (i,j) with label `l` unless it is already an edge -/
def add (a : AG L) (i j : Nat) (l : L) : AG L :=
  ⟨a.n, fun x y => if x = i ∧ y = j ∧ (a.lab i j).isSome = false then some l else a.lab x y⟩

def remove (a : AG L) (i j : Nat) : AG L :=
  ⟨a.n, fun x y => if x = i ∧ y = j then none else a.lab x y⟩

/-- What the directed call denotes.  `labelled = false` is the `NoLabel` instantiation, whose
only label value is the default one. -/
def dStep (labelled : Bool) (a : AG L) : SOp L → AG L
  | .addEdge i j l => a.add i j (if labelled then l else default)
  | .addReciprocalEdge i j l =>
      (a.add i j (if labelled then l else default)).add j i (if labelled then l else default)
  | .removeEdge i j => a.remove i j
  | .removeSelfLoops => ⟨a.n, fun x y => if x = y then none else a.lab x y⟩
  | .removeVertexFromEdgeList v => ⟨a.n, fun x y => if x = v ∨ y = v then none else a.lab x y⟩
  | .clearEdges => ⟨a.n, fun _ _ => none⟩
  | .resize m => ⟨m, a.lab⟩
  | .setEdgeLabel i j l =>
      ⟨a.n, fun x y => if x = i ∧ y = j ∧ (a.lab i j).isSome = true then some (if labelled then l else default) else a.lab x y⟩

/-- the graph a history denotes, starting from `a` -/
def dDenote (labelled : Bool) (a : AG L) (ops : List (SOp L)) : AG L := ops.foldl (dStep labelled) a

/-- every call of the history is valid at the moment it is made -/
def ValidFrom : Nat → List (SOp L) → Prop
  | _, [] => True
  | n, op :: ops => op.valid n ∧ ValidFrom (op.newSize n) ops

end AG
end BGV
