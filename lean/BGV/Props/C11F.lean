import BGV.Props.C11
/-!
# Property C11 — the `…FromVertex` wrappers: one `findGeodesics` / `findAllGeodesics` per destination
-/
set_option linter.unusedSectionVars false
namespace BGV
open G Bfs

theorem seqRes_ok {α : Type} (l : List (Res α)) (vals : List α) (h : l = vals.map Res.ok) : seqRes l = .ok vals := by
  subst h
  induction vals with
  | nil => rfl
  | cons a vals ih => simp [seqRes, Res.bind, ih, Res.map]

theorem seqRes_of_forall {α β : Type} (l : List β) (f : β → Res α) (g : β → α) (h : ∀ x ∈ l, f x = .ok (g x)) :
    seqRes (l.map f) = .ok (l.map g) := by
  apply seqRes_ok
  rw [List.map_map]
  apply List.map_congr_left
  intro x hx
  exact h x hx

/-- **C11, findGeodesicsFromVertex**: one entry per vertex, and entry `t` is what
`findGeodesics(source, t)` returns (so: `[s]` for the source, empty when unreachable, a shortest
path otherwise) -/
theorem C11_findGeodesicsFromVertex {L : Type} (g : G L) (s : Nat) (hs : s < g.size)
    (hwf : adjWF g.adj = true) (hlen : g.adj.length = g.size) (hn : g.size ≤ MAX) :
    ∃ ps, findGeodesicsFromVertex g s = .ok ps ∧ ps.length = g.size ∧
      ∀ t, t < g.size → findGeodesics g s t = .ok (ps.getD t []) := by
  have hfvp : findVertexPredecessors g s = .ok (bfsRun g.adj s) := by simp [findVertexPredecessors, hs, hwf]
  -- every destination gives a path
  have hall : ∀ t, t < g.size → ∃ p, findGeodesics g s t = .ok p := by
    intro t ht
    obtain ⟨c1, c2, c3⟩ := C11_findGeodesics g s t hs ht hwf hlen hn
    by_cases hst : s = t
    · exact ⟨_, c1 hst⟩
    · by_cases hre : Reachable g.adj s t
      · obtain ⟨p, hp, _⟩ := c3 hst hre; exact ⟨p, hp⟩
      · exact ⟨_, c2 hst hre⟩
  -- the wrapper's per-destination expression is `findGeodesics`
  have hdist0 : (bfsRun g.adj s).dist.getD s MAX = 0 := by
    obtain ⟨h1, _⟩ := C11_findVertexPredecessors g.adj s ((adjWF_iff g.adj).1 hwf) (by rw [hlen]; exact hs)
    have hr : Reachable g.adj s s := ⟨0, Walk.nil⟩
    have := (h1 s hr).2.1 0 Walk.nil
    omega
  have hexpr : ∀ t, t < g.size →
      (if (bfsRun g.adj s).dist.getD t MAX ≠ MAX then findPathFromPredecessors (bfsRun g.adj s).pred s t else .ok [])
        = findGeodesics g s t := by
    intro t ht
    have hr : (decide (s < g.size) && decide (t < g.size)) = true := by simp [hs, ht]
    by_cases hst : s = t
    · subst hst
      have hne : (bfsRun g.adj s).dist.getD s MAX ≠ MAX := by rw [hdist0]; decide
      rw [if_pos hne]
      simp [findGeodesics, hs, findPathFromPredecessors]
    · simp only [findGeodesics, hr, Bool.not_true, Bool.false_eq_true, if_false, hst, hfvp, Res.bind]
  let val : Nat → List Nat := fun t => match findGeodesics g s t with | .ok p => p | _ => []
  have hval : ∀ t, t < g.size → findGeodesics g s t = .ok (val t) := by
    intro t ht
    obtain ⟨p, hp⟩ := hall t ht
    simp only [val, hp]
  refine ⟨(List.range g.size).map val, ?_, by simp, ?_⟩
  · simp only [findGeodesicsFromVertex, hfvp, Res.bind]
    apply seqRes_of_forall
    intro t ht
    have ht' : t < g.size := List.mem_range.1 ht
    rw [hexpr t ht', hval t ht']
  · intro t ht
    rw [hval t ht]
    congr 1
    simp [List.getD_eq_getElem?_getD, ht]

end BGV

namespace BGV
open G Bfs

/-- **C11, findAllGeodesicsFromVertex**: one entry per vertex; entry `t` is what
`findAllGeodesics(source, t)` returns (which returns normally for every `t`: `C11_findAllGeodesics`) -/
theorem C11_findAllGeodesicsFromVertex {L : Type} (g : G L) (s : Nat) (hs : s < g.size)
    (hwf : adjWF g.adj = true) (hlen : g.adj.length = g.size) (hn : g.size < MAX) :
    ∃ pss, findAllGeodesicsFromVertex g s = .ok pss ∧ pss.length = g.size ∧
      ∀ t, t < g.size → findAllGeodesics g s t = .ok (pss.getD t []) := by
  have hall : ∀ t, t < g.size → ∃ ps, findAllGeodesics g s t = .ok ps := by
    intro t ht
    obtain ⟨c1, c2, c3⟩ := C11_findAllGeodesics g s t hs ht hwf hlen hn
    by_cases hst : s = t
    · exact ⟨_, c1 hst⟩
    · by_cases hr : Reachable g.adj s t
      · obtain ⟨Ls, hL, _⟩ := c3 hst hr
        exact ⟨Ls, hL⟩
      · exact ⟨_, c2 hst hr⟩
  have hfap : findAllVertexPredecessors g s = .ok (allPredRun g.adj s) := by
    simp [findAllVertexPredecessors, hs, hwf]
  have hWF : WF g.adj := (adjWF_iff g.adj).1 hwf
  have hs' : s < g.adj.length := by rw [hlen]; exact hs
  have hn' : g.adj.length < MAX := by rw [hlen]; exact hn
  obtain ⟨hinv, _⟩ := AllPred.final_inv g.adj s hWF hs' hn'
  have hdist0 : (allPredRun g.adj s).dist.getD s MAX = 0 := hinv.src.1
  have hpss : (allPredRun g.adj s).preds.getD s [] = [] := hinv.src.2.2.1
  have hexpr : ∀ t, t < g.size →
      (if (allPredRun g.adj s).dist.getD t MAX ≠ MAX then findMultiplePathsFromPredecessors (allPredRun g.adj s).preds s t else .ok [])
        = findAllGeodesics g s t := by
    intro t ht
    have hr : (decide (s < g.size) && decide (t < g.size)) = true := by simp [hs, ht]
    by_cases hst : s = t
    · subst hst
      have hne : (allPredRun g.adj s).dist.getD s MAX ≠ MAX := by rw [hdist0]; decide
      rw [if_pos hne]
      simp [findAllGeodesics, hs, findMultiplePathsFromPredecessors]
    · simp only [findAllGeodesics, hr, Bool.not_true, Bool.false_eq_true, if_false, hst, hfap, Res.bind]
  let val : Nat → List (List Nat) := fun t => match findAllGeodesics g s t with | .ok p => p | _ => []
  have hval : ∀ t, t < g.size → findAllGeodesics g s t = .ok (val t) := by
    intro t ht
    obtain ⟨p, hp⟩ := hall t ht
    simp only [val, hp]
  refine ⟨(List.range g.size).map val, ?_, by simp, ?_⟩
  · simp only [findAllGeodesicsFromVertex, hfap, Res.bind]
    apply seqRes_of_forall
    intro t ht
    have ht' : t < g.size := List.mem_range.1 ht
    rw [hexpr t ht', hval t ht']
  · intro t ht
    rw [hval t ht]
    congr 1
    simp [List.getD_eq_getElem?_getD, ht]

end BGV
