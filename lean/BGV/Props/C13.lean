import BGV.Model.FileIO
/-!
# Property C13 — text edge lists (tokeniser, comments, decimal indices)

* `C13_tokenise`: for every line of the documented shape — any run of spaces/tabs (any of the six
  whitespace bytes) before, between and after the two vertex tokens — `findEdgeFromString` returns
  the two tokens and hands *the rest of the line* (from the first non-blank after the second token
  to the end, inner blanks included) to the label parser.
* `C13_comment_skipped`: a line beginning with `#` changes nothing.
* `C13_stoi_showNat`: the decimal text the writer produces for a vertex index parses back to it.
* `C13_written_line`: hence a line produced by `writeTextEdgeList` is read back as the same two
  indices and the label text.

Not yet proved in Lean (byte-exact correspondence only): the whole-file round trip and the
`VertexCountMapper` numbering.
-/
namespace BGV
open FIO

def AllWs (l : Bytes) : Prop := ∀ c ∈ l, isWs c = true
def NoWs (l : Bytes) : Prop := ∀ c ∈ l, isWs c = false

theorem findIdx?_skip {α} (p : α → Bool) (w r : List α) (hw : ∀ c ∈ w, p c = false) :
    (w ++ r).findIdx? p = (r.findIdx? p).map (· + w.length) := by
  rw [List.findIdx?_append]
  have : w.findIdx? p = none := by
    rw [List.findIdx?_eq_none_iff]; exact hw
  rw [this]; simp

theorem findIdx?_head {α} (p : α → Bool) (c : α) (r : List α) (hc : p c = true) : (c :: r).findIdx? p = some 0 := by
  simp [List.findIdx?_cons, hc]

theorem findIdx?_none {α} (p : α → Bool) (w : List α) (hw : ∀ c ∈ w, p c = false) : w.findIdx? p = none := by
  rw [List.findIdx?_eq_none_iff]; exact hw

/-- first non-blank from `pos` when the text from `pos` on is `w ++ c :: r`, `w` blank, `c` not -/
theorem findNotWs_at (s pre w : Bytes) (c : UInt8) (r : Bytes) (hs : s = pre ++ (w ++ c :: r))
    (hw : AllWs w) (hc : isWs c = false) : findNotWs s (some pre.length) = some (pre.length + w.length) := by
  subst hs
  simp only [findNotWs]
  have h1 : (pre ++ (w ++ c :: r)).drop pre.length = w ++ c :: r := List.drop_left' rfl
  rw [h1, findIdx?_skip _ w _ (by intro x hx; simp [hw x hx]), findIdx?_head _ c r (by simp [hc])]
  simp; omega

theorem findNotWs_none (s pre w : Bytes) (hs : s = pre ++ w) (hw : AllWs w) : findNotWs s (some pre.length) = none := by
  subst hs
  simp only [findNotWs]
  have h1 : (pre ++ w).drop pre.length = w := List.drop_left' rfl
  rw [h1, findIdx?_none _ w (by intro x hx; simp [hw x hx])]; rfl

theorem findWs_at (s pre a : Bytes) (c : UInt8) (r : Bytes) (hs : s = pre ++ (a ++ c :: r))
    (ha : NoWs a) (hc : isWs c = true) : findWs s (some pre.length) = some (pre.length + a.length) := by
  subst hs
  simp only [findWs]
  have h1 : (pre ++ (a ++ c :: r)).drop pre.length = a ++ c :: r := List.drop_left' rfl
  rw [h1, findIdx?_skip _ a _ ha, findIdx?_head _ c r hc]
  simp; omega

theorem findWs_none (s pre a : Bytes) (hs : s = pre ++ a) (ha : NoWs a) : findWs s (some pre.length) = none := by
  subst hs
  simp only [findWs]
  have h1 : (pre ++ a).drop pre.length = a := List.drop_left' rfl
  rw [h1, findIdx?_none _ a ha]; rfl

theorem substr_mid (s pre a post : Bytes) (hs : s = pre ++ (a ++ post)) :
    substr s (some pre.length) (some (pre.length + a.length)) = .ok a := by
  subst hs
  have hle : ¬ pre.length > (pre ++ (a ++ post)).length := by simp
  simp only [substr, hle, if_false]
  have h1 : (pre ++ (a ++ post)).drop pre.length = a ++ post := List.drop_left' rfl
  rw [h1]
  have : pre.length + a.length - pre.length = a.length := by omega
  rw [this, List.take_left' rfl]

theorem substr_tail (s pre a : Bytes) (hs : s = pre ++ a) : substr s (some pre.length) none = .ok a := by
  subst hs
  have hle : ¬ pre.length > (pre ++ a).length := by simp
  simp only [substr, hle, if_false]
  rw [List.drop_left' rfl]

/-- **C13 (tokeniser).** `line = w1 ++ a ++ w2 ++ b ++ tail`, `a`, `b` non-empty without blanks,
`w1` blank, `w2` non-empty blank; `tail` is empty, or a non-empty blank run `w3` followed by `rest`
where `rest` is empty or starts with a non-blank.  Then the tokens are `(a, b, rest)`. -/
theorem C13_tokenise (w1 a w2 b w3 rest : Bytes)
    (hw1 : AllWs w1) (ha : NoWs a) (ha0 : a ≠ []) (hw2 : AllWs w2) (hw20 : w2 ≠ [])
    (hb : NoWs b) (hb0 : b ≠ []) (hw3 : AllWs w3)
    (htail : (w3 = [] ∧ rest = []) ∨ (w3 ≠ [] ∧ (rest = [] ∨ ∃ c r, rest = c :: r ∧ isWs c = false))) :
    findEdgeFromString (w1 ++ a ++ w2 ++ b ++ w3 ++ rest) = .ok (a, b, rest) := by
  obtain ⟨a0, a', rfl⟩ := List.exists_cons_of_ne_nil ha0
  obtain ⟨x0, w2', rfl⟩ := List.exists_cons_of_ne_nil hw20
  obtain ⟨b0, b', rfl⟩ := List.exists_cons_of_ne_nil hb0
  have ha0' : isWs a0 = false := ha a0 (by simp)
  have hx0 : isWs x0 = true := hw2 x0 (by simp)
  have hb0' : isWs b0 = false := hb b0 (by simp)
  obtain ⟨line, hline⟩ : ∃ line, line = w1 ++ (a0 :: a') ++ (x0 :: w2') ++ (b0 :: b') ++ w3 ++ rest := ⟨_, rfl⟩
  rw [← hline]
  have hp1 : findNotWs line (some 0) = some w1.length := by
    have := findNotWs_at line [] w1 a0 (a' ++ (x0 :: w2') ++ (b0 :: b') ++ w3 ++ rest) (by simp [hline]) hw1 ha0'
    simpa using this
  have hp2 : findWs line (some w1.length) = some (w1.length + (a0 :: a').length) :=
    findWs_at line w1 (a0 :: a') x0 (w2' ++ (b0 :: b') ++ w3 ++ rest) (by simp [hline]) ha hx0
  have hp3 : findNotWs line (some (w1.length + (a0 :: a').length)) = some (w1.length + (a0 :: a').length + (x0 :: w2').length) := by
    have := findNotWs_at line (w1 ++ (a0 :: a')) (x0 :: w2') b0 (b' ++ w3 ++ rest) (by simp [hline]) hw2 hb0'
    simp only [List.length_append, List.length_cons] at this ⊢
    rw [this]
  have hsub1 : substr line (some w1.length) (some (w1.length + (a0 :: a').length)) = .ok (a0 :: a') :=
    substr_mid line w1 (a0 :: a') ((x0 :: w2') ++ (b0 :: b') ++ w3 ++ rest) (by simp [hline])
  simp only [findEdgeFromString]
  rw [hp1, hp2, hp3, hsub1]
  simp only [Res.bind]
  -- position of the second token
  have hpre3 : (w1 ++ (a0 :: a') ++ (x0 :: w2')).length = w1.length + (a0 :: a').length + (x0 :: w2').length := by
    simp only [List.length_append, List.length_cons]
  rcases htail with ⟨rfl, rfl⟩ | ⟨hw30, hrest⟩
  · have hp4 : findWs line (some (w1.length + (a0 :: a').length + (x0 :: w2').length)) = none := by
      rw [← hpre3]
      exact findWs_none line _ (b0 :: b') (by simp [hline]) hb
    have hsub2 : substr line (some (w1.length + (a0 :: a').length + (x0 :: w2').length)) none = .ok (b0 :: b') := by
      rw [← hpre3]; exact substr_tail line _ (b0 :: b') (by simp [hline])
    rw [hp4, hsub2]
    simp [findNotWs]
  · obtain ⟨y0, w3', rfl⟩ := List.exists_cons_of_ne_nil hw30
    have hy0 : isWs y0 = true := hw3 y0 (by simp)
    have hp4 : findWs line (some (w1.length + (a0 :: a').length + (x0 :: w2').length)) =
        some (w1.length + (a0 :: a').length + (x0 :: w2').length + (b0 :: b').length) := by
      rw [← hpre3]
      exact findWs_at line _ (b0 :: b') y0 (w3' ++ rest) (by simp [hline]) hb hy0
    have hsub2 : substr line (some (w1.length + (a0 :: a').length + (x0 :: w2').length))
        (some (w1.length + (a0 :: a').length + (x0 :: w2').length + (b0 :: b').length)) = .ok (b0 :: b') := by
      rw [← hpre3]
      exact substr_mid line _ (b0 :: b') ((y0 :: w3') ++ rest) (by simp [hline])
    rw [hp4, hsub2]
    simp only
    have hpre4 : (w1 ++ (a0 :: a') ++ (x0 :: w2') ++ (b0 :: b')).length =
        w1.length + (a0 :: a').length + (x0 :: w2').length + (b0 :: b').length := by
      simp only [List.length_append, List.length_cons]
    rcases hrest with rfl | ⟨c, r, rfl, hc⟩
    · have hp5 : findNotWs line (some (w1.length + (a0 :: a').length + (x0 :: w2').length + (b0 :: b').length)) = none := by
        rw [← hpre4]
        exact findNotWs_none line _ (y0 :: w3') (by simp [hline]) hw3
      rw [hp5]
    · have hp5 : findNotWs line (some (w1.length + (a0 :: a').length + (x0 :: w2').length + (b0 :: b').length)) =
          some (w1.length + (a0 :: a').length + (x0 :: w2').length + (b0 :: b').length + (y0 :: w3').length) := by
        rw [← hpre4]
        exact findNotWs_at line _ (y0 :: w3') c r (by simp [hline]) hw3 hc
      rw [hp5]
      simp only
      have hpre5 : (w1 ++ (a0 :: a') ++ (x0 :: w2') ++ (b0 :: b') ++ (y0 :: w3')).length =
          w1.length + (a0 :: a').length + (x0 :: w2').length + (b0 :: b').length + (y0 :: w3').length := by
        simp only [List.length_append, List.length_cons]
      rw [← hpre5, substr_tail line _ (c :: r) (by simp [hline])]
      rfl

/-- a line beginning with `#` is skipped -/
theorem C13_comment_skipped {L : Type} [Inhabited L] (und named : Bool) (ofStr : Bytes → Res L)
    (st : LoadSt L) (rest : Bytes) : loadLine und named ofStr st (35 :: rest) = .ok st := by
  simp [loadLine]

/-! ### decimal indices: what the writer prints, the loader parses back -/

theorem digit_props : ∀ k : Fin 10,
    isDigit (UInt8.ofNat (48 + k.val)) = true ∧ isWs (UInt8.ofNat (48 + k.val)) = false ∧
    (UInt8.ofNat (48 + k.val) == 45) = false ∧ (UInt8.ofNat (48 + k.val) == 43) = false ∧
    (UInt8.ofNat (48 + k.val)).toNat - 48 = k.val := by decide

theorem digitsAux_eq (n : Nat) : ∀ f acc, n < f → digitsAux f n acc = showNat n ++ acc := by
  induction n using Nat.strongRecOn with
  | _ n ih =>
    intro f acc hf
    cases f with
    | zero => omega
    | succ f' =>
      by_cases hn : n < 10
      · simp only [digitsAux, hn, if_true, showNat]
        simp
      · have h1 : n / 10 < n := by omega
        have hs : showNat n = showNat (n / 10) ++ [UInt8.ofNat (48 + n % 10)] := by
          have : showNat n = digitsAux n (n / 10) [UInt8.ofNat (48 + n % 10)] := by
            simp only [showNat, digitsAux, hn, if_false]
          rw [this, ih (n / 10) h1 n _ h1]
        simp only [digitsAux, hn, if_false]
        rw [ih (n / 10) h1 f' _ (by omega), hs]
        simp

theorem showNat_rec (n : Nat) :
    showNat n = if n < 10 then [UInt8.ofNat (48 + n)] else showNat (n / 10) ++ [UInt8.ofNat (48 + n % 10)] := by
  by_cases hn : n < 10
  · simp only [hn, if_true, showNat, digitsAux]
  · have h1 : n / 10 < n := by omega
    simp only [hn, if_false]
    have : showNat n = digitsAux n (n / 10) [UInt8.ofNat (48 + n % 10)] := by
      simp only [showNat, digitsAux, hn, if_false]
    rw [this, digitsAux_eq (n / 10) n _ h1]

theorem showNat_digits (n : Nat) : showNat n ≠ [] ∧ ∀ c ∈ showNat n, isDigit c = true := by
  induction n using Nat.strongRecOn with
  | _ n ih =>
    rw [showNat_rec]
    by_cases hn : n < 10
    · simp only [hn, if_true]
      refine ⟨by simp, ?_⟩
      intro c hc
      have hc' : c = UInt8.ofNat (48 + n) := List.mem_singleton.1 hc
      rw [hc']
      exact (digit_props ⟨n, hn⟩).1
    · simp only [hn, if_false]
      have h1 : n / 10 < n := by omega
      refine ⟨by simp, ?_⟩
      intro c hc
      rcases List.mem_append.1 hc with hc | hc
      · exact (ih (n / 10) h1).2 c hc
      · have hc' : c = UInt8.ofNat (48 + n % 10) := List.mem_singleton.1 hc
        rw [hc']
        exact (digit_props ⟨n % 10, by omega⟩).1

def decVal (ds : Bytes) : Nat := ds.foldl (fun a c => a * 10 + (c.toNat - 48)) 0

theorem decVal_append_singleton (ds : Bytes) (d : UInt8) : decVal (ds ++ [d]) = decVal ds * 10 + (d.toNat - 48) := by
  simp [decVal, List.foldl_append]

theorem decVal_showNat (n : Nat) : decVal (showNat n) = n := by
  induction n using Nat.strongRecOn with
  | _ n ih =>
    rw [showNat_rec]
    by_cases hn : n < 10
    · simp only [hn, if_true, decVal, List.foldl_cons, List.foldl_nil]
      have := (digit_props ⟨n, hn⟩).2.2.2.2
      simp only at this
      omega
    · simp only [hn, if_false]
      rw [decVal_append_singleton, ih (n / 10) (by omega)]
      have := (digit_props ⟨n % 10, by omega⟩).2.2.2.2
      simp only at this
      omega

theorem takeWhile_append_stop {α} (p : α → Bool) (l r : List α) (hl : ∀ c ∈ l, p c = true)
    (hr : r = [] ∨ ∃ c t, r = c :: t ∧ p c = false) : (l ++ r).takeWhile p = l := by
  induction l with
  | nil =>
    rcases hr with rfl | ⟨c, t, rfl, hc⟩
    · rfl
    · simp [List.takeWhile_cons, hc]
  | cons a as ih =>
    simp only [List.cons_append, List.takeWhile_cons, hl a (by simp), if_true]
    rw [ih (fun c hc => hl c (by simp [hc]))]

/-- **the decimal text of an index parses back to the index** (followed by nothing or by a
non-digit, e.g. the blank after the token) -/
theorem C13_stoi_showNat (n : Nat) (hn : n ≤ 2147483647) (rest : Bytes)
    (hr : rest = [] ∨ ∃ c t, rest = c :: t ∧ isDigit c = false) :
    stoi (showNat n ++ rest) = .ok (n : Int) ∧ vertexOfIndex (showNat n ++ rest) = .ok n := by
  obtain ⟨hne, hdig⟩ := showNat_digits n
  obtain ⟨c, t, hct⟩ := List.exists_cons_of_ne_nil hne
  have hcd : isDigit c = true := hdig c (by rw [hct]; simp)
  -- a digit is neither blank nor a sign
  have hdprops : isWs c = false ∧ (c == 45) = false ∧ (c == 43) = false := by
    simp only [isDigit, Bool.and_eq_true, decide_eq_true_eq] at hcd
    obtain ⟨h1, h2⟩ := hcd
    have h1' : 48 ≤ c.toNat := by exact h1
    have h2' : c.toNat ≤ 57 := by exact h2
    refine ⟨?_, ?_, ?_⟩
    · simp only [isWs, Bool.or_eq_false_iff, beq_eq_false_iff_ne, ne_eq]
      refine ⟨⟨⟨⟨⟨?_, ?_⟩, ?_⟩, ?_⟩, ?_⟩, ?_⟩ <;> (intro e; rw [e] at h1'; simp at h1')
    · simp only [beq_eq_false_iff_ne, ne_eq]; intro e; rw [e] at h1'; simp at h1'
    · simp only [beq_eq_false_iff_ne, ne_eq]; intro e; rw [e] at h1'; simp at h1'
  have hstoi : stoi (showNat n ++ rest) = .ok (n : Int) := by
    have hdrop : (showNat n ++ rest).dropWhile isWs = c :: (t ++ rest) := by
      rw [hct]; simp [List.dropWhile_cons, hdprops.1]
    simp only [stoi, hdrop, hdprops.2.1, hdprops.2.2, Bool.false_eq_true, if_false]
    have htw : (c :: (t ++ rest)).takeWhile isDigit = showNat n := by
      have : c :: (t ++ rest) = showNat n ++ rest := by rw [hct]; rfl
      rw [this]; exact takeWhile_append_stop isDigit _ _ hdig hr
    rw [htw]
    simp only [stoiDigits]
    have hnemp : (showNat n).isEmpty = false := by
      cases hh : showNat n with
      | nil => exact absurd hh hne
      | cons _ _ => rfl
    rw [hnemp]
    simp only [Bool.false_eq_true, if_false]
    have hv : (showNat n).foldl (fun a c => a * 10 + (c.toNat - 48)) 0 = n := decVal_showNat n
    rw [hv]
    have : ¬ ((n : Int) < -2147483648 ∨ (n : Int) > 2147483647) := by omega
    simp [this]
  refine ⟨hstoi, ?_⟩
  simp only [vertexOfIndex, hstoi, Res.bind]
  have : ¬ ((n : Int) < 0) := by omega
  simp [this]

/-- a line as `writeTextEdgeList` prints it — `i j label` or `i j` — is read back as the indices
`i`, `j` and the label text, provided the label text is empty or starts with a non-blank -/
theorem C13_written_line (i j : Nat) (lab : Bytes) (hi : i ≤ 2147483647) (hj : j ≤ 2147483647)
    (hlab : lab = [] ∨ ∃ c r, lab = c :: r ∧ isWs c = false) :
    findEdgeFromString (showNat i ++ [sp] ++ showNat j ++ (if lab = [] then [] else [sp] ++ lab)) =
      .ok (showNat i, showNat j, lab) ∧
    vertexOfIndex (showNat i) = .ok i ∧ vertexOfIndex (showNat j) = .ok j := by
  have hnows : ∀ n, NoWs (showNat n) := by
    intro n c hc
    have hd := (showNat_digits n).2 c hc
    simp only [isDigit, Bool.and_eq_true, decide_eq_true_eq] at hd
    have h1' : 48 ≤ c.toNat := hd.1
    simp only [isWs, Bool.or_eq_false_iff, beq_eq_false_iff_ne, ne_eq]
    refine ⟨⟨⟨⟨⟨?_, ?_⟩, ?_⟩, ?_⟩, ?_⟩, ?_⟩ <;> (intro e; rw [e] at h1'; simp at h1')
  have hsp : AllWs [sp] := by intro c hc; simp at hc; subst hc; decide
  refine ⟨?_, ?_, ?_⟩
  · by_cases hl : lab = []
    · subst hl
      have := C13_tokenise [] (showNat i) [sp] (showNat j) [] [] (by intro c hc; simp at hc) (hnows i)
        (showNat_digits i).1 hsp (by simp) (hnows j) (showNat_digits j).1 (by intro c hc; simp at hc) (Or.inl ⟨rfl, rfl⟩)
      simpa using this
    · simp only [hl, if_false]
      have hlab' : lab = [] ∨ ∃ c r, lab = c :: r ∧ isWs c = false := hlab
      have := C13_tokenise [] (showNat i) [sp] (showNat j) [sp] lab (by intro c hc; simp at hc) (hnows i)
        (showNat_digits i).1 hsp (by simp) (hnows j) (showNat_digits j).1 hsp (Or.inr ⟨by simp, hlab'⟩)
      simpa [List.append_assoc] using this
  · have := (C13_stoi_showNat i hi [] (Or.inl rfl)).2; simpa using this
  · have := (C13_stoi_showNat j hj [] (Or.inl rfl)).2; simpa using this

-- " 12\t7  ab c " ↦ ("12", "7", "ab c ")
example : findEdgeFromString [32, 49, 50, 9, 55, 32, 32, 97, 98, 32, 99, 32] = .ok ([49, 50], [55], [97, 98, 32, 99, 32]) := by decide

end BGV
