import BGV.Proofs.Multi3
import BGV.Props.C01
/-!
# C04 — multigraph multiplicities, edge count and total edge count always agree
(`DirectedMultigraph`, force off)

The abstract object is a multiplicity matrix `AM = (n, mu : Nat → Nat → Nat)`.
`AM.step` says what each call of the property's list denotes (adding `k` raises the entry by
`k`, removing `k` lowers it by `min k current`, `setEdgeMultiplicity k` makes it `k`, the bulk
removals zero the affected entries; a call with an index out of range throws and changes
nothing).  The theorems say that after **every** history the implementation's
`getEdgeMultiplicity` is that matrix, that an entry is zero exactly when `hasEdge` is false,
that `getEdgeNumber` counts the non-zero entries and `getTotalEdgeNumber` is the sum of all
entries, and that `getOutDegree` is the row sum.
-/
set_option linter.unusedSectionVars false
namespace BGV

/-- the calls of the property, on a multigraph -/
inductive MOp where
  | addEdge (i j : Nat)
  | addMultiedge (i j k : Nat)
  | removeEdge (i j : Nat)
  | removeMultiedge (i j k : Nat)
  | setEdgeMultiplicity (i j k : Nat)
  | removeSelfLoops
  | removeVertexFromEdgeList (v : Nat)
  | clearEdges
  | resize (n : Nat)

/-- abstract multigraph: vertex count and multiplicity of every ordered pair -/
structure AM where
  n : Nat
  mu : Nat → Nat → Nat

namespace AM
def upd (a : AM) (i j : Nat) (f : Nat → Nat) : AM :=
  if i < a.n ∧ j < a.n then ⟨a.n, fun x y => if x = i ∧ y = j then f (a.mu i j) else a.mu x y⟩ else a

/-- what a call denotes -/
def step (a : AM) : MOp → AM
  | .addEdge i j => a.upd i j (· + 1)
  | .addMultiedge i j k => a.upd i j (· + k)
  | .removeEdge i j => a.upd i j (fun c => c - min 1 c)
  | .removeMultiedge i j k => a.upd i j (fun c => c - min k c)
  | .setEdgeMultiplicity i j k => a.upd i j (fun _ => k)
  | .removeSelfLoops => ⟨a.n, fun x y => if x = y then 0 else a.mu x y⟩
  | .removeVertexFromEdgeList v => if v < a.n then ⟨a.n, fun x y => if x = v ∨ y = v then 0 else a.mu x y⟩ else a
  | .clearEdges => ⟨a.n, fun _ _ => 0⟩
  | .resize m => if m < a.n then a else ⟨m, a.mu⟩

def denote (a : AM) (ops : List MOp) : AM := ops.foldl step a

/-- number of non-zero entries of row `i` -/
def rowCount (a : AM) (i : Nat) : Nat := ((List.range a.n).filter (fun j => a.mu i j != 0)).length
/-- sum of row `i` -/
def rowSum (a : AM) (i : Nat) : Nat := ((List.range a.n).map (fun j => a.mu i j)).sum

theorem ext' {a b : AM} (hn : a.n = b.n) (hm : ∀ x y, a.mu x y = b.mu x y) : a = b := by
  cases a; cases b
  simp only at hn hm
  subst hn
  congr
  funext x y; exact hm x y
end AM

namespace MG
open G

/-- the implementation's transition (model of `DirectedMultigraph`, force off) -/
def dStep (m : MG) : MOp → MG
  | .addEdge i j => (m.dAddMultiedge i j 1 false).1
  | .addMultiedge i j k => (m.dAddMultiedge i j k false).1
  | .removeEdge i j => (m.dRemoveMultiedge i j 1).1
  | .removeMultiedge i j k => (m.dRemoveMultiedge i j k).1
  | .setEdgeMultiplicity i j k => (m.dSetEdgeMultiplicity i j k).1
  | .removeSelfLoops => m.dRemoveSelfLoops
  | .removeVertexFromEdgeList v => (m.dRemoveVertex v).1
  | .clearEdges => m.clearEdges
  | .resize n => (m.resize n).1

def dRun (m : MG) (ops : List MOp) : MG := ops.foldl dStep m

/-- abstraction: the multiplicity store read the way `getEdgeMultiplicity` reads it -/
def absM (m : MG) : AM := ⟨m.g.size, m.mult⟩

theorem minv_dStep (m : MG) (h : MInv m) (op : MOp) : MInv (m.dStep op) := by
  cases op with
  | addEdge i j => exact minv_dAddMultiedge m h i j 1
  | addMultiedge i j k => exact minv_dAddMultiedge m h i j k
  | removeEdge i j => exact minv_dRemoveMultiedge m h i j 1
  | removeMultiedge i j k => exact minv_dRemoveMultiedge m h i j k
  | setEdgeMultiplicity i j k => exact minv_dSetEdgeMultiplicity m h i j k
  | removeSelfLoops => exact minv_dRemoveSelfLoops m h
  | removeVertexFromEdgeList v => exact minv_dRemoveVertex m h v
  | clearEdges => exact minv_clearEdges m h
  | resize n => exact minv_resize m h n


theorem inR_false_of (g : G Nat) (i j : Nat) (h : ¬ (i < g.size ∧ j < g.size)) : (g.inR i && g.inR j) = false := by
  simp only [inR, Bool.and_eq_false_iff, decide_eq_false_iff_not]
  by_cases hi : i < g.size
  · right; exact fun hj => h ⟨hi, hj⟩
  · left; exact hi

theorem dAddMultiedge_size (m : MG) (i j k : Nat) (f : Bool) : (m.dAddMultiedge i j k f).1.g.size = m.g.size := by
  unfold dAddMultiedge
  split
  · rfl
  · split
    · rfl
    · split
      · exact dAddEdge_size _ _ _ _ _
      · rfl

theorem dRemoveMultiedge_size (m : MG) (i j k : Nat) : (m.dRemoveMultiedge i j k).1.g.size = m.g.size := by
  unfold dRemoveMultiedge
  split
  · rfl
  · split
    · rfl
    · simp only; split <;> rfl

theorem dSetEdgeMultiplicity_size (m : MG) (i j k : Nat) : (m.dSetEdgeMultiplicity i j k).1.g.size = m.g.size := by
  unfold dSetEdgeMultiplicity
  split
  · rfl
  · split
    · rfl
    · split
      · rfl
      · exact dAddMultiedge_size m i j k true

theorem absM_upd_of (m m' : MG) (i j : Nat) (f : Nat → Nat) (hs : m'.g.size = m.g.size)
    (hin : i < m.g.size → j < m.g.size → ∀ a b, m'.mult a b = if a = i ∧ b = j then f (m.mult i j) else m.mult a b)
    (hout : ¬ (i < m.g.size ∧ j < m.g.size) → m' = m) :
    absM m' = (absM m).upd i j f := by
  by_cases hr : i < m.g.size ∧ j < m.g.size
  · simp only [AM.upd, absM, hr, and_self, if_true]
    apply AM.ext' hs
    intro x y; exact hin hr.1 hr.2 x y
  · rw [hout hr]; simp [AM.upd, absM, hr]

/-- one call of the implementation is the abstract call -/
theorem absM_dStep (m : MG) (h : MInv m) (op : MOp) : absM (m.dStep op) = (absM m).step op := by
  cases op with
  | addEdge i j =>
    show absM (m.dAddMultiedge i j 1 false).1 = (absM m).upd i j (· + 1)
    refine absM_upd_of m _ i j _ (dAddMultiedge_size m i j 1 false) (fun hi hj a b => ?_) (fun hr => ?_)
    · rw [mult_dAddMultiedge m h i j 1 hi hj]; split <;> simp_all
    · simp [dStep, dAddMultiedge, inR_false_of _ _ _ hr]
  | addMultiedge i j k =>
    show absM (m.dAddMultiedge i j k false).1 = (absM m).upd i j (· + k)
    refine absM_upd_of m _ i j _ (dAddMultiedge_size m i j k false) (fun hi hj a b => ?_) (fun hr => ?_)
    · rw [mult_dAddMultiedge m h i j k hi hj]; split <;> simp_all
    · simp [dStep, dAddMultiedge, inR_false_of _ _ _ hr]
  | removeEdge i j =>
    show absM (m.dRemoveMultiedge i j 1).1 = (absM m).upd i j (fun c => c - min 1 c)
    refine absM_upd_of m _ i j _ (dRemoveMultiedge_size m i j 1) (fun hi hj a b => ?_) (fun hr => ?_)
    · exact mult_dRemoveMultiedge m h i j 1 hi hj a b
    · simp [dStep, dRemoveMultiedge, inR_false_of _ _ _ hr]
  | removeMultiedge i j k =>
    show absM (m.dRemoveMultiedge i j k).1 = (absM m).upd i j (fun c => c - min k c)
    refine absM_upd_of m _ i j _ (dRemoveMultiedge_size m i j k) (fun hi hj a b => ?_) (fun hr => ?_)
    · exact mult_dRemoveMultiedge m h i j k hi hj a b
    · simp [dStep, dRemoveMultiedge, inR_false_of _ _ _ hr]
  | setEdgeMultiplicity i j k =>
    show absM (m.dSetEdgeMultiplicity i j k).1 = (absM m).upd i j (fun _ => k)
    refine absM_upd_of m _ i j _ (dSetEdgeMultiplicity_size m i j k) (fun hi hj a b => ?_) (fun hr => ?_)
    · exact mult_dSetEdgeMultiplicity m h i j k hi hj a b
    · simp [dStep, dSetEdgeMultiplicity, inR_false_of _ _ _ hr]
  | removeSelfLoops =>
    apply AM.ext'
    · show m.dRemoveSelfLoops.g.size = m.g.size
      rw [dRemoveSelfLoops_g, G.dRemoveSelfLoops_eq]; exact foldl_removeCore_size _ _ _
    · intro x y; exact mult_dRemoveSelfLoops m h x y
  | removeVertexFromEdgeList v =>
    by_cases hv : v < m.g.size
    · simp only [AM.step, absM, hv, if_true]
      apply AM.ext'
      · exact dRemoveVertex_size m v
      · intro x y; exact mult_dRemoveVertex m h v hv x y
    · simp only [AM.step, absM, hv, if_false, dStep, dRemoveVertex_oor m v hv]
  | clearEdges =>
    apply AM.ext'
    · show m.g.clearEdges.size = m.g.size; rfl
    · intro x y; exact mult_clearEdges m x y
  | resize n =>
    by_cases hn : n < m.g.size
    · simp [AM.step, absM, hn, dStep, MG.resize, G.resize]
    · simp only [AM.step, absM, hn, if_false, dStep, MG.resize, G.resize]
      apply AM.ext' rfl
      intro x y; rfl

theorem minv_dRun (m : MG) (h : MInv m) (ops : List MOp) : MInv (m.dRun ops) := by
  induction ops generalizing m with
  | nil => exact h
  | cons op ops ih => exact ih _ (minv_dStep m h op)

theorem absM_dRun (m : MG) (h : MInv m) (ops : List MOp) : absM (m.dRun ops) = (absM m).denote ops := by
  induction ops generalizing m with
  | nil => rfl
  | cons op ops ih =>
    simp only [dRun, AM.denote, List.foldl_cons]
    have := ih _ (minv_dStep m h op)
    simp only [dRun, AM.denote] at this
    rw [this, absM_dStep m h op]

end MG
open MG G

/-! ## the property -/

/-- **C04 (invariant).** Every history from the constructor keeps the representation
invariant: simple-graph invariant of the base class, every stored multiplicity positive,
`totalEdgeNumber` equal to the sum of the stored multiplicities. -/
theorem C04_dir_inv_reachable (n : Nat) (ops : List MOp) : MInv ((MG.new n).dRun ops) :=
  minv_dRun _ (minv_new n) ops

/-- **C04 (refinement).** After every history, `getEdgeMultiplicity(i,j)` is the number of
parallel edges the history leaves between `i` and `j`: the implementation's multiplicity
matrix is the denotation of the history. -/
theorem C04_dir_refines (n : Nat) (ops : List MOp) :
    absM ((MG.new n).dRun ops) = (AM.mk n (fun _ _ => 0)).denote ops := by
  rw [absM_dRun _ (minv_new n) ops]
  congr 1

/-- `getEdgeMultiplicity` answers from the abstraction and throws out of range -/
theorem C04_dir_getEdgeMultiplicity (m : MG) (i j : Nat) :
    m.dGetEdgeMultiplicity i j =
      if i < m.g.size ∧ j < m.g.size then .ok ((absM m).mu i j) else .threw .oor := by
  by_cases hr : i < m.g.size ∧ j < m.g.size
  · simp [dGetEdgeMultiplicity, inR, hr, absM, mult]
  · simp [dGetEdgeMultiplicity, inR_false_of _ _ _ hr, hr]

/-- **C04.** the multiplicity is zero exactly when `hasEdge` is false -/
theorem C04_dir_zero_iff_no_edge (n : Nat) (ops : List MOp) (i j : Nat) :
    (absM ((MG.new n).dRun ops)).mu i j = 0 ↔ ((MG.new n).dRun ops).g.hasEdgeRaw i j = false :=
  mult_eq_zero_iff _ (C04_dir_inv_reachable n ops) i j


theorem edgeNumber_eq (m : MG) (h : MInv m) :
    m.g.edgeNumber = ((List.range m.g.size).map (fun i => (absM m).rowCount i)).sum := by
  rw [C01_edgeNumber m.g h.base]
  congr 1
  apply List.map_congr_left
  intro i _
  simp only [AG.outCount, AM.rowCount, absM, absD]
  congr 1
  apply List.filter_congr
  intro j _
  have := mult_eq_zero_iff m h i j
  simp only [AG.hasEdge]
  by_cases he : m.g.hasEdgeRaw i j = true
  · have hz : m.mult i j ≠ 0 := by intro hz; rw [this.1 hz] at he; cases he
    simp [he, hz]
  · have he' : m.g.hasEdgeRaw i j = false := by simpa using he
    simp [he', this.2 he']

/-- **C04.** `getEdgeNumber()` is the number of pairs with non-zero multiplicity -/
theorem C04_dir_edgeNumber (n : Nat) (ops : List MOp) :
    ((MG.new n).dRun ops).g.edgeNumber =
      ((List.range ((MG.new n).dRun ops).g.size).map (fun i => (absM ((MG.new n).dRun ops)).rowCount i)).sum :=
  edgeNumber_eq _ (C04_dir_inv_reachable n ops)

/-! ### total = sum of all entries -/

theorem sum_map_ite_eq (l : List Nat) (k v : Nat) (f : Nat → Nat) (hn : l.Nodup) (hk : k ∈ l) (hf : f k = 0) :
    (l.map (fun x => if x = k then v else f x)).sum = v + (l.map f).sum := by
  induction l with
  | nil => cases hk
  | cons a l ih =>
    simp only [List.map_cons, List.sum_cons]
    by_cases hak : a = k
    · subst hak
      have hnot : a ∉ l := (List.nodup_cons.1 hn).1
      have : l.map (fun x => if x = a then v else f x) = l.map f := by
        apply List.map_congr_left
        intro x hx
        have : x ≠ a := fun hxa => hnot (hxa ▸ hx)
        simp [this]
      simp [this, hf]
    · have hk' : k ∈ l := by
        rcases List.mem_cons.1 hk with h | h
        · exact absurd h.symm hak
        · exact h
      rw [ih (List.nodup_cons.1 hn).2 hk']
      simp only [hak, if_false]; omega

theorem sum_map_ite_not_mem (l : List Nat) (k v : Nat) (f : Nat → Nat) (hk : k ∉ l) :
    (l.map (fun x => if x = k then v else f x)).sum = (l.map f).sum := by
  congr 1
  apply List.map_congr_left
  intro x hx
  have : x ≠ k := fun hxk => hk (hxk ▸ hx)
  simp [this]

/-- sum over the square `[0,n)²` of the values an association list gives -/
def sqSum (n : Nat) (f : Nat → Nat → Nat) : Nat :=
  ((List.range n).map (fun i => ((List.range n).map (fun j => f i j)).sum)).sum

theorem sqSum_zero (n : Nat) : sqSum n (fun _ _ => 0) = 0 := by
  unfold sqSum
  apply sum_eq_zero_of_forall
  intro x hx
  obtain ⟨i, _, rfl⟩ := List.mem_map.1 hx
  apply sum_eq_zero_of_forall
  intro y hy
  obtain ⟨j, _, rfl⟩ := List.mem_map.1 hy
  rfl

theorem sqSum_set (n : Nat) (f : Nat → Nat → Nat) (a b v : Nat) (ha : a < n) (hb : b < n) (hf : f a b = 0) :
    sqSum n (fun i j => if (i, j) = (a, b) then v else f i j) = v + sqSum n f := by
  unfold sqSum
  have hrow : ∀ i, ((List.range n).map (fun j => if (i, j) = (a, b) then v else f i j)).sum
      = if i = a then v + ((List.range n).map (fun j => f i j)).sum else ((List.range n).map (fun j => f i j)).sum := by
    intro i
    by_cases hia : i = a
    · subst hia
      simp only [if_true]
      have := sum_map_ite_eq (List.range n) b v (fun j => f i j) List.nodup_range (List.mem_range.2 hb) hf
      rw [← this]
      congr 1
      apply List.map_congr_left
      intro j _
      simp
    · simp only [hia, if_false]
      congr 1
      apply List.map_congr_left
      intro j _
      simp [hia]
  simp only [hrow]
  have := sum_map_ite_eq (List.range n) a (v + ((List.range n).map (fun j => f a j)).sum)
    (fun i => if i = a then 0 else ((List.range n).map (fun j => f i j)).sum) List.nodup_range (List.mem_range.2 ha) (by simp)
  have h2 : ((List.range n).map (fun i => if i = a then v + ((List.range n).map (fun j => f i j)).sum else ((List.range n).map (fun j => f i j)).sum))
      = (List.range n).map (fun x => if x = a then v + ((List.range n).map (fun j => f a j)).sum else (fun i => if i = a then 0 else ((List.range n).map (fun j => f i j)).sum) x) := by
    apply List.map_congr_left
    intro i _
    by_cases hia : i = a
    · subst hia; simp
    · simp [hia]
  rw [h2, this]
  have h3 := sum_map_ite_eq (List.range n) a (((List.range n).map (fun j => f a j)).sum)
    (fun i => if i = a then 0 else ((List.range n).map (fun j => f i j)).sum) List.nodup_range (List.mem_range.2 ha) (by simp)
  have h4 : ((List.range n).map (fun i => ((List.range n).map (fun j => f i j)).sum))
      = (List.range n).map (fun x => if x = a then ((List.range n).map (fun j => f a j)).sum else (fun i => if i = a then 0 else ((List.range n).map (fun j => f i j)).sum) x) := by
    apply List.map_congr_left
    intro i _
    by_cases hia : i = a
    · subst hia; simp
    · simp [hia]
  rw [h4, h3]; omega

theorem sumVals_eq_sqSum (n : Nat) (l : AMap Nat) (hk : (AMap.keys l).Nodup)
    (hb : ∀ e ∈ AMap.keys l, e.1 < n ∧ e.2 < n) :
    AMap.sumVals l = sqSum n (fun i j => (AMap.get? l (i, j)).getD 0) := by
  induction l with
  | nil =>
    have : (fun i j => (AMap.get? ([] : AMap Nat) (i, j)).getD 0) = fun _ _ => 0 := by
      funext i j; rfl
    rw [this, sqSum_zero]; rfl
  | cons p l ih =>
    obtain ⟨⟨a, b⟩, v⟩ := p
    have hk' : (AMap.keys l).Nodup := (List.nodup_cons.1 hk).2
    have hnot : (a, b) ∉ AMap.keys l := (List.nodup_cons.1 hk).1
    have hab := hb (a, b) (by simp [AMap.keys])
    have hnone : AMap.get? l (a, b) = none := by
      cases hg : AMap.get? l (a, b) with
      | none => rfl
      | some w =>
        exact absurd ((AMap.mem_keys_iff_get? l (a, b)).2 (by simp [hg])) hnot
    have hfun : (fun i j => (AMap.get? (((a, b), v) :: l) (i, j)).getD 0)
        = fun i j => if (i, j) = (a, b) then v else (AMap.get? l (i, j)).getD 0 := by
      funext i j
      by_cases hij : (i, j) = (a, b)
      · simp only [hij, if_true]
        simp [AMap.get?, List.lookup]
      · simp only [hij, if_false]
        have : ((i, j) == (a, b)) = false := by simpa using hij
        simp [AMap.get?, List.lookup, this]
    rw [hfun, sqSum_set n _ a b v hab.1 hab.2 (by simp [hnone])]
    rw [← ih hk' (fun e he => hb e (by simp [AMap.keys] at he ⊢; exact Or.inr he))]
    simp [AMap.sumVals]

/-- **C04.** `getTotalEdgeNumber()` is the sum of all multiplicities -/
theorem total_eq (m : MG) (h : MInv m) :
    m.total = ((List.range m.g.size).map (fun i => (absM m).rowSum i)).sum := by
  rw [h.tot]
  have := sumVals_eq_sqSum m.g.size m.g.labels h.keys (by
    intro e he
    have hs := (AMap.mem_keys_iff_get? m.g.labels e).1 he
    obtain ⟨a, b⟩ := e
    rw [h.base.lab h.lbl a b] at hs
    exact h.base.hasEdgeRaw_lt hs)
  rw [this]; rfl

theorem C04_dir_total (n : Nat) (ops : List MOp) :
    ((MG.new n).dRun ops).total =
      ((List.range ((MG.new n).dRun ops).g.size).map (fun i => (absM ((MG.new n).dRun ops)).rowSum i)).sum :=
  total_eq _ (C04_dir_inv_reachable n ops)


/-! ### degrees -/

theorem sum_map_nodup_eq_range (l : List Nat) (n : Nat) (f : Nat → Nat) (hn : l.Nodup) (hb : ∀ x ∈ l, x < n)
    (hz : ∀ x, x ∉ l → f x = 0) : (l.map f).sum = ((List.range n).map f).sum := by
  induction l generalizing f with
  | nil =>
    simp only [List.map_nil, List.sum_nil]
    symm; apply sum_eq_zero_of_forall
    intro y hy
    obtain ⟨x, _, rfl⟩ := List.mem_map.1 hy
    exact hz x (by simp)
  | cons a l ih =>
    have hnot : a ∉ l := (List.nodup_cons.1 hn).1
    have ha : a < n := hb a (by simp)
    simp only [List.map_cons, List.sum_cons]
    have h1 : l.map f = l.map (fun x => if x = a then 0 else f x) := by
      apply List.map_congr_left
      intro x hx
      have : x ≠ a := fun hxa => hnot (hxa ▸ hx)
      simp [this]
    rw [h1, ih (fun x => if x = a then 0 else f x) (List.nodup_cons.1 hn).2 (fun x hx => hb x (by simp [hx]))
      (by
        intro x hx
        by_cases hxa : x = a
        · simp [hxa]
        · simp only [hxa, if_false]; exact hz x (by simp [hxa, hx]))]
    have := sum_map_ite_eq (List.range n) a (f a) (fun x => if x = a then 0 else f x) List.nodup_range
      (List.mem_range.2 ha) (by simp)
    rw [← this]
    congr 1
    apply List.map_congr_left
    intro x _
    by_cases hxa : x = a
    · simp [hxa]
    · simp [hxa]

theorem allInR_of_inv {L : Type} [Inhabited L] (g : G L) (hg : Inv g) : g.allInR = true := by
  simp only [allInR, List.all_eq_true, decide_eq_true_eq]
  intro l hl j hj
  obtain ⟨i, hi, rfl⟩ := List.getElem_of_mem hl
  have : g.nb i = g.adj[i] := by simp [nb, List.getD_eq_getElem?_getD, hi]
  exact hg.bound i j (by rw [this]; exact hj)

/-- `getOutDegree(v)` is the multiplicity-weighted count: the sum of row `v` -/
theorem outDegree_eq (m : MG) (h : MInv m) (v : Nat) (hv : v < m.g.size) :
    m.dGetOutDegree v = .ok ((absM m).rowSum v) := by
  have hr : m.g.inR v = true := by simp [inR, hv]
  simp only [MG.dGetOutDegree, hr, allInR_of_inv m.g h.base, Bool.not_true, Bool.false_eq_true, if_false]
  congr 1
  exact sum_map_nodup_eq_range (m.g.nb v) m.g.size (fun j => cur m.g (v, j)) (h.base.nodup v) (h.base.bound v)
    (by
      intro x hx
      have hne : m.g.hasEdgeRaw v x = false := by simpa [hasEdgeRaw] using hx
      exact (mult_eq_zero_iff m h v x).2 hne)

theorem C04_dir_outDegree (n : Nat) (ops : List MOp) (v : Nat) (hv : v < ((MG.new n).dRun ops).g.size) :
    ((MG.new n).dRun ops).dGetOutDegree v = .ok ((absM ((MG.new n).dRun ops)).rowSum v) :=
  outDegree_eq _ (C04_dir_inv_reachable n ops) v hv

/-- the statement is not vacuous: a concrete history with a parallel edge, a self-loop, a
partial removal, a zeroing `setEdgeMultiplicity` and a vertex removal -/
example :
    let m := (MG.new 3).dRun [.addMultiedge 0 1 3, .addEdge 0 1, .addMultiedge 2 2 2, .removeMultiedge 0 1 2,
      .addMultiedge 1 2 5, .setEdgeMultiplicity 2 2 0, .addMultiedge 1 0 4, .removeVertexFromEdgeList 0]
    m.mult 0 1 = 0 ∧ m.mult 1 2 = 5 ∧ m.mult 2 2 = 0 ∧ m.g.edgeNumber = 1 ∧ m.total = 5 := by decide

end BGV
