import BGV.Props.C10
/-!
# Properties C07 / C10 — a vertex of the set that is outside the graph makes the extraction throw
`out_of_range`, at whatever position of the set's iteration order it comes (directed instantiation)
-/
set_option linter.unusedSectionVars false
namespace BGV
open G
variable {L : Type} [Inhabited L]

/-- the outer loop over in-range vertices succeeds even when the set also contains vertices
outside the graph: only stored neighbours (always in range) are looked up -/
theorem subOuter_weak (g : G L) (hg : Inv g) (S : List Nat) (f : Nat → Nat) (is : List Nat)
    (his : ∀ i ∈ is, i < g.size) (h : G L)
    (hf : ∀ v, v < g.size → (v ∈ is ∨ S.contains v = true) → f v < h.size) :
    ∃ h', is.foldl (subOuterStep false g S f) (.ok h) = .ok h' ∧ h'.size = h.size := by
  induction is generalizing h with
  | nil => exact ⟨h, rfl, rfl⟩
  | cons i is ih =>
    have hi := his i (by simp)
    have hstep : subOuterStep false g S f (.ok h) i
        = .ok (h.addAll (((g.nb i).filter (fun j => S.contains j)).map (fun j => (f i, f j, g.labD (i, j))))) := by
      simp only [subOuterStep, Res.bind, inR, hi, decide_true, Bool.not_true, Bool.false_eq_true, if_false]
      exact subInner g hg S f i (g.nb i) (fun j hj => (mem_nb_iff g i j).1 hj) h (by
        intro v hv
        rcases hv with rfl | ⟨hv1, hv2⟩
        · exact hf _ hi (Or.inl (by simp))
        · exact hf v (hg.bound i v hv1) (Or.inr hv2))
    simp only [List.foldl_cons]
    rw [hstep]
    obtain ⟨h', e1, e2⟩ := ih (fun x hx => his x (by simp [hx])) _ (by
      intro v hv hvm; rw [addAll_size]
      rcases hvm with hvm | hvm
      · exact hf v hv (Or.inl (by simp [hvm]))
      · exact hf v hv (Or.inr hvm))
    exact ⟨h', e1, by rw [e2, addAll_size]⟩

/-- **C07 / C10: bad vertex anywhere in the set.** -/
theorem C10_bad_vertex_anywhere (g : G L) (hg : Inv g) (pre rest : List Nat) (v : Nat)
    (hpre : ∀ x ∈ pre, x < g.size) (hv : ¬ v < g.size) :
    G.getSubgraph false g (pre ++ v :: rest) = .threw .oor ∧
    G.getSubgraphWithRemap false g (pre ++ v :: rest) = .threw .oor := by
  have hloop : ∀ (f : Nat → Nat) (init : G L),
      (∀ x, x < g.size → (x ∈ pre ∨ (pre ++ v :: rest).contains x = true) → f x < init.size) →
      G.subLoop false g (pre ++ v :: rest) f init = .threw .oor := by
    intro f init hf
    unfold G.subLoop
    rw [List.foldl_append]
    obtain ⟨h', e1, _⟩ := subOuter_weak g hg (pre ++ v :: rest) f pre hpre init hf
    rw [e1]
    simp only [List.foldl_cons, G.subOuterStep, Res.bind, inR_false g v hv, Bool.not_false, if_true]
    apply foldl_threw_absorb
    intro b; rfl
  constructor
  · exact hloop id _ (fun x hx _ => hx)
  · simp only [G.getSubgraphWithRemap]
    rw [hloop (remapOf (pre ++ v :: rest)) _ (by
      intro x _ hm
      show remapOf (pre ++ v :: rest) x < (pre ++ v :: rest).length
      apply remapOf_lt
      rcases hm with hm | hm
      · exact List.mem_append_left _ hm
      · simpa using hm)]
    rfl

end BGV
