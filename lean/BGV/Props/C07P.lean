import BGV.Props.C07
import BGV.Props.C12
/-!
# Property C07 — path searches from / to a vertex outside the graph throw `out_of_range`
(the graph argument is `const`: nothing can change)
-/
set_option linter.unusedSectionVars false
namespace BGV
open G
variable {L : Type} [Inhabited L]

/-- every search started from a vertex `≥ getSize()` throws `out_of_range` -/
theorem C07_search_source_oor (g : G L) (s : Nat) (h : ¬ s < g.size) :
    findVertexPredecessors g s = .threw .oor ∧ findAllVertexPredecessors g s = .threw .oor ∧
    findGeodesicsFromVertex g s = .threw .oor ∧ findAllGeodesicsFromVertex g s = .threw .oor := by
  have h1 : findVertexPredecessors g s = .threw .oor := by simp [findVertexPredecessors, h]
  have h2 : findAllVertexPredecessors g s = .threw .oor := by simp [findAllVertexPredecessors, h]
  refine ⟨h1, h2, ?_, ?_⟩
  · simp [findGeodesicsFromVertex, h1, Res.bind]
  · simp [findAllGeodesicsFromVertex, h2, Res.bind]

/-- `findGeodesics` / `findAllGeodesics` with either endpoint `≥ getSize()` throw `out_of_range`
— also when both endpoints are the same out-of-range vertex -/
theorem C07_geodesics_oor (g : G L) (s t : Nat) (h : ¬ (s < g.size ∧ t < g.size)) :
    findGeodesics g s t = .threw .oor ∧ findAllGeodesics g s t = .threw .oor := by
  have : (decide (s < g.size) && decide (t < g.size)) = false := by
    simp only [Bool.and_eq_false_iff, decide_eq_false_iff_not]
    by_cases h1 : s < g.size
    · right; exact fun h2 => h ⟨h1, h2⟩
    · left; exact h1
  constructor
  · simp [findGeodesics, this]
  · simp [findAllGeodesics, this]

/-- Dijkstra from a vertex outside the graph -/
theorem C07_dijkstra_oor (und : Bool) (w : WG) (s : Nat) (pops : List Nat) (h : ¬ s < w.g.size) :
    findGeodesicsDijkstra und w s pops = .threw .oor := C12_entry und w s pops h

end BGV
