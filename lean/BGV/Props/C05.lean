import BGV.Proofs.Weighted
import BGV.Proofs.WeightedU
import BGV.Props.C01
import BGV.Props.C02
/-!
# C05 — weighted graphs keep per-edge weights and the running total consistent
(`DirectedWeightedGraph`, force off, exact arithmetic)

The abstract object is the labelled abstract graph `AG Int` of C01 (weights are the labels,
in exact units).  `AW.step` says what each call of the property's list denotes; a call with
an index out of range throws and changes nothing.  The theorems: after **every** history the
weighted graph stands for the denoted graph (so `getEdgeWeight` is the weight given at
creation or by the last `setEdgeWeight`, re-adding an edge changes nothing, a missing edge
gives `invalid_argument` or 0 as requested), and `getTotalWeight` is the sum of the weights of
the edges present.
-/
set_option linter.unusedSectionVars false
namespace BGV

namespace AW
/-- what a call denotes on the abstract weighted graph -/
def step (a : AG Int) : WOp → AG Int
  | .addEdge i j w => if i < a.n ∧ j < a.n then a.add i j w else a
  | .setEdgeWeight i j w =>
      if i < a.n ∧ j < a.n then ⟨a.n, fun x y => if x = i ∧ y = j then some w else a.lab x y⟩ else a
  | .removeEdge i j => if i < a.n ∧ j < a.n then a.remove i j else a
  | .removeSelfLoops => ⟨a.n, fun x y => if x = y then none else a.lab x y⟩
  | .removeVertexFromEdgeList v =>
      if v < a.n then ⟨a.n, fun x y => if x = v ∨ y = v then none else a.lab x y⟩ else a
  | .clearEdges => ⟨a.n, fun _ _ => none⟩
  | .resize m => if m < a.n then a else ⟨m, a.lab⟩

def denote (a : AG Int) (ops : List WOp) : AG Int := ops.foldl step a

/-- sum of the weights of the edges present -/
def totalWeight (a : AG Int) : Int :=
  ((List.range a.n).map (fun i => ((List.range a.n).map (fun j => ((a.lab i j).getD 0))).sum)).sum
end AW

namespace WG
open G

theorem inR_false_of (g : G Int) (i j : Nat) (h : ¬ (i < g.size ∧ j < g.size)) : (g.inR i && g.inR j) = false := by
  simp only [inR, Bool.and_eq_false_iff, decide_eq_false_iff_not]
  by_cases hi : i < g.size
  · right; exact fun hj => h ⟨hi, hj⟩
  · left; exact hi

/-- one call of the implementation is the abstract call -/
theorem absD_dStep (m : WG) (h : WInv m) (op : WOp) : absD (m.dStep op).g = AW.step (absD m.g) op := by
  rw [dStep_g m h.lbl op]
  cases op with
  | addEdge i j w =>
    show absD (m.g.dStep (.addEdge i j w)).1 = _
    by_cases hr : i < m.g.size ∧ j < m.g.size
    · rw [G.absD_dStep m.g h.base (.addEdge i j w) hr]
      simp [AW.step, absD, hr, AG.dStep, h.lbl]
    · simp [AW.step, absD, hr, toS, G.dStep, G.dAddEdge, inR_false_of _ _ _ hr]
  | setEdgeWeight i j w =>
    by_cases hr : i < m.g.size ∧ j < m.g.size
    · by_cases he : m.g.hasEdgeRaw i j = true
      · simp only [toS, he, if_true]
        rw [G.absD_dStep m.g h.base (.setEdgeLabel i j w) hr]
        simp only [AW.step, hr, absD, and_self, if_true, AG.dStep, h.lbl]
        apply AG.ext' (by rfl)
        intro x y
        simp [he]
      · have he' : m.g.hasEdgeRaw i j = false := by simpa using he
        simp only [toS, he', Bool.false_eq_true, if_false]
        rw [G.absD_dStep m.g h.base (.addEdge i j w) hr]
        simp only [AW.step, hr, absD, and_self, if_true, AG.dStep, h.lbl, AG.add]
        apply AG.ext' (by rfl)
        intro x y
        simp [he']
    · have hraw : m.g.hasEdgeRaw i j = false := by
        cases he : m.g.hasEdgeRaw i j with
        | false => rfl
        | true => exact absurd (h.base.hasEdgeRaw_lt he) hr
      simp [AW.step, absD, hr, toS, hraw, G.dStep, G.dAddEdge, inR_false_of _ _ _ hr]
  | removeEdge i j =>
    show absD (m.g.dStep (.removeEdge i j)).1 = _
    by_cases hr : i < m.g.size ∧ j < m.g.size
    · rw [G.absD_dStep m.g h.base (.removeEdge i j) hr]
      simp [AW.step, absD, hr, AG.dStep]
    · simp [AW.step, absD, hr, toS, G.dStep, G.dRemoveEdge, inR_false_of _ _ _ hr]
  | removeSelfLoops =>
    show absD (m.g.dStep .removeSelfLoops).1 = _
    rw [G.absD_dStep m.g h.base .removeSelfLoops trivial]; rfl
  | removeVertexFromEdgeList v =>
    show absD (m.g.dStep (.removeVertexFromEdgeList v)).1 = _
    by_cases hv : v < m.g.size
    · rw [G.absD_dStep m.g h.base (.removeVertexFromEdgeList v) hv]
      simp [AW.step, absD, hv, AG.dStep]
    · simp [AW.step, absD, hv, toS, G.dStep, G.dRemoveVertex_oor m.g v hv]
  | clearEdges =>
    show absD (m.g.dStep .clearEdges).1 = _
    rw [G.absD_dStep m.g h.base .clearEdges trivial]; rfl
  | resize n =>
    show absD (m.g.dStep (.resize n)).1 = _
    by_cases hn : n < m.g.size
    · simp [AW.step, absD, hn, G.dStep, G.resize]
    · rw [G.absD_dStep m.g h.base (.resize n) (show m.g.size ≤ n by omega)]
      simp [AW.step, absD, hn, AG.dStep]

theorem absD_dRun (m : WG) (h : WInv m) (ops : List WOp) : absD (m.dRun ops).g = AW.denote (absD m.g) ops := by
  induction ops generalizing m with
  | nil => rfl
  | cons op ops ih =>
    simp only [dRun, AW.denote, List.foldl_cons]
    have := ih _ (winv_dStep m h op)
    simp only [dRun, AW.denote] at this
    rw [this, absD_dStep m h op]

end WG
open WG G

/-! ## the property -/

/-- **C05 (invariant).** Every history from the constructor keeps the representation
invariant: the inherited labelled graph satisfies the simple-graph invariant (the weight store
has exactly one entry per edge) and `totalWeight` is the sum of the stored weights. -/
theorem C05_dir_inv_reachable (n : Nat) (ops : List WOp) : WInv ((WG.new n).dRun ops) :=
  winv_dRun _ (winv_new n) ops

/-- **C05 (refinement).** After every history the weighted graph stands for the graph the
history denotes: an edge is present iff it was added and not removed since, and its weight is
the one given at creation or by the last `setEdgeWeight`; `addEdge` on an existing edge is a
no-op of the denotation. -/
theorem C05_dir_refines (n : Nat) (ops : List WOp) :
    absD ((WG.new n).dRun ops).g = AW.denote (AG.empty n) ops := by
  rw [absD_dRun _ (winv_new n) ops]
  congr 1
  apply AG.ext' (by rfl)
  intro x y
  have : (G.new true n : G Int).hasEdgeRaw x y = false := by
    simp only [hasEdgeRaw]; rw [nb_new]; rfl
  simp [absD, AG.empty, WG.new, this]

/-- `getEdgeWeight(i,j,throwIfInexistent)`: the weight of the denoted edge; a missing edge
yields `invalid_argument` or 0 as requested; out-of-range indices throw `out_of_range`. -/
theorem C05_dir_getEdgeWeight (m : WG) (h : WInv m) (i j : Nat) (t : Bool) :
    m.dGetEdgeWeight i j t =
      if i < m.g.size ∧ j < m.g.size then
        match (absD m.g).lab i j with
        | some w => .ok w
        | none => if t then .threw .inv else .ok 0
      else .threw .oor := by
  by_cases hr : i < m.g.size ∧ j < m.g.size
  · have hr' : (m.g.inR i && m.g.inR j) = true := by simp [inR, hr.1, hr.2]
    simp only [dGetEdgeWeight, dGetEdgeLabel, hr', if_true, hr, and_self, getLab, h.lbl, absD]
    by_cases he : m.g.hasEdgeRaw i j = true
    · obtain ⟨w, hw⟩ := Option.isSome_iff_exists.1 (by rw [h.base.lab h.lbl i j]; exact he)
      simp [he, hw, labD, h.lbl]
    · have he' : m.g.hasEdgeRaw i j = false := by simpa using he
      simp only [he', Bool.false_eq_true, if_false, get?_none_of_absent' m.g h.base h.lbl i j he']
      rfl
  · simp [dGetEdgeWeight, dGetEdgeLabel, inR_false_of _ _ _ hr, hr]

/-- `addEdge` on an existing edge changes nothing (neither the weight nor the total) -/
theorem C05_dir_readd_noop (m : WG) (i j : Nat) (w : Int) (hi : i < m.g.size) (hj : j < m.g.size)
    (he : m.g.hasEdgeRaw i j = true) : (m.dAddEdge i j w false).1 = m := by
  simp [WG.dAddEdge, inR, hi, hj, he]

/-! ### total = sum over the edges present -/

theorem sumI_eq_zero_of_forall (l : List Int) (h : ∀ x ∈ l, x = 0) : l.sum = 0 := by
  induction l with
  | nil => rfl
  | cons a l ih =>
    simp only [List.sum_cons]
    rw [h a (by simp), ih (fun x hx => h x (by simp [hx]))]; rfl

theorem sumI_map_ite_eq (l : List Nat) (k : Nat) (v : Int) (f : Nat → Int) (hn : l.Nodup) (hk : k ∈ l) (hf : f k = 0) :
    (l.map (fun x => if x = k then v else f x)).sum = v + (l.map f).sum := by
  induction l with
  | nil => cases hk
  | cons a l ih =>
    simp only [List.map_cons, List.sum_cons]
    by_cases hak : a = k
    · subst hak
      have hnot : a ∉ l := (List.nodup_cons.1 hn).1
      have : l.map (fun x => if x = a then v else f x) = l.map f := by
        apply List.map_congr_left
        intro x hx
        have : x ≠ a := fun hxa => hnot (hxa ▸ hx)
        simp [this]
      simp [this, hf]
    · have hk' : k ∈ l := by
        rcases List.mem_cons.1 hk with h | h
        · exact absurd h.symm hak
        · exact h
      rw [ih (List.nodup_cons.1 hn).2 hk']
      simp only [hak, if_false]; omega

def sqSumI (n : Nat) (f : Nat → Nat → Int) : Int :=
  ((List.range n).map (fun i => ((List.range n).map (fun j => f i j)).sum)).sum

theorem sqSumI_zero (n : Nat) : sqSumI n (fun _ _ => 0) = 0 := by
  unfold sqSumI
  apply sumI_eq_zero_of_forall
  intro x hx
  obtain ⟨i, _, rfl⟩ := List.mem_map.1 hx
  apply sumI_eq_zero_of_forall
  intro y hy
  obtain ⟨j, _, rfl⟩ := List.mem_map.1 hy
  rfl

theorem sqSumI_set (n : Nat) (f : Nat → Nat → Int) (a b : Nat) (v : Int) (ha : a < n) (hb : b < n) (hf : f a b = 0) :
    sqSumI n (fun i j => if (i, j) = (a, b) then v else f i j) = v + sqSumI n f := by
  unfold sqSumI
  have hrow : ∀ i, ((List.range n).map (fun j => if (i, j) = (a, b) then v else f i j)).sum
      = if i = a then v + ((List.range n).map (fun j => f i j)).sum else ((List.range n).map (fun j => f i j)).sum := by
    intro i
    by_cases hia : i = a
    · subst hia
      simp only [if_true]
      have := sumI_map_ite_eq (List.range n) b v (fun j => f i j) List.nodup_range (List.mem_range.2 hb) hf
      rw [← this]
      congr 1
      apply List.map_congr_left
      intro j _
      simp
    · simp only [hia, if_false]
      congr 1
      apply List.map_congr_left
      intro j _
      simp [hia]
  simp only [hrow]
  have := sumI_map_ite_eq (List.range n) a (v + ((List.range n).map (fun j => f a j)).sum)
    (fun i => if i = a then 0 else ((List.range n).map (fun j => f i j)).sum) List.nodup_range (List.mem_range.2 ha) (by simp)
  have h2 : ((List.range n).map (fun i => if i = a then v + ((List.range n).map (fun j => f i j)).sum else ((List.range n).map (fun j => f i j)).sum))
      = (List.range n).map (fun x => if x = a then v + ((List.range n).map (fun j => f a j)).sum else (fun i => if i = a then 0 else ((List.range n).map (fun j => f i j)).sum) x) := by
    apply List.map_congr_left
    intro i _
    by_cases hia : i = a
    · subst hia; simp
    · simp [hia]
  rw [h2, this]
  have h3 := sumI_map_ite_eq (List.range n) a (((List.range n).map (fun j => f a j)).sum)
    (fun i => if i = a then 0 else ((List.range n).map (fun j => f i j)).sum) List.nodup_range (List.mem_range.2 ha) (by simp)
  have h4 : ((List.range n).map (fun i => ((List.range n).map (fun j => f i j)).sum))
      = (List.range n).map (fun x => if x = a then ((List.range n).map (fun j => f a j)).sum else (fun i => if i = a then 0 else ((List.range n).map (fun j => f i j)).sum) x) := by
    apply List.map_congr_left
    intro i _
    by_cases hia : i = a
    · subst hia; simp
    · simp [hia]
  rw [h4, h3]; omega

theorem sumI_eq_sqSumI (n : Nat) (l : AMap Int) (hk : (AMap.keys l).Nodup)
    (hb : ∀ e ∈ AMap.keys l, e.1 < n ∧ e.2 < n) :
    AMap.sumI l = sqSumI n (fun i j => (AMap.get? l (i, j)).getD 0) := by
  induction l with
  | nil =>
    have : (fun i j => (AMap.get? ([] : AMap Int) (i, j)).getD 0) = fun _ _ => 0 := by
      funext i j; rfl
    rw [this, sqSumI_zero]; rfl
  | cons p l ih =>
    obtain ⟨⟨a, b⟩, v⟩ := p
    have hk' : (AMap.keys l).Nodup := (List.nodup_cons.1 hk).2
    have hnot : (a, b) ∉ AMap.keys l := (List.nodup_cons.1 hk).1
    have hab := hb (a, b) (by simp [AMap.keys])
    have hnone : AMap.get? l (a, b) = none := by
      cases hg : AMap.get? l (a, b) with
      | none => rfl
      | some w =>
        exact absurd ((AMap.mem_keys_iff_get? l (a, b)).2 (by simp [hg])) hnot
    have hfun : (fun i j => (AMap.get? (((a, b), v) :: l) (i, j)).getD 0)
        = fun i j => if (i, j) = (a, b) then v else (AMap.get? l (i, j)).getD 0 := by
      funext i j
      by_cases hij : (i, j) = (a, b)
      · simp only [hij, if_true]
        simp [AMap.get?, List.lookup]
      · simp only [hij, if_false]
        have : ((i, j) == (a, b)) = false := by simpa using hij
        simp [AMap.get?, List.lookup, this]
    rw [hfun, sqSumI_set n _ a b v hab.1 hab.2 (by simp [hnone])]
    rw [← ih hk' (fun e he => hb e (by simp [AMap.keys] at he ⊢; exact Or.inr he))]
    simp [AMap.sumI]

theorem total_eq_totalWeight (m : WG) (h : WInv m) : m.total = AW.totalWeight (absD m.g) := by
  rw [h.tot]
  have := sumI_eq_sqSumI m.g.size m.g.labels h.keys (by
    intro e he
    have hs := (AMap.mem_keys_iff_get? m.g.labels e).1 he
    obtain ⟨a, b⟩ := e
    rw [h.base.lab h.lbl a b] at hs
    exact h.base.hasEdgeRaw_lt hs)
  rw [this]
  simp only [sqSumI, AW.totalWeight, absD]
  congr 1
  apply List.map_congr_left
  intro i _
  congr 1
  apply List.map_congr_left
  intro j _
  by_cases he : m.g.hasEdgeRaw i j = true
  · simp only [he, if_true, Option.getD_some, labD, h.lbl]; rfl
  · have he' : m.g.hasEdgeRaw i j = false := by simpa using he
    simp [he', get?_none_of_absent' m.g h.base h.lbl i j he']

/-- **C05.** `getTotalWeight()` equals the sum of the weights of the edges currently present
(exact arithmetic), after every history. -/
theorem C05_dir_total (n : Nat) (ops : List WOp) :
    ((WG.new n).dRun ops).total = AW.totalWeight (AW.denote (AG.empty n) ops) := by
  rw [total_eq_totalWeight _ (C05_dir_inv_reachable n ops), C05_dir_refines]

/-- the unweighted observers behave as in the corresponding simple graph: the graph part of a
weighted history is the labelled directed graph's own history -/
theorem C05_dir_graph_part (m : WG) (h : WInv m) (op : WOp) : (m.dStep op).g = (m.g.dStep (m.toS op)).1 :=
  dStep_g m h.lbl op

/-- not vacuous: negative, zero and positive weights, a re-add, an overwrite, a self-loop and a
vertex removal -/
example :
    let m := (WG.new 3).dRun [.addEdge 0 1 (-6), .addEdge 0 1 20, .addEdge 1 1 0, .addEdge 2 0 10,
      .setEdgeWeight 0 1 3, .setEdgeWeight 1 2 8, .addEdge 2 2 5, .removeSelfLoops, .removeVertexFromEdgeList 0]
    m.total = 8 ∧ m.dGetEdgeWeight 1 2 true = .ok 8 ∧ m.dGetEdgeWeight 0 1 true = .threw .inv
      ∧ m.dGetEdgeWeight 0 1 false = .ok 0 ∧ m.g.edgeNumber = 1 := by decide

/-! ## `UndirectedWeightedGraph` -/

namespace AWU
/-- what a call denotes on the abstract undirected weighted graph (symmetric) -/
def step (a : AG Int) : WOp → AG Int
  | .addEdge i j w => if i < a.n ∧ j < a.n then a.uAdd i j w else a
  | .setEdgeWeight i j w =>
      if i < a.n ∧ j < a.n then ⟨a.n, fun x y => if AG.samePair x y i j then some w else a.lab x y⟩ else a
  | .removeEdge i j => if i < a.n ∧ j < a.n then a.uRemove i j else a
  | .removeSelfLoops => ⟨a.n, fun x y => if x = y then none else a.lab x y⟩
  | .removeVertexFromEdgeList v =>
      if v < a.n then ⟨a.n, fun x y => if x = v ∨ y = v then none else a.lab x y⟩ else a
  | .clearEdges => ⟨a.n, fun _ _ => none⟩
  | .resize m => if m < a.n then a else ⟨m, a.lab⟩

def denote (a : AG Int) (ops : List WOp) : AG Int := ops.foldl step a

/-- sum of the weights of the undirected edges present, each unordered pair once -/
def totalWeight (a : AG Int) : Int :=
  ((List.range a.n).map (fun i => ((List.range a.n).map (fun j => if i ≤ j then ((a.lab i j).getD 0) else 0)).sum)).sum
end AWU

namespace WG

theorem uHasEdgeRaw_false_of_oor (g : G Int) (h : UInv g) (i j : Nat) (hr : ¬ (i < g.size ∧ j < g.size)) :
    g.uHasEdgeRaw i j = false := by
  rw [h.uHasEdgeRaw_eq]
  cases he : g.hasEdgeRaw i j with
  | false => rfl
  | true =>
    have hm : j ∈ g.nb i := (mem_nb_iff g i j).2 he
    have hj := h.base.bound i j hm
    have hi := h.base.bound j i ((h.sym i j).1 hm)
    exact absurd ⟨hi, hj⟩ hr

/-- one call of the undirected implementation is the abstract call -/
theorem absU_uStep (m : WG) (h : WUInv m) (op : WOp) : absU (m.uStep op).g = AWU.step (absU m.g) op := by
  rw [uStep_g m h op]
  cases op with
  | addEdge i j w =>
    show absU (m.g.uStepM (.addEdge i j w)).1 = _
    by_cases hr : i < m.g.size ∧ j < m.g.size
    · rw [G.absU_uStepM m.g h.base (.addEdge i j w) hr]
      simp [AWU.step, absU, hr, AG.uStep, h.lbl]
    · simp [AWU.step, absU, hr, G.uStepM, uAddEdge_oor m.g i j w false hr]
  | setEdgeWeight i j w =>
    by_cases hr : i < m.g.size ∧ j < m.g.size
    · have hsome : ((absU m.g).lab i j).isSome = m.g.uHasEdgeRaw i j := by
        rw [h.base.uHasEdgeRaw_eq]; simp only [absU]; split <;> simp_all
      by_cases he : m.g.uHasEdgeRaw i j = true
      · simp only [toSU, he, if_true]
        rw [G.absU_uStepM m.g h.base (.setEdgeLabel i j w) hr]
        simp only [AWU.step, AG.uStep, h.lbl]
        rw [if_pos (show i < (absU m.g).n ∧ j < (absU m.g).n from hr)]
        apply AG.ext' (by rfl)
        intro x y
        rw [he] at hsome
        simp only [hsome, and_true]
        rfl
      · have he' : m.g.uHasEdgeRaw i j = false := by simpa using he
        simp only [toSU, he', Bool.false_eq_true, if_false]
        rw [G.absU_uStepM m.g h.base (.addEdge i j w) hr]
        simp only [AWU.step, AG.uStep, h.lbl, AG.uAdd]
        rw [if_pos (show i < (absU m.g).n ∧ j < (absU m.g).n from hr)]
        apply AG.ext' (by rfl)
        intro x y
        rw [he'] at hsome
        simp only [hsome, and_true]
        rfl
    · have hraw := uHasEdgeRaw_false_of_oor m.g h.base i j hr
      simp [AWU.step, absU, hr, toSU, hraw, G.uStepM, uAddEdge_oor m.g i j w false hr]
  | removeEdge i j =>
    show absU (m.g.uStepM (.removeEdge i j)).1 = _
    by_cases hr : i < m.g.size ∧ j < m.g.size
    · rw [G.absU_uStepM m.g h.base (.removeEdge i j) hr]
      simp [AWU.step, absU, hr, AG.uStep]
    · simp [AWU.step, absU, hr, G.uStepM, G.uRemoveEdge, inR_false_of _ _ _ hr]
  | removeSelfLoops =>
    show absU (m.g.uStepM .removeSelfLoops).1 = _
    rw [G.absU_uStepM m.g h.base .removeSelfLoops trivial]; rfl
  | removeVertexFromEdgeList v =>
    show absU (m.g.uStepM (.removeVertexFromEdgeList v)).1 = _
    by_cases hv : v < m.g.size
    · rw [G.absU_uStepM m.g h.base (.removeVertexFromEdgeList v) hv]
      simp [AWU.step, absU, hv, AG.uStep]
    · simp [AWU.step, absU, hv, G.uStepM, G.uRemoveVertex_oor m.g v hv]
  | clearEdges =>
    show absU (m.g.uStepM .clearEdges).1 = _
    rw [G.absU_uStepM m.g h.base .clearEdges trivial]; rfl
  | resize n =>
    show absU (m.g.uStepM (.resize n)).1 = _
    by_cases hn : n < m.g.size
    · simp [AWU.step, absU, hn, G.uStepM, G.resize]
    · rw [G.absU_uStepM m.g h.base (.resize n) (show m.g.size ≤ n by omega)]
      simp [AWU.step, absU, hn, AG.uStep]

theorem absU_uRun (m : WG) (h : WUInv m) (ops : List WOp) : absU (m.uRun ops).g = AWU.denote (absU m.g) ops := by
  induction ops generalizing m with
  | nil => rfl
  | cons op ops ih =>
    simp only [uRun, AWU.denote, List.foldl_cons]
    have := ih _ (wuinv_uStep m h op)
    simp only [uRun, AWU.denote] at this
    rw [this, absU_uStep m h op]

end WG

/-- **C05 (undirected, invariant).** -/
theorem C05_und_inv_reachable (n : Nat) (ops : List WOp) : WUInv ((WG.new n).uRun ops) :=
  wuinv_uRun _ (wuinv_new n) ops

/-- **C05 (undirected, refinement).** After every history the undirected weighted graph stands
for the symmetric graph the history denotes; the weight of `{i,j}` is the one given at creation
or by the last `setEdgeWeight` in *either* orientation. -/
theorem C05_und_refines (n : Nat) (ops : List WOp) :
    absU ((WG.new n).uRun ops).g = AWU.denote (AG.empty n) ops := by
  rw [absU_uRun _ (wuinv_new n) ops]
  congr 1
  apply AG.ext' (by rfl)
  intro x y
  have : (G.new true n : G Int).hasEdgeRaw x y = false := by
    simp only [hasEdgeRaw]; rw [nb_new]; rfl
  simp [absU, AG.empty, WG.new, this]

/-- `getEdgeWeight(i,j) = getEdgeWeight(j,i)` = weight of the denoted unordered pair -/
theorem C05_und_getEdgeWeight (m : WG) (h : WUInv m) (i j : Nat) (hi : i < m.g.size) (hj : j < m.g.size) (t : Bool) :
    m.uGetEdgeWeight i j t =
      (match (absU m.g).lab i j with
        | some w => .ok w
        | none => if t then .threw .inv else .ok 0) ∧
    m.uGetEdgeWeight i j t = m.uGetEdgeWeight j i t := by
  have h1 := C03_und_getEdgeLabel m.g h.base h.lbl i j hi hj t
  have h2 := C03_und_getEdgeLabel m.g h.base h.lbl j i hj hi t
  refine ⟨?_, ?_⟩
  · show m.g.uGetEdgeLabel i j t = _
    rw [h1]
    cases (absU m.g).lab i j <;> rfl
  simp only [uGetEdgeWeight]
  rw [h1, h2, C02_symmetric m.g h.base i j]

/-- `addEdge` on an existing undirected edge (named in either orientation) changes nothing -/
theorem C05_und_readd_noop (m : WG) (i j : Nat) (w : Int) (hi : i < m.g.size) (hj : j < m.g.size)
    (he : m.g.uHasEdgeRaw i j = true) : (m.uAddEdge i j w false).1 = m := by
  simp [WG.uAddEdge, inR, hi, hj, he]

theorem total_eq_uTotalWeight (m : WG) (h : WUInv m) : m.total = AWU.totalWeight (absU m.g) := by
  rw [h.tot]
  have := sumI_eq_sqSumI m.g.size m.g.labels h.keys (by
    intro e he
    have hs := (AMap.mem_keys_iff_get? m.g.labels e).1 he
    obtain ⟨a, b⟩ := e
    rw [h.base.base.lab h.lbl a b] at hs
    simp only [Bool.and_eq_true, decide_eq_true_eq] at hs
    have hm : b ∈ m.g.nb a := (mem_nb_iff m.g a b).2 hs.2
    exact ⟨h.base.base.bound b a ((h.base.sym a b).1 hm), h.base.base.bound a b hm⟩)
  rw [this]
  simp only [sqSumI, AWU.totalWeight, absU]
  congr 1
  apply List.map_congr_left
  intro i _
  congr 1
  apply List.map_congr_left
  intro j _
  have hlab := h.base.base.lab h.lbl i j
  by_cases hij : i ≤ j
  · simp only [hij, if_true, ordered_of_le hij]
    by_cases he : m.g.hasEdgeRaw i j = true
    · simp only [he, if_true, Option.getD_some, labD, h.lbl]; rfl
    · have he' : m.g.hasEdgeRaw i j = false := by simpa using he
      rw [he'] at hlab
      simp only [Bool.and_false] at hlab
      cases hg : m.g.labels.get? (i, j) with
      | none => simp [he']
      | some w => rw [hg] at hlab; cases hlab
  · simp only [hij, if_false]
    have : decide (i ≤ j) = false := by simpa using hij
    rw [this] at hlab
    simp only [Bool.false_and] at hlab
    cases hg : m.g.labels.get? (i, j) with
    | none => rfl
    | some w => rw [hg] at hlab; cases hlab

/-- **C05 (undirected).** `getTotalWeight()` is the sum of the weights of the undirected edges
present, each counted once, after every history. -/
theorem C05_und_total (n : Nat) (ops : List WOp) :
    ((WG.new n).uRun ops).total = AWU.totalWeight (AWU.denote (AG.empty n) ops) := by
  rw [total_eq_uTotalWeight _ (C05_und_inv_reachable n ops), C05_und_refines]

example :
    let m := (WG.new 3).uRun [.addEdge 1 0 (-6), .addEdge 0 1 20, .addEdge 1 1 2, .addEdge 2 0 10,
      .setEdgeWeight 0 1 3, .setEdgeWeight 2 1 8, .removeEdge 0 2, .removeSelfLoops]
    m.total = 11 ∧ m.uGetEdgeWeight 1 2 true = .ok 8 ∧ m.uGetEdgeWeight 1 0 true = .ok 3
      ∧ m.uGetEdgeWeight 0 2 true = .threw .inv ∧ m.g.edgeNumber = 2 := by decide

end BGV
