import BGV.Props.C10
import BGV.Props.C09
/-!
# Property C10 — undirected instantiation of `getSubgraph` / `getSubgraphWithRemap`

The loops visit every undirected edge inside `S` twice (once from each endpoint); the second
unforced `addEdge` is a no-op.  Result: exactly the induced symmetric subgraph, labels kept, for
every iteration order of the vertex set.
-/
set_option linter.unusedSectionVars false
namespace BGV
open G
variable {L : Type} [Inhabited L]

/-- edges the undirected loops try to add, in order -/
def subEdgesU (g : G L) (S : List Nat) (f : Nat → Nat) (is : List Nat) : List (LEdge L) :=
  is.flatMap (fun i => ((g.nb i).filter (fun j => S.contains j)).map (fun j => (f i, f j, g.labD (ordered i j))))

abbrev uAddOnly (h : G L) (es : List (LEdge L)) : G L := addOnly (fun h i j l f => h.uAddEdge i j l f) h es

theorem uAddOnly_size (h : G L) (es : List (LEdge L)) : (uAddOnly h es).size = h.size :=
  addOnly_size _ addOK_uAddEdge h es

theorem subInnerU (g : G L) (hg : UInv g) (S : List Nat) (f : Nat → Nat) (i : Nat) (js : List Nat)
    (hjs : ∀ j ∈ js, g.hasEdgeRaw i j = true) (h : G L)
    (hf : ∀ v, (v = i ∨ (v ∈ js ∧ S.contains v = true)) → f v < h.size) :
    js.foldl (subInnerStep true g S f i) (.ok h)
      = .ok (uAddOnly h ((js.filter (fun j => S.contains j)).map (fun j => (f i, f j, g.labD (ordered i j))))) := by
  induction js generalizing h with
  | nil => rfl
  | cons j js ih =>
    simp only [List.foldl_cons]
    have hej := hjs j (by simp)
    by_cases hc : S.contains j = true
    · have hfi : f i < h.size := hf i (Or.inl rfl)
      have hfj : f j < h.size := hf j (Or.inr ⟨by simp, hc⟩)
      have hlab : getEdgeLabelOf true g i j = .ok (g.labD (ordered i j)) := by
        simp only [getEdgeLabelOf, if_true]; exact uGetEdgeLabel_edge g hg i j hej
      have hstep : subInnerStep true g S f i (.ok h) j = .ok (h.uAddEdge (f i) (f j) (g.labD (ordered i j)) false).1 := by
        simp only [subInnerStep, hc, if_true, hlab, chain, Res.bind, addEdgeOf]
        rw [uAddEdge_ok' h (f i) (f j) _ hfi hfj]
      rw [hstep]
      simp only [hc, List.filter_cons, if_true, List.map_cons, addOnly, List.foldl_cons]
      exact ih (fun x hx => hjs x (by simp [hx])) _ (by
        intro v hv; rw [uAddEdge_size]
        rcases hv with rfl | ⟨hv1, hv2⟩
        · exact hfi
        · exact hf v (Or.inr ⟨by simp [hv1], hv2⟩))
    · have hc' : S.contains j = false := by simpa using hc
      have hstep : subInnerStep true g S f i (.ok h) j = .ok h := by
        simp only [subInnerStep, hc', Bool.false_eq_true, if_false]
      rw [hstep]
      simp only [hc', List.filter_cons, Bool.false_eq_true, if_false]
      exact ih (fun x hx => hjs x (by simp [hx])) h (by
        intro v hv
        rcases hv with rfl | ⟨hv1, hv2⟩
        · exact hf _ (Or.inl rfl)
        · exact hf v (Or.inr ⟨by simp [hv1], hv2⟩))

theorem subOuterU (g : G L) (hg : UInv g) (S : List Nat) (f : Nat → Nat) (is : List Nat)
    (his : ∀ i ∈ is, i < g.size) (h : G L)
    (hf : ∀ v, (v ∈ is ∨ S.contains v = true) → f v < h.size) :
    is.foldl (subOuterStep true g S f) (.ok h) = .ok (uAddOnly h (subEdgesU g S f is)) := by
  induction is generalizing h with
  | nil => rfl
  | cons i is ih =>
    have hi := his i (by simp)
    have hstep : subOuterStep true g S f (.ok h) i
        = .ok (uAddOnly h (((g.nb i).filter (fun j => S.contains j)).map (fun j => (f i, f j, g.labD (ordered i j))))) := by
      simp only [subOuterStep, Res.bind, inR, hi, decide_true, Bool.not_true, Bool.false_eq_true, if_false]
      exact subInnerU g hg S f i (g.nb i) (fun j hj => (mem_nb_iff g i j).1 hj) h (by
        intro v hv
        rcases hv with rfl | ⟨_, hv2⟩
        · exact hf _ (Or.inl (by simp))
        · exact hf v (Or.inr hv2))
    simp only [List.foldl_cons]
    rw [hstep]
    rw [ih (fun x hx => his x (by simp [hx])) _ (by
      intro v hv; rw [uAddOnly_size]
      rcases hv with hv | hv
      · exact hf v (Or.inl (by simp [hv]))
      · exact hf v (Or.inr hv))]
    simp only [subEdgesU, List.flatMap_cons, addOnly, List.foldl_append]

/-- **the undirected subgraph loop, for any relabelling `f` one-to-one on the vertex set** -/
theorem subLoopU_spec (g : G L) (hg : UInv g) (ord : List Nat) (hord : ∀ v ∈ ord, v < g.size)
    (f : Nat → Nat) (N : Nat) (hfN : ∀ v ∈ ord, f v < N)
    (hinj : ∀ a ∈ ord, ∀ b ∈ ord, f a = f b → a = b) :
    ∃ r, G.subLoop true g ord f (G.new g.labelled N) = .ok r ∧ UInv r ∧ r.size = N ∧
      (∀ a ∈ ord, ∀ b ∈ ord, (absU r).lab (f a) (f b) = (absU g).lab a b) ∧
      (∀ x y, (absU r).lab x y ≠ none → ∃ a ∈ ord, ∃ b ∈ ord, x = f a ∧ y = f b) := by
  have hrun : G.subLoop true g ord f (G.new g.labelled N) = .ok _ :=
    subOuterU g hg ord f ord hord (G.new g.labelled N) (by
      intro v hv
      show f v < N
      rcases hv with hv | hv
      · exact hfN v hv
      · exact hfN v (by simpa using hv))
  have hmem : ∀ e, e ∈ subEdgesU g ord f ord ↔
      ∃ i ∈ ord, ∃ j ∈ ord, g.hasEdgeRaw i j = true ∧ e = (f i, f j, g.labD (ordered i j)) := by
    intro e
    simp only [subEdgesU, List.mem_flatMap, List.mem_map, List.mem_filter]
    constructor
    · rintro ⟨i, hi, j, ⟨hj, hc⟩, rfl⟩
      exact ⟨i, hi, j, by simpa using hc, (mem_nb_iff g i j).1 hj, rfl⟩
    · rintro ⟨i, hi, j, hj, he, rfl⟩
      exact ⟨i, hi, j, ⟨(mem_nb_iff g i j).2 he, by simpa using hj⟩, rfl⟩
  have hvalid : AG.ValidFrom (L := L) N (addOps (subEdgesU g ord f ord)) := by
    apply validFrom_addOps
    intro e he
    obtain ⟨i, hi, j, hj, _, rfl⟩ := (hmem e).1 he
    exact ⟨hfN i hi, hfN j hj⟩
  have heq : uAddOnly (G.new g.labelled N : G L) (subEdgesU g ord f ord)
      = uRun (G.new g.labelled N : G L) (addOps (subEdgesU g ord f ord)) := (uRun_addOps _ _).symm
  have hnorm : ∀ e : Edge, (if g.labelled = true then g.labD e else default) = g.labD e := by
    intro e; simp only [labD_eq]; by_cases hl : g.labelled = true <;> simp [hl]
  have hlab : ∀ x y, (absU (uRun (G.new g.labelled N : G L) (addOps (subEdgesU g ord f ord)))).lab x y
      = AG.firstLabelU ((subEdgesU g ord f ord).map (fun e => (e.1, e.2.1, if g.labelled = true then e.2.2 else default))) x y := by
    intro x y
    rw [C02_refines (L := L) g.labelled N _ hvalid]
    simp only [addOps]
    rw [AG.uDenote_addOps, AG.uAddAll_lab _ (by intro a b; rfl)]
    rfl
  have hmem' : ∀ x y l, (x, y, l) ∈ (subEdgesU g ord f ord).map (fun e => (e.1, e.2.1, if g.labelled = true then e.2.2 else default))
      ↔ ∃ i ∈ ord, ∃ j ∈ ord, g.hasEdgeRaw i j = true ∧ x = f i ∧ y = f j ∧ l = g.labD (ordered i j) := by
    intro x y l
    simp only [List.mem_map]
    constructor
    · rintro ⟨e, he, heq⟩
      obtain ⟨i, hi, j, hj, hedge, rfl⟩ := (hmem e).1 he
      simp only [Prod.mk.injEq] at heq
      obtain ⟨rfl, rfl, rfl⟩ := heq
      exact ⟨i, hi, j, hj, hedge, rfl, rfl, hnorm _⟩
    · rintro ⟨i, hi, j, hj, hedge, rfl, rfl, rfl⟩
      exact ⟨_, (hmem _).2 ⟨i, hi, j, hj, hedge, rfl⟩, by simp [hnorm]⟩
  refine ⟨_, hrun, ?_, ?_, ?_, ?_⟩
  · rw [heq]; exact C02_inv_reachable _ _ _
  · rw [uAddOnly_size]; rfl
  · intro a ha b hb
    rw [heq, hlab]
    have hsymm : g.hasEdgeRaw b a = g.hasEdgeRaw a b := by
      rw [Bool.eq_iff_iff, hasEdgeRaw_iff_mem, hasEdgeRaw_iff_mem]; exact (hg.sym a b).symm
    cases hfl : AG.firstLabelU ((subEdgesU g ord f ord).map (fun e => (e.1, e.2.1, if g.labelled = true then e.2.2 else default))) (f a) (f b) with
    | some l =>
      obtain ⟨x, y, hm, hs⟩ := firstLabelU_some hfl
      obtain ⟨i, hi, j, hj, hedge, rfl, rfl, rfl⟩ := (hmem' x y l).1 hm
      rcases hs with ⟨h1, h2⟩ | ⟨h1, h2⟩
      · have e1 := hinj a ha i hi h1
        have e2 := hinj b hb j hj h2
        subst e1; subst e2
        simp [absU, hedge]
      · have e1 := hinj a ha j hj h1
        have e2 := hinj b hb i hi h2
        subst e1; subst e2
        simp [absU, hsymm ▸ hedge, ordered_comm a b]
    | none =>
      by_cases he : g.hasEdgeRaw a b = true
      · exact absurd ((hmem' (f a) (f b) _).2 ⟨a, ha, b, hb, he, rfl, rfl, rfl⟩)
          (firstLabelU_none hfl (f a) (f b) _ (Or.inl ⟨rfl, rfl⟩))
      · simp [absU, he]
  · intro x y hne
    rw [heq, hlab] at hne
    cases hfl : AG.firstLabelU ((subEdgesU g ord f ord).map (fun e => (e.1, e.2.1, if g.labelled = true then e.2.2 else default))) x y with
    | none => exact absurd hfl hne
    | some l =>
      obtain ⟨x', y', hm, hs⟩ := firstLabelU_some hfl
      obtain ⟨i, hi, j, hj, _, rfl, rfl, rfl⟩ := (hmem' x' y' l).1 hm
      rcases hs with ⟨h1, h2⟩ | ⟨h1, h2⟩
      · exact ⟨i, hi, j, hj, h1, h2⟩
      · exact ⟨j, hj, i, hi, h1, h2⟩

/-- **C10 (undirected), getSubgraph**: same number of vertices, exactly the undirected edges with
both endpoints in `S`, each with its label — for every iteration order of `S ⊆ V`. -/
theorem C10_und_getSubgraph (g : G L) (hg : UInv g) (ord : List Nat) (hord : ∀ v ∈ ord, v < g.size) :
    ∃ r, G.getSubgraph true g ord = .ok r ∧ UInv r ∧
      absU r = ⟨g.size, fun x y => if x ∈ ord ∧ y ∈ ord then (absU g).lab x y else none⟩ := by
  obtain ⟨r, hr, hinv, hsz, h1, h2⟩ := subLoopU_spec g hg ord hord id g.size hord (fun a _ b _ h => h)
  refine ⟨r, hr, hinv, ?_⟩
  apply AG.ext'
  · exact hsz
  · intro x y
    by_cases hc : x ∈ ord ∧ y ∈ ord
    · simp only [hc, and_self, if_true]; exact h1 x hc.1 y hc.2
    · simp only [hc, if_false]
      cases hl : (absU r).lab x y with
      | none => rfl
      | some l =>
        obtain ⟨a, ha, b, hb, rfl, rfl⟩ := h2 x y (by rw [hl]; simp)
        exact absurd ⟨ha, hb⟩ hc

/-- **C10 (undirected), getSubgraphWithRemap**: a graph on `|S|` vertices and the one-to-one map
`v ↦ position of v`, under which it has exactly the edges and labels of the induced subgraph. -/
theorem C10_und_getSubgraphWithRemap (g : G L) (hg : UInv g) (ord : List Nat) (hord : ∀ v ∈ ord, v < g.size) :
    ∃ r, G.getSubgraphWithRemap true g ord = .ok (r, ord.zipIdx) ∧ UInv r ∧ r.size = ord.length ∧
      (∀ a ∈ ord, ∀ b ∈ ord, remapOf ord a = remapOf ord b → a = b) ∧
      (∀ a ∈ ord, ∀ b ∈ ord, (absU r).lab (remapOf ord a) (remapOf ord b) = (absU g).lab a b) ∧
      (∀ x y, (absU r).lab x y ≠ none → ∃ a ∈ ord, ∃ b ∈ ord, x = remapOf ord a ∧ y = remapOf ord b) := by
  obtain ⟨r, hr, hinv, hsz, h1, h2⟩ := subLoopU_spec g hg ord hord (remapOf ord) ord.length
    (fun v hv => remapOf_lt ord v hv) (fun a ha b hb h => remapOf_inj ord a b ha hb h)
  refine ⟨r, ?_, hinv, hsz, fun a ha b hb h => remapOf_inj ord a b ha hb h, h1, h2⟩
  simp only [G.getSubgraphWithRemap, hr, Res.map]

example : (G.getSubgraph true (uRun (G.new true 4 : G Nat) [.addEdge 0 1 7, .addEdge 1 2 5, .addEdge 2 0 9, .addEdge 3 3 1]) [2, 0]).map
    (fun r => (r.nb 2, r.nb 0, r.nb 1, r.nb 3, r.labels.get? (0, 2))) = .ok ([0], [2], [], [], some 9) := by decide

end BGV
