import BGV.Proofs.TextLift
import BGV.Props.C14G
/-!
# Property C13 — graph level: `loadTextEdgeList(writeTextEdgeList(g))`

For every reachable graph whose indices fit `int` and every label text codec (the printed label
converts back, has no line break and does not start with a blank): the writer never throws, the
loader never throws and returns a graph with `1 + largest used index` vertices which, resized
to the original size, denotes the original graph, labels included.  For unlabelled graphs the
file has no label column and the parsed label is irrelevant.
-/
set_option linter.unusedSectionVars false
namespace BGV
open G FIO
variable {L : Type} [Inhabited L]

theorem vcount_relab (labelled : Bool) (l0 : L) (es : List (Nat × Nat × L)) :
    vcount (es.map (relab labelled l0)) = vcount es := by
  simp only [vcount]
  generalize 0 = k
  induction es generalizing k with
  | nil => rfl
  | cons e es ih => simp only [List.map_cons, vcountFrom, List.foldl_cons] at ih ⊢; exact ih _

/-- rebuilding from any list with the pairs of `g`'s enumeration and labels that the class stores
as `g`'s labels gives `g`'s denotation (on `1 + largest index` vertices) -/
theorem absD_rebuilt' (g : G L) (hg : Inv g) (es : List (LEdge L))
    (hpairs : es.map (fun e => (e.1, e.2.1)) = g.edgeSeq)
    (hlab : ∀ e ∈ es, normLabel g.labelled e.2.2 = g.labD (e.1, e.2.1)) :
    absD ((G.new g.labelled (vcount es) : G L).addAll es) = ⟨vcount es, (absD g).lab⟩ := by
  have hmem : ∀ x y, (∃ e ∈ es, e.1 = x ∧ e.2.1 = y) ↔ g.hasEdgeRaw x y = true := by
    intro x y
    rw [← mem_edgeSeq_iff g hg (x, y), ← hpairs, List.mem_map]
    constructor
    · rintro ⟨e, he, rfl, rfl⟩; exact ⟨e, he, rfl⟩
    · rintro ⟨e, he, heq⟩
      exact ⟨e, he, (Prod.mk.inj heq).1, (Prod.mk.inj heq).2⟩
  rw [absD_addAll _ (inv_new _ _)]
  · apply AG.ext'
    · rw [AG.addAll_n]; rfl
    · intro x y
      rw [AG.addAll_lab, absD_new_lab]
      simp only
      rw [firstLabel_of_fun _ (fun a b => g.labD (a, b))]
      · have hex : (∃ e ∈ es.map (fun e => ((e.1, e.2.1, normLabel (G.new g.labelled (vcount es) : G L).labelled e.2.2) : LEdge L)),
            e.1 = x ∧ e.2.1 = y) ↔ g.hasEdgeRaw x y = true := by
          rw [← hmem x y]
          simp only [List.mem_map]
          constructor
          · rintro ⟨e, ⟨e', he', rfl⟩, h1, h2⟩; exact ⟨e', he', h1, h2⟩
          · rintro ⟨e, he, h1, h2⟩; exact ⟨_, ⟨e, he, rfl⟩, h1, h2⟩
        by_cases he : g.hasEdgeRaw x y = true
        · rw [if_pos (hex.2 he)]; simp [absD, he]
        · rw [if_neg (fun hh => he (hex.1 hh))]; simp [absD, he]
      · intro e he
        simp only [List.mem_map] at he
        obtain ⟨e', he', rfl⟩ := he
        exact hlab e' he'
  · intro e he
    exact vcountFrom_gt 0 _ e he

/-- **C13 (directed graphs).** -/
theorem C13_dir_roundtrip (tc : TextCodec L) (l0 : L) (h0 : tc.ofStr [] = .ok l0)
    (g : G L) (hg : Inv g) (h31 : g.size ≤ 2147483648) :
    ∃ bytes r names, writeTextGraph false g tc.toStr = .ok bytes ∧
      loadText false false g.labelled tc.ofStr bytes = .ok (r, names) ∧
      r.size = vcount g.lblEdges ∧ r.size ≤ g.size ∧
      absD (r.grow g.size) = absD g := by
  have hw : writeTextGraph false g tc.toStr = .ok (writeText g.labelled tc.toStr g.lblEdges) := by
    simp only [writeTextGraph, edgesWithLabels_dir g hg, Res.map]
  have hok : ∀ e ∈ g.lblEdges, e.1 ≤ 2147483647 ∧ e.2.1 ≤ 2147483647 := by
    intro e he
    have := hg.hasEdgeRaw_lt (lblEdges_mem g hg e he).1
    exact ⟨by omega, by omega⟩
  obtain ⟨names, hload⟩ := loadText_writeText false g.labelled tc l0 h0 g.lblEdges hok
  have hvc := vcount_relab g.labelled l0 g.lblEdges
  have hpairs : (g.lblEdges.map (relab g.labelled l0)).map (fun e => (e.1, e.2.1)) = g.edgeSeq := by
    simp only [lblEdges, List.map_map]
    exact List.map_id' _
  have hvle : vcount g.lblEdges ≤ g.size :=
    vcountFrom_le 0 g.size _ (Nat.zero_le _) (fun e he => hg.hasEdgeRaw_lt (lblEdges_mem g hg e he).1)
  have heq : addOnly (if false = true then uAddF else addF) (G.new g.labelled (vcount (g.lblEdges.map (relab g.labelled l0))))
      (g.lblEdges.map (relab g.labelled l0))
      = (G.new g.labelled (vcount (g.lblEdges.map (relab g.labelled l0))) : G L).addAll (g.lblEdges.map (relab g.labelled l0)) := by
    show (G.new g.labelled _ : G L).addAllF _ = _
    apply addAllF_eq _ (inv_new _ _)
    · intro e he; exact vcountFrom_gt 0 _ e he
    · rw [hpairs, ← dEdges_eq g hg.len]; exact C08_dEdges_nodup g hg
    · intro e _
      simp only [hasEdgeRaw]; rw [nb_new]; rfl
  rw [heq] at hload
  have hrs : ((G.new g.labelled (vcount (g.lblEdges.map (relab g.labelled l0))) : G L).addAll (g.lblEdges.map (relab g.labelled l0))).size
      = vcount g.lblEdges := by
    rw [addAll_size, ← hvc]; rfl
  refine ⟨_, _, names, hw, hload, hrs, by rw [hrs]; exact hvle, ?_⟩
  show absD (G.resize _ g.size).1 = _
  rw [absD_resize _ _ (by rw [hrs]; exact hvle), absD_rebuilt' g hg _ hpairs]
  · rfl
  · intro e he
    simp only [List.mem_map] at he
    obtain ⟨e', he', rfl⟩ := he
    have hl := (lblEdges_mem g hg e' he').2
    simp only [relab, normLabel, labD_eq] at hl ⊢
    by_cases hlb : g.labelled = true
    · simp only [hlb, if_true] at hl ⊢; exact hl
    · have hlb : g.labelled = false := by simpa using hlb
      simp [hlb]

end BGV

namespace BGV
open G FIO
variable {L : Type} [Inhabited L]

/-- rebuilding an undirected graph from any list with the pairs of its enumeration (one per
unordered pair, `i ≤ j`) and its stored labels gives its denotation -/
theorem absU_rebuilt' (g : G L) (hg : UInv g) (es : List (LEdge L))
    (hpairs : es.map (fun e => (e.1, e.2.1)) = g.uEdges)
    (hlab : ∀ e ∈ es, (if g.labelled = true then e.2.2 else default) = g.labD (ordered e.1 e.2.1)) :
    addOnly uAddF (G.new g.labelled (vcount es) : G L) es = uRun (G.new g.labelled (vcount es) : G L) (addOps es) ∧
    absU (uRun (G.new g.labelled (vcount es) : G L) (addOps es)) = ⟨vcount es, (absU g).lab⟩ := by
  have hmemE : ∀ e ∈ es, (e.1, e.2.1) ∈ g.uEdges := by
    intro e he; rw [← hpairs]; exact List.mem_map.2 ⟨e, he, rfl⟩
  have hmem : ∀ x y, (x, y) ∈ g.uEdges → ∃ e ∈ es, e.1 = x ∧ e.2.1 = y := by
    intro x y hxy
    rw [← hpairs, List.mem_map] at hxy
    obtain ⟨e, he, heq⟩ := hxy
    exact ⟨e, he, (Prod.mk.inj heq).1, (Prod.mk.inj heq).2⟩
  have hvalid : AG.ValidFrom (L := L) (vcount es) (addOps es) :=
    validFrom_addOps _ _ (fun e he => vcountFrom_gt 0 _ e he)
  have hsymm : ∀ a b, g.hasEdgeRaw b a = g.hasEdgeRaw a b := by
    intro a b
    rw [Bool.eq_iff_iff, hasEdgeRaw_iff_mem, hasEdgeRaw_iff_mem]; exact (hg.sym a b).symm
  constructor
  · rw [uRun_addOps]
    apply uAddAllF_eq _ (uinv_new _ _)
    · intro e he; exact vcountFrom_gt 0 _ e he
    · have : es.map (fun e => ordered e.1 e.2.1) = g.uEdges := by
        rw [← hpairs]
        apply List.map_congr_left
        intro e he
        exact ordered_of_le ((C08_mem_uEdges g hg e.1 e.2.1).1 (hmemE e he)).1
      rw [this]; exact C08_uEdges_nodup g hg
    · intro e _
      simp only [hasEdgeRaw]; rw [nb_new]; rfl
  · apply AG.ext'
    · have := congrArg AG.n (C02_refines (L := L) g.labelled _ _ hvalid)
      simp only [addOps] at this
      rw [AG.uDenote_addOps, AG.uAddAll_n] at this
      exact this
    · intro x y
      rw [C02_refines (L := L) g.labelled _ _ hvalid]
      simp only [addOps]
      rw [AG.uDenote_addOps, AG.uAddAll_lab _ (by intro a b; rfl)]
      simp only [AG.empty]
      cases hfl : AG.firstLabelU (es.map (fun e => (e.1, e.2.1, if g.labelled = true then e.2.2 else default))) x y with
      | some l =>
        obtain ⟨i, j, hm, hs⟩ := firstLabelU_some hfl
        obtain ⟨e, he, heq⟩ := List.mem_map.1 hm
        have hedge := ((C08_mem_uEdges g hg e.1 e.2.1).1 (hmemE e he)).2
        simp only [Prod.mk.injEq] at heq
        obtain ⟨rfl, rfl, rfl⟩ := heq
        rw [hlab e he]
        rcases hs with ⟨rfl, rfl⟩ | ⟨rfl, rfl⟩
        · simp [absU, hedge]
        · simp [absU, hsymm _ _ ▸ hedge, ordered_comm e.2.1 e.1]
      | none =>
        by_cases he : g.hasEdgeRaw x y = true
        · exfalso
          by_cases hxy : x ≤ y
          · obtain ⟨e, hme, h1, h2⟩ := hmem x y ((C08_mem_uEdges g hg x y).2 ⟨hxy, he⟩)
            exact firstLabelU_none hfl e.1 e.2.1 _ (Or.inl ⟨h1.symm, h2.symm⟩) (List.mem_map.2 ⟨e, hme, rfl⟩)
          · obtain ⟨e, hme, h1, h2⟩ := hmem y x ((C08_mem_uEdges g hg y x).2 ⟨by omega, hsymm x y ▸ he⟩)
            exact firstLabelU_none hfl e.1 e.2.1 _ (Or.inr ⟨h2.symm, h1.symm⟩) (List.mem_map.2 ⟨e, hme, rfl⟩)
        · simp [absU, he]

/-- **C13 (undirected graphs).** -/
theorem C13_und_roundtrip (tc : TextCodec L) (l0 : L) (h0 : tc.ofStr [] = .ok l0)
    (g : G L) (hg : UInv g) (h31 : g.size ≤ 2147483648) :
    ∃ bytes r names, writeTextGraph true g tc.toStr = .ok bytes ∧
      loadText true false g.labelled tc.ofStr bytes = .ok (r, names) ∧
      r.size = vcount g.uLblEdges ∧ r.size ≤ g.size ∧
      absU (r.grow g.size) = absU g := by
  have hw : writeTextGraph true g tc.toStr = .ok (writeText g.labelled tc.toStr g.uLblEdges) := by
    simp only [writeTextGraph, edgesWithLabels_und g hg, Res.map]
  have hok : ∀ e ∈ g.uLblEdges, e.1 ≤ 2147483647 ∧ e.2.1 ≤ 2147483647 := by
    intro e he
    have := uLblEdges_range g hg e he
    exact ⟨by omega, by omega⟩
  obtain ⟨names, hload⟩ := loadText_writeText true g.labelled tc l0 h0 g.uLblEdges hok
  have hvc := vcount_relab g.labelled l0 g.uLblEdges
  have hpairs : (g.uLblEdges.map (relab g.labelled l0)).map (fun e => (e.1, e.2.1)) = g.uEdges := by
    simp only [uLblEdges, List.map_map]
    exact List.map_id' _
  have hvle : vcount g.uLblEdges ≤ g.size :=
    vcountFrom_le 0 g.size _ (Nat.zero_le _) (fun e he => uLblEdges_range g hg e he)
  obtain ⟨h1, h2⟩ := absU_rebuilt' g hg (g.uLblEdges.map (relab g.labelled l0)) hpairs (by
    intro e he
    simp only [List.mem_map] at he
    obtain ⟨e', he', rfl⟩ := he
    have hl := (uLblEdges_mem g hg e' he').2.2
    simp only [relab, labD_eq] at hl ⊢
    by_cases hlb : g.labelled = true
    · simp only [hlb, if_true] at hl ⊢; exact hl
    · have hlb : g.labelled = false := by simpa using hlb
      simp [hlb])
  simp only [if_true] at hload
  rw [h1] at hload
  have hrs : (uRun (G.new g.labelled (vcount (g.uLblEdges.map (relab g.labelled l0))) : G L)
      (addOps (g.uLblEdges.map (relab g.labelled l0)))).size = vcount g.uLblEdges := by
    have := congrArg AG.n h2
    simp only [absU] at this
    rw [this, hvc]
  refine ⟨_, _, names, hw, hload, hrs, by rw [hrs]; exact hvle, ?_⟩
  show absU (G.resize _ g.size).1 = _
  rw [absU_resize _ _ (by rw [hrs]; exact hvle), h2]
  rfl

end BGV
