import BGV.Algo.DijCorrect
/-!
# Property C12 — Dijkstra returns true minimum weighted distances and a consistent tree

`DijRun.run wt adj pops (init n s)` is the model of `findGeodesicsDijkstra`: the worklist loop
replaying the pop order `pops` observed on the implementation.  The theorem holds for **every**
pop sequence the model accepts (each popped vertex is in the worklist, the worklist is empty at the
end) — so it does not depend on how the heap breaks ties, nor even on the heap being a heap — for
every adjacency structure with valid entries, every non-negative weight function (`Nat`, quarter
units: the exact-arithmetic reading; floating-point rounding is not modelled) and every source.
`WalkW adj wt s v k`: a walk from `s` to `v` of total weight `k`.
-/
namespace BGV
open Dij Bfs

/-- **C12.** Distances are minimum walk weights (0 for the source, `none` = +∞ exactly for the
unreachable vertices); for every reached `v ≠ s` the predecessor `p` is joined to `v` by an edge and
`dist v = dist p + weight(p,v)`; the source is its own predecessor; unreachable vertices carry the
predecessor sentinel. -/
theorem C12_dijkstra_correct (adj : Adj) (wt : Nat → Nat → Nat) (s : Nat) (pops : List Nat)
    (hwf : WF adj) (hs : s < adj.length) (r : DS × Bool)
    (hr : DijRun.run wt adj pops (DijRun.init adj.length s) true = some r) :
    (∀ v k, WalkW adj wt s v k → ∃ dv, r.1.d v = some dv ∧ dv ≤ k) ∧
    (∀ v dv, r.1.d v = some dv → WalkW adj wt s v dv) ∧
    (r.1.d s = some 0 ∧ r.1.p s = s) ∧
    (∀ v dv, v ≠ s → r.1.d v = some dv →
      ∃ dp, r.1.d (r.1.p v) = some dp ∧ v ∈ nbrs adj (r.1.p v) ∧ dv = dp + wt (r.1.p v) v) ∧
    (∀ v, (¬ ∃ k, WalkW adj wt s v k) → r.1.d v = none ∧ r.1.p v = MAX) := by
  obtain ⟨hinv, hw⟩ := run_inv hwf pops _ true r (init_inv adj wt s hs) hr
  have hlow : ∀ v k, WalkW adj wt s v k → ∃ dv, r.1.d v = some dv ∧ dv ≤ k := by
    intro v k hwalk
    induction hwalk with
    | nil => exact ⟨0, hinv.src, Nat.le_refl 0⟩
    | snoc _ hmem ih =>
      obtain ⟨du, hdu, hle⟩ := ih
      obtain ⟨dw, hdw, hle2⟩ := hinv.closed _ du hdu (by rw [hw]; simp) _ hmem
      exact ⟨dw, hdw, by omega⟩
  refine ⟨hlow, hinv.real, ⟨hinv.src, hinv.predS⟩, ?_, ?_⟩
  · intro v dv hvs hdv
    obtain ⟨dp, hdp, hmem, hle⟩ := hinv.pred v dv hvs hdv
    obtain ⟨dv', hdv', hle'⟩ := hinv.closed _ dp hdp (by rw [hw]; simp) v hmem
    rw [hdv] at hdv'; injection hdv' with hdv'; subst hdv'
    exact ⟨dp, hdp, hmem, by omega⟩
  · intro v hnw
    have hnone : r.1.d v = none := by
      cases hd : r.1.d v with
      | none => rfl
      | some k => exact absurd ⟨k, hinv.real v k hd⟩ hnw
    exact ⟨hnone, hinv.unreached v hnone⟩

/-- the two clauses together: the reported distance is *the* minimum -/
theorem C12_distance_is_minimum (adj : Adj) (wt : Nat → Nat → Nat) (s : Nat) (pops : List Nat)
    (hwf : WF adj) (hs : s < adj.length) (r : DS × Bool)
    (hr : DijRun.run wt adj pops (DijRun.init adj.length s) true = some r) (v dv : Nat)
    (hdv : r.1.d v = some dv) :
    WalkW adj wt s v dv ∧ ∀ k, WalkW adj wt s v k → dv ≤ k := by
  obtain ⟨h1, h2, _⟩ := C12_dijkstra_correct adj wt s pops hwf hs r hr
  refine ⟨h2 v dv hdv, ?_⟩
  intro k hk
  obtain ⟨dv', hdv', hle⟩ := h1 v k hk
  rw [hdv] at hdv'; injection hdv' with e; omega

/-- the public entry point: out-of-range source ⇒ `out_of_range` -/
theorem C12_entry (und : Bool) (w : WG) (s : Nat) (pops : List Nat) (h : ¬ s < w.g.size) :
    findGeodesicsDijkstra und w s pops = .threw .oor := by
  simp [findGeodesicsDijkstra, h]

example : (DijRun.run (fun u v => if (u, v) = (0, 1) then 4 else if (u, v) = (1, 2) then 4 else 8)
    [[1, 2], [2], []] [0, 1, 2] (DijRun.init 3 0) true).map (fun r => (r.1.dist, r.1.pred, r.2))
    = some ([some 0, some 4, some 8], [0, 0, 0], true) := by decide

end BGV
