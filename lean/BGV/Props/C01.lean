import BGV.Proofs.RefineD
/-!
# Property C01 — a directed graph is a faithful set of ordered vertex pairs

Statements only (helper lemmas live in BGV/Proofs).  `G.dStep`/`G.dRun` is the model of the
public mutators with `force = false` (BGV/Model/Graph.lean, tied to the C++ by the correspondence
check); `AG.dDenote` is the graph a history denotes (BGV/Spec/AGraph.lean).
All theorems hold for every label type `L`, for `labelled = false` (NoLabel) and `true`,
for every number of vertices and every finite history.
-/
set_option linter.unusedSectionVars false
namespace BGV
open G
variable {L : Type} [Inhabited L]

/-- Every reachable state satisfies the representation invariant (any calls, valid or not). -/
theorem C01_inv_reachable (labelled : Bool) (n : Nat) (ops : List (SOp L)) :
    Inv (dRun (G.new labelled n : G L) ops) := by
  suffices h : ∀ (g : G L), Inv g → Inv (dRun g ops) from h _ (inv_new labelled n)
  induction ops with
  | nil => intro g hg; exact hg
  | cons op ops ih => intro g hg; exact ih _ (inv_dStep g hg op)

theorem dRun_refines (g : G L) (hg : Inv g) (ops : List (SOp L)) (hv : AG.ValidFrom g.size ops) :
    absD (dRun g ops) = AG.dDenote g.labelled (absD g) ops := by
  induction ops generalizing g with
  | nil => rfl
  | cons op ops ih =>
    obtain ⟨hv1, hv2⟩ := hv
    have hs := dStep_size g hg op hv1
    have := ih (g.dStep op).1 (inv_dStep g hg op) (by rw [hs]; exact hv2)
    simp only [dRun, AG.dDenote, List.foldl_cons] at this ⊢
    rw [this, absD_dStep g hg op hv1, dStep_labelled]

/-- **C01 (refinement).** After any valid history, the model state stands for exactly the graph
the history denotes: same vertex count, an ordered pair is an edge iff it was added and not
since removed, and it carries the label the history gives it. -/
theorem C01_refines (labelled : Bool) (n : Nat) (ops : List (SOp L)) (hv : AG.ValidFrom n ops) :
    absD (dRun (G.new labelled n : G L) ops) = AG.dDenote labelled (AG.empty n) ops := by
  have h := dRun_refines (G.new labelled n : G L) (inv_new labelled n) ops hv
  rw [h]
  congr 1
  apply AG.ext'
  · rfl
  · intro x y
    have : (G.new labelled n : G L).hasEdgeRaw x y = false := by
      simp only [hasEdgeRaw]; rw [nb_new]; rfl
    simp [absD, AG.empty, this]

/-- `hasEdge(i,j)` answers membership in the denoted edge set. -/
theorem C01_hasEdge (g : G L) (i j : Nat) (hi : i < g.size) (hj : j < g.size) :
    g.dHasEdge i j = .ok ((absD g).hasEdge i j) := by
  simp only [dHasEdge, inR, hi, hj, decide_true, Bool.and_self, if_true, absD, AG.hasEdge]
  by_cases he : g.hasEdgeRaw i j = true
  · simp [he]
  · have he : g.hasEdgeRaw i j = false := by simpa using he
    simp [he]

/-- `getOutNeighbours(i)` lists each successor of `i` exactly once. -/
theorem C01_outNeighbours (g : G L) (hg : Inv g) (i : Nat) (hi : i < g.size) :
    ∃ l, g.getOutNeighbours i = .ok l ∧ l.Nodup ∧ ∀ j, j ∈ l ↔ (absD g).hasEdge i j = true := by
  refine ⟨g.nb i, by simp [getOutNeighbours, inR, hi], hg.nodup i, ?_⟩
  intro j
  simp only [absD, AG.hasEdge]
  by_cases he : g.hasEdgeRaw i j = true
  · simp only [he, if_true, Option.isSome_some, iff_true]
    simpa [hasEdgeRaw] using he
  · have he' : g.hasEdgeRaw i j = false := by simpa using he
    simp only [he', Bool.false_eq_true, if_false, Option.isSome_none, iff_false]
    simpa [hasEdgeRaw] using he'

/-- number of successors of `i` in the denoted graph, counted over the vertex range -/
def AG.outCount {L : Type} (a : AG L) (i : Nat) : Nat :=
  ((List.range a.n).filter (fun j => a.hasEdge i j)).length

/-- `getOutDegree(i)` is the number of successors. -/
theorem C01_outDegree (g : G L) (hg : Inv g) (i : Nat) (hi : i < g.size) :
    g.dGetOutDegree i = .ok ((absD g).outCount i) := by
  simp only [dGetOutDegree, inR, hi, decide_true, if_true, AG.outCount]
  congr 1
  rw [nodup_length_eq_filter_range (g.nb i) g.size (hg.nodup i) (hg.bound i)]
  congr 1
  apply List.filter_congr
  intro j _
  simp only [absD, AG.hasEdge, hasEdgeRaw, List.contains_eq_mem]
  by_cases hm : j ∈ g.nb i <;> simp [hm]

theorem sumLen_eq_sum_range (g : G L) (hg : Inv g) :
    g.sumLen = ((List.range g.size).map (fun i => (g.nb i).length)).sum := by
  simp only [sumLen, nb]
  rw [← hg.len]
  generalize g.adj = a
  induction a with
  | nil => simp
  | cons x xs ih =>
    rw [List.length_cons, List.range_succ_eq_map]
    simp only [List.map_cons, List.sum_cons, List.map_map, List.getD_cons_zero]
    rw [ih]
    congr 1

/-- `getEdgeNumber()` is the number of ordered pairs that are edges. -/
theorem C01_edgeNumber (g : G L) (hg : Inv g) :
    g.edgeNumber = ((List.range g.size).map (fun i => (absD g).outCount i)).sum := by
  rw [hg.count, sumLen_eq_sum_range g hg]
  congr 1
  apply List.map_congr_left
  intro i hi
  have hi' : i < g.size := by simpa using hi
  have := C01_outDegree g hg i hi'
  simp only [dGetOutDegree, inR, hi', decide_true, if_true] at this
  injection this

/-- Re-adding an existing edge changes nothing at all (state and label store included). -/
theorem C01_readd_noop (g : G L) (i j : Nat) (l : L) (hi : i < g.size) (hj : j < g.size)
    (he : (absD g).hasEdge i j = true) : g.dStep (.addEdge i j l) = (g, .ok ()) := by
  have : g.hasEdgeRaw i j = true := by
    simp only [absD, AG.hasEdge] at he
    by_cases h : g.hasEdgeRaw i j = true
    · exact h
    · have h' : g.hasEdgeRaw i j = false := by simpa using h
      simp [h'] at he
  exact dAddEdge_present g i j l hi hj this

/-- Removing an absent edge leaves the denoted graph, the edge count and every neighbour list as
they were. -/
theorem C01_remove_absent_noop (g : G L) (hg : Inv g) (i j : Nat) (hi : i < g.size) (hj : j < g.size)
    (he : (absD g).hasEdge i j = false) :
    absD (g.dStep (.removeEdge i j)).1 = absD g ∧ (g.dStep (.removeEdge i j)).1.edgeNumber = g.edgeNumber
      ∧ ∀ k, (g.dStep (.removeEdge i j)).1.nb k = g.nb k := by
  have hraw : g.hasEdgeRaw i j = false := by
    simp only [absD, AG.hasEdge] at he
    by_cases h : g.hasEdgeRaw i j = true
    · simp [h] at he
    · simpa using h
  have hnm : j ∉ g.nb i := by simpa [hasEdgeRaw] using hraw
  have hfil : (g.nb i).filter (· != j) = g.nb i := by
    apply List.filter_eq_self.2
    intro a ha; simp; intro e; subst e; exact hnm ha
  have hstep : (g.dStep (.removeEdge i j)).1 = g.dRemoveEdgeCore i j := by
    simp [dStep, dRemoveEdge, inR, hi, hj]
  rw [hstep]
  refine ⟨?_, ?_, ?_⟩
  · rw [absD_dRemoveEdgeCore]
    apply AG.ext'
    · rfl
    · intro x y
      simp only [AG.remove]
      by_cases hxy : x = i ∧ y = j
      · obtain ⟨rfl, rfl⟩ := hxy
        simp only [and_self, if_true, absD, hraw]; simp
      · simp [hxy]
  · simp only [dRemoveEdgeCore, withLabels_en, withEN_en]
    rw [nb_remove]; simp [hfil]
  · intro k
    rw [nb_dRemoveEdgeCore]
    by_cases hik : i = k
    · subst hik; simp [hfil]
    · simp [hik]

/-- `resize` keeps every edge and label; vertices outside the old range have no edges. -/
theorem C01_resize_keeps (g : G L) (hg : Inv g) (m : Nat) (hm : g.size ≤ m) :
    absD (g.dStep (.resize m)).1 = ⟨m, (absD g).lab⟩ ∧
    ∀ x y, (g.size ≤ x ∨ g.size ≤ y) → (absD g).lab x y = none := by
  refine ⟨absD_resize g m hm, ?_⟩
  intro x y hxy
  simp only [absD]
  by_cases he : g.hasEdgeRaw x y = true
  · have := hg.hasEdgeRaw_lt he; omega
  · have he' : g.hasEdgeRaw x y = false := by simpa using he
    simp [he']

/-! ### the hypotheses are satisfiable: a concrete history mixing all seven mutators -/
example : AG.ValidFrom (L := Nat) 3
    [.addEdge 0 1 7, .addReciprocalEdge 1 2 5, .addEdge 2 2 9, .removeEdge 1 2, .removeSelfLoops,
     .resize 4, .addEdge 3 0 1, .removeVertexFromEdgeList 0, .clearEdges] := by
  simp [AG.ValidFrom, SOp.valid, SOp.newSize]

example : (absD (dRun (G.new true 3 : G Nat)
    [.addEdge 0 1 7, .addReciprocalEdge 1 2 5, .addEdge 2 2 9, .removeEdge 1 2, .removeSelfLoops,
     .resize 4, .addEdge 3 0 1])).lab 2 1 = some 5 := by decide

end BGV
