import BGV.Props.C08
import BGV.Props.C02
import BGV.Props.C04
import BGV.Props.C06
/-!
# Properties C01 / C02 — in-degrees and adjacency matrices are the matching counts
-/
set_option linter.unusedSectionVars false
namespace BGV
open G
variable {L : Type} [Inhabited L]

def getM (m : List (List Nat)) (a b : Nat) : Nat := (m.getD a []).getD b 0

/-- an `n × n` matrix -/
def Square (n : Nat) (m : List (List Nat)) : Prop := m.length = n ∧ ∀ r ∈ m, r.length = n

theorem square_zero (n : Nat) : Square n (zeroMatrix n) := by
  refine ⟨by simp [zeroMatrix], ?_⟩
  intro r hr
  simp only [zeroMatrix, List.mem_replicate] at hr
  rw [hr.2]; simp

theorem getM_zero (n a b : Nat) : getM (zeroMatrix n) a b = 0 := by
  simp only [getM, zeroMatrix, List.getD_eq_getElem?_getD, List.getElem?_replicate]
  by_cases ha : a < n
  · simp only [ha, if_true, Option.getD_some, List.getElem?_replicate]
    split <;> rfl
  · simp [ha]

theorem getD_modify_nat (l : List Nat) (i j : Nat) (f : Nat → Nat) :
    (l.modify i f).getD j 0 = if i = j ∧ i < l.length then f (l.getD j 0) else l.getD j 0 := by
  simp only [List.getD_eq_getElem?_getD, List.getElem?_modify]
  by_cases h : i = j
  · subst h
    by_cases h2 : i < l.length
    · simp [h2]
    · have : l[i]? = none := by simp; omega
      simp [h2, this]
  · simp [h]

theorem bump2_spec (n : Nat) (m : List (List Nat)) (hm : Square n m) (i j k : Nat) (hi : i < n) (hj : j < n) :
    Square n (bump2 m i j k) ∧ ∀ a b, getM (bump2 m i j k) a b = getM m a b + (if a = i ∧ b = j then k else 0) := by
  constructor
  · refine ⟨by simp [bump2, hm.1], ?_⟩
    intro r hr
    simp only [bump2] at hr
    obtain ⟨idx, hidx, rfl⟩ := List.getElem_of_mem hr
    simp only [List.getElem_modify]
    split
    · simp only [bump, List.length_modify]
      exact hm.2 _ (List.getElem_mem _)
    · exact hm.2 _ (List.getElem_mem _)
  · intro a b
    simp only [getM, bump2]
    have hrow : (m.modify i (fun r => bump r j k)).getD a [] = if i = a then bump (m.getD a []) j k else m.getD a [] := by
      simp only [List.getD_eq_getElem?_getD, List.getElem?_modify]
      by_cases h : i = a
      · subst h
        have : i < m.length := by rw [hm.1]; exact hi
        simp [this]
      · simp [h]
    rw [hrow]
    by_cases hia : i = a
    · subst hia
      simp only [if_true, bump]
      rw [getD_modify_nat]
      have hlen : (m.getD i []).length = n := by
        have : i < m.length := by rw [hm.1]; exact hi
        have hmem : m.getD i [] ∈ m := by
          simp only [List.getD_eq_getElem?_getD, this, List.getElem?_eq_getElem, Option.getD_some]
          exact List.getElem_mem _
        exact hm.2 _ hmem
      have hjl : j < (m.getD i []).length := by rw [hlen]; exact hj
      by_cases hjb : j = b
      · subst hjb
        rw [if_pos ⟨rfl, hjl⟩]; simp
      · have hbj : ¬ b = j := fun e => hjb e.symm
        rw [if_neg (fun hh => hjb hh.1), if_neg (fun hh => hbj hh.2)]; rfl
    · have : ¬ a = i := fun e => hia e.symm
      simp [hia, this]

theorem foldl_bump2 (n : Nat) (es : List Edge) (w : Edge → Nat) (hes : ∀ e ∈ es, e.1 < n ∧ e.2 < n)
    (m : List (List Nat)) (hm : Square n m) :
    Square n (es.foldl (fun m e => bump2 m e.1 e.2 (w e)) m) ∧
    ∀ a b, getM (es.foldl (fun m e => bump2 m e.1 e.2 (w e)) m) a b
      = getM m a b + ((es.filter (fun e => e.1 == a && e.2 == b)).map w).sum := by
  induction es generalizing m with
  | nil => exact ⟨hm, fun a b => by simp⟩
  | cons e es ih =>
    obtain ⟨h1, h2⟩ := bump2_spec n m hm e.1 e.2 (w e) (hes e (by simp)).1 (hes e (by simp)).2
    obtain ⟨i1, i2⟩ := ih (fun x hx => hes x (by simp [hx])) _ h1
    refine ⟨i1, ?_⟩
    intro a b
    simp only [List.foldl_cons]
    rw [i2, h2]
    by_cases hc : a = e.1 ∧ b = e.2
    · obtain ⟨rfl, rfl⟩ := hc
      simp [List.filter_cons]; omega
    · have : (e.1 == a && e.2 == b) = false := by
        simp only [Bool.and_eq_false_iff, beq_eq_false_iff_ne]
        by_cases h1 : e.1 = a
        · right; intro h2; exact hc ⟨h1.symm, h2.symm⟩
        · left; exact h1
      simp [List.filter_cons, this, hc]

theorem filter_eq_length_nodup (l : List Nat) (v : Nat) (hn : l.Nodup) :
    (l.filter (fun j => j == v)).length = if v ∈ l then 1 else 0 := by
  induction l with
  | nil => simp
  | cons a l ih =>
    have hn' := List.nodup_cons.1 hn
    simp only [List.filter_cons]
    by_cases hav : a = v
    · subst hav
      have : a ∉ l := hn'.1
      simp [ih hn'.2, this]
    · have hb : (a == v) = false := by simpa using hav
      have hne : ¬ v = a := fun e => hav e.symm
      simp [hb, ih hn'.2, hne]

theorem filter_pair_nodup (es : List Edge) (hn : es.Nodup) (a b : Nat) :
    (es.filter (fun e => e.1 == a && e.2 == b)).length = if (a, b) ∈ es then 1 else 0 := by
  induction es with
  | nil => simp
  | cons e es ih =>
    have hn' := List.nodup_cons.1 hn
    simp only [List.filter_cons]
    by_cases hc : e = (a, b)
    · subst hc
      have : (a, b) ∉ es := hn'.1
      simp [ih hn'.2, this]
    · have : (e.1 == a && e.2 == b) = false := by
        simp only [Bool.and_eq_false_iff, beq_eq_false_iff_ne]
        by_cases h1 : e.1 = a
        · right; intro h2; exact hc (Prod.ext h1 h2)
        · left; exact h1
      have hne : ¬ (a, b) = e := fun e' => hc e'.symm
      simp [this, ih hn'.2, hne]

/-- **C01: adjacency matrix.** `n × n`, entry `(i,j)` is 1 exactly when `(i,j)` is an edge. -/
theorem C01_adjacencyMatrix (g : G L) (hg : Inv g) :
    ∃ m, g.dGetAdjacencyMatrix = .ok m ∧ Square g.size m ∧
      ∀ i j, getM m i j = if g.hasEdgeRaw i j then 1 else 0 := by
  have hall := allInR_of_inv g hg
  have hes : ∀ e ∈ g.edgeSeq, e.1 < g.size ∧ e.2 < g.size := fun e he => hg.hasEdgeRaw_lt ((mem_edgeSeq_iff g hg e).1 he)
  obtain ⟨h1, h2⟩ := foldl_bump2 g.size g.edgeSeq (fun _ => 1) hes _ (square_zero g.size)
  refine ⟨_, by simp only [dGetAdjacencyMatrix, hall, if_true, dEdges_eq g hg.len], h1, ?_⟩
  intro i j
  rw [h2, getM_zero]
  have hnd : g.edgeSeq.Nodup := by rw [← dEdges_eq g hg.len]; exact C08_dEdges_nodup g hg
  have hsum : ∀ l : List Edge, (l.map (fun _ => 1)).sum = l.length := by
    intro l; induction l with
    | nil => rfl
    | cons a l ih => simp [ih]; omega
  rw [hsum, filter_pair_nodup _ hnd i j]
  have := mem_edgeSeq_iff g hg (i, j)
  by_cases he : g.hasEdgeRaw i j = true
  · simp [he, this.2 he]
  · have : (i, j) ∉ g.edgeSeq := fun hh => he (this.1 hh)
    simp [he, this]

/-- **C01: in-degree.** `getInDegree(v)` is the number of predecessors of `v`. -/
theorem C01_inDegree (g : G L) (hg : Inv g) (v : Nat) (hv : v < g.size) :
    g.dGetInDegree v = .ok ((List.range g.size).filter (fun i => g.hasEdgeRaw i v)).length := by
  simp only [dGetInDegree, inR, hv, decide_true, if_true, dEdges_eq g hg.len, edgeSeq]
  congr 1
  rw [List.filter_flatMap, List.length_flatMap]
  have : ∀ i, ((List.filter (fun e : Edge => e.2 == v) ((g.nb i).map (fun j => (i, j)))).length)
      = if g.hasEdgeRaw i v then 1 else 0 := by
    intro i
    rw [List.filter_map, List.length_map]
    have hf : List.filter ((fun e : Edge => e.2 == v) ∘ fun j => (i, j)) (g.nb i) = List.filter (fun j => j == v) (g.nb i) := rfl
    rw [hf, filter_eq_length_nodup _ v (hg.nodup i)]
    by_cases hm : v ∈ g.nb i
    · have he : g.hasEdgeRaw i v = true := by simpa [hasEdgeRaw] using hm
      simp [hm, he]
    · have he : g.hasEdgeRaw i v = false := by simpa [hasEdgeRaw] using hm
      simp [hm, he]
  simp only [this]
  induction (List.range g.size) with
  | nil => rfl
  | cons a l ih =>
    simp only [List.map_cons, List.sum_cons, List.filter_cons]
    by_cases he : g.hasEdgeRaw a v = true
    · simp [he, ih]; omega
    · have he' : g.hasEdgeRaw a v = false := by simpa using he
      simp [he', ih]

end BGV

namespace BGV
open G
variable {L : Type} [Inhabited L]

theorem nested_fold_eq (g : G L) (f : List (List Nat) → Nat → Nat → List (List Nat)) (is : List Nat) (m : List (List Nat)) :
    is.foldl (fun m i => (g.nb i).foldl (fun m j => f m i j) m) m
      = (is.flatMap (fun i => (g.nb i).map (fun j => (i, j)))).foldl (fun m e => f m e.1 e.2) m := by
  induction is generalizing m with
  | nil => rfl
  | cons i is ih =>
    simp only [List.foldl_cons, List.flatMap_cons, List.foldl_append, List.foldl_map]
    exact ih _

/-- **C02: adjacency matrix.** symmetric, entry `(i,j)` is 1 exactly when `{i,j}` is an edge, and a
self-loop shows 2 on the diagonal by default, 1 on request. -/
theorem C02_adjacencyMatrix (g : G L) (hg : UInv g) (twice : Bool) :
    ∃ m, g.uGetAdjacencyMatrix twice = .ok m ∧ Square g.size m ∧
      (∀ i j, getM m i j = if g.hasEdgeRaw i j then (if i = j ∧ twice = true then 2 else 1) else 0) ∧
      (∀ i j, getM m i j = getM m j i) := by
  have hall : g.allInR = true := by
    simp only [allInR, List.all_eq_true, decide_eq_true_eq]
    intro l hl j hj
    obtain ⟨i, hi, rfl⟩ := List.getElem_of_mem hl
    have : g.nb i = g.adj[i] := by simp [nb, List.getD_eq_getElem?_getD, hi]
    exact hg.base.bound i j (by rw [this]; exact hj)
  have hmemE : ∀ e, e ∈ g.edgeSeq ↔ g.hasEdgeRaw e.1 e.2 = true := by
    intro e; obtain ⟨a, b⟩ := e
    rw [mem_edgeSeq g hg.base.len, mem_nb_iff]
  have hes : ∀ e ∈ g.edgeSeq, e.1 < g.size ∧ e.2 < g.size := by
    intro e he
    have hm : e.2 ∈ g.nb e.1 := (mem_nb_iff g _ _).2 ((hmemE e).1 he)
    exact ⟨hg.base.bound _ _ ((hg.sym _ _).1 hm), hg.base.bound _ _ hm⟩
  obtain ⟨h1, h2⟩ := foldl_bump2 g.size g.edgeSeq (fun e => if e.1 == e.2 && twice then 2 else 1) hes _ (square_zero g.size)
  have hrun : g.uGetAdjacencyMatrix twice = .ok (g.edgeSeq.foldl (fun m e => bump2 m e.1 e.2 (if e.1 == e.2 && twice then 2 else 1)) (zeroMatrix g.size)) := by
    simp only [uGetAdjacencyMatrix, hall, if_true]
    congr 1
    exact nested_fold_eq g (fun m i j => bump2 m i j (if i == j && twice then 2 else 1)) (List.range g.size) (zeroMatrix g.size)
  have hval : ∀ i j, getM (g.edgeSeq.foldl (fun m e => bump2 m e.1 e.2 (if e.1 == e.2 && twice then 2 else 1)) (zeroMatrix g.size)) i j
      = if g.hasEdgeRaw i j then (if i = j ∧ twice = true then 2 else 1) else 0 := by
    intro i j
    rw [h2, getM_zero]
    have hnd : g.edgeSeq.Nodup := by
      simp only [edgeSeq, List.Nodup]
      rw [List.pairwise_flatMap]
      constructor
      · intro a _
        rw [List.pairwise_map]
        exact (hg.base.nodup a).imp (fun hne h => hne (Prod.mk.inj h).2)
      · have := List.nodup_range (n := g.size)
        refine this.imp ?_
        intro a b hab x hx y hy hxy
        simp only [List.mem_map] at hx hy
        obtain ⟨_, _, rfl⟩ := hx
        obtain ⟨_, _, rfl⟩ := hy
        exact hab (Prod.mk.inj hxy).1
    have hconst : ((g.edgeSeq.filter (fun e => e.1 == i && e.2 == j)).map (fun e => if e.1 == e.2 && twice then 2 else 1)).sum
        = (g.edgeSeq.filter (fun e => e.1 == i && e.2 == j)).length * (if i = j ∧ twice = true then 2 else 1) := by
      generalize hfl : g.edgeSeq.filter (fun e => e.1 == i && e.2 == j) = fl
      have hall' : ∀ e ∈ fl, e = (i, j) := by
        intro e he; rw [← hfl] at he
        have := (List.mem_filter.1 he).2
        simp only [Bool.and_eq_true, beq_iff_eq] at this
        exact Prod.ext this.1 this.2
      clear hfl
      induction fl with
      | nil => simp
      | cons a l ih =>
        have ha := hall' a (by simp)
        subst ha
        simp only [List.map_cons, List.sum_cons, List.length_cons, ih (fun e he => hall' e (by simp [he]))]
        by_cases hij : i = j
        · subst hij; cases twice <;> simp [Nat.succ_mul] <;> omega
        · have : (i == j) = false := by simpa using hij
          simp [this, hij, Nat.succ_mul]; omega
    rw [hconst, filter_pair_nodup _ hnd i j]
    by_cases he : g.hasEdgeRaw i j = true
    · simp [he, (hmemE (i, j)).2 he]
    · have : (i, j) ∉ g.edgeSeq := fun hh => he ((hmemE (i, j)).1 hh)
      simp [he, this]
  refine ⟨_, hrun, h1, hval, ?_⟩
  intro i j
  rw [hval, hval]
  have hsym : g.hasEdgeRaw j i = g.hasEdgeRaw i j := by
    rw [Bool.eq_iff_iff, hasEdgeRaw_iff_mem, hasEdgeRaw_iff_mem]; exact (hg.sym i j).symm
  rw [hsym]
  by_cases hij : i = j
  · subst hij; rfl
  · have : ¬ j = i := fun e => hij e.symm
    simp [hij, this]

example : (uGetAdjacencyMatrix (uRun (G.new false 3 : G Nat) [.addEdge 0 1 0, .addEdge 2 2 0]) true) = .ok [[0, 1, 0], [1, 0, 0], [0, 0, 2]] := by decide

end BGV

namespace BGV
open G
variable {L : Type} [Inhabited L]

theorem foldl_bump (n : Nat) (es : List Edge) (hes : ∀ e ∈ es, e.2 < n) (acc : List Nat) (hacc : acc.length = n) :
    (es.foldl (fun acc e => bump acc e.2 1) acc).length = n ∧
    ∀ v, (es.foldl (fun acc e => bump acc e.2 1) acc).getD v 0 = acc.getD v 0 + (es.filter (fun e => e.2 == v)).length := by
  induction es generalizing acc with
  | nil => exact ⟨hacc, fun v => by simp⟩
  | cons e es ih =>
    have he := hes e (by simp)
    have hlen : (bump acc e.2 1).length = n := by simp [bump, hacc]
    obtain ⟨i1, i2⟩ := ih (fun x hx => hes x (by simp [hx])) _ hlen
    refine ⟨i1, ?_⟩
    intro v
    simp only [List.foldl_cons]
    rw [i2, bump, getD_modify_nat]
    by_cases hv : e.2 = v
    · subst hv
      simp [List.filter_cons, hacc, he]; omega
    · have : (e.2 == v) = false := by simpa using hv
      simp [List.filter_cons, this, hv]

/-- **C01: getInDegrees / getOutDegrees.** one entry per vertex, equal to `getInDegree(v)` /
`getOutDegree(v)` -/
theorem C01_degree_vectors (g : G L) (hg : Inv g) :
    (∃ l, g.dGetInDegrees = .ok l ∧ l.length = g.size ∧ ∀ v, v < g.size → g.dGetInDegree v = .ok (l.getD v 0)) ∧
    (g.dGetOutDegrees.length = g.size ∧ ∀ v, v < g.size → g.dGetOutDegree v = .ok (g.dGetOutDegrees.getD v 0)) := by
  have hall := allInR_of_inv g hg
  constructor
  · have hes : ∀ e ∈ g.dEdges, e.2 < g.size := by
      intro e he; rw [dEdges_eq g hg.len] at he
      exact (hg.hasEdgeRaw_lt ((mem_edgeSeq_iff g hg e).1 he)).2
    obtain ⟨h1, h2⟩ := foldl_bump g.size g.dEdges hes (List.replicate g.size 0) (by simp)
    refine ⟨_, by simp only [dGetInDegrees, hall, if_true], h1, ?_⟩
    intro v hv
    rw [h2]
    simp only [dGetInDegree, inR, hv, decide_true, if_true]
    congr 1
    simp [List.getD_eq_getElem?_getD, hv]
  · refine ⟨by simp [dGetOutDegrees], ?_⟩
    intro v hv
    simp [dGetOutDegree, inR, hv, dGetOutDegrees, List.getD_eq_getElem?_getD]

/-- **C02: getDegrees.** entry `v` is `getDegree(v)` -/
theorem C02_degrees (g : G L) (twice : Bool) :
    (g.uGetDegrees twice).length = g.size ∧
    ∀ v, v < g.size → g.uGetDegree v twice = .ok ((g.uGetDegrees twice).getD v 0) := by
  refine ⟨by simp [uGetDegrees], ?_⟩
  intro v hv
  simp only [uGetDegree, inR, hv, decide_true, Bool.not_true, Bool.false_eq_true, if_false, uGetDegrees,
    List.getD_eq_getElem?_getD, List.getElem?_map, List.getElem?_range hv, Option.map_some, Option.getD_some]
  cases twice <;> simp

end BGV
