import BGV.Props.C19
import BGV.Props.C11F
/-!
# Property C19 — the cost of the path-reconstruction loop itself

`pathLoop` is the `while (true)` loop of `findPathToVertexFromPredecessors`; one unit of fuel is one
iteration (one `push_front`).  The theorems below show that the number of iterations is *exactly*
the number of hops of the returned path, and that for a path rebuilt from a breadth-first search it
is smaller than the number of vertices — so `findGeodesics` does `O(V)` work on top of the search.
-/
namespace BGV
open Bfs

/-- the loop returns a path after exactly `res.length - path.length - 1` iterations: with that
fuel it returns the same path, with any smaller fuel it has not returned yet -/
theorem pathLoop_steps (pred : List Nat) (s : Nat) (fuel cur : Nat) (path res : List Nat)
    (h : pathLoop pred s fuel cur path = some (.ok res)) :
    path.length + 2 ≤ res.length ∧ res.length ≤ path.length + fuel + 1 ∧
    pathLoop pred s (res.length - path.length - 1) cur path = some (.ok res) ∧
    ∀ f, f < res.length - path.length - 1 → pathLoop pred s f cur path = none := by
  induction fuel generalizing cur path with
  | zero => simp [pathLoop] at h
  | succ n ih =>
    by_cases hm : cur = MAX
    · simp [pathLoop, hm] at h
    · cases hp : pred[cur]? with
      | none => simp [pathLoop, hm, hp] at h
      | some p =>
        by_cases hps : p = s
        · simp only [pathLoop, hm, if_false, hp, hps, if_true, Option.some.injEq, Res.ok.injEq] at h
          subst h
          refine ⟨by simp, by simp, ?_, ?_⟩
          · have : (s :: cur :: path).length - path.length - 1 = 1 := by simp only [List.length_cons]; omega
            rw [this]; simp [pathLoop, hm, hp, hps]
          · intro f hf
            have : f = 0 := by simp only [List.length_cons] at hf; omega
            subst this; rfl
        · simp only [pathLoop, hm, if_false, hp, hps] at h
          obtain ⟨i1, i2, i3, i4⟩ := ih p (cur :: path) h
          simp only [List.length_cons] at i1 i2 i3 i4
          refine ⟨by omega, by omega, ?_, ?_⟩
          · have : res.length - path.length - 1 = (res.length - (path.length + 1) - 1) + 1 := by omega
            rw [this]; simp only [pathLoop, hm, if_false, hp, hps]; exact i3
          · intro f hf
            cases f with
            | zero => rfl
            | succ f' =>
              simp only [pathLoop, hm, if_false, hp, hps]
              exact i4 f' (by omega)

/-- **C19, reconstruction loop:** whatever the predecessor array, a returned path of `k + 1`
vertices cost exactly `k` iterations (`k = 0` for `source = destination`, which does not enter the
loop). -/
theorem C19_reconstruction_steps (pred : List Nat) (s t : Nat) (res : List Nat) (hst : s ≠ t)
    (h : findPathFromPredecessors pred s t = .ok res) :
    2 ≤ res.length ∧ pathLoop pred s (res.length - 1) t [] = some (.ok res) ∧
    ∀ f, f < res.length - 1 → pathLoop pred s f t [] = none := by
  simp only [findPathFromPredecessors, hst, if_false] at h
  cases hl : pathLoop pred s (pred.length + 2) t [] with
  | none => simp [hl] at h
  | some r =>
    simp only [hl] at h
    subst h
    obtain ⟨i1, _, i3, i4⟩ := pathLoop_steps pred s _ t [] res hl
    simp only [List.length_nil, Nat.zero_add, Nat.sub_zero] at i1 i3 i4
    exact ⟨i1, i3, i4⟩

/-- **C19, findGeodesics:** the returned path never has more vertices than the graph, so the
reconstruction loop runs fewer than `V` times after the at most `V` scans of the search. -/
theorem C19_findGeodesics_path_le {L : Type} (g : G L) (s t : Nat) (hs : s < g.size) (ht : t < g.size)
    (hwf : adjWF g.adj = true) (hlen : g.adj.length = g.size) (hn : g.size ≤ MAX) (path : List Nat)
    (h : findGeodesics g s t = .ok path) : path.length ≤ g.size := by
  obtain ⟨c1, c2, c3⟩ := C11_findGeodesics g s t hs ht hwf hlen hn
  by_cases hst : s = t
  · rw [c1 hst] at h; cases h; simp; omega
  · by_cases hr : Reachable g.adj s t
    · obtain ⟨p, p1, _, _, _, _, pmin⟩ := c3 hst hr
      rw [p1] at h; cases h
      have hWF : WF g.adj := (adjWF_iff g.adj).1 hwf
      have hs' : s < g.adj.length := by rw [hlen]; exact hs
      obtain ⟨_, h2, _, _⟩ := bfs_correct g.adj s hWF hs'
      obtain ⟨_, hdlt, hplen⟩ := bfs_predTree g.adj s hWF hs' (by rw [hlen]; exact hn)
      obtain ⟨h1, _⟩ := bfs_correct g.adj s hWF hs'
      obtain ⟨k, hk⟩ := hr
      have hseen := (h1 t k hk).1
      have := pmin _ (h2 t hseen)
      have := hdlt t hseen
      rw [hplen, hlen] at this
      omega
    · rw [c2 hst hr] at h; cases h; simp

/-- **C19, findGeodesicsFromVertex:** `V` entries of at most `V` vertices each — the search runs
once and the `V` reconstruction loops together run fewer than `V²` iterations. -/
theorem C19_findGeodesicsFromVertex_size {L : Type} (g : G L) (s : Nat) (hs : s < g.size)
    (hwf : adjWF g.adj = true) (hlen : g.adj.length = g.size) (hn : g.size ≤ MAX) :
    ∃ ps, findGeodesicsFromVertex g s = .ok ps ∧ ps.length = g.size ∧
      ∀ t, t < g.size → (ps.getD t []).length ≤ g.size := by
  obtain ⟨ps, h1, h2, h3⟩ := C11_findGeodesicsFromVertex g s hs hwf hlen hn
  exact ⟨ps, h1, h2, fun t ht => C19_findGeodesics_path_le g s t hs ht hwf hlen hn _ (h3 t ht)⟩

example : pathLoop [MAX, 0, 0, 1, MAX] 0 2 3 [] = some (.ok [0, 1, 3]) ∧
    pathLoop [MAX, 0, 0, 1, MAX] 0 1 3 [] = none := by decide

end BGV
