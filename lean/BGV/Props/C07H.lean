import BGV.Props.C11F
import BGV.Model.PathHelpers
/-!
# Properties C07 / C11 — the public path-reconstruction functions called directly

`findPathToVertexFromPredecessors` and `findMultiplePathsToVertexFromPredecessors` are public entry
points taking vertex indices.  Called on the predecessors of a search from `ps`:
* a source or destination `≥ getSize()` is rejected with `out_of_range` (C07);
* the overloads without a source find the search's own source (`findSourceVertex`: the only vertex
  at distance 0), so they equal the explicit call with `source = ps` (C11);
* with `source = ps` the call returns what `findGeodesics` / `findAllGeodesics` return (C11).
-/
set_option linter.unusedSectionVars false
namespace BGV
open G Bfs

theorem walk_zero {adj : Adj} {s v : Nat} (h : Walk adj s v 0) : v = s := by
  cases h; rfl

theorem findSource_of (dist : List Nat) (s : Nat) (h0 : dist.getD s MAX = 0) (hz : ∀ v, dist.getD v MAX = 0 → v = s) :
    findSourceVertex dist = .ok s := by
  have hlt : s < dist.length := by
    rcases Nat.lt_or_ge s dist.length with h | h
    · exact h
    · rw [List.getD_eq_getElem?_getD, List.getElem?_eq_none h] at h0
      exact absurd h0 (by decide)
  have hget : dist[s] = 0 := by
    rw [List.getD_eq_getElem?_getD, List.getElem?_eq_getElem hlt] at h0; exact h0
  have : dist.findIdx? (· == 0) = some s := by
    rw [List.findIdx?_eq_some_iff_getElem]
    refine ⟨hlt, by simp [hget], ?_⟩
    intro j hj hp
    have hjl : j < dist.length := Nat.lt_trans hj hlt
    have : dist.getD j MAX = 0 := by
      rw [List.getD_eq_getElem?_getD, List.getElem?_eq_getElem hjl]; simpa using hp
    have := hz j this
    omega
  simp [findSourceVertex, this]

/-- the single-predecessor search marks exactly its source with distance 0 -/
theorem C11_findSourceVertex_bfs (adj : Adj) (s : Nat) (hwf : WF adj) (hs : s < adj.length) :
    findSourceVertex (bfsRun adj s).dist = .ok s := by
  obtain ⟨h1, h2⟩ := C11_findVertexPredecessors adj s hwf hs
  apply findSource_of
  · have := (h1 s ⟨0, Walk.nil⟩).2.1 0 Walk.nil
    omega
  · intro v hv
    by_cases hr : Reachable adj s v
    · have := (h1 v hr).1
      rw [hv] at this
      exact walk_zero this
    · have := (h2 v hr).1
      rw [hv] at this
      exact absurd this (by decide)

/-- the all-predecessor search marks exactly its source with distance 0 -/
theorem C11_findSourceVertex_allpred (adj : Adj) (s : Nat) (hwf : WF adj) (hs : s < adj.length) (hn : adj.length < MAX) :
    findSourceVertex (allPredRun adj s).dist = .ok s := by
  obtain ⟨hinv, hq⟩ := AllPred.final_inv adj s hwf hs hn
  obtain ⟨f1, f2, _⟩ := AllPred.final_of_inv hinv hq
  apply findSource_of
  · exact hinv.src.1
  · intro v hv
    have hne : (AllPred.loop adj (2 * adj.length + 1) (AllPred.init adj.length s) []).1.d v ≠ MAX := by
      show (allPredRun adj s).dist.getD v MAX ≠ MAX
      rw [hv]; decide
    have hw := f2 v hne
    have : (AllPred.loop adj (2 * adj.length + 1) (AllPred.init adj.length s) []).1.d v = 0 := hv
    rw [this] at hw
    exact walk_zero hw

variable {L : Type}

/-- **C07: findPathToVertexFromPredecessors / findMultiplePathsToVertexFromPredecessors** reject a
source or destination out of range, whatever search the predecessors came from -/
theorem C07_pathTo_oor (g : G L) (ps s t : Nat) (hps : ps < g.size) (hwf : adjWF g.adj = true)
    (hbad : ¬ (s < g.size ∧ t < g.size)) :
    pathTo g ps s t = .threw .oor ∧ allPathsTo g ps s t = .threw .oor := by
  have hr : rangeBoth g s t = false := by
    simp only [rangeBoth, Bool.and_eq_false_iff, decide_eq_false_iff_not]
    by_cases h1 : s < g.size
    · right; intro h2; exact hbad ⟨h1, h2⟩
    · left; exact h1
  constructor
  · simp [pathTo, findVertexPredecessors, hps, hwf, Res.bind, hr]
  · simp [allPathsTo, findAllVertexPredecessors, hps, hwf, Res.bind, hr]

/-- a search from a vertex out of range is itself rejected, so the combined call is -/
theorem C07_pathTo_search_oor (g : G L) (ps s t : Nat) (hps : ¬ ps < g.size) :
    pathTo g ps s t = .threw .oor ∧ allPathsTo g ps s t = .threw .oor ∧
    pathTo3 g ps t = .threw .oor ∧ allPathsTo3 g ps t = .threw .oor := by
  simp [pathTo, allPathsTo, pathTo3, allPathsTo3, findVertexPredecessors, findAllVertexPredecessors, hps, Res.bind]

/-- **C11: the overloads without a source** are the explicit calls with the search's source -/
theorem C11_pathTo3_eq (g : G L) (ps t : Nat) (hps : ps < g.size) (hwf : adjWF g.adj = true)
    (hlen : g.adj.length = g.size) (hn : g.size < MAX) :
    pathTo3 g ps t = pathTo g ps ps t ∧ allPathsTo3 g ps t = allPathsTo g ps ps t := by
  have hWF : WF g.adj := (adjWF_iff g.adj).1 hwf
  have hps' : ps < g.adj.length := by rw [hlen]; exact hps
  have hn' : g.adj.length < MAX := by rw [hlen]; exact hn
  constructor
  · simp only [pathTo3, pathTo, findVertexPredecessors, hps, hwf, decide_true, Bool.not_true, Bool.false_eq_true, if_false,
      Res.bind]
    rw [C11_findSourceVertex_bfs g.adj ps hWF hps']
  · simp only [allPathsTo3, allPathsTo, findAllVertexPredecessors, hps, hwf, decide_true, Bool.not_true, Bool.false_eq_true,
      if_false, Res.bind]
    rw [C11_findSourceVertex_allpred g.adj ps hWF hps' hn']

/-- in particular a destination out of range is rejected by the three-argument overloads too -/
theorem C07_pathTo3_oor (g : G L) (ps t : Nat) (hps : ps < g.size) (hwf : adjWF g.adj = true)
    (hlen : g.adj.length = g.size) (hn : g.size < MAX) (ht : ¬ t < g.size) :
    pathTo3 g ps t = .threw .oor ∧ allPathsTo3 g ps t = .threw .oor := by
  obtain ⟨e1, e2⟩ := C11_pathTo3_eq g ps t hps hwf hlen hn
  obtain ⟨o1, o2⟩ := C07_pathTo_oor g ps ps t hps hwf (fun h => ht h.2)
  rw [e1, e2]; exact ⟨o1, o2⟩

/-- **C11: called with the search's own source** the reconstruction functions return what
`findGeodesics` / `findAllGeodesics` return for a reachable destination -/
theorem C11_pathTo_geodesics (g : G L) (s t : Nat) (hs : s < g.size) (ht : t < g.size) (hwf : adjWF g.adj = true)
    (hreach : (bfsRun g.adj s).dist.getD t MAX ≠ MAX) (hreach' : (allPredRun g.adj s).dist.getD t MAX ≠ MAX) :
    pathTo g s s t = findGeodesics g s t ∧ allPathsTo g s s t = findAllGeodesics g s t := by
  have hr : rangeBoth g s t = true := by simp [rangeBoth, hs, ht]
  have hr' : (decide (s < g.size) && decide (t < g.size)) = true := by simp [hs, ht]
  constructor
  · simp only [pathTo, findGeodesics, findVertexPredecessors, hs, hwf, decide_true, Bool.not_true, Bool.false_eq_true,
      if_false, Res.bind, hr, hr', ne_eq, hreach, not_false_eq_true, if_true]
    by_cases hst : s = t
    · simp [hst, findPathFromPredecessors]; exact ht
    · simp [hst]; intro h; omega
  · simp only [allPathsTo, findAllGeodesics, findAllVertexPredecessors, hs, hwf, decide_true, Bool.not_true,
      Bool.false_eq_true, if_false, Res.bind, hr, hr', ne_eq, hreach', not_false_eq_true, if_true]
    by_cases hst : s = t
    · simp [hst, findMultiplePathsFromPredecessors]; exact ht
    · simp [hst]; intro h; omega

/-- not vacuous; and the mismatched-source call ends in `runtime_error`, not in undefined behaviour -/
example :
    let g : G Nat := ⟨false, 5, [[1, 2], [3], [3], [], [0]], 5, []⟩
    pathTo g 0 0 3 = .ok [0, 1, 3] ∧ pathTo3 g 0 3 = .ok [0, 1, 3] ∧ allPathsTo3 g 0 3 = .ok [[0, 2, 3], [0, 1, 3]] ∧
    pathTo g 0 1 3 = .ok [1, 3] ∧ pathTo g 0 2 1 = .threw .rte ∧ allPathsTo g 0 2 1 = .threw .rte ∧
    pathTo g 0 0 4 = .threw .rte ∧ allPathsTo g 0 0 4 = .ok [] ∧ pathTo g 0 5 1 = .threw .oor := by
  decide

end BGV
