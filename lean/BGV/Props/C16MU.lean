import BGV.Props.C16M
import BGV.Props.C04U
import BGV.Proofs.WeightedU
/-!
# Property C16 — undirected multigraph and undirected weighted graph: `removeDuplicateEdges`

The undirected derived classes walk every list, keep first occurrences, and for every erased entry
`(i,j)` with `i ≤ j` decrement `edgeNumber` and subtract the pair's stored multiplicity / weight from
the running total.  If the total was the sum of the stored value over every *counted* list entry
(`i ≤ j`, one term per copy), the state after `removeDuplicateEdges` satisfies the full invariant of
C04 / C05 (undirected) again.
-/
set_option linter.unusedSectionVars false
namespace BGV
open G

/-- counted entries: `(i,j)` in list `i` with `i ≤ j` -/
def uEntrySumN (g : G Nat) : Nat :=
  ((List.range g.size).map (fun i => ((g.nb i).map (fun j => if i ≤ j then g.labD (i, j) else 0)).sum)).sum

def uEntrySum (g : G Int) : Int :=
  ((List.range g.size).map (fun i => ((g.nb i).map (fun j => if i ≤ j then g.labD (i, j) else 0)).sum)).sum

theorem sumN_filter_le (i : Nat) (f : Nat → Nat) (l : List Nat) :
    ((l.filter (fun j => decide (i ≤ j))).map f).sum = (l.map (fun j => if i ≤ j then f j else 0)).sum := by
  induction l with
  | nil => rfl
  | cons a l ih =>
    by_cases h : i ≤ a
    · simp [List.filter_cons, h, ih]
    · simp [List.filter_cons, h, ih]

theorem sumI_filter_le (i : Nat) (f : Nat → Int) (l : List Nat) :
    ((l.filter (fun j => decide (i ≤ j))).map f).sum = (l.map (fun j => if i ≤ j then f j else 0)).sum := by
  induction l with
  | nil => rfl
  | cons a l ih =>
    by_cases h : i ≤ a
    · simp [List.filter_cons, h, ih]
    · simp [List.filter_cons, h, ih]

theorem map_ordered_filter {α : Type} (i : Nat) (f : Edge → α) (l : List Nat) :
    (l.filter (fun j => decide (i ≤ j))).map (fun j => f (ordered i j))
      = (l.filter (fun j => decide (i ≤ j))).map (fun j => f (i, j)) := by
  apply List.map_congr_left
  intro j hj
  have := (List.mem_filter.1 hj).2
  rw [ordered_of_le (by simpa using this)]

/-! ## multigraph -/
namespace MG

def umdStep (m : MG) (i : Nat) : MG :=
  ⟨udStep m.g i, ((dedupR [] (m.g.nb i)).filter (fun j => decide (i ≤ j))).foldl
      (fun t j => subW t (m.g.labD (ordered i j))) m.total⟩

theorem umdedup_eq (m : MG) : m.uRemoveDuplicateEdges = (List.range m.g.size).foldl umdStep m := rfl

theorem foldl_umdStep_g (is : List Nat) (m : MG) : (is.foldl umdStep m).g = is.foldl udStep m.g := by
  induction is generalizing m with
  | nil => rfl
  | cons i is ih => simp only [List.foldl_cons]; rw [ih]; rfl

end MG
open MG

theorem uEntrySumN_udStep (g : G Nat) (i : Nat) (hi : i < g.size) :
    uEntrySumN (udStep g i)
      + (((dedupR [] (g.nb i)).filter (fun j => decide (i ≤ j))).map (fun j => g.labD (ordered i j))).sum
      = uEntrySumN g := by
  simp only [uEntrySumN]
  have hsz : (udStep g i).size = g.size := rfl
  rw [hsz, map_ordered_filter i g.labD, sumN_filter_le]
  have hrow : ∀ k, ((udStep g i).nb k).map (fun j => if k ≤ j then (udStep g i).labD (k, j) else 0)
      = (if i = k then dedupK [] (g.nb k) else g.nb k).map (fun j => if k ≤ j then g.labD (k, j) else 0) := by
    intro k; rw [nb_udStep]; rfl
  have hp := sumN_partition_dedup (fun j => if i ≤ j then g.labD (i, j) else 0) [] (g.nb i)
  exact sum_map_cnt_change g.size i
    (fun k => ((g.nb k).map (fun j => if k ≤ j then g.labD (k, j) else 0)).sum)
    (fun k => (((udStep g i).nb k).map (fun j => if k ≤ j then (udStep g i).labD (k, j) else 0)).sum)
    (((dedupR [] (g.nb i)).map (fun j => if i ≤ j then g.labD (i, j) else 0)).sum) hi (by
      intro k
      simp only [hrow]
      by_cases hik : i = k
      · subst hik; simp only [if_true]; omega
      · simp only [hik, if_false]; omega)

theorem umdStep_total (m : MG) (i : Nat) (hi : i < m.g.size) (ht : m.total = uEntrySumN m.g) :
    (umdStep m i).total = uEntrySumN (umdStep m i).g := by
  have h1 := uEntrySumN_udStep m.g i hi
  simp only [umdStep]
  rw [foldl_subW_eq _ _ _ (by omega)]
  omega

theorem foldl_umdStep_total (is : List Nat) (m : MG) (his : ∀ i ∈ is, i < m.g.size) (ht : m.total = uEntrySumN m.g) :
    (is.foldl umdStep m).total = uEntrySumN (is.foldl umdStep m).g := by
  induction is generalizing m with
  | nil => exact ht
  | cons i is ih =>
    simp only [List.foldl_cons]
    exact ih _ (fun k hk => his k (by simp [hk])) (umdStep_total m i (his i (by simp)) ht)

theorem uget?_none (g : G Nat) (hg : UInv g) (hl : g.labelled = true) (i j : Nat)
    (h : ¬ (i ≤ j ∧ g.hasEdgeRaw i j = true)) : g.labels.get? (i, j) = none := by
  have := hg.base.lab hl i j
  cases hh : g.labels.get? (i, j) with
  | none => rfl
  | some v =>
    rw [hh] at this
    simp only [Option.isSome_some] at this
    have h2 := this.symm
    simp only [Bool.and_eq_true, decide_eq_true_eq] at h2
    exact absurd h2 h

/-- in a state with the undirected simple-graph invariant the counted entry sum is the sum of the
multiplicity store -/
theorem uEntrySumN_eq_sumVals (g : G Nat) (hg : UInv g) (hl : g.labelled = true) (hk : KeysNodup g) :
    uEntrySumN g = AMap.sumVals g.labels := by
  have := sumVals_eq_sqSum g.size g.labels hk (by
    intro e he
    have hs := (AMap.mem_keys_iff_get? g.labels e).1 he
    obtain ⟨a, b⟩ := e
    rw [hg.base.lab hl a b] at hs
    simp only [Bool.and_eq_true, decide_eq_true_eq] at hs
    have hb : b ∈ g.nb a := by simpa [hasEdgeRaw] using hs.2
    have hb2 := hg.base.bound a b hb
    have ha : a ∈ g.nb b := (hg.sym a b).1 hb
    have ha2 := hg.base.bound b a ha
    exact ⟨ha2, hb2⟩)
  rw [this]
  simp only [uEntrySumN, sqSum]
  congr 1
  apply List.map_congr_left
  intro i _
  rw [sum_map_nodup_eq_range (g.nb i) g.size (fun j => if i ≤ j then g.labD (i, j) else 0) (hg.base.nodup i) (hg.base.bound i) (by
    intro x hx
    have he : g.hasEdgeRaw i x = false := by simpa [hasEdgeRaw] using hx
    simp only [labD, hl, if_true]
    rw [uget?_none g hg hl i x (by simp [he])]; simp)]
  congr 1
  apply List.map_congr_left
  intro j _
  simp only [labD, hl, if_true]
  by_cases hij : i ≤ j
  · simp only [hij, if_true]; rfl
  · simp only [hij, if_false]
    rw [uget?_none g hg hl i j (by simp [hij])]; rfl

/-- **C16 (undirected multigraph).** After `removeDuplicateEdges`: the graph part is the
deduplicated undirected labelled graph, every stored multiplicity is positive, and
`getTotalEdgeNumber` is the sum of the multiplicities of the (now distinct) pairs — the invariant of
C04 (undirected). -/
theorem C16_umulti_removeDuplicateEdges (m : MG) (hf : UFInv m.g) (hl : m.g.labelled = true) (hk : KeysNodup m.g)
    (hpos : ∀ e v, m.g.labels.get? e = some v → 0 < v)
    (ht : m.total = uEntrySumN m.g) :
    m.uRemoveDuplicateEdges.g = m.g.uRemoveDuplicateEdges ∧ MUInv m.uRemoveDuplicateEdges := by
  have hg : m.uRemoveDuplicateEdges.g = m.g.uRemoveDuplicateEdges := by
    rw [umdedup_eq, foldl_umdStep_g]; rfl
  obtain ⟨hinv, _, _, e1⟩ := C16_und_removeDuplicateEdges m.g hf
  have e2 : m.g.uRemoveDuplicateEdges.labelled = m.g.labelled := by
    rw [uRemoveDuplicateEdges_eq]; exact (foldl_udStep_labels (List.range m.g.size) m.g).2.1
  have hl' : m.g.uRemoveDuplicateEdges.labelled = true := by rw [e2]; exact hl
  have hk' : KeysNodup m.g.uRemoveDuplicateEdges := by rw [KeysNodup, e1]; exact hk
  refine ⟨hg, ⟨by rw [hg]; exact hinv, by rw [hg]; exact hl', by rw [KeysNodup, hg]; exact hk', ?_, ?_⟩⟩
  · intro e v hv; rw [hg, e1] at hv; exact hpos e v hv
  · have htot := foldl_umdStep_total (List.range m.g.size) m (fun i hi => List.mem_range.1 hi) ht
    rw [← umdedup_eq] at htot
    rw [htot, hg, uEntrySumN_eq_sumVals _ hinv hl' hk']

/-- not vacuous: forced duplicates of a pair and of a self-loop, then the clean-up -/
example :
    let m := ((((MG.new 3).uAddMultiedge 0 1 2 false).1.uAddMultiedge 0 1 2 true).1.uAddMultiedge 2 2 3 true).1
    let m := (m.uAddMultiedge 2 2 3 true).1
    m.total = uEntrySumN m.g ∧ m.total = 10 ∧ m.uRemoveDuplicateEdges.total = 5 ∧ m.uRemoveDuplicateEdges.g.edgeNumber = 2 := by
  decide

/-! ## weighted -/
namespace WG

def uwdStep (m : WG) (i : Nat) : WG :=
  ⟨udStep m.g i, ((dedupR [] (m.g.nb i)).filter (fun j => decide (i ≤ j))).foldl
      (fun t j => t - m.g.labD (ordered i j)) m.total⟩

theorem uwdedup_eq (m : WG) : m.uRemoveDuplicateEdges = (List.range m.g.size).foldl uwdStep m := rfl

theorem foldl_uwdStep_g (is : List Nat) (m : WG) : (is.foldl uwdStep m).g = is.foldl udStep m.g := by
  induction is generalizing m with
  | nil => rfl
  | cons i is ih => simp only [List.foldl_cons]; rw [ih]; rfl

end WG
open WG

theorem uEntrySum_udStep (g : G Int) (i : Nat) (hi : i < g.size) :
    uEntrySum (udStep g i)
      + (((dedupR [] (g.nb i)).filter (fun j => decide (i ≤ j))).map (fun j => g.labD (ordered i j))).sum
      = uEntrySum g := by
  simp only [uEntrySum]
  have hsz : (udStep g i).size = g.size := rfl
  rw [hsz, map_ordered_filter i g.labD, sumI_filter_le]
  have hrow : ∀ k, ((udStep g i).nb k).map (fun j => if k ≤ j then (udStep g i).labD (k, j) else 0)
      = (if i = k then dedupK [] (g.nb k) else g.nb k).map (fun j => if k ≤ j then g.labD (k, j) else 0) := by
    intro k; rw [nb_udStep]; rfl
  have hp := sumI_partition_dedup (fun j => if i ≤ j then g.labD (i, j) else 0) [] (g.nb i)
  have hc := sumI_map_range_change g.size i
    (fun k => ((g.nb k).map (fun j => if k ≤ j then g.labD (k, j) else 0)).sum)
    (fun k => (((udStep g i).nb k).map (fun j => if k ≤ j then (udStep g i).labD (k, j) else 0)).sum) hi (by
      intro k hk
      simp only [hrow]
      have : ¬ i = k := fun e => hk e.symm
      simp only [this, if_false])
  have hi' : (((udStep g i).nb i).map (fun j => if i ≤ j then (udStep g i).labD (i, j) else 0)).sum
      = ((dedupK [] (g.nb i)).map (fun j => if i ≤ j then g.labD (i, j) else 0)).sum := by
    rw [hrow]; simp
  rw [hi'] at hc
  omega

theorem uwdStep_total (m : WG) (i : Nat) (hi : i < m.g.size) (ht : m.total = uEntrySum m.g) :
    (uwdStep m i).total = uEntrySum (uwdStep m i).g := by
  have h1 := uEntrySum_udStep m.g i hi
  simp only [uwdStep]
  rw [foldl_sub_eq]
  omega

theorem foldl_uwdStep_total (is : List Nat) (m : WG) (his : ∀ i ∈ is, i < m.g.size) (ht : m.total = uEntrySum m.g) :
    (is.foldl uwdStep m).total = uEntrySum (is.foldl uwdStep m).g := by
  induction is generalizing m with
  | nil => exact ht
  | cons i is ih =>
    simp only [List.foldl_cons]
    exact ih _ (fun k hk => his k (by simp [hk])) (uwdStep_total m i (his i (by simp)) ht)

theorem uget?_noneI (g : G Int) (hg : UInv g) (hl : g.labelled = true) (i j : Nat)
    (h : ¬ (i ≤ j ∧ g.hasEdgeRaw i j = true)) : g.labels.get? (i, j) = none := by
  have := hg.base.lab hl i j
  cases hh : g.labels.get? (i, j) with
  | none => rfl
  | some v =>
    rw [hh] at this
    simp only [Option.isSome_some] at this
    have h2 := this.symm
    simp only [Bool.and_eq_true, decide_eq_true_eq] at h2
    exact absurd h2 h

theorem uEntrySum_eq_sumI (g : G Int) (hg : UInv g) (hl : g.labelled = true) (hk : KeysNodup g) :
    uEntrySum g = AMap.sumI g.labels := by
  have := sumI_eq_sqSumI g.size g.labels hk (by
    intro e he
    have hs := (AMap.mem_keys_iff_get? g.labels e).1 he
    obtain ⟨a, b⟩ := e
    rw [hg.base.lab hl a b] at hs
    simp only [Bool.and_eq_true, decide_eq_true_eq] at hs
    have hb : b ∈ g.nb a := by simpa [hasEdgeRaw] using hs.2
    have hb2 := hg.base.bound a b hb
    have ha : a ∈ g.nb b := (hg.sym a b).1 hb
    have ha2 := hg.base.bound b a ha
    exact ⟨ha2, hb2⟩)
  rw [this]
  simp only [uEntrySum, sqSumI]
  congr 1
  apply List.map_congr_left
  intro i _
  rw [sumI_map_nodup_eq_range (g.nb i) g.size (fun j => if i ≤ j then g.labD (i, j) else 0) (hg.base.nodup i) (hg.base.bound i) (by
    intro x hx
    have he : g.hasEdgeRaw i x = false := by simpa [hasEdgeRaw] using hx
    simp only [labD, hl, if_true]
    rw [uget?_noneI g hg hl i x (by simp [he])]; simp)]
  congr 1
  apply List.map_congr_left
  intro j _
  simp only [labD, hl, if_true]
  by_cases hij : i ≤ j
  · simp only [hij, if_true]; rfl
  · simp only [hij, if_false]
    rw [uget?_noneI g hg hl i j (by simp [hij])]; rfl

/-- **C16 (undirected weighted graph).** After `removeDuplicateEdges` on a graph built with forced
insertions: the graph part is the deduplicated undirected labelled graph and the invariant of C05
(undirected) holds again — `totalWeight` is the sum of the weights of the (now distinct) pairs. -/
theorem C16_uweighted_removeDuplicateEdges (m : WG) (hf : UFInv m.g) (hl : m.g.labelled = true) (hk : KeysNodup m.g)
    (ht : m.total = uEntrySum m.g) :
    m.uRemoveDuplicateEdges.g = m.g.uRemoveDuplicateEdges ∧ WUInv m.uRemoveDuplicateEdges := by
  have hg : m.uRemoveDuplicateEdges.g = m.g.uRemoveDuplicateEdges := by
    rw [uwdedup_eq, foldl_uwdStep_g]; rfl
  obtain ⟨hinv, _, _, e1⟩ := C16_und_removeDuplicateEdges m.g hf
  have e2 : m.g.uRemoveDuplicateEdges.labelled = m.g.labelled := by
    rw [uRemoveDuplicateEdges_eq]; exact (foldl_udStep_labels (List.range m.g.size) m.g).2.1
  have hl' : m.g.uRemoveDuplicateEdges.labelled = true := by rw [e2]; exact hl
  have hk' : KeysNodup m.g.uRemoveDuplicateEdges := by rw [KeysNodup, e1]; exact hk
  refine ⟨hg, ⟨by rw [hg]; exact hinv, by rw [hg]; exact hl', by rw [KeysNodup, hg]; exact hk', ?_⟩⟩
  have htot := foldl_uwdStep_total (List.range m.g.size) m (fun i hi => List.mem_range.1 hi) ht
  rw [← uwdedup_eq] at htot
  rw [htot, hg, uEntrySum_eq_sumI _ hinv hl' hk']

/-- not vacuous -/
example :
    let m := ((((WG.new 3).uAddEdge 0 1 5 false).1.uAddEdge 1 0 5 true).1.uAddEdge 2 2 (-3) true).1
    let m := (m.uAddEdge 2 2 (-3) true).1
    m.total = uEntrySum m.g ∧ m.total = 4 ∧ m.uRemoveDuplicateEdges.total = 2 ∧ m.uRemoveDuplicateEdges.g.edgeNumber = 2 := by
  decide

end BGV
