import BGV.Props.C11
/-!
# Property C19 — path searches do work polynomial in the graph size (part: `findVertexPredecessors`)

`bfsRun … .scans` is the list of arguments of the successive `getOutNeighbours` calls of the
queue loop (tied to the C++ by exact comparison with the scan log of a counting wrapper graph).
-/
namespace BGV
open Bfs

/-- **C19, findVertexPredecessors:** at most one neighbourhood scan per vertex, and the search
terminates (the queue is empty when the fuel-bounded loop returns). -/
theorem C19_bfs_scans (adj : Adj) (s : Nat) (hwf : WF adj) (hs : s < adj.length) :
    (bfsRun adj s).scans.length ≤ adj.length ∧
    (loopG adj (2 * adj.length + 1) (init adj.length s) []).1.queue = [] := by
  have hi := init_oinv adj s hs
  have hg := init_ginv adj s hs
  exact ⟨loopG_scans_le hwf _ _ _ hi hg, loopG_done hwf _ _ _ hi hg (by simp; omega)⟩

/-- no vertex is scanned twice -/
theorem C19_bfs_scans_nodup (adj : Adj) (s : Nat) (hwf : WF adj) (hs : s < adj.length) :
    (bfsRun adj s).scans.Nodup := by
  have hi := init_oinv adj s hs
  have hg := init_ginv adj s hs
  have := (loopG_inv hwf (2 * adj.length + 1) _ _ hi hg).2.nodup
  exact (List.nodup_append.1 this).1

/-- **C19, findAllVertexPredecessors:** every neighbourhood scan is for a distinct vertex, so there
are at most `V` (≤ `V + E`) of them — whatever the number of distinct shortest paths — and the
search terminates. -/
theorem C19_allpred_scans (adj : Adj) (s : Nat) (hwf : WF adj) (hs : s < adj.length) (hn : adj.length < MAX) :
    (allPredRun adj s).scans.Nodup ∧ (allPredRun adj s).scans.length ≤ adj.length ∧
    (AllPred.loop adj (2 * adj.length + 1) (AllPred.init adj.length s) []).1.queue = [] := by
  have hi := AllPred.init_ainv adj s hs
  have hg := AllPred.init_ginv adj s
  have := AllPred.loop_scans_le hwf hn (2 * adj.length + 1) _ _ hi hg
  exact ⟨this.1, this.2, AllPred.loop_done hwf hn _ _ _ hi hg (by simp; omega)⟩

end BGV
