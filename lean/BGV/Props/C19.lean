import BGV.Props.C11
import BGV.Algo.DijScan
/-!
# Property C19 — path searches do work polynomial in the graph size (part: `findVertexPredecessors`)

`bfsRun … .scans` is the list of arguments of the successive `getOutNeighbours` calls of the
queue loop (tied to the C++ by exact comparison with the scan log of a counting wrapper graph).
-/
namespace BGV
open Bfs

/-- **C19, findVertexPredecessors:** at most one neighbourhood scan per vertex, and the search
terminates (the queue is empty when the fuel-bounded loop returns). -/
theorem C19_bfs_scans (adj : Adj) (s : Nat) (hwf : WF adj) (hs : s < adj.length) :
    (bfsRun adj s).scans.length ≤ adj.length ∧
    (loopG adj (2 * adj.length + 1) (init adj.length s) []).1.queue = [] := by
  have hi := init_oinv adj s hs
  have hg := init_ginv adj s hs
  exact ⟨loopG_scans_le hwf _ _ _ hi hg, loopG_done hwf _ _ _ hi hg (by simp; omega)⟩

/-- no vertex is scanned twice -/
theorem C19_bfs_scans_nodup (adj : Adj) (s : Nat) (hwf : WF adj) (hs : s < adj.length) :
    (bfsRun adj s).scans.Nodup := by
  have hi := init_oinv adj s hs
  have hg := init_ginv adj s hs
  have := (loopG_inv hwf (2 * adj.length + 1) _ _ hi hg).2.nodup
  exact (List.nodup_append.1 this).1

/-- **C19, findAllVertexPredecessors:** every neighbourhood scan is for a distinct vertex, so there
are at most `V` (≤ `V + E`) of them — whatever the number of distinct shortest paths — and the
search terminates. -/
theorem C19_allpred_scans (adj : Adj) (s : Nat) (hwf : WF adj) (hs : s < adj.length) (hn : adj.length < MAX) :
    (allPredRun adj s).scans.Nodup ∧ (allPredRun adj s).scans.length ≤ adj.length ∧
    (AllPred.loop adj (2 * adj.length + 1) (AllPred.init adj.length s) []).1.queue = [] := by
  have hi := AllPred.init_ainv adj s hs
  have hg := AllPred.init_ginv adj s
  have := AllPred.loop_scans_le hwf hn (2 * adj.length + 1) _ _ hi hg
  exact ⟨this.1, this.2, AllPred.loop_done hwf hn _ _ _ hi hg (by simp; omega)⟩

/-- **C19, findGeodesicsDijkstra:** for every accepted pop sequence in which every pop was a
minimum of the worklist (what a correct heap delivers; the model records it in the flag), with
non-negative weights, the number of neighbourhood scans is at most `E + 1 ≤ V + E + 1`, `E` the
total length of the neighbour lists — zero-weight cycles included. -/
theorem C19_dijkstra_scans (adj : Adj) (wt : Nat → Nat → Nat) (s : Nat) (pops : List Nat)
    (hwf : WF adj) (hs : s < adj.length) (r : Dij.DS × Bool)
    (hr : DijRun.run wt adj pops (DijRun.init adj.length s) true = some r) (hmin : r.2 = true) :
    pops.length ≤ Dij.edgeCount adj + 1 := by
  have := Dij.run_scans hwf pops _ true r 0 [] 0 0 (Dij.init_inv adj wt s hs) (Dij.init_minv adj wt s hs) hr hmin
  omega

example : Dij.edgeCount [[1, 2], [2], [0, 0]] = 5 := by decide

end BGV
