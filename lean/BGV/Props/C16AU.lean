import BGV.Props.C16FD
import BGV.Props.C16U
/-!
# Property C16 — the undirected adjacency matrix counts copies
-/
set_option linter.unusedSectionVars false
namespace BGV
open G
variable {L : Type} [Inhabited L]

theorem count_pair_edgeSeq_len (g : G L) (hl : g.adj.length = g.size) (i j : Nat) :
    (g.edgeSeq.filter (fun e : Edge => e.1 == i && e.2 == j)).length = (g.nb i).count j := by
  simp only [edgeSeq, List.filter_flatMap, List.length_flatMap, count_pair_row]
  by_cases hi : i < g.size
  · have := sum_map_ite_eq (List.range g.size) i ((g.nb i).count j) (fun _ => 0) List.nodup_range (List.mem_range.2 hi) rfl
    have hz : ((List.range g.size).map (fun _ : Nat => 0)).sum = 0 := sum_eq_zero_of_forall _ (by
      intro x hx; obtain ⟨_, _, rfl⟩ := List.mem_map.1 hx; rfl)
    rw [hz, Nat.add_zero] at this
    rw [← this]
    congr 1
    apply List.map_congr_left
    intro k _
    by_cases hk : k = i
    · subst hk; simp
    · simp [hk]
  · have hnb : g.nb i = [] := nb_of_ge g i (by rw [hl]; omega)
    rw [hnb, List.count_nil]
    apply sum_eq_zero_of_forall
    intro x hx
    obtain ⟨k, hk, rfl⟩ := List.mem_map.1 hx
    have : k ≠ i := by have := List.mem_range.1 hk; omega
    simp [this]

/-- **C16 (undirected): the adjacency matrix counts copies.** In any state reachable with forced
insertions, entry `(i,j)` is the number of copies of `j` in `i`'s list (one per insertion), a
self-loop's copies counted twice each by default and once on request -/
theorem C16_und_adjacencyMatrix_counts (g : G L) (h : UFInv g) (twice : Bool) :
    ∃ m, g.uGetAdjacencyMatrix twice = .ok m ∧ Square g.size m ∧
      ∀ i j, getM m i j = (g.nb i).count j * (if i = j ∧ twice = true then 2 else 1) := by
  have hall : g.allInR = true := by
    simp only [allInR, List.all_eq_true, decide_eq_true_eq]
    intro l hl j hj
    obtain ⟨i, hi, rfl⟩ := List.getElem_of_mem hl
    have : g.nb i = g.adj[i] := by simp [nb, List.getD_eq_getElem?_getD, hi]
    exact h.bound i j (by rw [this]; exact hj)
  have hes : ∀ e ∈ g.edgeSeq, e.1 < g.size ∧ e.2 < g.size := by
    intro e he
    simp only [edgeSeq, List.mem_flatMap, List.mem_range, List.mem_map] at he
    obtain ⟨k, hk, x, hx, rfl⟩ := he
    exact ⟨hk, h.bound k x hx⟩
  obtain ⟨h1, h2⟩ := foldl_bump2 g.size g.edgeSeq (fun e => if e.1 == e.2 && twice then 2 else 1) hes _ (square_zero g.size)
  have hrun : g.uGetAdjacencyMatrix twice = .ok (g.edgeSeq.foldl (fun m e => bump2 m e.1 e.2 (if e.1 == e.2 && twice then 2 else 1)) (zeroMatrix g.size)) := by
    simp only [uGetAdjacencyMatrix, hall, if_true]
    congr 1
    exact nested_fold_eq g (fun m i j => bump2 m i j (if i == j && twice then 2 else 1)) (List.range g.size) (zeroMatrix g.size)
  refine ⟨_, hrun, h1, ?_⟩
  intro i j
  rw [h2, getM_zero, Nat.zero_add]
  have hconst : ((g.edgeSeq.filter (fun e => e.1 == i && e.2 == j)).map (fun e => if e.1 == e.2 && twice then 2 else 1)).sum
      = (g.edgeSeq.filter (fun e => e.1 == i && e.2 == j)).length * (if i = j ∧ twice = true then 2 else 1) := by
    generalize hfl : g.edgeSeq.filter (fun e => e.1 == i && e.2 == j) = fl
    have hall' : ∀ e ∈ fl, e = (i, j) := by
      intro e he; rw [← hfl] at he
      have := (List.mem_filter.1 he).2
      simp only [Bool.and_eq_true, beq_iff_eq] at this
      exact Prod.ext this.1 this.2
    clear hfl
    induction fl with
    | nil => simp
    | cons a fl ih =>
      have ha := hall' a (by simp)
      have := ih (fun e he => hall' e (by simp [he]))
      simp only [List.map_cons, List.sum_cons, List.length_cons, this, ha, Nat.succ_mul]
      by_cases hij : i = j
      · subst hij; cases twice <;> simp <;> omega
      · have : (i == j) = false := by simpa using hij
        simp [this, hij]; omega
  rw [hconst, count_pair_edgeSeq_len g h.len i j]

/-- not vacuous: a pair inserted twice and a self-loop inserted twice -/
example :
    let g := ((((G.new false 2 : G Nat).uAddEdge 0 1 0 true).1.uAddEdge 1 0 0 true).1.uAddEdge 1 1 0 true).1
    let g := (g.uAddEdge 1 1 0 true).1
    g.uGetAdjacencyMatrix true = .ok [[0, 2], [2, 4]] ∧ g.uGetAdjacencyMatrix false = .ok [[0, 2], [2, 2]] := by decide

end BGV
