import BGV.Props.C13G
/-!
# Property C13 — `loadTextVertexLabeledEdgeList`: vertex names are numbered 0,1,2,… in order of
first appearance, and the returned name table satisfies `names[index(x)] = x`.
-/
set_option linter.unusedSectionVars false
namespace BGV
open G FIO
variable {L : Type} [Inhabited L]

/-- names in order of first appearance -/
def numStep (acc : List Bytes) (t : Bytes) : List Bytes := if t ∈ acc then acc else acc ++ [t]

def numbering (toks : List Bytes) : List Bytes := toks.foldl numStep []

theorem numStep_nodup (acc : List Bytes) (t : Bytes) (h : acc.Nodup) : (numStep acc t).Nodup := by
  unfold numStep; split
  · exact h
  · rename_i hn
    rw [List.nodup_append]
    exact ⟨h, by simp, by intro a ha b hb hab; simp at hb; subst hb; subst hab; exact hn ha⟩

/-- the mapper's table is the numbering zipped with its positions -/
def tableOf (acc : List Bytes) : List (Bytes × Nat) := acc.zipIdx

theorem lookup_zipIdx_from (acc : List Bytes) (k : Nat) (t : Bytes) (hn : acc.Nodup) :
    (acc.zipIdx k).lookup t = if t ∈ acc then some (k + acc.idxOf t) else none := by
  induction acc generalizing k with
  | nil => simp
  | cons a acc ih =>
    have hn' := List.nodup_cons.1 hn
    simp only [List.zipIdx_cons, List.lookup_cons]
    by_cases hta : t = a
    · subst hta; simp
    · have hb : (t == a) = false := by simpa using hta
      simp only [hb]
      rw [ih (k + 1) hn'.2]
      have hne : ¬ a = t := fun e => hta e.symm
      have hidx : (a :: acc).idxOf t = acc.idxOf t + 1 := by
        rw [List.idxOf_cons]
        have : (a == t) = false := by simpa using hne
        simp [this]
      by_cases hm : t ∈ acc
      · simp only [hm, if_true, List.mem_cons, hta, false_or, hidx]
        congr 1; omega
      · simp [hm, hta]

theorem lookup_tableOf (acc : List Bytes) (t : Bytes) (hn : acc.Nodup) :
    (tableOf acc).lookup t = if t ∈ acc then some (acc.idxOf t) else none := by
  have := lookup_zipIdx_from acc 0 t hn
  simpa [tableOf] using this

theorem tableOf_append (acc : List Bytes) (t : Bytes) : tableOf (acc ++ [t]) = tableOf acc ++ [(t, acc.length)] := by
  simp [tableOf, List.zipIdx_append]

/-- **the mapper**: a known name gets its index, a new one the next free index, and the table
stays the numbering of the names seen so far -/
theorem vertexOf_named (st : LoadSt L) (acc : List Bytes) (hacc : acc.Nodup) (ht : st.table = tableOf acc) (tok : Bytes) :
    vertexOf true st tok = .ok ((numStep acc tok).idxOf tok, ⟨st.g, st.names, tableOf (numStep acc tok)⟩) ∧
    (numStep acc tok).idxOf tok < (numStep acc tok).length := by
  simp only [vertexOf, if_true, ht, lookup_tableOf acc tok hacc, numStep]
  by_cases hm : tok ∈ acc
  · simp only [hm, if_true]
    refine ⟨?_, List.idxOf_lt_length_of_mem hm⟩
    congr 2
    rw [← ht]
  · simp only [hm, if_false]
    have hlen : (tableOf acc).length = acc.length := by simp [tableOf]
    have hidx : (acc ++ [tok]).idxOf tok = acc.length := by
      rw [List.idxOf_append]; simp [hm]
    refine ⟨?_, by rw [hidx]; simp⟩
    rw [hlen, hidx, tableOf_append]

theorem numbering_append (a b : List Bytes) : numbering (a ++ b) = b.foldl numStep (numbering a) := by
  simp [numbering, List.foldl_append]

theorem numbering_nodup (toks : List Bytes) : (numbering toks).Nodup := by
  have : ∀ (acc : List Bytes), acc.Nodup → (toks.foldl numStep acc).Nodup := by
    induction toks with
    | nil => intro acc h; exact h
    | cons t ts ih => intro acc h; exact ih _ (numStep_nodup acc t h)
  exact this [] List.nodup_nil

theorem mem_numStep (acc : List Bytes) (t x : Bytes) : x ∈ numStep acc t ↔ (x ∈ acc ∨ x = t) := by
  unfold numStep; split
  · rename_i h
    constructor
    · exact Or.inl
    · rintro (h1 | rfl); exact h1; exact h
  · simp

theorem idxOf_numStep_of_mem (acc : List Bytes) (t x : Bytes) (hx : x ∈ acc) : (numStep acc t).idxOf x = acc.idxOf x := by
  unfold numStep; split
  · rfl
  · rw [List.idxOf_append]; simp [hx]

/-- the index a name receives never changes afterwards: it is its position in the final numbering -/
theorem idxOf_foldl_numStep (ts : List Bytes) (acc : List Bytes) (x : Bytes) (hx : x ∈ acc) :
    (ts.foldl numStep acc).idxOf x = acc.idxOf x := by
  induction ts generalizing acc with
  | nil => rfl
  | cons t ts ih =>
    simp only [List.foldl_cons]
    rw [ih _ ((mem_numStep acc t x).2 (Or.inl hx)), idxOf_numStep_of_mem acc t x hx]

/-- **C13 (vertex names).** For any sequence of name tokens, the indices handed out are the
positions in the list of distinct names in order of first appearance: `0,1,2,…`, the same index
for the same name, and looking the index up in that list gives the name back. -/
theorem C13_named_numbering (toks : List Bytes) :
    (numbering toks).Nodup ∧
    (∀ x, x ∈ numbering toks ↔ x ∈ toks) ∧
    (∀ x ∈ toks, (numbering toks)[(numbering toks).idxOf x]? = some x) ∧
    (∀ pre x post, toks = pre ++ x :: post →
      (numbering toks).idxOf x = (numStep (numbering pre) x).idxOf x) := by
  have hmem : ∀ (ts acc : List Bytes) (x : Bytes), x ∈ ts.foldl numStep acc ↔ (x ∈ acc ∨ x ∈ ts) := by
    intro ts
    induction ts with
    | nil => intro acc x; simp
    | cons t ts ih =>
      intro acc x
      simp only [List.foldl_cons, ih, mem_numStep, List.mem_cons]
      constructor
      · rintro ((h | h) | h)
        · exact Or.inl h
        · exact Or.inr (Or.inl h)
        · exact Or.inr (Or.inr h)
      · rintro (h | h | h)
        · exact Or.inl (Or.inl h)
        · exact Or.inl (Or.inr h)
        · exact Or.inr h
  have hm : ∀ x, x ∈ numbering toks ↔ x ∈ toks := by
    intro x; have := hmem toks [] x; simpa [numbering] using this
  refine ⟨numbering_nodup toks, hm, ?_, ?_⟩
  · intro x hx
    have := (hm x).2 hx
    rw [List.getElem?_eq_getElem (List.idxOf_lt_length_of_mem this)]
    congr 1
    exact List.getElem_idxOf _
  · intro pre x post htoks
    subst htoks
    rw [numbering_append]
    simp only [List.foldl_cons]
    exact idxOf_foldl_numStep post _ x ((mem_numStep _ x x).2 (Or.inr rfl))

example : numbering [[1], [2], [1], [3], [2]] = [[1], [2], [3]] := by decide

end BGV

namespace BGV
open G FIO
variable {L : Type} [Inhabited L]

theorem set_idxOf_self (l : List Bytes) (x : Bytes) (hx : x ∈ l) : l.set (l.idxOf x) x = l := by
  apply List.ext_getElem?
  intro k
  rw [List.getElem?_set]
  by_cases hk : l.idxOf x = k
  · subst hk
    have hlt := List.idxOf_lt_length_of_mem hx
    simp only [hlt, if_true]
    rw [List.getElem?_eq_getElem hlt]
    congr 1
    exact (List.getElem_idxOf hlt).symm
  · simp [hk]

/-- the numbering after the two name tokens of a line -/
def num2 (acc : List Bytes) (a b : Bytes) : List Bytes := numStep (numStep acc a) b

/-- the name table after one line: still the numbering of the names seen so far -/
theorem names_update (acc : List Bytes) (a b : Bytes) :
    setName (setName (if max ((numStep acc a).idxOf a) ((num2 acc a b).idxOf b) ≥ acc.length
        then acc ++ List.replicate (max ((numStep acc a).idxOf a) ((num2 acc a b).idxOf b) + 1 - acc.length) [] else acc)
      ((numStep acc a).idxOf a) a) ((num2 acc a b).idxOf b) b = num2 acc a b := by
  by_cases ha : a ∈ acc
  · have h1 : numStep acc a = acc := by simp [numStep, ha]
    have hv1lt : acc.idxOf a < acc.length := List.idxOf_lt_length_of_mem ha
    by_cases hb : b ∈ acc
    · have h2 : num2 acc a b = acc := by unfold num2; rw [h1]; simp [numStep, hb]
      have hv2lt : acc.idxOf b < acc.length := List.idxOf_lt_length_of_mem hb
      rw [h1, h2, if_neg (by omega)]
      simp only [setName]
      rw [set_idxOf_self acc a ha, set_idxOf_self acc b hb]
    · have h2 : num2 acc a b = acc ++ [b] := by unfold num2; rw [h1]; simp [numStep, hb]
      have hv2 : (acc ++ [b]).idxOf b = acc.length := by rw [List.idxOf_append]; simp [hb]
      rw [h1, h2, hv2, if_pos (by omega)]
      have hmx : max (acc.idxOf a) acc.length + 1 - acc.length = 1 := by omega
      rw [hmx]
      simp only [List.replicate_one, setName]
      rw [List.set_append_left _ _ hv1lt, set_idxOf_self acc a ha, List.set_append_right _ _ (Nat.le_refl _)]
      simp
  · have h1 : numStep acc a = acc ++ [a] := by simp [numStep, ha]
    have hv1 : (acc ++ [a]).idxOf a = acc.length := by rw [List.idxOf_append]; simp [ha]
    by_cases hb : b ∈ acc ++ [a]
    · have h2 : num2 acc a b = acc ++ [a] := by unfold num2; rw [h1]; simp [numStep, hb]
      have hv2lt : (acc ++ [a]).idxOf b < acc.length + 1 := by
        have := List.idxOf_lt_length_of_mem hb; simpa using this
      rw [h1, h2, hv1, if_pos (by omega)]
      have hmx : max acc.length ((acc ++ [a]).idxOf b) + 1 - acc.length = 1 := by omega
      rw [hmx]
      simp only [List.replicate_one, setName]
      have e1 : (acc ++ [[]]).set acc.length a = acc ++ [a] := by
        rw [List.set_append_right _ _ (Nat.le_refl _)]; simp
      rw [e1, set_idxOf_self (acc ++ [a]) b hb]
    · have h2 : num2 acc a b = acc ++ [a] ++ [b] := by unfold num2; rw [h1]; simp [numStep, hb]
      have hv2 : (acc ++ [a] ++ [b]).idxOf b = acc.length + 1 := by rw [List.idxOf_append]; simp [hb]
      rw [h1, h2, hv1, hv2, if_pos (by omega)]
      have hmx : max acc.length (acc.length + 1) + 1 - acc.length = 2 := by omega
      rw [hmx]
      have e0 : List.replicate 2 ([] : Bytes) = [[], []] := rfl
      rw [e0]
      simp only [setName]
      have e1 : (acc ++ [[], []]).set acc.length a = acc ++ [a, []] := by
        rw [List.set_append_right _ _ (Nat.le_refl _)]; simp
      rw [e1]
      have e2 : (acc ++ [a, []]).set (acc.length + 1) b = acc ++ [a, b] := by
        rw [List.set_append_right _ _ (by omega)]; simp
      rw [e2]; simp

theorem num2_facts (acc : List Bytes) (a b : Bytes) :
    acc.length ≤ (numStep acc a).length ∧ (numStep acc a).length ≤ (num2 acc a b).length ∧
    (acc.length = (num2 acc a b).length ∨ (numStep acc a).idxOf a + 1 = (num2 acc a b).length ∨
      (num2 acc a b).idxOf b + 1 = (num2 acc a b).length) := by
  by_cases h1 : a ∈ acc
  · have e1 : numStep acc a = acc := by simp [numStep, h1]
    by_cases h2 : b ∈ acc
    · have e2 : num2 acc a b = acc := by unfold num2; rw [e1]; simp [numStep, h2]
      rw [e1, e2]; exact ⟨Nat.le_refl _, Nat.le_refl _, Or.inl rfl⟩
    · have e2 : num2 acc a b = acc ++ [b] := by unfold num2; rw [e1]; simp [numStep, h2]
      have e : (acc ++ [b]).idxOf b = acc.length := by rw [List.idxOf_append]; simp [h2]
      rw [e1, e2, e]; exact ⟨Nat.le_refl _, by simp, Or.inr (Or.inr (by simp))⟩
  · have e1 : numStep acc a = acc ++ [a] := by simp [numStep, h1]
    have ea : (acc ++ [a]).idxOf a = acc.length := by rw [List.idxOf_append]; simp [h1]
    by_cases h2 : b ∈ acc ++ [a]
    · have e2 : num2 acc a b = acc ++ [a] := by unfold num2; rw [e1]; simp [numStep, h2]
      rw [e1, e2, ea]; exact ⟨by simp, Nat.le_refl _, Or.inr (Or.inl (by simp))⟩
    · have e2 : num2 acc a b = acc ++ [a] ++ [b] := by unfold num2; rw [e1]; simp [numStep, h2]
      have eb : (acc ++ [a] ++ [b]).idxOf b = acc.length + 1 := by rw [List.idxOf_append]; simp [h2]
      rw [e1, e2, ea, eb]; exact ⟨by simp, by simp, Or.inr (Or.inr (by simp))⟩

/-- **one line of a vertex-labelled file**: with tokens `(a, b, c)`, the edge is created between
the positions of `a` and `b` in the numbering, the mapper's table and the name table are the
numbering extended by the new names, and the graph has one vertex per name. -/
theorem C13_named_line (und : Bool) (ofStr : Bytes → Res L) (st : LoadSt L) (acc : List Bytes) (line a b c : Bytes) (l : L)
    (hacc : acc.Nodup) (ht : st.table = tableOf acc) (hnm : st.names = acc) (hsz : st.g.size = acc.length)
    (hlen : st.g.adj.length = st.g.size)
    (hnc : (line.head? == some 35) = false) (htok : findEdgeFromString line = .ok (a, b, c)) (hl : ofStr c = .ok l) :
    ∃ st', loadLine und true ofStr st line = .ok st' ∧ st'.table = tableOf (num2 acc a b) ∧ st'.names = num2 acc a b ∧
      st'.g.size = (num2 acc a b).length ∧ st'.g.adj.length = st'.g.size ∧
      ctorStep (if und then uAddF else addF) (.ok st.g) ((numStep acc a).idxOf a, (num2 acc a b).idxOf b, l) = .ok st'.g := by
  obtain ⟨hv1, hv1lt⟩ := vertexOf_named st acc hacc ht a
  have hacc1 := numStep_nodup acc a hacc
  obtain ⟨hv2, hv2lt⟩ := vertexOf_named (⟨st.g, st.names, tableOf (numStep acc a)⟩ : LoadSt L) (numStep acc a) hacc1 rfl b
  have hv2' : vertexOf true (⟨st.g, st.names, tableOf (numStep acc a)⟩ : LoadSt L) b
      = .ok ((num2 acc a b).idxOf b, ⟨st.g, st.names, tableOf (num2 acc a b)⟩) := hv2
  have hv2lt' : (num2 acc a b).idxOf b < (num2 acc a b).length := hv2lt
  have hnames := names_update acc a b
  obtain ⟨f1, f2, f3⟩ := num2_facts acc a b
  have ha : AddOK (if und then uAddF else addF : G L → Nat → Nat → L → Bool → G L × Res Unit) := by
    cases und
    · exact addOK_addF
    · exact addOK_uAddF
  have hgrow : (if max ((numStep acc a).idxOf a) ((num2 acc a b).idxOf b) ≥ st.g.size
        then (st.g.resize (max ((numStep acc a).idxOf a) ((num2 acc a b).idxOf b) + 1)).1 else st.g)
      = st.g.grow (num2 acc a b).length := by
    by_cases hc : max ((numStep acc a).idxOf a) ((num2 acc a b).idxOf b) ≥ st.g.size
    · have hk : max ((numStep acc a).idxOf a) ((num2 acc a b).idxOf b) + 1 = (num2 acc a b).length := by omega
      simp only [hc, if_true, hk]; rfl
    · have hk : (num2 acc a b).length = st.g.size := by omega
      simp only [hc, if_false, hk, grow_self st.g hlen]
  have hnewsize : max st.g.size (max ((numStep acc a).idxOf a) ((num2 acc a b).idxOf b) + 1) = (num2 acc a b).length := by
    omega
  have hg1size : (st.g.grow (num2 acc a b).length).size = (num2 acc a b).length := grow_size st.g _ (by omega)
  have hg1len : (st.g.grow (num2 acc a b).length).adj.length = (st.g.grow (num2 acc a b).length).size := by
    rw [hg1size]; exact grow_len st.g hlen _ (by omega)
  have hi1 : (numStep acc a).idxOf a < (st.g.grow (num2 acc a b).length).size := by rw [hg1size]; omega
  have hi2 : (num2 acc a b).idxOf b < (st.g.grow (num2 acc a b).length).size := by rw [hg1size]; exact hv2lt'
  have hok := ha.ok (st.g.grow (num2 acc a b).length) ((numStep acc a).idxOf a) ((num2 acc a b).idxOf b) l hi1 hi2
  have hsize' := ha.size (st.g.grow (num2 acc a b).length) ((numStep acc a).idxOf a) ((num2 acc a b).idxOf b) l
  have hlen' := ha.len (st.g.grow (num2 acc a b).length) ((numStep acc a).idxOf a) ((num2 acc a b).idxOf b) l hg1len
  rw [ctorStep_as_grow _ st.g hlen]
  simp only [loadLine, hnc, Bool.false_eq_true, if_false, htok, Res.bind, hv1, hv2', hl, hgrow, hnewsize, chain]
  rw [hsz, hnm]
  cases und
  · simp only [Bool.false_eq_true, if_false, addF] at hok hsize' hlen' ⊢
    cases hr : (st.g.grow (num2 acc a b).length).dAddEdge ((numStep acc a).idxOf a) ((num2 acc a b).idxOf b) l true with
    | mk g2 r =>
      rw [hr] at hok hsize' hlen'; simp only at hok hsize' hlen'; subst hok
      exact ⟨_, rfl, rfl, hnames, by rw [hsize', hg1size], by rw [hlen', hsize'], rfl⟩
  · simp only [if_true, uAddF] at hok hsize' hlen' ⊢
    cases hr : (st.g.grow (num2 acc a b).length).uAddEdge ((numStep acc a).idxOf a) ((num2 acc a b).idxOf b) l true with
    | mk g2 r =>
      rw [hr] at hok hsize' hlen'; simp only at hok hsize' hlen'; subst hok
      exact ⟨_, rfl, rfl, hnames, by rw [hsize', hg1size], by rw [hlen', hsize'], rfl⟩

end BGV

namespace BGV
open G FIO
variable {L : Type} [Inhabited L]

/-- a parsed line of a vertex-labelled file: its text, its three tokens and the label value -/
structure NLine (L : Type) where
  text : Bytes
  a : Bytes
  b : Bytes
  c : Bytes
  l : L

def NLine.ok (ofStr : Bytes → Res L) (x : NLine L) : Prop :=
  (x.text.head? == some 35) = false ∧ findEdgeFromString x.text = .ok (x.a, x.b, x.c) ∧ ofStr x.c = .ok x.l

/-- the names seen after a list of lines, starting from `acc` -/
def namesAfter (acc : List Bytes) (ls : List (NLine L)) : List Bytes :=
  ls.foldl (fun acc x => num2 acc x.a x.b) acc

/-- the edges (between name indices) the lines create, starting from `acc` -/
def edgesAfter (acc : List Bytes) : List (NLine L) → List (Nat × Nat × L)
  | [] => []
  | x :: ls => ((numStep acc x.a).idxOf x.a, (num2 acc x.a x.b).idxOf x.b, x.l) :: edgesAfter (num2 acc x.a x.b) ls

theorem num2_nodup (acc : List Bytes) (a b : Bytes) (h : acc.Nodup) : (num2 acc a b).Nodup :=
  numStep_nodup _ b (numStep_nodup acc a h)

/-- **C13 (vertex-labelled files, whole file).** For any sequence of well-formed lines the loader
ends with: the name table = the distinct names in order of first appearance; one vertex per name;
and the graph built by the edge-list constructor steps over the name indices. -/
theorem C13_named_lines (und : Bool) (ofStr : Bytes → Res L) (ls : List (NLine L)) (hls : ∀ x ∈ ls, x.ok ofStr)
    (st : LoadSt L) (acc : List Bytes) (hacc : acc.Nodup) (ht : st.table = tableOf acc) (hnm : st.names = acc)
    (hsz : st.g.size = acc.length) (hlen : st.g.adj.length = st.g.size) :
    ∃ st', (ls.map (·.text)).foldl (fun (r : Res (LoadSt L)) line => r.bind (fun st => loadLine und true ofStr st line)) (.ok st)
        = .ok st' ∧
      st'.names = namesAfter acc ls ∧ st'.g.size = (namesAfter acc ls).length ∧
      (edgesAfter acc ls).foldl (ctorStep (if und then uAddF else addF)) (.ok st.g) = .ok st'.g := by
  induction ls generalizing st acc with
  | nil => exact ⟨st, rfl, hnm, hsz, rfl⟩
  | cons x ls ih =>
    obtain ⟨h1, h2, h3⟩ := hls x (by simp)
    obtain ⟨st1, e1, e2, e3, e4, e5, e6⟩ := C13_named_line und ofStr st acc x.text x.a x.b x.c x.l hacc ht hnm hsz hlen h1 h2 h3
    obtain ⟨st', f1, f2, f3, f4⟩ := ih (fun y hy => hls y (by simp [hy])) st1 (num2 acc x.a x.b) (num2_nodup acc x.a x.b hacc) e2 e3 e4 e5
    refine ⟨st', ?_, f2, f3, ?_⟩
    · simp only [List.map_cons, List.foldl_cons, Res.bind, e1]; exact f1
    · simp only [edgesAfter, List.foldl_cons]
      rw [e6]; exact f4

end BGV
