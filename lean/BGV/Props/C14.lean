import BGV.Model.FileIO
/-!
# Properties C14 / C15 (binary part) — binary edge lists

`writeBin` lays out one record per edge (two little-endian 32-bit indices, then the label's
`width` bytes); `binRecords` is the loader's record reader (as repaired: a record counts only when
all of its fields were read).  Proved for every edge list, every label codec of fixed width that
round-trips, and every cut offset.
-/
namespace BGV
open FIO

theorem le32_length (n : Nat) : (le32 n).length = 4 := rfl

theorem ofLe32_le32 (n : Nat) (h : n < 4294967296) : ofLe32 (le32 n) = n := by
  simp only [ofLe32, le32, List.getD_cons_zero, List.getD_cons_succ]
  have h0 : (UInt8.ofNat (n % 256)).toNat = n % 256 := by simp
  have h1 : (UInt8.ofNat (n / 256 % 256)).toNat = n / 256 % 256 := by simp
  have h2 : (UInt8.ofNat (n / 65536 % 256)).toNat = n / 65536 % 256 := by simp
  have h3 : (UInt8.ofNat (n / 16777216 % 256)).toNat = n / 16777216 % 256 := by simp
  rw [h0, h1, h2, h3]
  omega

/-- a fixed-width label codec that round-trips -/
structure Codec (L : Type) (width : Nat) where
  enc : L → Bytes
  dec : Bytes → L
  len : ∀ l, (enc l).length = width
  rt : ∀ l, dec (enc l) = l

def record {L : Type} {w : Nat} (c : Codec L w) (e : Nat × Nat × L) : Bytes := le32 e.1 ++ le32 e.2.1 ++ c.enc e.2.2

theorem record_length {L : Type} {w : Nat} (c : Codec L w) (e : Nat × Nat × L) : (record c e).length = 8 + w := by
  simp only [record, List.length_append, le32_length, c.len]

/-- **C14 layout:** the file is nothing but the records, so its length is edges × record size. -/
theorem C14_layout {L : Type} {w : Nat} (c : Codec L w) (es : List (Nat × Nat × L)) :
    writeBin c.enc es = es.flatMap (record c) ∧ (writeBin c.enc es).length = es.length * (8 + w) := by
  constructor
  · rfl
  · induction es with
    | nil => simp [writeBin]
    | cons e es ih =>
      simp only [writeBin, List.flatMap_cons, List.length_append] at ih ⊢
      rw [ih]
      have := record_length c e
      simp only [record, List.length_append] at this
      rw [List.length_cons, Nat.succ_mul]; omega

def EdgeOK {L : Type} (e : Nat × Nat × L) : Prop := e.1 < 4294967296 ∧ e.2.1 < 4294967296

theorem binRecords_record_append {L : Type} {w : Nat} (c : Codec L w) (e : Nat × Nat × L) (he : EdgeOK e)
    (rest : Bytes) (fuel : Nat) :
    binRecords w c.dec (fuel + 1) (record c e ++ rest) = e :: binRecords w c.dec fuel rest := by
  have hl := record_length c e
  have h1 : ¬ (record c e ++ rest).length < 8 + w := by simp [hl]
  simp only [binRecords, h1, if_false]
  have hshape : record c e ++ rest = le32 e.1 ++ (le32 e.2.1 ++ (c.enc e.2.2 ++ rest)) := by
    simp [record, List.append_assoc]
  have ht4 : (record c e ++ rest).take 4 = le32 e.1 := by
    rw [hshape]; exact List.take_left' (le32_length _)
  have hdr4 : (record c e ++ rest).drop 4 = le32 e.2.1 ++ (c.enc e.2.2 ++ rest) := by
    rw [hshape]; exact List.drop_left' (le32_length _)
  have hd4 : ((record c e ++ rest).drop 4).take 4 = le32 e.2.1 := by
    rw [hdr4]; exact List.take_left' (le32_length _)
  have hdr8 : (record c e ++ rest).drop 8 = c.enc e.2.2 ++ rest := by
    have : (record c e ++ rest).drop 8 = ((record c e ++ rest).drop 4).drop 4 := by simp
    rw [this, hdr4]; exact List.drop_left' (le32_length _)
  have hd8 : ((record c e ++ rest).drop 8).take w = c.enc e.2.2 := by
    rw [hdr8]; exact List.take_left' (c.len _)
  have hdr : (record c e ++ rest).drop (8 + w) = rest := by
    exact List.drop_left' hl
  rw [ht4, hd4, hd8, hdr, ofLe32_le32 _ he.1, ofLe32_le32 _ he.2, c.rt]

/-- **C14 round trip (record level):** reading back what was written yields exactly the edges,
in order, labels included. -/
theorem C14_roundtrip_records {L : Type} {w : Nat} (c : Codec L w) (es : List (Nat × Nat × L))
    (hes : ∀ e ∈ es, EdgeOK e) (fuel : Nat) (hf : es.length < fuel) :
    binRecords w c.dec fuel (writeBin c.enc es) = es := by
  induction es generalizing fuel with
  | nil =>
    cases fuel with
    | zero => omega
    | succ f => simp [writeBin, binRecords]
  | cons e es ih =>
    cases fuel with
    | zero => omega
    | succ f =>
      have : writeBin c.enc (e :: es) = record c e ++ writeBin c.enc es := by simp [writeBin, record]
      rw [this, binRecords_record_append c e (hes e (by simp))]
      rw [ih (fun x hx => hes x (by simp [hx])) f (by simp at hf; omega)]

/-- **C15 (binary): every cut offset.** Loading a file cut after `k` bytes yields exactly the
complete records before the cut — never an edge pieced together from a partial record. -/
theorem C15_truncated_records {L : Type} {w : Nat} (c : Codec L w) (es : List (Nat × Nat × L))
    (hes : ∀ e ∈ es, EdgeOK e) (k : Nat) (fuel : Nat) (hf : es.length < fuel) :
    binRecords w c.dec fuel ((writeBin c.enc es).take k) = es.take (k / (8 + w)) := by
  induction es generalizing k fuel with
  | nil =>
    cases fuel with
    | zero => omega
    | succ f => simp [writeBin, binRecords]
  | cons e es ih =>
    cases fuel with
    | zero => omega
    | succ f =>
      have hw : writeBin c.enc (e :: es) = record c e ++ writeBin c.enc es := by simp [writeBin, record]
      have hl := record_length c e
      by_cases hk : k < 8 + w
      · -- the cut falls inside the first record: nothing is read
        have hdiv : k / (8 + w) = 0 := Nat.div_eq_of_lt hk
        have hlen : ((writeBin c.enc (e :: es)).take k).length < 8 + w := by
          simp only [List.length_take]; omega
        simp only [binRecords, hlen, if_true, hdiv, List.take_zero]
      · have hk' : 8 + w ≤ k := by omega
        have htake : (writeBin c.enc (e :: es)).take k = record c e ++ (writeBin c.enc es).take (k - (8 + w)) := by
          rw [hw, List.take_append, hl]
          have : (record c e).take k = record c e := List.take_of_length_le (by omega)
          rw [this]
        rw [htake, binRecords_record_append c e (hes e (by simp))]
        rw [ih (fun x hx => hes x (by simp [hx])) _ f (by simp at hf; omega)]
        have hdiv : k / (8 + w) = (k - (8 + w)) / (8 + w) + 1 := by
          have hpos : 0 < 8 + w := by omega
          rw [← Nat.sub_add_cancel hk', Nat.add_div_right _ hpos]
          simp
        rw [hdiv, List.take_succ_cons]

/-- the integer codecs used for 1/2/4/8-byte labels have the right width -/
theorem leBytes_length (width : Nat) (z : Int) : (leBytes width z).length = width := by
  simp [leBytes]

example : binRecords 4 (ofLeBytes true 4) 10 (writeBin (leBytes 4) [(1, 0, 7), (3, 2, -77)]) = [(1, 0, 7), (3, 2, -77)] := by decide
example : binRecords 4 (ofLeBytes true 4) 10 ((writeBin (leBytes 4) [(1, 0, 7), (3, 2, -77)]).take 18) = [(1, 0, 7)] := by decide

end BGV
