import BGV.Model.Paths
import BGV.Algo.Bfs4
import BGV.Algo.AllPred3
import BGV.Algo.Bfs5
/-!
# Property C11 — breadth-first geodesics (part: `findVertexPredecessors`)

`Bfs.Walk adj s v k`: there is a walk of `k` hops from `s` to `v` along stored neighbour
entries.  Proved here for every adjacency structure whose entries are valid vertices (`WF`,
established for every reachable graph by `Inv.bound`) and every source in range:
distances are true minimum hop counts, the predecessor is an in-neighbour one hop closer,
unreachable vertices keep both sentinels.

The all-predecessor search (`C11_findAllVertexPredecessors`): true distances, and the predecessor
list of `v` is *exactly* the set of in-neighbours one hop closer, without repeats (graphs with
fewer than 2^32−1 vertices, so that no distance reaches the sentinel).

`findGeodesics` (`C11_findGeodesics`): `[source]` for the source itself, the empty path when the
destination is unreachable, otherwise a path along stored edges from source to destination with
exactly the minimum number of hops.

Not yet proved in Lean (correspondence only, exhaustive on all digraphs with ≤ 4 vertices and all
undirected graphs with ≤ 5): the multi-path machine behind `findAllGeodesics*`.
-/
namespace BGV
open Bfs

def Reachable (adj : Adj) (s v : Nat) : Prop := ∃ k, Walk adj s v k

theorem bfsRun_eq (adj : Adj) (s : Nat) :
    (bfsRun adj s).dist = (bfs adj s).dist ∧ (bfsRun adj s).pred = (bfs adj s).pred := by
  have h := loop_eq_loopG adj (2 * adj.length + 1) (init adj.length s) []
  simp only [bfsRun, bfs]
  rw [h]
  exact ⟨rfl, rfl⟩

/-- **C11, single-predecessor search.** For every reachable `v`, `dist v` is the length of a real
walk and no walk is shorter; for `v ≠ s` the predecessor is an in-neighbour exactly one hop
closer; every unreachable vertex carries the sentinel in both vectors. -/
theorem C11_findVertexPredecessors (adj : Adj) (s : Nat) (hwf : WF adj) (hs : s < adj.length) :
    let r := bfsRun adj s
    (∀ v, Reachable adj s v →
        Walk adj s v (r.dist.getD v MAX) ∧ (∀ k, Walk adj s v k → r.dist.getD v MAX ≤ k) ∧
        (v ≠ s → v ∈ nbrs adj (r.pred.getD v MAX) ∧
                 r.dist.getD v MAX = r.dist.getD (r.pred.getD v MAX) MAX + 1)) ∧
    (∀ v, ¬ Reachable adj s v → r.dist.getD v MAX = MAX ∧ r.pred.getD v MAX = MAX) := by
  intro r
  obtain ⟨h1, h2, h3, h4⟩ := bfs_correct adj s hwf hs
  have hd : ∀ v, r.dist.getD v MAX = (bfs adj s).d v := by
    intro v; show (bfsRun adj s).dist.getD v MAX = _; rw [(bfsRun_eq adj s).1]; rfl
  have hp : ∀ v, r.pred.getD v MAX = (bfs adj s).p v := by
    intro v; show (bfsRun adj s).pred.getD v MAX = _; rw [(bfsRun_eq adj s).2]; rfl
  constructor
  · intro v ⟨k, hk⟩
    have hseen := (h1 v k hk).1
    refine ⟨by rw [hd]; exact h2 v hseen, fun k' hk' => by rw [hd]; exact (h1 v k' hk').2, ?_⟩
    intro hvs
    rw [hp, hd, hd]
    exact h3 v hseen hvs
  · intro v hnr
    have : (bfs adj s).s v = false := by
      cases hsv : (bfs adj s).s v with
      | false => rfl
      | true => exact absurd ⟨_, h2 v hsv⟩ hnr
    rw [hd, hp]
    exact h4 v this

/-- every graph state satisfying the representation invariant is well-formed input for the search -/
theorem adjWF_iff (adj : Adj) : adjWF adj = true ↔ WF adj := by
  simp only [adjWF, List.all_eq_true, decide_eq_true_eq, WF]

/-- the public entry point: out-of-range source ⇒ `out_of_range`; otherwise the result above -/
theorem C11_entry {L : Type} (g : G L) (s : Nat) :
    (¬ s < g.size → findVertexPredecessors g s = .threw .oor) ∧
    (s < g.size → adjWF g.adj = true → ∃ r, findVertexPredecessors g s = .ok r ∧ r = bfsRun g.adj s) := by
  constructor
  · intro h; simp [findVertexPredecessors, h]
  · intro h hw; exact ⟨_, by simp [findVertexPredecessors, h, hw], rfl⟩

/-- **C11, all-predecessor search.** For every reachable `v`, `dist v` is the length of a real walk
and no walk is shorter; the predecessor list of `v` is exactly the set of in-neighbours one hop
closer, each listed once; unreachable vertices keep the sentinel and an empty list. -/
theorem C11_findAllVertexPredecessors (adj : Adj) (s : Nat) (hwf : WF adj) (hs : s < adj.length)
    (hn : adj.length < MAX) :
    let r := allPredRun adj s
    (∀ v, Reachable adj s v →
        Walk adj s v (r.dist.getD v MAX) ∧ (∀ k, Walk adj s v k → r.dist.getD v MAX ≤ k) ∧
        (∀ p, p ∈ r.preds.getD v [] ↔
          (Reachable adj s p ∧ v ∈ nbrs adj p ∧ r.dist.getD v MAX = r.dist.getD p MAX + 1)) ∧
        (r.preds.getD v []).Nodup) ∧
    (∀ v, ¬ Reachable adj s v → r.dist.getD v MAX = MAX ∧ r.preds.getD v [] = []) := by
  intro r
  obtain ⟨h1, h2, h3, h4, h5, _⟩ := AllPred.allpred_correct adj s hwf hs hn
  have hreach : ∀ v, Reachable adj s v ↔ (AllPred.loop adj (2 * adj.length + 1) (AllPred.init adj.length s) []).1.d v ≠ MAX := by
    intro v
    constructor
    · rintro ⟨k, hk⟩; exact (h1 v k hk).1
    · intro hv; exact ⟨_, h2 v hv⟩
  constructor
  · intro v hv
    have hvs := (hreach v).1 hv
    refine ⟨h2 v hvs, fun k hk => (h1 v k hk).2, ?_, h4 v⟩
    intro p
    show p ∈ (AllPred.loop adj (2 * adj.length + 1) (AllPred.init adj.length s) []).1.ps v ↔ _
    rw [h3 v hvs p, hreach p]
    rfl
  · intro v hv
    have hvs : (AllPred.loop adj (2 * adj.length + 1) (AllPred.init adj.length s) []).1.d v = MAX := by
      cases Nat.decEq ((AllPred.loop adj (2 * adj.length + 1) (AllPred.init adj.length s) []).1.d v) MAX with
      | isTrue h => exact h
      | isFalse h => exact absurd ((hreach v).2 h) hv
    exact ⟨hvs, h5 v hvs⟩

/-- the public entry point of the all-predecessor search -/
theorem C11_entry_all {L : Type} (g : G L) (s : Nat) :
    (¬ s < g.size → findAllVertexPredecessors g s = .threw .oor) ∧
    (s < g.size → adjWF g.adj = true → ∃ r, findAllVertexPredecessors g s = .ok r ∧ r = allPredRun g.adj s) := by
  constructor
  · intro h; simp [findAllVertexPredecessors, h]
  · intro h hw; exact ⟨_, by simp [findAllVertexPredecessors, h, hw], rfl⟩

example : (allPredRun [[1, 2], [3], [3], [], [0]] 0).preds = [[], [0], [0], [1, 2], []] ∧
    (allPredRun [[1, 2], [3], [3], [], [0]] 0).dist = [0, 1, 1, 2, MAX] := by decide

/-- **C11, findGeodesics.** -/
theorem C11_findGeodesics {L : Type} (g : G L) (s t : Nat) (hs : s < g.size) (ht : t < g.size)
    (hwf : adjWF g.adj = true) (hlen : g.adj.length = g.size) (hn : g.size ≤ MAX) :
    (s = t → findGeodesics g s t = .ok [s]) ∧
    (s ≠ t → ¬ Reachable g.adj s t → findGeodesics g s t = .ok []) ∧
    (s ≠ t → Reachable g.adj s t →
      ∃ path, findGeodesics g s t = .ok path ∧ chainOK g.adj path ∧ path.head? = some s ∧
        path.getLast? = some t ∧ Walk g.adj s t (path.length - 1) ∧ ∀ k, Walk g.adj s t k → path.length ≤ k + 1) := by
  have hr : (decide (s < g.size) && decide (t < g.size)) = true := by simp [hs, ht]
  have hWF : WF g.adj := (adjWF_iff g.adj).1 hwf
  have hs' : s < g.adj.length := by rw [hlen]; exact hs
  obtain ⟨h1, h2, h3, h4⟩ := bfs_correct g.adj s hWF hs'
  obtain ⟨htree, hdlt, hplen⟩ := bfs_predTree g.adj s hWF hs' (by rw [hlen]; exact hn)
  have hdle : ∀ v, (bfs g.adj s).s v = true → (bfs g.adj s).d v ≤ (bfs g.adj s).pred.length :=
    fun v hv => by have := hdlt v hv; omega
  have hfvp : findVertexPredecessors g s = .ok (bfsRun g.adj s) := by simp [findVertexPredecessors, hs, hwf]
  have hd : ∀ v, (bfsRun g.adj s).dist.getD v MAX = (bfs g.adj s).d v := by
    intro v; rw [(bfsRun_eq g.adj s).1]; rfl
  have hpred : (bfsRun g.adj s).pred = (bfs g.adj s).pred := (bfsRun_eq g.adj s).2
  have hseen_iff : ∀ v, (bfs g.adj s).s v = true ↔ Reachable g.adj s v := by
    intro v
    constructor
    · intro hv; exact ⟨_, h2 v hv⟩
    · rintro ⟨k, hk⟩; exact (h1 v k hk).1
  have hfin : ∀ v, (bfs g.adj s).s v = true → (bfs g.adj s).d v ≠ MAX := by
    intro v hv
    have h5 := hdlt v hv
    rw [hplen, hlen] at h5
    omega
  refine ⟨?_, ?_, ?_⟩
  · intro hst
    subst hst
    simp [findGeodesics, hs]
  · intro hst hnr
    have hns : (bfs g.adj s).s t = false := by
      cases hsv : (bfs g.adj s).s t with
      | false => rfl
      | true => exact absurd ((hseen_iff t).1 hsv) hnr
    simp only [findGeodesics, hr, Bool.not_true, Bool.false_eq_true, if_false, hst, hfvp, Res.bind, hd,
      (h4 t hns).1, ne_eq, not_true_eq_false]
  · intro hst hreach
    have hts := (hseen_iff t).2 hreach
    obtain ⟨res, r1, r2, r3, r4, r5⟩ := findPath_spec htree hdle t hts hst
    refine ⟨res, ?_, r2, r3, r4, ?_, ?_⟩
    · simp only [findGeodesics, hr, Bool.not_true, Bool.false_eq_true, if_false, hst, hfvp, Res.bind, hd,
        ne_eq, hfin t hts, not_false_eq_true, if_true, hpred, r1]
    · rw [r5]; simpa using h2 t hts
    · intro k hk
      rw [r5]
      have := (h1 t k hk).2
      omega

example : findGeodesics (⟨false, 5, [[1, 2], [3], [3], [], [0]], 5, []⟩ : G Nat) 0 3 = .ok [0, 1, 3] ∧
    findGeodesics (⟨false, 5, [[1, 2], [3], [3], [], [0]], 5, []⟩ : G Nat) 0 4 = .ok [] ∧
    findGeodesics (⟨false, 5, [[1, 2], [3], [3], [], [0]], 5, []⟩ : G Nat) 2 2 = .ok [2] := by decide

example : WF [[1, 2], [3], [3], [], [0]] ∧ (bfsRun [[1, 2], [3], [3], [], [0]] 0).dist = [0, 1, 1, 2, MAX] := by
  constructor
  · intro l hl j hj; revert l j; decide
  · decide

end BGV
