import BGV.Model.Paths
import BGV.Algo.Bfs4
import BGV.Algo.AllPred3
import BGV.Algo.Bfs5
import BGV.Algo.MultiPath3
import BGV.Algo.MultiPath4
/-!
# Property C11 — breadth-first geodesics (part: `findVertexPredecessors`)

`Bfs.Walk adj s v k`: there is a walk of `k` hops from `s` to `v` along stored neighbour
entries.  Proved here for every adjacency structure whose entries are valid vertices (`WF`,
established for every reachable graph by `Inv.bound`) and every source in range:
distances are true minimum hop counts, the predecessor is an in-neighbour one hop closer,
unreachable vertices keep both sentinels.

The all-predecessor search (`C11_findAllVertexPredecessors`): true distances, and the predecessor
list of `v` is *exactly* the set of in-neighbours one hop closer, without repeats (graphs with
fewer than 2^32−1 vertices, so that no distance reaches the sentinel).

`findGeodesics` (`C11_findGeodesics`): `[source]` for the source itself, the empty path when the
destination is unreachable, otherwise a path along stored edges from source to destination with
exactly the minimum number of hops.

`findAllGeodesics` (`C11_findAllGeodesics`): the two-stack machine returns exactly the set of all
shortest paths — each valid, none missing, none repeated.  (The model's machine carries a step
budget for structural recursion, `multiFuel n = (n+2)^(n+2)`; `MultiPath.fuel_enough` shows the
machine never needs that many steps, so the budget never binds and the theorem has no such premise.)
-/
namespace BGV
open Bfs

def Reachable (adj : Adj) (s v : Nat) : Prop := ∃ k, Walk adj s v k

theorem bfsRun_eq (adj : Adj) (s : Nat) :
    (bfsRun adj s).dist = (bfs adj s).dist ∧ (bfsRun adj s).pred = (bfs adj s).pred := by
  have h := loop_eq_loopG adj (2 * adj.length + 1) (init adj.length s) []
  simp only [bfsRun, bfs]
  rw [h]
  exact ⟨rfl, rfl⟩

/-- **C11, single-predecessor search.** For every reachable `v`, `dist v` is the length of a real
walk and no walk is shorter; for `v ≠ s` the predecessor is an in-neighbour exactly one hop
closer; every unreachable vertex carries the sentinel in both vectors. -/
theorem C11_findVertexPredecessors (adj : Adj) (s : Nat) (hwf : WF adj) (hs : s < adj.length) :
    let r := bfsRun adj s
    (∀ v, Reachable adj s v →
        Walk adj s v (r.dist.getD v MAX) ∧ (∀ k, Walk adj s v k → r.dist.getD v MAX ≤ k) ∧
        (v ≠ s → v ∈ nbrs adj (r.pred.getD v MAX) ∧
                 r.dist.getD v MAX = r.dist.getD (r.pred.getD v MAX) MAX + 1)) ∧
    (∀ v, ¬ Reachable adj s v → r.dist.getD v MAX = MAX ∧ r.pred.getD v MAX = MAX) := by
  intro r
  obtain ⟨h1, h2, h3, h4⟩ := bfs_correct adj s hwf hs
  have hd : ∀ v, r.dist.getD v MAX = (bfs adj s).d v := by
    intro v; show (bfsRun adj s).dist.getD v MAX = _; rw [(bfsRun_eq adj s).1]; rfl
  have hp : ∀ v, r.pred.getD v MAX = (bfs adj s).p v := by
    intro v; show (bfsRun adj s).pred.getD v MAX = _; rw [(bfsRun_eq adj s).2]; rfl
  constructor
  · intro v ⟨k, hk⟩
    have hseen := (h1 v k hk).1
    refine ⟨by rw [hd]; exact h2 v hseen, fun k' hk' => by rw [hd]; exact (h1 v k' hk').2, ?_⟩
    intro hvs
    rw [hp, hd, hd]
    exact h3 v hseen hvs
  · intro v hnr
    have : (bfs adj s).s v = false := by
      cases hsv : (bfs adj s).s v with
      | false => rfl
      | true => exact absurd ⟨_, h2 v hsv⟩ hnr
    rw [hd, hp]
    exact h4 v this

/-- every graph state satisfying the representation invariant is well-formed input for the search -/
theorem adjWF_iff (adj : Adj) : adjWF adj = true ↔ WF adj := by
  simp only [adjWF, List.all_eq_true, decide_eq_true_eq, WF]

/-- the public entry point: out-of-range source ⇒ `out_of_range`; otherwise the result above -/
theorem C11_entry {L : Type} (g : G L) (s : Nat) :
    (¬ s < g.size → findVertexPredecessors g s = .threw .oor) ∧
    (s < g.size → adjWF g.adj = true → ∃ r, findVertexPredecessors g s = .ok r ∧ r = bfsRun g.adj s) := by
  constructor
  · intro h; simp [findVertexPredecessors, h]
  · intro h hw; exact ⟨_, by simp [findVertexPredecessors, h, hw], rfl⟩

/-- **C11, all-predecessor search.** For every reachable `v`, `dist v` is the length of a real walk
and no walk is shorter; the predecessor list of `v` is exactly the set of in-neighbours one hop
closer, each listed once; unreachable vertices keep the sentinel and an empty list. -/
theorem C11_findAllVertexPredecessors (adj : Adj) (s : Nat) (hwf : WF adj) (hs : s < adj.length)
    (hn : adj.length < MAX) :
    let r := allPredRun adj s
    (∀ v, Reachable adj s v →
        Walk adj s v (r.dist.getD v MAX) ∧ (∀ k, Walk adj s v k → r.dist.getD v MAX ≤ k) ∧
        (∀ p, p ∈ r.preds.getD v [] ↔
          (Reachable adj s p ∧ v ∈ nbrs adj p ∧ r.dist.getD v MAX = r.dist.getD p MAX + 1)) ∧
        (r.preds.getD v []).Nodup) ∧
    (∀ v, ¬ Reachable adj s v → r.dist.getD v MAX = MAX ∧ r.preds.getD v [] = []) := by
  intro r
  obtain ⟨h1, h2, h3, h4, h5, _⟩ := AllPred.allpred_correct adj s hwf hs hn
  have hreach : ∀ v, Reachable adj s v ↔ (AllPred.loop adj (2 * adj.length + 1) (AllPred.init adj.length s) []).1.d v ≠ MAX := by
    intro v
    constructor
    · rintro ⟨k, hk⟩; exact (h1 v k hk).1
    · intro hv; exact ⟨_, h2 v hv⟩
  constructor
  · intro v hv
    have hvs := (hreach v).1 hv
    refine ⟨h2 v hvs, fun k hk => (h1 v k hk).2, ?_, h4 v⟩
    intro p
    show p ∈ (AllPred.loop adj (2 * adj.length + 1) (AllPred.init adj.length s) []).1.ps v ↔ _
    rw [h3 v hvs p, hreach p]
    rfl
  · intro v hv
    have hvs : (AllPred.loop adj (2 * adj.length + 1) (AllPred.init adj.length s) []).1.d v = MAX := by
      cases Nat.decEq ((AllPred.loop adj (2 * adj.length + 1) (AllPred.init adj.length s) []).1.d v) MAX with
      | isTrue h => exact h
      | isFalse h => exact absurd ((hreach v).2 h) hv
    exact ⟨hvs, h5 v hvs⟩

/-- the public entry point of the all-predecessor search -/
theorem C11_entry_all {L : Type} (g : G L) (s : Nat) :
    (¬ s < g.size → findAllVertexPredecessors g s = .threw .oor) ∧
    (s < g.size → adjWF g.adj = true → ∃ r, findAllVertexPredecessors g s = .ok r ∧ r = allPredRun g.adj s) := by
  constructor
  · intro h; simp [findAllVertexPredecessors, h]
  · intro h hw; exact ⟨_, by simp [findAllVertexPredecessors, h, hw], rfl⟩

example : (allPredRun [[1, 2], [3], [3], [], [0]] 0).preds = [[], [0], [0], [1, 2], []] ∧
    (allPredRun [[1, 2], [3], [3], [], [0]] 0).dist = [0, 1, 1, 2, MAX] := by decide

/-- **C11, findGeodesics.** -/
theorem C11_findGeodesics {L : Type} (g : G L) (s t : Nat) (hs : s < g.size) (ht : t < g.size)
    (hwf : adjWF g.adj = true) (hlen : g.adj.length = g.size) (hn : g.size ≤ MAX) :
    (s = t → findGeodesics g s t = .ok [s]) ∧
    (s ≠ t → ¬ Reachable g.adj s t → findGeodesics g s t = .ok []) ∧
    (s ≠ t → Reachable g.adj s t →
      ∃ path, findGeodesics g s t = .ok path ∧ chainOK g.adj path ∧ path.head? = some s ∧
        path.getLast? = some t ∧ Walk g.adj s t (path.length - 1) ∧ ∀ k, Walk g.adj s t k → path.length ≤ k + 1) := by
  have hr : (decide (s < g.size) && decide (t < g.size)) = true := by simp [hs, ht]
  have hWF : WF g.adj := (adjWF_iff g.adj).1 hwf
  have hs' : s < g.adj.length := by rw [hlen]; exact hs
  obtain ⟨h1, h2, h3, h4⟩ := bfs_correct g.adj s hWF hs'
  obtain ⟨htree, hdlt, hplen⟩ := bfs_predTree g.adj s hWF hs' (by rw [hlen]; exact hn)
  have hdle : ∀ v, (bfs g.adj s).s v = true → (bfs g.adj s).d v ≤ (bfs g.adj s).pred.length :=
    fun v hv => by have := hdlt v hv; omega
  have hfvp : findVertexPredecessors g s = .ok (bfsRun g.adj s) := by simp [findVertexPredecessors, hs, hwf]
  have hd : ∀ v, (bfsRun g.adj s).dist.getD v MAX = (bfs g.adj s).d v := by
    intro v; rw [(bfsRun_eq g.adj s).1]; rfl
  have hpred : (bfsRun g.adj s).pred = (bfs g.adj s).pred := (bfsRun_eq g.adj s).2
  have hseen_iff : ∀ v, (bfs g.adj s).s v = true ↔ Reachable g.adj s v := by
    intro v
    constructor
    · intro hv; exact ⟨_, h2 v hv⟩
    · rintro ⟨k, hk⟩; exact (h1 v k hk).1
  have hfin : ∀ v, (bfs g.adj s).s v = true → (bfs g.adj s).d v ≠ MAX := by
    intro v hv
    have h5 := hdlt v hv
    rw [hplen, hlen] at h5
    omega
  refine ⟨?_, ?_, ?_⟩
  · intro hst
    subst hst
    simp [findGeodesics, hs]
  · intro hst hnr
    have hns : (bfs g.adj s).s t = false := by
      cases hsv : (bfs g.adj s).s t with
      | false => rfl
      | true => exact absurd ((hseen_iff t).1 hsv) hnr
    simp only [findGeodesics, hr, Bool.not_true, Bool.false_eq_true, if_false, hst, hfvp, Res.bind, hd,
      (h4 t hns).1, ne_eq, not_true_eq_false]
  · intro hst hreach
    have hts := (hseen_iff t).2 hreach
    obtain ⟨res, r1, r2, r3, r4, r5⟩ := findPath_spec htree hdle t hts hst
    refine ⟨res, ?_, r2, r3, r4, ?_, ?_⟩
    · simp only [findGeodesics, hr, Bool.not_true, Bool.false_eq_true, if_false, hst, hfvp, Res.bind, hd,
        ne_eq, hfin t hts, not_false_eq_true, if_true, hpred, r1]
    · rw [r5]; simpa using h2 t hts
    · intro k hk
      rw [r5]
      have := (h1 t k hk).2
      omega

example : findGeodesics (⟨false, 5, [[1, 2], [3], [3], [], [0]], 5, []⟩ : G Nat) 0 3 = .ok [0, 1, 3] ∧
    findGeodesics (⟨false, 5, [[1, 2], [3], [3], [], [0]], 5, []⟩ : G Nat) 0 4 = .ok [] ∧
    findGeodesics (⟨false, 5, [[1, 2], [3], [3], [], [0]], 5, []⟩ : G Nat) 2 2 = .ok [2] := by decide

/-- **C11, findAllGeodesics.** `[[s]]` for the source itself, no path when the destination is
unreachable, otherwise exactly the set of all shortest paths, each listed once. -/
theorem C11_findAllGeodesics {L : Type} (g : G L) (s t : Nat) (hs : s < g.size) (ht : t < g.size)
    (hwf : adjWF g.adj = true) (hlen : g.adj.length = g.size) (hn : g.size < MAX) :
    (s = t → findAllGeodesics g s t = .ok [[s]]) ∧
    (s ≠ t → ¬ Reachable g.adj s t → findAllGeodesics g s t = .ok []) ∧
    (s ≠ t → Reachable g.adj s t →
      ∃ Ls, findAllGeodesics g s t = .ok Ls ∧ Ls.Nodup ∧
        ∀ path, path ∈ Ls ↔ (chainOK g.adj path ∧ path.head? = some s ∧ path.getLast? = some t ∧
          ∀ k, Walk g.adj s t k → path.length ≤ k + 1)) := by
  have hWF : WF g.adj := (adjWF_iff g.adj).1 hwf
  have hs' : s < g.adj.length := by rw [hlen]; exact hs
  have hn' : g.adj.length < MAX := by rw [hlen]; exact hn
  obtain ⟨hinv, hq⟩ := AllPred.final_inv g.adj s hWF hs' hn'
  obtain ⟨f1, f2, f3, f4, f5⟩ := AllPred.final_of_inv hinv hq
  -- names for the result vectors
  obtain ⟨r, hrdef⟩ : ∃ r, r = (AllPred.loop g.adj (2 * g.adj.length + 1) (AllPred.init g.adj.length s) []).1 := ⟨_, rfl⟩
  rw [← hrdef] at hinv hq f1 f2 f3 f4 f5
  have hrun : allPredRun g.adj s = ⟨r.dist, r.preds, (AllPred.loop g.adj (2 * g.adj.length + 1) (AllPred.init g.adj.length s) []).2⟩ := by
    rw [hrdef]; rfl
  have hfap : findAllVertexPredecessors g s = .ok (allPredRun g.adj s) := by
    simp [findAllVertexPredecessors, hs, hwf]
  have hr : (decide (s < g.size) && decide (t < g.size)) = true := by simp [hs, ht]
  have hreach : ∀ v, Reachable g.adj s v ↔ r.d v ≠ MAX := by
    intro v
    constructor
    · rintro ⟨k, hk⟩; exact (f1 v k hk).1
    · intro hv; exact ⟨_, f2 v hv⟩
  refine ⟨?_, ?_, ?_⟩
  · intro hst; subst hst; simp [findAllGeodesics, hs]
  · intro hst hnr
    have hdt : r.d t = MAX := by
      cases Nat.decEq (r.d t) MAX with
      | isTrue h => exact h
      | isFalse h => exact absurd ((hreach t).2 h) hnr
    have : (allPredRun g.adj s).dist.getD t MAX = MAX := by rw [hrun]; exact hdt
    simp only [findAllGeodesics, hr, Bool.not_true, Bool.false_eq_true, if_false, hst, hfap, Res.bind, this,
      ne_eq, not_true_eq_false]
  · intro hst hrt
    have htfin : r.d t ≠ MAX := (hreach t).1 hrt
    have hdist : (allPredRun g.adj s).dist.getD t MAX ≠ MAX := by rw [hrun]; exact htfin
    -- the predecessor structure
    have hPS : MultiPath.PS r.preds s (fun v => r.d v ≠ MAX) r.d := by
      refine ⟨?_, ⟨by rw [hinv.src.1]; decide, hinv.src.2.2.1⟩, ?_, ?_⟩
      · intro c hc
        have := hinv.seenlt c hc
        simp [List.getD_eq_getElem?_getD, hinv.sized.hp, this]
      · intro c hc hcs; exact hinv.tree c hc hcs
      · intro c _ p hp
        obtain ⟨p1, _, p3⟩ := hinv.pvalid c p hp
        exact ⟨p1, by omega⟩
    have hF : MultiPath.Final g.adj s r.d (fun v => r.preds.getD v []) (fun v => r.d v ≠ MAX) :=
      ⟨⟨by rw [hinv.src.1]; decide, hinv.src.1⟩, f1, f2, f3⟩
    have hgett : r.preds[t]? = some (r.preds.getD t []) := hPS.get t htfin
    have hstack_ok : ∀ e ∈ ((r.preds.getD t []).map (fun p => (p, ([] : List Nat)))).reverse, r.d e.1 ≠ MAX := by
      intro e he
      simp only [List.mem_reverse, List.mem_map] at he
      obtain ⟨p, hp, rfl⟩ := he
      exact (hinv.pvalid t p hp).1
    -- the step budget is never reached
    have hsteps : MultiPath.stackCnt r.preds s r.d (((r.preds.getD t []).map (fun p => (p, ([] : List Nat)))).reverse)
        < multiFuel r.preds.length := by
      have hlenp : ∀ c, (r.preds.getD c []).length ≤ g.adj.length := fun c =>
        pigeon _ _ (hinv.pnodup c) (fun p hp => hinv.seenlt p (hinv.pvalid c p hp).1)
      have hrk : ∀ e ∈ ((r.preds.getD t []).map (fun p => (p, ([] : List Nat)))).reverse, r.d e.1 ≤ g.adj.length := by
        intro e he
        have := AllPred.dist_lt_n hinv e.1 (hstack_ok e he)
        omega
      have h1 := MultiPath.stackCnt_le r.preds s g.adj.length g.adj.length r.d hlenp _ hrk
      have h2 : (((r.preds.getD t []).map (fun p => (p, ([] : List Nat)))).reverse).length ≤ g.adj.length := by
        simp only [List.length_reverse, List.length_map]; exact hlenp t
      have h3 := MultiPath.fuel_enough g.adj.length _ h2
      rw [hinv.sized.hp]
      unfold multiFuel
      omega
    have hrunm := MultiPath.multiLoop_spec (t := t) hPS (multiFuel r.preds.length) _ [] hstack_ok hsteps
    refine ⟨MultiPath.stackEnum r.preds s t r.d (((r.preds.getD t []).map (fun p => (p, ([] : List Nat)))).reverse), ?_, ?_, ?_⟩
    · simp only [findAllGeodesics, hr, Bool.not_true, Bool.false_eq_true, if_false, hst, hfap, Res.bind,
        hdist, ne_eq, not_false_eq_true, if_true, findMultiplePathsFromPredecessors]
      rw [hrun]
      simp only [hgett, hrunm, List.nil_append]
    · -- no path is repeated
      simp only [MultiPath.stackEnum, List.Nodup]
      rw [List.pairwise_flatMap]
      constructor
      · intro e he
        exact MultiPath.enum_nodup hPS (fun c => hinv.pnodup c) _ e.1 e.2 (hstack_ok e he) (Nat.le_refl _)
      · have hnd : (((r.preds.getD t []).map (fun p => (p, ([] : List Nat)))).reverse).Nodup := by
          have h0 := hinv.pnodup t
          simp only [List.Nodup] at h0 ⊢
          rw [List.pairwise_reverse, List.pairwise_map]
          exact h0.imp (fun hab => fun e => hab (Prod.mk.inj e).1.symm)
        refine List.Pairwise.imp_of_mem ?_ hnd
        intro a b ha hb hab x hx y hy hxy
        obtain ⟨q1, hq1, rfl⟩ := (MultiPath.enum_mem hPS _ a.1 a.2 (hstack_ok a ha) (Nat.le_refl _) x).1 hx
        obtain ⟨q2, hq2, e2⟩ := (MultiPath.enum_mem hPS _ b.1 b.2 (hstack_ok b hb) (Nat.le_refl _) y).1 hy
        simp only [List.mem_reverse, List.mem_map] at ha hb
        obtain ⟨pa, _, rfl⟩ := ha
        obtain ⟨pb, _, rfl⟩ := hb
        rw [e2] at hxy
        have : q1 = q2 := by
          have h1 : q1 ++ ([] ++ [t]) = q2 ++ ([] ++ [t]) := by simpa [List.append_assoc] using hxy
          exact List.append_cancel_right h1
        subst this
        have l1 := MultiPath.pc_last hq1
        have l2 := MultiPath.pc_last hq2
        rw [l1] at l2
        apply hab
        have : pa = pb := Option.some.inj l2
        rw [this]
    · -- exactly the shortest paths
      intro path
      have hmem : path ∈ MultiPath.stackEnum r.preds s t r.d (((r.preds.getD t []).map (fun p => (p, ([] : List Nat)))).reverse)
          ↔ MultiPath.PC r.preds s path t := by
        simp only [MultiPath.stackEnum, List.mem_flatMap, List.mem_reverse, List.mem_map]
        constructor
        · rintro ⟨e, ⟨p, hp, rfl⟩, hx⟩
          obtain ⟨q, hq, rfl⟩ := (MultiPath.enum_mem hPS _ p [] (hinv.pvalid t p hp).1 (Nat.le_refl _) path).1 hx
          simpa using MultiPath.PC.step hq hp (fun e => hst e.symm)
        · intro hpc
          obtain ⟨q0, p, rfl, hq0, hp⟩ := MultiPath.pc_inv hpc (fun e => hst e.symm)
          exact ⟨(p, []), ⟨p, hp, rfl⟩,
            (MultiPath.enum_mem hPS _ p [] (hinv.pvalid t p hp).1 (Nat.le_refl _) _).2 ⟨q0, hq0, by simp⟩⟩
      rw [hmem, MultiPath.pc_iff_geo hF path t htfin]
      simp only [MultiPath.Geo]
      constructor
      · rintro ⟨g1, g2, g3, g4⟩
        refine ⟨g1, g2, g3, ?_⟩
        intro k hk; have := (f1 t k hk).2; omega
      · rintro ⟨g1, g2, g3, g4⟩
        refine ⟨g1, g2, g3, ?_⟩
        have hne : path ≠ [] := by intro e; subst e; simp at g2
        have hlen1 : path.length = (path.length - 1) + 1 := by
          cases path with
          | nil => exact absurd rfl hne
          | cons a l => simp
        have hw := MultiPath.chain_walk g.adj s (path.length - 1) path t hlen1 g1 g2 g3
        have h1 := (f1 t _ hw).2
        have h2 := g4 (r.d t) (f2 t htfin)
        omega

example : findAllGeodesics (⟨false, 5, [[1, 2], [3], [3], [], [0]], 5, []⟩ : G Nat) 0 3 = .ok [[0, 2, 3], [0, 1, 3]] := by
  decide

example : WF [[1, 2], [3], [3], [], [0]] ∧ (bfsRun [[1, 2], [3], [3], [], [0]] 0).dist = [0, 1, 1, 2, MAX] := by
  constructor
  · intro l hl j hj; revert l j; decide
  · decide

end BGV
