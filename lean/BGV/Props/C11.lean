import BGV.Model.Paths
import BGV.Algo.Bfs4
import BGV.Algo.AllPred3
/-!
# Property C11 — breadth-first geodesics (part: `findVertexPredecessors`)

`Bfs.Walk adj s v k`: there is a walk of `k` hops from `s` to `v` along stored neighbour
entries.  Proved here for every adjacency structure whose entries are valid vertices (`WF`,
established for every reachable graph by `Inv.bound`) and every source in range:
distances are true minimum hop counts, the predecessor is an in-neighbour one hop closer,
unreachable vertices keep both sentinels.

The all-predecessor search (`C11_findAllVertexPredecessors`): true distances, and the predecessor
list of `v` is *exactly* the set of in-neighbours one hop closer, without repeats (graphs with
fewer than 2^32−1 vertices, so that no distance reaches the sentinel).

Not yet proved in Lean (correspondence only, exhaustive on all digraphs with ≤ 4 vertices and all
undirected graphs with ≤ 5): the two path-reconstruction machines.
-/
namespace BGV
open Bfs

def Reachable (adj : Adj) (s v : Nat) : Prop := ∃ k, Walk adj s v k

theorem bfsRun_eq (adj : Adj) (s : Nat) :
    (bfsRun adj s).dist = (bfs adj s).dist ∧ (bfsRun adj s).pred = (bfs adj s).pred := by
  have h := loop_eq_loopG adj (2 * adj.length + 1) (init adj.length s) []
  simp only [bfsRun, bfs]
  rw [h]
  exact ⟨rfl, rfl⟩

/-- **C11, single-predecessor search.** For every reachable `v`, `dist v` is the length of a real
walk and no walk is shorter; for `v ≠ s` the predecessor is an in-neighbour exactly one hop
closer; every unreachable vertex carries the sentinel in both vectors. -/
theorem C11_findVertexPredecessors (adj : Adj) (s : Nat) (hwf : WF adj) (hs : s < adj.length) :
    let r := bfsRun adj s
    (∀ v, Reachable adj s v →
        Walk adj s v (r.dist.getD v MAX) ∧ (∀ k, Walk adj s v k → r.dist.getD v MAX ≤ k) ∧
        (v ≠ s → v ∈ nbrs adj (r.pred.getD v MAX) ∧
                 r.dist.getD v MAX = r.dist.getD (r.pred.getD v MAX) MAX + 1)) ∧
    (∀ v, ¬ Reachable adj s v → r.dist.getD v MAX = MAX ∧ r.pred.getD v MAX = MAX) := by
  intro r
  obtain ⟨h1, h2, h3, h4⟩ := bfs_correct adj s hwf hs
  have hd : ∀ v, r.dist.getD v MAX = (bfs adj s).d v := by
    intro v; show (bfsRun adj s).dist.getD v MAX = _; rw [(bfsRun_eq adj s).1]; rfl
  have hp : ∀ v, r.pred.getD v MAX = (bfs adj s).p v := by
    intro v; show (bfsRun adj s).pred.getD v MAX = _; rw [(bfsRun_eq adj s).2]; rfl
  constructor
  · intro v ⟨k, hk⟩
    have hseen := (h1 v k hk).1
    refine ⟨by rw [hd]; exact h2 v hseen, fun k' hk' => by rw [hd]; exact (h1 v k' hk').2, ?_⟩
    intro hvs
    rw [hp, hd, hd]
    exact h3 v hseen hvs
  · intro v hnr
    have : (bfs adj s).s v = false := by
      cases hsv : (bfs adj s).s v with
      | false => rfl
      | true => exact absurd ⟨_, h2 v hsv⟩ hnr
    rw [hd, hp]
    exact h4 v this

/-- every graph state satisfying the representation invariant is well-formed input for the search -/
theorem adjWF_iff (adj : Adj) : adjWF adj = true ↔ WF adj := by
  simp only [adjWF, List.all_eq_true, decide_eq_true_eq, WF]

/-- the public entry point: out-of-range source ⇒ `out_of_range`; otherwise the result above -/
theorem C11_entry {L : Type} (g : G L) (s : Nat) :
    (¬ s < g.size → findVertexPredecessors g s = .threw .oor) ∧
    (s < g.size → adjWF g.adj = true → ∃ r, findVertexPredecessors g s = .ok r ∧ r = bfsRun g.adj s) := by
  constructor
  · intro h; simp [findVertexPredecessors, h]
  · intro h hw; exact ⟨_, by simp [findVertexPredecessors, h, hw], rfl⟩

/-- **C11, all-predecessor search.** For every reachable `v`, `dist v` is the length of a real walk
and no walk is shorter; the predecessor list of `v` is exactly the set of in-neighbours one hop
closer, each listed once; unreachable vertices keep the sentinel and an empty list. -/
theorem C11_findAllVertexPredecessors (adj : Adj) (s : Nat) (hwf : WF adj) (hs : s < adj.length)
    (hn : adj.length < MAX) :
    let r := allPredRun adj s
    (∀ v, Reachable adj s v →
        Walk adj s v (r.dist.getD v MAX) ∧ (∀ k, Walk adj s v k → r.dist.getD v MAX ≤ k) ∧
        (∀ p, p ∈ r.preds.getD v [] ↔
          (Reachable adj s p ∧ v ∈ nbrs adj p ∧ r.dist.getD v MAX = r.dist.getD p MAX + 1)) ∧
        (r.preds.getD v []).Nodup) ∧
    (∀ v, ¬ Reachable adj s v → r.dist.getD v MAX = MAX ∧ r.preds.getD v [] = []) := by
  intro r
  obtain ⟨h1, h2, h3, h4, h5, _⟩ := AllPred.allpred_correct adj s hwf hs hn
  have hreach : ∀ v, Reachable adj s v ↔ (AllPred.loop adj (2 * adj.length + 1) (AllPred.init adj.length s) []).1.d v ≠ MAX := by
    intro v
    constructor
    · rintro ⟨k, hk⟩; exact (h1 v k hk).1
    · intro hv; exact ⟨_, h2 v hv⟩
  constructor
  · intro v hv
    have hvs := (hreach v).1 hv
    refine ⟨h2 v hvs, fun k hk => (h1 v k hk).2, ?_, h4 v⟩
    intro p
    show p ∈ (AllPred.loop adj (2 * adj.length + 1) (AllPred.init adj.length s) []).1.ps v ↔ _
    rw [h3 v hvs p, hreach p]
    rfl
  · intro v hv
    have hvs : (AllPred.loop adj (2 * adj.length + 1) (AllPred.init adj.length s) []).1.d v = MAX := by
      cases Nat.decEq ((AllPred.loop adj (2 * adj.length + 1) (AllPred.init adj.length s) []).1.d v) MAX with
      | isTrue h => exact h
      | isFalse h => exact absurd ((hreach v).2 h) hv
    exact ⟨hvs, h5 v hvs⟩

/-- the public entry point of the all-predecessor search -/
theorem C11_entry_all {L : Type} (g : G L) (s : Nat) :
    (¬ s < g.size → findAllVertexPredecessors g s = .threw .oor) ∧
    (s < g.size → adjWF g.adj = true → ∃ r, findAllVertexPredecessors g s = .ok r ∧ r = allPredRun g.adj s) := by
  constructor
  · intro h; simp [findAllVertexPredecessors, h]
  · intro h hw; exact ⟨_, by simp [findAllVertexPredecessors, h, hw], rfl⟩

example : (allPredRun [[1, 2], [3], [3], [], [0]] 0).preds = [[], [0], [0], [1, 2], []] ∧
    (allPredRun [[1, 2], [3], [3], [], [0]] 0).dist = [0, 1, 1, 2, MAX] := by decide

example : WF [[1, 2], [3], [3], [], [0]] ∧ (bfsRun [[1, 2], [3], [3], [], [0]] 0).dist = [0, 1, 1, 2, MAX] := by
  constructor
  · intro l hl j hj; revert l j; decide
  · decide

end BGV
