import BGV.Model.Graph
import BGV.Proofs.Inv
import BGV.Proofs.Directed
import BGV.Proofs.RefineD
/-!
# BGV.Props.C01F — C01 for the emptying idiom `while (!N(v).empty()) g.removeEdge(v, N(v).front())`

`dRemoveFrontEdge` (BGV/Model/Graph.lean) is what the driver runs for the protocol verb `removeFrontEdge` on the
directed simple classes; the harness passes `g.getOutNeighbours(v).front()` *by reference* into `removeEdge`, so a
signature change to reference parameters (seeded change C17-removeedge-const-ref-indices) reads freed memory
there.  Proved here: on every reachable state the call is never rejected, removes exactly the edge to the first
successor (refinement to the abstract `remove`), leaves every other list alone; and the loop ends after exactly
`|N(v)|` calls with `N(v)` empty and the invariant intact.
-/
set_option linter.unusedSectionVars false
namespace BGV
namespace G
variable {L : Type} [Inhabited L]

/-- the emptying loop `while (!N(v).empty()) g.removeEdge(v, N(v).front())`, with fuel -/
def emptyOut (g : G L) (i : Nat) : Nat → G L
  | 0 => g
  | k + 1 => emptyOut (g.dRemoveFrontEdge i).1 i k

theorem removeFront_step (g : G L) (hg : Inv g) (i : Nat) (hi : i < g.size) (j : Nat) (r : List Nat)
    (hnb : g.nb i = j :: r) :
    g.dRemoveFrontEdge i = (g.dRemoveEdgeCore i j, .ok true) := by
  have hj : j < g.size := hg.bound i j (by rw [hnb]; exact List.mem_cons_self)
  simp [dRemoveFrontEdge, getOutNeighbours, dRemoveEdge, inR, hi, hj, hnb]

end G
open G
variable {L : Type} [Inhabited L]

theorem C01_removeFront (g : G L) (hg : Inv g) (i : Nat) (hi : i < g.size) (j : Nat) (r : List Nat)
    (hnb : g.nb i = j :: r) :
    (g.dRemoveFrontEdge i).2 = .ok true ∧ Inv (g.dRemoveFrontEdge i).1 ∧
    absD (g.dRemoveFrontEdge i).1 = (absD g).remove i j ∧
    (g.dRemoveFrontEdge i).1.nb i = r ∧ ∀ k, k ≠ i → (g.dRemoveFrontEdge i).1.nb k = g.nb k := by
  rw [removeFront_step g hg i hi j r hnb]
  refine ⟨rfl, inv_dRemoveEdgeCore g hg i j, absD_dRemoveEdgeCore g i j, ?_, ?_⟩
  · rw [nb_dRemoveEdgeCore, if_pos rfl, hnb]
    have hnd := hg.nodup i
    rw [hnb] at hnd
    have hjr : j ∉ r := (List.nodup_cons.1 hnd).1
    simp only [List.filter_cons, bne_self_eq_false, Bool.false_eq_true, if_false]
    apply List.filter_eq_self.2
    intro x hx
    have : x ≠ j := fun h => hjr (h ▸ hx)
    simpa using this
  · intro k hk
    rw [nb_dRemoveEdgeCore, if_neg (fun h => hk h.symm)]

theorem C01_removeFront_empty (g : G L) (i : Nat) (hi : i < g.size) (hnb : g.nb i = []) :
    g.dRemoveFrontEdge i = (g, .ok false) := by
  simp [dRemoveFrontEdge, getOutNeighbours, inR, hi, hnb]

/-- The emptying loop terminates after exactly `|N(i)|` calls, none of which is rejected, with `N(i)` empty,
every other neighbour list untouched and the representation invariant intact. -/
theorem C01_emptying_loop (g : G L) (hg : Inv g) (i : Nat) (hi : i < g.size) :
    (emptyOut g i (g.nb i).length).nb i = [] ∧ Inv (emptyOut g i (g.nb i).length) ∧
    (emptyOut g i (g.nb i).length).size = g.size ∧
    ∀ k, k ≠ i → (emptyOut g i (g.nb i).length).nb k = g.nb k := by
  generalize hn : (g.nb i).length = n
  induction n generalizing g with
  | zero =>
    refine ⟨?_, hg, rfl, fun _ _ => rfl⟩
    simpa [emptyOut] using List.length_eq_zero_iff.1 hn
  | succ n ih =>
    match hnb : g.nb i, hn with
    | j :: r, hn =>
      have h := C01_removeFront g hg i hi j r hnb
      have hstep := removeFront_step g hg i hi j r hnb
      have hsz : (g.dRemoveFrontEdge i).1.size = g.size := by rw [hstep]; simp
      have hlen : ((g.dRemoveFrontEdge i).1.nb i).length = n := by
        rw [h.2.2.2.1]; simpa using hn
      have := ih (g.dRemoveFrontEdge i).1 h.2.1 (by rw [hsz]; exact hi) hlen
      simp only [emptyOut]
      refine ⟨this.1, this.2.1, by rw [this.2.2.1, hsz], ?_⟩
      intro k hk
      rw [this.2.2.2 k hk, h.2.2.2.2 k hk]

example : let g : G Nat := ⟨false, 3, [[1, 2, 0], [], [1]], 4, []⟩
    (emptyOut g 0 3).adj = [[], [], [1]] ∧ (emptyOut g 0 3).edgeNumber = 1 := by decide
end BGV
