import BGV.Props.C01
import BGV.Props.C08
import BGV.Props.C11
import BGV.Model.FileIO
/-!
# Property C17 — no undefined behaviour on valid use (the part the model carries)

The model has an explicit outcome `ub` for: an unchecked index past a vector, dereferencing a
past-the-end edge iterator, a never-terminating reconstruction loop, an uninitialised loader local.
These theorems show that outcome is unreachable from valid use.  Object-lifetime UB
(`erase(j++)`, iterator invalidation) is outside the model and left to the multi-configuration
runs of the C17 check (sanitizers, libstdc++ debug mode, valgrind).
-/
set_option linter.unusedSectionVars false
namespace BGV
open G
variable {L : Type} [Inhabited L]

theorem Res.bind_ne_ub {α β : Type} (r : Res α) (f : α → Res β) (hr : r ≠ .ub) (hf : ∀ a, f a ≠ .ub) :
    r.bind f ≠ .ub := by
  cases r with
  | ok a => exact hf a
  | threw e => simp [Res.bind]
  | ub => exact absurd rfl hr

theorem Res.map_ne_ub {α β : Type} (r : Res α) (f : α → β) (hr : r ≠ .ub) : r.map f ≠ .ub := by
  cases r <;> simp_all [Res.map]

theorem dAddEdge_ne_ub (g : G L) (i j : Nat) (l : L) (f : Bool) : (g.dAddEdge i j l f).2 ≠ .ub := by
  unfold dAddEdge; split
  · simp
  · split <;> simp

theorem uAddEdge_ne_ub (g : G L) (i j : Nat) (l : L) (f : Bool) : (g.uAddEdge i j l f).2 ≠ .ub := by
  unfold uAddEdge; split
  · simp
  · split <;> simp

/-- no public directed mutator (force off) ever has outcome `ub`, valid arguments or not -/
theorem C17_dStep_no_ub (g : G L) (op : SOp L) : (g.dStep op).2 ≠ .ub := by
  cases op with
  | addEdge i j l => exact dAddEdge_ne_ub g i j l false
  | addReciprocalEdge i j l =>
    simp only [dStep, dAddReciprocalEdge]
    split
    · exact dAddEdge_ne_ub _ j i l false
    · rename_i hne
      have := dAddEdge_ne_ub g i j l false
      cases h : g.dAddEdge i j l false with
      | mk g1 r =>
        cases r with
        | ok u => exact absurd h (by intro hh; exact hne g1 u hh)
        | threw e => simp
        | ub => rw [h] at this; exact absurd rfl this
  | removeEdge i j => simp only [dStep, dRemoveEdge]; split <;> simp
  | removeSelfLoops => simp [dStep]
  | removeVertexFromEdgeList v => simp only [dStep, dRemoveVertex]; split <;> simp
  | clearEdges => simp [dStep]
  | resize m => simp only [dStep, resize]; split <;> simp
  | setEdgeLabel i j l =>
    simp only [dStep, dSetEdgeLabel]
    split
    · simp
    · split <;> simp

/-- every position the directed edge traversal visits can be dereferenced -/
theorem C17_iter_deref_defined (g : G L) (c : Nat × Nat) (hn : g.Normal c) (he : c ≠ g.itEnd) :
    g.itDeref c ≠ .ub := by
  have hp : c.2 < (g.nb c.1).length := by
    rcases hn.2 with h | h
    · exact h
    · exact absurd h he
  simp only [itDeref]
  have : (g.nb c.1)[c.2]? = some (g.nb c.1)[c.2] := by simp [hp]
  rw [this]; simp

/-- the observers defined by enumeration index their result vectors in bounds -/
theorem C17_enumeration_observers_no_ub (g : G L) (hg : Inv g) :
    g.dGetInDegrees ≠ .ub ∧ g.dGetAdjacencyMatrix ≠ .ub := by
  obtain ⟨⟨l, hl⟩, ⟨m, hm⟩⟩ := C08_enumeration_defined g hg
  rw [hl, hm]; simp

theorem G.Inv.adjWF {g : G L} (hg : Inv g) : adjWF g.adj = true := by
  simp only [BGV.adjWF, List.all_eq_true, decide_eq_true_eq]
  intro l hl j hj
  obtain ⟨i, hi, rfl⟩ := List.getElem_of_mem hl
  have : g.nb i = g.adj[i] := by simp [nb, List.getD_eq_getElem?_getD, hi]
  rw [hg.len]
  exact hg.bound i j (by rw [this]; exact hj)

/-- the breadth-first search never indexes its vectors out of bounds on a graph built through
the public API -/
theorem C17_bfs_no_ub (g : G L) (hg : Inv g) (s : Nat) : findVertexPredecessors g s ≠ .ub := by
  simp only [findVertexPredecessors, hg.adjWF]
  split <;> simp

/-! ### loaders: any byte string gives a graph or a documented exception, never `ub` -/

theorem substr_ne_ub (s : FIO.Bytes) (a b : Option Nat) : FIO.substr s a b ≠ .ub := by
  unfold FIO.substr
  cases a with
  | none => simp
  | some p =>
    simp only
    split
    · simp
    · cases b <;> simp

theorem findEdgeFromString_ne_ub (s : FIO.Bytes) : FIO.findEdgeFromString s ≠ .ub := by
  unfold FIO.findEdgeFromString
  simp only
  apply Res.bind_ne_ub _ _ (substr_ne_ub _ _ _)
  intro a
  apply Res.bind_ne_ub _ _ (substr_ne_ub _ _ _)
  intro b
  split
  · simp
  · exact Res.map_ne_ub _ _ (substr_ne_ub _ _ _)

theorem ite_threw_ok_ne_ub {α : Type} {c : Prop} [Decidable c] (e : Exc) (x : α) :
    (if c then Res.threw e else Res.ok x) ≠ .ub := by
  split <;> simp

theorem stoiDigits_ne_ub (neg : Bool) (ds : FIO.Bytes) : FIO.stoiDigits neg ds ≠ .ub := by
  unfold FIO.stoiDigits
  split
  · simp
  · exact ite_threw_ok_ne_ub _ _

theorem stoi_ne_ub (s : FIO.Bytes) : FIO.stoi s ≠ .ub := by
  unfold FIO.stoi
  split
  · split
    · exact stoiDigits_ne_ub _ _
    · split <;> exact stoiDigits_ne_ub _ _
  · exact stoiDigits_ne_ub _ _

theorem vertexOfIndex_ne_ub (s : FIO.Bytes) : FIO.vertexOfIndex s ≠ .ub := by
  unfold FIO.vertexOfIndex
  apply Res.bind_ne_ub _ _ (stoi_ne_ub s)
  intro z; split <;> simp

theorem vertexOf_ne_ub (named : Bool) (st : FIO.LoadSt L) (tok : FIO.Bytes) : FIO.vertexOf named st tok ≠ .ub := by
  unfold FIO.vertexOf
  split
  · split <;> simp
  · exact Res.map_ne_ub _ _ (vertexOfIndex_ne_ub tok)

theorem loadLine_ne_ub (und named : Bool) (ofStr : FIO.Bytes → Res L) (hof : ∀ b, ofStr b ≠ .ub)
    (st : FIO.LoadSt L) (line : FIO.Bytes) : FIO.loadLine und named ofStr st line ≠ .ub := by
  unfold FIO.loadLine
  split
  · simp
  · apply Res.bind_ne_ub _ _ (findEdgeFromString_ne_ub line)
    intro ⟨a, b, c⟩
    apply Res.bind_ne_ub _ _ (vertexOf_ne_ub named st a)
    intro ⟨v1, st1⟩
    apply Res.bind_ne_ub _ _ (vertexOf_ne_ub named st1 b)
    intro ⟨v2, st2⟩
    simp only
    apply Res.bind_ne_ub _ _ (hof c)
    intro l
    split
    · simp
    · simp
    · rename_i h
      exfalso
      split at h
      · exact uAddEdge_ne_ub _ _ _ _ _ (by rw [h])
      · exact dAddEdge_ne_ub _ _ _ _ _ (by rw [h])

theorem foldl_bind_ne_ub {α β : Type} (f : α → β → Res α) (hf : ∀ a b, f a b ≠ .ub) (l : List β) (r : Res α)
    (hr : r ≠ .ub) : l.foldl (fun r b => r.bind (fun a => f a b)) r ≠ .ub := by
  induction l generalizing r with
  | nil => exact hr
  | cons b bs ih => exact ih _ (Res.bind_ne_ub r _ hr (fun a => hf a b))

/-- **C15 (text):** loading arbitrary bytes as a text edge list returns a graph or throws a
documented exception — for every byte string, both vertex modes, both graph classes. -/
theorem C15_loadText_total (und named labelled : Bool) (ofStr : FIO.Bytes → Res L) (hof : ∀ b, ofStr b ≠ .ub)
    (file : FIO.Bytes) : FIO.loadText und named labelled ofStr file ≠ .ub := by
  unfold FIO.loadText
  simp only
  apply Res.map_ne_ub
  exact foldl_bind_ne_ub (fun st line => FIO.loadLine und named ofStr st line)
    (fun st line => loadLine_ne_ub und named ofStr hof st line) _ _ (by simp)

theorem loadBinStep_ne_ub (und : Bool) (r : Res (G L)) (e : Nat × Nat × L) (hr : r ≠ .ub) :
    FIO.loadBinStep und r e ≠ .ub := by
  unfold FIO.loadBinStep
  apply Res.bind_ne_ub _ _ hr
  intro g
  simp only
  split
  · simp
  · simp
  · rename_i h
    exfalso
    split at h
    · exact uAddEdge_ne_ub _ _ _ _ _ (by rw [h])
    · exact dAddEdge_ne_ub _ _ _ _ _ (by rw [h])

/-- **C15 (binary):** loading arbitrary bytes as a binary edge list never reads a field that was
not completely present and never has outcome `ub`. -/
theorem C15_loadBin_total (und labelled : Bool) (width : Nat) (ofBytes : FIO.Bytes → L) (file : FIO.Bytes) :
    FIO.loadBin und labelled width ofBytes file ≠ .ub := by
  unfold FIO.loadBin
  generalize FIO.binRecords width ofBytes (file.length + 1) file = recs
  suffices h : ∀ r : Res (G L), r ≠ .ub → recs.foldl (FIO.loadBinStep und) r ≠ .ub from h _ (by simp)
  induction recs with
  | nil => intro r hr; exact hr
  | cons e es ih => intro r hr; exact ih _ (loadBinStep_ne_ub und r e hr)

end BGV
