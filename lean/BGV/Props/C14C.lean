import BGV.Props.C14
/-!
# Property C14 — the fixed-width little-endian integer codecs round-trip
(`char`, `int16`, `int`, `unsigned`, `int64` labels: widths 1, 2, 4, 8, signed or not)
-/
namespace BGV
open FIO

theorem digits_sum (m : Nat) (w : Nat) :
    (List.range w).foldl (fun a k => a + (m / 256 ^ k % 256) * 256 ^ k) 0 = m % 256 ^ w := by
  induction w with
  | zero => simp [Nat.mod_one]
  | succ w ih =>
    rw [List.range_succ, List.foldl_append, ih]
    simp only [List.foldl_cons, List.foldl_nil]
    rw [Nat.mod_pow_succ]
    rw [Nat.mul_comm]

theorem leBytes_getD (w : Nat) (z : Int) (k : Nat) (hk : k < w) :
    ((leBytes w z).getD k 0).toNat = (z % (256 ^ w : Nat)).toNat / 256 ^ k % 256 := by
  simp only [leBytes, List.getD_eq_getElem?_getD, List.getElem?_map, List.getElem?_range hk, Option.map_some,
    Option.getD_some]
  have : (z % (256 ^ w : Nat)).toNat / 256 ^ k % 256 < 256 := Nat.mod_lt _ (by decide)
  simp [UInt8.toNat_ofNat, Nat.mod_eq_of_lt this]

theorem foldl_congr_range (w : Nat) (f g : Nat → Nat → Nat) (h : ∀ a k, k < w → f a k = g a k) (a0 : Nat) :
    (List.range w).foldl f a0 = (List.range w).foldl g a0 := by
  have : ∀ (l : List Nat), (∀ k ∈ l, k < w) → ∀ a, l.foldl f a = l.foldl g a := by
    intro l
    induction l with
    | nil => intro _ a; rfl
    | cons x l ih =>
      intro hl a
      simp only [List.foldl_cons]
      rw [h a x (hl x (by simp))]
      exact ih (fun k hk => hl k (by simp [hk])) _
  exact this _ (fun k hk => List.mem_range.1 hk) a0

/-- the unsigned value read back is the written value modulo `256^w` -/
theorem ofLe_raw (w : Nat) (z : Int) :
    (List.range w).foldl (fun a k => a + ((leBytes w z).getD k 0).toNat * 256 ^ k) 0 = (z % (256 ^ w : Nat)).toNat := by
  rw [foldl_congr_range w _ (fun a k => a + ((z % (256 ^ w : Nat)).toNat / 256 ^ k % 256) * 256 ^ k)
    (fun a k hk => by rw [leBytes_getD w z k hk])]
  rw [digits_sum]
  have hpos : (0 : Int) < (256 ^ w : Nat) := by
    have : 0 < 256 ^ w := Nat.pow_pos (by decide)
    omega
  have h1 : 0 ≤ z % (256 ^ w : Nat) := Int.emod_nonneg _ (by omega)
  have h2 : z % (256 ^ w : Nat) < (256 ^ w : Nat) := Int.emod_lt_of_pos _ hpos
  apply Nat.mod_eq_of_lt
  omega

/-- **unsigned labels** (`unsigned`, …): every value in range round-trips -/
theorem C14_codec_unsigned (w : Nat) (z : Int) (h0 : 0 ≤ z) (h1 : z < (256 ^ w : Nat)) :
    ofLeBytes false w (leBytes w z) = z := by
  simp only [ofLeBytes, Bool.false_and, Bool.false_eq_true, if_false, ofLe_raw]
  rw [Int.emod_eq_of_lt h0 h1]
  omega

/-- **signed labels** (`char`, `short`, `int`, `long long`): every value in the two's-complement
range round-trips -/
theorem C14_codec_signed (w : Nat) (hw : 0 < w) (z : Int) (h0 : -((256 ^ w / 2 : Nat) : Int) ≤ z)
    (h1 : z < ((256 ^ w / 2 : Nat) : Int)) :
    ofLeBytes true w (leBytes w z) = z := by
  have heven : 256 ^ w = 2 * (256 ^ w / 2) := by
    have : 256 ^ w = 256 ^ (w - 1) * 256 := by
      rw [← Nat.pow_succ]; congr 1; omega
    omega
  simp only [ofLeBytes, Bool.true_and, ofLe_raw]
  have hpos : (0 : Int) < (256 ^ w : Nat) := by
    have : 0 < 256 ^ w := Nat.pow_pos (by decide)
    omega
  by_cases hz : 0 ≤ z
  · have hm : z % (256 ^ w : Nat) = z := Int.emod_eq_of_lt hz (by omega)
    rw [hm]
    have : ¬ (z.toNat ≥ 256 ^ w / 2) := by omega
    simp only [this, decide_false, Bool.false_eq_true, if_false]
    omega
  · have hm : z % (256 ^ w : Nat) = z + (256 ^ w : Nat) := by
      rw [← Int.add_emod_right]
      exact Int.emod_eq_of_lt (by omega) (by omega)
    rw [hm]
    have : (z + (256 ^ w : Nat)).toNat ≥ 256 ^ w / 2 := by omega
    simp only [this, decide_true, if_true]
    omega

/-- the integer codecs as `Codec`s for the record theorems: width 4 signed (`int`) as an instance;
the label type is the sub-range of `Int` that the C++ type holds -/
example : ofLeBytes true 4 (leBytes 4 (-77)) = -77 ∧ ofLeBytes true 2 (leBytes 2 (-32768)) = -32768 ∧
    ofLeBytes false 4 (leBytes 4 4294967295) = 4294967295 ∧ ofLeBytes true 1 (leBytes 1 127) = 127 := by decide

end BGV
