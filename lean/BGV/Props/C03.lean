import BGV.Props.C01
/-!
# Property C03 — an edge label exists exactly as long as its edge and keeps the last value set

Directed labelled graphs.  The value clause ("created value or last `setEdgeLabel`") is the
label component of `C01_refines`: `AG.dDenote` interprets `addEdge` on an absent pair and
`setEdgeLabel` on a present pair as writing the label and every removal as erasing it.
-/
set_option linter.unusedSectionVars false
namespace BGV
open G
variable {L : Type} [Inhabited L]

/-- In every reachable state of a labelled graph the label store has an entry for (i,j) iff
(i,j) is an edge — whatever removed the edge (removeEdge, removeSelfLoops,
removeVertexFromEdgeList, clearEdges). -/
theorem dRun_labelled (g : G L) (ops : List (SOp L)) : (dRun g ops).labelled = g.labelled := by
  induction ops generalizing g with
  | nil => rfl
  | cons op ops ih => simp only [dRun, List.foldl_cons] at ih ⊢; rw [ih, dStep_labelled]

theorem C03_entry_iff_edge (n : Nat) (ops : List (SOp L)) (i j : Nat) :
    ((dRun (G.new true n : G L) ops).labels.get? (i, j)).isSome
      = (dRun (G.new true n : G L) ops).hasEdgeRaw i j := by
  have hinv := C01_inv_reachable (L := L) true n ops
  have hl : (dRun (G.new true n : G L) ops).labelled = true := by rw [dRun_labelled]; rfl
  exact hinv.lab hl i j

/-- `getEdgeLabel(i,j)` returns the denoted label, throws `std::invalid_argument` for a pair that
is not an edge, or returns the default label when told not to throw. -/
theorem C03_getEdgeLabel (g : G L) (hg : Inv g) (hl : g.labelled = true) (i j : Nat)
    (hi : i < g.size) (hj : j < g.size) (throwIf : Bool) :
    g.dGetEdgeLabel i j throwIf =
      match (absD g).lab i j with
      | some l => .ok l
      | none => if throwIf then .threw .inv else .ok default := by
  have hlab := hg.lab hl i j
  simp only [dGetEdgeLabel, inR, hi, hj, decide_true, Bool.and_self, if_true, getLab, hl, absD]
  by_cases he : g.hasEdgeRaw i j = true
  · rw [he] at hlab
    obtain ⟨v, hv⟩ := Option.isSome_iff_exists.1 hlab
    simp [he, hv, labD_eq, hl]
  · have he' : g.hasEdgeRaw i j = false := by simpa using he
    rw [he'] at hlab
    have hn : g.labels.get? (i, j) = none := by
      cases h : g.labels.get? (i, j) with
      | none => rfl
      | some v => rw [h] at hlab; simp at hlab
    simp [he', hn]

/-- `hasEdge(i,j,l)` is true iff the edge exists with a label equal to `l`. -/
theorem C03_hasEdgeL [DecidableEq L] (g : G L) (hg : Inv g) (hl : g.labelled = true) (i j : Nat) (l : L)
    (hi : i < g.size) (hj : j < g.size) :
    g.dHasEdgeL i j l = .ok (decide ((absD g).lab i j = some l)) := by
  have hlab := hg.lab hl i j
  simp only [dHasEdgeL, dHasEdge, dGetEdgeLabel, inR, hi, hj, decide_true, Bool.and_self, if_true, getLab, hl, absD]
  by_cases he : g.hasEdgeRaw i j = true
  · rw [he] at hlab
    obtain ⟨v, hv⟩ := Option.isSome_iff_exists.1 hlab
    simp [he, hv, labD_eq, hl, Res.map]
  · have he' : g.hasEdgeRaw i j = false := by simpa using he
    simp [he']

/-- Adding an already-present edge does not alter its label (nothing changes at all). -/
theorem C03_add_present_keeps_label (g : G L) (i j : Nat) (l : L) (hi : i < g.size) (hj : j < g.size)
    (he : (absD g).hasEdge i j = true) : (g.dStep (.addEdge i j l)).1 = g := by
  rw [C01_readd_noop g i j l hi hj he]

/-- Re-creating a removed edge shows only the new label. -/
theorem C03_recreate_shows_new_label (g : G L) (hg : Inv g) (hl : g.labelled = true) (i j : Nat) (l : L)
    (hi : i < g.size) (hj : j < g.size) :
    (absD ((g.dStep (.removeEdge i j)).1.dStep (.addEdge i j l)).1).lab i j = some l := by
  have h1 := inv_dStep g hg (.removeEdge i j)
  have hs1 : (g.dStep (.removeEdge i j)).1.size = g.size := dStep_size g hg (.removeEdge i j) ⟨hi, hj⟩
  rw [absD_dStep _ h1 (.addEdge i j l) (by simp only [SOp.valid]; rw [hs1]; exact ⟨hi, hj⟩)]
  rw [absD_dStep g hg (.removeEdge i j) ⟨hi, hj⟩, dStep_labelled, hl]
  simp [AG.dStep, AG.add, AG.remove]

example : ((absD (dRun (G.new true 3 : G Nat)
    [.addEdge 0 1 7, .setEdgeLabel 0 1 8, .addEdge 0 1 9, .removeVertexFromEdgeList 1, .addEdge 0 1 4])).lab 0 1 = some 4)
  ∧ ((dRun (G.new true 3 : G Nat) [.addEdge 0 1 7, .clearEdges]).dGetEdgeLabel 0 1 true = .threw .inv) := by decide

end BGV
