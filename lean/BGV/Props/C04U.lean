import BGV.Proofs.MultiU
import BGV.Props.C02
/-!
# C04 — `UndirectedMultigraph` (force off)

Same statement as the directed half, with a symmetric multiplicity matrix: a call on `(i,j)`
acts on the unordered pair `{i,j}`, i.e. on both `(i,j)` and `(j,i)`.
-/
set_option linter.unusedSectionVars false
namespace BGV

namespace AM
/-- symmetric update of the unordered pair `{i,j}` -/
def upd2 (a : AM) (i j : Nat) (f : Nat → Nat) : AM :=
  if i < a.n ∧ j < a.n then ⟨a.n, fun x y => if AG.samePair x y i j then f (a.mu i j) else a.mu x y⟩ else a

/-- what a call denotes on an undirected multigraph -/
def ustep (a : AM) : MOp → AM
  | .addEdge i j => a.upd2 i j (· + 1)
  | .addMultiedge i j k => a.upd2 i j (· + k)
  | .removeEdge i j => a.upd2 i j (fun c => c - min 1 c)
  | .removeMultiedge i j k => a.upd2 i j (fun c => c - min k c)
  | .setEdgeMultiplicity i j k => a.upd2 i j (fun _ => k)
  | .removeSelfLoops => ⟨a.n, fun x y => if x = y then 0 else a.mu x y⟩
  | .removeVertexFromEdgeList v => if v < a.n then ⟨a.n, fun x y => if x = v ∨ y = v then 0 else a.mu x y⟩ else a
  | .clearEdges => ⟨a.n, fun _ _ => 0⟩
  | .resize m => if m < a.n then a else ⟨m, a.mu⟩

def udenote (a : AM) (ops : List MOp) : AM := ops.foldl ustep a
end AM

namespace MG
open G

def absMU (m : MG) : AM := ⟨m.g.size, m.umult⟩

theorem umult_eq (m : MG) (h : MUInv m) (i j : Nat) : m.umult i j = ((absU m.g).lab i j).getD 0 := by
  simp only [umult, cur_eq, absU]
  by_cases he : m.g.hasEdgeRaw i j = true
  · simp only [he, if_true, Option.getD_some, labD, h.lbl]; rfl
  · have he' : m.g.hasEdgeRaw i j = false := by simpa using he
    have hu : m.g.uHasEdgeRaw i j = false := by rw [h.base.uHasEdgeRaw_eq]; exact he'
    simp [he', get?_none_of_uabsentN m.g h.base h.lbl i j hu]

theorem umult_comm (m : MG) (i j : Nat) : m.umult i j = m.umult j i := by
  simp only [umult, ordered_comm]

theorem umult_eq_zero_iff (m : MG) (h : MUInv m) (i j : Nat) : m.umult i j = 0 ↔ m.g.hasEdgeRaw i j = false := by
  constructor
  · intro hz
    cases he : m.g.hasEdgeRaw i j with
    | false => rfl
    | true =>
      obtain ⟨v, hv, hpos⟩ := get?_some_of_upresent m h i j he
      simp only [umult, cur_eq, hv, Option.getD_some] at hz
      omega
  · intro he
    have hu : m.g.uHasEdgeRaw i j = false := by rw [h.base.uHasEdgeRaw_eq]; exact he
    simp [umult, cur_eq, get?_none_of_uabsentN m.g h.base h.lbl i j hu]

theorem inRange_of (g : G Nat) (i j : Nat) (hr : (g.inR i && g.inR j) = true) : i < g.size ∧ j < g.size := by
  simpa [inR] using hr

/-- `getD 0` of the abstract label after the base-class call, for the three shapes a multigraph
call can take on one pair -/
theorem mu_after (m : MG) (h : MUInv m) (o : Option (SOp Nat)) (i j : Nat) (f : Nat → Nat)
    (hr : i < m.g.size ∧ j < m.g.size)
    (ho : o = none ∧ f (m.umult i j) = m.umult i j ∨
          (∃ l, o = some (.setEdgeLabel i j l) ∧ m.g.hasEdgeRaw i j = true ∧ l = f (m.umult i j)) ∨
          (∃ l, o = some (.addEdge i j l) ∧ m.g.hasEdgeRaw i j = false ∧ l = f (m.umult i j)) ∨
          (o = some (.removeEdge i j) ∧ f (m.umult i j) = 0))
    (x y : Nat) :
    ((absU (stepG m.g o)).lab x y).getD 0 = if AG.samePair x y i j then f (m.umult i j) else m.umult x y := by
  have hsym : ∀ x y, AG.samePair x y i j → m.umult x y = m.umult i j := by
    rintro x y (⟨rfl, rfl⟩ | ⟨rfl, rfl⟩)
    · rfl
    · exact umult_comm m _ _
  rcases ho with ⟨rfl, hf⟩ | ⟨l, rfl, he, rfl⟩ | ⟨l, rfl, he, rfl⟩ | ⟨rfl, hf⟩
  · simp only [stepG]
    rw [← umult_eq m h]
    by_cases hs : AG.samePair x y i j
    · simp [hs, hf, hsym x y hs]
    · simp [hs]
  · simp only [stepG]
    rw [absU_uStepM m.g h.base (.setEdgeLabel i j (f (m.umult i j))) hr]
    simp only [AG.uStep, h.lbl, if_true]
    have hsome : ((absU m.g).lab i j).isSome = true := by simp [absU, he]
    by_cases hs : AG.samePair x y i j
    · simp [hs, hsome]
    · simp only [hs, false_and, if_false]; rw [← umult_eq m h]
  · simp only [stepG]
    rw [absU_uStepM m.g h.base (.addEdge i j (f (m.umult i j))) hr]
    simp only [AG.uStep, AG.uAdd, h.lbl, if_true]
    have hsome : ((absU m.g).lab i j).isSome = false := by simp [absU, he]
    by_cases hs : AG.samePair x y i j
    · simp [hs, hsome]
    · simp only [hs, false_and, if_false]; rw [← umult_eq m h]
  · simp only [stepG]
    rw [absU_uStepM m.g h.base (.removeEdge i j) hr]
    simp only [AG.uStep, AG.uRemove]
    by_cases hs : AG.samePair x y i j
    · simp [hs, hf]
    · simp only [hs, if_false]; rw [← umult_eq m h]

theorem stepG_size (g : G Nat) (h : UInv g) (o : Option (SOp Nat)) (hv : ∀ op, o = some op → op.valid g.size ∧ op.newSize g.size = g.size) :
    (stepG g o).size = g.size := by
  cases o with
  | none => rfl
  | some op =>
    obtain ⟨h1, h2⟩ := hv op rfl
    show (g.uStepM op).1.size = g.size
    rw [uStepM_size g h op h1, h2]

/-- one call on one pair: sizes and multiplicities -/
theorem absMU_pair (m : MG) (h : MUInv m) (op : MOp) (i j : Nat) (f : Nat → Nat)
    (hstep : (absMU m).ustep op = (absMU m).upd2 i j f)
    (hoor : ¬ (i < m.g.size ∧ j < m.g.size) → m.toSU op = none)
    (ho : i < m.g.size ∧ j < m.g.size →
          (m.toSU op = none ∧ f (m.umult i j) = m.umult i j ∨
          (∃ l, m.toSU op = some (.setEdgeLabel i j l) ∧ m.g.hasEdgeRaw i j = true ∧ l = f (m.umult i j)) ∨
          (∃ l, m.toSU op = some (.addEdge i j l) ∧ m.g.hasEdgeRaw i j = false ∧ l = f (m.umult i j)) ∨
          (m.toSU op = some (.removeEdge i j) ∧ f (m.umult i j) = 0))) :
    absMU (m.uStep op) = (absMU m).ustep op := by
  have h' := muinv_uStep m h op
  have hg := uStep_g m h.base h.lbl h.keys h.tot op
  rw [hstep]
  by_cases hr : i < m.g.size ∧ j < m.g.size
  · have ho' := ho hr
    simp only [AM.upd2, absMU, hr, and_self, if_true]
    apply AM.ext'
    · show (m.uStep op).g.size = m.g.size
      rw [hg]
      apply stepG_size m.g h.base
      intro sop hs
      rcases ho' with ⟨h1, _⟩ | ⟨l, h1, _, _⟩ | ⟨l, h1, _, _⟩ | ⟨h1, _⟩
      · rw [h1] at hs; cases hs
      · rw [h1] at hs; cases hs; exact ⟨hr, rfl⟩
      · rw [h1] at hs; cases hs; exact ⟨hr, rfl⟩
      · rw [h1] at hs; cases hs; exact ⟨hr, rfl⟩
    · intro x y
      show (m.uStep op).umult x y = _
      rw [umult_eq _ h', hg]
      exact mu_after m h _ i j f hr ho' x y
  · have hn := hoor hr
    have : m.uStep op = m ∨ True := Or.inr trivial
    simp only [AM.upd2, absMU, hr, if_false]
    apply AM.ext'
    · show (m.uStep op).g.size = m.g.size
      rw [hg, hn]; rfl
    · intro x y
      show (m.uStep op).umult x y = m.umult x y
      rw [umult_eq _ h', hg, hn]; simp only [stepG]; rw [← umult_eq m h]

theorem inR_false_ofN (g : G Nat) (i j : Nat) (h : ¬ (i < g.size ∧ j < g.size)) : (g.inR i && g.inR j) = false := by
  simp only [inR, Bool.and_eq_false_iff, decide_eq_false_iff_not]
  by_cases hi : i < g.size
  · right; exact fun hj => h ⟨hi, hj⟩
  · left; exact hi

theorem addS_cases (m : MG) (h : MUInv m) (i j k : Nat) (hr : i < m.g.size ∧ j < m.g.size) :
    (m.addS i j k = none ∧ (m.umult i j + k) = m.umult i j ∨
      (∃ l, m.addS i j k = some (.setEdgeLabel i j l) ∧ m.g.hasEdgeRaw i j = true ∧ l = m.umult i j + k) ∨
      (∃ l, m.addS i j k = some (.addEdge i j l) ∧ m.g.hasEdgeRaw i j = false ∧ l = m.umult i j + k) ∨
      (m.addS i j k = some (.removeEdge i j) ∧ m.umult i j + k = 0)) := by
  have hr' : (m.g.inR i && m.g.inR j) = true := by simp [inR, hr.1, hr.2]
  simp only [addS, hr', Bool.not_true, Bool.false_eq_true, if_false]
  by_cases hk : k = 0
  · left; simp [hk]
  · simp only [hk, if_false]
    by_cases he : m.g.uHasEdgeRaw i j = true
    · right; left
      have hraw : m.g.hasEdgeRaw i j = true := by rw [← h.base.uHasEdgeRaw_eq]; exact he
      exact ⟨cur m.g (ordered i j) + k, by simp [he], hraw, rfl⟩
    · right; right; left
      have he' : m.g.uHasEdgeRaw i j = false := by simpa using he
      have hraw : m.g.hasEdgeRaw i j = false := by rw [← h.base.uHasEdgeRaw_eq]; exact he'
      refine ⟨k, by simp [he'], hraw, ?_⟩
      rw [(umult_eq_zero_iff m h i j).2 hraw]; omega

theorem remS_cases (m : MG) (h : MUInv m) (i j k : Nat) (hr : i < m.g.size ∧ j < m.g.size) :
    (m.remS i j k = none ∧ (m.umult i j - min k (m.umult i j)) = m.umult i j ∨
      (∃ l, m.remS i j k = some (.setEdgeLabel i j l) ∧ m.g.hasEdgeRaw i j = true ∧ l = m.umult i j - min k (m.umult i j)) ∨
      (∃ l, m.remS i j k = some (.addEdge i j l) ∧ m.g.hasEdgeRaw i j = false ∧ l = m.umult i j - min k (m.umult i j)) ∨
      (m.remS i j k = some (.removeEdge i j) ∧ m.umult i j - min k (m.umult i j) = 0)) := by
  have hr' : (m.g.inR i && m.g.inR j) = true := by simp [inR, hr.1, hr.2]
  simp only [remS, hr', Bool.not_true, Bool.false_eq_true, if_false]
  by_cases he : m.g.hasEdgeRaw i j = true
  · simp only [he, Bool.not_true, Bool.false_eq_true, if_false]
    by_cases hk : cur m.g (ordered i j) > k
    · right; left
      refine ⟨cur m.g (ordered i j) - k, by simp [hk], trivial, ?_⟩
      simp only [umult] at *
      omega
    · right; right; right
      refine ⟨by simp [hk], ?_⟩
      simp only [umult] at *
      omega
  · have he' : m.g.hasEdgeRaw i j = false := by simpa using he
    left
    refine ⟨by simp [he'], ?_⟩
    rw [(umult_eq_zero_iff m h i j).2 he']; simp

theorem setS_cases (m : MG) (h : MUInv m) (i j k : Nat) (hr : i < m.g.size ∧ j < m.g.size) :
    (m.setS i j k = none ∧ k = m.umult i j ∨
      (∃ l, m.setS i j k = some (.setEdgeLabel i j l) ∧ m.g.hasEdgeRaw i j = true ∧ l = k) ∨
      (∃ l, m.setS i j k = some (.addEdge i j l) ∧ m.g.hasEdgeRaw i j = false ∧ l = k) ∨
      (m.setS i j k = some (.removeEdge i j) ∧ k = 0)) := by
  have hr' : (m.g.inR i && m.g.inR j) = true := by simp [inR, hr.1, hr.2]
  simp only [setS, hr', Bool.not_true, Bool.false_eq_true, if_false]
  by_cases hk : k = 0
  · right; right; right; simp [hk]
  · simp only [hk, if_false]
    by_cases he : m.g.uHasEdgeRaw i j = true
    · right; left
      have hraw : m.g.hasEdgeRaw i j = true := by rw [← h.base.uHasEdgeRaw_eq]; exact he
      exact ⟨_, by simp [he], hraw, rfl⟩
    · right; right; left
      have he' : m.g.uHasEdgeRaw i j = false := by simpa using he
      have hraw : m.g.hasEdgeRaw i j = false := by rw [← h.base.uHasEdgeRaw_eq]; exact he'
      exact ⟨k, by simp [he'], hraw, rfl⟩

/-- one call of the undirected implementation is the abstract (symmetric) call -/
theorem absMU_uStep (m : MG) (h : MUInv m) (op : MOp) : absMU (m.uStep op) = (absMU m).ustep op := by
  cases op with
  | addEdge i j =>
    exact absMU_pair m h _ i j (· + 1) rfl (fun hr => by simp [toSU, addS, inR_false_ofN _ _ _ hr])
      (fun hr => addS_cases m h i j 1 hr)
  | addMultiedge i j k =>
    exact absMU_pair m h _ i j (· + k) rfl (fun hr => by simp [toSU, addS, inR_false_ofN _ _ _ hr])
      (fun hr => addS_cases m h i j k hr)
  | removeEdge i j =>
    exact absMU_pair m h _ i j (fun c => c - min 1 c) rfl (fun hr => by simp [toSU, remS, inR_false_ofN _ _ _ hr])
      (fun hr => remS_cases m h i j 1 hr)
  | removeMultiedge i j k =>
    exact absMU_pair m h _ i j (fun c => c - min k c) rfl (fun hr => by simp [toSU, remS, inR_false_ofN _ _ _ hr])
      (fun hr => remS_cases m h i j k hr)
  | setEdgeMultiplicity i j k =>
    exact absMU_pair m h _ i j (fun _ => k) rfl (fun hr => by simp [toSU, setS, inR_false_ofN _ _ _ hr])
      (fun hr => setS_cases m h i j k hr)
  | removeSelfLoops =>
    have h' := muinv_uStep m h .removeSelfLoops
    have hg := uStep_g m h.base h.lbl h.keys h.tot .removeSelfLoops
    apply AM.ext'
    · show (m.uStep .removeSelfLoops).g.size = m.g.size
      rw [hg]; exact uStepM_size m.g h.base .removeSelfLoops trivial
    · intro x y
      show (m.uStep .removeSelfLoops).umult x y = _
      rw [umult_eq _ h', hg]
      simp only [toSU, stepG]
      rw [absU_uStepM m.g h.base .removeSelfLoops trivial]
      simp only [AG.uStep, AM.ustep, absMU]
      by_cases hxy : x = y
      · simp [hxy]
      · simp only [hxy, if_false]; rw [← umult_eq m h]
  | removeVertexFromEdgeList v =>
    have h' := muinv_uStep m h (.removeVertexFromEdgeList v)
    have hg := uStep_g m h.base h.lbl h.keys h.tot (.removeVertexFromEdgeList v)
    by_cases hv : v < m.g.size
    · simp only [AM.ustep, absMU, hv, if_true]
      apply AM.ext'
      · show (m.uStep (.removeVertexFromEdgeList v)).g.size = m.g.size
        rw [hg]; exact uStepM_size m.g h.base (.removeVertexFromEdgeList v) hv
      · intro x y
        show (m.uStep (.removeVertexFromEdgeList v)).umult x y = _
        rw [umult_eq _ h', hg]
        simp only [toSU, stepG]
        rw [absU_uStepM m.g h.base (.removeVertexFromEdgeList v) hv]
        simp only [AG.uStep]
        by_cases hxy : x = v ∨ y = v
        · simp [hxy]
        · simp only [hxy, if_false]; rw [← umult_eq m h]
    · simp only [AM.ustep, absMU, hv, if_false, uStep, uRemoveVertex_oorM m v hv]
  | clearEdges =>
    apply AM.ext'
    · rfl
    · intro x y
      show cur m.clearEdges.g (ordered x y) = 0
      simp [cur_eq, MG.clearEdges, G.clearEdges, AMap.get?]
  | resize n =>
    by_cases hn : n < m.g.size
    · simp [AM.ustep, absMU, hn, uStep, MG.resize, G.resize]
    · simp only [AM.ustep, absMU, hn, if_false, uStep, MG.resize, G.resize]
      apply AM.ext' rfl
      intro x y; rfl

theorem absMU_uRun (m : MG) (h : MUInv m) (ops : List MOp) : absMU (m.uRun ops) = (absMU m).udenote ops := by
  induction ops generalizing m with
  | nil => rfl
  | cons op ops ih =>
    simp only [uRun, AM.udenote, List.foldl_cons]
    have := ih _ (muinv_uStep m h op)
    simp only [uRun, AM.udenote] at this
    rw [this, absMU_uStep m h op]

end MG
open MG G

/-! ## the property (undirected) -/

/-- **C04 (undirected, invariant).** every history keeps: symmetric lists without repeats, one
stored multiplicity per unordered pair (keyed by the ordered pair), every stored multiplicity
positive, `totalEdgeNumber` = sum of the stored multiplicities. -/
theorem C04_und_inv_reachable (n : Nat) (ops : List MOp) : MUInv ((MG.new n).uRun ops) :=
  muinv_uRun _ (muinv_new n) ops

/-- **C04 (undirected, refinement).** after every history `getEdgeMultiplicity(i,j)` — in either
orientation — is the number of parallel edges the history leaves between `i` and `j`. -/
theorem C04_und_refines (n : Nat) (ops : List MOp) :
    absMU ((MG.new n).uRun ops) = (AM.mk n (fun _ _ => 0)).udenote ops := by
  rw [absMU_uRun _ (muinv_new n) ops]
  congr 1

/-- `getEdgeMultiplicity` answers from the abstraction, symmetrically, and throws out of range -/
theorem C04_und_getEdgeMultiplicity (m : MG) (i j : Nat) :
    m.uGetEdgeMultiplicity i j =
      (if i < m.g.size ∧ j < m.g.size then .ok ((absMU m).mu i j) else .threw .oor) ∧
    (absMU m).mu i j = (absMU m).mu j i := by
  refine ⟨?_, umult_comm m i j⟩
  by_cases hr : i < m.g.size ∧ j < m.g.size
  · simp [uGetEdgeMultiplicity, inR, hr, absMU, umult]
  · simp [uGetEdgeMultiplicity, inR_false_ofN _ _ _ hr, hr]

/-- **C04 (undirected).** the multiplicity is zero exactly when `hasEdge` is false -/
theorem C04_und_zero_iff_no_edge (n : Nat) (ops : List MOp) (i j : Nat) :
    (absMU ((MG.new n).uRun ops)).mu i j = 0 ↔ ((MG.new n).uRun ops).g.hasEdgeRaw i j = false :=
  umult_eq_zero_iff _ (C04_und_inv_reachable n ops) i j

/-- **C04 (undirected).** `getEdgeNumber()` is the number of unordered pairs `i ≤ j` with non-zero
multiplicity -/
theorem C04_und_edgeNumber (n : Nat) (ops : List MOp) :
    let m := (MG.new n).uRun ops
    m.g.edgeNumber = ((List.range m.g.size).map (fun i =>
      ((List.range m.g.size).filter (fun j => decide (i ≤ j) && ((absMU m).mu i j != 0))).length)).sum := by
  intro m
  have h := C04_und_inv_reachable n ops
  rw [C02_edgeNumber m.g h.base]
  congr 1
  apply List.map_congr_left
  intro i _
  congr 1
  apply List.filter_congr
  intro j _
  have hz := umult_eq_zero_iff m h i j
  simp only [absU, AG.hasEdge, absMU]
  by_cases he : m.g.hasEdgeRaw i j = true
  · have : m.umult i j ≠ 0 := by intro hh; rw [hz.1 hh] at he; cases he
    simp [he, this]
  · have he' : m.g.hasEdgeRaw i j = false := by simpa using he
    simp [he', hz.2 he']

/-- **C04 (undirected).** `getTotalEdgeNumber()` is the sum of the multiplicities of the unordered
pairs -/
theorem C04_und_total (n : Nat) (ops : List MOp) :
    let m := (MG.new n).uRun ops
    m.total = ((List.range m.g.size).map (fun i =>
      ((List.range m.g.size).map (fun j => if i ≤ j then (absMU m).mu i j else 0)).sum)).sum := by
  intro m
  have h := C04_und_inv_reachable n ops
  rw [h.tot]
  have := sumVals_eq_sqSum m.g.size m.g.labels h.keys (by
    intro e he
    have hs := (AMap.mem_keys_iff_get? m.g.labels e).1 he
    obtain ⟨a, b⟩ := e
    rw [h.base.base.lab h.lbl a b] at hs
    simp only [Bool.and_eq_true, decide_eq_true_eq] at hs
    have hm : b ∈ m.g.nb a := (mem_nb_iff m.g a b).2 hs.2
    exact ⟨h.base.base.bound b a ((h.base.sym a b).1 hm), h.base.base.bound a b hm⟩)
  rw [this]
  simp only [sqSum, absMU, umult, cur_eq]
  congr 1
  apply List.map_congr_left
  intro i _
  congr 1
  apply List.map_congr_left
  intro j _
  by_cases hij : i ≤ j
  · simp only [hij, if_true, ordered_of_le hij]
  · simp only [hij, if_false]
    have hlab := h.base.base.lab h.lbl i j
    have : decide (i ≤ j) = false := by simpa using hij
    rw [this] at hlab
    simp only [Bool.false_and] at hlab
    cases hg : m.g.labels.get? (i, j) with
    | none => rfl
    | some w => rw [hg] at hlab; cases hlab

example :
    let m := (MG.new 3).uRun [.addMultiedge 1 0 3, .addEdge 0 1, .addMultiedge 2 2 2, .removeMultiedge 0 1 2,
      .addMultiedge 1 2 5, .setEdgeMultiplicity 2 2 0, .removeEdge 2 1, .removeVertexFromEdgeList 0]
    m.umult 0 1 = 0 ∧ m.umult 2 1 = 4 ∧ m.umult 2 2 = 0 ∧ m.g.edgeNumber = 1 ∧ m.total = 4 := by decide

end BGV
