import BGV.Proofs.Convert
import BGV.Proofs.Ctor
import BGV.Proofs.Convert2
import BGV.Props.C02
/-!
# Property C09 — conversions, reversal, copies (part: `getReversedGraph`; copies)

`dReversed` is the model of `getReversedGraph()` (unforced `addEdge(j,i,getEdgeLabel(i,j))` along
`edges()` as the iterator runs it).  In the model a copy *is* the value, so independence of copies
is definitional; the C++ side of copy construction / assignment is covered by the correspondence.

The edge-list constructors (`resize(max+1)` on demand, then unforced `addEdge`) are shown to
produce *literally* the state obtained from a graph created with `1 + largest index` vertices
by adding the edges one at a time (`C09_dOfEdgeList`, `C09_uOfEdgeList`).

`getDirectedGraph()` and the converting constructor `Undirected(directed)` are characterised on
the abstract graphs (`C09_getDirectedGraph`, `C09_uOfDirected`), and undirected → directed →
undirected is the identity of the denoted graph (`C09_und_dir_und`).
-/
set_option linter.unusedSectionVars false
namespace BGV
open G
variable {L : Type} [Inhabited L]

/-- **reversal:** the reversed graph contains exactly (j,i) with the label of (i,j), for every
edge (i,j); it never throws on a reachable state, including the graph with no vertices. -/
theorem C09_reversed (g : G L) (hg : Inv g) :
    ∃ r, g.dReversed = .ok r ∧ Inv r ∧ r.labelled = g.labelled ∧
      absD r = ⟨g.size, fun x y => (absD g).lab y x⟩ := by
  refine ⟨_, dReversed_ok g hg, inv_addAll _ (inv_new _ _) _, ?_, ?_⟩
  · rw [addAll_labelled]; rfl
  · rw [absD_addAll _ (inv_new _ _)]
    · apply AG.ext'
      · rw [AG.addAll_n]; rfl
      · intro x y
        rw [AG.addAll_lab]
        have h0 : (absD (G.new g.labelled g.size : G L)).lab x y = none := by
          have : (G.new g.labelled g.size : G L).hasEdgeRaw x y = false := by
            simp only [hasEdgeRaw]; rw [nb_new]; rfl
          simp [absD, this]
        rw [h0]
        simp only [revEdges, List.map_map]
        have hfun : ((fun e : LEdge L => (e.1, e.2.1, normLabel (G.new g.labelled g.size : G L).labelled e.2.2)) ∘
            (fun e : Edge => ((e.2, e.1, g.labD (e.1, e.2)) : LEdge L)))
            = (fun e : Edge => ((e.2, e.1, normLabel g.labelled (g.labD (e.1, e.2))) : LEdge L)) := by
          funext e; rfl
        rw [hfun, firstLabel_swapped g.edgeSeq (fun e => normLabel g.labelled (g.labD (e.1, e.2))) x y]
        simp only [absD]
        by_cases he : g.hasEdgeRaw y x = true
        · have hm : (y, x) ∈ g.edgeSeq := (mem_edgeSeq_iff g hg (y, x)).2 he
          simp only [hm, he, if_true]
          congr 1
          simp only [normLabel, labD_eq]
          by_cases hl : g.labelled = true <;> simp [hl]
        · have hm : (y, x) ∉ g.edgeSeq := fun hh => he ((mem_edgeSeq_iff g hg (y, x)).1 hh)
          simp [hm, he]
    · intro e he
      simp only [revEdges, List.mem_map] at he
      obtain ⟨⟨a, b⟩, hab, rfl⟩ := he
      have := hg.hasEdgeRaw_lt ((mem_edgeSeq_iff g hg (a, b)).1 hab)
      exact ⟨this.2, this.1⟩

/-- reversing twice gives an equal graph (`==`) -/
theorem C09_reversed_twice [DecidableEq L] (g : G L) (hg : Reach g) :
    ∃ r r2, g.dReversed = .ok r ∧ r.dReversed = .ok r2 ∧ dEq r2 g = true := by
  obtain ⟨r, hr, hri, hrl, hra⟩ := C09_reversed g hg.1
  obtain ⟨r2, hr2, hr2i, hr2l, hr2a⟩ := C09_reversed r hri
  refine ⟨r, r2, hr, hr2, ?_⟩
  have hk1 : KeysNodup r := by
    have := dReversed_ok g hg.1
    rw [hr] at this
    injection this with this
    rw [this]; exact keysNodup_addAll _ (keysNodup_new _ _) _
  have hk2 : KeysNodup r2 := by
    have := dReversed_ok r hri
    rw [hr2] at this
    injection this with this
    rw [this]; exact keysNodup_addAll _ (keysNodup_new _ _) _
  rw [C06_eq_iff_same_graph r2 g ⟨hr2i, hk2⟩ hg (by rw [hr2l, hrl])]
  rw [hr2a]
  apply AG.ext'
  · show r.size = g.size
    have := congrArg AG.n hra
    exact this
  · intro x y
    show (absD r).lab y x = (absD g).lab x y
    rw [hra]

example : (dReversed (dRun (G.new true 3 : G Nat) [.addEdge 0 1 7, .addEdge 2 1 5, .addEdge 1 1 9])).map
    (fun r => (r.nb 1, r.labels.get? (1, 2))) = .ok ([0, 1, 2], some 5) := by decide


/-! ## edge-list constructors -/

/-- **directed constructor**: never throws; the result has `1 + largest index` vertices (none for
an empty container) and is the state obtained by adding the edges one at a time to an empty
graph of that size — hence (C01) it denotes exactly those edges, first label winning. -/
theorem C09_dOfEdgeList (lb : Bool) (es : List (Nat × Nat × L)) :
    ofEdgeList lb (fun h i j l f => h.dAddEdge i j l f) es = .ok ((G.new lb (vcount es) : G L).addAll es) ∧
    ((G.new lb (vcount es) : G L).addAll es).size = vcount es ∧
    Inv ((G.new lb (vcount es) : G L).addAll es) := by
  refine ⟨ofEdgeList_eq lb _ addOK_dAddEdge es, ?_, inv_addAll _ (inv_new _ _) _⟩
  rw [addAll_size]; rfl

/-- the history "add the container's edges one at a time" -/
def addOps (es : List (Nat × Nat × L)) : List (SOp L) := es.map (fun e => .addEdge e.1 e.2.1 e.2.2)

theorem uRun_addOps (h : G L) (es : List (Nat × Nat × L)) :
    uRun h (addOps es) = addOnly (fun h i j l f => h.uAddEdge i j l f) h es := by
  induction es generalizing h with
  | nil => rfl
  | cons e es ih =>
    simp only [addOps, List.map_cons, uRun, List.foldl_cons, addOnly] at ih ⊢
    exact ih _

/-- **undirected constructor**: never throws; the result is the state reached from an empty graph
with `1 + largest index` vertices by the history `addEdge e₁; addEdge e₂; …`, so everything C02
proves about histories applies to it. -/
theorem C09_uOfEdgeList (lb : Bool) (es : List (Nat × Nat × L)) :
    ofEdgeList lb (fun h i j l f => h.uAddEdge i j l f) es = .ok (uRun (G.new lb (vcount es) : G L) (addOps es)) ∧
    UInv (uRun (G.new lb (vcount es) : G L) (addOps es)) := by
  refine ⟨?_, C02_inv_reachable lb _ _⟩
  rw [uRun_addOps]
  exact ofEdgeList_eq lb _ addOK_uAddEdge es

example : vcount ([] : List (Nat × Nat × Nat)) = 0 ∧ vcount [(2, 5, 7), (1, 1, (0 : Nat))] = 6 := by decide


/-! ## undirected ↔ directed -/

theorem firstLabel_some {es : List (LEdge L)} {x y : Nat} {l : L} (h : AG.firstLabel es x y = some l) :
    (x, y, l) ∈ es := by
  simp only [AG.firstLabel, Option.map_eq_some_iff] at h
  obtain ⟨⟨a, b, c⟩, hf, rfl⟩ := h
  have hm := List.mem_of_find?_eq_some hf
  have hp := List.find?_some hf
  simp only [Bool.and_eq_true, beq_iff_eq] at hp
  obtain ⟨rfl, rfl⟩ := hp
  exact hm

theorem firstLabel_none {es : List (LEdge L)} {x y : Nat} (h : AG.firstLabel es x y = none) (l : L) :
    (x, y, l) ∉ es := by
  simp only [AG.firstLabel, Option.map_eq_none_iff, List.find?_eq_none] at h
  intro hm
  have := h _ hm
  simp at this

theorem firstLabelU_some {es : List (LEdge L)} {x y : Nat} {l : L} (h : AG.firstLabelU es x y = some l) :
    ∃ i j, (i, j, l) ∈ es ∧ AG.samePair x y i j := by
  simp only [AG.firstLabelU, Option.map_eq_some_iff] at h
  obtain ⟨⟨a, b, c⟩, hf, rfl⟩ := h
  have hm := List.mem_of_find?_eq_some hf
  have hp := List.find?_some hf
  exact ⟨a, b, hm, by simpa using hp⟩

theorem firstLabelU_none {es : List (LEdge L)} {x y : Nat} (h : AG.firstLabelU es x y = none) (i j : Nat) (l : L)
    (hs : AG.samePair x y i j) : (i, j, l) ∉ es := by
  simp only [AG.firstLabelU, Option.map_eq_none_iff, List.find?_eq_none] at h
  intro hm
  have := h _ hm
  simp at this
  exact this hs

theorem absD_new_lab (lb : Bool) (n x y : Nat) : (absD (G.new lb n : G L)).lab x y = none := by
  have : (G.new lb n : G L).hasEdgeRaw x y = false := by
    simp only [hasEdgeRaw]; rw [nb_new]; rfl
  simp [absD, this]

/-- **`getDirectedGraph()`**: never throws; the result contains both orientations of every
undirected edge (one entry for a self-loop), each carrying that edge's label: its denoted
labelling *is* the (symmetric) labelling of the undirected graph. -/
theorem C09_getDirectedGraph (g : G L) (hg : UInv g) :
    ∃ r, g.uGetDirectedGraph = .ok r ∧ Inv r ∧ r.labelled = g.labelled ∧
      absD r = ⟨g.size, (absU g).lab⟩ := by
  refine ⟨_, uGetDirectedGraph_ok g hg, inv_addAll _ (inv_new _ _) _, by rw [addAll_labelled]; rfl, ?_⟩
  rw [absD_addAll _ (inv_new _ _)]
  · apply AG.ext'
    · rw [AG.addAll_n]; rfl
    · intro x y
      rw [AG.addAll_lab, absD_new_lab]
      simp only
      have hnorm : ∀ l, normLabel (G.new g.labelled g.size : G L).labelled (g.labD l) = g.labD l := by
        intro l
        simp only [normLabel, labD_eq]
        show (if g.labelled = true then _ else _) = _
        by_cases hl : g.labelled = true <;> simp [hl]
      cases hf : AG.firstLabel (g.dirEdges.map (fun e => (e.1, e.2.1, normLabel (G.new g.labelled g.size : G L).labelled e.2.2))) x y with
      | some l =>
        have hm := firstLabel_some hf
        obtain ⟨⟨a, b, c⟩, hmem, heq⟩ := List.mem_map.1 hm
        simp only [Prod.mk.injEq] at heq
        obtain ⟨rfl, rfl, rfl⟩ := heq
        obtain ⟨he, rfl⟩ := (mem_dirEdges g hg a b c).1 hmem
        simp [absU, he, hnorm]
      | none =>
        by_cases he : g.hasEdgeRaw x y = true
        · exfalso
          have hmem := (mem_dirEdges g hg x y (g.labD (ordered x y))).2 ⟨he, rfl⟩
          refine firstLabel_none hf (g.labD (ordered x y)) (List.mem_map.2 ⟨_, hmem, ?_⟩)
          simp [hnorm]
        · simp [absU, he]
  · intro e he
    obtain ⟨x, y, l⟩ := e
    have h1 := ((mem_dirEdges g hg x y l).1 he).1
    have hm : y ∈ g.nb x := (mem_nb_iff g x y).2 h1
    exact ⟨hg.base.bound y x ((hg.sym x y).1 hm), hg.base.bound x y hm⟩

/-- **`Undirected(directed)`**: never throws; it connects exactly the pairs joined in either
direction, each labelled as one of the directed edges between them. -/
theorem C09_uOfDirected (d : G L) (hd : Inv d) :
    ∃ r, d.uOfDirected = .ok r ∧ UInv r ∧ r.labelled = d.labelled ∧ r.size = d.size ∧
      ∀ x y, (((absU r).lab x y).isSome = (((absD d).lab x y).isSome || ((absD d).lab y x).isSome)) ∧
        ∀ l, (absU r).lab x y = some l → (absD d).lab x y = some l ∨ (absD d).lab y x = some l := by
  have hvalid : AG.ValidFrom (L := L) d.size (d.lblEdges.map (fun e => SOp.addEdge e.1 e.2.1 e.2.2)) := by
    apply validFrom_addOps
    intro e he
    simp only [lblEdges, List.mem_map] at he
    obtain ⟨⟨a, b⟩, hab, rfl⟩ := he
    exact hd.hasEdgeRaw_lt ((mem_edgeSeq_iff d hd (a, b)).1 hab)
  have hsz : (uRun (G.new d.labelled d.size : G L) (d.lblEdges.map (fun e => SOp.addEdge e.1 e.2.1 e.2.2))).size = d.size := by
    have := congrArg AG.n (C02_refines (L := L) d.labelled d.size _ hvalid)
    simp only [absU] at this
    rw [this, AG.uDenote_addOps, AG.uAddAll_n]; rfl
  refine ⟨_, uOfDirected_ok d hd, C02_inv_reachable _ _ _, ?_, hsz, ?_⟩
  · rw [uRun_labelled _ (uinv_new _ _)]; rfl
  · intro x y
    rw [C02_refines (L := L) d.labelled d.size _ hvalid, AG.uDenote_addOps,
      AG.uAddAll_lab _ (by intro a b; rfl)]
    simp only [AG.empty]
    have hnorm : ∀ e : Edge, (if d.labelled = true then d.labD e else default) = d.labD e := by
      intro e; simp only [labD_eq]; by_cases hl : d.labelled = true <;> simp [hl]
    have hmemL : ∀ i j l, (i, j, l) ∈ d.lblEdges.map (fun e => (e.1, e.2.1, if d.labelled = true then e.2.2 else default))
        ↔ d.hasEdgeRaw i j = true ∧ l = d.labD (i, j) := by
      intro i j l
      simp only [lblEdges, List.map_map, List.mem_map, Function.comp, Prod.mk.injEq]
      constructor
      · rintro ⟨⟨a, b⟩, hab, rfl, rfl, rfl⟩
        exact ⟨(mem_edgeSeq_iff d hd (a, b)).1 hab, (hnorm _).symm ▸ rfl⟩
      · rintro ⟨he, rfl⟩
        exact ⟨(i, j), (mem_edgeSeq_iff d hd (i, j)).2 he, rfl, rfl, hnorm _⟩
    cases hf : AG.firstLabelU (d.lblEdges.map (fun e => (e.1, e.2.1, if d.labelled = true then e.2.2 else default))) x y with
    | some l =>
      obtain ⟨i, j, hm, hs⟩ := firstLabelU_some hf
      obtain ⟨he, rfl⟩ := (hmemL i j l).1 hm
      simp only [absD]
      rcases hs with ⟨rfl, rfl⟩ | ⟨rfl, rfl⟩
      · refine ⟨by simp [he], ?_⟩
        intro l hl; left; simp only [Option.some.injEq] at hl; simp [he, hl]
      · refine ⟨by simp [he], ?_⟩
        intro l hl; right; simp only [Option.some.injEq] at hl; simp [he, hl]
    | none =>
      have h1 : d.hasEdgeRaw x y = false := by
        cases he : d.hasEdgeRaw x y with
        | false => rfl
        | true =>
          exact absurd ((hmemL x y _).2 ⟨he, rfl⟩) (firstLabelU_none hf x y _ (Or.inl ⟨rfl, rfl⟩))
      have h2 : d.hasEdgeRaw y x = false := by
        cases he : d.hasEdgeRaw y x with
        | false => rfl
        | true =>
          exact absurd ((hmemL y x _).2 ⟨he, rfl⟩) (firstLabelU_none hf y x _ (Or.inr ⟨rfl, rfl⟩))
      refine ⟨by simp [absD, h1, h2], ?_⟩
      intro l hl; cases hl

/-- **undirected → directed → undirected is the identity** (of the denoted graph) -/
theorem C09_und_dir_und (g : G L) (hg : UInv g) :
    ∃ r r2, g.uGetDirectedGraph = .ok r ∧ r.uOfDirected = .ok r2 ∧ absU r2 = absU g := by
  obtain ⟨r, hr, hri, hrl, hra⟩ := C09_getDirectedGraph g hg
  obtain ⟨r2, hr2, _, _, hsz, hlab⟩ := C09_uOfDirected r hri
  refine ⟨r, r2, hr, hr2, ?_⟩
  have hrs : r.size = g.size := congrArg AG.n hra
  apply AG.ext'
  · show r2.size = g.size; rw [hsz, hrs]
  · intro x y
    obtain ⟨h1, h2⟩ := hlab x y
    have hxy : (absD r).lab x y = (absU g).lab x y := by rw [hra]
    have hyx : (absD r).lab y x = (absU g).lab x y := by rw [hra]; exact C02_symmetric g hg y x
    rw [hxy, hyx, Bool.or_self] at h1
    cases hl : (absU r2).lab x y with
    | some l =>
      have := h2 l hl
      rw [hxy, hyx] at this
      rcases this with h | h <;> exact h.symm
    | none =>
      rw [hl] at h1
      cases hg' : (absU g).lab x y with
      | none => rfl
      | some v => rw [hg'] at h1; cases h1

example : (match (⟨true, 3, [[1], [0, 1, 2], [1]], 3, [((0, 1), 7), ((1, 1), 8), ((1, 2), 9)]⟩ : G Nat).uGetDirectedGraph with
    | .ok r => some (r.adj, r.edgeNumber, r.labels) | _ => none)
    = some ([[1], [0, 1, 2], [1]], 5, [((2, 1), 9), ((1, 2), 9), ((1, 1), 8), ((1, 0), 7), ((0, 1), 7)]) := by decide

end BGV
