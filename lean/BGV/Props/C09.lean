import BGV.Proofs.Convert
/-!
# Property C09 — conversions, reversal, copies (part: `getReversedGraph`; copies)

`dReversed` is the model of `getReversedGraph()` (unforced `addEdge(j,i,getEdgeLabel(i,j))` along
`edges()` as the iterator runs it).  In the model a copy *is* the value, so independence of copies
is definitional; the C++ side of copy construction / assignment is covered by the correspondence.

Not yet proved in Lean (correspondence only): `getDirectedGraph`, construction of an undirected
graph from a directed one, the edge-list constructors.
-/
set_option linter.unusedSectionVars false
namespace BGV
open G
variable {L : Type} [Inhabited L]

/-- **reversal:** the reversed graph contains exactly (j,i) with the label of (i,j), for every
edge (i,j); it never throws on a reachable state, including the graph with no vertices. -/
theorem C09_reversed (g : G L) (hg : Inv g) :
    ∃ r, g.dReversed = .ok r ∧ Inv r ∧ r.labelled = g.labelled ∧
      absD r = ⟨g.size, fun x y => (absD g).lab y x⟩ := by
  refine ⟨_, dReversed_ok g hg, inv_addAll _ (inv_new _ _) _, ?_, ?_⟩
  · rw [addAll_labelled]; rfl
  · rw [absD_addAll _ (inv_new _ _)]
    · apply AG.ext'
      · rw [AG.addAll_n]; rfl
      · intro x y
        rw [AG.addAll_lab]
        have h0 : (absD (G.new g.labelled g.size : G L)).lab x y = none := by
          have : (G.new g.labelled g.size : G L).hasEdgeRaw x y = false := by
            simp only [hasEdgeRaw]; rw [nb_new]; rfl
          simp [absD, this]
        rw [h0]
        simp only [revEdges, List.map_map]
        have hfun : ((fun e : LEdge L => (e.1, e.2.1, normLabel (G.new g.labelled g.size : G L).labelled e.2.2)) ∘
            (fun e : Edge => ((e.2, e.1, g.labD (e.1, e.2)) : LEdge L)))
            = (fun e : Edge => ((e.2, e.1, normLabel g.labelled (g.labD (e.1, e.2))) : LEdge L)) := by
          funext e; rfl
        rw [hfun, firstLabel_swapped g.edgeSeq (fun e => normLabel g.labelled (g.labD (e.1, e.2))) x y]
        simp only [absD]
        by_cases he : g.hasEdgeRaw y x = true
        · have hm : (y, x) ∈ g.edgeSeq := (mem_edgeSeq_iff g hg (y, x)).2 he
          simp only [hm, he, if_true]
          congr 1
          simp only [normLabel, labD_eq]
          by_cases hl : g.labelled = true <;> simp [hl]
        · have hm : (y, x) ∉ g.edgeSeq := fun hh => he ((mem_edgeSeq_iff g hg (y, x)).1 hh)
          simp [hm, he]
    · intro e he
      simp only [revEdges, List.mem_map] at he
      obtain ⟨⟨a, b⟩, hab, rfl⟩ := he
      have := hg.hasEdgeRaw_lt ((mem_edgeSeq_iff g hg (a, b)).1 hab)
      exact ⟨this.2, this.1⟩

/-- reversing twice gives an equal graph (`==`) -/
theorem C09_reversed_twice [DecidableEq L] (g : G L) (hg : Reach g) :
    ∃ r r2, g.dReversed = .ok r ∧ r.dReversed = .ok r2 ∧ dEq r2 g = true := by
  obtain ⟨r, hr, hri, hrl, hra⟩ := C09_reversed g hg.1
  obtain ⟨r2, hr2, hr2i, hr2l, hr2a⟩ := C09_reversed r hri
  refine ⟨r, r2, hr, hr2, ?_⟩
  have hk1 : KeysNodup r := by
    have := dReversed_ok g hg.1
    rw [hr] at this
    injection this with this
    rw [this]; exact keysNodup_addAll _ (keysNodup_new _ _) _
  have hk2 : KeysNodup r2 := by
    have := dReversed_ok r hri
    rw [hr2] at this
    injection this with this
    rw [this]; exact keysNodup_addAll _ (keysNodup_new _ _) _
  rw [C06_eq_iff_same_graph r2 g ⟨hr2i, hk2⟩ hg (by rw [hr2l, hrl])]
  rw [hr2a]
  apply AG.ext'
  · show r.size = g.size
    have := congrArg AG.n hra
    exact this
  · intro x y
    show (absD r).lab y x = (absD g).lab x y
    rw [hra]

example : (dReversed (dRun (G.new true 3 : G Nat) [.addEdge 0 1 7, .addEdge 2 1 5, .addEdge 1 1 9])).map
    (fun r => (r.nb 1, r.labels.get? (1, 2))) = .ok ([0, 1, 2], some 5) := by decide

end BGV
