import BGV.Props.C02
import BGV.Props.C03
/-!
# Property C03 — undirected labelled graphs: `hasEdge(i,j,l)`, re-adding, re-creating

The undirected counterparts of `C03_hasEdgeL`, `C03_add_present_keeps_label` and
`C03_recreate_shows_new_label`, in either orientation of the pair.
-/
set_option linter.unusedSectionVars false
namespace BGV
open G
variable {L : Type} [Inhabited L]

/-- `hasEdge(i,j,l)` (either orientation) is true iff the pair is an edge whose label equals `l` -/
theorem C03_und_hasEdgeL [DecidableEq L] (g : G L) (hg : UInv g) (hl : g.labelled = true) (i j : Nat) (l : L)
    (hi : i < g.size) (hj : j < g.size) :
    g.uHasEdgeL i j l = .ok (decide ((absU g).lab i j = some l)) := by
  have hget := C03_und_getEdgeLabel g hg hl i j hi hj false
  have hraw : g.uHasEdgeRaw i j = g.hasEdgeRaw i j := hg.uHasEdgeRaw_eq i j
  simp only [uHasEdgeL, uHasEdge, inR, hi, hj, decide_true, Bool.and_self, if_true, hraw]
  by_cases he : g.hasEdgeRaw i j = true
  · simp only [he]
    rw [hget]
    simp only [absU, he, if_true, Res.map]
    congr 1
    simp
  · have he' : g.hasEdgeRaw i j = false := by simpa using he
    simp [he', absU]

/-- adding an already-present pair (either orientation, any label) changes nothing at all -/
theorem C03_und_add_present_keeps_label (g : G L) (hg : UInv g) (i j : Nat) (l : L) (hi : i < g.size) (hj : j < g.size)
    (he : g.hasEdgeRaw i j = true) : (g.uStepM (.addEdge i j l)).1 = g := by
  have hraw : g.uHasEdgeRaw i j = true := by rw [hg.uHasEdgeRaw_eq i j]; exact he
  show (g.uAddEdge i j l false).1 = g
  rw [uAddEdge_present g i j l hi hj hraw]

/-- re-creating a removed pair shows only the new label, in both orientations -/
theorem C03_und_recreate_shows_new_label (g : G L) (hg : UInv g) (hl : g.labelled = true) (i j : Nat) (l : L)
    (hi : i < g.size) (hj : j < g.size) :
    (absU ((g.uStepM (.removeEdge i j)).1.uStepM (.addEdge i j l)).1).lab i j = some l ∧
    (absU ((g.uStepM (.removeEdge i j)).1.uStepM (.addEdge i j l)).1).lab j i = some l := by
  have h1 := uinv_uStepM g hg (.removeEdge i j)
  have hv1 : (SOp.removeEdge i j : SOp L).valid g.size := ⟨hi, hj⟩
  have hs1 : (g.uStepM (.removeEdge i j)).1.size = g.size := by
    have := congrArg AG.n (absU_uStepM g hg (.removeEdge i j) hv1)
    simpa [absU, AG.uStep, AG.uRemove] using this
  have hv2 : (SOp.addEdge i j l : SOp L).valid (g.uStepM (.removeEdge i j)).1.size := by
    simp only [SOp.valid]; rw [hs1]; exact ⟨hi, hj⟩
  rw [absU_uStepM _ h1 (.addEdge i j l) hv2, absU_uStepM g hg (.removeEdge i j) hv1]
  have hlb : (g.uStepM (.removeEdge i j)).1.labelled = true := by
    have := uStepM_labelled g hg (.removeEdge i j)
    rw [this]; exact hl
  rw [hlb]
  simp [AG.uStep, AG.uAdd, AG.uRemove, AG.samePair]

example : (uRun (G.new true 3 : G Nat) [.addEdge 2 0 7, .setEdgeLabel 0 2 8]).uHasEdgeL 0 2 8 = .ok true ∧
    (uRun (G.new true 3 : G Nat) [.addEdge 2 0 7, .removeVertexFromEdgeList 0]).uHasEdgeL 2 0 0 = .ok false := by decide

end BGV
