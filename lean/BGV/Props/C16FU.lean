import BGV.Props.C16MU
/-!
# Property C16 — forced insertion into the undirected weighted graph / multigraph

One more copy of a pair with the pair's value: one more counted entry (`i ≤ j`), the running total
grows by that value and stays equal to the sum over the counted entries — the premise of
`C16_uweighted_removeDuplicateEdges` / `C16_umulti_removeDuplicateEdges` is therefore preserved by
every forced insertion that respects "all copies of a pair carry the same value".
-/
set_option linter.unusedSectionVars false
namespace BGV
open G

/-- label look-up after `uAdded`: the ordered pair gets the new value, nothing else changes -/
theorem labD_uAdded {L : Type} [Inhabited L] (g : G L) (hl : g.labelled = true) (i j : Nat) (w : L) (e : Edge) :
    (g.uAdded i j w).labD e = if e = ordered i j then w else g.labD e := by
  have hlbl : (g.uAdded i j w).labelled = true := by
    simp only [uAdded, withEN_labelled, setLab_labelled]
    by_cases hij : i = j <;> simp [hij, hl]
  have hlab : (g.uAdded i j w).labels = g.labels.insert (ordered i j) w := by
    simp only [uAdded, withEN_labels]
    rw [setLab_labels_true _ _ _ (by split <;> simpa [push] using hl)]
    split <;> rfl
  simp only [labD, hlbl, hl, if_true, hlab]
  rw [AMap.get?_insert]
  by_cases he : e = ordered i j
  · simp [he]
  · simp [he]

/-- on the entries already present, the counted value is unchanged (copies carry one value) -/
theorem counted_old_eq {L : Type} [Inhabited L] [Zero L] (g : G L) (hs : Sym g) (hl : g.labelled = true) (i j : Nat) (w : L)
    (hw : g.hasEdgeRaw i j = true → g.labD (ordered i j) = w) (k x : Nat) (hx : x ∈ g.nb k) :
    (if k ≤ x then (g.uAdded i j w).labD (k, x) else 0) = (if k ≤ x then g.labD (k, x) else 0) := by
  by_cases hkx : k ≤ x
  · simp only [hkx, if_true]
    rw [labD_uAdded g hl]
    by_cases he : (k, x) = ordered i j
    · simp only [he, if_true]
      have hsp := (ordered_eq_iff k x i j).1 (by rw [ordered_of_le hkx]; exact he)
      have hraw : g.hasEdgeRaw i j = true := by
        rcases hsp with ⟨rfl, rfl⟩ | ⟨rfl, rfl⟩
        · simpa [hasEdgeRaw] using hx
        · have := (hs k x).1 hx
          simpa [hasEdgeRaw] using this
      exact (hw hraw).symm
    · simp [he]
  · simp [hkx]

/-- **C16 (undirected weighted): forced insertion** of another copy with the pair's weight: the total
grows by that weight, stays equal to the sum over the counted entries, and the weak invariant survives -/
theorem C16_uweighted_forced_add (m : WG) (hf : UFInv m.g) (hl : m.g.labelled = true) (i j : Nat) (w : Int)
    (hi : i < m.g.size) (hj : j < m.g.size) (hw : m.g.hasEdgeRaw i j = true → m.g.labD (ordered i j) = w)
    (ht : m.total = uEntrySum m.g) :
    let m' := (m.uAddEdge i j w true).1
    m'.total = m.total + w ∧ m'.total = uEntrySum m'.g ∧ UFInv m'.g := by
  have hr : (m.g.inR i && m.g.inR j) = true := by simp [inR, hi, hj]
  have hil : i < m.g.adj.length := by rw [hf.len]; exact hi
  have hjl : j < m.g.adj.length := by rw [hf.len]; exact hj
  have hg : (m.g.uAddEdge i j w true).1 = m.g.uAdded i j w := by
    simp [G.uAddEdge, inR, hi, hj, uAdded]
  have hstep : (m.uAddEdge i j w true).1 = ⟨m.g.uAdded i j w, m.total + w⟩ := by
    simp [WG.uAddEdge, hr, hg]
  have hinv := (C16_und_forced_add m.g hf i j w hi hj).1
  rw [hg] at hinv
  show (m.uAddEdge i j w true).1.total = m.total + w ∧ (m.uAddEdge i j w true).1.total = uEntrySum (m.uAddEdge i j w true).1.g ∧
    UFInv (m.uAddEdge i j w true).1.g
  rw [hstep]
  refine ⟨rfl, ?_, hinv⟩
  have hsz : (m.g.uAdded i j w).size = m.g.size := by
    simp only [uAdded, withEN_size, setLab_size]
    by_cases hij : i = j <;> simp [hij]
  simp only [uEntrySum, hsz]
  have hold : ∀ k, ((m.g.nb k).map (fun x => if k ≤ x then (m.g.uAdded i j w).labD (k, x) else 0))
      = ((m.g.nb k).map (fun x => if k ≤ x then m.g.labD (k, x) else 0)) := by
    intro k
    apply List.map_congr_left
    intro x hx
    exact counted_old_eq m.g hf.sym hl i j w hw k x hx
  have hnew : ∀ a b, (a = i ∧ b = j) ∨ (a = j ∧ b = i) → a ≤ b → (m.g.uAdded i j w).labD (a, b) = w := by
    intro a b hsp hab
    rw [labD_uAdded m.g hl]
    have : (a, b) = ordered i j := by
      rw [← ordered_of_le hab]; exact (ordered_eq_iff a b i j).2 hsp
    simp [this]
  have hrow : ∀ k, (((m.g.uAdded i j w).nb k).map (fun x => if k ≤ x then (m.g.uAdded i j w).labD (k, x) else 0)).sum
      = ((m.g.nb k).map (fun x => if k ≤ x then m.g.labD (k, x) else 0)).sum
        + (if (k = i ∧ i ≤ j) ∨ (k = j ∧ j < i) then w else 0) := by
    intro k
    rw [nb_uAdded m.g i j k w hil hjl]
    by_cases hki : k = i
    · by_cases hkj : k = j
      · -- self-loop
        subst hki; subst hkj
        simp only [and_self, if_true, List.map_append, List.sum_append, hold, List.map_cons, List.map_nil, List.sum_cons,
          List.sum_nil, Nat.le_refl, true_and, Nat.lt_irrefl, and_false, or_false]
        rw [hnew k k (Or.inl ⟨rfl, rfl⟩) (Nat.le_refl k)]; omega
      · subst hki
        simp only [hkj, and_false, if_false, if_true, List.map_append, List.sum_append, hold, List.map_cons, List.map_nil,
          List.sum_cons, List.sum_nil, true_and, false_and, or_false]
        by_cases hle : k ≤ j
        · simp only [hle, if_true]
          rw [hnew k j (Or.inl ⟨rfl, rfl⟩) hle]; omega
        · simp [hle]
    · by_cases hkj : k = j
      · subst hkj
        have hik : ¬ i = k := fun e => hki e.symm
        simp only [hki, false_and, if_false, if_true, List.map_append, List.sum_append, hold, List.map_cons, List.map_nil,
          List.sum_cons, List.sum_nil, true_and, false_or]
        by_cases hlt : k < i
        · have hle : k ≤ i := Nat.le_of_lt hlt
          simp only [hle, hlt, if_true]
          rw [hnew k i (Or.inr ⟨rfl, rfl⟩) hle]; omega
        · have hle : ¬ k ≤ i := by omega
          simp [hle, hlt]
      · simp [hki, hkj, hold]
  simp only [hrow]
  -- exactly one row changes
  have ha : (if i ≤ j then i else j) < m.g.size := by split <;> assumption
  have hsum := sumI_map_range_change m.g.size (if i ≤ j then i else j)
    (fun k => ((m.g.nb k).map (fun x => if k ≤ x then m.g.labD (k, x) else 0)).sum)
    (fun k => ((m.g.nb k).map (fun x => if k ≤ x then m.g.labD (k, x) else 0)).sum
        + (if (k = i ∧ i ≤ j) ∨ (k = j ∧ j < i) then w else 0)) ha (by
      intro k hk
      have : ¬ ((k = i ∧ i ≤ j) ∨ (k = j ∧ j < i)) := by
        rintro (⟨rfl, h2⟩ | ⟨rfl, h2⟩)
        · simp [h2] at hk
        · have : ¬ i ≤ k := by omega
          simp [this] at hk
      simp [this])
  have hcond : ((if i ≤ j then i else j) = i ∧ i ≤ j) ∨ ((if i ≤ j then i else j) = j ∧ j < i) := by
    by_cases h : i ≤ j
    · left; simp [h]
    · right; simp [h]; omega
  simp only [hcond, if_true] at hsum
  rw [ht]; simp only [uEntrySum]; omega

/-- **C16 (undirected multigraph): forced insertion** of another copy with the pair's multiplicity -/
theorem C16_umulti_forced_add (m : MG) (hf : UFInv m.g) (hl : m.g.labelled = true) (i j : Nat) (w : Nat) (hpos : w ≠ 0)
    (hi : i < m.g.size) (hj : j < m.g.size) (hw : m.g.hasEdgeRaw i j = true → m.g.labD (ordered i j) = w)
    (ht : m.total = uEntrySumN m.g) :
    let m' := (m.uAddMultiedge i j w true).1
    m'.total = m.total + w ∧ m'.total = uEntrySumN m'.g ∧ UFInv m'.g := by
  have hr : (m.g.inR i && m.g.inR j) = true := by simp [inR, hi, hj]
  have hil : i < m.g.adj.length := by rw [hf.len]; exact hi
  have hjl : j < m.g.adj.length := by rw [hf.len]; exact hj
  have hg : (m.g.uAddEdge i j w true).1 = m.g.uAdded i j w := by
    simp [G.uAddEdge, inR, hi, hj, uAdded]
  have hstep : (m.uAddMultiedge i j w true).1 = ⟨m.g.uAdded i j w, m.total + w⟩ := by
    simp [MG.uAddMultiedge, hr, hg, hpos]
  have hinv := (C16_und_forced_add m.g hf i j w hi hj).1
  rw [hg] at hinv
  show (m.uAddMultiedge i j w true).1.total = m.total + w ∧ (m.uAddMultiedge i j w true).1.total = uEntrySumN (m.uAddMultiedge i j w true).1.g ∧
    UFInv (m.uAddMultiedge i j w true).1.g
  rw [hstep]
  refine ⟨rfl, ?_, hinv⟩
  have hsz : (m.g.uAdded i j w).size = m.g.size := by
    simp only [uAdded, withEN_size, setLab_size]
    by_cases hij : i = j <;> simp [hij]
  simp only [uEntrySumN, hsz]
  have hold : ∀ k, ((m.g.nb k).map (fun x => if k ≤ x then (m.g.uAdded i j w).labD (k, x) else 0))
      = ((m.g.nb k).map (fun x => if k ≤ x then m.g.labD (k, x) else 0)) := by
    intro k
    apply List.map_congr_left
    intro x hx
    exact counted_old_eq m.g hf.sym hl i j w hw k x hx
  have hnew : ∀ a b, (a = i ∧ b = j) ∨ (a = j ∧ b = i) → a ≤ b → (m.g.uAdded i j w).labD (a, b) = w := by
    intro a b hsp hab
    rw [labD_uAdded m.g hl]
    have : (a, b) = ordered i j := by
      rw [← ordered_of_le hab]; exact (ordered_eq_iff a b i j).2 hsp
    simp [this]
  have hrow : ∀ k, (((m.g.uAdded i j w).nb k).map (fun x => if k ≤ x then (m.g.uAdded i j w).labD (k, x) else 0)).sum
      = ((m.g.nb k).map (fun x => if k ≤ x then m.g.labD (k, x) else 0)).sum
        + (if (k = i ∧ i ≤ j) ∨ (k = j ∧ j < i) then w else 0) := by
    intro k
    rw [nb_uAdded m.g i j k w hil hjl]
    by_cases hki : k = i
    · by_cases hkj : k = j
      · -- self-loop
        subst hki; subst hkj
        simp only [and_self, if_true, List.map_append, List.sum_append, hold, List.map_cons, List.map_nil, List.sum_cons,
          List.sum_nil, Nat.le_refl, true_and, Nat.lt_irrefl, and_false, or_false]
        rw [hnew k k (Or.inl ⟨rfl, rfl⟩) (Nat.le_refl k)]; omega
      · subst hki
        simp only [hkj, and_false, if_false, if_true, List.map_append, List.sum_append, hold, List.map_cons, List.map_nil,
          List.sum_cons, List.sum_nil, true_and, false_and, or_false]
        by_cases hle : k ≤ j
        · simp only [hle, if_true]
          rw [hnew k j (Or.inl ⟨rfl, rfl⟩) hle]; omega
        · simp [hle]
    · by_cases hkj : k = j
      · subst hkj
        have hik : ¬ i = k := fun e => hki e.symm
        simp only [hki, false_and, if_false, if_true, List.map_append, List.sum_append, hold, List.map_cons, List.map_nil,
          List.sum_cons, List.sum_nil, true_and, false_or]
        by_cases hlt : k < i
        · have hle : k ≤ i := Nat.le_of_lt hlt
          simp only [hle, hlt, if_true]
          rw [hnew k i (Or.inr ⟨rfl, rfl⟩) hle]; omega
        · have hle : ¬ k ≤ i := by omega
          simp [hle, hlt]
      · simp [hki, hkj, hold]
  simp only [hrow]
  -- exactly one row changes
  have ha : (if i ≤ j then i else j) < m.g.size := by split <;> assumption
  have hsum := sum_map_cnt_change m.g.size (if i ≤ j then i else j)
    (fun k => ((m.g.nb k).map (fun x => if k ≤ x then m.g.labD (k, x) else 0)).sum
        + (if (k = i ∧ i ≤ j) ∨ (k = j ∧ j < i) then w else 0))
    (fun k => ((m.g.nb k).map (fun x => if k ≤ x then m.g.labD (k, x) else 0)).sum) w ha (by
      intro k
      by_cases hk : (if i ≤ j then i else j) = k
      · have hcond : (k = i ∧ i ≤ j) ∨ (k = j ∧ j < i) := by
          by_cases h : i ≤ j
          · left; simp [h] at hk; exact ⟨hk.symm, h⟩
          · right; simp [h] at hk; exact ⟨hk.symm, by omega⟩
        simp [hk, hcond]
      · have : ¬ ((k = i ∧ i ≤ j) ∨ (k = j ∧ j < i)) := by
          rintro (⟨rfl, h2⟩ | ⟨rfl, h2⟩)
          · simp [h2] at hk
          · have : ¬ i ≤ k := by omega
            simp [this] at hk
        simp [hk, this])
  rw [ht]; simp only [uEntrySumN]; omega

/-- not vacuous: the premises hold along a history of forced insertions -/
example :
    let m := ((WG.new 3).uAddEdge 0 1 5 false).1
    UFInv m.g ∧ m.total = uEntrySum m.g ∧ (m.g.hasEdgeRaw 1 0 = true → m.g.labD (ordered 1 0) = 5) := by
  refine ⟨ufinv_of_uinv _ (C05_und_inv_reachable 3 [.addEdge 0 1 5]).base, by decide, by decide⟩

end BGV
