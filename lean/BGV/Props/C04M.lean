import BGV.Props.C04U
import BGV.Props.C01M
import BGV.Proofs.Convert2
/-!
# Property C04 — degrees and the adjacency matrix of multigraphs are the multiplicity-weighted
counts
-/
set_option linter.unusedSectionVars false
namespace BGV
open G MG

theorem sum_filter_pair_const (es : List Edge) (hn : es.Nodup) (w : Edge → Nat) (a b : Nat) :
    ((es.filter (fun e => e.1 == a && e.2 == b)).map w).sum = if (a, b) ∈ es then w (a, b) else 0 := by
  induction es with
  | nil => simp
  | cons e es ih =>
    have hn' := List.nodup_cons.1 hn
    simp only [List.filter_cons]
    by_cases hc : e = (a, b)
    · subst hc
      have : (a, b) ∉ es := hn'.1
      simp [ih hn'.2, this]
    · have : (e.1 == a && e.2 == b) = false := by
        simp only [Bool.and_eq_false_iff, beq_eq_false_iff_ne]
        by_cases h1 : e.1 = a
        · right; intro h2; exact hc (Prod.ext h1 h2)
        · left; exact h1
      have hne : ¬ (a, b) = e := fun e' => hc e'.symm
      simp [this, ih hn'.2, hne]

/-- **C04 (directed): adjacency matrix.** entry `(i,j)` is the multiplicity of `(i,j)` -/
theorem C04_dir_adjacencyMatrix (m : MG) (h : MInv m) :
    ∃ mat, m.dGetAdjacencyMatrix = .ok mat ∧ Square m.g.size mat ∧ ∀ i j, getM mat i j = (absM m).mu i j := by
  have hall := allInR_of_inv m.g h.base
  have hes : ∀ e ∈ m.g.edgeSeq, e.1 < m.g.size ∧ e.2 < m.g.size :=
    fun e he => h.base.hasEdgeRaw_lt ((mem_edgeSeq_iff m.g h.base e).1 he)
  obtain ⟨h1, h2⟩ := foldl_bump2 m.g.size m.g.edgeSeq (fun e => cur m.g e) hes _ (square_zero m.g.size)
  have hrun : m.dGetAdjacencyMatrix = .ok (m.g.edgeSeq.foldl (fun mm e => bump2 mm e.1 e.2 (cur m.g e)) (zeroMatrix m.g.size)) := by
    simp only [MG.dGetAdjacencyMatrix, hall, if_true]
    congr 1
    exact nested_fold_eq m.g (fun mm i j => bump2 mm i j (cur m.g (i, j))) (List.range m.g.size) (zeroMatrix m.g.size)
  refine ⟨_, hrun, h1, ?_⟩
  intro i j
  rw [h2, getM_zero]
  have hnd : m.g.edgeSeq.Nodup := by rw [← dEdges_eq m.g h.base.len]; exact C08_dEdges_nodup m.g h.base
  rw [sum_filter_pair_const _ hnd]
  show _ = m.mult i j
  by_cases he : m.g.hasEdgeRaw i j = true
  · simp [(mem_edgeSeq_iff m.g h.base (i, j)).2 he, mult]
  · have hne : (i, j) ∉ m.g.edgeSeq := fun hh => he ((mem_edgeSeq_iff m.g h.base (i, j)).1 hh)
    have he' : m.g.hasEdgeRaw i j = false := by simpa using he
    simp [hne, (mult_eq_zero_iff m h i j).2 he']

/-- **C04 (undirected): getDegree.** the multiplicity-weighted count: the sum over the row, a
self-loop counted twice by default and once on request -/
theorem C04_und_degree (m : MG) (h : MUInv m) (v : Nat) (hv : v < m.g.size) (twice : Bool) :
    m.uGetDegree v twice = .ok (((List.range m.g.size).map (fun j =>
      if twice = true ∧ v = j then 2 * (absMU m).mu v j else (absMU m).mu v j)).sum) := by
  have hall : m.g.allInR = true := by
    simp only [allInR, List.all_eq_true, decide_eq_true_eq]
    intro l hl j hj
    obtain ⟨i, hi, rfl⟩ := List.getElem_of_mem hl
    have : m.g.nb i = m.g.adj[i] := by simp [nb, List.getD_eq_getElem?_getD, hi]
    exact h.base.base.bound i j (by rw [this]; exact hj)
  have hr : m.g.inR v = true := by simp [inR, hv]
  simp only [MG.uGetDegree, hr, hall, Bool.not_true, Bool.false_eq_true, if_false]
  congr 1
  have := sum_map_nodup_eq_range (m.g.nb v) m.g.size
    (fun j => if twice = true ∧ v = j then 2 * m.umult v j else m.umult v j)
    (h.base.base.nodup v) (h.base.base.bound v) (by
      intro x hx
      have hne : m.g.hasEdgeRaw v x = false := by
        cases he : m.g.hasEdgeRaw v x with
        | false => rfl
        | true => exact absurd ((mem_nb_iff m.g v x).2 he) hx
      have hz := (umult_eq_zero_iff m h v x).2 hne
      simp only [hz]; split <;> rfl)
  show _ = ((List.range m.g.size).map (fun j => if twice = true ∧ v = j then 2 * m.umult v j else m.umult v j)).sum
  rw [← this]
  apply congrArg
  apply List.map_congr_left
  intro j _
  simp only [umult]
  by_cases hc : twice = true ∧ v = j
  · obtain ⟨rfl, rfl⟩ := hc; simp
  · have : (twice && v == j) = false := by
      cases twice
      · rfl
      · simp only [Bool.true_and, beq_eq_false_iff_ne]; intro e; exact hc ⟨rfl, e⟩
    simp [this, hc]

example : (MG.uGetDegree ((MG.new 3).uRun [.addMultiedge 0 1 3, .addMultiedge 2 2 2, .addEdge 2 0]) 2 true) = .ok 5 := by decide

end BGV

namespace BGV
open G MG

/-- the nested loop of the multigraph `getAdjacencyMatrix` when every label lookup succeeds -/
theorem am_fold (g : G Nat) (lab : Nat → Nat → Res Nat) (w : Edge → Nat) (is : List Nat)
    (hok : ∀ i ∈ is, ∀ j ∈ g.nb i, lab i j = .ok (w (i, j))) (k : Nat → Nat → Nat → Nat) (mat : List (List Nat)) :
    is.foldl (fun (r : Res (List (List Nat))) i => (g.nb i).foldl (fun (r : Res (List (List Nat))) j =>
        r.bind (fun mat => (lab i j).map (fun c => bump2 mat i j (k i j c)))) r) (Res.ok mat)
      = Res.ok ((is.flatMap (fun i => (g.nb i).map (fun j => (i, j)))).foldl (fun m e => bump2 m e.1 e.2 (k e.1 e.2 (w e))) mat) := by
  induction is generalizing mat with
  | nil => rfl
  | cons i is ih =>
    simp only [List.foldl_cons, List.flatMap_cons, List.foldl_append]
    have hinner : ∀ (js : List Nat) (mat : List (List Nat)), (∀ j ∈ js, lab i j = .ok (w (i, j))) →
        js.foldl (fun (r : Res (List (List Nat))) j => r.bind (fun mat => (lab i j).map (fun c => bump2 mat i j (k i j c)))) (Res.ok mat)
          = Res.ok ((js.map (fun j => (i, j))).foldl (fun m e => bump2 m e.1 e.2 (k e.1 e.2 (w e))) mat) := by
      intro js
      induction js with
      | nil => intro mat _; rfl
      | cons j js ihj =>
        intro mat hj
        simp only [List.foldl_cons, List.map_cons, Res.bind, hj j (by simp), Res.map]
        exact ihj _ (fun x hx => hj x (by simp [hx]))
    rw [hinner (g.nb i) mat (hok i (by simp))]
    exact ih (fun x hx => hok x (by simp [hx])) _

/-- **C04 (undirected): adjacency matrix.** symmetric; entry `(i,j)` is the multiplicity of `{i,j}`,
a self-loop's multiplicity doubled on the diagonal by default -/
theorem C04_und_adjacencyMatrix (m : MG) (h : MUInv m) (twice : Bool) :
    ∃ mat, m.uGetAdjacencyMatrix twice = .ok mat ∧ Square m.g.size mat ∧
      (∀ i j, getM mat i j = if i = j ∧ twice = true then 2 * (absMU m).mu i j else (absMU m).mu i j) ∧
      (∀ i j, getM mat i j = getM mat j i) := by
  have hall : m.g.allInR = true := by
    simp only [allInR, List.all_eq_true, decide_eq_true_eq]
    intro l hl j hj
    obtain ⟨i, hi, rfl⟩ := List.getElem_of_mem hl
    have : m.g.nb i = m.g.adj[i] := by simp [nb, List.getD_eq_getElem?_getD, hi]
    exact h.base.base.bound i j (by rw [this]; exact hj)
  have hmemE : ∀ e, e ∈ m.g.edgeSeq ↔ m.g.hasEdgeRaw e.1 e.2 = true := by
    intro e; obtain ⟨a, b⟩ := e
    rw [mem_edgeSeq m.g h.base.base.len, mem_nb_iff]
  have hes : ∀ e ∈ m.g.edgeSeq, e.1 < m.g.size ∧ e.2 < m.g.size := by
    intro e he
    have hm : e.2 ∈ m.g.nb e.1 := (mem_nb_iff m.g _ _).2 ((hmemE e).1 he)
    exact ⟨h.base.base.bound _ _ ((h.base.sym _ _).1 hm), h.base.base.bound _ _ hm⟩
  obtain ⟨h1, h2⟩ := foldl_bump2 m.g.size m.g.edgeSeq
    (fun e => if e.1 == e.2 && twice then 2 * m.g.labD (ordered e.1 e.2) else m.g.labD (ordered e.1 e.2)) hes _ (square_zero m.g.size)
  have hrun : m.uGetAdjacencyMatrix twice = .ok (m.g.edgeSeq.foldl (fun mm e => bump2 mm e.1 e.2
      (if e.1 == e.2 && twice then 2 * m.g.labD (ordered e.1 e.2) else m.g.labD (ordered e.1 e.2))) (zeroMatrix m.g.size)) := by
    simp only [MG.uGetAdjacencyMatrix, hall, Bool.not_true, Bool.false_eq_true, if_false]
    exact am_fold m.g (fun i j => m.g.uGetEdgeLabel i j true) (fun e => m.g.labD (ordered e.1 e.2)) (List.range m.g.size)
      (fun i _ j hj => uGetEdgeLabel_edge m.g h.base i j (by simpa [hasEdgeRaw] using hj))
      (fun i j c => if i == j && twice then 2 * c else c) _
  have hnd : m.g.edgeSeq.Nodup := by
    simp only [edgeSeq, List.Nodup]
    rw [List.pairwise_flatMap]
    constructor
    · intro a _
      rw [List.pairwise_map]
      exact (h.base.base.nodup a).imp (fun hne hh => hne (Prod.mk.inj hh).2)
    · have := List.nodup_range (n := m.g.size)
      refine this.imp ?_
      intro a b hab x hx y hy hxy
      simp only [List.mem_map] at hx hy
      obtain ⟨_, _, rfl⟩ := hx
      obtain ⟨_, _, rfl⟩ := hy
      exact hab (Prod.mk.inj hxy).1
  have hval : ∀ i j, getM (m.g.edgeSeq.foldl (fun mm e => bump2 mm e.1 e.2
      (if e.1 == e.2 && twice then 2 * m.g.labD (ordered e.1 e.2) else m.g.labD (ordered e.1 e.2))) (zeroMatrix m.g.size)) i j
      = if i = j ∧ twice = true then 2 * m.umult i j else m.umult i j := by
    intro i j
    rw [h2, getM_zero, sum_filter_pair_const _ hnd]
    have hlab : m.g.labD (ordered i j) = m.umult i j := by
      simp only [labD, h.lbl, if_true, umult, MG.cur_eq]; rfl
    by_cases he : m.g.hasEdgeRaw i j = true
    · simp only [(hmemE (i, j)).2 he, if_true, hlab, Nat.zero_add]
      by_cases hc : i = j ∧ twice = true
      · obtain ⟨rfl, rfl⟩ := hc; simp
      · have : (i == j && twice) = false := by
          cases twice
          · simp
          · simp only [Bool.and_true, beq_eq_false_iff_ne]; intro e; exact hc ⟨e, rfl⟩
        simp [this, hc]
    · have hne : (i, j) ∉ m.g.edgeSeq := fun hh => he ((hmemE (i, j)).1 hh)
      have he' : m.g.hasEdgeRaw i j = false := by simpa using he
      have hz := (umult_eq_zero_iff m h i j).2 he'
      simp only [hne, if_false, hz]
      split <;> rfl
  refine ⟨_, hrun, h1, hval, ?_⟩
  intro i j
  rw [hval, hval, umult_comm m i j]
  by_cases hij : i = j
  · subst hij; rfl
  · have : ¬ j = i := fun e => hij e.symm
    simp [hij, this]

end BGV
