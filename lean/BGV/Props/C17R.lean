import BGV.Algo.PathTotal
import BGV.Props.C07H
/-!
# Property C17 — the public reconstruction functions, called directly with *any* source

`findPathToVertexFromPredecessors(graph, source, destination, predecessors)` and
`findMultiplePathsToVertexFromPredecessors(…)` accept any in-range source, not only the vertex the
predecessor search was run from.  On the predecessors of a search from `ps` they never index out of
range and never fail to terminate: the outcome is a path / path list, or `runtime_error`.
-/
set_option linter.unusedSectionVars false
namespace BGV
open G Bfs
variable {L : Type}

/-- **C17: direct calls of the reconstruction functions** never reach an unchecked access, whatever
source is requested -/
theorem C17_pathTo_no_ub (g : G L) (ps s t : Nat) (hwf : adjWF g.adj = true) (hlen : g.adj.length = g.size)
    (hn : g.size < MAX) :
    pathTo g ps s t ≠ .ub ∧ allPathsTo g ps s t ≠ .ub := by
  have hWF : WF g.adj := (adjWF_iff g.adj).1 hwf
  by_cases hps : ps < g.size
  · have hps' : ps < g.adj.length := by rw [hlen]; exact hps
    have hn' : g.adj.length ≤ MAX := by rw [hlen]; exact Nat.le_of_lt hn
    by_cases hr : rangeBoth g s t = true
    · have ht : t < g.size := by
        simp only [rangeBoth, Bool.and_eq_true, decide_eq_true_eq] at hr; exact hr.2
      constructor
      · -- single path
        obtain ⟨hdesc, hd, hpl⟩ := bfs_descends g.adj ps hWF hps' hn'
        have hpred : (bfsRun g.adj ps).pred = (bfs g.adj ps).pred := (bfsRun_eq g.adj ps).2
        simp only [pathTo, findVertexPredecessors, hps, hwf, decide_true, Bool.not_true, Bool.false_eq_true, if_false,
          Res.bind, hr]
        rw [hpred]
        exact findPath_total hdesc (by rw [hpl]; exact hn') hd s t (by rw [hpl, hlen]; exact ht)
      · -- all paths
        obtain ⟨hinv, _⟩ := AllPred.final_inv g.adj ps hWF hps' (by rw [hlen]; exact hn)
        obtain ⟨r, hrdef⟩ : ∃ r, r = (AllPred.loop g.adj (2 * g.adj.length + 1) (AllPred.init g.adj.length ps) []).1 := ⟨_, rfl⟩
        rw [← hrdef] at hinv
        have hrun : (allPredRun g.adj ps).preds = r.preds := by rw [hrdef]; rfl
        simp only [allPathsTo, findAllVertexPredecessors, hps, hwf, decide_true, Bool.not_true, Bool.false_eq_true,
          if_false, Res.bind, hr]
        rw [hrun]
        unfold findMultiplePathsFromPredecessors
        split
        · simp
        · have htl : t < r.preds.length := by rw [hinv.sized.hp, hlen]; exact ht
          have hgett : r.preds[t]? = some (r.preds.getD t []) := by simp [List.getD_eq_getElem?_getD, htl]
          rw [hgett]
          have hlenp : ∀ c, (r.preds.getD c []).length ≤ g.adj.length := fun c =>
            pigeon _ _ (hinv.pnodup c) (fun p hp => hinv.seenlt p (hinv.pvalid c p hp).1)
          have hget : ∀ c, r.d c ≠ MAX → r.preds[c]? = some (r.preds.getD c []) := by
            intro c hc
            have := hinv.seenlt c hc
            simp [List.getD_eq_getElem?_getD, hinv.sized.hp, this]
          have hdown : ∀ c, r.d c ≠ MAX → ∀ p ∈ r.preds.getD c [], r.d p ≠ MAX ∧ r.d p < r.d c := by
            intro c _ p hp
            obtain ⟨p1, _, p3⟩ := hinv.pvalid c p hp
            exact ⟨p1, by omega⟩
          have hstack_ok : ∀ e ∈ ((r.preds.getD t []).map (fun p => (p, ([] : List Nat)))).reverse, r.d e.1 ≠ MAX := by
            intro e he
            simp only [List.mem_reverse, List.mem_map] at he
            obtain ⟨p, hp, rfl⟩ := he
            exact (hinv.pvalid t p hp).1
          have hpot : pot g.adj.length r.d (((r.preds.getD t []).map (fun p => (p, ([] : List Nat)))).reverse)
              < multiFuel r.preds.length := by
            have h1 := MultiPath.sum_le_length_mul
              ((((r.preds.getD t []).map (fun p => (p, ([] : List Nat)))).reverse).map (fun e => (g.adj.length + 1) ^ r.d e.1))
              ((g.adj.length + 1) ^ g.adj.length) (by
                intro x hx
                obtain ⟨e, he, rfl⟩ := List.mem_map.1 hx
                have := AllPred.dist_lt_n hinv e.1 (hstack_ok e he)
                exact Nat.pow_le_pow_right (by omega) (by omega))
            simp only [List.length_map, List.length_reverse] at h1
            have h2 : (r.preds.getD t []).length ≤ g.adj.length := hlenp t
            have h3 := MultiPath.fuel_enough g.adj.length _ h2
            rw [hinv.sized.hp]
            unfold multiFuel pot
            omega
          obtain ⟨res, hres, hne⟩ := multiLoop_total (ok := fun c => r.d c ≠ MAX) (rank := r.d) g.adj.length hget hdown hlenp s t
            (multiFuel r.preds.length) _ [] hstack_ok hpot
          simp only [hres]
          exact hne
    · have hr' : rangeBoth g s t = false := by simpa using hr
      constructor
      · simp [pathTo, findVertexPredecessors, hps, hwf, Res.bind, hr']
      · simp [allPathsTo, findAllVertexPredecessors, hps, hwf, Res.bind, hr']
  · obtain ⟨a, b, _, _⟩ := C07_pathTo_search_oor g ps s t hps
    rw [a, b]; simp

/-- not vacuous: a source that is not on the way ends in `runtime_error`, not in `ub` -/
example : pathTo (⟨false, 5, [[1, 2], [3], [3], [], [0]], 5, []⟩ : G Nat) 0 2 1 = .threw .rte ∧
    allPathsTo (⟨false, 5, [[1, 2], [3], [3], [], [0]], 5, []⟩ : G Nat) 0 1 3 = .threw .rte := by decide

end BGV
