import BGV.Props.C05
import BGV.Proofs.Convert2
/-!
# Property C05 — `getWeightMatrix`: each edge's weight (mirrored when undirected), 0 elsewhere
-/
set_option linter.unusedSectionVars false
namespace BGV
open G WG

def getMI (m : List (List Int)) (a b : Nat) : Int := (m.getD a []).getD b 0

def SquareI (n : Nat) (m : List (List Int)) : Prop := m.length = n ∧ ∀ r ∈ m, r.length = n

def zeroI (n : Nat) : List (List Int) := List.replicate n (List.replicate n 0)

theorem squareI_zero (n : Nat) : SquareI n (zeroI n) := by
  refine ⟨by simp [zeroI], ?_⟩
  intro r hr
  simp only [zeroI, List.mem_replicate] at hr
  rw [hr.2]; simp

theorem getMI_zero (n a b : Nat) : getMI (zeroI n) a b = 0 := by
  simp only [getMI, zeroI, List.getD_eq_getElem?_getD, List.getElem?_replicate]
  by_cases ha : a < n
  · simp only [ha, if_true, Option.getD_some, List.getElem?_replicate]
    split <;> rfl
  · simp [ha]

theorem setCell_spec (n : Nat) (m : List (List Int)) (hm : SquareI n m) (i j : Nat) (w : Int) (hi : i < n) (hj : j < n) :
    SquareI n (setCell m i j w) ∧ ∀ a b, getMI (setCell m i j w) a b = if a = i ∧ b = j then w else getMI m a b := by
  constructor
  · refine ⟨by simp [setCell, hm.1], ?_⟩
    intro r hr
    simp only [setCell] at hr
    obtain ⟨idx, hidx, rfl⟩ := List.getElem_of_mem hr
    simp only [List.getElem_modify]
    split
    · simp only [List.length_set]; exact hm.2 _ (List.getElem_mem _)
    · exact hm.2 _ (List.getElem_mem _)
  · intro a b
    simp only [getMI, setCell]
    have him : i < m.length := by rw [hm.1]; exact hi
    have hrow : (m.modify i (fun r => r.set j w)).getD a [] = if i = a then (m.getD a []).set j w else m.getD a [] := by
      simp only [List.getD_eq_getElem?_getD, List.getElem?_modify]
      by_cases h : i = a
      · subst h; simp [him]
      · simp [h]
    rw [hrow]
    by_cases hia : i = a
    · subst hia
      have hlen : (m.getD i []).length = n := by
        have hmem : m.getD i [] ∈ m := by
          simp only [List.getD_eq_getElem?_getD, him, List.getElem?_eq_getElem, Option.getD_some]
          exact List.getElem_mem _
        exact hm.2 _ hmem
      simp only [if_true, true_and]
      have hjl : j < (m.getD i []).length := by rw [hlen]; exact hj
      generalize m.getD i [] = row at hjl ⊢
      simp only [List.getD_eq_getElem?_getD, List.getElem?_set]
      by_cases hjb : j = b
      · subst hjb; simp [hjl]
      · have : ¬ b = j := fun e => hjb e.symm
        simp [hjb, this]
    · have : ¬ a = i := fun e => hia e.symm
      simp [hia, this]

theorem foldl_setCell (n : Nat) (es : List Edge) (w : Edge → Int) (hes : ∀ e ∈ es, e.1 < n ∧ e.2 < n)
    (m : List (List Int)) (hm : SquareI n m) :
    SquareI n (es.foldl (fun m e => setCell m e.1 e.2 (w e)) m) ∧
    ∀ a b, getMI (es.foldl (fun m e => setCell m e.1 e.2 (w e)) m) a b = if (a, b) ∈ es then w (a, b) else getMI m a b := by
  induction es generalizing m with
  | nil => exact ⟨hm, fun a b => by simp⟩
  | cons e es ih =>
    obtain ⟨h1, h2⟩ := setCell_spec n m hm e.1 e.2 (w e) (hes e (by simp)).1 (hes e (by simp)).2
    obtain ⟨i1, i2⟩ := ih (fun x hx => hes x (by simp [hx])) _ h1
    refine ⟨i1, ?_⟩
    intro a b
    simp only [List.foldl_cons]
    rw [i2, h2]
    by_cases hin : (a, b) ∈ es
    · simp [hin]
    · by_cases hc : a = e.1 ∧ b = e.2
      · obtain ⟨rfl, rfl⟩ := hc; simp [hin]
      · have : ¬ (a, b) = e := fun h => hc ⟨(Prod.mk.inj (h.trans (Prod.eta e).symm)).1, (Prod.mk.inj (h.trans (Prod.eta e).symm)).2⟩
        simp [hin, hc, this]

/-- the nested loop of `getWeightMatrix` when every label lookup succeeds -/
theorem wm_fold (g : G Int) (lab : Nat → Nat → Res Int) (w : Edge → Int) (is : List Nat)
    (hok : ∀ i ∈ is, ∀ j ∈ g.nb i, lab i j = .ok (w (i, j))) (mat : List (List Int)) :
    is.foldl (fun (r : Res (List (List Int))) i => (g.nb i).foldl (fun (r : Res (List (List Int))) j =>
        r.bind (fun mat => (lab i j).map (fun x => setCell mat i j x))) r) (Res.ok mat)
      = Res.ok ((is.flatMap (fun i => (g.nb i).map (fun j => (i, j)))).foldl (fun m e => setCell m e.1 e.2 (w e)) mat) := by
  induction is generalizing mat with
  | nil => rfl
  | cons i is ih =>
    simp only [List.foldl_cons, List.flatMap_cons, List.foldl_append]
    have hinner : ∀ (js : List Nat) (mat : List (List Int)), (∀ j ∈ js, lab i j = .ok (w (i, j))) →
        js.foldl (fun (r : Res (List (List Int))) j => r.bind (fun mat => (lab i j).map (fun x => setCell mat i j x))) (Res.ok mat)
          = Res.ok ((js.map (fun j => (i, j))).foldl (fun m e => setCell m e.1 e.2 (w e)) mat) := by
      intro js
      induction js with
      | nil => intro mat _; rfl
      | cons j js ihj =>
        intro mat hj
        simp only [List.foldl_cons, List.map_cons, Res.bind, hj j (by simp), Res.map]
        exact ihj _ (fun x hx => hj x (by simp [hx]))
    rw [hinner (g.nb i) mat (hok i (by simp))]
    exact ih (fun k hk => hok k (by simp [hk])) _

/-- **C05: getWeightMatrix (directed).** `n × n`; entry `(i,j)` is the weight of edge `(i,j)`, 0
where there is no edge. -/
theorem C05_dir_weightMatrix (m : WG) (h : WInv m) :
    ∃ mat, m.dGetWeightMatrix = .ok mat ∧ SquareI m.g.size mat ∧
      ∀ i j, getMI mat i j = ((absD m.g).lab i j).getD 0 := by
  have hes : ∀ e ∈ m.g.edgeSeq, e.1 < m.g.size ∧ e.2 < m.g.size :=
    fun e he => h.base.hasEdgeRaw_lt ((mem_edgeSeq_iff m.g h.base e).1 he)
  obtain ⟨h1, h2⟩ := foldl_setCell m.g.size m.g.edgeSeq (fun e => m.g.labD e) hes _ (squareI_zero m.g.size)
  have hrun : m.dGetWeightMatrix = .ok (m.g.edgeSeq.foldl (fun mm e => setCell mm e.1 e.2 (m.g.labD e)) (zeroI m.g.size)) := by
    simp only [dGetWeightMatrix]
    exact wm_fold m.g (fun i j => m.g.dGetEdgeLabel i j true) (fun e => m.g.labD e) (List.range m.g.size)
      (fun i _ j hj => dGetEdgeLabel_edge m.g h.base i j (by simpa [hasEdgeRaw] using hj)) _
  refine ⟨_, hrun, h1, ?_⟩
  intro i j
  rw [h2, getMI_zero]
  simp only [absD]
  by_cases he : m.g.hasEdgeRaw i j = true
  · simp [he, (mem_edgeSeq_iff m.g h.base (i, j)).2 he]
  · have : (i, j) ∉ m.g.edgeSeq := fun hh => he ((mem_edgeSeq_iff m.g h.base (i, j)).1 hh)
    simp [he, this]

/-- **C05: getWeightMatrix (undirected).** symmetric; entry `(i,j)` is the weight of `{i,j}`. -/
theorem C05_und_weightMatrix (m : WG) (h : WUInv m) :
    ∃ mat, m.uGetWeightMatrix = .ok mat ∧ SquareI m.g.size mat ∧
      (∀ i j, getMI mat i j = ((absU m.g).lab i j).getD 0) ∧ (∀ i j, getMI mat i j = getMI mat j i) := by
  have hmemE : ∀ e, e ∈ m.g.edgeSeq ↔ m.g.hasEdgeRaw e.1 e.2 = true := by
    intro e; obtain ⟨a, b⟩ := e
    rw [mem_edgeSeq m.g h.base.base.len, mem_nb_iff]
  have hes : ∀ e ∈ m.g.edgeSeq, e.1 < m.g.size ∧ e.2 < m.g.size := by
    intro e he
    have hm : e.2 ∈ m.g.nb e.1 := (mem_nb_iff m.g _ _).2 ((hmemE e).1 he)
    exact ⟨h.base.base.bound _ _ ((h.base.sym _ _).1 hm), h.base.base.bound _ _ hm⟩
  obtain ⟨h1, h2⟩ := foldl_setCell m.g.size m.g.edgeSeq (fun e => m.g.labD (ordered e.1 e.2)) hes _ (squareI_zero m.g.size)
  have hrun : m.uGetWeightMatrix = .ok (m.g.edgeSeq.foldl (fun mm e => setCell mm e.1 e.2 (m.g.labD (ordered e.1 e.2))) (zeroI m.g.size)) := by
    simp only [uGetWeightMatrix]
    exact wm_fold m.g (fun i j => m.g.uGetEdgeLabel i j true) (fun e => m.g.labD (ordered e.1 e.2)) (List.range m.g.size)
      (fun i _ j hj => uGetEdgeLabel_edge m.g h.base i j (by simpa [hasEdgeRaw] using hj)) _
  have hval : ∀ i j, getMI (m.g.edgeSeq.foldl (fun mm e => setCell mm e.1 e.2 (m.g.labD (ordered e.1 e.2))) (zeroI m.g.size)) i j
      = ((absU m.g).lab i j).getD 0 := by
    intro i j
    rw [h2, getMI_zero]
    simp only [absU]
    by_cases he : m.g.hasEdgeRaw i j = true
    · simp [he, (hmemE (i, j)).2 he]
    · have : (i, j) ∉ m.g.edgeSeq := fun hh => he ((hmemE (i, j)).1 hh)
      simp [he, this]
  refine ⟨_, hrun, h1, hval, ?_⟩
  intro i j
  rw [hval, hval, C02_symmetric m.g h.base i j]

end BGV
