import BGV.Proofs.BinLift
import BGV.Props.C10
import BGV.Props.C09
/-!
# Property C14 — graph level: `loadBinaryEdgeList(writeBinaryEdgeList(g))`

For every reachable directed graph whose indices fit the 32-bit fields and every fixed-width
label codec that round-trips: the writer never throws, the file is `edges × record size` bytes,
the loader never throws and returns a graph with `1 + largest used index` vertices which,
resized to the original size, denotes the original graph — labels included.
-/
set_option linter.unusedSectionVars false
namespace BGV
open G FIO
variable {L : Type} [Inhabited L]

theorem seqR_map_ok {α β : Type} (l : List α) (f : α → Res β) (g : α → β) (h : ∀ a ∈ l, f a = .ok (g a)) :
    seqR (l.map f) = .ok (l.map g) := by
  induction l with
  | nil => rfl
  | cons a l ih =>
    simp only [List.map_cons, seqR, h a (by simp), Res.bind, ih (fun x hx => h x (by simp [hx])), Res.map]

theorem edgesWithLabels_dir (g : G L) (hg : Inv g) : edgesWithLabels false g = .ok g.lblEdges := by
  simp only [edgesWithLabels, Bool.false_eq_true, if_false, dEdges_eq g hg.len, lblEdges]
  apply seqR_map_ok
  intro e he
  have hedge := (mem_edgeSeq_iff g hg e).1 he
  rw [dGetEdgeLabel_edge g hg e.1 e.2 hedge]
  rfl

theorem vcountFrom_gt (k : Nat) (es : List (Nat × Nat × L)) (e : Nat × Nat × L) (he : e ∈ es) :
    e.1 < vcountFrom k es ∧ e.2.1 < vcountFrom k es := by
  induction es generalizing k with
  | nil => cases he
  | cons a es ih =>
    simp only [vcountFrom, List.foldl_cons]
    rcases List.mem_cons.1 he with rfl | h
    · have := vcountFrom_ge (max k (max e.1 e.2.1 + 1)) es
      simp only [vcountFrom] at this
      constructor <;> omega
    · exact ih _ h

theorem vcountFrom_le (k n : Nat) (es : List (Nat × Nat × L)) (hk : k ≤ n) (h : ∀ e ∈ es, e.1 < n ∧ e.2.1 < n) :
    vcountFrom k es ≤ n := by
  induction es generalizing k with
  | nil => exact hk
  | cons a es ih =>
    simp only [vcountFrom, List.foldl_cons]
    have := h a (by simp)
    exact ih _ (by omega) (fun e he => h e (by simp [he]))

theorem lblEdges_mem (g : G L) (hg : Inv g) (e : LEdge L) (he : e ∈ g.lblEdges) :
    g.hasEdgeRaw e.1 e.2.1 = true ∧ e.2.2 = g.labD (e.1, e.2.1) := by
  simp only [lblEdges, List.mem_map] at he
  obtain ⟨⟨a, b⟩, hab, rfl⟩ := he
  exact ⟨(mem_edgeSeq_iff g hg (a, b)).1 hab, rfl⟩

/-- what the loader rebuilds from the records of `g`, as a directed graph -/
theorem absD_rebuilt (g : G L) (hg : Inv g) :
    absD ((G.new g.labelled (vcount g.lblEdges) : G L).addAll g.lblEdges)
      = ⟨vcount g.lblEdges, (absD g).lab⟩ := by
  rw [absD_addAll _ (inv_new _ _)]
  · apply AG.ext'
    · rw [AG.addAll_n]; rfl
    · intro x y
      rw [AG.addAll_lab, absD_new_lab]
      simp only
      rw [firstLabel_of_fun _ (fun a b => normLabel g.labelled (g.labD (a, b)))]
      · have hex : (∃ e ∈ g.lblEdges.map (fun e => ((e.1, e.2.1, normLabel (G.new g.labelled (vcount g.lblEdges) : G L).labelled e.2.2) : LEdge L)),
            e.1 = x ∧ e.2.1 = y) ↔ g.hasEdgeRaw x y = true := by
          simp only [List.mem_map]
          constructor
          · rintro ⟨e, ⟨e', he', rfl⟩, rfl, rfl⟩
            exact (lblEdges_mem g hg e' he').1
          · intro he
            refine ⟨_, ⟨(x, y, g.labD (x, y)), ?_, rfl⟩, rfl, rfl⟩
            simp only [lblEdges, List.mem_map]
            exact ⟨(x, y), (mem_edgeSeq_iff g hg (x, y)).2 he, rfl⟩
        by_cases he : g.hasEdgeRaw x y = true
        · rw [if_pos (hex.2 he)]
          simp only [absD, he, if_true]
          congr 1
          simp only [normLabel, labD_eq]
          by_cases hl : g.labelled = true <;> simp [hl]
        · rw [if_neg (fun hh => he (hex.1 hh))]
          simp [absD, he]
      · intro e he
        simp only [List.mem_map] at he
        obtain ⟨e', he', rfl⟩ := he
        have := (lblEdges_mem g hg e' he').2
        simp only [this]
        rfl
  · intro e he
    exact vcountFrom_gt 0 _ e he

/-- **C14 (directed graphs).** -/
theorem C14_dir_roundtrip {w : Nat} (c : Codec L w) (g : G L) (hg : Inv g) (h32 : g.size ≤ 4294967296) :
    ∃ bytes r, writeBinGraph false g c.enc = .ok bytes ∧
      bytes.length = g.edgeNumber * (8 + w) ∧
      loadBin false g.labelled w c.dec bytes = .ok r ∧
      r.size = vcount g.lblEdges ∧ r.size ≤ g.size ∧
      absD (r.grow g.size) = absD g := by
  have hw : writeBinGraph false g c.enc = .ok (writeBin c.enc g.lblEdges) := by
    simp only [writeBinGraph, edgesWithLabels_dir g hg, Res.map]
  have hlenE : g.lblEdges.length = g.edgeNumber := by
    simp only [lblEdges, List.length_map]; rw [length_edgeSeq g hg.len, hg.count]
  have hok : ∀ e ∈ g.lblEdges, EdgeOK e := by
    intro e he
    have := hg.hasEdgeRaw_lt (lblEdges_mem g hg e he).1
    exact ⟨by omega, by omega⟩
  have hlen : (writeBin c.enc g.lblEdges).length = g.edgeNumber * (8 + w) := by
    rw [(C14_layout c g.lblEdges).2, hlenE]
  have hrec : binRecords w c.dec ((writeBin c.enc g.lblEdges).length + 1) (writeBin c.enc g.lblEdges) = g.lblEdges := by
    apply C14_roundtrip_records c _ hok
    rw [hlen, hlenE]
    have : g.edgeNumber ≤ g.edgeNumber * (8 + w) := Nat.le_mul_of_pos_right _ (by omega)
    omega
  have hload : loadBin false g.labelled w c.dec (writeBin c.enc g.lblEdges)
      = .ok ((G.new g.labelled (vcount g.lblEdges) : G L).addAll g.lblEdges) := by
    simp only [loadBin, hrec]
    rw [loadBin_records false g.labelled g.lblEdges]
    congr 1
    show (G.new g.labelled (vcount g.lblEdges) : G L).addAllF g.lblEdges = _
    apply addAllF_eq _ (inv_new _ _)
    · intro e he; exact vcountFrom_gt 0 _ e he
    · have : g.lblEdges.map (fun e => (e.1, e.2.1)) = g.edgeSeq := by
        simp only [lblEdges, List.map_map]
        exact List.map_id' _
      rw [this, ← dEdges_eq g hg.len]; exact C08_dEdges_nodup g hg
    · intro e _
      simp only [hasEdgeRaw]; rw [nb_new]; rfl
  have hvle : vcount g.lblEdges ≤ g.size :=
    vcountFrom_le 0 g.size _ (Nat.zero_le _) (fun e he => hg.hasEdgeRaw_lt (lblEdges_mem g hg e he).1)
  have hrs : ((G.new g.labelled (vcount g.lblEdges) : G L).addAll g.lblEdges).size = vcount g.lblEdges := by
    rw [addAll_size]; rfl
  refine ⟨_, _, hw, hlen, hload, hrs, by rw [hrs]; exact hvle, ?_⟩
  show absD (G.resize _ g.size).1 = _
  rw [absD_resize _ _ (by rw [hrs]; exact hvle), absD_rebuilt g hg]
  rfl

end BGV

namespace BGV
open G FIO
variable {L : Type} [Inhabited L]

theorem edgesWithLabels_und (g : G L) (hg : UInv g) : edgesWithLabels true g = .ok g.uLblEdges := by
  simp only [edgesWithLabels, if_true, uLblEdges]
  apply seqR_map_ok
  intro e he
  have hedge := ((C08_mem_uEdges g hg e.1 e.2).1 he).2
  rw [uGetEdgeLabel_edge g hg e.1 e.2 hedge]
  rfl

theorem uLblEdges_mem (g : G L) (hg : UInv g) (e : LEdge L) (he : e ∈ g.uLblEdges) :
    e.1 ≤ e.2.1 ∧ g.hasEdgeRaw e.1 e.2.1 = true ∧ e.2.2 = g.labD (ordered e.1 e.2.1) := by
  simp only [uLblEdges, List.mem_map] at he
  obtain ⟨⟨a, b⟩, hab, rfl⟩ := he
  obtain ⟨h1, h2⟩ := (C08_mem_uEdges g hg a b).1 hab
  exact ⟨h1, h2, rfl⟩

theorem uLblEdges_range (g : G L) (hg : UInv g) (e : LEdge L) (he : e ∈ g.uLblEdges) :
    e.1 < g.size ∧ e.2.1 < g.size := by
  obtain ⟨_, h2, _⟩ := uLblEdges_mem g hg e he
  have hm : e.2.1 ∈ g.nb e.1 := (mem_nb_iff g _ _).2 h2
  exact ⟨hg.base.bound _ _ ((hg.sym _ _).1 hm), hg.base.bound _ _ hm⟩

/-- **C14 (undirected graphs).** One record per undirected edge (`getEdgeNumber()` records); the
reloaded graph, resized to the original size, denotes the original symmetric graph. -/
theorem C14_und_roundtrip {w : Nat} (c : Codec L w) (g : G L) (hg : UInv g) (h32 : g.size ≤ 4294967296) :
    ∃ bytes r, writeBinGraph true g c.enc = .ok bytes ∧
      bytes.length = g.edgeNumber * (8 + w) ∧
      loadBin true g.labelled w c.dec bytes = .ok r ∧
      r.size = vcount g.uLblEdges ∧ r.size ≤ g.size ∧
      absU (r.grow g.size) = absU g := by
  have hw : writeBinGraph true g c.enc = .ok (writeBin c.enc g.uLblEdges) := by
    simp only [writeBinGraph, edgesWithLabels_und g hg, Res.map]
  have hlenE : g.uLblEdges.length = g.edgeNumber := by
    simp only [uLblEdges, List.length_map]; exact C08_uEdges_length g hg
  have hok : ∀ e ∈ g.uLblEdges, EdgeOK e := by
    intro e he
    have := uLblEdges_range g hg e he
    exact ⟨by omega, by omega⟩
  have hlen : (writeBin c.enc g.uLblEdges).length = g.edgeNumber * (8 + w) := by
    rw [(C14_layout c g.uLblEdges).2, hlenE]
  have hrec : binRecords w c.dec ((writeBin c.enc g.uLblEdges).length + 1) (writeBin c.enc g.uLblEdges) = g.uLblEdges := by
    apply C14_roundtrip_records c _ hok
    rw [hlen, hlenE]
    have : g.edgeNumber ≤ g.edgeNumber * (8 + w) := Nat.le_mul_of_pos_right _ (by omega)
    omega
  have hvalid : AG.ValidFrom (L := L) (vcount g.uLblEdges) (addOps g.uLblEdges) :=
    validFrom_addOps _ _ (fun e he => vcountFrom_gt 0 _ e he)
  have hload : loadBin true g.labelled w c.dec (writeBin c.enc g.uLblEdges)
      = .ok (uRun (G.new g.labelled (vcount g.uLblEdges) : G L) (addOps g.uLblEdges)) := by
    simp only [loadBin, hrec]
    rw [loadBin_records true g.labelled g.uLblEdges, uRun_addOps]
    congr 1
    apply uAddAllF_eq _ (uinv_new _ _)
    · intro e he; exact vcountFrom_gt 0 _ e he
    · have : g.uLblEdges.map (fun e => ordered e.1 e.2.1) = g.uEdges := by
        simp only [uLblEdges, List.map_map]
        have : ∀ e ∈ g.uEdges, ((fun e : LEdge L => ordered e.1 e.2.1) ∘ fun e : Edge => (e.1, e.2, g.labD (ordered e.1 e.2))) e = e := by
          intro e he
          obtain ⟨a, b⟩ := e
          exact ordered_of_le ((C08_mem_uEdges g hg a b).1 he).1
        rw [List.map_congr_left this, List.map_id']
      rw [this]; exact C08_uEdges_nodup g hg
    · intro e _
      simp only [hasEdgeRaw]; rw [nb_new]; rfl
  have hvle : vcount g.uLblEdges ≤ g.size :=
    vcountFrom_le 0 g.size _ (Nat.zero_le _) (fun e he => uLblEdges_range g hg e he)
  have hrs : (uRun (G.new g.labelled (vcount g.uLblEdges) : G L) (addOps g.uLblEdges)).size = vcount g.uLblEdges := by
    have := congrArg AG.n (C02_refines (L := L) g.labelled _ _ hvalid)
    simp only [absU, addOps] at this
    rw [AG.uDenote_addOps, AG.uAddAll_n] at this
    exact this
  refine ⟨_, _, hw, hlen, hload, hrs, by rw [hrs]; exact hvle, ?_⟩
  show absU (G.resize _ g.size).1 = _
  rw [absU_resize _ _ (by rw [hrs]; exact hvle)]
  apply AG.ext' (by rfl)
  intro x y
  show (absU (uRun (G.new g.labelled (vcount g.uLblEdges) : G L) (addOps g.uLblEdges))).lab x y = _
  rw [C02_refines (L := L) g.labelled _ _ hvalid]
  simp only [addOps]
  rw [AG.uDenote_addOps, AG.uAddAll_lab _ (by intro a b; rfl)]
  simp only [AG.empty]
  have hnorm : ∀ e : Edge, (if g.labelled = true then g.labD e else default) = g.labD e := by
    intro e; simp only [labD_eq]; by_cases hl : g.labelled = true <;> simp [hl]
  have hsymm : ∀ a b, g.hasEdgeRaw b a = g.hasEdgeRaw a b := by
    intro a b
    rw [Bool.eq_iff_iff, hasEdgeRaw_iff_mem, hasEdgeRaw_iff_mem]; exact (hg.sym a b).symm
  cases hfl : AG.firstLabelU (g.uLblEdges.map (fun e => (e.1, e.2.1, if g.labelled = true then e.2.2 else default))) x y with
  | some l =>
    obtain ⟨i, j, hm, hs⟩ := firstLabelU_some hfl
    obtain ⟨e, he, heq⟩ := List.mem_map.1 hm
    obtain ⟨_, hedge, hlab⟩ := uLblEdges_mem g hg e he
    simp only [Prod.mk.injEq] at heq
    obtain ⟨rfl, rfl, rfl⟩ := heq
    rw [hlab, hnorm]
    rcases hs with ⟨rfl, rfl⟩ | ⟨rfl, rfl⟩
    · simp [absU, hedge]
    · simp [absU, hsymm _ _ ▸ hedge, ordered_comm e.2.1 e.1]
  | none =>
    by_cases he : g.hasEdgeRaw x y = true
    · exfalso
      by_cases hxy : x ≤ y
      · have hm : (x, y, g.labD (ordered x y)) ∈ g.uLblEdges := by
          simp only [uLblEdges, List.mem_map]
          exact ⟨(x, y), (C08_mem_uEdges g hg x y).2 ⟨hxy, he⟩, rfl⟩
        exact firstLabelU_none hfl x y (g.labD (ordered x y)) (Or.inl ⟨rfl, rfl⟩) (List.mem_map.2 ⟨_, hm, by simp [hnorm]⟩)
      · have hm : (y, x, g.labD (ordered y x)) ∈ g.uLblEdges := by
          simp only [uLblEdges, List.mem_map]
          exact ⟨(y, x), (C08_mem_uEdges g hg y x).2 ⟨by omega, hsymm x y ▸ he⟩, rfl⟩
        exact firstLabelU_none hfl y x (g.labD (ordered y x)) (Or.inr ⟨rfl, rfl⟩) (List.mem_map.2 ⟨_, hm, by simp [hnorm]⟩)
    · simp [absU, he]

end BGV
