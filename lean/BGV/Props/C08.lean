import BGV.Proofs.IterD
import BGV.Proofs.IterU
import BGV.Proofs.Directed
/-!
# Property C08 — vertex and edge enumeration visit everything exactly once on every graph shape

Directed classes: the cursor machine of `Edges::constEdgeIterator` (`G.dEdges`, as the code runs
it: skip-empty loops, `begin()`, `end()`, `operator++`) yields exactly the flattened adjacency
lists, for every shape including zero vertices.
-/
set_option linter.unusedSectionVars false
namespace BGV
open G
variable {L : Type} [Inhabited L]

/-- Range-iteration over a graph yields 0..size-1 in order. -/
theorem C08_vertices (g : G L) : g.vertices = List.range g.size := by
  have h : ∀ f p, g.size - p < f → p ≤ g.size → vCollect g.size f p = List.range' p (g.size - p) := by
    intro f
    induction f with
    | zero => intro p h; omega
    | succ f ih =>
      intro p h1 h2
      simp only [vCollect]
      by_cases hp : p = g.size
      · simp [hp]
      · simp only [hp, if_false]
        have : g.size - p = (g.size - (p + 1)) + 1 := by omega
        rw [this, List.range'_succ, ih (p + 1) (by omega) (by omega)]
  simp only [vertices]
  rw [h _ 0 (by omega) (Nat.zero_le _), List.range_eq_range']
  simp

/-- `edges()` as the iterator runs it = every neighbour list in order, vertex by vertex — on
every graph of every size (the only hypothesis is the structural `adjacencyList.size() == size`). -/
theorem C08_dEdges (g : G L) (hl : g.adj.length = g.size) : g.dEdges = g.edgeSeq := dEdges_eq g hl

/-- `begin() == end()` exactly when there is no edge. -/
theorem C08_begin_eq_end_iff (g : G L) (hl : g.adj.length = g.size) :
    g.itBegin = g.itEnd ↔ g.dEdges = [] := by
  rw [dEdges_eq g hl]; exact itBegin_eq_end_iff g hl

/-- an ordered pair is enumerated iff it is an edge … -/
theorem C08_mem_dEdges (g : G L) (hl : g.adj.length = g.size) (i j : Nat) :
    (i, j) ∈ g.dEdges ↔ g.hasEdgeRaw i j = true := by
  rw [dEdges_eq g hl]
  simp only [edgeSeq, List.mem_flatMap, List.mem_range, List.mem_map, Prod.mk.injEq, hasEdgeRaw,
    List.contains_eq_mem, decide_eq_true_eq]
  constructor
  · rintro ⟨a, _, b, hb, rfl, rfl⟩; exact hb
  · intro h
    refine ⟨i, ?_, j, h, rfl, rfl⟩
    by_cases hi : i < g.size
    · exact hi
    · rw [G.nb_of_ge g i (by omega)] at h; simp at h

/-- … and, in every state reachable without `force`, exactly once. -/
theorem C08_dEdges_nodup (g : G L) (hg : Inv g) : g.dEdges.Nodup := by
  rw [dEdges_eq g hg.len]
  simp only [edgeSeq, List.Nodup]
  rw [List.pairwise_flatMap]
  constructor
  · intro a _
    rw [List.pairwise_map]
    exact (hg.nodup a).imp (fun hne h => hne (Prod.mk.inj h).2)
  · have := List.nodup_range (n := g.size)
    refine this.imp ?_
    intro a b hab x hx y hy hxy
    simp only [List.mem_map] at hx hy
    obtain ⟨_, _, rfl⟩ := hx
    obtain ⟨_, _, rfl⟩ := hy
    exact hab (Prod.mk.inj hxy).1

/-- repeated traversals give the same sequence: the traversal is a function of the state, and
post-increment returns the old cursor while leaving the same new one as pre-increment -/
theorem C08_postIncr (g : G L) (c : Nat × Nat) : (c, g.dItNext c).2 = g.dItNext c := rfl

/-- Consequently the operations defined by enumerating edges are defined (no exception, no
out-of-bounds index) on every graph satisfying the invariant, including the empty one. -/
theorem C08_enumeration_defined (g : G L) (hg : Inv g) :
    (∃ l, g.dGetInDegrees = .ok l) ∧ (∃ m, g.dGetAdjacencyMatrix = .ok m) := by
  have : g.allInR = true := by
    simp only [allInR, List.all_eq_true, decide_eq_true_eq]
    intro l hl j hj
    obtain ⟨i, hi, rfl⟩ := List.getElem_of_mem hl
    have : g.nb i = g.adj[i] := by simp [nb, List.getD_eq_getElem?_getD, hi]
    exact hg.bound i j (by rw [this]; exact hj)
  constructor
  · simp only [dGetInDegrees, this, if_true]; exact ⟨_, rfl⟩
  · simp only [dGetAdjacencyMatrix, this, if_true]; exact ⟨_, rfl⟩

/-! ## undirected classes: the skipping iterator -/

/-- the undirected `edges()` traversal (skip-empty loop, then skip entries whose vertex exceeds
the neighbour) yields exactly the entries `(i,j)`, `i ≤ j`, of the flattened lists, in order —
on every symmetric graph of every size (zero vertices, no edges, isolated ends included) -/
theorem C08_uEdges (g : G L) (hg : UInv g) : g.uEdges = g.edgeSeq.filter keep :=
  uEdges_eq g hg.base.len hg.sym

/-- one orientation per undirected edge, once per self-loop: `(i,j)` is enumerated iff `i ≤ j`
and `{i,j}` is an edge -/
theorem C08_mem_uEdges (g : G L) (hg : UInv g) (i j : Nat) :
    (i, j) ∈ g.uEdges ↔ i ≤ j ∧ g.hasEdgeRaw i j = true := by
  rw [C08_uEdges g hg, List.mem_filter, mem_edgeSeq g hg.base.len, mem_nb_iff]
  simp only [keep, decide_eq_true_eq]
  exact And.comm

/-- … exactly once -/
theorem C08_uEdges_nodup (g : G L) (hg : UInv g) : g.uEdges.Nodup := by
  rw [C08_uEdges g hg]
  apply List.Nodup.sublist List.filter_sublist
  simp only [edgeSeq, List.Nodup]
  rw [List.pairwise_flatMap]
  constructor
  · intro a _
    rw [List.pairwise_map]
    exact (hg.base.nodup a).imp (fun hne h => hne (Prod.mk.inj h).2)
  · have := List.nodup_range (n := g.size)
    refine this.imp ?_
    intro a b hab x hx y hy hxy
    simp only [List.mem_map] at hx hy
    obtain ⟨_, _, rfl⟩ := hx
    obtain ⟨_, _, rfl⟩ := hy
    exact hab (Prod.mk.inj hxy).1

/-- the traversal has exactly `getEdgeNumber()` elements -/
theorem C08_uEdges_length (g : G L) (hg : UInv g) : g.uEdges.length = g.edgeNumber := by
  rw [C08_uEdges g hg, hg.base.count]
  simp only [edgeSeq, uCount, cnt, List.filter_flatMap, List.length_flatMap]
  congr 1
  apply List.map_congr_left
  intro i _
  rw [List.filter_map, List.length_map]
  congr 1

example : (⟨false, 4, [[1, 3], [0, 1], [], [0]], 3, []⟩ : G Nat).uEdges = [(0, 1), (0, 3), (1, 1)] := by decide
example : (G.new false 0 : G Nat).uEdges = [] ∧ (G.new false 3 : G Nat).uEdges = [] := by decide

example : (G.new false 0 : G Nat).dEdges = [] ∧ (G.new false 0 : G Nat).itBegin = (G.new false 0 : G Nat).itEnd := by decide
example : (⟨false, 4, [[], [3, 1], [], [0]], 3, []⟩ : G Nat).dEdges = [(1, 3), (1, 1), (3, 0)] := by decide

end BGV
