import BGV.Props.C11
/-!
# Property C11 — every shortest path is simple
A chain that repeats a vertex can be cut to a strictly shorter chain with the same ends
(`chain_shortcut`), so a path of minimum length has no repeated vertex; hence every path returned by
`findAllGeodesics` is simple.
-/
namespace BGV
open Bfs

theorem walk_cons {adj : Adj} {a b t k : Nat} (hb : b ∈ nbrs adj a) (h : Walk adj b t k) : Walk adj a t (k + 1) := by
  induction h with
  | nil => exact Walk.snoc Walk.nil hb
  | snoc _ hm ih => exact Walk.snoc ih hm

theorem chain_walk {adj : Adj} (l : List Nat) (a t : Nat) (hc : chainOK adj (a :: l))
    (hl : (a :: l).getLast? = some t) : Walk adj a t l.length := by
  induction l generalizing a with
  | nil => simp at hl; subst hl; exact Walk.nil
  | cons b l ih =>
    have hl' : (b :: l).getLast? = some t := by simpa [List.getLast?_cons_cons] using hl
    exact walk_cons hc.1 (ih b hc.2 hl')

theorem chainOK_tail {adj : Adj} (x : Nat) (l : List Nat) (h : chainOK adj (x :: l)) : chainOK adj l := by
  cases l with
  | nil => trivial
  | cons y l => exact h.2

theorem chainOK_suffix {adj : Adj} (l1 l2 : List Nat) (h : chainOK adj (l1 ++ l2)) : chainOK adj l2 := by
  induction l1 with
  | nil => exact h
  | cons x l1 ih => exact ih (chainOK_tail x _ h)

/-- a chain that repeats a vertex can be cut to a strictly shorter chain with the same ends -/
theorem chain_shortcut {adj : Adj} (l : List Nat) (a t : Nat) (hc : chainOK adj (a :: l))
    (hl : (a :: l).getLast? = some t) (hnd : ¬ (a :: l).Nodup) :
    ∃ l', chainOK adj (a :: l') ∧ (a :: l').getLast? = some t ∧ l'.length < l.length := by
  induction l generalizing a with
  | nil => simp at hnd
  | cons b l ih =>
    by_cases hmem : a ∈ b :: l
    · obtain ⟨l1, l2, e⟩ := List.append_of_mem hmem
      refine ⟨l2, ?_, ?_, ?_⟩
      · have : chainOK adj ((a :: l1) ++ (a :: l2)) := by rw [List.cons_append, ← e]; exact hc
        exact chainOK_suffix _ _ this
      · rw [e] at hl
        have : (a :: (l1 ++ a :: l2)) = (a :: l1) ++ (a :: l2) := rfl
        rw [this, List.getLast?_append] at hl
        simpa using hl
      · rw [e]; simp; omega
    · have hnd' : ¬ (b :: l).Nodup := fun h => hnd (List.nodup_cons.2 ⟨hmem, h⟩)
      have hl' : (b :: l).getLast? = some t := by simpa [List.getLast?_cons_cons] using hl
      obtain ⟨l', c1, c2, c3⟩ := ih b hc.2 hl' hnd'
      refine ⟨b :: l', ⟨hc.1, c1⟩, ?_, by simp; omega⟩
      simpa [List.getLast?_cons_cons] using c2

/-- **every shortest path is simple** -/
theorem C11_shortest_path_nodup {adj : Adj} (s t : Nat) (path : List Nat) (hc : chainOK adj path)
    (hh : path.head? = some s) (hl : path.getLast? = some t)
    (hmin : ∀ k, Walk adj s t k → path.length ≤ k + 1) : path.Nodup := by
  cases path with
  | nil => simp
  | cons a l =>
    simp at hh; subst hh
    by_cases hnd : (a :: l).Nodup
    · exact hnd
    · obtain ⟨l', c1, c2, c3⟩ := chain_shortcut l a t hc hl hnd
      have := hmin _ (chain_walk l' a t c1 c2)
      simp at this; omega

/-- **C11, findAllGeodesics:** every returned path visits no vertex twice. -/
theorem C11_findAllGeodesics_paths_nodup {L : Type} (g : G L) (s t : Nat) (hs : s < g.size) (ht : t < g.size)
    (hwf : adjWF g.adj = true) (hlen : g.adj.length = g.size) (hn : g.size < MAX) (Ls : List (List Nat))
    (h : findAllGeodesics g s t = .ok Ls) : ∀ path ∈ Ls, path.Nodup := by
  obtain ⟨c1, c2, c3⟩ := C11_findAllGeodesics g s t hs ht hwf hlen hn
  intro path hp
  by_cases hst : s = t
  · rw [c1 hst] at h; cases h; simp at hp; subst hp; simp
  · by_cases hr : Reachable g.adj s t
    · obtain ⟨Ls', e, _, hall⟩ := c3 hst hr
      rw [e] at h; cases h
      obtain ⟨p1, p2, p3, p4⟩ := (hall path).1 hp
      exact C11_shortest_path_nodup s t path p1 p2 p3 p4
    · rw [c2 hst hr] at h; cases h; simp at hp
end BGV
