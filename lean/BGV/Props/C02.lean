import BGV.Proofs.RefineU
/-!
# Property C02 — an undirected graph is a faithful set of unordered pairs, symmetric throughout
(and the undirected half of C03)

`G.uStepM` / `G.uRun`: the public mutators of `LabeledUndirectedGraph` with `force = false`;
`AG.uDenote`: the symmetric graph a history denotes (each call may name its pair in either
orientation).  For every label type, `labelled` true or false, every size, every history.
-/
set_option linter.unusedSectionVars false
namespace BGV
open G
variable {L : Type} [Inhabited L]

/-- every reachable undirected state satisfies the invariant, symmetry included -/
theorem C02_inv_reachable (labelled : Bool) (n : Nat) (ops : List (SOp L)) :
    UInv (uRun (G.new labelled n : G L) ops) := by
  suffices h : ∀ (g : G L), UInv g → UInv (uRun g ops) from h _ (uinv_new labelled n)
  induction ops with
  | nil => intro g hg; exact hg
  | cons op ops ih => intro g hg; exact ih _ (uinv_uStepM g hg op)

theorem uRun_refines (g : G L) (hg : UInv g) (ops : List (SOp L)) (hv : AG.ValidFrom g.size ops) :
    absU (uRun g ops) = AG.uDenote g.labelled (absU g) ops := by
  induction ops generalizing g with
  | nil => rfl
  | cons op ops ih =>
    obtain ⟨hv1, hv2⟩ := hv
    have hs := uStepM_size g hg op hv1
    have := ih (g.uStepM op).1 (uinv_uStepM g hg op) (by rw [hs]; exact hv2)
    simp only [uRun, AG.uDenote, List.foldl_cons] at this ⊢
    rw [this, absU_uStepM g hg op hv1, uStepM_labelled g hg]

/-- **C02 (refinement).** After any valid history the state stands for exactly the symmetric graph
the history denotes — whichever orientation each call used. -/
theorem C02_refines (labelled : Bool) (n : Nat) (ops : List (SOp L)) (hv : AG.ValidFrom n ops) :
    absU (uRun (G.new labelled n : G L) ops) = AG.uDenote labelled (AG.empty n) ops := by
  have h := uRun_refines (G.new labelled n : G L) (uinv_new labelled n) ops hv
  rw [h]
  congr 1
  apply AG.ext'
  · rfl
  · intro x y
    have : (G.new labelled n : G L).hasEdgeRaw x y = false := by
      simp only [hasEdgeRaw]; rw [nb_new]; rfl
    simp [absU, AG.empty, this]

/-- the denoted graph is symmetric, labels included -/
theorem C02_symmetric (g : G L) (hg : UInv g) (i j : Nat) : (absU g).lab i j = (absU g).lab j i := by
  simp only [absU]
  have : g.hasEdgeRaw i j = g.hasEdgeRaw j i := by
    rw [Bool.eq_iff_iff, hasEdgeRaw_iff_mem, hasEdgeRaw_iff_mem]; exact (hg.sym j i).symm
  rw [this, ordered_comm]

/-- `hasEdge(i,j) = hasEdge(j,i)` = membership in the denoted graph -/
theorem C02_hasEdge (g : G L) (hg : UInv g) (i j : Nat) (hi : i < g.size) (hj : j < g.size) :
    g.uHasEdge i j = .ok ((absU g).hasEdge i j) ∧ g.uHasEdge i j = g.uHasEdge j i := by
  have h1 : g.uHasEdge i j = .ok (g.hasEdgeRaw i j) := by
    simp [uHasEdge, inR, hi, hj, hg.uHasEdgeRaw_eq]
  have h2 : g.uHasEdge j i = .ok (g.hasEdgeRaw j i) := by
    simp [uHasEdge, inR, hi, hj, hg.uHasEdgeRaw_eq]
  have hsym : g.hasEdgeRaw i j = g.hasEdgeRaw j i := by
    rw [Bool.eq_iff_iff, hasEdgeRaw_iff_mem, hasEdgeRaw_iff_mem]; exact (hg.sym j i).symm
  refine ⟨?_, by rw [h1, h2, hsym]⟩
  rw [h1]
  simp only [absU, AG.hasEdge]
  by_cases he : g.hasEdgeRaw i j = true
  · simp [he]
  · have he : g.hasEdgeRaw i j = false := by simpa using he
    simp [he]

/-- j is listed among i's neighbours iff i is among j's; each neighbour (a self-loop included) is
listed exactly once; the list is the set of neighbours in the denoted graph -/
theorem C02_neighbours (g : G L) (hg : UInv g) (i : Nat) (hi : i < g.size) :
    ∃ l, g.getOutNeighbours i = .ok l ∧ l.Nodup ∧ (∀ j, j ∈ l ↔ (absU g).hasEdge i j = true) ∧
      (∀ j, j ∈ l ↔ i ∈ g.nb j) := by
  refine ⟨g.nb i, by simp [getOutNeighbours, inR, hi], hg.base.nodup i, ?_, fun j => hg.sym i j⟩
  intro j
  simp only [absU, AG.hasEdge]
  by_cases he : g.hasEdgeRaw i j = true
  · simp only [he, if_true, Option.isSome_some, iff_true]; exact (hasEdgeRaw_iff_mem g i j).1 he
  · have he' : g.hasEdgeRaw i j = false := by simpa using he
    simp only [he', Bool.false_eq_true, if_false, Option.isSome_none, iff_false]
    exact fun hm => he ((hasEdgeRaw_iff_mem g i j).2 hm)

/-- `getEdgeNumber()` counts each unordered pair once: it is the number of pairs (i,j), i ≤ j,
that are edges -/
theorem C02_edgeNumber (g : G L) (hg : UInv g) :
    g.edgeNumber = ((List.range g.size).map (fun i =>
      ((List.range g.size).filter (fun j => decide (i ≤ j) && (absU g).hasEdge i j)).length)).sum := by
  rw [hg.base.count]
  simp only [uCount]
  congr 1
  apply List.map_congr_left
  intro i _
  simp only [cnt]
  have hnd : ((g.nb i).filter (fun j => decide (i ≤ j))).Nodup := (hg.base.nodup i).sublist List.filter_sublist
  rw [nodup_length_eq_filter_range _ g.size hnd (fun x hx => hg.base.bound i x (List.mem_filter.1 hx).1)]
  congr 1
  apply List.filter_congr
  intro j _
  simp only [absU, AG.hasEdge, List.contains_eq_mem, List.mem_filter, decide_eq_true_eq]
  by_cases hm : j ∈ g.nb i
  · have : g.hasEdgeRaw i j = true := (hasEdgeRaw_iff_mem g i j).2 hm
    by_cases hle : i ≤ j <;> simp [hm, this, hle]
  · have : g.hasEdgeRaw i j = false := by
      cases hh : g.hasEdgeRaw i j with
      | false => rfl
      | true => exact absurd ((hasEdgeRaw_iff_mem g i j).1 hh) hm
    simp [hm, this]

/-- `getDegree(v)` counts a self-loop twice by default and once on request -/
theorem C02_getDegree (g : G L) (hg : UInv g) (v : Nat) (hv : v < g.size) :
    g.uGetDegree v false = .ok (g.nb v).length ∧
    g.uGetDegree v true = .ok ((g.nb v).length + (if (absU g).hasEdge v v then 1 else 0)) := by
  constructor
  · simp [uGetDegree, inR, hv]
  · simp only [uGetDegree, inR, hv, decide_true, Bool.not_true, Bool.false_eq_true, if_false]
    congr 1
    have hgen : ∀ (l : List Nat), l.Nodup →
        (l.map (fun j => if j = v then 2 else 1)).sum = l.length + (if v ∈ l then 1 else 0) := by
      intro l
      induction l with
      | nil => intro _; simp
      | cons a as ih =>
        intro hn
        have hn' := List.nodup_cons.1 hn
        simp only [List.map_cons, List.sum_cons, List.length_cons, List.mem_cons]
        rw [ih hn'.2]
        by_cases hav : a = v
        · subst hav
          have : a ∉ as := hn'.1
          simp [this]; omega
        · have : ¬ v = a := fun e => hav e.symm
          simp [hav, this]; omega
    rw [hgen _ (hg.base.nodup v)]
    congr 1
    simp only [absU, AG.hasEdge]
    by_cases hm : v ∈ g.nb v
    · have : g.hasEdgeRaw v v = true := (hasEdgeRaw_iff_mem g v v).2 hm
      simp [hm, this]
    · have : g.hasEdgeRaw v v = false := by
        cases hh : g.hasEdgeRaw v v with
        | false => rfl
        | true => exact absurd ((hasEdgeRaw_iff_mem g v v).1 hh) hm
      simp [hm, this]

/-- removing an edge removes both directions of exactly that pair and nothing else -/
theorem C02_removeEdge_exact (g : G L) (hg : UInv g) (i j : Nat) (hi : i < g.size) (hj : j < g.size) :
    absU (g.uStepM (.removeEdge i j)).1 = (absU g).uRemove i j ∧
    absU (g.uStepM (.removeEdge j i)).1 = (absU g).uRemove i j := by
  constructor
  · exact absU_uStepM g hg (.removeEdge i j) ⟨hi, hj⟩
  · rw [absU_uStepM g hg (.removeEdge j i) ⟨hj, hi⟩]
    simp only [AG.uStep, AG.uRemove]
    congr 1
    funext x y
    have : AG.samePair x y j i ↔ AG.samePair x y i j := by unfold AG.samePair; exact Or.comm
    by_cases h1 : AG.samePair x y i j
    · simp [h1, this.2 h1]
    · have h2 : ¬ AG.samePair x y j i := fun hh => h1 (this.1 hh)
      simp [h1, h2]

theorem uRun_labelled (g : G L) (hg : UInv g) (ops : List (SOp L)) : (uRun g ops).labelled = g.labelled := by
  induction ops generalizing g with
  | nil => rfl
  | cons op ops ih =>
    have := ih (g.uStepM op).1 (uinv_uStepM g hg op)
    simp only [uRun, List.foldl_cons] at this ⊢
    rw [this, uStepM_labelled g hg]

/-- undirected half of C03: the label store has an entry for (i,j), i ≤ j, iff {i,j} is an edge, in
every reachable state, whatever removed the edge -/
theorem C03_und_entry_iff_edge (n : Nat) (ops : List (SOp L)) (i j : Nat) :
    ((uRun (G.new true n : G L) ops).labels.get? (i, j)).isSome
      = (decide (i ≤ j) && (uRun (G.new true n : G L) ops).hasEdgeRaw i j) := by
  have hinv := C02_inv_reachable (L := L) true n ops
  have hl : (uRun (G.new true n : G L) ops).labelled = true := by
    rw [uRun_labelled _ (uinv_new true n)]; rfl
  exact hinv.base.lab hl i j

/-- undirected `getEdgeLabel(i,j)` in either orientation: the denoted label, `invalid_argument`
for a pair that is not an edge, the default label when told not to throw -/
theorem C03_und_getEdgeLabel (g : G L) (hg : UInv g) (hl : g.labelled = true) (i j : Nat)
    (hi : i < g.size) (hj : j < g.size) (throwIf : Bool) :
    g.uGetEdgeLabel i j throwIf =
      match (absU g).lab i j with
      | some l => .ok l
      | none => if throwIf then .threw .inv else .ok default := by
  have hlab := hg.base.lab hl (ordered i j).1 (ordered i j).2
  have hle : (ordered i j).1 ≤ (ordered i j).2 := ordered_fst_le i j
  have hraw : g.hasEdgeRaw (ordered i j).1 (ordered i j).2 = g.hasEdgeRaw i j := hg.uHasEdgeRaw_eq i j
  simp only [hle, decide_true, Bool.true_and, hraw] at hlab
  simp only [uGetEdgeLabel, inR, hi, hj, decide_true, Bool.and_self, if_true, getLab, hl, absU]
  by_cases he : g.hasEdgeRaw i j = true
  · rw [he] at hlab
    obtain ⟨v, hv⟩ := Option.isSome_iff_exists.1 hlab
    simp [he, hv, labD_eq, hl]
  · have he' : g.hasEdgeRaw i j = false := by simpa using he
    rw [he'] at hlab
    have hn : g.labels.get? (ordered i j) = none := by
      cases h : g.labels.get? (ordered i j) with
      | none => rfl
      | some v => rw [h] at hlab; simp at hlab
    simp [he', hn]

example : AG.ValidFrom (L := Nat) 3
    [.addEdge 2 0 7, .addEdge 0 2 9, .addEdge 1 1 5, .removeEdge 0 2, .addEdge 1 2 4, .removeSelfLoops,
     .resize 4, .setEdgeLabel 2 1 8, .removeVertexFromEdgeList 3] := by
  simp [AG.ValidFrom, SOp.valid, SOp.newSize]

example : (absU (uRun (G.new true 3 : G Nat)
    [.addEdge 2 0 7, .addEdge 0 2 9, .addEdge 1 1 5, .removeEdge 0 2, .addEdge 1 2 4, .removeSelfLoops,
     .resize 4, .setEdgeLabel 2 1 8])).lab 1 2 = some 8 := by decide

end BGV
