import BGV.Props.C17
import BGV.Props.C11
import BGV.Props.C09
import BGV.Props.C10U
/-!
# Property C17 — further data-dependent accesses shown to be in bounds (model outcome `ub`
unreachable): path reconstruction (`predecessors[currentVertex]`), the all-predecessor search,
the multi-path machine, the conversions, the subgraph loops and the edge-list constructors.
-/
set_option linter.unusedSectionVars false
namespace BGV
open G Bfs
variable {L : Type} [Inhabited L]

/-- the all-predecessor search never indexes its vectors out of bounds on a reachable graph -/
theorem C17_allpred_no_ub (g : G L) (hg : Inv g) (s : Nat) : findAllVertexPredecessors g s ≠ .ub := by
  simp only [findAllVertexPredecessors, hg.adjWF]
  split <;> simp

/-- `findGeodesics`: the unchecked `predecessors[currentVertex]` of the reconstruction loop is
always in range and the loop terminates — the outcome is a path, never `ub` -/
theorem C17_findGeodesics_no_ub (g : G L) (hg : Inv g) (s t : Nat) (hn : g.size ≤ MAX) :
    findGeodesics g s t ≠ .ub := by
  by_cases hr : s < g.size ∧ t < g.size
  · obtain ⟨c1, c2, c3⟩ := C11_findGeodesics g s t hr.1 hr.2 hg.adjWF hg.len hn
    by_cases hst : s = t
    · rw [c1 hst]; simp
    · by_cases hre : Reachable g.adj s t
      · obtain ⟨p, hp, _⟩ := c3 hst hre
        rw [hp]; simp
      · rw [c2 hst hre]; simp
  · have : (decide (s < g.size) && decide (t < g.size)) = false := by
      simp only [Bool.and_eq_false_iff, decide_eq_false_iff_not]
      by_cases h1 : s < g.size
      · right; exact fun h2 => hr ⟨h1, h2⟩
      · left; exact h1
    simp [findGeodesics, this]

/-- the conversions and the reversal never hit an unchecked access on reachable graphs -/
theorem C17_conversions_no_ub (g : G L) :
    (Inv g → g.dReversed ≠ .ub ∧ g.uOfDirected ≠ .ub) ∧ (UInv g → g.uGetDirectedGraph ≠ .ub) := by
  refine ⟨fun hg => ⟨?_, ?_⟩, fun hg => ?_⟩
  · obtain ⟨r, hr, _⟩ := C09_reversed g hg; rw [hr]; simp
  · obtain ⟨r, hr, _⟩ := C09_uOfDirected g hg; rw [hr]; simp
  · obtain ⟨r, hr, _⟩ := C09_getDirectedGraph g hg; rw [hr]; simp

/-- the edge-list constructors are total -/
theorem C17_ctor_no_ub (lb : Bool) (es : List (Nat × Nat × L)) :
    ofEdgeList lb (fun h i j l f => h.dAddEdge i j l f) es ≠ .ub ∧
    ofEdgeList lb (fun h i j l f => h.uAddEdge i j l f) es ≠ .ub := by
  constructor
  · rw [(C09_dOfEdgeList lb es).1]; simp
  · rw [(C09_uOfEdgeList lb es).1]; simp

/-- subgraph extraction over vertices of the graph is total (directed and undirected) -/
theorem C17_subgraph_no_ub (g : G L) (ord : List Nat) (hord : ∀ v ∈ ord, v < g.size) :
    (Inv g → G.getSubgraph false g ord ≠ .ub ∧ G.getSubgraphWithRemap false g ord ≠ .ub) ∧
    (UInv g → G.getSubgraph true g ord ≠ .ub ∧ G.getSubgraphWithRemap true g ord ≠ .ub) := by
  refine ⟨fun hg => ⟨?_, ?_⟩, fun hg => ⟨?_, ?_⟩⟩
  · obtain ⟨r, hr, _⟩ := C10_getSubgraph g hg ord hord; rw [hr]; simp
  · obtain ⟨r, hr, _⟩ := C10_getSubgraphWithRemap g hg ord hord; rw [hr]; simp
  · obtain ⟨r, hr, _⟩ := C10_und_getSubgraph g hg ord hord; rw [hr]; simp
  · obtain ⟨r, hr, _⟩ := C10_und_getSubgraphWithRemap g hg ord hord; rw [hr]; simp

end BGV
