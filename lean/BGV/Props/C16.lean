import BGV.Proofs.URemove2
/-!
# Property C16 — forced duplicate edges are counted per copy and removed cleanly
(directed simple / labelled class)

`FInv`: what survives `force = true` — lists may repeat an entry, but every entry is a vertex and
`edgeNumber` is still the total length of the lists (one per copy).
-/
set_option linter.unusedSectionVars false
namespace BGV
open G
variable {L : Type} [Inhabited L]

structure FInv (g : G L) : Prop where
  len : g.adj.length = g.size
  bound : ∀ i, ∀ j ∈ g.nb i, j < g.size
  count : g.edgeNumber = g.sumLen

theorem finv_of_inv (g : G L) (h : Inv g) : FInv g := ⟨h.len, h.bound, h.count⟩

/-- **forced insertion:** the pair appears once more in the neighbour list, `getEdgeNumber` goes
up by one, `hasEdge` is (stays) true. -/
theorem C16_forced_add (g : G L) (h : FInv g) (i j : Nat) (l : L) (hi : i < g.size) (hj : j < g.size) :
    let g' := (g.dAddEdge i j l true).1
    FInv g' ∧ g'.nb i = g.nb i ++ [j] ∧ (∀ k, k ≠ i → g'.nb k = g.nb k) ∧
    g'.edgeNumber = g.edgeNumber + 1 ∧ g'.hasEdgeRaw i j = true := by
  have hil : i < g.adj.length := by rw [h.len]; exact hi
  have hstep : (g.dAddEdge i j l true).1 = (((g.push i j).withEN (g.edgeNumber + 1)).setLab (i, j) l) := by
    simp [dAddEdge, inR, hi, hj]
  simp only
  rw [hstep]
  have hnb : ∀ k, (((g.push i j).withEN (g.edgeNumber + 1)).setLab (i, j) l).nb k = if i = k then g.nb k ++ [j] else g.nb k := by
    intro k; simp only [setLab_nb, withEN_nb]; exact nb_push g i j k hil
  refine ⟨⟨?_, ?_, ?_⟩, ?_, ?_, ?_, ?_⟩
  · simp [push, h.len]
  · intro k x hx
    rw [hnb] at hx
    simp only [setLab_size, withEN_size, push_size]
    by_cases hik : i = k
    · subst hik
      simp only [if_true, List.mem_append, List.mem_singleton] at hx
      rcases hx with hx | rfl
      · exact h.bound i x hx
      · exact hj
    · simp only [hik, if_false] at hx; exact h.bound k x hx
  · simp only [setLab_en, setLab_sumLen, withEN_en, withEN_sumLen]
    rw [sumLen_push g i j hil, h.count]
  · rw [hnb]; simp
  · intro k hk; rw [hnb]; have : ¬ i = k := fun e => hk e.symm
    simp [this]
  · simp
  · simp only [hasEdgeRaw]; rw [hnb]; simp

/-- **removeEdge deletes all copies** and lowers `getEdgeNumber` by their number -/
theorem C16_removeEdge_all_copies (g : G L) (h : FInv g) (i j : Nat) :
    let g' := g.dRemoveEdgeCore i j
    FInv g' ∧ g'.hasEdgeRaw i j = false ∧
    g'.edgeNumber + (g.nb i).count j = g.edgeNumber ∧
    (∀ a b, (a, b) ≠ (i, j) → (g'.nb a).count b = (g.nb a).count b) := by
  simp only
  have hcount : ∀ (l : List Nat), (l.filter (· != j)).length + l.count j = l.length := by
    intro l
    induction l with
    | nil => rfl
    | cons y ys ih =>
      by_cases hy : y = j
      · subst hy; simp [List.filter_cons]; omega
      · have : (y != j) = true := by simpa using hy
        have hne : ¬ (y == j) = true := by simpa using hy
        simp [List.filter_cons, this, List.count_cons, hne]; omega
  refine ⟨⟨?_, ?_, ?_⟩, ?_, ?_, ?_⟩
  · simp [dRemoveEdgeCore, remove, h.len]
  · intro k x hx
    rw [nb_dRemoveEdgeCore] at hx
    simp only [dRemoveEdgeCore_size]
    split at hx
    · exact h.bound k x (List.mem_filter.1 hx).1
    · exact h.bound k x hx
  · have h1 := sumLen_remove g i j
    have h2 := sumLen_ge_nb g i
    simp only [dRemoveEdgeCore, withLabels_en, withEN_en, withLabels_sumLen, withEN_sumLen]
    have hle : (g.nb i).length - ((g.remove i j).nb i).length ≤ g.edgeNumber := by rw [h.count]; omega
    rw [subW_of_le hle, h.count]; omega
  · rw [hasEdgeRaw_dRemoveEdgeCore]; simp
  · have h2 := sumLen_ge_nb g i
    have hc := hcount (g.nb i)
    simp only [dRemoveEdgeCore, withLabels_en, withEN_en]
    rw [nb_remove]; simp only [if_true]
    have hle : (g.nb i).length - ((g.nb i).filter (· != j)).length ≤ g.edgeNumber := by rw [h.count]; omega
    rw [subW_of_le hle]; omega
  · intro a b hab
    rw [nb_dRemoveEdgeCore]
    by_cases hia : i = a
    · subst hia
      simp only [if_true]
      have hbj : b ≠ j := fun e => hab (by rw [e])
      rw [List.count_filter]
      simp [hbj]
    · simp [hia]

/-! ### removeDuplicateEdges -/
theorem dedupK_spec (seen l : List Nat) :
    (dedupK seen l).Nodup ∧ (∀ x, x ∈ dedupK seen l ↔ (x ∈ l ∧ x ∉ seen)) ∧
    (dedupK seen l).length + (dedupR seen l).length = l.length := by
  induction l generalizing seen with
  | nil => simp [dedupK, dedupR]
  | cons y ys ih =>
    by_cases hy : seen.contains y = true
    · obtain ⟨i1, i2, i3⟩ := ih seen
      have hmem : y ∈ seen := by simpa using hy
      simp only [dedupK, dedupR, hy, if_true]
      refine ⟨i1, ?_, by simp only [List.length_cons]; omega⟩
      intro x; rw [i2]
      constructor
      · rintro ⟨h1, h2⟩; exact ⟨by simp [h1], h2⟩
      · rintro ⟨h1, h2⟩
        rcases List.mem_cons.1 h1 with rfl | h1
        · exact absurd hmem h2
        · exact ⟨h1, h2⟩
    · obtain ⟨i1, i2, i3⟩ := ih (y :: seen)
      have hmem : y ∉ seen := by simpa using hy
      have hy' : seen.contains y = false := by simpa using hy
      simp only [dedupK, dedupR, hy', Bool.false_eq_true, if_false]
      refine ⟨?_, ?_, by simp only [List.length_cons]; omega⟩
      · refine List.nodup_cons.2 ⟨?_, i1⟩
        intro hh; have := (i2 y).1 hh; simp at this
      · intro x
        simp only [List.mem_cons, i2]
        constructor
        · rintro (rfl | ⟨h1, h2⟩)
          · exact ⟨Or.inl rfl, hmem⟩
          · exact ⟨Or.inr h1, fun hh => h2 (Or.inr hh)⟩
        · rintro ⟨h1 | h1, h2⟩
          · exact Or.inl h1
          · by_cases hxy : x = y
            · exact Or.inl hxy
            · exact Or.inr ⟨h1, fun hh => hh.elim hxy h2⟩

/-- one iteration of the outer loop of `removeDuplicateEdges` (vertex `i`) -/
def ddStep (g : G L) (i : Nat) : G L :=
  (g.withAdj (g.adj.modify i (dedupK []))).withEN (subW g.edgeNumber (dedupR [] (g.nb i)).length)

theorem dRemoveDuplicateEdges_eq (g : G L) : g.dRemoveDuplicateEdges = (List.range g.size).foldl ddStep g := rfl

theorem nb_ddStep (g : G L) (i k : Nat) : (ddStep g i).nb k = if i = k then dedupK [] (g.nb k) else g.nb k := by
  show ((g.adj.modify i (dedupK [])).getD k []) = _
  simp only [nb]
  rw [getD_modify _ _ _ _ (by simp [dedupK])]

theorem finv_ddStep (g : G L) (h : FInv g) (i : Nat) : FInv (ddStep g i) := by
  obtain ⟨d1, d2, d3⟩ := dedupK_spec [] (g.nb i)
  refine ⟨?_, ?_, ?_⟩
  · simp [ddStep, h.len]
  · intro k x hx
    rw [nb_ddStep] at hx
    show x < g.size
    by_cases hik : i = k
    · subst hik
      simp only [if_true] at hx
      exact h.bound i x ((d2 x).1 hx).1
    · simp only [hik, if_false] at hx
      exact h.bound k x hx
  · show subW g.edgeNumber (dedupR [] (g.nb i)).length = (ddStep g i).sumLen
    have hge := sumLen_ge_nb g i
    by_cases hi : i < g.adj.length
    · have := sum_len_modify g.adj i (dedupK []) hi
      simp only [ddStep, sumLen, withEN_adj, withAdj_adj, nb] at this d3 hge ⊢
      rw [subW_of_le (by rw [h.count]; simp only [sumLen]; omega), h.count]
      simp only [sumLen]; omega
    · have hge' : g.adj.length ≤ i := by omega
      have hnil : g.nb i = [] := G.nb_of_ge g i hge'
      have : (ddStep g i).adj = g.adj := by simp [ddStep, modify_of_ge _ _ _ hge']
      simp only [hnil, dedupR, List.length_nil, subW_zero, sumLen, this]
      exact h.count

theorem finv_foldl_ddStep (is : List Nat) (g : G L) (h : FInv g) : FInv (is.foldl ddStep g) := by
  induction is generalizing g with
  | nil => exact h
  | cons i is ih => exact ih _ (finv_ddStep g h i)

/-- **removeDuplicateEdges** leaves exactly one copy of every connected pair (self-loops included),
keeps the set of connected pairs, and `getEdgeNumber` is the number of distinct pairs. -/
theorem C16_removeDuplicateEdges (g : G L) (h : FInv g) :
    let g' := g.dRemoveDuplicateEdges
    FInv g' ∧ (∀ i, (g'.nb i).Nodup) ∧ (∀ i j, j ∈ g'.nb i ↔ j ∈ g.nb i) ∧ g'.edgeNumber = g'.sumLen := by
  simp only
  rw [dRemoveDuplicateEdges_eq]
  have hf := finv_foldl_ddStep (List.range g.size) g h
  have hnb := foldl_nb_indexwise ddStep (fun _ l => dedupK [] l) nb_ddStep (List.range g.size) List.nodup_range g
  refine ⟨hf, ?_, ?_, hf.count⟩
  · intro i
    rw [hnb]
    by_cases hi : i ∈ List.range g.size
    · simp only [hi, if_true]; exact (dedupK_spec [] (g.nb i)).1
    · simp only [hi, if_false]
      have : g.nb i = [] := G.nb_of_ge g i (by rw [h.len]; simpa using hi)
      rw [this]; exact List.nodup_nil
  · intro i j
    rw [hnb]
    by_cases hi : i ∈ List.range g.size
    · simp only [hi, if_true]
      rw [(dedupK_spec [] (g.nb i)).2.1]; simp
    · simp [hi]

theorem foldl_ddStep_labels (is : List Nat) (g : G L) :
    (is.foldl ddStep g).labels = g.labels ∧ (is.foldl ddStep g).labelled = g.labelled ∧ (is.foldl ddStep g).size = g.size := by
  induction is generalizing g with
  | nil => exact ⟨rfl, rfl, rfl⟩
  | cons i is ih =>
    simp only [List.foldl_cons]
    obtain ⟨h1, h2, h3⟩ := ih (ddStep g i)
    exact ⟨by rw [h1]; rfl, by rw [h2]; rfl, by rw [h3]; rfl⟩

/-- after `removeDuplicateEdges` the full simple-graph invariant of C01 holds again, provided the
label store was consistent with the set of connected pairs (it always is for unlabelled graphs) -/
theorem C16_dedup_restores_inv (g : G L) (h : FInv g)
    (hlab : g.labelled = true → ∀ i j, (g.labels.get? (i, j)).isSome = g.hasEdgeRaw i j)
    (hnl : g.labelled = false → g.labels = []) :
    Inv g.dRemoveDuplicateEdges := by
  obtain ⟨hf, hnd, hmem, hcnt⟩ := C16_removeDuplicateEdges g h
  obtain ⟨e1, e2, _⟩ := foldl_ddStep_labels (List.range g.size) g
  rw [← dRemoveDuplicateEdges_eq] at e1 e2
  refine ⟨hf.len, hnd, hf.bound, hcnt, ?_, ?_⟩
  · intro hl i j
    rw [e1]
    rw [e2] at hl
    rw [hlab hl i j]
    simp only [hasEdgeRaw, List.contains_eq_mem]
    congr 1
    exact propext (hmem i j).symm
  · intro hl
    rw [e1]; rw [e2] at hl; exact hnl hl

example : (dRemoveDuplicateEdges ((((G.new false 3 : G Nat).dAddEdge 0 1 0 true).1.dAddEdge 0 1 0 true).1.dAddEdge 2 2 0 true).1).nb 0 = [1] := by decide

end BGV
