import BGV.Props.C07H
/-!
# Property C11 — `findSourceVertex` on an arbitrary distance vector
-/
namespace BGV

/-- **C11: findSourceVertex.** the first index holding distance 0; `invalid_argument` exactly when no
entry is 0 -/
theorem C11_findSourceVertex_spec (dist : List Nat) :
    (∀ i : Nat, findSourceVertex dist = .ok i ↔ (dist[i]? = some 0 ∧ ∀ j : Nat, j < i → dist[j]? ≠ some 0)) ∧
    (findSourceVertex dist = .threw .inv ↔ ∀ i : Nat, dist[i]? ≠ some 0) := by
  constructor
  · intro i
    unfold findSourceVertex
    cases h : dist.findIdx? (· == 0) with
    | none =>
      simp only [reduceCtorEq, false_iff, not_and]
      intro hi
      rw [List.findIdx?_eq_none_iff] at h
      obtain ⟨hlt, hget⟩ : ∃ hlt : i < dist.length, dist[i] = 0 := by
        rcases Nat.lt_or_ge i dist.length with hl | hl
        · rw [List.getElem?_eq_getElem hl] at hi; exact ⟨hl, Option.some.inj hi⟩
        · rw [List.getElem?_eq_none hl] at hi; cases hi
      have := h dist[i] (List.getElem_mem hlt)
      simp [hget] at this
    | some k =>
      rw [List.findIdx?_eq_some_iff_getElem] at h
      obtain ⟨hk, hp, hmin⟩ := h
      simp only [Res.ok.injEq]
      constructor
      · intro e; subst e
        refine ⟨by rw [List.getElem?_eq_getElem hk]; simpa using hp, ?_⟩
        intro j hj hz
        have hjl : j < dist.length := Nat.lt_trans hj hk
        rw [List.getElem?_eq_getElem hjl] at hz
        have := hmin j hj
        simp [Option.some.inj hz] at this
      · rintro ⟨hz, hmn⟩
        rcases Nat.lt_trichotomy k i with h1 | h1 | h1
        · exact absurd (by rw [List.getElem?_eq_getElem hk]; simpa using hp) (hmn k h1)
        · exact h1
        · have hil : i < dist.length := by
            rcases Nat.lt_or_ge i dist.length with hl | hl
            · exact hl
            · rw [List.getElem?_eq_none hl] at hz; cases hz
          rw [List.getElem?_eq_getElem hil] at hz
          have := hmin i h1
          simp [Option.some.inj hz] at this
  · unfold findSourceVertex
    cases h : dist.findIdx? (· == 0) with
    | none =>
      simp only [true_iff]
      rw [List.findIdx?_eq_none_iff] at h
      intro i hz
      have hil : i < dist.length := by
        rcases Nat.lt_or_ge i dist.length with hl | hl
        · exact hl
        · rw [List.getElem?_eq_none hl] at hz; cases hz
      rw [List.getElem?_eq_getElem hil] at hz
      have := h dist[i] (List.getElem_mem hil)
      simp [Option.some.inj hz] at this
    | some k =>
      rw [List.findIdx?_eq_some_iff_getElem] at h
      obtain ⟨hk, hp, _⟩ := h
      simp only [reduceCtorEq, false_iff]
      intro hall
      exact hall k (by rw [List.getElem?_eq_getElem hk]; simpa using hp)

example : findSourceVertex [3, 0, 0] = .ok 1 ∧ findSourceVertex [1, 2] = .threw .inv ∧ findSourceVertex [] = .threw .inv := by
  decide

end BGV
