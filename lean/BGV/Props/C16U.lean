import BGV.Props.C16
import BGV.Proofs.RefineU
/-!
# Property C16 — undirected simple / labelled class

`UFInv`: what survives `force = true` on an undirected graph — lists may repeat entries but
membership stays symmetric, every entry is a vertex, `edgeNumber` is still the number of
half-edges `(i,j)`, `i ≤ j` (one per copy), and the label store has one entry per connected pair.
`removeDuplicateEdges` restores the full invariant of C02.
-/
set_option linter.unusedSectionVars false
namespace BGV
open G
variable {L : Type} [Inhabited L]

structure UFInv (g : G L) : Prop where
  len : g.adj.length = g.size
  bound : ∀ i, ∀ j ∈ g.nb i, j < g.size
  count : g.edgeNumber = g.uCount
  lab : g.labelled = true → ∀ i j, (g.labels.get? (i, j)).isSome = (decide (i ≤ j) && g.hasEdgeRaw i j)
  nolab : g.labelled = false → g.labels = []
  sym : Sym g

theorem ufinv_of_uinv (g : G L) (h : UInv g) : UFInv g :=
  ⟨h.base.len, h.base.bound, h.base.count, h.base.lab, h.base.nolab, h.sym⟩

theorem filter_partition_dedup (p : Nat → Bool) (seen l : List Nat) :
    ((dedupK seen l).filter p).length + ((dedupR seen l).filter p).length = (l.filter p).length := by
  induction l generalizing seen with
  | nil => simp [dedupK, dedupR]
  | cons y ys ih =>
    by_cases hy : seen.contains y = true
    · simp only [dedupK, dedupR, hy, if_true, List.filter_cons]
      have := ih seen
      by_cases hp : p y = true
      · simp only [hp, if_true, List.length_cons]; omega
      · simp only [hp, if_false]; exact this
    · have hy' : seen.contains y = false := by simpa using hy
      simp only [dedupK, dedupR, hy', Bool.false_eq_true, if_false, List.filter_cons]
      have := ih (y :: seen)
      by_cases hp : p y = true
      · simp only [hp, if_true, List.length_cons]; omega
      · simp only [hp, if_false]; exact this

/-- one iteration of the outer loop of the undirected `removeDuplicateEdges` -/
def udStep (g : G L) (i : Nat) : G L :=
  (g.withAdj (g.adj.modify i (dedupK []))).withEN
    (subW g.edgeNumber ((dedupR [] (g.nb i)).filter (fun j => decide (i ≤ j))).length)

theorem uRemoveDuplicateEdges_eq (g : G L) : g.uRemoveDuplicateEdges = (List.range g.size).foldl udStep g := rfl

theorem nb_udStep (g : G L) (i k : Nat) : (udStep g i).nb k = if i = k then dedupK [] (g.nb k) else g.nb k := by
  show ((g.adj.modify i (dedupK [])).getD k []) = _
  simp only [nb]
  rw [getD_modify _ _ _ _ (by simp [dedupK])]

theorem cnt_udStep (g : G L) (i k : Nat) :
    (udStep g i).cnt k + (if i = k then ((dedupR [] (g.nb i)).filter (fun j => decide (i ≤ j))).length else 0) = g.cnt k := by
  simp only [cnt]
  rw [nb_udStep]
  by_cases hik : i = k
  · subst hik
    simp only [if_true]
    exact filter_partition_dedup _ [] (g.nb i)
  · simp [hik]

/-- the weak invariant (without symmetry and labels) through one step -/
structure UF0 (g : G L) : Prop where
  len : g.adj.length = g.size
  bound : ∀ i, ∀ j ∈ g.nb i, j < g.size
  count : g.edgeNumber = g.uCount

theorem sum_map_cnt_change (n i : Nat) (f f' : Nat → Nat) (c : Nat) (hi : i < n)
    (h : ∀ k, f' k + (if i = k then c else 0) = f k) :
    ((List.range n).map f').sum + c = ((List.range n).map f).sum := by
  have h1 := sum_map_range_change n i f (fun k => if k = i then f' k + c else f' k) hi (by
    intro k hk; have := h k; have hne : ¬ i = k := fun e => hk e.symm
    simp only [hk, if_false]; simp only [hne, if_false] at this; omega)
  have h2 := sum_map_range_change n i f' (fun k => if k = i then f' k + c else f' k) hi (by
    intro k hk; simp [hk])
  have e1 : (fun k => if k = i then f' k + c else f' k) i = f i := by
    have := h i; simp only [if_true] at this ⊢; exact this
  have e2 : (fun k => if k = i then f' k + c else f' k) i = f' i + c := by simp
  omega

theorem uf0_udStep (g : G L) (h : UF0 g) (i : Nat) : UF0 (udStep g i) := by
  refine ⟨by simp [udStep, withAdj, withEN, h.len], ?_, ?_⟩
  · intro k x hx
    rw [nb_udStep] at hx
    show x < g.size
    split at hx
    · exact h.bound k x (((dedupK_spec [] (g.nb k)).2.1 x).1 hx).1
    · exact h.bound k x hx
  · show subW g.edgeNumber _ = (udStep g i).uCount
    by_cases hi : i < g.size
    · have hc := sum_map_cnt_change g.size i g.cnt (udStep g i).cnt
        ((dedupR [] (g.nb i)).filter (fun j => decide (i ≤ j))).length hi (cnt_udStep g i)
      have : (udStep g i).uCount = ((List.range g.size).map (udStep g i).cnt).sum := rfl
      rw [this, subW_of_le (by rw [h.count, uCount]; omega), h.count, uCount]; omega
    · have hnb : g.nb i = [] := G.nb_of_ge g i (by rw [h.len]; omega)
      have hsame : ∀ k, (udStep g i).cnt k = g.cnt k := by
        intro k; have := cnt_udStep g i k
        rw [hnb] at this; simp only [dedupR, List.filter_nil, List.length_nil, ite_self, Nat.add_zero] at this
        exact this
      rw [hnb]; simp only [dedupR, List.filter_nil, List.length_nil]
      have : (udStep g i).uCount = g.uCount := by
        show ((List.range g.size).map (udStep g i).cnt).sum = ((List.range g.size).map g.cnt).sum
        congr 1; apply List.map_congr_left; intro k _; exact hsame k
      rw [this, h.count]; simp [subW]

theorem uf0_foldl_udStep (is : List Nat) (g : G L) (h : UF0 g) : UF0 (is.foldl udStep g) := by
  induction is generalizing g with
  | nil => exact h
  | cons i is ih => exact ih _ (uf0_udStep g h i)

theorem foldl_udStep_labels (is : List Nat) (g : G L) :
    (is.foldl udStep g).labels = g.labels ∧ (is.foldl udStep g).labelled = g.labelled ∧ (is.foldl udStep g).size = g.size := by
  induction is generalizing g with
  | nil => exact ⟨rfl, rfl, rfl⟩
  | cons i is ih =>
    simp only [List.foldl_cons]
    obtain ⟨h1, h2, h3⟩ := ih (udStep g i)
    exact ⟨by rw [h1]; rfl, by rw [h2]; rfl, by rw [h3]; rfl⟩

/-- **undirected removeDuplicateEdges**: exactly one copy of every connected pair is left (both
half-edges, one for a self-loop), the set of connected pairs is unchanged, `getEdgeNumber` is the
number of distinct pairs, and the full invariant of C02 holds again. -/
theorem C16_und_removeDuplicateEdges (g : G L) (h : UFInv g) :
    let g' := g.uRemoveDuplicateEdges
    UInv g' ∧ (∀ i j, j ∈ g'.nb i ↔ j ∈ g.nb i) ∧ g'.size = g.size ∧ g'.labels = g.labels := by
  simp only
  rw [uRemoveDuplicateEdges_eq]
  have hf := uf0_foldl_udStep (List.range g.size) g ⟨h.len, h.bound, h.count⟩
  have hnb := foldl_nb_indexwise udStep (fun _ l => dedupK [] l) nb_udStep (List.range g.size) List.nodup_range g
  obtain ⟨e1, e2, e3⟩ := foldl_udStep_labels (List.range g.size) g
  have hmem : ∀ i j, j ∈ ((List.range g.size).foldl udStep g).nb i ↔ j ∈ g.nb i := by
    intro i j
    rw [hnb]
    by_cases hi : i ∈ List.range g.size
    · simp only [hi, if_true]
      rw [(dedupK_spec [] (g.nb i)).2.1]; simp
    · simp [hi]
  have hraw : ∀ i j, ((List.range g.size).foldl udStep g).hasEdgeRaw i j = g.hasEdgeRaw i j := by
    intro i j
    simp only [hasEdgeRaw, List.contains_eq_mem]
    congr 1
    exact propext (hmem i j)
  refine ⟨⟨⟨hf.len, ?_, hf.bound, hf.count, ?_, ?_⟩, ?_⟩, hmem, e3, e1⟩
  · intro i
    rw [hnb]
    by_cases hi : i ∈ List.range g.size
    · simp only [hi, if_true]; exact (dedupK_spec [] (g.nb i)).1
    · simp only [hi, if_false]
      have : g.nb i = [] := G.nb_of_ge g i (by rw [h.len]; simpa using hi)
      rw [this]; exact List.nodup_nil
  · intro hl i j
    rw [e1, hraw]; rw [e2] at hl; exact h.lab hl i j
  · intro hl; rw [e1]; rw [e2] at hl; exact h.nolab hl
  · intro i j
    rw [hmem, hmem]; exact h.sym i j

/-- **forced undirected insertion**: one more copy in both lists (one list for a self-loop),
`getEdgeNumber` goes up by one, `hasEdge` is true in both orientations, and the weak invariant
survives. -/
theorem C16_und_forced_add (g : G L) (h : UFInv g) (i j : Nat) (l : L) (hi : i < g.size) (hj : j < g.size) :
    let g' := (g.uAddEdge i j l true).1
    UFInv g' ∧ g'.edgeNumber = g.edgeNumber + 1 ∧
    (g'.nb i).count j = (g.nb i).count j + 1 ∧ (i ≠ j → (g'.nb j).count i = (g.nb j).count i + 1) ∧
    g'.hasEdgeRaw i j = true ∧ g'.hasEdgeRaw j i = true := by
  have hil : i < g.adj.length := by rw [h.len]; exact hi
  have hjl : j < g.adj.length := by rw [h.len]; exact hj
  have hstep : (g.uAddEdge i j l true).1 = g.uAdded i j l := by
    simp [uAddEdge, inR, hi, hj, uAdded]
  simp only
  rw [hstep]
  have hnb := nb_uAdded g i j (l := l) (hi := hil) (hj := hjl)
  have hsz : (g.uAdded i j l).size = g.size := by
    simp only [uAdded, withEN_size, setLab_size]
    by_cases hij : i = j <;> simp [hij]
  have hlbl : (g.uAdded i j l).labelled = g.labelled := by
    simp only [uAdded, withEN_labelled, setLab_labelled]
    by_cases hij : i = j <;> simp [hij]
  have hmemU : ∀ a b, b ∈ (g.uAdded i j l).nb a ↔ (b ∈ g.nb a ∨ (a = i ∧ b = j) ∨ (a = j ∧ b = i)) :=
    fun a b => mem_nb_uAdded g i j a b l hil hjl
  refine ⟨⟨?_, ?_, ?_, ?_, ?_, ?_⟩, ?_, ?_, ?_, ?_, ?_⟩
  · simp only [uAdded, withEN_adj, setLab_adj]
    by_cases hij : i = j <;> simp [hij, push, withAdj, h.len]
  · intro a b hb
    rw [hsz]
    rcases (hmemU a b).1 hb with h1 | ⟨_, rfl⟩ | ⟨_, rfl⟩
    · exact h.bound a b h1
    · exact hj
    · exact hi
  · show g.edgeNumber + 1 = (g.uAdded i j l).uCount
    rw [uCount_uAdded g i j l hi hj h.len, h.count]
  · intro hl a b
    rw [hlbl] at hl
    have hlab : (g.uAdded i j l).labels = g.labels.insert (ordered i j) l := by
      simp only [uAdded, withEN_labels]
      rw [setLab_labels_true _ _ _ (by split <;> simpa [push] using hl)]
      split <;> rfl
    rw [hlab, AMap.get?_insert]
    have hraw : (g.uAdded i j l).hasEdgeRaw a b = (g.hasEdgeRaw a b || decide ((a = i ∧ b = j) ∨ (a = j ∧ b = i))) := by
      rw [Bool.eq_iff_iff]
      simp only [hasEdgeRaw_iff_mem, hmemU, Bool.or_eq_true, decide_eq_true_eq]
    rw [hraw]
    by_cases hab : (a, b) = ordered i j
    · simp only [hab, if_true, Option.isSome_some]
      have hle : a ≤ b := by
        have := ordered_fst_le i j; rw [← hab] at this; exact this
      have hsp : (a = i ∧ b = j) ∨ (a = j ∧ b = i) := by
        have := (ordered_eq_iff a b i j).1 (by rw [ordered_of_le hle]; exact hab)
        exact this
      simp [hle, hsp]
    · simp only [hab, if_false]
      rw [h.lab hl a b]
      by_cases hle : a ≤ b
      · have hnsp : ¬ ((a = i ∧ b = j) ∨ (a = j ∧ b = i)) := by
          intro hsp
          apply hab
          rw [← ordered_of_le hle]
          exact (ordered_eq_iff a b i j).2 hsp
        simp [hle, hnsp]
      · simp [hle]
  · intro hl
    rw [hlbl] at hl
    simp only [uAdded, withEN_labels]
    rw [setLab_labels_false _ _ _ (by split <;> simpa [push] using hl)]
    split <;> exact h.nolab hl
  · intro a b
    rw [hmemU, hmemU, h.sym a b]
    constructor
    · rintro (h1 | ⟨rfl, rfl⟩ | ⟨rfl, rfl⟩)
      · exact Or.inl h1
      · exact Or.inr (Or.inr ⟨rfl, rfl⟩)
      · exact Or.inr (Or.inl ⟨rfl, rfl⟩)
    · rintro (h1 | ⟨rfl, rfl⟩ | ⟨rfl, rfl⟩)
      · exact Or.inl h1
      · exact Or.inr (Or.inr ⟨rfl, rfl⟩)
      · exact Or.inr (Or.inl ⟨rfl, rfl⟩)
  · simp [uAdded]
  · rw [hnb]
    by_cases hij : i = j
    · subst hij; simp
    · have : ¬ j = i := fun e => hij e.symm
      simp [hij, this]
  · intro hij
    rw [hnb]
    have : ¬ j = i := fun e => hij e.symm
    simp [hij, this]
  · rw [hasEdgeRaw_iff_mem, hmemU]; exact Or.inr (Or.inl ⟨rfl, rfl⟩)
  · rw [hasEdgeRaw_iff_mem, hmemU]; exact Or.inr (Or.inr ⟨rfl, rfl⟩)

example : (uRemoveDuplicateEdges ((((G.new false 3 : G Nat).uAddEdge 0 1 0 true).1.uAddEdge 1 0 0 true).1.uAddEdge 2 2 0 true).1).adj = [[1], [0], [2]] ∧
    (uRemoveDuplicateEdges ((((G.new false 3 : G Nat).uAddEdge 0 1 0 true).1.uAddEdge 1 0 0 true).1.uAddEdge 2 2 0 true).1).edgeNumber = 2 := by decide

end BGV
