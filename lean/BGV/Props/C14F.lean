import BGV.Props.C14C
/-!
# Property C14 — the IEEE-754 codecs of `float` / `double` labels round-trip

The model stores a floating-point label as an integer number of quarter units and writes it with
`ieeeBytes` (sign, biased exponent, fraction; little-endian).  For every value whose magnitude fits
the mantissa (`|k| < 2^(mb+1)`: all quarter values the 24- / 53-bit significand represents exactly)
the reader `ofIeee` returns the value written.
-/
set_option linter.unusedSectionVars false
namespace BGV
open FIO

/-! ### integer logarithm -/
theorem log2Aux_spec : ∀ (f m acc : Nat), m < 2 ^ f → 1 ≤ m →
    2 ^ (log2Aux f m acc - acc) ≤ m ∧ m < 2 ^ (log2Aux f m acc - acc + 1) ∧ acc ≤ log2Aux f m acc := by
  intro f
  induction f with
  | zero => intro m acc h1 h2; simp at h1; omega
  | succ f ih =>
    intro m acc h1 h2
    simp only [log2Aux]
    by_cases hm : m ≤ 1
    · have : m = 1 := by omega
      subst this
      simp
    · simp only [hm, if_false]
      have hlt : m / 2 < 2 ^ f := by
        rw [Nat.pow_succ] at h1; omega
      obtain ⟨a, b, c⟩ := ih (m / 2) (acc + 1) hlt (by omega)
      have hsub : log2Aux f (m / 2) (acc + 1) - acc = (log2Aux f (m / 2) (acc + 1) - (acc + 1)) + 1 := by omega
      refine ⟨?_, ?_, by omega⟩
      · rw [hsub, Nat.pow_succ]; omega
      · rw [hsub, Nat.pow_succ]
        rw [Nat.pow_succ] at b
        omega

theorem ilog2_spec (m : Nat) (hm : 1 ≤ m) : 2 ^ ilog2 m ≤ m ∧ m < 2 ^ (ilog2 m + 1) := by
  have hlt : m < 2 ^ (m + 1) := Nat.lt_of_lt_of_le (Nat.lt_two_pow_self) (Nat.pow_le_pow_right (by decide) (by omega))
  have := log2Aux_spec (m + 1) m 0 hlt hm
  simp only [Nat.sub_zero] at this
  exact ⟨this.1, this.2.1⟩

/-! ### bit fields -/
theorem bitfields (A B frac biased sgn : Nat) (hA : 0 < A) (hB : 0 < B) (hf : frac < A) (hb : biased < B) (hs : sgn < 2) :
    (sgn * (A * B) + biased * A + frac) % A = frac ∧
    (sgn * (A * B) + biased * A + frac) / A % B = biased ∧
    (sgn * (A * B) + biased * A + frac) / (A * B) % 2 = sgn := by
  have e : sgn * (A * B) + biased * A + frac = frac + A * (biased + B * sgn) := by
    have h1 : sgn * (A * B) = A * (B * sgn) := by rw [Nat.mul_comm sgn, Nat.mul_assoc]
    have h2 : biased * A = A * biased := Nat.mul_comm _ _
    rw [Nat.mul_add, h1, h2]; omega
  rw [e]
  have h1 : (frac + A * (biased + B * sgn)) % A = frac := by
    rw [Nat.add_mul_mod_self_left, Nat.mod_eq_of_lt hf]
  have h2 : (frac + A * (biased + B * sgn)) / A = biased + B * sgn := by
    rw [Nat.add_mul_div_left _ _ hA, Nat.div_eq_of_lt hf, Nat.zero_add]
  refine ⟨h1, ?_, ?_⟩
  · rw [h2, Nat.add_mul_mod_self_left, Nat.mod_eq_of_lt hb]
  · rw [← Nat.div_div_eq_div_mul, h2, Nat.add_mul_div_left _ _ hB, Nat.div_eq_of_lt hb, Nat.zero_add,
      Nat.mod_eq_of_lt hs]

/-! ### bytes -/
theorem ieeeBytes_getD (w mb bias : Nat) (k : Int) (i : Nat) (hi : i < w) :
    ((ieeeBytes w mb bias k).getD i 0).toNat = ieeeBits mb bias k / 256 ^ i % 256 := by
  simp only [ieeeBytes, List.getD_eq_getElem?_getD, List.getElem?_map, List.getElem?_range hi, Option.map_some,
    Option.getD_some]
  have : ieeeBits mb bias k / 256 ^ i % 256 < 256 := Nat.mod_lt _ (by decide)
  simp [UInt8.toNat_ofNat, Nat.mod_eq_of_lt this]

theorem ieee_bits_back (w mb bias : Nat) (k : Int) (hfit : ieeeBits mb bias k < 256 ^ w) :
    (List.range w).foldl (fun a i => a + ((ieeeBytes w mb bias k).getD i 0).toNat * 256 ^ i) 0 = ieeeBits mb bias k := by
  rw [foldl_congr_range w _ (fun a i => a + (ieeeBits mb bias k / 256 ^ i % 256) * 256 ^ i)
    (fun a i hi => by rw [ieeeBytes_getD w mb bias k i hi])]
  rw [digits_sum, Nat.mod_eq_of_lt hfit]

/-- the general statement: any format whose exponent field can hold the biased exponent -/
theorem ieee_roundtrip (w mb eb bias : Nat) (heb : eb = if mb = 52 then 11 else 8) (k : Int) (hk : k ≠ 0)
    (hmant : k.natAbs < 2 ^ (mb + 1)) (hbias : 3 ≤ bias) (hexp : mb + bias < 2 ^ eb)
    (hw : 2 ^ (mb + eb + 1) ≤ 256 ^ w) :
    ofIeee w mb bias (ieeeBytes w mb bias k) = k := by
  -- the fields
  obtain ⟨m, hmdef⟩ : ∃ m, m = k.natAbs := ⟨_, rfl⟩
  have hm1 : 1 ≤ m := by rw [hmdef]; omega
  obtain ⟨hlo, hhi⟩ := ilog2_spec m hm1
  obtain ⟨e, hedef⟩ : ∃ e, e = ilog2 m := ⟨_, rfl⟩
  rw [← hedef] at hlo hhi
  have hele : e ≤ mb := by
    rcases Nat.lt_or_ge mb e with h | h
    · have : 2 ^ (mb + 1) ≤ 2 ^ e := Nat.pow_le_pow_right (by decide) h
      rw [← hmdef] at hmant; omega
    · exact h
  have hA : 0 < 2 ^ mb := Nat.pow_pos (by decide)
  have hB : 0 < 2 ^ eb := Nat.pow_pos (by decide)
  have hsplit : 2 ^ mb = 2 ^ e * 2 ^ (mb - e) := by rw [← Nat.pow_add]; congr 1; omega
  have hfrac : (m - 2 ^ e) * 2 ^ (mb - e) < 2 ^ mb := by
    rw [hsplit]
    have : m - 2 ^ e < 2 ^ e := by rw [Nat.pow_succ] at hhi; omega
    exact Nat.mul_lt_mul_of_pos_right this (Nat.pow_pos (by decide))
  have hbiased : e + bias - 2 < 2 ^ eb := by omega
  obtain ⟨sgn, hsgn⟩ : ∃ sgn : Nat, sgn = if k < 0 then 1 else 0 := ⟨_, rfl⟩
  have hs2 : sgn < 2 := by rw [hsgn]; split <;> omega
  have hbits : ieeeBits mb bias k = sgn * (2 ^ mb * 2 ^ eb) + (e + bias - 2) * 2 ^ mb + (m - 2 ^ e) * 2 ^ (mb - e) := by
    simp only [ieeeBits, hk, if_false, ← hmdef, ← hedef, ← heb]
    rw [hsgn, Nat.pow_add]
    by_cases hneg : k < 0 <;> simp [hneg]
  obtain ⟨f1, f2, f3⟩ := bitfields (2 ^ mb) (2 ^ eb) ((m - 2 ^ e) * 2 ^ (mb - e)) (e + bias - 2) sgn hA hB hfrac hbiased hs2
  rw [← hbits] at f1 f2 f3
  have hfit : ieeeBits mb bias k < 256 ^ w := by
    refine Nat.lt_of_lt_of_le ?_ hw
    rw [hbits]
    have h1 : (e + bias - 2) * 2 ^ mb + (m - 2 ^ e) * 2 ^ (mb - e) < 2 ^ eb * 2 ^ mb := by
      have : (e + bias - 2 + 1) * 2 ^ mb ≤ 2 ^ eb * 2 ^ mb := Nat.mul_le_mul_right _ (by omega)
      rw [Nat.succ_mul] at this; omega
    have h2 : sgn * (2 ^ mb * 2 ^ eb) ≤ 2 ^ mb * 2 ^ eb := by
      have : sgn ≤ 1 := by omega
      calc sgn * (2 ^ mb * 2 ^ eb) ≤ 1 * (2 ^ mb * 2 ^ eb) := Nat.mul_le_mul_right _ this
        _ = _ := Nat.one_mul _
    have h3 : 2 ^ (mb + eb + 1) = 2 * (2 ^ mb * 2 ^ eb) := by rw [Nat.pow_succ, Nat.pow_add, Nat.mul_comm]
    rw [h3, Nat.mul_comm (2 ^ eb) (2 ^ mb)] at *
    omega
  -- decode
  simp only [ofIeee]
  rw [ieee_bits_back w mb bias k hfit, ← heb, Nat.pow_add, f1, f2, f3]
  have hb0 : ¬ (e + bias - 2 = 0) := by omega
  have hbmax : ¬ (e + bias - 2 = 2 ^ eb - 1) := by omega
  simp only [beq_iff_eq, hb0, false_and, Bool.false_and, Bool.false_eq_true, if_false, hbmax, Bool.or_self, Bool.and_eq_true,
    Bool.or_eq_true, or_self]
  have hmm : 2 ^ mb + (m - 2 ^ e) * 2 ^ (mb - e) = m * 2 ^ (mb - e) := by
    rw [hsplit, ← Nat.add_mul]; congr 1; omega
  rw [hmm]
  have hup : e + bias - 2 + 2 = e + bias := by omega
  rw [hup]
  have hval : (if e + bias ≥ bias + mb then some (m * 2 ^ (mb - e) * 2 ^ (e + bias - (bias + mb)))
      else if m * 2 ^ (mb - e) % 2 ^ (bias + mb - (e + bias)) = 0 then some (m * 2 ^ (mb - e) / 2 ^ (bias + mb - (e + bias))) else none)
      = some m := by
    by_cases hc : e + bias ≥ bias + mb
    · have : e = mb := by omega
      subst this
      have z1 : e + bias - (bias + e) = 0 := by omega
      simp [hc, z1]
    · have hd : bias + mb - (e + bias) = mb - e := by omega
      simp only [hc, if_false, hd, Nat.mul_mod_left, if_true]
      rw [Nat.mul_div_cancel _ (Nat.pow_pos (by decide))]
  rw [hval]
  simp only [hsgn]
  by_cases hneg : k < 0
  · simp only [hneg, if_true]
    rw [hmdef]; omega
  · simp only [hneg, if_false]
    have : ¬ ((0 : Nat) = 1) := by decide
    simp only [this, if_false]
    rw [hmdef]; omega

/-- **C14: `float` labels** (binary32) — every quarter value with `|k| < 2^24` round-trips -/
theorem C14_codec_float (k : Int) (hk : k.natAbs < 2 ^ 24) : ofIeee 4 23 127 (ieeeBytes 4 23 127 k) = k := by
  by_cases h0 : k = 0
  · subst h0; decide
  · exact ieee_roundtrip 4 23 8 127 (by decide) k h0 hk (by decide) (by decide) (by decide)

/-- **C14: `double` labels** (binary64) — every quarter value with `|k| < 2^53` round-trips -/
theorem C14_codec_double (k : Int) (hk : k.natAbs < 2 ^ 53) : ofIeee 8 52 1023 (ieeeBytes 8 52 1023 k) = k := by
  by_cases h0 : k = 0
  · subst h0; decide
  · exact ieee_roundtrip 8 52 11 1023 (by decide) k h0 hk (by decide) (by decide) (by decide)

/-- the encodings are the familiar ones: 1.0 = 3f800000, -2.5 = c0200000, 0.25 = 3e800000;
1.0 = 3ff0000000000000 (bytes little-endian) -/
example : ieeeBytes 4 23 127 4 = [0x00, 0x00, 0x80, 0x3f] ∧ ieeeBytes 4 23 127 (-10) = [0x00, 0x00, 0x20, 0xc0] ∧
    ieeeBytes 4 23 127 1 = [0x00, 0x00, 0x80, 0x3e] ∧
    ieeeBytes 8 52 1023 4 = [0, 0, 0, 0, 0, 0, 0xf0, 0x3f] := by decide

end BGV
