import BGV.Props.C11
/-!
# Property C11 — a reconstructed shortest path visits no vertex twice
(distances strictly increase along the path rebuilt from a predecessor tree)
-/
namespace BGV
open Bfs

theorem pathLoop_increasing {adj : Adj} {s : Nat} {pred : List Nat} {d : Nat → Nat} {fin : Nat → Prop}
    (h : PredTree adj s pred d fin) (fuel cur : Nat) (path res : List Nat)
    (hc : fin cur) (hcs : cur ≠ s) (hpw : (cur :: path).Pairwise (fun a b => d a < d b))
    (hr : pathLoop pred s fuel cur path = some (.ok res)) :
    res.Pairwise (fun a b => d a < d b) := by
  induction fuel generalizing cur path with
  | zero => simp [pathLoop] at hr
  | succ f ih =>
    obtain ⟨hlt, hmax⟩ := h.lt cur hc
    obtain ⟨hp1, _, hp3⟩ := h.step cur hc hcs
    have hget : pred[cur]? = some (pred.getD cur MAX) := by
      simp [List.getD_eq_getElem?_getD, hlt]
    have hnew : (pred.getD cur MAX :: cur :: path).Pairwise (fun a b => d a < d b) := by
      refine List.pairwise_cons.2 ⟨?_, hpw⟩
      intro b hb
      rcases List.mem_cons.1 hb with rfl | hb
      · omega
      · have := (List.pairwise_cons.1 hpw).1 b hb; omega
    simp only [pathLoop, hmax, if_false, hget] at hr
    by_cases hps : pred.getD cur MAX = s
    · simp only [hps, if_true, Option.some.injEq, Res.ok.injEq] at hr
      subst hr; rw [hps] at hnew; exact hnew
    · simp only [hps, if_false] at hr
      exact ih _ _ hp1 hps hnew hr

/-- a path rebuilt from a predecessor tree visits no vertex twice -/
theorem C11_reconstructed_path_nodup {adj : Adj} {s : Nat} {pred : List Nat} {d : Nat → Nat} {fin : Nat → Prop}
    (h : PredTree adj s pred d fin) (t : Nat) (ht : fin t) (res : List Nat)
    (hr : findPathFromPredecessors pred s t = .ok res) : res.Nodup := by
  by_cases hst : s = t
  · simp [findPathFromPredecessors, hst] at hr; subst hr; simp
  · simp only [findPathFromPredecessors, hst, if_false] at hr
    cases hl : pathLoop pred s (pred.length + 2) t [] with
    | none => simp [hl] at hr
    | some r =>
      simp only [hl] at hr; subst hr
      have := pathLoop_increasing h _ t [] res ht (fun e => hst e.symm) (by simp) hl
      exact this.imp (fun hab e => by subst e; omega)

/-- **C11, findGeodesics:** the returned path visits no vertex twice. -/
theorem C11_findGeodesics_nodup {L : Type} (g : G L) (s t : Nat) (hs : s < g.size) (ht : t < g.size)
    (hwf : adjWF g.adj = true) (hlen : g.adj.length = g.size) (hn : g.size ≤ MAX) (path : List Nat)
    (h : findGeodesics g s t = .ok path) : path.Nodup := by
  obtain ⟨c1, c2, _⟩ := C11_findGeodesics g s t hs ht hwf hlen hn
  by_cases hst : s = t
  · rw [c1 hst] at h; cases h; simp
  · by_cases hreach : Reachable g.adj s t
    · have hr : (decide (s < g.size) && decide (t < g.size)) = true := by simp [hs, ht]
      have hWF : WF g.adj := (adjWF_iff g.adj).1 hwf
      have hs' : s < g.adj.length := by rw [hlen]; exact hs
      obtain ⟨h1, h2, h3, h4⟩ := bfs_correct g.adj s hWF hs'
      obtain ⟨htree, hdlt, hplen⟩ := bfs_predTree g.adj s hWF hs' (by rw [hlen]; exact hn)
      have hdle : ∀ v, (bfs g.adj s).s v = true → (bfs g.adj s).d v ≤ (bfs g.adj s).pred.length :=
        fun v hv => by have := hdlt v hv; omega
      have hfvp : findVertexPredecessors g s = .ok (bfsRun g.adj s) := by simp [findVertexPredecessors, hs, hwf]
      have hd : ∀ v, (bfsRun g.adj s).dist.getD v MAX = (bfs g.adj s).d v := by
        intro v; rw [(bfsRun_eq g.adj s).1]; rfl
      have hpred : (bfsRun g.adj s).pred = (bfs g.adj s).pred := (bfsRun_eq g.adj s).2
      have hts : (bfs g.adj s).s t = true := by obtain ⟨k, hk⟩ := hreach; exact (h1 t k hk).1
      have hfin : (bfs g.adj s).d t ≠ MAX := by
        have h5 := hdlt t hts
        rw [hplen, hlen] at h5
        omega
      obtain ⟨res, r1, _⟩ := findPath_spec htree hdle t hts hst
      have : findGeodesics g s t = .ok res := by
        simp only [findGeodesics, hr, Bool.not_true, Bool.false_eq_true, if_false, hst, hfvp, Res.bind, hd,
          ne_eq, hfin, not_false_eq_true, if_true, hpred, r1]
      rw [this] at h; cases h
      exact C11_reconstructed_path_nodup htree t hts _ r1
    · rw [c2 hst hreach] at h; cases h; simp

example : (match findGeodesics (⟨false, 5, [[1, 2], [3], [3], [], [0]], 5, []⟩ : G Nat) 0 3 with | .ok p => p | _ => []) = [0, 1, 3] := by decide

end BGV
