import BGV.Proofs.Convert
import BGV.Proofs.UInv
import BGV.Model.Topology
import BGV.Props.C07
/-!
# Property C10 — subgraph extraction returns exactly the induced subgraph
(directed instantiation; the set `S` is a duplicate-free list in an arbitrary iteration order)

`getSubgraph` keeps the vertex count and exactly the edges with both endpoints in `S`, with their
labels; `getSubgraphWithRemap` returns a graph on `|S|` vertices and the map `v ↦ position of v in
the iteration order`, a bijection `S → [0,|S|)`, under which it has exactly the same edges and
labels.  Both hold for **every** iteration order.
-/
set_option linter.unusedSectionVars false
namespace BGV
open G
variable {L : Type} [Inhabited L]

/-- edges the loops add, in order: for i in ord, for j in nb i with j ∈ ord -/
def subEdges (g : G L) (S : List Nat) (f : Nat → Nat) (is : List Nat) : List (LEdge L) :=
  is.flatMap (fun i => ((g.nb i).filter (fun j => S.contains j)).map (fun j => (f i, f j, g.labD (i, j))))

theorem subInner (g : G L) (hg : Inv g) (S : List Nat) (f : Nat → Nat) (i : Nat) (js : List Nat)
    (hjs : ∀ j ∈ js, g.hasEdgeRaw i j = true) (h : G L)
    (hf : ∀ v, (v = i ∨ (v ∈ js ∧ S.contains v = true)) → f v < h.size) :
    js.foldl (subInnerStep false g S f i) (.ok h)
      = .ok (h.addAll ((js.filter (fun j => S.contains j)).map (fun j => (f i, f j, g.labD (i, j))))) := by
  induction js generalizing h with
  | nil => rfl
  | cons j js ih =>
    simp only [List.foldl_cons]
    have hej := hjs j (by simp)
    by_cases hc : S.contains j = true
    · have hfi : f i < h.size := hf i (Or.inl rfl)
      have hfj : f j < h.size := hf j (Or.inr ⟨by simp, hc⟩)
      have hlab : getEdgeLabelOf false g i j = .ok (g.labD (i, j)) := by
        simp only [getEdgeLabelOf, Bool.false_eq_true, if_false]; exact dGetEdgeLabel_edge g hg i j hej
      have hstep : subInnerStep false g S f i (.ok h) j = .ok (h.dAddEdge (f i) (f j) (g.labD (i, j)) false).1 := by
        simp only [subInnerStep, hc, if_true, hlab, chain, Res.bind, addEdgeOf, Bool.false_eq_true, if_false]
        rw [dAddEdge_ok' h (f i) (f j) _ hfi hfj]
      rw [hstep]
      simp only [hc, List.filter_cons, if_true, List.map_cons, addAll, List.foldl_cons]
      exact ih (fun x hx => hjs x (by simp [hx])) _ (by
        intro v hv; rw [dAddEdge_size]
        rcases hv with rfl | ⟨hv1, hv2⟩
        · exact hfi
        · exact hf v (Or.inr ⟨by simp [hv1], hv2⟩))
    · have hc' : S.contains j = false := by simpa using hc
      have hstep : subInnerStep false g S f i (.ok h) j = .ok h := by
        simp only [subInnerStep, hc', Bool.false_eq_true, if_false]
      rw [hstep]
      simp only [hc', List.filter_cons, Bool.false_eq_true, if_false]
      exact ih (fun x hx => hjs x (by simp [hx])) h (by
        intro v hv
        rcases hv with rfl | ⟨hv1, hv2⟩
        · exact hf _ (Or.inl rfl)
        · exact hf v (Or.inr ⟨by simp [hv1], hv2⟩))

theorem subOuter (g : G L) (hg : Inv g) (S : List Nat) (f : Nat → Nat) (is : List Nat)
    (his : ∀ i ∈ is, i < g.size) (h : G L)
    (hf : ∀ v, (v ∈ is ∨ S.contains v = true) → f v < h.size) :
    is.foldl (subOuterStep false g S f) (.ok h) = .ok (h.addAll (subEdges g S f is)) := by
  induction is generalizing h with
  | nil => rfl
  | cons i is ih =>
    have hi := his i (by simp)
    have hstep : subOuterStep false g S f (.ok h) i
        = .ok (h.addAll (((g.nb i).filter (fun j => S.contains j)).map (fun j => (f i, f j, g.labD (i, j))))) := by
      simp only [subOuterStep, Res.bind, inR, hi, decide_true, Bool.not_true, Bool.false_eq_true, if_false]
      exact subInner g hg S f i (g.nb i) (fun j hj => (mem_nb_iff g i j).1 hj) h (by
        intro v hv
        rcases hv with rfl | ⟨_, hv2⟩
        · exact hf _ (Or.inl (by simp))
        · exact hf v (Or.inr hv2))
    simp only [List.foldl_cons]
    rw [hstep]
    rw [ih (fun x hx => his x (by simp [hx])) _ (by
      intro v hv; rw [addAll_size]
      rcases hv with hv | hv
      · exact hf v (Or.inl (by simp [hv]))
      · exact hf v (Or.inr hv))]
    simp only [subEdges, List.flatMap_cons, addAll, List.foldl_append]

/-- first label for (x,y) in a list whose labels are a function of the pair -/
theorem firstLabel_of_fun (es : List (LEdge L)) (F : Nat → Nat → L) (hF : ∀ e ∈ es, e.2.2 = F e.1 e.2.1) (x y : Nat) :
    AG.firstLabel es x y = if (∃ e ∈ es, e.1 = x ∧ e.2.1 = y) then some (F x y) else none := by
  induction es with
  | nil => simp [AG.firstLabel]
  | cons e es ih =>
    obtain ⟨a, b, l⟩ := e
    have hl : l = F a b := hF (a, b, l) (by simp)
    have ih' := ih (fun e he => hF e (by simp [he]))
    simp only [AG.firstLabel, List.find?_cons] at ih' ⊢
    by_cases hm : a = x ∧ b = y
    · obtain ⟨rfl, rfl⟩ := hm
      have hex : ∃ e ∈ (a, b, l) :: es, e.1 = a ∧ e.2.1 = b := ⟨(a, b, l), by simp, rfl, rfl⟩
      simp [hex, hl]
    · have hb : (a == x && b == y) = false := by
        simp only [Bool.and_eq_false_iff, beq_eq_false_iff_ne]
        by_cases h1 : a = x
        · right; intro h2; exact hm ⟨h1, h2⟩
        · left; exact h1
      simp only [hb]
      rw [ih']
      have : (∃ e ∈ (a, b, l) :: es, e.1 = x ∧ e.2.1 = y) ↔ (∃ e ∈ es, e.1 = x ∧ e.2.1 = y) := by
        constructor
        · rintro ⟨e, he, h1, h2⟩
          rcases List.mem_cons.1 he with rfl | he
          · exact absurd ⟨h1, h2⟩ hm
          · exact ⟨e, he, h1, h2⟩
        · rintro ⟨e, he, h1, h2⟩; exact ⟨e, by simp [he], h1, h2⟩
      by_cases hex : ∃ e ∈ es, e.1 = x ∧ e.2.1 = y
      · simp [hex, this.2 hex]
      · have hnot : ¬ ∃ e ∈ (a, b, l) :: es, e.1 = x ∧ e.2.1 = y := fun hh => hex (this.1 hh)
        simp only [hex, if_false]
        rw [if_neg hnot]

/-- **C10, getSubgraph:** same number of vertices; exactly the edges of `g` with both endpoints in
`S`, each with its label — for every duplicate-free iteration order `ord` of `S ⊆ V`. -/
theorem C10_getSubgraph (g : G L) (hg : Inv g) (ord : List Nat) (hord : ∀ v ∈ ord, v < g.size) :
    ∃ r, G.getSubgraph false g ord = .ok r ∧ Inv r ∧
      absD r = ⟨g.size, fun x y => if x ∈ ord ∧ y ∈ ord then (absD g).lab x y else none⟩ := by
  have hrun : G.getSubgraph false g ord = .ok _ := subOuter g hg ord id ord hord (G.new g.labelled g.size) (by
    intro v hv
    show v < g.size
    rcases hv with hv | hv
    · exact hord v hv
    · exact hord v (by simpa using hv))
  refine ⟨_, hrun, inv_addAll _ (inv_new _ _) _, ?_⟩
  rw [absD_addAll _ (inv_new _ _)]
  · apply AG.ext'
    · rw [AG.addAll_n]; rfl
    · intro x y
      rw [AG.addAll_lab]
      have h0 : (absD (G.new g.labelled g.size : G L)).lab x y = none := by
        have : (G.new g.labelled g.size : G L).hasEdgeRaw x y = false := by
          simp only [hasEdgeRaw]; rw [nb_new]; rfl
        simp [absD, this]
      rw [h0]
      simp only
      rw [firstLabel_of_fun _ (fun a b => normLabel g.labelled (g.labD (a, b)))]
      · have hex : (∃ e ∈ (subEdges g ord id ord).map (fun e => ((e.1, e.2.1, normLabel (G.new g.labelled g.size : G L).labelled e.2.2) : LEdge L)),
              e.1 = x ∧ e.2.1 = y) ↔ (x ∈ ord ∧ y ∈ ord ∧ g.hasEdgeRaw x y = true) := by
          simp only [subEdges, List.mem_map, List.mem_flatMap, List.mem_filter, id]
          constructor
          · rintro ⟨e, ⟨e', ⟨i, hi, j, ⟨hj, hc⟩, rfl⟩, rfl⟩, rfl, rfl⟩
            exact ⟨hi, by simpa using hc, (mem_nb_iff g i j).1 hj⟩
          · rintro ⟨hx, hy, he⟩
            exact ⟨_, ⟨_, ⟨x, hx, y, ⟨(mem_nb_iff g x y).2 he, by simpa using hy⟩, rfl⟩, rfl⟩, rfl, rfl⟩
        by_cases hc : x ∈ ord ∧ y ∈ ord
        · by_cases he : g.hasEdgeRaw x y = true
          · rw [if_pos (hex.2 ⟨hc.1, hc.2, he⟩)]
            simp only [hc, and_self, if_true, absD, he]
            congr 1
            simp only [normLabel, labD_eq]
            by_cases hl : g.labelled = true <;> simp [hl]
          · rw [if_neg (fun hh => he (hex.1 hh).2.2)]
            simp [hc, absD, he]
        · rw [if_neg (fun hh => hc ⟨(hex.1 hh).1, (hex.1 hh).2.1⟩)]
          simp [hc]
      · intro e he
        simp only [subEdges, List.mem_map, List.mem_flatMap, List.mem_filter, id] at he
        obtain ⟨e', ⟨i, _, j, _, rfl⟩, rfl⟩ := he
        rfl
  · intro e he
    simp only [subEdges, List.mem_flatMap, List.mem_map, List.mem_filter, id] at he
    obtain ⟨i, hi, j, ⟨_, hc⟩, rfl⟩ := he
    exact ⟨hord i hi, hord j (by simpa using hc)⟩

/-- a vertex of `S` outside the graph makes the extraction throw `out_of_range` (first in order) -/
theorem C10_bad_vertex (und : Bool) (g : G L) (v : Nat) (rest : List Nat) (hv : ¬ v < g.size) :
    G.getSubgraph und g (v :: rest) = .threw .oor ∧ G.getSubgraphWithRemap und g (v :: rest) = .threw .oor := by
  constructor
  · exact C07_subLoop_oor_head und g v rest id _ hv
  · simp only [G.getSubgraphWithRemap, C07_subLoop_oor_head und g v rest _ _ hv, Res.map]

example : (G.getSubgraph false (dRun (G.new true 4 : G Nat) [.addEdge 0 1 7, .addEdge 1 2 5, .addEdge 2 0 9, .addEdge 3 3 1]) [2, 0]).map
    (fun r => (r.nb 2, r.nb 0, r.nb 1, r.nb 3, r.labels.get? (2, 0))) = .ok ([0], [], [], [], some 9) := by decide

end BGV

namespace BGV
open G
variable {L : Type} [Inhabited L]

theorem remapOf_lt (ord : List Nat) (v : Nat) (hv : v ∈ ord) : remapOf ord v < ord.length :=
  List.idxOf_lt_length_of_mem hv

theorem getElem_remapOf (ord : List Nat) (v : Nat) (hv : v ∈ ord) : ord[remapOf ord v]? = some v := by
  have h := remapOf_lt ord v hv
  rw [List.getElem?_eq_getElem h]
  congr 1
  exact List.getElem_idxOf h

theorem remapOf_inj (ord : List Nat) (a b : Nat) (ha : a ∈ ord) (hb : b ∈ ord)
    (h : remapOf ord a = remapOf ord b) : a = b := by
  have h1 := getElem_remapOf ord a ha
  have h2 := getElem_remapOf ord b hb
  rw [h] at h1
  rw [h1] at h2
  exact Option.some.inj h2

/-- **C10, getSubgraphWithRemap:** a graph on `|S|` vertices and the map `v ↦ position of v`; the
map is one-to-one from `S` onto `[0,|S|)` (it is exactly the returned `zipIdx` table), and under it
the result has exactly the edges of the induced subgraph, with their labels — for every
duplicate-free iteration order of `S ⊆ V`. -/
theorem C10_getSubgraphWithRemap (g : G L) (hg : Inv g) (ord : List Nat) (hord : ∀ v ∈ ord, v < g.size) :
    ∃ r, G.getSubgraphWithRemap false g ord = .ok (r, ord.zipIdx) ∧ Inv r ∧ r.size = ord.length ∧
      (∀ v ∈ ord, (v, remapOf ord v) ∈ ord.zipIdx ∧ remapOf ord v < ord.length) ∧
      (∀ a ∈ ord, ∀ b ∈ ord, remapOf ord a = remapOf ord b → a = b) ∧
      (∀ a ∈ ord, ∀ b ∈ ord, (absD r).lab (remapOf ord a) (remapOf ord b) = (absD g).lab a b) ∧
      (∀ x y, (absD r).lab x y ≠ none → ∃ a ∈ ord, ∃ b ∈ ord, x = remapOf ord a ∧ y = remapOf ord b) := by
  have hrun : G.subLoop false g ord (remapOf ord) (G.new g.labelled ord.length) = .ok _ :=
    subOuter g hg ord (remapOf ord) ord hord (G.new g.labelled ord.length) (by
      intro v hv
      show remapOf ord v < ord.length
      rcases hv with hv | hv
      · exact remapOf_lt ord v hv
      · exact remapOf_lt ord v (by simpa using hv))
  have hlabchar : ∀ x y, (absD ((G.new g.labelled ord.length : G L).addAll (subEdges g ord (remapOf ord) ord))).lab x y =
      AG.firstLabel ((subEdges g ord (remapOf ord) ord).map
        (fun e => ((e.1, e.2.1, normLabel (G.new g.labelled ord.length : G L).labelled e.2.2) : LEdge L))) x y := by
    intro x y
    rw [absD_addAll _ (inv_new _ _), AG.addAll_lab]
    · have h0 : (absD (G.new g.labelled ord.length : G L)).lab x y = none := by
        have : (G.new g.labelled ord.length : G L).hasEdgeRaw x y = false := by
          simp only [hasEdgeRaw]; rw [nb_new]; rfl
        simp [absD, this]
      rw [h0]
    · intro e he
      simp only [subEdges, List.mem_flatMap, List.mem_map, List.mem_filter] at he
      obtain ⟨i, hi, j, ⟨_, hc⟩, rfl⟩ := he
      exact ⟨remapOf_lt ord i hi, remapOf_lt ord j (by simpa using hc)⟩
  refine ⟨(G.new g.labelled ord.length : G L).addAll (subEdges g ord (remapOf ord) ord),
    by simp only [G.getSubgraphWithRemap, hrun, Res.map], inv_addAll _ (inv_new _ _) _, ?_, ?_, ?_, ?_, ?_⟩
  · rw [addAll_size]; rfl
  · intro v hv
    refine ⟨?_, remapOf_lt ord v hv⟩
    rw [List.mem_zipIdx_iff_getElem?]
    exact getElem_remapOf ord v hv
  · intro a ha b hb; exact remapOf_inj ord a b ha hb
  · intro a ha b hb
    rw [hlabchar]
    -- the first entry for (pos a, pos b) is the entry of (a,b) if it is an edge, and there is none otherwise
    have key : ∀ (es : List (LEdge L)),
        (∀ e ∈ es, ∃ i ∈ ord, ∃ j ∈ ord, g.hasEdgeRaw i j = true ∧
          e = (remapOf ord i, remapOf ord j, normLabel g.labelled (g.labD (i, j)))) →
        AG.firstLabel es (remapOf ord a) (remapOf ord b) =
          if (∃ e ∈ es, e.1 = remapOf ord a ∧ e.2.1 = remapOf ord b) then some (normLabel g.labelled (g.labD (a, b))) else none := by
      intro es
      induction es with
      | nil => intro _; simp [AG.firstLabel]
      | cons e es ih =>
        intro hes
        obtain ⟨i, hi, j, hj, _, rfl⟩ := hes e (by simp)
        have ih' := ih (fun e he => hes e (by simp [he]))
        simp only [AG.firstLabel, List.find?_cons] at ih' ⊢
        by_cases hm : remapOf ord i = remapOf ord a ∧ remapOf ord j = remapOf ord b
        · have hia := remapOf_inj ord i a hi ha hm.1
          have hjb := remapOf_inj ord j b hj hb hm.2
          subst hia; subst hjb
          have hex : ∃ e ∈ ((remapOf ord i, remapOf ord j, normLabel g.labelled (g.labD (i, j))) : LEdge L) :: es,
              e.1 = remapOf ord i ∧ e.2.1 = remapOf ord j :=
            ⟨(remapOf ord i, remapOf ord j, normLabel g.labelled (g.labD (i, j))), List.mem_cons_self, rfl, rfl⟩
          rw [if_pos hex]
          simp
        · have hbq : (remapOf ord i == remapOf ord a && remapOf ord j == remapOf ord b) = false := by
            simp only [Bool.and_eq_false_iff, beq_eq_false_iff_ne]
            by_cases h1 : remapOf ord i = remapOf ord a
            · right; intro h2; exact hm ⟨h1, h2⟩
            · left; exact h1
          simp only [hbq]
          rw [ih']
          have hiff : (∃ e ∈ ((remapOf ord i, remapOf ord j, normLabel g.labelled (g.labD (i, j))) : LEdge L) :: es,
                e.1 = remapOf ord a ∧ e.2.1 = remapOf ord b) ↔ (∃ e ∈ es, e.1 = remapOf ord a ∧ e.2.1 = remapOf ord b) := by
            constructor
            · rintro ⟨e, he, h1, h2⟩
              rcases List.mem_cons.1 he with rfl | he
              · exact absurd ⟨h1, h2⟩ hm
              · exact ⟨e, he, h1, h2⟩
            · rintro ⟨e, he, h1, h2⟩; exact ⟨e, by simp [he], h1, h2⟩
          by_cases hex : ∃ e ∈ es, e.1 = remapOf ord a ∧ e.2.1 = remapOf ord b
          · rw [if_pos hex, if_pos (hiff.2 hex)]
          · rw [if_neg hex, if_neg (fun hh => hex (hiff.1 hh))]
    rw [key]
    · have hex : (∃ e ∈ (subEdges g ord (remapOf ord) ord).map
              (fun e => ((e.1, e.2.1, normLabel (G.new g.labelled ord.length : G L).labelled e.2.2) : LEdge L)),
            e.1 = remapOf ord a ∧ e.2.1 = remapOf ord b) ↔ g.hasEdgeRaw a b = true := by
        simp only [subEdges, List.mem_map, List.mem_flatMap, List.mem_filter]
        constructor
        · rintro ⟨e, ⟨e', ⟨i, hi, j, ⟨hj, hc⟩, rfl⟩, rfl⟩, h1, h2⟩
          have hj' : j ∈ ord := by simpa using hc
          have hia := remapOf_inj ord i a hi ha h1
          have hjb := remapOf_inj ord j b hj' hb h2
          subst hia; subst hjb
          exact (mem_nb_iff g i j).1 hj
        · intro he
          exact ⟨_, ⟨_, ⟨a, ha, b, ⟨(mem_nb_iff g a b).2 he, by simpa using hb⟩, rfl⟩, rfl⟩, rfl, rfl⟩
      simp only [absD]
      by_cases he : g.hasEdgeRaw a b = true
      · rw [if_pos (hex.2 he)]
        simp only [he, if_true]
        congr 1
        simp only [normLabel, labD_eq]
        by_cases hl : g.labelled = true <;> simp [hl]
      · rw [if_neg (fun hh => he (hex.1 hh))]
        simp [he]
    · intro e he
      simp only [subEdges, List.mem_map, List.mem_flatMap, List.mem_filter] at he
      obtain ⟨e', ⟨i, hi, j, ⟨hj, hc⟩, rfl⟩, rfl⟩ := he
      exact ⟨i, hi, j, by simpa using hc, (mem_nb_iff g i j).1 hj, rfl⟩
  · intro x y hne
    rw [hlabchar] at hne
    simp only [AG.firstLabel] at hne
    cases hf : List.find? (fun e => e.1 == x && e.2.1 == y) ((subEdges g ord (remapOf ord) ord).map
        (fun e => ((e.1, e.2.1, normLabel (G.new g.labelled ord.length : G L).labelled e.2.2) : LEdge L))) with
    | none => rw [hf] at hne; simp at hne
    | some e =>
      have hmem := List.mem_of_find?_eq_some hf
      have hprop := List.find?_some hf
      simp only [subEdges, List.mem_map, List.mem_flatMap, List.mem_filter] at hmem
      obtain ⟨e', ⟨i, hi, j, ⟨_, hc⟩, rfl⟩, rfl⟩ := hmem
      simp only [Bool.and_eq_true, beq_iff_eq] at hprop
      exact ⟨i, hi, j, by simpa using hc, hprop.1.symm, hprop.2.symm⟩

end BGV
