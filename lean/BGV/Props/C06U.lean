import BGV.Props.C06
import BGV.Props.C02
import BGV.Proofs.WeightedU
import BGV.Props.C04U
import BGV.Props.C05
/-!
# Property C06 — undirected classes

`LabeledUndirectedGraph::operator==` *is* `Directed::operator==` on the underlying state
(`dEq`).  On reachable undirected states (symmetric lists, one label entry per unordered pair
keyed by the ordered pair) it decides equality of the denoted symmetric graphs — so the
orientation in which edges were given does not matter.
-/
set_option linter.unusedSectionVars false
namespace BGV
open G
variable {L : Type} [Inhabited L] [DecidableEq L]

def ReachU (g : G L) : Prop := UInv g ∧ KeysNodup g

omit [DecidableEq L] in
theorem keysNodup_uRun (g : G L) (ops : List (SOp L)) (h : KeysNodup g) : KeysNodup (uRun g ops) := by
  induction ops generalizing g with
  | nil => exact h
  | cons op ops ih => exact ih _ (keysNodup_uStepM g op h)

omit [DecidableEq L] in
theorem reachU_uRun (lb : Bool) (n : Nat) (ops : List (SOp L)) : ReachU (uRun (G.new lb n : G L) ops) :=
  ⟨C02_inv_reachable lb n ops, keysNodup_uRun _ ops (keysNodup_new lb n)⟩

omit [DecidableEq L] in
theorem hasEdgeRaw_of_absU_eq {g h : G L} (he : absU g = absU h) (i j : Nat) : g.hasEdgeRaw i j = h.hasEdgeRaw i j := by
  have := congrArg (fun a => (a.lab i j).isSome) he
  simp only [absU] at this
  by_cases h1 : g.hasEdgeRaw i j = true <;> by_cases h2 : h.hasEdgeRaw i j = true <;> simp_all

omit [DecidableEq L] in
theorem labels_length_eqU (g : G L) (hr : ReachU g) (hl : g.labelled = true) : g.labels.length = g.edgeNumber := by
  obtain ⟨hg, hk⟩ := hr
  have hnd := C08_uEdges_nodup g hg
  have hp : (AMap.keys g.labels).Perm g.uEdges := by
    apply (List.perm_ext_iff_of_nodup hk hnd).2
    intro e
    obtain ⟨i, j⟩ := e
    rw [AMap.mem_keys_iff_get?, C08_mem_uEdges g hg, hg.base.lab hl i j]
    simp
  have h1 : g.labels.length = (AMap.keys g.labels).length := by simp [AMap.keys]
  rw [h1, hp.length_eq, C08_uEdges_length g hg]

omit [DecidableEq L] in
theorem edgeNumber_of_absU_eq {g h : G L} (hg : UInv g) (hh : UInv h) (he : absU g = absU h) :
    g.edgeNumber = h.edgeNumber := by
  rw [C02_edgeNumber g hg, C02_edgeNumber h hh, he]
  have : g.size = h.size := congrArg AG.n he
  rw [this]

/-- **C06 (undirected).** `g == h` iff the two graphs denote the same symmetric labelled graph. -/
theorem C06_und_eq_iff_same_graph (g h : G L) (hg : ReachU g) (hh : ReachU h) (hl : g.labelled = h.labelled) :
    dEq g h = true ↔ absU g = absU h := by
  obtain ⟨ig, kg⟩ := hg
  obtain ⟨ih, kh⟩ := hh
  constructor
  · intro he
    simp only [dEq, Bool.and_eq_true, beq_iff_eq, List.all_eq_true, List.mem_range] at he
    obtain ⟨⟨⟨hs, _⟩, hb⟩, hall⟩ := he
    have hedge : ∀ i j, g.hasEdgeRaw i j = h.hasEdgeRaw i j := by
      intro i j
      by_cases hi : i < g.size
      · obtain ⟨h1, h2⟩ := hall i hi
        by_cases h3 : g.hasEdgeRaw i j = true
        · have := h1 j (by simpa [hasEdgeRaw] using h3)
          rw [h3, this]
        · by_cases h4 : h.hasEdgeRaw i j = true
          · have := h2 j (by simpa [hasEdgeRaw] using h4)
            exact absurd this h3
          · simp_all
      · have e1 : g.nb i = [] := ig.base.nb_of_ge i (by omega)
        have e2 : h.nb i = [] := ih.base.nb_of_ge i (by omega)
        simp [hasEdgeRaw, e1, e2]
    apply AG.ext'
    · exact hs
    · intro i j
      simp only [absU, ← hedge i j]
      by_cases h3 : g.hasEdgeRaw i j = true
      · simp only [h3, if_true]
        congr 1
        rw [labD_eq, labD_eq, ← hl]
        by_cases hlb : g.labelled = true
        · simp only [hlb, if_true]
          have hsome := ig.base.lab hlb (ordered i j).1 (ordered i j).2
          have hraw : g.hasEdgeRaw (ordered i j).1 (ordered i j).2 = true := by
            have := ig.uHasEdgeRaw_eq i j; simp only [uHasEdgeRaw] at this; rw [this]; exact h3
          rw [hraw] at hsome
          simp only [ordered_fst_le, decide_true, Bool.true_and] at hsome
          obtain ⟨v, hv⟩ := Option.isSome_iff_exists.1 hsome
          have hv' : g.labels.get? (ordered i j) = some v := hv
          have hmem : (ordered i j, v) ∈ (g.labels : List (Edge × L)) := (AMap.mem_iff_get?_of_nodup _ kg _ _).2 hv'
          have hb2 : (List.all (g.labels : List (Edge × L)) fun p => AMap.get? h.labels p.1 == some p.2) = true := by
            simp only [AMap.beq, Bool.and_eq_true] at hb; exact hb.2
          have := List.all_eq_true.1 hb2 _ hmem
          simp only [beq_iff_eq] at this
          rw [hv', this]
        · have hlb : g.labelled = false := by simpa using hlb
          simp [hlb]
      · simp [h3]
  · intro he
    have hs : g.size = h.size := congrArg AG.n he
    have hedge := hasEdgeRaw_of_absU_eq he
    simp only [dEq, Bool.and_eq_true, beq_iff_eq, List.all_eq_true, List.mem_range]
    refine ⟨⟨⟨hs, edgeNumber_of_absU_eq ig ih he⟩, ?_⟩, ?_⟩
    · by_cases hlb : g.labelled = true
      · have hlh : h.labelled = true := by rw [← hl]; exact hlb
        simp only [AMap.beq, Bool.and_eq_true, beq_iff_eq]
        constructor
        · show g.labels.length = h.labels.length
          rw [labels_length_eqU g ⟨ig, kg⟩ hlb, labels_length_eqU h ⟨ih, kh⟩ hlh]
          exact edgeNumber_of_absU_eq ig ih he
        · apply List.all_eq_true.2
          intro p hp
          simp only [beq_iff_eq]
          obtain ⟨⟨i, j⟩, v⟩ := p
          have hv : g.labels.get? (i, j) = some v := (AMap.mem_iff_get?_of_nodup _ kg _ _).1 hp
          have hge0 := ig.base.lab hlb i j
          rw [hv] at hge0
          simp only [Option.isSome_some, Bool.true_eq, Bool.and_eq_true, decide_eq_true_eq] at hge0
          obtain ⟨hij, hge⟩ := hge0
          have hhe : h.hasEdgeRaw i j = true := by rw [← hedge]; exact hge
          have hlabeq := congrArg (fun a => a.lab i j) he
          simp only [absU, hge, hhe, if_true, Option.some.injEq, labD_eq, hlb, hlh, ordered_of_le hij] at hlabeq
          have hsome := ih.base.lab hlh i j
          rw [hhe] at hsome
          simp only [hij, decide_true, Bool.true_and] at hsome
          obtain ⟨v', hv'⟩ := Option.isSome_iff_exists.1 hsome
          rw [hv, hv'] at hlabeq
          simp only [Option.getD_some] at hlabeq
          show AMap.get? h.labels (i, j) = some v
          rw [hv', hlabeq]
      · have hlb : g.labelled = false := by simpa using hlb
        have hlh : h.labelled = false := by rw [← hl]; exact hlb
        rw [ig.base.nolab hlb, ih.base.nolab hlh]; rfl
    · intro i hi
      constructor
      · intro j hj
        rw [← hedge]; simpa [hasEdgeRaw] using hj
      · intro j hj
        rw [hedge]; simpa [hasEdgeRaw] using hj

/-- **history independence (undirected).** Two valid histories denoting the same symmetric graph
— whatever orientation each call used, whatever was added and removed in between — leave equal
graphs; histories denoting different graphs leave unequal ones. -/
theorem C06_und_history_independent (lb : Bool) (n₁ n₂ : Nat) (ops₁ ops₂ : List (SOp L))
    (hv₁ : AG.ValidFrom n₁ ops₁) (hv₂ : AG.ValidFrom n₂ ops₂) :
    dEq (uRun (G.new lb n₁ : G L) ops₁) (uRun (G.new lb n₂ : G L) ops₂) = true ↔
      AG.uDenote lb (AG.empty n₁) ops₁ = AG.uDenote lb (AG.empty n₂) ops₂ := by
  rw [C06_und_eq_iff_same_graph _ _ (reachU_uRun lb n₁ ops₁) (reachU_uRun lb n₂ ops₂)
      (by rw [uRun_labelled _ (uinv_new _ _), uRun_labelled _ (uinv_new _ _)]; rfl)]
  rw [C02_refines lb n₁ ops₁ hv₁, C02_refines lb n₂ ops₂ hv₂]

theorem C06_und_refl (g : G L) (hg : ReachU g) : dEq g g = true :=
  (C06_und_eq_iff_same_graph g g hg hg rfl).2 rfl

theorem C06_und_symm (g h : G L) (hg : ReachU g) (hh : ReachU h) (hl : g.labelled = h.labelled) :
    dEq g h = dEq h g := by
  rw [Bool.eq_iff_iff, C06_und_eq_iff_same_graph g h hg hh hl, C06_und_eq_iff_same_graph h g hh hg hl.symm]
  exact ⟨Eq.symm, Eq.symm⟩

example : dEq (uRun (G.new true 3 : G Nat) [.addEdge 0 1 7, .addEdge 2 0 5, .addEdge 1 1 9, .removeEdge 1 1])
              (uRun (G.new true 2 : G Nat) [.resize 3, .addEdge 0 2 4, .addEdge 1 0 7, .setEdgeLabel 2 0 5]) = true := by decide

end BGV

namespace BGV
open G MG WG

/-! ## the derived classes: `operator==` is the base-class one, so it compares weights and
multiplicities -/

/-- weighted directed graphs: `==` iff same vertices, same edges, same weights -/
theorem C06_weighted_dir (m m' : WG) (h : WInv m) (h' : WInv m') :
    dEq m.g m'.g = true ↔ absD m.g = absD m'.g :=
  C06_eq_iff_same_graph m.g m'.g ⟨h.base, h.keys⟩ ⟨h'.base, h'.keys⟩ (by rw [h.lbl, h'.lbl])

/-- weighted undirected graphs -/
theorem C06_weighted_und (m m' : WG) (h : WUInv m) (h' : WUInv m') :
    dEq m.g m'.g = true ↔ absU m.g = absU m'.g :=
  C06_und_eq_iff_same_graph m.g m'.g ⟨h.base, h.keys⟩ ⟨h'.base, h'.keys⟩ (by rw [h.lbl, h'.lbl])

theorem mult_eq_absD (m : MG) (h : MInv m) (i j : Nat) : m.mult i j = ((absD m.g).lab i j).getD 0 := by
  simp only [mult, MG.cur_eq, absD]
  by_cases he : m.g.hasEdgeRaw i j = true
  · simp only [he, if_true, Option.getD_some, labD, h.lbl]; rfl
  · have he' : m.g.hasEdgeRaw i j = false := by simpa using he
    simp [he', MG.get?_none_of_absent m h i j he']

theorem absD_of_mult (m : MG) (h : MInv m) (i j : Nat) :
    (absD m.g).lab i j = if m.mult i j = 0 then none else some (m.mult i j) := by
  simp only [absD]
  by_cases he : m.g.hasEdgeRaw i j = true
  · have hz : m.mult i j ≠ 0 := by intro hh; rw [(mult_eq_zero_iff m h i j).1 hh] at he; cases he
    simp only [he, if_true, hz, if_false, labD, h.lbl]; rfl
  · have he' : m.g.hasEdgeRaw i j = false := by simpa using he
    simp [he', (mult_eq_zero_iff m h i j).2 he']

/-- directed multigraphs: `==` iff same vertices and same multiplicity for every ordered pair -/
theorem C06_multi_dir (m m' : MG) (h : MInv m) (h' : MInv m') :
    dEq m.g m'.g = true ↔ absM m = absM m' := by
  rw [C06_eq_iff_same_graph m.g m'.g ⟨h.base, h.keys⟩ ⟨h'.base, h'.keys⟩ (by rw [h.lbl, h'.lbl])]
  constructor
  · intro he
    apply AM.ext'
    · exact congrArg AG.n he
    · intro x y
      show m.mult x y = m'.mult x y
      rw [mult_eq_absD m h, mult_eq_absD m' h', he]
  · intro he
    apply AG.ext'
    · exact congrArg AM.n he
    · intro x y
      have : m.mult x y = m'.mult x y := congrFun (congrFun (congrArg AM.mu he) x) y
      rw [absD_of_mult m h, absD_of_mult m' h', this]

theorem absU_of_umult (m : MG) (h : MUInv m) (i j : Nat) :
    (absU m.g).lab i j = if m.umult i j = 0 then none else some (m.umult i j) := by
  simp only [absU]
  by_cases he : m.g.hasEdgeRaw i j = true
  · have hz : m.umult i j ≠ 0 := by intro hh; rw [(umult_eq_zero_iff m h i j).1 hh] at he; cases he
    simp only [he, if_true, hz, if_false, labD, h.lbl]; rfl
  · have he' : m.g.hasEdgeRaw i j = false := by simpa using he
    simp [he', (umult_eq_zero_iff m h i j).2 he']

/-- undirected multigraphs -/
theorem C06_multi_und (m m' : MG) (h : MUInv m) (h' : MUInv m') :
    dEq m.g m'.g = true ↔ absMU m = absMU m' := by
  rw [C06_und_eq_iff_same_graph m.g m'.g ⟨h.base, h.keys⟩ ⟨h'.base, h'.keys⟩ (by rw [h.lbl, h'.lbl])]
  constructor
  · intro he
    apply AM.ext'
    · exact congrArg AG.n he
    · intro x y
      show m.umult x y = m'.umult x y
      rw [umult_eq m h, umult_eq m' h', he]
  · intro he
    apply AG.ext'
    · exact congrArg AM.n he
    · intro x y
      have : m.umult x y = m'.umult x y := congrFun (congrFun (congrArg AM.mu he) x) y
      rw [absU_of_umult m h, absU_of_umult m' h', this]

end BGV
