import BGV.Proofs.CtorGen
/-!
# Property C09 — edge-list constructors of the multigraph and weighted classes

Constructing a `DirectedMultigraph`, `UndirectedMultigraph`, `DirectedWeightedGraph` or
`UndirectedWeightedGraph` from a container of (multi- / weighted) edges gives the graph with
`1 + largest index` vertices (none for an empty container) obtained by inserting the entries one at
a time — literally the same state, totals included.
-/
set_option linter.unusedSectionVars false
namespace BGV
open G

def MG.wf (m : MG) : Prop := m.g.adj.length = m.g.size
def WG.wf (m : WG) : Prop := m.g.adj.length = m.g.size

def MG.grow (m : MG) (n : Nat) : MG := (m.resize n).1
def WG.grow (m : WG) (n : Nat) : WG := (m.resize n).1

theorem MG.grow_eq (m : MG) (n : Nat) : m.grow n = ⟨m.g.grow n, m.total⟩ := rfl
theorem WG.grow_eq (m : WG) (n : Nat) : m.grow n = ⟨m.g.grow n, m.total⟩ := rfl

def sysDM : CSys MG Nat := ⟨fun m => m.g.size, MG.wf, MG.grow, fun m i j k => m.dAddMultiedge i j k false⟩
def sysUM : CSys MG Nat := ⟨fun m => m.g.size, MG.wf, MG.grow, fun m i j k => m.uAddMultiedge i j k false⟩
def sysDW : CSys WG Int := ⟨fun m => m.g.size, WG.wf, WG.grow, fun m i j w => m.dAddEdge i j w false⟩
def sysUW : CSys WG Int := ⟨fun m => m.g.size, WG.wf, WG.grow, fun m i j w => m.uAddEdge i j w false⟩

theorem inR_grow {L : Type} [Inhabited L] (h : G L) (n i : Nat) (hi : i < h.size) (hn : h.size ≤ n) :
    (h.grow n).inR i = true := by
  simp [inR, grow_size h n hn]; omega

theorem sysDM_ok : sysDM.OK := by
  refine ⟨?_, ?_, ?_, ?_, ?_, ?_, ?_, ?_⟩
  · intro m hw; show m.grow m.g.size = m; rw [MG.grow_eq, grow_self m.g hw]
  · intro m n k hw hn hk; show (m.grow n).grow k = m.grow k
    simp only [MG.grow_eq]; rw [grow_grow m.g hw n k hn hk]
  · intro m n hn; exact grow_size m.g n hn
  · intro m n hw hn; show (m.grow n).g.adj.length = (m.grow n).g.size
    simp only [MG.grow_eq]; rw [grow_len m.g hw n hn, grow_size m.g n hn]
  · intro m i j k hi hj
    have hr : (m.g.inR i && m.g.inR j) = true := by simp [inR]; exact ⟨hi, hj⟩
    show (m.dAddMultiedge i j k false).2 = .ok ()
    simp only [MG.dAddMultiedge, hr, Bool.not_true, Bool.false_eq_true, if_false]
    split
    · rfl
    · split <;> rfl
  · intro m i j k
    show (m.dAddMultiedge i j k false).1.g.size = m.g.size
    simp only [MG.dAddMultiedge]
    split
    · rfl
    · split
      · rfl
      · split
        · exact dAddEdge_size _ _ _ _ _
        · rfl
  · intro m i j k hw
    show (m.dAddMultiedge i j k false).1.g.adj.length = (m.dAddMultiedge i j k false).1.g.size
    simp only [MG.dAddMultiedge]
    split
    · exact hw
    · split
      · exact hw
      · split
        · exact dAddEdge_len _ _ _ _ _ hw
        · exact hw
  · intro m i j k n hw hi hj hn
    have hr : (m.g.inR i && m.g.inR j) = true := by simp [inR]; exact ⟨hi, hj⟩
    have hr' : ((m.g.grow n).inR i && (m.g.grow n).inR j) = true := by
      rw [inR_grow m.g n i hi hn, inR_grow m.g n j hj hn]; rfl
    show ((m.grow n).dAddMultiedge i j k false).1 = (m.dAddMultiedge i j k false).1.grow n
    simp only [MG.grow_eq, MG.dAddMultiedge, hr, hr', Bool.not_true, Bool.false_eq_true, if_false, hasEdgeRaw_grow,
      Bool.false_or]
    split
    · rfl
    · split
      · rw [dAddEdge_grow m.g i j k true n hw hi hj hn]
      · simp only [MG.cur, labels_grow m.g n hn, withLabels_grow m.g _ n hn]

theorem sysUM_ok : sysUM.OK := by
  refine ⟨?_, ?_, ?_, ?_, ?_, ?_, ?_, ?_⟩
  · intro m hw; show m.grow m.g.size = m; rw [MG.grow_eq, grow_self m.g hw]
  · intro m n k hw hn hk; show (m.grow n).grow k = m.grow k
    simp only [MG.grow_eq]; rw [grow_grow m.g hw n k hn hk]
  · intro m n hn; exact grow_size m.g n hn
  · intro m n hw hn; show (m.grow n).g.adj.length = (m.grow n).g.size
    simp only [MG.grow_eq]; rw [grow_len m.g hw n hn, grow_size m.g n hn]
  · intro m i j k hi hj
    have hr : (m.g.inR i && m.g.inR j) = true := by simp [inR]; exact ⟨hi, hj⟩
    show (m.uAddMultiedge i j k false).2 = .ok ()
    simp only [MG.uAddMultiedge, hr, Bool.not_true, Bool.false_eq_true, if_false]
    split
    · rfl
    · split <;> rfl
  · intro m i j k
    show (m.uAddMultiedge i j k false).1.g.size = m.g.size
    simp only [MG.uAddMultiedge]
    split
    · rfl
    · split
      · rfl
      · split
        · exact uAddEdge_size_any _ _ _ _ _
        · rfl
  · intro m i j k hw
    show (m.uAddMultiedge i j k false).1.g.adj.length = (m.uAddMultiedge i j k false).1.g.size
    simp only [MG.uAddMultiedge]
    split
    · exact hw
    · split
      · exact hw
      · split
        · exact uAddEdge_len _ _ _ _ _ hw
        · exact hw
  · intro m i j k n hw hi hj hn
    have hr : (m.g.inR i && m.g.inR j) = true := by simp [inR]; exact ⟨hi, hj⟩
    have hr' : ((m.g.grow n).inR i && (m.g.grow n).inR j) = true := by
      rw [inR_grow m.g n i hi hn, inR_grow m.g n j hj hn]; rfl
    have hu : (m.g.grow n).uHasEdgeRaw i j = m.g.uHasEdgeRaw i j := by simp only [uHasEdgeRaw, hasEdgeRaw_grow]
    show ((m.grow n).uAddMultiedge i j k false).1 = (m.uAddMultiedge i j k false).1.grow n
    simp only [MG.grow_eq, MG.uAddMultiedge, hr, hr', Bool.not_true, Bool.false_eq_true, if_false, hu, Bool.false_or]
    split
    · rfl
    · split
      · rw [uAddEdge_grow m.g i j k true n hw hi hj hn]
      · simp only [MG.cur, labels_grow m.g n hn, withLabels_grow m.g _ n hn]

theorem sysDW_ok : sysDW.OK := by
  refine ⟨?_, ?_, ?_, ?_, ?_, ?_, ?_, ?_⟩
  · intro m hw; show m.grow m.g.size = m; rw [WG.grow_eq, grow_self m.g hw]
  · intro m n k hw hn hk; show (m.grow n).grow k = m.grow k
    simp only [WG.grow_eq]; rw [grow_grow m.g hw n k hn hk]
  · intro m n hn; exact grow_size m.g n hn
  · intro m n hw hn; show (m.grow n).g.adj.length = (m.grow n).g.size
    simp only [WG.grow_eq]; rw [grow_len m.g hw n hn, grow_size m.g n hn]
  · intro m i j k hi hj
    have hr : (m.g.inR i && m.g.inR j) = true := by simp [inR]; exact ⟨hi, hj⟩
    show (m.dAddEdge i j k false).2 = .ok ()
    simp only [WG.dAddEdge, hr, Bool.not_true, Bool.false_eq_true, if_false]
    split <;> rfl
  · intro m i j k
    show (m.dAddEdge i j k false).1.g.size = m.g.size
    simp only [WG.dAddEdge]
    split
    · rfl
    · split
      · exact dAddEdge_size _ _ _ _ _
      · rfl
  · intro m i j k hw
    show (m.dAddEdge i j k false).1.g.adj.length = (m.dAddEdge i j k false).1.g.size
    simp only [WG.dAddEdge]
    split
    · exact hw
    · split
      · exact dAddEdge_len _ _ _ _ _ hw
      · exact hw
  · intro m i j k n hw hi hj hn
    have hr : (m.g.inR i && m.g.inR j) = true := by simp [inR]; exact ⟨hi, hj⟩
    have hr' : ((m.g.grow n).inR i && (m.g.grow n).inR j) = true := by
      rw [inR_grow m.g n i hi hn, inR_grow m.g n j hj hn]; rfl
    show ((m.grow n).dAddEdge i j k false).1 = (m.dAddEdge i j k false).1.grow n
    simp only [WG.grow_eq, WG.dAddEdge, hr, hr', Bool.not_true, Bool.false_eq_true, if_false, hasEdgeRaw_grow, Bool.false_or]
    split
    · rw [dAddEdge_grow m.g i j k true n hw hi hj hn]
    · rfl

theorem sysUW_ok : sysUW.OK := by
  refine ⟨?_, ?_, ?_, ?_, ?_, ?_, ?_, ?_⟩
  · intro m hw; show m.grow m.g.size = m; rw [WG.grow_eq, grow_self m.g hw]
  · intro m n k hw hn hk; show (m.grow n).grow k = m.grow k
    simp only [WG.grow_eq]; rw [grow_grow m.g hw n k hn hk]
  · intro m n hn; exact grow_size m.g n hn
  · intro m n hw hn; show (m.grow n).g.adj.length = (m.grow n).g.size
    simp only [WG.grow_eq]; rw [grow_len m.g hw n hn, grow_size m.g n hn]
  · intro m i j k hi hj
    have hr : (m.g.inR i && m.g.inR j) = true := by simp [inR]; exact ⟨hi, hj⟩
    show (m.uAddEdge i j k false).2 = .ok ()
    simp only [WG.uAddEdge, hr, Bool.not_true, Bool.false_eq_true, if_false]
    split <;> rfl
  · intro m i j k
    show (m.uAddEdge i j k false).1.g.size = m.g.size
    simp only [WG.uAddEdge]
    split
    · rfl
    · split
      · exact uAddEdge_size_any _ _ _ _ _
      · rfl
  · intro m i j k hw
    show (m.uAddEdge i j k false).1.g.adj.length = (m.uAddEdge i j k false).1.g.size
    simp only [WG.uAddEdge]
    split
    · exact hw
    · split
      · exact uAddEdge_len _ _ _ _ _ hw
      · exact hw
  · intro m i j k n hw hi hj hn
    have hr : (m.g.inR i && m.g.inR j) = true := by simp [inR]; exact ⟨hi, hj⟩
    have hr' : ((m.g.grow n).inR i && (m.g.grow n).inR j) = true := by
      rw [inR_grow m.g n i hi hn, inR_grow m.g n j hj hn]; rfl
    have hu : (m.g.grow n).uHasEdgeRaw i j = m.g.uHasEdgeRaw i j := by simp only [uHasEdgeRaw, hasEdgeRaw_grow]
    show ((m.grow n).uAddEdge i j k false).1 = (m.uAddEdge i j k false).1.grow n
    simp only [WG.grow_eq, WG.uAddEdge, hr, hr', Bool.not_true, Bool.false_eq_true, if_false, hu, Bool.false_or]
    split
    · rw [uAddEdge_grow m.g i j k true n hw hi hj hn]
    · rfl

theorem MG.new_grow (n : Nat) : (MG.new 0).grow n = MG.new n := by
  simp [MG.grow_eq, MG.new, G.grow, G.resize, G.new]
theorem WG.new_grow (n : Nat) : (WG.new 0).grow n = WG.new n := by
  simp [WG.grow_eq, WG.new, G.grow, G.resize, G.new]

/-- **C09: DirectedMultigraph(container).** -/
theorem C09_dmulti_ofEdgeList (es : List (Nat × Nat × Nat)) :
    MG.dOfEdgeList es = .ok (es.foldl (fun m e => (m.dAddMultiedge e.1 e.2.1 e.2.2 false).1) (MG.new (G.vcount es))) := by
  have := sysDM.ctor_eq sysDM_ok es (MG.new 0) (by simp [sysDM, MG.wf, MG.new, G.new]) rfl
  rw [show sysDM.grow (MG.new 0) (G.vcount es) = MG.new (G.vcount es) from MG.new_grow _] at this
  have h1 : MG.dOfEdgeList es = List.foldl sysDM.step (Res.ok (MG.new 0)) es := by
    unfold MG.dOfEdgeList
    congr 1
    funext r e
    cases r with
    | ok m =>
      simp only [CSys.step, Res.bind, sysDM, MG.grow]
      split <;> split <;> simp_all
    | threw x => rfl
    | ub => rfl
  rw [h1, this]; rfl

/-- **C09: UndirectedMultigraph(container).** -/
theorem C09_umulti_ofEdgeList (es : List (Nat × Nat × Nat)) :
    MG.uOfEdgeList es = .ok (es.foldl (fun m e => (m.uAddMultiedge e.1 e.2.1 e.2.2 false).1) (MG.new (G.vcount es))) := by
  have := sysUM.ctor_eq sysUM_ok es (MG.new 0) (by simp [sysUM, MG.wf, MG.new, G.new]) rfl
  rw [show sysUM.grow (MG.new 0) (G.vcount es) = MG.new (G.vcount es) from MG.new_grow _] at this
  have h1 : MG.uOfEdgeList es = List.foldl sysUM.step (Res.ok (MG.new 0)) es := by
    unfold MG.uOfEdgeList
    congr 1
    funext r e
    cases r with
    | ok m =>
      simp only [CSys.step, Res.bind, sysUM, MG.grow]
      split <;> split <;> simp_all
    | threw x => rfl
    | ub => rfl
  rw [h1, this]; rfl

/-- **C09: DirectedWeightedGraph(container).** -/
theorem C09_dweighted_ofEdgeList (es : List (Nat × Nat × Int)) :
    WG.dOfEdgeList es = .ok (es.foldl (fun m e => (m.dAddEdge e.1 e.2.1 e.2.2 false).1) (WG.new (G.vcount es))) := by
  have := sysDW.ctor_eq sysDW_ok es (WG.new 0) (by simp [sysDW, WG.wf, WG.new, G.new]) rfl
  rw [show sysDW.grow (WG.new 0) (G.vcount es) = WG.new (G.vcount es) from WG.new_grow _] at this
  have h1 : WG.dOfEdgeList es = List.foldl sysDW.step (Res.ok (WG.new 0)) es := by
    unfold WG.dOfEdgeList
    congr 1
    funext r e
    cases r with
    | ok m =>
      simp only [CSys.step, Res.bind, sysDW, WG.grow]
      split <;> split <;> simp_all
    | threw x => rfl
    | ub => rfl
  rw [h1, this]; rfl

/-- **C09: UndirectedWeightedGraph(container).** -/
theorem C09_uweighted_ofEdgeList (es : List (Nat × Nat × Int)) :
    WG.uOfEdgeList es = .ok (es.foldl (fun m e => (m.uAddEdge e.1 e.2.1 e.2.2 false).1) (WG.new (G.vcount es))) := by
  have := sysUW.ctor_eq sysUW_ok es (WG.new 0) (by simp [sysUW, WG.wf, WG.new, G.new]) rfl
  rw [show sysUW.grow (WG.new 0) (G.vcount es) = WG.new (G.vcount es) from WG.new_grow _] at this
  have h1 : WG.uOfEdgeList es = List.foldl sysUW.step (Res.ok (WG.new 0)) es := by
    unfold WG.uOfEdgeList
    congr 1
    funext r e
    cases r with
    | ok m =>
      simp only [CSys.step, Res.bind, sysUW, WG.grow]
      split <;> split <;> simp_all
    | threw x => rfl
    | ub => rfl
  rw [h1, this]; rfl

/-- not vacuous: repeated pair (multiplicities merge), a zero multiplicity, a self-loop, a gap -/
example : MG.uOfEdgeList [(0, 1, 2), (1, 0, 3), (4, 4, 1), (2, 1, 0)]
    = .ok (((((MG.new 5).uAddMultiedge 0 1 2 false).1.uAddMultiedge 1 0 3 false).1.uAddMultiedge 4 4 1 false).1.uAddMultiedge 2 1 0 false).1 := by
  rfl

end BGV
