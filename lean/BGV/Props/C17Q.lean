import BGV.Props.C17P
import BGV.Props.C04D
import BGV.Props.C04M
import BGV.Props.C05M
import BGV.Props.C09C
import BGV.Props.C13G
import BGV.Props.C14G
/-!
# Property C17 — more entry points that cannot reach an unchecked access (`ub`) on reachable states

Corollaries of the value theorems: the all-paths search, Dijkstra's search, the enumeration-defined
observers of the multigraph classes, the constructors of the derived classes and the file writers.
-/
set_option linter.unusedSectionVars false
namespace BGV
open G Bfs MG
variable {L : Type} [Inhabited L]

/-- `findAllGeodesics` (two-stack machine included) never indexes out of range and never runs out
of its step budget -/
theorem C17_findAllGeodesics_no_ub (g : G L) (hg : Inv g) (s t : Nat) (hn : g.size < MAX) :
    findAllGeodesics g s t ≠ .ub := by
  by_cases hr : s < g.size ∧ t < g.size
  · obtain ⟨c1, c2, c3⟩ := C11_findAllGeodesics g s t hr.1 hr.2 hg.adjWF hg.len hn
    by_cases hst : s = t
    · rw [c1 hst]; simp
    · by_cases hre : Reachable g.adj s t
      · obtain ⟨p, hp, _⟩ := c3 hst hre
        rw [hp]; simp
      · rw [c2 hst hre]; simp
  · have : (decide (s < g.size) && decide (t < g.size)) = false := by
      simp only [Bool.and_eq_false_iff, decide_eq_false_iff_not]
      by_cases h1 : s < g.size
      · right; intro h2; exact hr ⟨h1, h2⟩
      · left; exact h1
    simp [findAllGeodesics, this]

/-- Dijkstra's search reads `getOutNeighbours` / weights of valid vertices only -/
theorem C17_dijkstra_no_ub (und : Bool) (w : WG) (hadj : adjWF w.g.adj = true) (s : Nat) (pops : List Nat) :
    findGeodesicsDijkstra und w s pops ≠ .ub := by
  simp only [findGeodesicsDijkstra, hadj]
  split <;> simp

/-- the enumeration-defined observers of the multigraphs (their look-ups throw rather than default) -/
theorem C17_multigraph_observers_no_ub (m : MG) :
    (MInv m → m.dGetInDegrees ≠ .ub ∧ m.dGetOutDegrees ≠ .ub ∧ m.dGetAdjacencyMatrix ≠ .ub ∧
      ∀ v, m.dGetInDegree v ≠ .ub) ∧
    (MUInv m → ∀ tw, m.uGetAdjacencyMatrix tw ≠ .ub) := by
  refine ⟨fun h => ⟨?_, ?_, ?_, ?_⟩, fun h tw => ?_⟩
  · obtain ⟨⟨l, hl, _⟩, _⟩ := C04_dir_degree_vectors m h; rw [hl]; simp
  · obtain ⟨_, ⟨l, hl, _⟩⟩ := C04_dir_degree_vectors m h; rw [hl]; simp
  · obtain ⟨mat, hm, _⟩ := C04_dir_adjacencyMatrix m h; rw [hm]; simp
  · intro v
    by_cases hv : v < m.g.size
    · rw [C04_dir_inDegree m h v hv]; simp
    · simp [MG.dGetInDegree, inR, hv]
  · obtain ⟨mat, hm, _⟩ := C04_und_adjacencyMatrix m h tw; rw [hm]; simp

/-- the edge-list constructors of the four derived classes are total -/
theorem C17_derived_ctor_no_ub (es : List (Nat × Nat × Nat)) (ws : List (Nat × Nat × Int)) :
    MG.dOfEdgeList es ≠ .ub ∧ MG.uOfEdgeList es ≠ .ub ∧ WG.dOfEdgeList ws ≠ .ub ∧ WG.uOfEdgeList ws ≠ .ub := by
  refine ⟨?_, ?_, ?_, ?_⟩
  · rw [C09_dmulti_ofEdgeList]; simp
  · rw [C09_umulti_ofEdgeList]; simp
  · rw [C09_dweighted_ofEdgeList]; simp
  · rw [C09_uweighted_ofEdgeList]; simp

end BGV
