import BGV.Proofs.Keys
import BGV.Props.C03
import BGV.Props.C08
/-!
# Property C06 — `operator==` means same vertices, same edges, same labels — and nothing else

Directed classes (`LabeledDirectedGraph<L>`, and through delegation the directed multigraph and
weighted graph, whose `operator==` is this function on their base).  `dEq` is the model of
`LabeledDirectedGraph::operator==` (sizes, edge counts, `unordered_map ==` on the label stores,
mutual inclusion of the neighbour lists).
-/
set_option linter.unusedSectionVars false
namespace BGV
open G
variable {L : Type} [Inhabited L] [DecidableEq L]

/-- invariant of reachable states used by the equality theorems -/
def Reach (g : G L) : Prop := Inv g ∧ KeysNodup g

omit [DecidableEq L] in
theorem reach_dRun (lb : Bool) (n : Nat) (ops : List (SOp L)) : Reach (dRun (G.new lb n : G L) ops) :=
  ⟨C01_inv_reachable lb n ops, keysNodup_dRun _ ops (keysNodup_new lb n)⟩

omit [DecidableEq L] in
theorem hasEdgeRaw_of_absD_eq {g h : G L} (he : absD g = absD h) (i j : Nat) : g.hasEdgeRaw i j = h.hasEdgeRaw i j := by
  have := congrArg (fun a => (a.lab i j).isSome) he
  simp only [absD] at this
  by_cases h1 : g.hasEdgeRaw i j = true <;> by_cases h2 : h.hasEdgeRaw i j = true <;> simp_all

omit [DecidableEq L] in
theorem mem_edgeSeq_iff (g : G L) (hg : Inv g) (e : Edge) : e ∈ g.edgeSeq ↔ g.hasEdgeRaw e.1 e.2 = true := by
  obtain ⟨i, j⟩ := e
  rw [← dEdges_eq g hg.len]
  exact C08_mem_dEdges g hg.len i j

omit [DecidableEq L] in
/-- in a labelled reachable state the label store has exactly one entry per edge -/
theorem labels_length_eq (g : G L) (hr : Reach g) (hl : g.labelled = true) : g.labels.length = g.edgeNumber := by
  obtain ⟨hg, hk⟩ := hr
  have hnd : g.edgeSeq.Nodup := by rw [← dEdges_eq g hg.len]; exact C08_dEdges_nodup g hg
  have hp : (AMap.keys g.labels).Perm g.edgeSeq := by
    apply (List.perm_ext_iff_of_nodup hk hnd).2
    intro e
    rw [AMap.mem_keys_iff_get?, mem_edgeSeq_iff g hg, hg.lab hl e.1 e.2]
  have h1 : g.labels.length = (AMap.keys g.labels).length := by simp [AMap.keys]
  rw [h1, hp.length_eq, length_edgeSeq g hg.len, hg.count]

omit [DecidableEq L] in
theorem edgeNumber_of_absD_eq {g h : G L} (hg : Inv g) (hh : Inv h) (he : absD g = absD h) :
    g.edgeNumber = h.edgeNumber := by
  rw [C01_edgeNumber g hg, C01_edgeNumber h hh, he]
  have : g.size = h.size := congrArg AG.n he
  rw [this]

/-- **C06.** For two reachable states of the same class, `g == h` is true exactly when they denote
the same graph: same number of vertices, same edge set, equal labels on every edge. -/
theorem C06_eq_iff_same_graph (g h : G L) (hg : Reach g) (hh : Reach h) (hl : g.labelled = h.labelled) :
    dEq g h = true ↔ absD g = absD h := by
  obtain ⟨ig, kg⟩ := hg
  obtain ⟨ih, kh⟩ := hh
  constructor
  · intro he
    simp only [dEq, Bool.and_eq_true, beq_iff_eq, List.all_eq_true, List.mem_range] at he
    obtain ⟨⟨⟨hs, _⟩, hb⟩, hall⟩ := he
    have hedge : ∀ i j, g.hasEdgeRaw i j = h.hasEdgeRaw i j := by
      intro i j
      by_cases hi : i < g.size
      · obtain ⟨h1, h2⟩ := hall i hi
        by_cases h3 : g.hasEdgeRaw i j = true
        · have := h1 j (by simpa [hasEdgeRaw] using h3)
          rw [h3, this]
        · by_cases h4 : h.hasEdgeRaw i j = true
          · have := h2 j (by simpa [hasEdgeRaw] using h4)
            exact absurd this h3
          · simp_all
      · have e1 : g.nb i = [] := ig.nb_of_ge i (by omega)
        have e2 : h.nb i = [] := ih.nb_of_ge i (by omega)
        simp [hasEdgeRaw, e1, e2]
    apply AG.ext'
    · exact hs
    · intro i j
      simp only [absD, ← hedge i j]
      by_cases h3 : g.hasEdgeRaw i j = true
      · simp only [h3, if_true]
        congr 1
        rw [labD_eq, labD_eq, ← hl]
        by_cases hlb : g.labelled = true
        · simp only [hlb, if_true]
          have hsome := ig.lab hlb i j
          rw [h3] at hsome
          obtain ⟨v, hv⟩ := Option.isSome_iff_exists.1 hsome
          have hmem : ((i, j), v) ∈ (g.labels : List (Edge × L)) := (AMap.mem_iff_get?_of_nodup _ kg _ _).2 hv
          have hb2 : (List.all (g.labels : List (Edge × L)) fun p => AMap.get? h.labels p.1 == some p.2) = true := by
            simp only [AMap.beq, Bool.and_eq_true] at hb; exact hb.2
          have := List.all_eq_true.1 hb2 _ hmem
          simp only [beq_iff_eq] at this
          rw [hv, this]
        · have hlb : g.labelled = false := by simpa using hlb
          simp [hlb]
      · simp [h3]
  · intro he
    have hs : g.size = h.size := congrArg AG.n he
    have hedge := hasEdgeRaw_of_absD_eq he
    simp only [dEq, Bool.and_eq_true, beq_iff_eq, List.all_eq_true, List.mem_range]
    refine ⟨⟨⟨hs, edgeNumber_of_absD_eq ig ih he⟩, ?_⟩, ?_⟩
    · by_cases hlb : g.labelled = true
      · have hlh : h.labelled = true := by rw [← hl]; exact hlb
        simp only [AMap.beq, Bool.and_eq_true, beq_iff_eq]
        constructor
        · show g.labels.length = h.labels.length
          rw [labels_length_eq g ⟨ig, kg⟩ hlb, labels_length_eq h ⟨ih, kh⟩ hlh]
          exact edgeNumber_of_absD_eq ig ih he
        · apply List.all_eq_true.2
          intro p hp
          simp only [beq_iff_eq]
          obtain ⟨⟨i, j⟩, v⟩ := p
          have hv : g.labels.get? (i, j) = some v := (AMap.mem_iff_get?_of_nodup _ kg _ _).1 hp
          have hge : g.hasEdgeRaw i j = true := by
            have := ig.lab hlb i j; rw [hv] at this; simpa using this.symm
          have hhe : h.hasEdgeRaw i j = true := by rw [← hedge]; exact hge
          have hlabeq := congrArg (fun a => a.lab i j) he
          simp only [absD, hge, hhe, if_true, Option.some.injEq, labD_eq, hlb, hlh] at hlabeq
          have hsome := ih.lab hlh i j
          rw [hhe] at hsome
          obtain ⟨v', hv'⟩ := Option.isSome_iff_exists.1 hsome
          rw [hv, hv'] at hlabeq
          simp only [Option.getD_some] at hlabeq
          show AMap.get? h.labels (i, j) = some v
          rw [hv', hlabeq]
      · have hlb : g.labelled = false := by simpa using hlb
        have hlh : h.labelled = false := by rw [← hl]; exact hlb
        rw [ig.nolab hlb, ih.nolab hlh]; rfl
    · intro i hi
      constructor
      · intro j hj
        rw [← hedge]; simpa [hasEdgeRaw] using hj
      · intro j hj
        rw [hedge]; simpa [hasEdgeRaw] using hj

/-- `==` is reflexive on reachable states -/
theorem C06_refl (g : G L) (hg : Reach g) : dEq g g = true :=
  (C06_eq_iff_same_graph g g hg hg rfl).2 rfl

/-- `==` is symmetric on reachable states -/
theorem C06_symm (g h : G L) (hg : Reach g) (hh : Reach h) (hl : g.labelled = h.labelled) :
    dEq g h = dEq h g := by
  rw [Bool.eq_iff_iff, C06_eq_iff_same_graph g h hg hh hl, C06_eq_iff_same_graph h g hh hg hl.symm]
  exact ⟨Eq.symm, Eq.symm⟩

/-- **history independence.** Two valid histories that denote the same graph leave equal graphs:
insertion order and edges or labels held in the past and since removed do not matter. -/
theorem C06_history_independent (lb : Bool) (n₁ n₂ : Nat) (ops₁ ops₂ : List (SOp L))
    (hv₁ : AG.ValidFrom n₁ ops₁) (hv₂ : AG.ValidFrom n₂ ops₂)
    (hd : AG.dDenote lb (AG.empty n₁) ops₁ = AG.dDenote lb (AG.empty n₂) ops₂) :
    dEq (dRun (G.new lb n₁ : G L) ops₁) (dRun (G.new lb n₂ : G L) ops₂) = true := by
  rw [C06_eq_iff_same_graph _ _ (reach_dRun lb n₁ ops₁) (reach_dRun lb n₂ ops₂)
      (by rw [dRun_labelled, dRun_labelled]; rfl)]
  rw [C01_refines lb n₁ ops₁ hv₁, C01_refines lb n₂ ops₂ hv₂, hd]

/-- and histories denoting different graphs leave unequal ones (`!=` is the negation of `==`) -/
theorem C06_distinguishes (lb : Bool) (n₁ n₂ : Nat) (ops₁ ops₂ : List (SOp L))
    (hv₁ : AG.ValidFrom n₁ ops₁) (hv₂ : AG.ValidFrom n₂ ops₂)
    (hd : AG.dDenote lb (AG.empty n₁) ops₁ ≠ AG.dDenote lb (AG.empty n₂) ops₂) :
    dEq (dRun (G.new lb n₁ : G L) ops₁) (dRun (G.new lb n₂ : G L) ops₂) = false := by
  cases hq : dEq (dRun (G.new lb n₁ : G L) ops₁) (dRun (G.new lb n₂ : G L) ops₂) with
  | false => rfl
  | true =>
    exfalso; apply hd
    rw [← C01_refines lb n₁ ops₁ hv₁, ← C01_refines lb n₂ ops₂ hv₂]
    exact (C06_eq_iff_same_graph _ _ (reach_dRun lb n₁ ops₁) (reach_dRun lb n₂ ops₂)
      (by rw [dRun_labelled, dRun_labelled]; rfl)).1 hq

example : dEq (dRun (G.new true 3 : G Nat) [.addEdge 0 1 7, .addEdge 2 0 5, .addEdge 1 1 9, .removeEdge 1 1])
              (dRun (G.new true 2 : G Nat) [.resize 3, .addEdge 2 0 4, .addEdge 0 1 7, .setEdgeLabel 2 0 5]) = true := by decide

end BGV
