import BGV.Props.C16
import BGV.Props.C05
/-!
# Property C16 — `DirectedWeightedGraph`: forced duplicates and `removeDuplicateEdges`

With `force = true` every copy of an edge adds its weight to the total; `removeDuplicateEdges`
subtracts the weight of every erased copy.  Provided all copies of a pair carry the same weight
(the label store holds one weight per pair), the graph after `removeDuplicateEdges` satisfies the
full invariant of C05 again: one entry per pair and `totalWeight` = sum of the weights present.
-/
set_option linter.unusedSectionVars false
namespace BGV
open G WG

/-- sum of the stored weight over every list entry (one term per copy) -/
def entrySum (g : G Int) : Int :=
  ((List.range g.size).map (fun i => ((g.nb i).map (fun j => g.labD (i, j))).sum)).sum

theorem sumI_partition_dedup (f : Nat → Int) (seen l : List Nat) :
    ((dedupK seen l).map f).sum + ((dedupR seen l).map f).sum = (l.map f).sum := by
  induction l generalizing seen with
  | nil => simp [dedupK, dedupR]
  | cons y ys ih =>
    by_cases hy : seen.contains y = true
    · simp only [dedupK, dedupR, hy, if_true, List.map_cons, List.sum_cons]
      have := ih seen; omega
    · have hy' : seen.contains y = false := by simpa using hy
      simp only [dedupK, dedupR, hy', Bool.false_eq_true, if_false, List.map_cons, List.sum_cons]
      have := ih (y :: seen); omega

theorem foldl_sub_eq (f : Nat → Int) (l : List Nat) (t : Int) :
    l.foldl (fun t j => t - f j) t = t - (l.map f).sum := by
  induction l generalizing t with
  | nil => simp
  | cons a l ih => simp only [List.foldl_cons, List.map_cons, List.sum_cons]; rw [ih]; omega

theorem sumI_map_range_change (n a : Nat) (f f' : Nat → Int) (ha : a < n) (h : ∀ k, k ≠ a → f' k = f k) :
    ((List.range n).map f').sum + f a = ((List.range n).map f).sum + f' a := by
  induction n with
  | zero => omega
  | succ n ih =>
    rw [List.range_succ, List.map_append, List.map_append, List.sum_append, List.sum_append]
    simp only [List.map_cons, List.map_nil, List.sum_cons, List.sum_nil]
    by_cases han : a = n
    · subst han
      have : (List.range a).map f' = (List.range a).map f := by
        apply List.map_congr_left; intro k hk
        have : k < a := List.mem_range.1 hk
        exact h k (by omega)
      rw [this]; omega
    · have := ih (by omega)
      have hn : f' n = f n := h n (fun e => han e.symm)
      rw [hn]; omega

/-- one step of the weighted duplicate removal -/
def wdStep (m : WG) (i : Nat) : WG :=
  ⟨ddStep m.g i, (dedupR [] (m.g.nb i)).foldl (fun t j => t - m.g.labD (i, j)) m.total⟩

theorem wdedup_eq (m : WG) : m.dRemoveDuplicateEdges = (List.range m.g.size).foldl wdStep m := rfl

theorem wdStep_g (m : WG) (i : Nat) : (wdStep m i).g = ddStep m.g i := rfl

theorem foldl_wdStep_g (is : List Nat) (m : WG) : (is.foldl wdStep m).g = is.foldl ddStep m.g := by
  induction is generalizing m with
  | nil => rfl
  | cons i is ih => simp only [List.foldl_cons]; rw [ih]; rfl

theorem labD_ddStep (g : G Int) (i : Nat) (e : Edge) : (ddStep g i).labD e = g.labD e := rfl

theorem entrySum_ddStep (g : G Int) (i : Nat) (hi : i < g.size) :
    entrySum (ddStep g i) + ((dedupR [] (g.nb i)).map (fun j => g.labD (i, j))).sum = entrySum g := by
  simp only [entrySum]
  have hsz : (ddStep g i).size = g.size := rfl
  rw [hsz]
  have hrow : ∀ k, ((ddStep g i).nb k).map (fun j => (ddStep g i).labD (k, j))
      = (if i = k then dedupK [] (g.nb k) else g.nb k).map (fun j => g.labD (k, j)) := by
    intro k; rw [nb_ddStep]; rfl
  have hch := sumI_map_range_change g.size i
    (fun k => ((g.nb k).map (fun j => g.labD (k, j))).sum)
    (fun k => (((ddStep g i).nb k).map (fun j => (ddStep g i).labD (k, j))).sum) hi (by
      intro k hk
      have hne : ¬ i = k := fun e => hk e.symm
      simp only [hrow, hne, if_false])
  simp only [hrow, if_true] at hch
  have hp := sumI_partition_dedup (fun j => g.labD (i, j)) [] (g.nb i)
  simp only [hrow]
  omega

theorem wdStep_total (m : WG) (i : Nat) (hi : i < m.g.size) (ht : m.total = entrySum m.g) :
    (wdStep m i).total = entrySum (wdStep m i).g := by
  simp only [wdStep, foldl_sub_eq]
  have := entrySum_ddStep m.g i hi
  omega

theorem foldl_wdStep_total (is : List Nat) (m : WG) (his : ∀ i ∈ is, i < m.g.size) (ht : m.total = entrySum m.g) :
    (is.foldl wdStep m).total = entrySum (is.foldl wdStep m).g := by
  induction is generalizing m with
  | nil => exact ht
  | cons i is ih =>
    simp only [List.foldl_cons]
    exact ih _ (fun k hk => his k (by simp [hk])) (wdStep_total m i (his i (by simp)) ht)

theorem sumI_map_nodup_eq_range (l : List Nat) (n : Nat) (f : Nat → Int) (hn : l.Nodup) (hb : ∀ x ∈ l, x < n)
    (hz : ∀ x, x ∉ l → f x = 0) : (l.map f).sum = ((List.range n).map f).sum := by
  induction l generalizing f with
  | nil =>
    simp only [List.map_nil, List.sum_nil]
    symm; apply sumI_eq_zero_of_forall
    intro y hy
    obtain ⟨x, _, rfl⟩ := List.mem_map.1 hy
    exact hz x (by simp)
  | cons a l ih =>
    have hnot : a ∉ l := (List.nodup_cons.1 hn).1
    have ha : a < n := hb a (by simp)
    simp only [List.map_cons, List.sum_cons]
    have h1 : l.map f = l.map (fun x => if x = a then 0 else f x) := by
      apply List.map_congr_left
      intro x hx
      have : x ≠ a := fun hxa => hnot (hxa ▸ hx)
      simp [this]
    rw [h1, ih (fun x => if x = a then 0 else f x) (List.nodup_cons.1 hn).2 (fun x hx => hb x (by simp [hx]))
      (by
        intro x hx
        by_cases hxa : x = a
        · simp [hxa]
        · simp only [hxa, if_false]; exact hz x (by simp [hxa, hx]))]
    have := sumI_map_ite_eq (List.range n) a (f a) (fun x => if x = a then 0 else f x) List.nodup_range
      (List.mem_range.2 ha) (by simp)
    rw [← this]
    congr 1
    apply List.map_congr_left
    intro x _
    by_cases hxa : x = a
    · simp [hxa]
    · simp [hxa]

/-- in a state with the simple-graph invariant the entry sum is the sum of the label store -/
theorem entrySum_eq_sumI (g : G Int) (hg : Inv g) (hl : g.labelled = true) (hk : KeysNodup g) :
    entrySum g = AMap.sumI g.labels := by
  have := sumI_eq_sqSumI g.size g.labels hk (by
    intro e he
    have hs := (AMap.mem_keys_iff_get? g.labels e).1 he
    obtain ⟨a, b⟩ := e
    rw [hg.lab hl a b] at hs
    exact hg.hasEdgeRaw_lt hs)
  rw [this]
  simp only [entrySum, sqSumI]
  congr 1
  apply List.map_congr_left
  intro i _
  rw [sumI_map_nodup_eq_range (g.nb i) g.size (fun j => g.labD (i, j)) (hg.nodup i) (hg.bound i) (by
    intro x hx
    have he : g.hasEdgeRaw i x = false := by simpa [hasEdgeRaw] using hx
    simp only [labD, hl, if_true]
    rw [get?_none_of_absent' g hg hl i x he]; rfl)]
  congr 1
  apply List.map_congr_left
  intro j _
  simp only [labD, hl, if_true]; rfl

/-- **C16 (weighted, directed).** After `removeDuplicateEdges` on a graph built with forced
insertions whose copies carry one weight per pair: the graph part is the deduplicated labelled
graph, and the invariant of C05 holds again — `totalWeight` is the sum of the weights of the
(now distinct) edges. -/
theorem C16_weighted_removeDuplicateEdges (m : WG) (hf : FInv m.g) (hl : m.g.labelled = true) (hk : KeysNodup m.g)
    (hlab : ∀ i j, (m.g.labels.get? (i, j)).isSome = m.g.hasEdgeRaw i j)
    (ht : m.total = entrySum m.g) :
    m.dRemoveDuplicateEdges.g = m.g.dRemoveDuplicateEdges ∧ WInv m.dRemoveDuplicateEdges := by
  have hg : m.dRemoveDuplicateEdges.g = m.g.dRemoveDuplicateEdges := by
    rw [wdedup_eq, foldl_wdStep_g]; rfl
  have hinv : Inv m.g.dRemoveDuplicateEdges :=
    C16_dedup_restores_inv m.g hf (fun _ => hlab) (fun h => by rw [hl] at h; cases h)
  obtain ⟨e1, e2, _⟩ := foldl_ddStep_labels (List.range m.g.size) m.g
  rw [← dRemoveDuplicateEdges_eq] at e1 e2
  have hl' : m.g.dRemoveDuplicateEdges.labelled = true := by rw [e2]; exact hl
  have hk' : KeysNodup m.g.dRemoveDuplicateEdges := by rw [KeysNodup, e1]; exact hk
  refine ⟨hg, ⟨by rw [hg]; exact hinv, by rw [hg]; exact hl', by rw [KeysNodup, hg]; exact hk', ?_⟩⟩
  have htot := foldl_wdStep_total (List.range m.g.size) m (fun i hi => List.mem_range.1 hi) ht
  rw [← wdedup_eq] at htot
  rw [htot, hg, entrySum_eq_sumI _ hinv hl' hk']

/-- forced insertion of another copy with the pair's weight: one more entry, the total grows by
that weight, the entry sum stays equal to the total -/
theorem C16_weighted_forced_add (m : WG) (hf : FInv m.g) (hl : m.g.labelled = true) (i j : Nat) (w : Int)
    (hi : i < m.g.size) (hj : j < m.g.size) (hw : m.g.hasEdgeRaw i j = true → m.g.labD (i, j) = w)
    (ht : m.total = entrySum m.g) :
    let m' := (m.dAddEdge i j w true).1
    m'.total = m.total + w ∧ m'.total = entrySum m'.g ∧ m'.g.nb i = m.g.nb i ++ [j] := by
  have hr : (m.g.inR i && m.g.inR j) = true := by simp [inR, hi, hj]
  obtain ⟨_, hnb, hother, _, _⟩ := C16_forced_add m.g hf i j w hi hj
  have hstep : (m.dAddEdge i j w true).1 = ⟨(m.g.dAddEdge i j w true).1, m.total + w⟩ := by
    simp [WG.dAddEdge, hr]
  show (m.dAddEdge i j w true).1.total = m.total + w ∧ (m.dAddEdge i j w true).1.total = entrySum (m.dAddEdge i j w true).1.g ∧
    (m.dAddEdge i j w true).1.g.nb i = m.g.nb i ++ [j]
  rw [hstep]
  refine ⟨rfl, ?_, hnb⟩
  -- labels: (i,j) ↦ w, everything else unchanged
  have hlabD : ∀ e, (m.g.dAddEdge i j w true).1.labD e = if e = (i, j) then w else m.g.labD e := by
    intro e
    have hg' : (m.g.dAddEdge i j w true).1 = (((m.g.push i j).withEN (m.g.edgeNumber + 1)).setLab (i, j) w) := by
      simp [G.dAddEdge, hr]
    rw [hg']
    simp only [labD, setLab_labelled, withEN_labelled, push_labelled, hl, if_true]
    rw [setLab_labels_true _ _ _ (by simpa [push] using hl)]
    simp only [withEN_labels, push_labels]
    rw [AMap.get?_insert]
    by_cases he : e = (i, j)
    · simp [he]
    · simp [he]
  have hsz : (m.g.dAddEdge i j w true).1.size = m.g.size := dAddEdge_size _ _ _ _ _
  simp only [entrySum, hsz]
  have hrow : ∀ k, (((m.g.dAddEdge i j w true).1.nb k).map (fun x => (m.g.dAddEdge i j w true).1.labD (k, x))).sum
      = ((m.g.nb k).map (fun x => m.g.labD (k, x))).sum + (if k = i then w else 0) := by
    intro k
    have hmapeq : ∀ l : List Nat, (∀ x ∈ l, m.g.hasEdgeRaw k x = true) →
        l.map (fun x => (m.g.dAddEdge i j w true).1.labD (k, x)) = l.map (fun x => m.g.labD (k, x)) := by
      intro l hlm
      apply List.map_congr_left
      intro x hx
      rw [hlabD]
      by_cases he : (k, x) = (i, j)
      · obtain ⟨rfl, rfl⟩ := Prod.mk.inj he
        simp only [if_true]
        exact (hw (hlm x hx)).symm
      · simp [he]
    by_cases hki : k = i
    · subst hki
      rw [hnb, List.map_append, List.sum_append, hmapeq _ (fun x hx => by simpa [hasEdgeRaw] using hx)]
      simp [hlabD]
    · rw [hother k hki, hmapeq _ (fun x hx => by simpa [hasEdgeRaw] using hx)]
      simp [hki]
  simp only [hrow]
  have hsum := sumI_map_range_change m.g.size i
    (fun k => ((m.g.nb k).map (fun x => m.g.labD (k, x))).sum)
    (fun k => ((m.g.nb k).map (fun x => m.g.labD (k, x))).sum + (if k = i then w else 0)) hi (by
      intro k hk; simp [hk])
  simp only [if_true] at hsum
  rw [ht]; simp only [entrySum]; omega

end BGV
