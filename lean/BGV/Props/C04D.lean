import BGV.Props.C04M
/-!
# Property C04 — directed multigraph: in-degrees and the degree vectors

`getInDegree(v)` sums the (throwing) `getEdgeLabel` over the edges that end in `v`; the vectors
accumulate the multiplicities over `edges()`.  Under the invariant every look-up succeeds, and the
results are the column / row sums of the multiplicity matrix.
-/
set_option linter.unusedSectionVars false
namespace BGV
open G MG

namespace AM
/-- the sum of column `j` -/
def colSum (a : AM) (j : Nat) : Nat := ((List.range a.n).map (fun i => a.mu i j)).sum
end AM

/-- a weighted accumulation over a list of edges, keyed by `key e` -/
theorem foldl_bumpW (n : Nat) (es : List Edge) (key w : Edge → Nat) (hes : ∀ e ∈ es, key e < n)
    (acc : List Nat) (hacc : acc.length = n) :
    (es.foldl (fun acc e => bump acc (key e) (w e)) acc).length = n ∧
    ∀ v, (es.foldl (fun acc e => bump acc (key e) (w e)) acc).getD v 0
      = acc.getD v 0 + ((es.filter (fun e => key e == v)).map w).sum := by
  induction es generalizing acc with
  | nil => exact ⟨hacc, fun v => by simp⟩
  | cons e es ih =>
    have he := hes e (by simp)
    have hlen : (bump acc (key e) (w e)).length = n := by simp [bump, hacc]
    obtain ⟨i1, i2⟩ := ih (fun x hx => hes x (by simp [hx])) _ hlen
    refine ⟨i1, ?_⟩
    intro v
    simp only [List.foldl_cons]
    rw [i2, bump, getD_modify_nat]
    by_cases hv : key e = v
    · subst hv
      simp [List.filter_cons, hacc, he]; omega
    · have : (key e == v) = false := by simpa using hv
      simp [List.filter_cons, this, hv]

/-- the edges ending in `v`, summed, are the column sum (sources are distinct and in range) -/
theorem sum_filter_snd (es : List Edge) (hn : es.Nodup) (n : Nat) (hb : ∀ e ∈ es, e.1 < n) (f : Nat → Nat → Nat) (v : Nat)
    (hz : ∀ i, (i, v) ∉ es → f i v = 0) :
    ((es.filter (fun e => e.2 == v)).map (fun e => f e.1 e.2)).sum = ((List.range n).map (fun i => f i v)).sum := by
  have h1 : (es.filter (fun e => e.2 == v)).map (fun e => f e.1 e.2)
      = ((es.filter (fun e => e.2 == v)).map Prod.fst).map (fun i => f i v) := by
    rw [List.map_map]
    apply List.map_congr_left
    intro e he
    have := (List.mem_filter.1 he).2
    simp only [beq_iff_eq] at this
    simp [this]
  rw [h1]
  apply sum_map_nodup_eq_range
  · -- distinct sources
    clear hz hb h1
    induction es with
    | nil => simp
    | cons e es ih =>
      have hn' := List.nodup_cons.1 hn
      simp only [List.filter_cons]
      split
      · rename_i hc
        simp only [beq_iff_eq] at hc
        simp only [List.map_cons, List.nodup_cons]
        refine ⟨?_, ih hn'.2⟩
        intro hm
        obtain ⟨x, hx, hx1⟩ := List.mem_map.1 hm
        have hx2 := (List.mem_filter.1 hx)
        simp only [beq_iff_eq] at hx2
        exact hn'.1 (by
          have : x = e := Prod.ext hx1 (by rw [hx2.2, hc])
          rw [← this]; exact hx2.1)
      · exact ih hn'.2
  · intro x hx
    obtain ⟨e, he, rfl⟩ := List.mem_map.1 hx
    exact hb e (List.mem_filter.1 he).1
  · intro x hx
    apply hz
    intro hm
    exact hx (List.mem_map.2 ⟨(x, v), List.mem_filter.2 ⟨hm, by simp⟩, rfl⟩)

/-- the edges leaving `v`, summed, are the row sum -/
theorem sum_filter_fst (es : List Edge) (hn : es.Nodup) (n : Nat) (hb : ∀ e ∈ es, e.2 < n) (f : Nat → Nat → Nat) (v : Nat)
    (hz : ∀ j, (v, j) ∉ es → f v j = 0) :
    ((es.filter (fun e => e.1 == v)).map (fun e => f e.1 e.2)).sum = ((List.range n).map (fun j => f v j)).sum := by
  have h1 : (es.filter (fun e => e.1 == v)).map (fun e => f e.1 e.2)
      = ((es.filter (fun e => e.1 == v)).map Prod.snd).map (fun j => f v j) := by
    rw [List.map_map]
    apply List.map_congr_left
    intro e he
    have := (List.mem_filter.1 he).2
    simp only [beq_iff_eq] at this
    simp [this]
  rw [h1]
  apply sum_map_nodup_eq_range
  · clear hz hb h1
    induction es with
    | nil => simp
    | cons e es ih =>
      have hn' := List.nodup_cons.1 hn
      simp only [List.filter_cons]
      split
      · rename_i hc
        simp only [beq_iff_eq] at hc
        simp only [List.map_cons, List.nodup_cons]
        refine ⟨?_, ih hn'.2⟩
        intro hm
        obtain ⟨x, hx, hx1⟩ := List.mem_map.1 hm
        have hx2 := (List.mem_filter.1 hx)
        simp only [beq_iff_eq] at hx2
        exact hn'.1 (by
          have : x = e := Prod.ext (by rw [hx2.2, hc]) hx1
          rw [← this]; exact hx2.1)
      · exact ih hn'.2
  · intro x hx
    obtain ⟨e, he, rfl⟩ := List.mem_map.1 hx
    exact hb e (List.mem_filter.1 he).1
  · intro x hx
    apply hz
    intro hm
    exact hx (List.mem_map.2 ⟨(v, x), List.mem_filter.2 ⟨hm, by simp⟩, rfl⟩)

/-- under the invariant the throwing look-up of an existing edge succeeds with its multiplicity -/
theorem getEdgeLabel_of_edge (m : MG) (h : MInv m) (e : Edge) (he : m.g.hasEdgeRaw e.1 e.2 = true) :
    m.g.dGetEdgeLabel e.1 e.2 true = .ok (cur m.g e) := by
  obtain ⟨h1, h2⟩ := h.base.hasEdgeRaw_lt he
  have hl := h.base.lab h.lbl e.1 e.2
  rw [he] at hl
  simp only [dGetEdgeLabel, inR, h1, h2, decide_true, Bool.and_self, if_true, getLab, h.lbl, cur]
  cases hg : m.g.labels.get? (e.1, e.2) with
  | none => rw [hg] at hl; simp at hl
  | some l => simp [hg]

theorem foldl_res_sum (m : MG) (h : MInv m) (es : List Edge) (hes : ∀ e ∈ es, m.g.hasEdgeRaw e.1 e.2 = true) (a : Nat) :
    es.foldl (fun (r : Res Nat) e => r.bind (fun acc => (m.g.dGetEdgeLabel e.1 e.2 true).map (fun c => acc + c))) (Res.ok a)
      = Res.ok (a + (es.map (cur m.g)).sum) := by
  induction es generalizing a with
  | nil => simp
  | cons e es ih =>
    rw [List.foldl_cons]
    have h1 : (Res.ok a : Res Nat).bind (fun acc => (m.g.dGetEdgeLabel e.1 e.2 true).map (fun c => acc + c))
        = Res.ok (a + cur m.g e) := by
      rw [getEdgeLabel_of_edge m h e (hes e (by simp))]; rfl
    rw [h1, ih (fun x hx => hes x (by simp [hx]))]
    simp [Nat.add_assoc]

theorem foldl_res_bump (m : MG) (h : MInv m) (es : List Edge) (hes : ∀ e ∈ es, m.g.hasEdgeRaw e.1 e.2 = true) (a : List Nat) :
    es.foldl (fun (r : Res (List Nat)) e => r.bind (fun acc => (m.g.dGetEdgeLabel e.1 e.2 true).map (fun c => bump acc e.2 c))) (Res.ok a)
      = Res.ok (es.foldl (fun acc e => bump acc e.2 (cur m.g e)) a) := by
  induction es generalizing a with
  | nil => simp
  | cons e es ih =>
    rw [List.foldl_cons]
    have h1 : (Res.ok a : Res (List Nat)).bind (fun acc => (m.g.dGetEdgeLabel e.1 e.2 true).map (fun c => bump acc e.2 c))
        = Res.ok (bump a e.2 (cur m.g e)) := by
      rw [getEdgeLabel_of_edge m h e (hes e (by simp))]; rfl
    rw [h1, ih (fun x hx => hes x (by simp [hx]))]
    rfl

/-- **C04 (directed): getInDegree.** the multiplicity-weighted count of the edges ending in `v`:
the sum of column `v` of the multiplicity matrix -/
theorem C04_dir_inDegree (m : MG) (h : MInv m) (v : Nat) (hv : v < m.g.size) :
    m.dGetInDegree v = .ok ((absM m).colSum v) := by
  have hr : m.g.inR v = true := by simp [inR, hv]
  have hmem : ∀ e ∈ m.g.dEdges, m.g.hasEdgeRaw e.1 e.2 = true := by
    intro e he; rw [dEdges_eq m.g h.base.len] at he; exact (mem_edgeSeq_iff m.g h.base e).1 he
  simp only [MG.dGetInDegree, hr, Bool.not_true, Bool.false_eq_true, if_false]
  rw [foldl_res_sum m h _ (fun e he => hmem e (List.mem_filter.1 he).1)]
  congr 1
  rw [Nat.zero_add]
  have hnd : m.g.dEdges.Nodup := C08_dEdges_nodup m.g h.base
  have := sum_filter_snd m.g.dEdges hnd m.g.size (fun e he => (h.base.hasEdgeRaw_lt (hmem e he)).1)
    (fun i j => cur m.g (i, j)) v (by
      intro i hi
      apply (mult_eq_zero_iff m h i v).2
      cases hh : m.g.hasEdgeRaw i v with
      | false => rfl
      | true =>
        exfalso; apply hi
        rw [dEdges_eq m.g h.base.len]; exact (mem_edgeSeq_iff m.g h.base (i, v)).2 hh)
  exact this

/-- **C04 (directed): getInDegrees / getOutDegrees.** one entry per vertex, equal to
`getInDegree(v)` / `getOutDegree(v)` -/
theorem C04_dir_degree_vectors (m : MG) (h : MInv m) :
    (∃ l, m.dGetInDegrees = .ok l ∧ l.length = m.g.size ∧ ∀ v, v < m.g.size → l.getD v 0 = (absM m).colSum v) ∧
    (∃ l, m.dGetOutDegrees = .ok l ∧ l.length = m.g.size ∧ ∀ v, v < m.g.size → l.getD v 0 = (absM m).rowSum v) := by
  have hall := allInR_of_inv m.g h.base
  have hmem : ∀ e ∈ m.g.dEdges, m.g.hasEdgeRaw e.1 e.2 = true := by
    intro e he; rw [dEdges_eq m.g h.base.len] at he; exact (mem_edgeSeq_iff m.g h.base e).1 he
  have hnd : m.g.dEdges.Nodup := C08_dEdges_nodup m.g h.base
  have hzero : ∀ i j, (i, j) ∉ m.g.dEdges → cur m.g (i, j) = 0 := by
    intro i j hi
    apply (mult_eq_zero_iff m h i j).2
    cases hh : m.g.hasEdgeRaw i j with
    | false => rfl
    | true =>
      exfalso; apply hi
      rw [dEdges_eq m.g h.base.len]; exact (mem_edgeSeq_iff m.g h.base (i, j)).2 hh
  constructor
  · obtain ⟨h1, h2⟩ := foldl_bumpW m.g.size m.g.dEdges (fun e => e.2) (cur m.g)
      (fun e he => (h.base.hasEdgeRaw_lt (hmem e he)).2) (List.replicate m.g.size 0) (by simp)
    refine ⟨_, by simp only [MG.dGetInDegrees, hall, Bool.not_true, Bool.false_eq_true, if_false]; exact foldl_res_bump m h _ hmem _, h1, ?_⟩
    intro v hv
    rw [h2]
    have := sum_filter_snd m.g.dEdges hnd m.g.size (fun e he => (h.base.hasEdgeRaw_lt (hmem e he)).1)
      (fun i j => cur m.g (i, j)) v (fun i hi => hzero i v hi)
    simp only [List.getD_eq_getElem?_getD, List.getElem?_replicate, hv, if_true, Option.getD_some, Nat.zero_add]
    exact this
  · obtain ⟨h1, h2⟩ := foldl_bumpW m.g.size m.g.dEdges (fun e => e.1) (cur m.g)
      (fun e he => (h.base.hasEdgeRaw_lt (hmem e he)).1) (List.replicate m.g.size 0) (by simp)
    refine ⟨_, by simp only [MG.dGetOutDegrees, hall, if_true], h1, ?_⟩
    intro v hv
    rw [h2]
    have := sum_filter_fst m.g.dEdges hnd m.g.size (fun e he => (h.base.hasEdgeRaw_lt (hmem e he)).2)
      (fun i j => cur m.g (i, j)) v (fun j hj => hzero v j hj)
    simp only [List.getD_eq_getElem?_getD, List.getElem?_replicate, hv, if_true, Option.getD_some, Nat.zero_add]
    exact this

/-- not vacuous: a history with parallel edges and a self-loop -/
example :
    let m := (MG.new 3).dRun [.addMultiedge 0 1 3, .addMultiedge 2 1 2, .addMultiedge 1 1 4, .addMultiedge 1 0 1]
    m.dGetInDegree 1 = .ok 9 ∧ m.dGetInDegrees = .ok [1, 9, 0] ∧ m.dGetOutDegrees = .ok [3, 5, 2] := by decide

end BGV
