import BGV.Props.C11
import BGV.Algo.MultiPath5
/-!
# Property C19 — the cost of enumerating all shortest paths is output-sensitive

C19 bounds the *searches*; the number of shortest paths can be exponential, so the enumeration
`findMultiplePathsToVertexFromPredecessors` cannot be polynomial in the graph.  What holds, and is
proved here, is that it is linear in its output: the two-stack machine returns after at most
`V × (number of paths) + 1` steps — each step pops one stack entry.
-/
namespace BGV
open Bfs

/-- **C19, findAllGeodesics:** for a reachable destination other than the source the two-stack
machine, started as `findMultiplePathsToVertexFromPredecessors` starts it on the result of
`findAllVertexPredecessors`, returns the result of `findAllGeodesics` within
`V × |result| + 1` steps (and the result is not empty). -/
theorem C19_findAllGeodesics_steps {L : Type} (g : G L) (s t : Nat) (hs : s < g.size) (ht : t < g.size)
    (hwf : adjWF g.adj = true) (hlen : g.adj.length = g.size) (hn : g.size < MAX)
    (hst : s ≠ t) (hrt : Reachable g.adj s t) :
    ∃ Ls, findAllGeodesics g s t = .ok Ls ∧ 1 ≤ Ls.length ∧
      multiLoop (allPredRun g.adj s).preds s t (g.size * Ls.length + 1)
        ((((allPredRun g.adj s).preds.getD t []).map (fun p => (p, ([] : List Nat)))).reverse) [] = some (.ok Ls) := by
  have hWF : WF g.adj := (adjWF_iff g.adj).1 hwf
  have hs' : s < g.adj.length := by rw [hlen]; exact hs
  have hn' : g.adj.length < MAX := by rw [hlen]; exact hn
  obtain ⟨hinv, hq⟩ := AllPred.final_inv g.adj s hWF hs' hn'
  obtain ⟨f1, f2, f3, f4, f5⟩ := AllPred.final_of_inv hinv hq
  obtain ⟨r, hrdef⟩ : ∃ r, r = (AllPred.loop g.adj (2 * g.adj.length + 1) (AllPred.init g.adj.length s) []).1 := ⟨_, rfl⟩
  rw [← hrdef] at hinv hq f1 f2 f3 f4 f5
  have hrun : allPredRun g.adj s = ⟨r.dist, r.preds, (AllPred.loop g.adj (2 * g.adj.length + 1) (AllPred.init g.adj.length s) []).2⟩ := by
    rw [hrdef]; rfl
  have hfap : findAllVertexPredecessors g s = .ok (allPredRun g.adj s) := by
    simp [findAllVertexPredecessors, hs, hwf]
  have hr : (decide (s < g.size) && decide (t < g.size)) = true := by simp [hs, ht]
  have htfin : r.d t ≠ MAX := (f1 t _ hrt.choose_spec).1
  have hdist : (allPredRun g.adj s).dist.getD t MAX ≠ MAX := by rw [hrun]; exact htfin
  have hPS : MultiPath.PS r.preds s (fun v => r.d v ≠ MAX) r.d := by
    refine ⟨?_, ⟨by rw [hinv.src.1]; decide, hinv.src.2.2.1⟩, ?_, ?_⟩
    · intro c hc
      have := hinv.seenlt c hc
      simp [List.getD_eq_getElem?_getD, hinv.sized.hp, this]
    · intro c hc hcs; exact hinv.tree c hc hcs
    · intro c _ p hp
      obtain ⟨p1, _, p3⟩ := hinv.pvalid c p hp
      exact ⟨p1, by omega⟩
  have hgett : r.preds[t]? = some (r.preds.getD t []) := hPS.get t htfin
  have hstack_ok : ∀ e ∈ ((r.preds.getD t []).map (fun p => (p, ([] : List Nat)))).reverse, r.d e.1 ≠ MAX := by
    intro e he
    simp only [List.mem_reverse, List.mem_map] at he
    obtain ⟨p, hp, rfl⟩ := he
    exact (hinv.pvalid t p hp).1
  have hrk : ∀ e ∈ ((r.preds.getD t []).map (fun p => (p, ([] : List Nat)))).reverse, r.d e.1 ≤ g.size - 1 := by
    intro e he
    have := AllPred.dist_lt_n hinv e.1 (hstack_ok e he)
    rw [hlen] at this
    omega
  -- the budget of the model never binds (as in C11) …
  have hsteps : MultiPath.stackCnt r.preds s r.d (((r.preds.getD t []).map (fun p => (p, ([] : List Nat)))).reverse)
      < multiFuel r.preds.length := by
    have hlenp : ∀ c, (r.preds.getD c []).length ≤ g.adj.length := fun c =>
      pigeon _ _ (hinv.pnodup c) (fun p hp => hinv.seenlt p (hinv.pvalid c p hp).1)
    have hrk' : ∀ e ∈ ((r.preds.getD t []).map (fun p => (p, ([] : List Nat)))).reverse, r.d e.1 ≤ g.adj.length := by
      intro e he; have := hrk e he; rw [hlen]; omega
    have h1 := MultiPath.stackCnt_le r.preds s g.adj.length g.adj.length r.d hlenp _ hrk'
    have h2 : (((r.preds.getD t []).map (fun p => (p, ([] : List Nat)))).reverse).length ≤ g.adj.length := by
      simp only [List.length_reverse, List.length_map]; exact hlenp t
    have h3 := MultiPath.fuel_enough g.adj.length _ h2
    rw [hinv.sized.hp]
    unfold multiFuel
    omega
  have hrunm := MultiPath.multiLoop_spec (t := t) hPS (multiFuel r.preds.length) _ [] hstack_ok hsteps
  -- … and the output-sensitive one suffices
  have hout := MultiPath.stackCnt_le_enum (t := t) hPS (g.size - 1) _ hstack_ok hrk
  have hsz : g.size - 1 + 1 = g.size := by omega
  rw [hsz] at hout
  have hrun2 := MultiPath.multiLoop_spec (t := t) hPS
    (g.size * (MultiPath.stackEnum r.preds s t r.d (((r.preds.getD t []).map (fun p => (p, ([] : List Nat)))).reverse)).length + 1)
    _ [] hstack_ok (by omega)
  refine ⟨MultiPath.stackEnum r.preds s t r.d (((r.preds.getD t []).map (fun p => (p, ([] : List Nat)))).reverse), ?_, ?_, ?_⟩
  · simp only [findAllGeodesics, hr, Bool.not_true, Bool.false_eq_true, if_false, hst, hfap, Res.bind,
      hdist, ne_eq, not_false_eq_true, if_true, findMultiplePathsFromPredecessors]
    rw [hrun]
    simp only [hgett, hrunm, List.nil_append]
  · -- t ≠ s has a predecessor, and every entry emits a path
    have hne : r.preds.getD t [] ≠ [] := hinv.tree t htfin (fun e => hst e.symm)
    cases hp : r.preds.getD t [] with
    | nil => exact absurd hp hne
    | cons p ps =>
      have hpm : p ∈ r.preds.getD t [] := by rw [hp]; simp
      have hpok : r.d p ≠ MAX := (hinv.pvalid t p hpm).1
      have := (MultiPath.cnt_le_enum (t := t) hPS (r.d p) p [] hpok (Nat.le_refl _)).1
      simp only [MultiPath.stackEnum, List.map_cons, List.reverse_cons, List.flatMap_append, List.flatMap_cons,
        List.flatMap_nil, List.append_nil, List.length_append]
      omega
  · rw [hrun]
    simpa using hrun2

example : multiLoop [[], [0], [0], [1, 2], []] 0 3 (5 * 2 + 1) [(2, []), (1, [])] [] = some (.ok [[0, 2, 3], [0, 1, 3]]) := by
  decide

end BGV
