import BGV.Props.C12
import BGV.Props.C19
/-!
# Property C12, last sentence — the search terminates on graphs with zero-weight edges and cycles

The model's Dijkstra takes the pop order as an oracle (`pops`); "terminates" means that every
accepted pop sequence in which each pop was a minimum of the worklist is *bounded* by a number that
depends on the graph only — no hypothesis on the weights beyond being naturals (zero allowed), none
on the absence of cycles.
-/
namespace BGV
open Bfs Dij

/-- **C12, termination:** at most `E + 1` pops, zero weights and cycles included; together with
`C12_dijkstra_correct` the result after those pops is the correct one. -/
theorem C12_terminates (adj : Adj) (wt : Nat → Nat → Nat) (s : Nat) (pops : List Nat)
    (hwf : WF adj) (hs : s < adj.length) (r : DS × Bool)
    (hr : DijRun.run wt adj pops (DijRun.init adj.length s) true = some r) (hmin : r.2 = true) :
    pops.length ≤ edgeCount adj + 1 ∧
    (∀ v dv, r.1.d v = some dv → WalkW adj wt s v dv ∧ ∀ k, WalkW adj wt s v k → dv ≤ k) :=
  ⟨C19_dijkstra_scans adj wt s pops hwf hs r hr hmin,
   fun v dv h => C12_distance_is_minimum adj wt s pops hwf hs r hr v dv h⟩

/-- non-vacuity: a zero-weight 2-cycle, accepted with every pop a minimum -/
example : (DijRun.run (fun _ _ => 0) [[1], [0]] [0, 1] (DijRun.init 2 0) true).map
    (fun r => (r.1.dist, r.2)) = some ([some 0, some 0], true) := by decide

end BGV
