import BGV.Props.C16W
import BGV.Props.C16U
import BGV.Props.C04
/-!
# Property C16 — `DirectedMultigraph`: `removeDuplicateEdges` after forced insertions

Each erased copy subtracts the pair's stored multiplicity from `totalEdgeNumber`.  If the total
was the sum of the stored multiplicity over every list entry (one term per copy), the graph after
`removeDuplicateEdges` satisfies the invariant of C04 again.
-/
set_option linter.unusedSectionVars false
namespace BGV
open G MG

def entrySumN (g : G Nat) : Nat :=
  ((List.range g.size).map (fun i => ((g.nb i).map (fun j => g.labD (i, j))).sum)).sum

theorem sumN_partition_dedup (f : Nat → Nat) (seen l : List Nat) :
    ((dedupK seen l).map f).sum + ((dedupR seen l).map f).sum = (l.map f).sum := by
  induction l generalizing seen with
  | nil => simp [dedupK, dedupR]
  | cons y ys ih =>
    by_cases hy : seen.contains y = true
    · simp only [dedupK, dedupR, hy, if_true, List.map_cons, List.sum_cons]
      have := ih seen; omega
    · have hy' : seen.contains y = false := by simpa using hy
      simp only [dedupK, dedupR, hy', Bool.false_eq_true, if_false, List.map_cons, List.sum_cons]
      have := ih (y :: seen); omega

theorem foldl_subW_eq (f : Nat → Nat) (l : List Nat) (t : Nat) (h : (l.map f).sum ≤ t) :
    l.foldl (fun t j => subW t (f j)) t = t - (l.map f).sum := by
  induction l generalizing t with
  | nil => simp
  | cons a l ih =>
    simp only [List.map_cons, List.sum_cons] at h
    simp only [List.foldl_cons, List.map_cons, List.sum_cons]
    rw [subW_of_le (by omega), ih _ (by omega)]; omega

def mdStep (m : MG) (i : Nat) : MG :=
  ⟨ddStep m.g i, (dedupR [] (m.g.nb i)).foldl (fun t j => subW t (m.g.labD (i, j))) m.total⟩

theorem mdedup_eq (m : MG) : m.dRemoveDuplicateEdges = (List.range m.g.size).foldl mdStep m := rfl

theorem foldl_mdStep_g (is : List Nat) (m : MG) : (is.foldl mdStep m).g = is.foldl ddStep m.g := by
  induction is generalizing m with
  | nil => rfl
  | cons i is ih => simp only [List.foldl_cons]; rw [ih]; rfl

theorem entrySumN_ddStep (g : G Nat) (i : Nat) (hi : i < g.size) :
    entrySumN (ddStep g i) + ((dedupR [] (g.nb i)).map (fun j => g.labD (i, j))).sum = entrySumN g := by
  simp only [entrySumN]
  have hsz : (ddStep g i).size = g.size := rfl
  rw [hsz]
  have hrow : ∀ k, ((ddStep g i).nb k).map (fun j => (ddStep g i).labD (k, j))
      = (if i = k then dedupK [] (g.nb k) else g.nb k).map (fun j => g.labD (k, j)) := by
    intro k; rw [nb_ddStep]; rfl
  have hp := sumN_partition_dedup (fun j => g.labD (i, j)) [] (g.nb i)
  have hc := sum_map_cnt_change g.size i
    (fun k => ((g.nb k).map (fun j => g.labD (k, j))).sum)
    (fun k => (((ddStep g i).nb k).map (fun j => (ddStep g i).labD (k, j))).sum)
    (((dedupR [] (g.nb i)).map (fun j => g.labD (i, j))).sum) hi (by
      intro k
      simp only [hrow]
      by_cases hik : i = k
      · subst hik; simp only [if_true]; omega
      · simp only [hik, if_false]; omega)
  exact hc

theorem mdStep_total (m : MG) (i : Nat) (hi : i < m.g.size) (ht : m.total = entrySumN m.g) :
    (mdStep m i).total = entrySumN (mdStep m i).g := by
  have h1 := entrySumN_ddStep m.g i hi
  simp only [mdStep]
  rw [foldl_subW_eq _ _ _ (by omega)]
  omega

theorem foldl_mdStep_total (is : List Nat) (m : MG) (his : ∀ i ∈ is, i < m.g.size) (ht : m.total = entrySumN m.g) :
    (is.foldl mdStep m).total = entrySumN (is.foldl mdStep m).g := by
  induction is generalizing m with
  | nil => exact ht
  | cons i is ih =>
    simp only [List.foldl_cons]
    exact ih _ (fun k hk => his k (by simp [hk])) (mdStep_total m i (his i (by simp)) ht)

theorem entrySumN_eq_sumVals (g : G Nat) (hg : Inv g) (hl : g.labelled = true) (hk : KeysNodup g) :
    entrySumN g = AMap.sumVals g.labels := by
  have := sumVals_eq_sqSum g.size g.labels hk (by
    intro e he
    have hs := (AMap.mem_keys_iff_get? g.labels e).1 he
    obtain ⟨a, b⟩ := e
    rw [hg.lab hl a b] at hs
    exact hg.hasEdgeRaw_lt hs)
  rw [this]
  simp only [entrySumN, sqSum]
  congr 1
  apply List.map_congr_left
  intro i _
  rw [sum_map_nodup_eq_range (g.nb i) g.size (fun j => g.labD (i, j)) (hg.nodup i) (hg.bound i) (by
    intro x hx
    have he : g.hasEdgeRaw i x = false := by simpa [hasEdgeRaw] using hx
    simp only [labD, hl, if_true]
    rw [get?_none_of_absent' g hg hl i x he]; rfl)]
  congr 1
  apply List.map_congr_left
  intro j _
  simp only [labD, hl, if_true]; rfl

/-- **C16 (directed multigraph).** After `removeDuplicateEdges`: the graph part is the
deduplicated labelled graph, every stored multiplicity is positive, and `getTotalEdgeNumber` is
the sum of the multiplicities of the (now distinct) pairs — the invariant of C04. -/
theorem C16_multi_removeDuplicateEdges (m : MG) (hf : FInv m.g) (hl : m.g.labelled = true) (hk : KeysNodup m.g)
    (hlab : ∀ i j, (m.g.labels.get? (i, j)).isSome = m.g.hasEdgeRaw i j)
    (hpos : ∀ e v, m.g.labels.get? e = some v → 0 < v)
    (ht : m.total = entrySumN m.g) :
    m.dRemoveDuplicateEdges.g = m.g.dRemoveDuplicateEdges ∧ MInv m.dRemoveDuplicateEdges := by
  have hg : m.dRemoveDuplicateEdges.g = m.g.dRemoveDuplicateEdges := by
    rw [mdedup_eq, foldl_mdStep_g]; rfl
  have hinv : Inv m.g.dRemoveDuplicateEdges :=
    C16_dedup_restores_inv m.g hf (fun _ => hlab) (fun h => by rw [hl] at h; cases h)
  obtain ⟨e1, e2, _⟩ := foldl_ddStep_labels (List.range m.g.size) m.g
  rw [← dRemoveDuplicateEdges_eq] at e1 e2
  have hl' : m.g.dRemoveDuplicateEdges.labelled = true := by rw [e2]; exact hl
  have hk' : KeysNodup m.g.dRemoveDuplicateEdges := by rw [KeysNodup, e1]; exact hk
  refine ⟨hg, ⟨by rw [hg]; exact hinv, by rw [hg]; exact hl', by rw [KeysNodup, hg]; exact hk', ?_, ?_⟩⟩
  · intro e v hv; rw [hg, e1] at hv; exact hpos e v hv
  · have htot := foldl_mdStep_total (List.range m.g.size) m (fun i hi => List.mem_range.1 hi) ht
    rw [← mdedup_eq] at htot
    rw [htot, hg, entrySumN_eq_sumVals _ hinv hl' hk']

end BGV
