import BGV.Props.C03
import BGV.Model.Multi
import BGV.Model.Weighted
import BGV.Model.Topology
/-!
# Property C07 — invalid calls are rejected with the documented exception and change nothing

For every entry point of the eight classes that takes a vertex index: if some index argument is
`≥ size`, the model returns *literally the same state* and `threw out_of_range`, for every flag
combination (including `force = true`).  `resize` to fewer vertices, `setEdgeLabel` /
`getEdgeLabel` / `getEdgeWeight` on a missing edge give `threw invalid_argument`.
The model is tied to the C++ by the sanitizer-backed correspondence (invalid-call stream).
-/
set_option linter.unusedSectionVars false
namespace BGV
open G
variable {L : Type} [Inhabited L]

theorem inR_pair_false (g : G L) (i j : Nat) (h : ¬ (i < g.size ∧ j < g.size)) :
    (g.inR i && g.inR j) = false := by
  simp only [inR, Bool.and_eq_false_iff, decide_eq_false_iff_not]
  by_cases hi : i < g.size
  · right; exact fun hj => h ⟨hi, hj⟩
  · left; exact hi

theorem inR_false (g : G L) (v : Nat) (h : ¬ v < g.size) : g.inR v = false := by simp [inR, h]

/-! ## LabeledDirectedGraph -/
theorem C07_dAddEdge (g : G L) (i j : Nat) (l : L) (force : Bool) (h : ¬ (i < g.size ∧ j < g.size)) :
    g.dAddEdge i j l force = (g, .threw .oor) := dAddEdge_oor g i j l force h

theorem C07_dAddReciprocalEdge (g : G L) (i j : Nat) (l : L) (force : Bool) (h : ¬ (i < g.size ∧ j < g.size)) :
    g.dAddReciprocalEdge i j l force = (g, .threw .oor) := by
  simp [dAddReciprocalEdge, dAddEdge_oor g i j l force h]

theorem C07_dRemoveEdge (g : G L) (i j : Nat) (h : ¬ (i < g.size ∧ j < g.size)) :
    g.dRemoveEdge i j = (g, .threw .oor) := by
  simp [dRemoveEdge, inR_pair_false g i j h]

theorem C07_dSetEdgeLabel (g : G L) (i j : Nat) (l : L) (force : Bool) (h : ¬ (i < g.size ∧ j < g.size)) :
    g.dSetEdgeLabel i j l force = (g, .threw .oor) := by
  simp [dSetEdgeLabel, inR_pair_false g i j h]

theorem C07_dRemoveVertex (g : G L) (v : Nat) (h : ¬ v < g.size) : g.dRemoveVertex v = (g, .threw .oor) :=
  dRemoveVertex_oor g v h

theorem C07_dHasEdge (g : G L) (i j : Nat) (h : ¬ (i < g.size ∧ j < g.size)) : g.dHasEdge i j = .threw .oor := by
  simp [dHasEdge, inR_pair_false g i j h]

theorem C07_dHasEdgeL [DecidableEq L] (g : G L) (i j : Nat) (l : L) (h : ¬ (i < g.size ∧ j < g.size)) :
    g.dHasEdgeL i j l = .threw .oor := by
  simp [dHasEdgeL, C07_dHasEdge g i j h]

theorem C07_dGetEdgeLabel (g : G L) (i j : Nat) (t : Bool) (h : ¬ (i < g.size ∧ j < g.size)) :
    g.dGetEdgeLabel i j t = .threw .oor := by
  simp [dGetEdgeLabel, inR_pair_false g i j h]

theorem C07_getOutNeighbours (g : G L) (v : Nat) (h : ¬ v < g.size) : g.getOutNeighbours v = .threw .oor := by
  simp [getOutNeighbours, inR_false g v h]

theorem C07_dGetInDegree (g : G L) (v : Nat) (h : ¬ v < g.size) : g.dGetInDegree v = .threw .oor := by
  simp [dGetInDegree, inR_false g v h]

theorem C07_dGetOutDegree (g : G L) (v : Nat) (h : ¬ v < g.size) : g.dGetOutDegree v = .threw .oor := by
  simp [dGetOutDegree, inR_false g v h]

theorem C07_resize_smaller (g : G L) (n : Nat) (h : n < g.size) : g.resize n = (g, .threw .inv) := by
  simp [resize, h]

theorem C07_dSetEdgeLabel_missing (g : G L) (i j : Nat) (l : L) (hi : i < g.size) (hj : j < g.size)
    (he : g.hasEdgeRaw i j = false) : g.dSetEdgeLabel i j l false = (g, .threw .inv) := by
  simp [dSetEdgeLabel, inR, hi, hj, he]

theorem C07_dGetEdgeLabel_missing (g : G L) (hg : Inv g) (hl : g.labelled = true) (i j : Nat)
    (hi : i < g.size) (hj : j < g.size) (he : g.hasEdgeRaw i j = false) :
    g.dGetEdgeLabel i j true = .threw .inv := by
  rw [C03_getEdgeLabel g hg hl i j hi hj true]
  simp [absD, he]

/-! ## LabeledUndirectedGraph -/
theorem C07_uAddEdge (g : G L) (i j : Nat) (l : L) (force : Bool) (h : ¬ (i < g.size ∧ j < g.size)) :
    g.uAddEdge i j l force = (g, .threw .oor) := by
  simp [uAddEdge, inR_pair_false g i j h]

theorem C07_uRemoveEdge (g : G L) (i j : Nat) (h : ¬ (i < g.size ∧ j < g.size)) :
    g.uRemoveEdge i j = (g, .threw .oor) := by
  simp [uRemoveEdge, inR_pair_false g i j h]

theorem C07_uSetEdgeLabel (g : G L) (i j : Nat) (l : L) (force : Bool) (h : ¬ (i < g.size ∧ j < g.size)) :
    g.uSetEdgeLabel i j l force = (g, .threw .oor) := by
  simp [uSetEdgeLabel, inR_pair_false g i j h]

theorem C07_uRemoveVertex (g : G L) (v : Nat) (h : ¬ v < g.size) : g.uRemoveVertex v = (g, .threw .oor) := by
  simp [uRemoveVertex, inR_false g v h]

theorem C07_uHasEdge (g : G L) (i j : Nat) (h : ¬ (i < g.size ∧ j < g.size)) : g.uHasEdge i j = .threw .oor := by
  simp [uHasEdge, inR_pair_false g i j h]

theorem C07_uGetEdgeLabel (g : G L) (i j : Nat) (t : Bool) (h : ¬ (i < g.size ∧ j < g.size)) :
    g.uGetEdgeLabel i j t = .threw .oor := by
  simp [uGetEdgeLabel, inR_pair_false g i j h]

theorem C07_uGetDegree (g : G L) (v : Nat) (t : Bool) (h : ¬ v < g.size) : g.uGetDegree v t = .threw .oor := by
  simp [uGetDegree, inR_false g v h]

theorem C07_uSetEdgeLabel_missing (g : G L) (i j : Nat) (l : L) (hi : i < g.size) (hj : j < g.size)
    (he : g.uHasEdgeRaw i j = false) : g.uSetEdgeLabel i j l false = (g, .threw .inv) := by
  simp [uSetEdgeLabel, inR, hi, hj, he]

/-! ## multigraphs -/
theorem C07_dAddMultiedge (m : MG) (i j k : Nat) (force : Bool) (h : ¬ (i < m.g.size ∧ j < m.g.size)) :
    m.dAddMultiedge i j k force = (m, .threw .oor) := by
  simp [MG.dAddMultiedge, inR_pair_false m.g i j h]

theorem C07_dAddReciprocalMultiedge (m : MG) (i j k : Nat) (force : Bool) (h : ¬ (i < m.g.size ∧ j < m.g.size)) :
    m.dAddReciprocalMultiedge i j k force = (m, .threw .oor) := by
  simp [MG.dAddReciprocalMultiedge, C07_dAddMultiedge m i j k force h]

theorem C07_dRemoveMultiedge (m : MG) (i j k : Nat) (h : ¬ (i < m.g.size ∧ j < m.g.size)) :
    m.dRemoveMultiedge i j k = (m, .threw .oor) := by
  simp [MG.dRemoveMultiedge, inR_pair_false m.g i j h]

theorem C07_dSetEdgeMultiplicity (m : MG) (i j k : Nat) (h : ¬ (i < m.g.size ∧ j < m.g.size)) :
    m.dSetEdgeMultiplicity i j k = (m, .threw .oor) := by
  simp [MG.dSetEdgeMultiplicity, inR_pair_false m.g i j h]

theorem C07_dGetEdgeMultiplicity (m : MG) (i j : Nat) (h : ¬ (i < m.g.size ∧ j < m.g.size)) :
    m.dGetEdgeMultiplicity i j = .threw .oor := by
  simp [MG.dGetEdgeMultiplicity, inR_pair_false m.g i j h]

theorem C07_mdRemoveVertex (m : MG) (v : Nat) (h : ¬ v < m.g.size) : m.dRemoveVertex v = (m, .threw .oor) := by
  simp [MG.dRemoveVertex, inR_false m.g v h]

theorem C07_uAddMultiedge (m : MG) (i j k : Nat) (force : Bool) (h : ¬ (i < m.g.size ∧ j < m.g.size)) :
    m.uAddMultiedge i j k force = (m, .threw .oor) := by
  simp [MG.uAddMultiedge, inR_pair_false m.g i j h]

theorem C07_uRemoveMultiedge (m : MG) (i j k : Nat) (h : ¬ (i < m.g.size ∧ j < m.g.size)) :
    m.uRemoveMultiedge i j k = (m, .threw .oor) := by
  simp [MG.uRemoveMultiedge, inR_pair_false m.g i j h]

theorem C07_uSetEdgeMultiplicity (m : MG) (i j k : Nat) (h : ¬ (i < m.g.size ∧ j < m.g.size)) :
    m.uSetEdgeMultiplicity i j k = (m, .threw .oor) := by
  simp [MG.uSetEdgeMultiplicity, inR_pair_false m.g i j h]

theorem C07_uGetEdgeMultiplicity (m : MG) (i j : Nat) (h : ¬ (i < m.g.size ∧ j < m.g.size)) :
    m.uGetEdgeMultiplicity i j = .threw .oor := by
  simp [MG.uGetEdgeMultiplicity, inR_pair_false m.g i j h]

theorem C07_muRemoveVertex (m : MG) (v : Nat) (h : ¬ v < m.g.size) : m.uRemoveVertex v = (m, .threw .oor) := by
  simp [MG.uRemoveVertex, inR_false m.g v h]

theorem C07_mResize_smaller (m : MG) (n : Nat) (h : n < m.g.size) : m.resize n = (m, .threw .inv) := by
  simp [MG.resize, resize, h]

/-! ## weighted graphs -/
theorem C07_wdAddEdge (w : WG) (i j : Nat) (x : Int) (force : Bool) (h : ¬ (i < w.g.size ∧ j < w.g.size)) :
    w.dAddEdge i j x force = (w, .threw .oor) := by
  simp [WG.dAddEdge, inR_pair_false w.g i j h]

theorem C07_wdAddReciprocalEdge (w : WG) (i j : Nat) (force : Bool) (h : ¬ (i < w.g.size ∧ j < w.g.size)) :
    w.dAddReciprocalEdge i j force = (w, .threw .oor) := by
  simp [WG.dAddReciprocalEdge, C07_wdAddEdge w i j _ false h]

theorem C07_wdRemoveEdge (w : WG) (i j : Nat) (h : ¬ (i < w.g.size ∧ j < w.g.size)) :
    w.dRemoveEdge i j = (w, .threw .oor) := by
  simp [WG.dRemoveEdge, inR_pair_false w.g i j h]

theorem C07_wdSetEdgeWeight (w : WG) (i j : Nat) (x : Int) (h : ¬ (i < w.g.size ∧ j < w.g.size)) :
    w.dSetEdgeWeight i j x = (w, .threw .oor) := by
  simp [WG.dSetEdgeWeight, inR_pair_false w.g i j h]

theorem C07_wdGetEdgeWeight (w : WG) (i j : Nat) (t : Bool) (h : ¬ (i < w.g.size ∧ j < w.g.size)) :
    w.dGetEdgeWeight i j t = .threw .oor := C07_dGetEdgeLabel w.g i j t h

theorem C07_wdRemoveVertex (w : WG) (v : Nat) (h : ¬ v < w.g.size) : w.dRemoveVertex v = (w, .threw .oor) := by
  simp [WG.dRemoveVertex, inR_false w.g v h]

theorem C07_wuAddEdge (w : WG) (i j : Nat) (x : Int) (force : Bool) (h : ¬ (i < w.g.size ∧ j < w.g.size)) :
    w.uAddEdge i j x force = (w, .threw .oor) := by
  simp [WG.uAddEdge, inR_pair_false w.g i j h]

theorem C07_wuRemoveEdge (w : WG) (i j : Nat) (h : ¬ (i < w.g.size ∧ j < w.g.size)) :
    w.uRemoveEdge i j = (w, .threw .oor) := by
  simp [WG.uRemoveEdge, inR_pair_false w.g i j h]

theorem C07_wuSetEdgeWeight (w : WG) (i j : Nat) (x : Int) (h : ¬ (i < w.g.size ∧ j < w.g.size)) :
    w.uSetEdgeWeight i j x = (w, .threw .oor) := by
  simp [WG.uSetEdgeWeight, inR_pair_false w.g i j h]

theorem C07_wuGetEdgeWeight (w : WG) (i j : Nat) (t : Bool) (h : ¬ (i < w.g.size ∧ j < w.g.size)) :
    w.uGetEdgeWeight i j t = .threw .oor := C07_uGetEdgeLabel w.g i j t h

theorem C07_wuRemoveVertex (w : WG) (v : Nat) (h : ¬ v < w.g.size) : w.uRemoveVertex v = (w, .threw .oor) := by
  simp [WG.uRemoveVertex, inR_false w.g v h]

/-! ## subgraph extraction with a vertex outside the graph -/
theorem foldl_threw_absorb {α β : Type} (F : Res α → β → Res α) (e : Exc)
    (hF : ∀ b, F (.threw e) b = .threw e) (l : List β) : l.foldl F (.threw e) = .threw e := by
  induction l with
  | nil => rfl
  | cons b bs ih => simp only [List.foldl_cons, hF]; exact ih

/-- `getSubgraph` / `getSubgraphWithRemap` with a vertex outside the graph first in the set's
iteration order throw `out_of_range` (the source graph is `const`). -/
theorem C07_subLoop_oor_head (und : Bool) (g : G L) (v : Nat) (rest : List Nat) (f : Nat → Nat) (init : G L)
    (h : ¬ v < g.size) : G.subLoop und g (v :: rest) f init = .threw .oor := by
  unfold G.subLoop
  simp only [List.foldl_cons, G.subOuterStep, Res.bind, inR_false g v h, Bool.not_false, if_true]
  apply foldl_threw_absorb
  intro b; rfl

/-! ## histories: rejected calls interleaved with valid ones -/

instance (n : Nat) (op : SOp L) : Decidable (op.valid n) := by
  cases op <;> simp only [SOp.valid] <;> exact inferInstance

/-- a rejected call leaves the state exactly as it was -/
theorem C07_rejected_unchanged (g : G L) (op : SOp L) (h : ¬ op.valid g.size) : (g.dStep op).1 = g := by
  cases op with
  | addEdge i j l => simp only [dStep]; rw [dAddEdge_oor g i j l false h]
  | addReciprocalEdge i j l => simp only [dStep]; rw [C07_dAddReciprocalEdge g i j l false h]
  | removeEdge i j => simp only [dStep]; rw [C07_dRemoveEdge g i j h]
  | removeSelfLoops => exact absurd trivial h
  | removeVertexFromEdgeList v => simp only [dStep]; rw [C07_dRemoveVertex g v h]
  | clearEdges => exact absurd trivial h
  | resize m =>
    have : m < g.size := by simp only [SOp.valid] at h; omega
    simp only [dStep]; rw [C07_resize_smaller g m this]
  | setEdgeLabel i j l => simp only [dStep]; rw [C07_dSetEdgeLabel g i j l false h]

/-- the valid calls of a history, judged at the moment each is made -/
def validOnly : Nat → List (SOp L) → List (SOp L)
  | _, [] => []
  | n, op :: ops => if op.valid n then op :: validOnly (op.newSize n) ops else validOnly n ops

/-- **C07 (histories).** Any interleaving of rejected and valid calls leaves the same state as
the valid calls alone. -/
theorem C07_history (g : G L) (hg : Inv g) (ops : List (SOp L)) :
    dRun g ops = dRun g (validOnly g.size ops) := by
  induction ops generalizing g with
  | nil => rfl
  | cons op ops ih =>
    simp only [validOnly]
    by_cases hv : op.valid g.size
    · simp only [hv, if_true, dRun, List.foldl_cons]
      have := ih (g.dStep op).1 (inv_dStep g hg op)
      rw [dStep_size g hg op hv] at this
      simpa [dRun] using this
    · simp only [hv, if_false]
      have h1 : dRun g (op :: ops) = dRun (g.dStep op).1 ops := rfl
      rw [h1, C07_rejected_unchanged g op hv]
      exact ih g hg

example : ¬ (SOp.addEdge 5 0 (1 : Nat)).valid 2 ∧ (G.new true 2 : G Nat).dAddEdge 5 0 1 true = (G.new true 2, .threw .oor) := by
  constructor
  · simp [SOp.valid]
  · rfl

end BGV
