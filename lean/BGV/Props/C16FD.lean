import BGV.Props.C16M
import BGV.Props.C01M
/-!
# Property C16 — forced insertion into the directed multigraph keeps `total = Σ entries`
-/
set_option linter.unusedSectionVars false
namespace BGV
open G MG

/-- **C16 (directed multigraph): forced insertion** of another copy with the pair's multiplicity: one more entry, the total grows by
that multiplicity, the entry sum stays equal to the total -/
theorem C16_multi_forced_add (m : MG) (hf : FInv m.g) (hl : m.g.labelled = true) (i j : Nat) (w : Nat) (hpos : w ≠ 0)
    (hi : i < m.g.size) (hj : j < m.g.size) (hw : m.g.hasEdgeRaw i j = true → m.g.labD (i, j) = w)
    (ht : m.total = entrySumN m.g) :
    let m' := (m.dAddMultiedge i j w true).1
    m'.total = m.total + w ∧ m'.total = entrySumN m'.g ∧ m'.g.nb i = m.g.nb i ++ [j] := by
  have hr : (m.g.inR i && m.g.inR j) = true := by simp [inR, hi, hj]
  obtain ⟨_, hnb, hother, _, _⟩ := C16_forced_add m.g hf i j w hi hj
  have hstep : (m.dAddMultiedge i j w true).1 = ⟨(m.g.dAddEdge i j w true).1, m.total + w⟩ := by
    simp [MG.dAddMultiedge, hr, hpos]
  show (m.dAddMultiedge i j w true).1.total = m.total + w ∧ (m.dAddMultiedge i j w true).1.total = entrySumN (m.dAddMultiedge i j w true).1.g ∧
    (m.dAddMultiedge i j w true).1.g.nb i = m.g.nb i ++ [j]
  rw [hstep]
  refine ⟨rfl, ?_, hnb⟩
  -- labels: (i,j) ↦ w, everything else unchanged
  have hlabD : ∀ e, (m.g.dAddEdge i j w true).1.labD e = if e = (i, j) then w else m.g.labD e := by
    intro e
    have hg' : (m.g.dAddEdge i j w true).1 = (((m.g.push i j).withEN (m.g.edgeNumber + 1)).setLab (i, j) w) := by
      simp [G.dAddEdge, hr]
    rw [hg']
    simp only [labD, setLab_labelled, withEN_labelled, push_labelled, hl, if_true]
    rw [setLab_labels_true _ _ _ (by simpa [push] using hl)]
    simp only [withEN_labels, push_labels]
    rw [AMap.get?_insert]
    by_cases he : e = (i, j)
    · simp [he]
    · simp [he]
  have hsz : (m.g.dAddEdge i j w true).1.size = m.g.size := dAddEdge_size _ _ _ _ _
  simp only [entrySumN, hsz]
  have hrow : ∀ k, (((m.g.dAddEdge i j w true).1.nb k).map (fun x => (m.g.dAddEdge i j w true).1.labD (k, x))).sum
      = ((m.g.nb k).map (fun x => m.g.labD (k, x))).sum + (if k = i then w else 0) := by
    intro k
    have hmapeq : ∀ l : List Nat, (∀ x ∈ l, m.g.hasEdgeRaw k x = true) →
        l.map (fun x => (m.g.dAddEdge i j w true).1.labD (k, x)) = l.map (fun x => m.g.labD (k, x)) := by
      intro l hlm
      apply List.map_congr_left
      intro x hx
      rw [hlabD]
      by_cases he : (k, x) = (i, j)
      · obtain ⟨rfl, rfl⟩ := Prod.mk.inj he
        simp only [if_true]
        exact (hw (hlm x hx)).symm
      · simp [he]
    by_cases hki : k = i
    · subst hki
      rw [hnb, List.map_append, List.sum_append, hmapeq _ (fun x hx => by simpa [hasEdgeRaw] using hx)]
      simp [hlabD]
    · rw [hother k hki, hmapeq _ (fun x hx => by simpa [hasEdgeRaw] using hx)]
      simp [hki]
  simp only [hrow]
  have hsum := sum_map_cnt_change m.g.size i
    (fun k => ((m.g.nb k).map (fun x => m.g.labD (k, x))).sum + (if k = i then w else 0))
    (fun k => ((m.g.nb k).map (fun x => m.g.labD (k, x))).sum) w hi (by
      intro k
      by_cases hk : i = k
      · subst hk; simp
      · have : ¬ k = i := fun e => hk e.symm
        simp [hk, this])
  rw [ht]; simp only [entrySumN]; omega

end BGV

/-! ## the adjacency matrix counts copies -/
namespace BGV
open G
variable {L : Type} [Inhabited L]

theorem allInR_of_finv (g : G L) (h : FInv g) : g.allInR = true := by
  simp only [allInR, List.all_eq_true, decide_eq_true_eq]
  intro l hl j hj
  obtain ⟨i, hi, rfl⟩ := List.getElem_of_mem hl
  have : g.nb i = g.adj[i] := by simp [nb, List.getD_eq_getElem?_getD, hi]
  exact h.bound i j (by rw [this]; exact hj)

theorem count_pair_row (k i j : Nat) (l : List Nat) :
    ((l.map (fun x => (k, x))).filter (fun e : Edge => e.1 == i && e.2 == j)).length = if k = i then l.count j else 0 := by
  induction l with
  | nil => simp
  | cons a l ih =>
    simp only [List.map_cons, List.filter_cons]
    by_cases hk : k = i
    · subst hk
      simp only [beq_self_eq_true, Bool.true_and, if_true] at ih ⊢
      by_cases ha : a = j
      · subst ha; simp [ih]
      · have : (a == j) = false := by simpa using ha
        simp [this, ih, List.count_cons, ha]
    · have : (k == i) = false := by simpa using hk
      simp only [this, Bool.false_and, Bool.false_eq_true, if_false, hk] at ih ⊢
      exact ih

theorem count_pair_edgeSeq (g : G L) (h : FInv g) (i j : Nat) :
    (g.edgeSeq.filter (fun e : Edge => e.1 == i && e.2 == j)).length = (g.nb i).count j := by
  simp only [edgeSeq, List.filter_flatMap, List.length_flatMap, count_pair_row]
  by_cases hi : i < g.size
  · have := sum_map_ite_eq (List.range g.size) i ((g.nb i).count j) (fun _ => 0) List.nodup_range (List.mem_range.2 hi) rfl
    have hz : ((List.range g.size).map (fun _ : Nat => 0)).sum = 0 := sum_eq_zero_of_forall _ (by
      intro x hx; obtain ⟨_, _, rfl⟩ := List.mem_map.1 hx; rfl)
    rw [hz, Nat.add_zero] at this
    rw [← this]
    congr 1
    apply List.map_congr_left
    intro k _
    by_cases hk : k = i
    · subst hk; simp
    · simp [hk]
  · have hnb : g.nb i = [] := nb_of_ge g i (by rw [h.len]; omega)
    rw [hnb, List.count_nil]
    apply sum_eq_zero_of_forall
    intro x hx
    obtain ⟨k, hk, rfl⟩ := List.mem_map.1 hx
    have : k ≠ i := by have := List.mem_range.1 hk; omega
    simp [this]

/-- **C16: the adjacency matrix counts copies.** In any state reachable with forced insertions,
entry `(i,j)` of `getAdjacencyMatrix` is the number of times `j` appears in `i`'s neighbour list —
one per insertion -/
theorem C16_adjacencyMatrix_counts (g : G L) (h : FInv g) :
    ∃ m, g.dGetAdjacencyMatrix = .ok m ∧ Square g.size m ∧ ∀ i j, getM m i j = (g.nb i).count j := by
  have hall := allInR_of_finv g h
  have hes : ∀ e ∈ g.edgeSeq, e.1 < g.size ∧ e.2 < g.size := by
    intro e he
    simp only [edgeSeq, List.mem_flatMap, List.mem_range, List.mem_map] at he
    obtain ⟨k, hk, x, hx, rfl⟩ := he
    exact ⟨hk, h.bound k x hx⟩
  obtain ⟨h1, h2⟩ := foldl_bump2 g.size g.edgeSeq (fun _ => 1) hes _ (square_zero g.size)
  refine ⟨_, by simp only [dGetAdjacencyMatrix, hall, if_true, dEdges_eq g h.len], h1, ?_⟩
  intro i j
  rw [h2, getM_zero]
  have hsum : ∀ l : List Edge, (l.map (fun _ => 1)).sum = l.length := by
    intro l; induction l with
    | nil => rfl
    | cons a l ih => simp [ih]; omega
  rw [hsum, count_pair_edgeSeq g h i j, Nat.zero_add]

/-- not vacuous: two forced copies of (0,1), one of a self-loop -/
example :
    let g := ((((G.new false 2 : G Nat).dAddEdge 0 1 0 true).1.dAddEdge 0 1 0 true).1.dAddEdge 1 1 0 true).1
    g.dGetAdjacencyMatrix = .ok [[0, 2], [0, 1]] := by decide

end BGV
