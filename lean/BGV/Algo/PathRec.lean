import BGV.Model.Paths
import BGV.Algo.Bfs4
/-!
# BGV.Algo.PathRec — `findPathToVertexFromPredecessors`: walking a predecessor array back to the
source yields a path along existing edges with exactly `dist` hops.
-/
namespace BGV
open Bfs (nbrs MAX WF Walk)

/-- consecutive vertices of the list are joined by stored edges -/
def chainOK (adj : Adj) : List Nat → Prop
  | [] => True
  | [_] => True
  | a :: b :: l => b ∈ nbrs adj a ∧ chainOK adj (b :: l)

/-- a predecessor array with a distance function decreasing by one along it (what both searches
deliver): every vertex with a finite distance other than the source has a predecessor, in range,
with a finite distance one less, and is one of its out-neighbours -/
structure PredTree (adj : Adj) (s : Nat) (pred : List Nat) (d : Nat → Nat) (fin : Nat → Prop) : Prop where
  src : fin s ∧ d s = 0
  lt : ∀ v, fin v → v < pred.length ∧ v ≠ MAX
  step : ∀ v, fin v → v ≠ s → fin (pred.getD v MAX) ∧ v ∈ nbrs adj (pred.getD v MAX) ∧ d v = d (pred.getD v MAX) + 1

theorem pathLoop_spec {adj : Adj} {s : Nat} {pred : List Nat} {d : Nat → Nat} {fin : Nat → Prop}
    (h : PredTree adj s pred d fin) (fuel cur : Nat) (path : List Nat)
    (hc : fin cur) (hcs : cur ≠ s) (hf : d cur ≤ fuel) (hch : chainOK adj (cur :: path)) :
    ∃ res, pathLoop pred s fuel cur path = some (.ok res) ∧ chainOK adj res ∧ res.head? = some s ∧
      res.length = d cur + 1 + path.length ∧ ∃ pre, res = pre ++ cur :: path := by
  induction fuel generalizing cur path with
  | zero =>
    obtain ⟨_, _, h3⟩ := h.step cur hc hcs
    omega
  | succ f ih =>
    obtain ⟨hlt, hmax⟩ := h.lt cur hc
    obtain ⟨hp1, hp2, hp3⟩ := h.step cur hc hcs
    have hget : pred[cur]? = some (pred.getD cur MAX) := by
      simp [List.getD_eq_getElem?_getD, hlt]
    simp only [pathLoop, hmax, if_false, hget]
    by_cases hps : pred.getD cur MAX = s
    · simp only [hps, if_true]
      refine ⟨s :: cur :: path, rfl, ?_, rfl, ?_, [s], rfl⟩
      · exact ⟨by rw [← hps]; exact hp2, hch⟩
      · rw [hp3, hps, h.src.2]; simp; omega
    · simp only [hps, if_false]
      obtain ⟨res, r1, r2, r3, r4, pre, r5⟩ := ih (pred.getD cur MAX) (cur :: path) hp1 hps (by omega) ⟨hp2, hch⟩
      refine ⟨res, r1, r2, r3, ?_, pre ++ [pred.getD cur MAX], ?_⟩
      · rw [r4, hp3]; simp; omega
      · rw [r5]; simp

theorem last_of_append_cons (pre : List Nat) (t : Nat) : (pre ++ [t]).getLast? = some t := by simp

/-- **path reconstruction**: for a destination with a finite distance, different from the source,
the result starts at the source, ends at the destination, follows stored edges and has exactly
`d t` hops -/
theorem findPath_spec {adj : Adj} {s : Nat} {pred : List Nat} {d : Nat → Nat} {fin : Nat → Prop}
    (h : PredTree adj s pred d fin) (hd : ∀ v, fin v → d v ≤ pred.length) (t : Nat) (ht : fin t) (hts : s ≠ t) :
    ∃ res, findPathFromPredecessors pred s t = .ok res ∧ chainOK adj res ∧ res.head? = some s ∧
      res.getLast? = some t ∧ res.length = d t + 1 := by
  obtain ⟨res, r1, r2, r3, r4, pre, r5⟩ := pathLoop_spec h (pred.length + 2) t [] ht (fun e => hts e.symm)
    (by have := hd t ht; omega) trivial
  refine ⟨res, ?_, r2, r3, ?_, by simpa using r4⟩
  · simp only [findPathFromPredecessors, hts, if_false, r1]
  · rw [r5]; simp

end BGV
