import BGV.Algo.AllPred2
/-!
# BGV.Algo.AllPred3 — `findAllVertexPredecessors`: termination, scan bound, correctness
-/
namespace BGV.AllPred
open Bfs (nbrs MAX WF Walk getD_set nbrs_lt pigeon getD_replicate)

/-- ghost invariant of the scan log: popped vertices are distinct, processed, and gone -/
structure GInv (adj : Adj) (st : St) (log : List Nat) : Prop where
  nodup : log.Nodup
  mem : ∀ x ∈ log, x < adj.length ∧ st.pr x = true ∧ x ∉ st.queue

theorem loop_inv {adj : Adj} {s : Nat} (hwf : WF adj) (hn : adj.length < MAX) (fuel : Nat) :
    ∀ (st : St) (log : List Nat), AInv adj s st → GInv adj st log →
      AInv adj s (loop adj fuel st log).1 ∧ GInv adj (loop adj fuel st log).1 (loop adj fuel st log).2 := by
  induction fuel with
  | zero => intro st log h g; exact ⟨h, g⟩
  | succ f ih =>
    intro st log h g
    cases hq : st.queue with
    | nil => simp only [loop, hq]; exact ⟨h, g⟩
    | cons cur rest =>
      simp only [loop, hq]
      obtain ⟨h', hun, hmono, hcur⟩ := step_inv hwf hn h hq
      apply ih _ _ h'
      have hcq : cur ∈ st.queue := by simp [hq]
      refine ⟨?_, ?_⟩
      · rw [List.nodup_append]
        refine ⟨g.nodup, by simp, ?_⟩
        intro a ha b hb hab
        simp only [List.mem_singleton] at hb
        subst hb; subst hab
        exact (g.mem a ha).2.2 hcq
      · intro x hx
        rcases List.mem_append.1 hx with h1 | h1
        · obtain ⟨g1, g2, _⟩ := g.mem x h1
          refine ⟨g1, hmono x g2, ?_⟩
          intro hm; have := hun x hm; rw [hmono x g2] at this; cases this
        · simp only [List.mem_singleton] at h1
          subst h1
          refine ⟨h.seenlt x (h.qseen x hcq), hcur, ?_⟩
          intro hm; have := hun x hm; rw [hcur] at this; cases this

/-- every call of `getOutNeighbours` made by the search is for a distinct vertex: at most `V` scans -/
theorem loop_scans_le {adj : Adj} {s : Nat} (hwf : WF adj) (hn : adj.length < MAX) (fuel : Nat) (st : St) (log : List Nat)
    (h : AInv adj s st) (g : GInv adj st log) :
    (loop adj fuel st log).2.Nodup ∧ (loop adj fuel st log).2.length ≤ adj.length := by
  obtain ⟨_, g'⟩ := loop_inv hwf hn fuel st log h g
  exact ⟨g'.nodup, pigeon _ _ g'.nodup (fun x hx => (g'.mem x hx).1)⟩

/-- with enough fuel the queue is empty at the end -/
theorem loop_done {adj : Adj} {s : Nat} (hwf : WF adj) (hn : adj.length < MAX) (fuel : Nat) :
    ∀ (st : St) (log : List Nat), AInv adj s st → GInv adj st log → adj.length < fuel + log.length →
      (loop adj fuel st log).1.queue = [] := by
  induction fuel with
  | zero =>
    intro st log h g hf
    have := pigeon _ _ g.nodup (fun x hx => (g.mem x hx).1)
    -- all vertices have been popped: the queue must be empty
    cases hq : st.queue with
    | nil => simp [loop, hq]
    | cons cur rest =>
      exfalso
      have hcq : cur ∈ st.queue := by simp [hq]
      have hc : cur ∉ log := fun hm => (g.mem cur hm).2.2 hcq
      have hnd : (cur :: log).Nodup := List.nodup_cons.2 ⟨hc, g.nodup⟩
      have := pigeon _ adj.length hnd (by
        intro x hx
        rcases List.mem_cons.1 hx with rfl | hx
        · exact h.seenlt x (h.qseen x hcq)
        · exact (g.mem x hx).1)
      simp at this; omega
  | succ f ih =>
    intro st log h g hf
    cases hq : st.queue with
    | nil => simp [loop, hq]
    | cons cur rest =>
      simp only [loop, hq]
      obtain ⟨h', hun, hmono, hcur⟩ := step_inv hwf hn h hq
      have hcq : cur ∈ st.queue := by simp [hq]
      apply ih _ _ h'
      · refine ⟨?_, ?_⟩
        · rw [List.nodup_append]
          refine ⟨g.nodup, by simp, ?_⟩
          intro a ha b hb hab
          simp only [List.mem_singleton] at hb
          subst hb; subst hab
          exact (g.mem a ha).2.2 hcq
        · intro x hx
          rcases List.mem_append.1 hx with h1 | h1
          · obtain ⟨g1, g2, _⟩ := g.mem x h1
            refine ⟨g1, hmono x g2, ?_⟩
            intro hm; have := hun x hm; rw [hmono x g2] at this; cases this
          · simp only [List.mem_singleton] at h1
            subst h1
            refine ⟨h.seenlt x (h.qseen x hcq), hcur, ?_⟩
            intro hm; have := hun x hm; rw [hcur] at this; cases this
      · simp; omega

/-! ### the initial state -/

theorem init_d (n s v : Nat) (hs : s < n) : (init n s).d v = if v = s then 0 else MAX := by
  simp only [St.d, init, getD_set, List.length_replicate, hs, and_true, getD_replicate]
  by_cases h : v = s
  · subst h; simp
  · have : ¬ s = v := fun e => h e.symm
    simp only [this, h, if_false]
    split <;> rfl

theorem init_pr (n s v : Nat) (hs : s < n) : (init n s).pr v = decide (v = s) := by
  simp only [St.pr, init, getD_set, List.length_replicate, hs, and_true, getD_replicate]
  by_cases h : v = s
  · subst h; simp
  · have : ¬ s = v := fun e => h e.symm
    simp only [this, h, if_false, decide_false]
    split <;> rfl

theorem init_ps (n s v : Nat) : (init n s).ps v = [] := by
  simp only [St.ps, init, List.getD_eq_getElem?_getD, List.getElem?_replicate]
  split <;> rfl

theorem init_ainv (adj : Adj) (s : Nat) (hs : s < adj.length) : AInv adj s (init adj.length s) := by
  have hd := init_d adj.length s
  have hp := init_pr adj.length s
  have hps := init_ps adj.length s
  have hMAX : (0 : Nat) ≠ MAX := by decide
  have hseen : ∀ v, (init adj.length s).d v ≠ MAX → v = s := by
    intro v hv; rw [hd v hs] at hv
    by_cases h : v = s
    · exact h
    · simp [h] at hv
  refine
    { sized := ⟨by simp [init], by simp [init], by simp [init]⟩, src := ?_, seenlt := ?_, dle := ?_, lev := ?_,
      tree := ?_, pvalid := ?_, pnodup := ?_, qseen := ?_, qnodup := ?_, qtail := ?_, seen_np := ?_, pr_seen := ?_,
      closed := ?_, mono := ?_, qsorted := ?_, qspan := ?_, unseen := ?_ }
  · exact ⟨by rw [hd s hs]; simp, by rw [hp s hs]; simp, hps s, hs⟩
  · intro v hv; rw [hseen v hv]; exact hs
  · intro v; rw [hd v hs]; split
    · exact Nat.zero_le _
    · exact Nat.le_refl _
  · intro v hv k hk
    have := hseen v hv; subst this
    rw [hd v hs] at hk; simp at hk; subst hk
    exact ⟨v, by rw [hd v hs]; simp⟩
  · intro v hv hvs; exact absurd (hseen v hv) hvs
  · intro v p hpm; rw [hps v] at hpm; cases hpm
  · intro v; rw [hps v]; exact List.nodup_nil
  · intro x hx; simp [init] at hx; subst hx; rw [hd x hs]; simp; exact hMAX
  · simp [init]
  · intro x hx; simp [init] at hx
  · intro v hv _; have := hseen v hv; subst this; simp [init]
  · intro v hv
    rw [hp v hs] at hv
    have : v = s := by simpa using hv
    subst this; rw [hd v hs]; simp; exact hMAX
  · intro u hu hnq
    rw [hp u hs] at hu
    have : u = s := by simpa using hu
    subst this; exact absurd (by simp [init]) hnq
  · intro u hu hnq
    rw [hp u hs] at hu
    have : u = s := by simpa using hu
    subst this; exact absurd (by simp [init]) hnq
  · simp [init]
  · intro h hh x hx
    simp [init] at hh hx; subst hh; subst hx; omega
  · intro v hv
    refine ⟨hps v, ?_⟩
    rw [hp v hs]
    have : v ≠ s := by
      intro e; subst e; rw [hd v hs] at hv; simp at hv; exact hMAX hv
    simp [this]

theorem init_ginv (adj : Adj) (s : Nat) : GInv adj (init adj.length s) [] :=
  ⟨List.nodup_nil, by intro x hx; cases hx⟩

/-- what the invariant gives once the queue is empty -/
theorem final_of_inv {adj : Adj} {s : Nat} {r : St} (hinv : AInv adj s r) (hq : r.queue = []) :
    (∀ v k, Walk adj s v k → r.d v ≠ MAX ∧ r.d v ≤ k) ∧
    (∀ v, r.d v ≠ MAX → Walk adj s v (r.d v)) ∧
    (∀ v, r.d v ≠ MAX → ∀ p, p ∈ r.ps v ↔ (r.d p ≠ MAX ∧ v ∈ nbrs adj p ∧ r.d v = r.d p + 1)) ∧
    (∀ v, (r.ps v).Nodup) ∧
    (∀ v, r.d v = MAX → r.ps v = []) := by
  have hdone : ∀ u, r.d u ≠ MAX → r.pr u = true := by
    intro u hu
    cases hp : r.pr u with
    | true => rfl
    | false => have := hinv.seen_np u hu hp; rw [hq] at this; cases this
  refine ⟨?_, ?_, ?_, hinv.pnodup, fun v hv => (hinv.unseen v hv).1⟩
  · intro v k hw
    induction hw with
    | nil => exact ⟨by rw [hinv.src.1]; decide, by rw [hinv.src.1]; exact Nat.le_refl 0⟩
    | snoc _ hmem ih =>
      obtain ⟨c1, c2, _⟩ := hinv.closed _ (hdone _ ih.1) (by rw [hq]; simp) _ hmem
      exact ⟨c1, by omega⟩
  · intro v
    generalize hd : r.d v = k
    induction k using Nat.strongRecOn generalizing v with
    | _ k ih =>
      intro hv
      by_cases hvs : v = s
      · subst hvs; rw [hinv.src.1] at hd; subst hd; exact Walk.nil
      · have hne := hinv.tree v (by rw [hd]; exact hv) hvs
        obtain ⟨p, l, hpl⟩ := List.exists_cons_of_ne_nil hne
        obtain ⟨t1, t2, t3⟩ := hinv.pvalid v p (by rw [hpl]; simp)
        have hk : r.d p < k := by omega
        have := ih _ hk p rfl t1
        rw [← hd, t3]
        exact Walk.snoc this t2
  · intro v hv p
    constructor
    · exact hinv.pvalid v p
    · rintro ⟨h1, h2, h3⟩
      exact (hinv.closed p (hdone p h1) (by rw [hq]; simp) v h2).2.2 h3

/-- **`findAllVertexPredecessors` is correct and does at most `V` neighbourhood scans** -/
theorem allpred_correct (adj : Adj) (s : Nat) (hwf : WF adj) (hs : s < adj.length) (hn : adj.length < MAX) :
    let r := (loop adj (2 * adj.length + 1) (init adj.length s) []).1
    let log := (loop adj (2 * adj.length + 1) (init adj.length s) []).2
    (∀ v k, Walk adj s v k → r.d v ≠ MAX ∧ r.d v ≤ k) ∧
    (∀ v, r.d v ≠ MAX → Walk adj s v (r.d v)) ∧
    (∀ v, r.d v ≠ MAX → ∀ p, p ∈ r.ps v ↔ (r.d p ≠ MAX ∧ v ∈ nbrs adj p ∧ r.d v = r.d p + 1)) ∧
    (∀ v, (r.ps v).Nodup) ∧
    (∀ v, r.d v = MAX → r.ps v = []) ∧
    (log.Nodup ∧ log.length ≤ adj.length) := by
  intro r log
  have hi := init_ainv adj s hs
  have hg := init_ginv adj s
  obtain ⟨hinv, _⟩ := loop_inv hwf hn (2 * adj.length + 1) _ _ hi hg
  have hq : r.queue = [] := loop_done hwf hn _ _ _ hi hg (by simp; omega)
  obtain ⟨a, b, c, d, e⟩ := final_of_inv hinv hq
  exact ⟨a, b, c, d, e, loop_scans_le hwf hn _ _ _ hi hg⟩

end BGV.AllPred

namespace BGV.AllPred
open Bfs (nbrs MAX WF Walk)

/-- the final state of the search satisfies the invariant with an empty queue -/
theorem final_inv (adj : Adj) (s : Nat) (hwf : WF adj) (hs : s < adj.length) (hn : adj.length < MAX) :
    AInv adj s (loop adj (2 * adj.length + 1) (init adj.length s) []).1 ∧
    (loop adj (2 * adj.length + 1) (init adj.length s) []).1.queue = [] := by
  have hi := init_ainv adj s hs
  have hg := init_ginv adj s
  exact ⟨(loop_inv hwf hn (2 * adj.length + 1) _ _ hi hg).1, loop_done hwf hn _ _ _ hi hg (by simp; omega)⟩

end BGV.AllPred
