import BGV.Algo.Bfs4
import BGV.Algo.PathRec
/-!
# BGV.Algo.Bfs5 — distances found by the BFS are below the number of vertices (levels are
inhabited), and the predecessor array is a `PredTree`: path reconstruction applies.
-/
namespace BGV.Bfs

/-- every level below a finite distance is inhabited -/
def Lev (st : St) : Prop := ∀ v, st.s v = true → ∀ k, k ≤ st.d v → ∃ u, st.s u = true ∧ st.d u = k

theorem levels_bound (n : Nat) (d : Nat → Nat) (seen : Nat → Prop) (hlt : ∀ v, seen v → v < n)
    (lev : ∀ v, seen v → ∀ k, k ≤ d v → ∃ u, seen u ∧ d u = k) (v : Nat) (hv : seen v) : d v + 1 ≤ n := by
  have : ∀ k, k ≤ d v → ∃ l : List Nat, l.length = k + 1 ∧ l.Nodup ∧ ∀ u ∈ l, d u ≤ k ∧ u < n := by
    intro k
    induction k with
    | zero =>
      intro _
      obtain ⟨u, hu, hd⟩ := lev v hv 0 (Nat.zero_le _)
      exact ⟨[u], rfl, by simp, by intro x hx; simp at hx; subst hx; exact ⟨by omega, hlt _ hu⟩⟩
    | succ k ih =>
      intro hk
      obtain ⟨l, h1, h2, h3⟩ := ih (by omega)
      obtain ⟨u, hu, hd⟩ := lev v hv (k + 1) hk
      refine ⟨u :: l, by simp [h1], List.nodup_cons.2 ⟨?_, h2⟩, ?_⟩
      · intro hm; have := (h3 u hm).1; omega
      · intro x hx
        rcases List.mem_cons.1 hx with rfl | hx
        · exact ⟨by omega, hlt _ hu⟩
        · exact ⟨by have := (h3 x hx).1; omega, (h3 x hx).2⟩
  obtain ⟨l, h1, h2, h3⟩ := this (d v) (Nat.le_refl _)
  have := pigeon l n h2 (fun x hx => (h3 x hx).2)
  omega

theorem lev_step {adj : Adj} {s : Nat} (hwf : WF adj) {st : St} {cur : Nat} {rest : List Nat}
    (h : OInv adj s st) (hl : Lev st) (hq : st.queue = cur :: rest) : Lev (expand adj cur st).pop := by
  have hcur : st.s cur = true := h.qseen cur (by simp [hq])
  have hb : ∀ w ∈ nbrs adj cur, w < adj.length := fun w hw => nbrs_lt hwf hw
  obtain ⟨e1, e2, e3, e4, e5, _⟩ := fold_char cur (nbrs adj cur) st h.sized hb hcur
  intro v hv k hk
  have hv' : ((nbrs adj cur).foldl (visit cur) st).s v = true := hv
  have hk' : k ≤ ((nbrs adj cur).foldl (visit cur) st).d v := hk
  show ∃ u, ((nbrs adj cur).foldl (visit cur) st).s u = true ∧ ((nbrs adj cur).foldl (visit cur) st).d u = k
  have seen' : ∀ u, st.s u = true → ((nbrs adj cur).foldl (visit cur) st).s u = true := fun u hu => by rw [e2]; simp [hu]
  cases hsv : st.s v with
  | true =>
    rw [(e3 v hsv).1] at hk'
    obtain ⟨u, hu, hd⟩ := hl v hsv k hk'
    exact ⟨u, seen' u hu, by rw [(e3 u hu).1]; exact hd⟩
  | false =>
    have hmem : v ∈ nbrs adj cur := by rw [e2] at hv'; simpa [hsv] using hv'
    rw [(e4 v hsv hmem).1] at hk'
    by_cases hkc : k ≤ st.d cur
    · obtain ⟨u, hu, hd⟩ := hl cur hcur k hkc
      exact ⟨u, seen' u hu, by rw [(e3 u hu).1]; exact hd⟩
    · exact ⟨v, hv', by rw [(e4 v hsv hmem).1]; omega⟩

theorem loopG_lev {adj : Adj} {s : Nat} (hwf : WF adj) (fuel : Nat) : ∀ (st : St) (blk : List Nat),
    OInv adj s st → Lev st → Lev (loopG adj fuel st blk).1 := by
  induction fuel with
  | zero => intro st blk _ hl; exact hl
  | succ f ih =>
    intro st blk h hl
    unfold loopG
    split
    · exact hl
    · rename_i cur rest hq
      exact ih _ _ (step_inv hwf h hq) (lev_step hwf h hl hq)

theorem init_lev (adj : Adj) (s : Nat) (hs : s < adj.length) : Lev (init adj.length s) := by
  intro v hv k hk
  rw [init_s _ _ _ hs] at hv
  have : v = s := by simpa using hv
  subst this
  rw [init_d _ _ _ hs] at hk
  simp at hk; subst hk
  exact ⟨v, by rw [init_s _ _ _ hs]; simp, by rw [init_d _ _ _ hs]; simp⟩

theorem seen_lt {n : Nat} {st : St} (h : Sized n st) (v : Nat) (hv : st.s v = true) : v < n := by
  cases Nat.lt_or_ge v n with
  | inl h1 => exact h1
  | inr h1 =>
    exfalso
    have : st.seen[v]? = none := by simp [h.hs]; omega
    simp [St.s, List.getD_eq_getElem?_getD, this] at hv

/-- the final state of the search is a predecessor tree with distances below `V` -/
theorem bfs_predTree (adj : Adj) (s : Nat) (hwf : WF adj) (hs : s < adj.length) (hn : adj.length ≤ MAX) :
    let r := bfs adj s
    PredTree adj s r.pred r.d (fun v => r.s v = true) ∧ (∀ v, r.s v = true → r.d v + 1 ≤ r.pred.length) ∧
      r.pred.length = adj.length := by
  intro r
  have hr : r = (loopG adj (2 * adj.length + 1) (init adj.length s) []).1 := loop_eq_loopG _ _ _ _
  have hi := init_oinv adj s hs
  have hg := init_ginv adj s hs
  have hinv : OInv adj s r := by rw [hr]; exact (loopG_inv hwf _ _ _ hi hg).1
  have hlev : Lev r := by rw [hr]; exact loopG_lev hwf _ _ _ hi (init_lev adj s hs)
  have hlt : ∀ v, r.s v = true → v < adj.length := fun v hv => seen_lt hinv.sized v hv
  have hbound := levels_bound adj.length r.d (fun v => r.s v = true) hlt hlev
  refine ⟨⟨hinv.src, ?_, ?_⟩, ?_, hinv.sized.hp⟩
  · intro v hv
    have := hlt v hv
    exact ⟨by rw [hinv.sized.hp]; exact this, by omega⟩
  · intro v hv hvs
    exact hinv.tree v hv hvs
  · intro v hv
    have := hbound v hv
    rw [hinv.sized.hp]; omega

end BGV.Bfs
