import BGV.Algo.MultiPath4
/-!
# BGV.Algo.MultiPath5 — an output-sensitive bound on the all-paths machine

Every stack entry of the machine leads to at least one emitted path (only the source has no
predecessors), and costs at most `rank + 1` steps per path it emits: the machine's work is
`O(longest path × number of paths)`, not merely finite.
-/
namespace BGV.MultiPath

variable {preds : List (List Nat)} {s t : Nat}

theorem sum_map_le_mul (l : List Nat) (f g : Nat → Nat) (b : Nat) (h : ∀ x ∈ l, f x ≤ b * g x) :
    (l.map f).sum ≤ b * (l.map g).sum := by
  induction l with
  | nil => simp
  | cons a l ih =>
    have h1 := h a (by simp)
    have h2 := ih (fun x hx => h x (by simp [hx]))
    simp only [List.map_cons, List.sum_cons, Nat.mul_add]
    omega

theorem sum_pos_of_mem (l : List Nat) (g : Nat → Nat) (hne : l ≠ []) (h : ∀ x ∈ l, 1 ≤ g x) : 1 ≤ (l.map g).sum := by
  cases l with
  | nil => exact absurd rfl hne
  | cons a l => have := h a (by simp); simp only [List.map_cons, List.sum_cons]; omega

theorem length_flatMap_reverse {α} (l : List Nat) (f : Nat → List α) :
    (l.reverse.flatMap f).length = (l.map (fun p => (f p).length)).sum := by
  rw [List.length_flatMap, ← sum_map_reverse l (fun p => (f p).length)]

/-- each entry emits at least one path and costs at most `k + 1` steps per emitted path -/
theorem cnt_le_enum {ok : Nat → Prop} {rank : Nat → Nat} (h : PS preds s ok rank) :
    ∀ (k c : Nat) (lst : List Nat), ok c → rank c ≤ k →
      1 ≤ (enum preds s t k c lst).length ∧ cnt preds s k c ≤ (k + 1) * (enum preds s t k c lst).length := by
  intro k
  induction k with
  | zero =>
    intro c lst hc hr
    by_cases hcs : c = s
    · simp [enum, cnt, hcs]
    · have hne := h.nonempty c hc hcs
      cases hp : preds.getD c [] with
      | nil => exact absurd hp hne
      | cons p ps =>
        have := (h.down c hc p (by rw [hp]; simp)).2
        omega
  | succ k ih =>
    intro c lst hc hr
    by_cases hcs : c = s
    · simp [enum, cnt, hcs]
    · have hne := h.nonempty c hc hcs
      have hall : ∀ p ∈ preds.getD c [], 1 ≤ (enum preds s t k p (c :: lst)).length ∧
          cnt preds s k p ≤ (k + 1) * (enum preds s t k p (c :: lst)).length := by
        intro p hp
        obtain ⟨p1, p2⟩ := h.down c hc p hp
        exact ih p (c :: lst) p1 (by omega)
      have hlen : (enum preds s t (k + 1) c lst).length
          = ((preds.getD c []).map (fun p => (enum preds s t k p (c :: lst)).length)).sum := by
        simp only [enum, hcs, if_false]
        exact length_flatMap_reverse _ _
      have hpos := sum_pos_of_mem (preds.getD c []) (fun p => (enum preds s t k p (c :: lst)).length) hne
        (fun p hp => (hall p hp).1)
      have hsum := sum_map_le_mul (preds.getD c []) (cnt preds s k)
        (fun p => (enum preds s t k p (c :: lst)).length) (k + 1) (fun p hp => (hall p hp).2)
      rw [hlen]
      refine ⟨hpos, ?_⟩
      simp only [cnt, hcs, if_false]
      have : (k + 1 + 1) * ((preds.getD c []).map (fun p => (enum preds s t k p (c :: lst)).length)).sum
          = (k + 1) * ((preds.getD c []).map (fun p => (enum preds s t k p (c :: lst)).length)).sum
            + ((preds.getD c []).map (fun p => (enum preds s t k p (c :: lst)).length)).sum := by
        rw [Nat.succ_mul]
      omega

/-- the whole stack: steps ≤ (m + 1) × number of emitted paths, `m` a bound on the ranks -/
theorem stackCnt_le_enum {ok : Nat → Prop} {rank : Nat → Nat} (h : PS preds s ok rank) (m : Nat)
    (stack : List (Nat × List Nat)) (hok : ∀ e ∈ stack, ok e.1) (hr : ∀ e ∈ stack, rank e.1 ≤ m) :
    stackCnt preds s rank stack ≤ (m + 1) * (stackEnum preds s t rank stack).length := by
  induction stack with
  | nil => simp [stackCnt, stackEnum]
  | cons e stack ih =>
    have h1 := (cnt_le_enum (t := t) h (rank e.1) e.1 e.2 (hok e (by simp)) (Nat.le_refl _)).2
    have h2 := ih (fun x hx => hok x (by simp [hx])) (fun x hx => hr x (by simp [hx]))
    have h3 : (rank e.1 + 1) * (enum preds s t (rank e.1) e.1 e.2).length
        ≤ (m + 1) * (enum preds s t (rank e.1) e.1 e.2).length :=
      Nat.mul_le_mul_right _ (by have := hr e (by simp); omega)
    simp only [stackCnt, stackEnum, List.map_cons, List.sum_cons, List.flatMap_cons, List.length_append,
      Nat.mul_add] at h2 ⊢
    omega

end BGV.MultiPath
