import BGV.Algo.MultiPath
/-!
# BGV.Algo.MultiPath2 — what `enum` lists: exactly the predecessor chains, each once
-/
namespace BGV.MultiPath

/-- predecessor chains from the source: `PC q c` — `q` starts at `s`, ends at `c`, and every
vertex is a listed predecessor of the next -/
inductive PC (preds : List (List Nat)) (s : Nat) : List Nat → Nat → Prop
  | base : PC preds s [s] s
  | step {q : List Nat} {p c : Nat} : PC preds s q p → p ∈ preds.getD c [] → c ≠ s → PC preds s (q ++ [c]) c

variable {preds : List (List Nat)} {s t : Nat}

theorem pc_src_aux {q : List Nat} {c : Nat} (h : PC preds s q c) (hc : c = s) : q = [s] := by
  cases h with
  | base => rfl
  | step _ _ hne => exact absurd hc hne

theorem pc_src {q : List Nat} (h : PC preds s q s) : q = [s] := pc_src_aux h rfl

theorem pc_last {q : List Nat} {c : Nat} (h : PC preds s q c) : q.getLast? = some c := by
  cases h with
  | base => rfl
  | step _ _ _ => simp

theorem pc_ne_nil {q : List Nat} {c : Nat} (h : PC preds s q c) : q ≠ [] := by
  cases h with
  | base => simp
  | step _ _ _ => simp

theorem pc_inv {q : List Nat} {c : Nat} (h : PC preds s q c) (hcs : c ≠ s) :
    ∃ q0 p, q = q0 ++ [c] ∧ PC preds s q0 p ∧ p ∈ preds.getD c [] := by
  cases h with
  | base => exact absurd rfl hcs
  | step h1 h2 _ => exact ⟨_, _, rfl, h1, h2⟩

theorem enum_mem {ok : Nat → Prop} {rank : Nat → Nat} (h : PS preds s ok rank) (k : Nat) :
    ∀ c lst, ok c → rank c ≤ k → ∀ l, l ∈ enum preds s t k c lst ↔ ∃ q, PC preds s q c ∧ l = q ++ lst ++ [t] := by
  induction k with
  | zero =>
    intro c lst hc hk l
    by_cases hcs : c = s
    · subst hcs
      simp only [enum, if_true, List.mem_singleton]
      constructor
      · rintro rfl; exact ⟨[c], PC.base, by simp⟩
      · rintro ⟨q, hq, rfl⟩; rw [pc_src hq]; simp
    · obtain ⟨p0, l0, hp0⟩ := List.exists_cons_of_ne_nil (h.nonempty c hc hcs)
      have := (h.down c hc p0 (by rw [hp0]; simp)).2
      omega
  | succ k ih =>
    intro c lst hc hk l
    by_cases hcs : c = s
    · subst hcs
      simp only [enum, if_true, List.mem_singleton]
      constructor
      · rintro rfl; exact ⟨[c], PC.base, by simp⟩
      · rintro ⟨q, hq, rfl⟩; rw [pc_src hq]; simp
    · simp only [enum, hcs, if_false, List.mem_flatMap, List.mem_reverse]
      constructor
      · rintro ⟨p, hp, hl⟩
        obtain ⟨hpo, hpr⟩ := h.down c hc p hp
        obtain ⟨q, hq, rfl⟩ := (ih p (c :: lst) hpo (by omega) l).1 hl
        exact ⟨q ++ [c], PC.step hq hp hcs, by simp⟩
      · rintro ⟨q, hq, rfl⟩
        obtain ⟨q0, p, rfl, hq0, hp⟩ := pc_inv hq hcs
        obtain ⟨hpo, hpr⟩ := h.down c hc p hp
        exact ⟨p, hp, (ih p (c :: lst) hpo (by omega) _).2 ⟨q0, hq0, by simp⟩⟩

theorem enum_nodup {ok : Nat → Prop} {rank : Nat → Nat} (h : PS preds s ok rank)
    (hnd : ∀ c, (preds.getD c []).Nodup) (k : Nat) :
    ∀ c lst, ok c → rank c ≤ k → (enum preds s t k c lst).Nodup := by
  induction k with
  | zero =>
    intro c lst hc hk
    simp only [enum]; split <;> simp
  | succ k ih =>
    intro c lst hc hk
    by_cases hcs : c = s
    · simp [enum, hcs]
    · simp only [enum, hcs, if_false, List.Nodup]
      rw [List.pairwise_flatMap]
      constructor
      · intro p hp
        have hpm : p ∈ preds.getD c [] := by simpa using hp
        obtain ⟨hpo, hpr⟩ := h.down c hc p hpm
        exact ih p (c :: lst) hpo (by omega)
      · have hrev : (preds.getD c []).reverse.Nodup := by
          have := hnd c
          simp only [List.Nodup] at this ⊢
          rw [List.pairwise_reverse]
          exact this.imp (fun hab => fun e => hab e.symm)
        refine List.Pairwise.imp_of_mem ?_ hrev
        intro a b ha hb hab x hx y hy hxy
        have ham : a ∈ preds.getD c [] := by simpa using ha
        have hbm : b ∈ preds.getD c [] := by simpa using hb
        obtain ⟨hao, har⟩ := h.down c hc a ham
        obtain ⟨hbo, hbr⟩ := h.down c hc b hbm
        obtain ⟨q1, hq1, rfl⟩ := (enum_mem h k a (c :: lst) hao (by omega) x).1 hx
        obtain ⟨q2, hq2, rfl⟩ := (enum_mem h k b (c :: lst) hbo (by omega) y).1 hy
        have : q1 = q2 := by
          have h1 : q1 ++ (c :: lst ++ [t]) = q2 ++ (c :: lst ++ [t]) := by simpa [List.append_assoc] using hxy
          exact List.append_cancel_right h1
        subst this
        have l1 := pc_last hq1
        have l2 := pc_last hq2
        rw [l1] at l2
        exact hab (Option.some.inj l2)

end BGV.MultiPath
