/-! Prototype P3: queue-based BFS (findVertexPredecessors) -/
namespace BGV.Bfs

abbrev Adj := List (List Nat)
def nbrs (adj : Adj) (u : Nat) : List Nat := adj.getD u []
def MAX : Nat := 4294967295

structure St where
  dist : List Nat
  pred : List Nat
  seen : List Bool
  queue : List Nat

def St.d (st : St) (v : Nat) : Nat := st.dist.getD v MAX
def St.p (st : St) (v : Nat) : Nat := st.pred.getD v MAX
def St.s (st : St) (v : Nat) : Bool := st.seen.getD v false

def visit (cur : Nat) (st : St) (w : Nat) : St :=
  if st.s w then st else
  { dist := st.dist.set w (st.d cur + 1), pred := st.pred.set w cur,
    seen := st.seen.set w true, queue := st.queue ++ [w] }

def expand (adj : Adj) (cur : Nat) (st : St) : St := (nbrs adj cur).foldl (visit cur) st

def loop (adj : Adj) : Nat → St → St
  | 0, st => st
  | fuel+1, st =>
    match st.queue with
    | [] => st
    | cur :: _ =>
      let st' := expand adj cur st
      loop adj fuel { st' with queue := st'.queue.tail }

def init (n s : Nat) : St :=
  { dist := (List.replicate n MAX).set s 0, pred := List.replicate n MAX,
    seen := (List.replicate n false).set s true, queue := [s] }

def bfs (adj : Adj) (s : Nat) : St := loop adj (2 * adj.length + 1) (init adj.length s)

/-- all three vectors have length n -/
structure Sized (n : Nat) (st : St) : Prop where
  hd : st.dist.length = n
  hp : st.pred.length = n
  hs : st.seen.length = n

theorem getD_set {α} (l : List α) (i j : Nat) (x d : α) :
    (l.set i x).getD j d = if i = j ∧ i < l.length then x else l.getD j d := by
  simp only [List.getD_eq_getElem?_getD, List.getElem?_set]
  by_cases h : i = j
  · subst h
    by_cases h2 : i < l.length <;> simp [h2]
  · simp [h]

section visit
variable (cur : Nat)

theorem visit_sized {n} {st : St} (w : Nat) (h : Sized n st) : Sized n (visit cur st w) := by
  unfold visit; split
  · exact h
  · constructor <;> simp [h.hd, h.hp, h.hs]

theorem visit_s {n} {st : St} (w v : Nat) (h : Sized n st) (hw : w < n) :
    (visit cur st w).s v = (st.s v || decide (v = w)) := by
  unfold visit; split
  · rename_i hs
    by_cases hv : v = w
    · subst hv; simp [hs]
    · simp [hv]
  · rename_i hs
    simp only [St.s, getD_set, h.hs]
    by_cases hv : w = v
    · subst hv; simp [hw]
    · have : ¬ v = w := fun e => hv e.symm
      simp [hv, this]

theorem visit_d_seen {st : St} (w v : Nat) (hv : st.s v = true) :
    (visit cur st w).d v = st.d v ∧ (visit cur st w).p v = st.p v := by
  unfold visit; split
  · exact ⟨rfl, rfl⟩
  · rename_i hs
    have : w ≠ v := by rintro rfl; exact hs hv
    simp [St.d, St.p, getD_set, this]

theorem visit_d_other {st : St} (w v : Nat) (hv : v ≠ w) :
    (visit cur st w).d v = st.d v ∧ (visit cur st w).p v = st.p v := by
  unfold visit; split
  · exact ⟨rfl, rfl⟩
  · have : w ≠ v := fun e => hv e.symm
    simp [St.d, St.p, getD_set, this]

theorem visit_d_new {n} {st : St} (w : Nat) (h : Sized n st) (hw : w < n) (hs : st.s w = false) :
    (visit cur st w).d w = st.d cur + 1 ∧ (visit cur st w).p w = cur := by
  unfold visit; simp [hs, St.d, St.p, getD_set, h.hd, h.hp, hw]

theorem visit_queue (st : St) (w : Nat) :
    (visit cur st w).queue = st.queue ++ (if st.s w then [] else [w]) := by
  unfold visit; split <;> simp

end visit

/-- Characterisation of the inner loop. -/
theorem fold_char {n} (cur : Nat) (nb : List Nat) : ∀ (st : St), Sized n st → (∀ w ∈ nb, w < n) → st.s cur = true →
    let st' := nb.foldl (visit cur) st
    Sized n st' ∧
    (∀ v, st'.s v = (st.s v || decide (v ∈ nb))) ∧
    (∀ v, st.s v = true → st'.d v = st.d v ∧ st'.p v = st.p v) ∧
    (∀ v, st.s v = false → v ∈ nb → st'.d v = st.d cur + 1 ∧ st'.p v = cur) ∧
    (∀ v, v ∉ nb → st'.d v = st.d v ∧ st'.p v = st.p v) ∧
    (∃ new, st'.queue = st.queue ++ new ∧ new.Nodup ∧ ∀ v, v ∈ new ↔ (st.s v = false ∧ v ∈ nb)) := by
  induction nb with
  | nil => intro st h _ _; simp; exact h
  | cons w nb ih =>
    intro st h hb hc
    have hw : w < n := hb w (by simp)
    have hb' : ∀ x ∈ nb, x < n := fun x hx => hb x (by simp [hx])
    have h1 := visit_sized cur w h
    have hc1 : (visit cur st w).s cur = true := by rw [visit_s cur w cur h hw]; simp [hc]
    have hdc : (visit cur st w).d cur = st.d cur := (visit_d_seen cur w cur hc).1
    obtain ⟨i1, i2, i3, i4, i5, new, i6, i7, i8⟩ := ih (visit cur st w) h1 hb' hc1
    simp only [List.foldl_cons]
    refine ⟨i1, ?_, ?_, ?_, ?_, ?_⟩
    · intro v; rw [i2, visit_s cur w v h hw]; simp [Bool.or_assoc]
    · intro v hv
      have hv1 : (visit cur st w).s v = true := by rw [visit_s cur w v h hw]; simp [hv]
      have := i3 v hv1
      have := visit_d_seen cur w v hv
      grind
    · intro v hv hmem
      by_cases hvw : v = w
      · subst hvw
        have hs1 : (visit cur st v).s v = true := by rw [visit_s cur v v h hw]; simp
        have := i3 v hs1
        have := visit_d_new cur v h hw hv
        grind
      · have hmem' : v ∈ nb := by simpa [hvw] using hmem
        have hs1 : (visit cur st w).s v = false := by rw [visit_s cur w v h hw]; simp [hv, hvw]
        have := i4 v hs1 hmem'
        grind
    · intro v hv
      have hvw : v ≠ w := by intro e; apply hv; simp [e]
      have hvn : v ∉ nb := by intro e; apply hv; simp [e]
      have := i5 v hvn
      have := visit_d_other (st := st) cur w v hvw
      grind
    · rw [visit_queue] at i6
      refine ⟨(if st.s w then [] else [w]) ++ new, by simpa [List.append_assoc] using i6, ?_, ?_⟩
      · split
        · simpa using i7
        · rename_i hsw
          simp only [List.singleton_append, List.nodup_cons]
          refine ⟨?_, i7⟩
          intro hmem
          have := (i8 w).1 hmem
          rw [visit_s cur w w h hw] at this
          simp at this
      · intro v
        rw [List.mem_append, i8, visit_s cur w v h hw]
        by_cases hvw : v = w
        · subst hvw
          by_cases hsv : st.s v <;> simp [hsv]
        · by_cases hsv : st.s v <;> simp [hsv, hvw]

end BGV.Bfs
