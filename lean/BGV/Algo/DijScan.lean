import BGV.Algo.DijCorrect
/-!
# BGV.Algo.DijScan — with a correct heap (every pop is a minimum of the worklist) and
non-negative weights, `findGeodesicsDijkstra` scans at most `E + 1` neighbourhoods.

Popped keys never decrease; a vertex's distance is final when it is first popped; a second
scan of the same vertex improves nothing.  So every push is charged to one neighbour-list entry
of the *first* scan of its source, and pops = 1 + pushes ≤ 1 + E.
-/
namespace BGV.Dij
open BGV.Bfs (nbrs MAX WF nbrs_lt getD_set)

def deg (adj : Adj) (u : Nat) : Nat := (nbrs adj u).length

theorem sum_erase (m : List Nat) (f : Nat → Nat) (a : Nat) (h : a ∈ m) :
    (m.map f).sum = f a + ((m.erase a).map f).sum := by
  induction m with
  | nil => cases h
  | cons b m ih =>
    by_cases hab : b = a
    · subst hab; simp
    · have : a ∈ m := by
        rcases List.mem_cons.1 h with h1 | h1
        · exact absurd h1.symm hab
        · exact h1
      have hne : (b == a) = false := by simpa using hab
      simp only [List.erase_cons, hne, List.map_cons, List.sum_cons, ih this]
      simp; omega

theorem sum_le_of_nodup_subset (l m : List Nat) (f : Nat → Nat) (hn : l.Nodup) (hs : ∀ x ∈ l, x ∈ m) :
    (l.map f).sum ≤ (m.map f).sum := by
  induction l generalizing m with
  | nil => simp
  | cons a l ih =>
    have ha : a ∈ m := hs a (by simp)
    rw [sum_erase m f a ha]
    simp only [List.map_cons, List.sum_cons]
    have := ih (m.erase a) (List.nodup_cons.1 hn).2 (by
      intro x hx
      have hxa : x ≠ a := fun e => (List.nodup_cons.1 hn).1 (e ▸ hx)
      exact (List.mem_erase_of_ne hxa).2 (hs x (by simp [hx])))
    omega

theorem length_le_of_nodup_subset (l m : List Nat) (hn : l.Nodup) (hs : ∀ x ∈ l, x ∈ m) : l.length ≤ m.length := by
  have := sum_le_of_nodup_subset l m (fun _ => 1) hn hs
  have e : ∀ k : List Nat, (k.map (fun _ => 1)).sum = k.length := by
    intro k; induction k with
    | nil => rfl
    | cons a k ih => simp [ih]; omega
  rw [e, e] at this; exact this

/-- total length of the neighbour lists -/
def edgeCount (adj : Adj) : Nat := ((List.range adj.length).map (deg adj)).sum

/-- the counting invariant: `L` last popped key, `S` vertices scanned so far, `P` pushes so far,
`Q` pops so far -/
structure MInv (adj : Adj) (wt : Nat → Nat → Nat) (st : DS) (L : Nat) (S : List Nat) (P Q : Nat) : Prop where
  workKey : ∀ y ∈ st.work, ∃ dy, st.d y = some dy ∧ L ≤ dy
  scanned : ∀ u ∈ S, u < adj.length ∧ ∃ du, st.d u = some du ∧ du ≤ L ∧
    ∀ w ∈ nbrs adj u, ∃ dw, st.d w = some dw ∧ dw ≤ du + wt u w
  nodup : S.Nodup
  count : st.work.length + Q = 1 + P
  charge : P ≤ (S.map (deg adj)).sum

theorem legal_min {st : DS} {x : Nat} (hl : BGV.DijRun.legal st x = true) (dx : Nat) (hdx : st.d x = some dx) :
    ∀ y ∈ st.work, ∀ dy, st.d y = some dy → dx ≤ dy := by
  simp only [BGV.DijRun.legal, Bool.and_eq_true, hdx, List.all_eq_true] at hl
  intro y hy dy hdy
  have := hl.2 y hy
  rw [hdy] at this
  simpa using this

theorem mstep {adj : Adj} {wt : Nat → Nat → Nat} {s : Nat} (hwf : WF adj) {st : DS} {x L : Nat} {S : List Nat} {P Q : Nat}
    (h : DInv adj wt s st) (m : MInv adj wt st L S P Q) (hx : x ∈ st.work) (hl : BGV.DijRun.legal st x = true) :
    ∃ L' S' P', MInv adj wt (popStep wt adj st x) L' S' P' (Q + 1) := by
  obtain ⟨dx, hdx, hLx⟩ := m.workKey x hx
  have hmin := legal_min hl dx hdx
  let st0 : DS := ⟨st.dist, st.pred, st.work.erase x⟩
  have hs0 : Sized adj.length st0 := ⟨h.sized.hd, h.sized.hp⟩
  have hd0 : ∀ v, st0.d v = st.d v := fun _ => rfl
  have hb : ∀ w ∈ nbrs adj x, w < adj.length := fun w hw => nbrs_lt hwf hw
  obtain ⟨e1, e2, e3, e4, new, e5, e6, e7⟩ := fold_char wt x dx (nbrs adj x) st0 hs0 hb (by rw [hd0]; exact hdx)
  have hst' : popStep wt adj st x = (nbrs adj x).foldl (relax wt x) st0 := rfl
  rw [hst']
  generalize (nbrs adj x).foldl (relax wt x) st0 = st' at e1 e2 e3 e4 e5
  simp only [hd0] at e3 e7
  have hxlt : x < adj.length := by
    cases Nat.lt_or_ge x adj.length with
    | inl h1 => exact h1
    | inr h1 =>
      exfalso
      have : st.dist[x]? = none := by simp [h.sized.hd]; omega
      simp [DS.d, List.getD_eq_getElem?_getD, this] at hdx
  -- distances after the scan
  have hd' : ∀ v dv, st.d v = some dv → ∃ dv', st'.d v = some dv' ∧ dv' ≤ dv ∧ (dx ≤ dv → dx ≤ dv') := by
    intro v dv hv
    rw [e3]
    by_cases hc : v ∈ nbrs adj x ∧ ltInf (dx + wt x v) (st.d v) = true
    · rw [if_pos hc]
      have := hc.2; rw [hv, ltInf_some] at this
      exact ⟨_, rfl, by simp at this; omega, fun _ => by omega⟩
    · rw [if_neg hc]; exact ⟨dv, hv, Nat.le_refl _, fun h => h⟩
  have hsame : ∀ v dv, st.d v = some dv → dv ≤ dx → st'.d v = some dv := by
    intro v dv hv hle
    rw [e3]
    by_cases hc : v ∈ nbrs adj x ∧ ltInf (dx + wt x v) (st.d v) = true
    · have := hc.2; rw [hv, ltInf_some] at this
      simp at this; omega
    · rw [if_neg hc]; exact hv
  have hnbr : ∀ w ∈ nbrs adj x, ∃ dw, st'.d w = some dw ∧ dw ≤ dx + wt x w := by
    intro w hw
    rw [e3]
    by_cases hc : ltInf (dx + wt x w) (st.d w) = true
    · simp only [hw, hc, and_self, if_true]; exact ⟨_, rfl, Nat.le_refl _⟩
    · have hf : ltInf (dx + wt x w) (st.d w) = false := by simpa using hc
      simp only [hw, hf, Bool.false_eq_true, and_false, if_false]
      cases hdw : st.d w with
      | none => rw [hdw, ltInf_none] at hf; cases hf
      | some dw => rw [hdw, ltInf_some] at hf; exact ⟨dw, rfl, by simp at hf; omega⟩
  have hworkmem : ∀ y, y ∈ st'.work ↔ (y ∈ st.work.erase x ∨ y ∈ new) := by
    intro y; rw [e5]; exact List.mem_append
  have hwk' : ∀ y ∈ st'.work, ∃ dy, st'.d y = some dy ∧ dx ≤ dy := by
    intro y hy
    rcases (hworkmem y).1 hy with h1 | h1
    · have hyw : y ∈ st.work := List.mem_of_mem_erase h1
      obtain ⟨dy, hdy, _⟩ := m.workKey y hyw
      obtain ⟨dy', h1', _, h3⟩ := hd' y dy hdy
      exact ⟨dy', h1', h3 (hmin y hyw dy hdy)⟩
    · have := (e7 y).1 h1
      rw [e3]; simp only [this, and_self, if_true]
      exact ⟨_, rfl, by omega⟩
  have hlen : st'.work.length = st.work.length - 1 + new.length := by
    rw [e5]; simp only [List.length_append]
    show (st.work.erase x).length + _ = _
    rw [List.length_erase_of_mem hx]
  have hwpos : 0 < st.work.length := List.length_pos_of_mem hx
  have hscan_old : ∀ u ∈ S, u < adj.length ∧ ∃ du, st'.d u = some du ∧ du ≤ dx ∧
      ∀ w ∈ nbrs adj u, ∃ dw, st'.d w = some dw ∧ dw ≤ du + wt u w := by
    intro u hu
    obtain ⟨hlt, du, hdu, hduL, hcl⟩ := m.scanned u hu
    refine ⟨hlt, du, hsame u du hdu (by omega), by omega, ?_⟩
    intro w hw
    obtain ⟨dw, hdw, hle⟩ := hcl w hw
    obtain ⟨dw', h1', h2', _⟩ := hd' w dw hdw
    exact ⟨dw', h1', by omega⟩
  by_cases hxS : x ∈ S
  · -- a repeated scan improves nothing
    have hnew : new = [] := by
      cases hn : new with
      | nil => rfl
      | cons v l =>
        exfalso
        have hv := (e7 v).1 (by rw [hn]; simp)
        obtain ⟨_, du, hdu, _, hcl⟩ := m.scanned x hxS
        rw [hdx] at hdu; injection hdu with hdu; subst hdu
        obtain ⟨dw, hdw, hle⟩ := hcl v hv.1
        have := hv.2; rw [hdw, ltInf_some] at this
        simp at this; omega
    refine ⟨dx, S, P, ⟨hwk', hscan_old, m.nodup, ?_, m.charge⟩⟩
    rw [hlen, hnew]; have := m.count; simp; omega
  · refine ⟨dx, x :: S, P + new.length, ⟨hwk', ?_, List.nodup_cons.2 ⟨hxS, m.nodup⟩, ?_, ?_⟩⟩
    · intro u hu
      rcases List.mem_cons.1 hu with rfl | hu
      · exact ⟨hxlt, dx, e2, Nat.le_refl _, hnbr⟩
      · exact hscan_old u hu
    · rw [hlen]; have := m.count; omega
    · simp only [List.map_cons, List.sum_cons]
      have : new.length ≤ deg adj x :=
        length_le_of_nodup_subset new (nbrs adj x) e6 (fun v hv => ((e7 v).1 hv).1)
      have := m.charge
      omega

/-- **scan bound**: if every pop was a minimum of the worklist, the number of pops (= scans) is at
most `1 + E` -/
theorem run_scans {adj : Adj} {wt : Nat → Nat → Nat} {s : Nat} (hwf : WF adj) (pops : List Nat) :
    ∀ (st : DS) (am : Bool) (r : DS × Bool) (L : Nat) (S : List Nat) (P Q : Nat), DInv adj wt s st →
      MInv adj wt st L S P Q → BGV.DijRun.run wt adj pops st am = some r → r.2 = true →
      Q + pops.length ≤ 1 + edgeCount adj := by
  induction pops with
  | nil =>
    intro st am r L S P Q h m hr _
    simp only [BGV.DijRun.run] at hr
    split at hr
    · rename_i he
      have hw : st.work = [] := by simpa using he
      have hc := m.count
      rw [hw] at hc
      have h1 := m.charge
      have h2 : (S.map (deg adj)).sum ≤ edgeCount adj :=
        sum_le_of_nodup_subset S (List.range adj.length) (deg adj) m.nodup
          (fun u hu => List.mem_range.2 (m.scanned u hu).1)
      simp at hc ⊢; omega
    · cases hr
  | cons x xs ih =>
    intro st am r L S P Q h m hr hall
    simp only [BGV.DijRun.run] at hr
    split at hr
    · rename_i hc
      have hx : x ∈ st.work := by simpa using hc
      -- the final flag is true, so this pop was legal
      have hflag : ∀ (ys : List Nat) (st1 : DS) (b : Bool) (r1 : DS × Bool),
          BGV.DijRun.run wt adj ys st1 b = some r1 → r1.2 = true → b = true := by
        intro ys
        induction ys with
        | nil =>
          intro st1 b r1 h1 h2
          simp only [BGV.DijRun.run] at h1
          split at h1
          · injection h1 with h1; subst h1; exact h2
          · cases h1
        | cons y ys ih2 =>
          intro st1 b r1 h1 h2
          simp only [BGV.DijRun.run] at h1
          split at h1
          · have := ih2 _ _ r1 h1 h2
            simp only [Bool.and_eq_true] at this; exact this.1
          · cases h1
      have hb := hflag xs _ _ r hr hall
      simp only [Bool.and_eq_true] at hb
      obtain ⟨L', S', P', m'⟩ := mstep hwf h m hx hb.2
      have := ih _ _ r L' S' P' (Q + 1) (step_inv hwf h hx) m' hr hall
      simp only [List.length_cons]; omega
    · cases hr

theorem init_minv (adj : Adj) (wt : Nat → Nat → Nat) (s : Nat) (hs : s < adj.length) :
    MInv adj wt (BGV.DijRun.init adj.length s) 0 [] 0 0 := by
  constructor
  · intro y hy
    simp only [BGV.DijRun.init, List.mem_singleton] at hy
    subst hy
    refine ⟨0, ?_, Nat.le_refl _⟩
    simp [DS.d, BGV.DijRun.init, hs]
  · intro u hu; cases hu
  · exact List.nodup_nil
  · show [s].length + 0 = 1 + 0; rfl
  · exact Nat.zero_le _

end BGV.Dij
