import BGV.Algo.Bfs
namespace BGV.Bfs

inductive Walk (adj : Adj) (s : Nat) : Nat → Nat → Prop
  | nil : Walk adj s s 0
  | snoc {u v k} : Walk adj s u k → v ∈ nbrs adj u → Walk adj s v (k+1)

def WF (adj : Adj) : Prop := ∀ l ∈ adj, ∀ j ∈ l, j < adj.length

theorem nbrs_lt {adj : Adj} (h : WF adj) {u w : Nat} (hw : w ∈ nbrs adj u) : w < adj.length := by
  unfold nbrs at hw
  rw [List.getD_eq_getElem?_getD] at hw
  cases hu : adj[u]? with
  | none => simp [hu] at hw
  | some l =>
    simp [hu] at hw
    exact h l (List.mem_of_getElem? hu) w hw

def St.pop (st : St) : St := ⟨st.dist, st.pred, st.seen, st.queue.tail⟩
@[simp] theorem St.pop_d (st : St) (v : Nat) : st.pop.d v = st.d v := rfl
@[simp] theorem St.pop_p (st : St) (v : Nat) : st.pop.p v = st.p v := rfl
@[simp] theorem St.pop_s (st : St) (v : Nat) : st.pop.s v = st.s v := rfl
@[simp] theorem St.pop_queue (st : St) : st.pop.queue = st.queue.tail := rfl

structure OInv (adj : Adj) (s : Nat) (st : St) : Prop where
  sized : Sized adj.length st
  src : st.s s = true ∧ st.d s = 0
  tree : ∀ v, st.s v = true → v ≠ s →
    st.s (st.p v) = true ∧ v ∈ nbrs adj (st.p v) ∧ st.d v = st.d (st.p v) + 1
  qseen : ∀ x ∈ st.queue, st.s x = true
  qnodup : st.queue.Nodup
  qsorted : st.queue.Pairwise (fun a b => st.d a ≤ st.d b)
  qspan : ∀ h ∈ st.queue.head?, ∀ x ∈ st.queue, st.d x ≤ st.d h + 1
  closed : ∀ u, st.s u = true → u ∉ st.queue →
    ∀ w ∈ nbrs adj u, st.s w = true ∧ st.d w ≤ st.d u + 1
  mono : ∀ u, st.s u = true → u ∉ st.queue → ∀ x ∈ st.queue, st.d u ≤ st.d x
  unseen : ∀ v, st.s v = false → st.d v = MAX ∧ st.p v = MAX

theorem step_inv {adj : Adj} {s : Nat} (hwf : WF adj) {st : St} {cur : Nat} {rest : List Nat}
    (h : OInv adj s st) (hq : st.queue = cur :: rest) :
    OInv adj s (expand adj cur st).pop := by
  have hcur : st.s cur = true := h.qseen cur (by simp [hq])
  have hb : ∀ w ∈ nbrs adj cur, w < adj.length := fun w hw => nbrs_lt hwf hw
  obtain ⟨e1, e2, e3, e4, e5, new, e6, e7, e8⟩ := fold_char cur (nbrs adj cur) st h.sized hb hcur
  have hqn := h.qnodup
  rw [hq] at hqn
  have hcr : cur ∉ rest := (List.nodup_cons.1 hqn).1
  have hrn : rest.Nodup := (List.nodup_cons.1 hqn).2
  have hqs := h.qsorted
  rw [hq] at hqs
  have hcle : ∀ x ∈ rest, st.d cur ≤ st.d x := (List.pairwise_cons.1 hqs).1
  have hrs : rest.Pairwise (fun a b => st.d a ≤ st.d b) := (List.pairwise_cons.1 hqs).2
  have hspan : ∀ x ∈ cur :: rest, st.d x ≤ st.d cur + 1 := by
    have := h.qspan cur (by simp [hq]); rwa [hq] at this
  have hrseen : ∀ x ∈ rest, st.s x = true := fun x hx => h.qseen x (by simp [hq, hx])
  -- new queue
  have hq' : (expand adj cur st).queue.tail = rest ++ new := by
    show ((nbrs adj cur).foldl (visit cur) st).queue.tail = _
    rw [e6, hq]; simp
  -- abbreviations
  generalize hst' : expand adj cur st = st' at *
  have hst'' : st' = (nbrs adj cur).foldl (visit cur) st := hst'.symm
  rw [← hst''] at e1 e2 e3 e4 e5 e6
  have dnew : ∀ v ∈ new, st'.d v = st.d cur + 1 ∧ st'.p v = cur := fun v hv =>
    e4 v ((e8 v).1 hv).1 ((e8 v).1 hv).2
  have dold : ∀ v, st.s v = true → st'.d v = st.d v := fun v hv => (e3 v hv).1
  have seen' : ∀ v, st.s v = true → st'.s v = true := fun v hv => by rw [e2]; simp [hv]
  have blk : ∀ u, st'.s u = true → u ∉ rest ++ new → u ≠ cur → st.s u = true ∧ u ∉ st.queue := by
    intro u hu hnot hne
    have hsu : st.s u = true := by
      cases hsu : st.s u with
      | true => rfl
      | false =>
        exfalso; apply hnot
        have : u ∈ nbrs adj cur := by rw [e2] at hu; simpa [hsu] using hu
        exact List.mem_append_right _ ((e8 u).2 ⟨hsu, this⟩)
    refine ⟨hsu, ?_⟩
    rw [hq]; intro hm
    rcases List.mem_cons.1 hm with rfl | hm
    · exact hne rfl
    · exact hnot (List.mem_append_left _ hm)
  constructor
  · exact ⟨e1.hd, e1.hp, e1.hs⟩
  · exact ⟨seen' s h.src.1, by show st'.d s = 0; rw [dold s h.src.1]; exact h.src.2⟩
  · intro v hv hvs
    replace hv : st'.s v = true := hv
    show st'.s (st'.p v) = true ∧ v ∈ nbrs adj (st'.p v) ∧ st'.d v = st'.d (st'.p v) + 1
    cases hsv : st.s v with
    | true =>
      obtain ⟨t1, t2, t3⟩ := h.tree v hsv hvs
      rw [(e3 v hsv).2, (e3 v hsv).1, dold _ t1]
      exact ⟨seen' _ t1, t2, t3⟩
    | false =>
      have hmem : v ∈ nbrs adj cur := by rw [e2] at hv; simpa [hsv] using hv
      obtain ⟨a, b⟩ := e4 v hsv hmem
      rw [b, a, dold cur hcur]
      exact ⟨seen' _ hcur, hmem, rfl⟩
  · intro x hx
    show st'.s x = true
    replace hx : x ∈ st'.queue.tail := hx
    rw [hq'] at hx
    rcases List.mem_append.1 hx with hx | hx
    · exact seen' x (hrseen x hx)
    · rw [e2]; simp [((e8 x).1 hx).2]
  · show ((st'.queue).tail).Nodup
    rw [hq']
    refine List.nodup_append.2 ⟨hrn, e7, ?_⟩
    intro a ha b hb hab
    subst hab
    have := hrseen a ha
    rw [((e8 a).1 hb).1] at this; cases this
  · show (st'.queue.tail).Pairwise (fun a b => st'.d a ≤ st'.d b)
    rw [hq']
    refine List.pairwise_append.2 ⟨?_, ?_, ?_⟩
    · exact hrs.imp_of_mem (fun {a b} ha hb hab => by rw [dold a (hrseen a ha), dold b (hrseen b hb)]; exact hab)
    · apply List.Pairwise.imp_of_mem (R := fun _ _ => True)
      · intro a b ha hb _; rw [(dnew a ha).1, (dnew b hb).1]; exact Nat.le_refl _
      · exact List.pairwise_of_forall (by intros; trivial)
    · intro a ha b hb
      rw [dold a (hrseen a ha), (dnew b hb).1]
      exact hspan a (by simp [ha])
  · show ∀ hd ∈ (st'.queue.tail).head?, ∀ x ∈ st'.queue.tail, st'.d x ≤ st'.d hd + 1
    rw [hq']
    intro hd hhd x hx
    have hx1 : st'.d x ≤ st.d cur + 1 := by
      rcases List.mem_append.1 hx with hx | hx
      · rw [dold x (hrseen x hx)]; exact hspan x (by simp [hx])
      · rw [(dnew x hx).1]; exact Nat.le_refl _
    have hhd1 : st.d cur ≤ st'.d hd := by
      have hmem : hd ∈ rest ++ new := List.mem_of_mem_head? hhd
      rcases List.mem_append.1 hmem with hm | hm
      · rw [dold hd (hrseen hd hm)]; exact hcle hd hm
      · rw [(dnew hd hm).1]; omega
    omega
  · show ∀ u, st'.s u = true → u ∉ st'.queue.tail → ∀ w ∈ nbrs adj u, st'.s w = true ∧ st'.d w ≤ st'.d u + 1
    rw [hq']
    intro u hu hnot w hw
    by_cases huc : u = cur
    · subst huc
      refine ⟨by rw [e2]; simp [hw], ?_⟩
      rw [dold u hcur]
      cases hsw : st.s w with
      | false => rw [(e4 w hsw hw).1]; exact Nat.le_refl _
      | true =>
        rw [dold w hsw]
        by_cases hwq : w ∈ st.queue
        · rw [hq] at hwq; exact hspan w hwq
        · have := h.mono w hsw hwq u (by simp [hq]); omega
    · obtain ⟨hsu, hnq⟩ := blk u hu hnot huc
      obtain ⟨c1, c2⟩ := h.closed u hsu hnq w hw
      rw [dold w c1, dold u hsu]
      exact ⟨seen' w c1, c2⟩
  · show ∀ u, st'.s u = true → u ∉ st'.queue.tail → ∀ x ∈ st'.queue.tail, st'.d u ≤ st'.d x
    rw [hq']
    intro u hu hnot x hx
    by_cases huc : u = cur
    · subst huc
      rw [dold u hcur]
      rcases List.mem_append.1 hx with hx | hx
      · rw [dold x (hrseen x hx)]; exact hcle x hx
      · rw [(dnew x hx).1]; omega
    · obtain ⟨hsu, hnq⟩ := blk u hu hnot huc
      rw [dold u hsu]
      have hucur : st.d u ≤ st.d cur := h.mono u hsu hnq cur (by simp [hq])
      rcases List.mem_append.1 hx with hx | hx
      · rw [dold x (hrseen x hx)]; exact h.mono u hsu hnq x (by simp [hq, hx])
      · rw [(dnew x hx).1]; omega
  · intro v hv
    replace hv : st'.s v = false := hv
    show st'.d v = MAX ∧ st'.p v = MAX
    have hsv : st.s v = false := by
      cases hsv : st.s v with
      | false => rfl
      | true => rw [seen' v hsv] at hv; cases hv
    have hnm : v ∉ nbrs adj cur := by
      intro hm; rw [e2] at hv; simp [hm] at hv
    rw [(e5 v hnm).1, (e5 v hnm).2]
    exact h.unseen v hsv

end BGV.Bfs
