import BGV.Algo.Dij
import BGV.Algo.Bfs2
import BGV.Model.Paths
/-!
# BGV.Algo.DijCorrect — `findGeodesicsDijkstra` is correct for EVERY pop order

The worklist loop is a label-correcting algorithm: whatever element of the worklist is taken next,
(1) every finite tentative distance is the weight of a real walk, (2) every reached vertex that is
not in the worklist has all its out-edges relaxed.  When the worklist is empty these two facts pin
the distances to the minimum walk weights.  Weights are natural numbers (quarter units ≥ 0).
-/
namespace BGV.Dij
open BGV.Bfs (nbrs MAX WF nbrs_lt getD_set)

/-- walks with accumulated weight -/
inductive WalkW (adj : Adj) (wt : Nat → Nat → Nat) (s : Nat) : Nat → Nat → Prop
  | nil : WalkW adj wt s s 0
  | snoc {u v k} : WalkW adj wt s u k → v ∈ nbrs adj u → WalkW adj wt s v (k + wt u v)

structure DInv (adj : Adj) (wt : Nat → Nat → Nat) (s : Nat) (st : DS) : Prop where
  sized : Sized adj.length st
  src : st.d s = some 0
  real : ∀ v k, st.d v = some k → WalkW adj wt s v k
  closed : ∀ u du, st.d u = some du → u ∉ st.work →
    ∀ w ∈ nbrs adj u, ∃ dw, st.d w = some dw ∧ dw ≤ du + wt u w
  predS : st.p s = s
  pred : ∀ v k, v ≠ s → st.d v = some k →
    ∃ du, st.d (st.p v) = some du ∧ v ∈ nbrs adj (st.p v) ∧ du + wt (st.p v) v ≤ k
  unreached : ∀ v, st.d v = none → st.p v = MAX
  workFin : ∀ x ∈ st.work, ∃ dx, st.d x = some dx

theorem ltInf_some (a b : Nat) : ltInf a (some b) = decide (a < b) := rfl
theorem ltInf_none (a : Nat) : ltInf a none = true := rfl

/-- one iteration of the `while` loop: take `x` out of the worklist and scan its neighbours -/
def popStep (wt : Nat → Nat → Nat) (adj : Adj) (st : DS) (x : Nat) : DS :=
  expand wt adj x ⟨st.dist, st.pred, st.work.erase x⟩

theorem step_inv {adj : Adj} {wt : Nat → Nat → Nat} {s : Nat} (hwf : WF adj) {st : DS} {x : Nat}
    (h : DInv adj wt s st) (hx : x ∈ st.work) : DInv adj wt s (popStep wt adj st x) := by
  obtain ⟨dx, hdx⟩ := h.workFin x hx
  let st0 : DS := ⟨st.dist, st.pred, st.work.erase x⟩
  have hs0 : Sized adj.length st0 := ⟨h.sized.hd, h.sized.hp⟩
  have hd0 : ∀ v, st0.d v = st.d v := fun _ => rfl
  have hp0 : ∀ v, st0.p v = st.p v := fun _ => rfl
  have hb : ∀ w ∈ nbrs adj x, w < adj.length := fun w hw => nbrs_lt hwf hw
  obtain ⟨e1, e2, e3, e4, new, e5, e6, e7⟩ := fold_char wt x dx (nbrs adj x) st0 hs0 hb (by rw [hd0]; exact hdx)
  have hst' : popStep wt adj st x = (nbrs adj x).foldl (relax wt x) st0 := rfl
  rw [hst']
  generalize (nbrs adj x).foldl (relax wt x) st0 = st' at e1 e2 e3 e4 e5
  simp only [hd0] at e3 e4 e7
  simp only [hp0] at e4
  -- distances only decrease
  have mono : ∀ v k, st.d v = some k → ∃ k', st'.d v = some k' ∧ k' ≤ k := by
    intro v k hk
    rw [e3]
    by_cases hc : v ∈ nbrs adj x ∧ ltInf (dx + wt x v) (st.d v) = true
    · rw [if_pos hc]
      have := hc.2; rw [hk, ltInf_some] at this
      exact ⟨_, rfl, by simp at this; omega⟩
    · rw [if_neg hc]; exact ⟨k, hk, Nat.le_refl k⟩
  have unimproved : ∀ v, ¬ (v ∈ nbrs adj x ∧ ltInf (dx + wt x v) (st.d v) = true) → st'.d v = st.d v ∧ st'.p v = st.p v := by
    intro v hc; rw [e3, e4, if_neg hc, if_neg hc]; exact ⟨rfl, rfl⟩
  have improved : ∀ v, (v ∈ nbrs adj x ∧ ltInf (dx + wt x v) (st.d v) = true) → st'.d v = some (dx + wt x v) ∧ st'.p v = x := by
    intro v hc; rw [e3, e4, if_pos hc, if_pos hc]; exact ⟨rfl, rfl⟩
  have hsrc_unimp : ¬ (s ∈ nbrs adj x ∧ ltInf (dx + wt x s) (st.d s) = true) := by
    rintro ⟨_, h2⟩; rw [h.src, ltInf_some] at h2; simp at h2
  refine ⟨e1, ?_, ?_, ?_, ?_, ?_, ?_, ?_⟩
  · rw [(unimproved s hsrc_unimp).1]; exact h.src
  · intro v k hk
    by_cases hc : v ∈ nbrs adj x ∧ ltInf (dx + wt x v) (st.d v) = true
    · rw [(improved v hc).1] at hk
      injection hk with hk; subst hk
      exact WalkW.snoc (h.real x dx hdx) hc.1
    · rw [(unimproved v hc).1] at hk; exact h.real v k hk
  · intro u du hu hnw w hw
    rw [e5] at hnw
    by_cases hux : u = x
    · subst hux
      rw [e2] at hu; injection hu with hu; subst hu
      by_cases hc : w ∈ nbrs adj u ∧ ltInf (dx + wt u w) (st.d w) = true
      · exact ⟨_, (improved w hc).1, Nat.le_refl _⟩
      · rw [(unimproved w hc).1]
        have hf : ltInf (dx + wt u w) (st.d w) = false := by
          cases hh : ltInf (dx + wt u w) (st.d w) with
          | false => rfl
          | true => exact absurd ⟨hw, hh⟩ hc
        cases hdw : st.d w with
        | none => rw [hdw, ltInf_none] at hf; cases hf
        | some dw =>
          rw [hdw, ltInf_some] at hf
          exact ⟨dw, rfl, by simp at hf; omega⟩
    · have hnnew : u ∉ new := fun hm => hnw (List.mem_append_right _ hm)
      have hnold : u ∉ st.work := by
        intro hm
        exact hnw (List.mem_append_left _ ((List.mem_erase_of_ne hux).2 hm))
      have hunimp : ¬ (u ∈ nbrs adj x ∧ ltInf (dx + wt x u) (st.d u) = true) := fun hc => hnnew ((e7 u).2 hc)
      rw [(unimproved u hunimp).1] at hu
      obtain ⟨dw, hdw, hle⟩ := h.closed u du hu hnold w hw
      obtain ⟨dw', hdw', hle'⟩ := mono w dw hdw
      exact ⟨dw', hdw', by omega⟩
  · rw [(unimproved s hsrc_unimp).2]; exact h.predS
  · intro v k hvs hk
    by_cases hc : v ∈ nbrs adj x ∧ ltInf (dx + wt x v) (st.d v) = true
    · obtain ⟨i1, i2⟩ := improved v hc
      rw [i1] at hk; injection hk with hk; subst hk
      rw [i2]
      exact ⟨dx, e2, hc.1, Nat.le_refl _⟩
    · obtain ⟨i1, i2⟩ := unimproved v hc
      rw [i1] at hk; rw [i2]
      obtain ⟨du, hdu, hmem, hle⟩ := h.pred v k hvs hk
      obtain ⟨du', hdu', hle'⟩ := mono (st.p v) du hdu
      exact ⟨du', hdu', hmem, by omega⟩
  · intro v hv
    by_cases hc : v ∈ nbrs adj x ∧ ltInf (dx + wt x v) (st.d v) = true
    · rw [(improved v hc).1] at hv; cases hv
    · obtain ⟨i1, i2⟩ := unimproved v hc
      rw [i1] at hv; rw [i2]; exact h.unreached v hv
  · intro y hy
    rw [e5] at hy
    rcases List.mem_append.1 hy with hy | hy
    · obtain ⟨dy, hdy⟩ := h.workFin y (List.mem_of_mem_erase hy)
      obtain ⟨dy', hdy', _⟩ := mono y dy hdy
      exact ⟨dy', hdy'⟩
    · exact ⟨_, (improved y ((e7 y).1 hy)).1⟩

theorem init_inv (adj : Adj) (wt : Nat → Nat → Nat) (s : Nat) (hs : s < adj.length) :
    DInv adj wt s (BGV.DijRun.init adj.length s) := by
  have hd : ∀ v, (BGV.DijRun.init adj.length s).d v = if v = s then some 0 else none := by
    intro v
    simp only [DS.d, BGV.DijRun.init, getD_set, List.length_replicate]
    by_cases h : s = v
    · subst h; simp [hs]
    · have : ¬ v = s := fun e => h e.symm
      simp [h, this, List.getD_eq_getElem?_getD, List.getElem?_replicate]
      split <;> rfl
  have hp : ∀ v, (BGV.DijRun.init adj.length s).p v = if v = s then s else MAX := by
    intro v
    simp only [DS.p, BGV.DijRun.init, getD_set, List.length_replicate]
    by_cases h : s = v
    · subst h; simp [hs]
    · have : ¬ v = s := fun e => h e.symm
      simp [h, this, List.getD_eq_getElem?_getD, List.getElem?_replicate]
      split <;> rfl
  refine ⟨⟨by simp [BGV.DijRun.init], by simp [BGV.DijRun.init]⟩, by simp [hd], ?_, ?_, by simp [hp], ?_, ?_, ?_⟩
  · intro v k hk
    rw [hd] at hk
    by_cases hvs : v = s
    · subst hvs; simp at hk; subst hk; exact WalkW.nil
    · simp [hvs] at hk
  · intro u du hu hnw
    rw [hd] at hu
    by_cases hus : u = s
    · subst hus; exact absurd (by simp [BGV.DijRun.init]) hnw
    · simp [hus] at hu
  · intro v k hvs hk; rw [hd] at hk; simp [hvs] at hk
  · intro v hv
    rw [hd] at hv
    by_cases hvs : v = s
    · simp [hvs] at hv
    · rw [hp]; simp [hvs]
  · intro x hx
    simp only [BGV.DijRun.init, List.mem_singleton] at hx
    subst hx; exact ⟨0, by simp [hd]⟩

theorem run_inv {adj : Adj} {wt : Nat → Nat → Nat} {s : Nat} (hwf : WF adj) (pops : List Nat) :
    ∀ (st : DS) (am : Bool) (r : DS × Bool), DInv adj wt s st →
      BGV.DijRun.run wt adj pops st am = some r → DInv adj wt s r.1 ∧ r.1.work = [] := by
  induction pops with
  | nil =>
    intro st am r h hr
    simp only [BGV.DijRun.run] at hr
    split at hr
    · injection hr with hr; subst hr
      rename_i he
      exact ⟨h, by simpa using he⟩
    · cases hr
  | cons x xs ih =>
    intro st am r h hr
    simp only [BGV.DijRun.run] at hr
    split at hr
    · rename_i hc
      have hx : x ∈ st.work := by simpa using hc
      exact ih _ _ r (step_inv hwf h hx) hr
    · cases hr

end BGV.Dij
