import BGV.Algo.Bfs2
namespace BGV.Bfs

theorem pigeon (l : List Nat) (n : Nat) (hnd : l.Nodup) (hb : ∀ x ∈ l, x < n) : l.length ≤ n := by
  have : l ⊆ List.range n := fun x hx => List.mem_range.2 (hb x hx)
  simpa using hnd.length_le_of_subset this

/-- loop with a ghost list of expanded ("black") vertices, in expansion order -/
def loopG (adj : Adj) : Nat → St → List Nat → St × List Nat
  | 0, st, blk => (st, blk)
  | fuel+1, st, blk =>
    match st.queue with
    | [] => (st, blk)
    | cur :: _ => loopG adj fuel (expand adj cur st).pop (blk ++ [cur])

theorem loop_eq_loopG (adj : Adj) (fuel : Nat) (st : St) (blk : List Nat) :
    loop adj fuel st = (loopG adj fuel st blk).1 := by
  induction fuel generalizing st blk with
  | zero => rfl
  | succ f ih =>
    cases hq : st.queue with
    | nil => simp [loop, loopG, hq]
    | cons cur rest =>
      simp only [loop, loopG, hq]
      exact ih _ _

/-- ghost invariant: black list = seen \ queue, duplicate-free -/
structure GInv (adj : Adj) (st : St) (blk : List Nat) : Prop where
  nodup : (blk ++ st.queue).Nodup
  seen : ∀ v, st.s v = true ↔ v ∈ blk ++ st.queue
  lt : ∀ v ∈ blk ++ st.queue, v < adj.length

theorem ginv_step {adj : Adj} {s : Nat} (hwf : WF adj) {st : St} {blk : List Nat} {cur : Nat} {rest : List Nat}
    (h : OInv adj s st) (g : GInv adj st blk) (hq : st.queue = cur :: rest) :
    GInv adj (expand adj cur st).pop (blk ++ [cur]) := by
  have hcur : st.s cur = true := h.qseen cur (by simp [hq])
  have hb : ∀ w ∈ nbrs adj cur, w < adj.length := fun w hw => nbrs_lt hwf hw
  obtain ⟨e1, e2, e3, e4, e5, new, e6, e7, e8⟩ := fold_char cur (nbrs adj cur) st h.sized hb hcur
  have hq' : (expand adj cur st).pop.queue = rest ++ new := by
    show ((nbrs adj cur).foldl (visit cur) st).queue.tail = _
    rw [e6, hq]; simp
  have hs' : ∀ v, (expand adj cur st).pop.s v = (st.s v || decide (v ∈ nbrs adj cur)) := e2
  have gn := g.nodup
  rw [hq] at gn
  constructor
  · rw [hq']
    have : (blk ++ [cur]) ++ (rest ++ new) = (blk ++ cur :: rest) ++ new := by simp
    rw [this]
    refine List.nodup_append.2 ⟨gn, e7, ?_⟩
    intro a ha b hb' hab
    subst hab
    have h1 : st.s a = true := (g.seen a).2 (by rw [hq]; exact ha)
    rw [((e8 a).1 hb').1] at h1; cases h1
  · intro v
    rw [hs', hq']
    have : v ∈ (blk ++ [cur]) ++ (rest ++ new) ↔ v ∈ (blk ++ st.queue) ∨ v ∈ new := by
      rw [hq]; simp only [List.mem_append, List.mem_cons, List.mem_singleton]; grind
    rw [this, ← g.seen v, e8 v]
    cases hsv : st.s v <;> simp
  · intro v hv
    rw [hq'] at hv
    have : v ∈ (blk ++ st.queue) ∨ v ∈ new := by
      rw [hq]; simp only [List.mem_append, List.mem_cons, List.mem_singleton] at hv ⊢; grind
    rcases this with h1 | h1
    · exact g.lt v h1
    · exact hb v ((e8 v).1 h1).2

theorem loopG_inv {adj : Adj} {s : Nat} (hwf : WF adj) (fuel : Nat) : ∀ (st : St) (blk : List Nat),
    OInv adj s st → GInv adj st blk →
    OInv adj s (loopG adj fuel st blk).1 ∧ GInv adj (loopG adj fuel st blk).1 (loopG adj fuel st blk).2 := by
  induction fuel with
  | zero => intro st blk h g; exact ⟨h, g⟩
  | succ f ih =>
    intro st blk h g
    unfold loopG
    split
    · exact ⟨h, g⟩
    · rename_i cur rest hq
      exact ih _ _ (step_inv hwf h hq) (ginv_step hwf h g hq)

theorem loopG_done {adj : Adj} {s : Nat} (hwf : WF adj) (fuel : Nat) : ∀ (st : St) (blk : List Nat),
    OInv adj s st → GInv adj st blk → adj.length < fuel + blk.length →
    (loopG adj fuel st blk).1.queue = [] := by
  induction fuel with
  | zero =>
    intro st blk h g hf
    have := pigeon (blk ++ st.queue) adj.length g.nodup g.lt
    simp at this hf; omega
  | succ f ih =>
    intro st blk h g hf
    unfold loopG
    split
    · assumption
    · rename_i cur rest hq
      apply ih _ _ (step_inv hwf h hq) (ginv_step hwf h g hq)
      simp; omega

/-- number of scans = length of the ghost list ≤ V  (C19 for the single-parent BFS) -/
theorem loopG_scans_le {adj : Adj} {s : Nat} (hwf : WF adj) (fuel : Nat) (st : St) (blk : List Nat)
    (h : OInv adj s st) (g : GInv adj st blk) : (loopG adj fuel st blk).2.length ≤ adj.length := by
  have := (loopG_inv hwf fuel st blk h g).2
  have := pigeon _ adj.length this.nodup this.lt
  simp at this; omega

end BGV.Bfs
