import BGV.Algo.MultiPath2
import BGV.Algo.AllPred3
import BGV.Algo.PathRec
/-!
# BGV.Algo.MultiPath3 — predecessor chains of the all-predecessor search = shortest paths
-/
namespace BGV.MultiPath
open Bfs (nbrs MAX WF Walk)

/-- `q` is a shortest path from `s` to `c`: along stored edges, `d c` hops -/
def Geo (adj : Adj) (s : Nat) (d : Nat → Nat) (q : List Nat) (c : Nat) : Prop :=
  chainOK adj q ∧ q.head? = some s ∧ q.getLast? = some c ∧ q.length = d c + 1

theorem chainOK_snoc (adj : Adj) (q : List Nat) (p c : Nat) (h : chainOK adj q) (hl : q.getLast? = some p)
    (hc : c ∈ nbrs adj p) : chainOK adj (q ++ [c]) := by
  induction q with
  | nil => simp at hl
  | cons a q ih =>
    cases q with
    | nil =>
      simp at hl; subst hl
      exact ⟨hc, trivial⟩
    | cons b q =>
      have hl' : (b :: q).getLast? = some p := by simpa using hl
      exact ⟨h.1, ih h.2 hl'⟩

theorem chainOK_init (adj : Adj) (q : List Nat) (c : Nat) (h : chainOK adj (q ++ [c])) :
    chainOK adj q ∧ ∀ p, q.getLast? = some p → c ∈ nbrs adj p := by
  induction q with
  | nil => exact ⟨trivial, by intro p hp; simp at hp⟩
  | cons a q ih =>
    cases q with
    | nil =>
      refine ⟨trivial, ?_⟩
      intro p hp; simp at hp; subst hp; exact h.1
    | cons b q =>
      have h' : chainOK adj (b :: q ++ [c]) := h.2
      obtain ⟨i1, i2⟩ := ih h'
      refine ⟨⟨h.1, i1⟩, ?_⟩
      intro p hp
      exact i2 p (by simpa using hp)

theorem chain_walk (adj : Adj) (s : Nat) (n : Nat) :
    ∀ (q : List Nat) (c : Nat), q.length = n + 1 → chainOK adj q → q.head? = some s → q.getLast? = some c →
      Walk adj s c n := by
  induction n with
  | zero =>
    intro q c hlen _ hh hl
    match q, hlen with
    | [a], _ =>
      simp at hh hl; subst hh; subst hl; exact Walk.nil
  | succ n ih =>
    intro q c hlen hch hh hl
    obtain ⟨q0, rfl⟩ := List.getLast?_eq_some_iff.1 hl
    have hlen0 : q0.length = n + 1 := by simp at hlen; omega
    obtain ⟨h1, h2⟩ := chainOK_init adj q0 c hch
    have hne : q0 ≠ [] := by intro e; subst e; simp at hlen0
    obtain ⟨p, hp⟩ : ∃ p, q0.getLast? = some p := by
      cases hq : q0.getLast? with
      | none => simp at hq; exact absurd hq hne
      | some p => exact ⟨p, rfl⟩
    have hh0 : q0.head? = some s := by
      cases q0 with
      | nil => exact absurd rfl hne
      | cons a l => simpa using hh
    exact Walk.snoc (ih q0 p hlen0 h1 hh0 hp) (h2 p hp)

/-- the facts about the final state of the all-predecessor search that matter here -/
structure Final (adj : Adj) (s : Nat) (d : Nat → Nat) (ps : Nat → List Nat) (fin : Nat → Prop) : Prop where
  src : fin s ∧ d s = 0
  w1 : ∀ v k, Walk adj s v k → fin v ∧ d v ≤ k
  w2 : ∀ v, fin v → Walk adj s v (d v)
  pred : ∀ v, fin v → ∀ p, p ∈ ps v ↔ (fin p ∧ v ∈ nbrs adj p ∧ d v = d p + 1)

theorem pc_geo {adj : Adj} {s : Nat} {d : Nat → Nat} {preds : List (List Nat)} {fin : Nat → Prop}
    (F : Final adj s d (fun v => preds.getD v []) fin) {q : List Nat} {c : Nat} (h : PC preds s q c) (hc : fin c) :
    Geo adj s d q c := by
  induction h with
  | base => exact ⟨trivial, rfl, rfl, by rw [F.src.2]; rfl⟩
  | step hq hp hcs ih =>
    rename_i q p c
    obtain ⟨fp, hnb, hd⟩ := (F.pred c hc p).1 hp
    obtain ⟨g1, g2, g3, g4⟩ := ih fp
    refine ⟨chainOK_snoc adj q p c g1 g3 hnb, ?_, by simp, by simp [g4, hd]⟩
    cases q with
    | nil => simp at g2
    | cons a l => simpa using g2

theorem geo_pc {adj : Adj} {s : Nat} {d : Nat → Nat} {preds : List (List Nat)} {fin : Nat → Prop}
    (F : Final adj s d (fun v => preds.getD v []) fin) (n : Nat) :
    ∀ (q : List Nat) (c : Nat), q.length = n + 1 → fin c → Geo adj s d q c → PC preds s q c := by
  induction n with
  | zero =>
    intro q c hlen _ hg
    obtain ⟨_, g2, g3, _⟩ := hg
    match q, hlen with
    | [a], _ =>
      simp at g2 g3; subst g2; subst g3; exact PC.base
  | succ n ih =>
    intro q c hlen hc hg
    obtain ⟨g1, g2, g3, g4⟩ := hg
    obtain ⟨q0, rfl⟩ := List.getLast?_eq_some_iff.1 g3
    have hlen0 : q0.length = n + 1 := by simp at hlen; omega
    obtain ⟨h1, h2⟩ := chainOK_init adj q0 c g1
    have hne : q0 ≠ [] := by intro e; subst e; simp at hlen0
    obtain ⟨p, hp⟩ : ∃ p, q0.getLast? = some p := by
      cases hq : q0.getLast? with
      | none => simp at hq; exact absurd hq hne
      | some p => exact ⟨p, rfl⟩
    have hh0 : q0.head? = some s := by
      cases q0 with
      | nil => exact absurd rfl hne
      | cons a l => simpa using g2
    have hwp := chain_walk adj s n q0 p hlen0 h1 hh0 hp
    obtain ⟨fp, hdp⟩ := F.w1 p n hwp
    have hcp := h2 p hp
    have hdc : d c ≤ d p + 1 := (F.w1 c (d p + 1) (Walk.snoc (F.w2 p fp) hcp)).2
    have hdc' : d c = n + 1 := by simp at g4; omega
    have hdeq : d c = d p + 1 := by omega
    have hcs : c ≠ s := by intro e; rw [e, F.src.2] at hdeq; omega
    have hpm : p ∈ preds.getD c [] := (F.pred c hc p).2 ⟨fp, hcp, hdeq⟩
    exact PC.step (ih q0 p hlen0 fp ⟨h1, hh0, hp, by omega⟩) hpm hcs

theorem pc_iff_geo {adj : Adj} {s : Nat} {d : Nat → Nat} {preds : List (List Nat)} {fin : Nat → Prop}
    (F : Final adj s d (fun v => preds.getD v []) fin) (q : List Nat) (c : Nat) (hc : fin c) :
    PC preds s q c ↔ Geo adj s d q c := by
  constructor
  · intro h; exact pc_geo F h hc
  · intro h
    have hlen := h.2.2.2
    exact geo_pc F (d c) q c hlen hc h

end BGV.MultiPath
