import BGV.Model.Paths
import BGV.Algo.Bfs4
/-!
# BGV.Algo.AllPred1 — `findAllVertexPredecessors`: the inner loop
-/
namespace BGV.AllPred
open Bfs (nbrs MAX WF Walk getD_set)

structure Sized (n : Nat) (st : St) : Prop where
  hd : st.dist.length = n
  hp : st.preds.length = n
  hs : st.processed.length = n

theorem getD_modify_list (l : List (List Nat)) (i j : Nat) (f : List Nat → List Nat) :
    (l.modify i f).getD j [] = if i = j ∧ i < l.length then f (l.getD j []) else l.getD j [] := by
  simp only [List.getD_eq_getElem?_getD, List.getElem?_modify]
  by_cases h : i = j
  · subst h
    by_cases h2 : i < l.length
    · simp [h2]
    · have : l[i]? = none := by simp; omega
      simp [h2, this]
  · simp [h]

/-- the condition under which `visit cur · w` records `cur` as a predecessor of `w` -/
def upd (cur : Nat) (st : St) (w : Nat) : Prop :=
  st.pr w = false ∧ st.d cur + 1 ≤ st.d w ∧ cur ∉ st.ps w

instance (cur : Nat) (st : St) (w : Nat) : Decidable (upd cur st w) := by unfold upd; exact inferInstance

def newQ (st : St) (w : Nat) : List Nat := if st.d w = MAX then st.queue ++ [w] else st.queue

theorem visit_of_pr (cur : Nat) (st : St) (w : Nat) (hp : st.pr w = true) : visit cur st w = st := by
  simp [visit, hp]

theorem visit_of_upd (cur : Nat) (st : St) (w : Nat) (hu : upd cur st w) :
    visit cur st w = ⟨st.dist.set w (st.d cur + 1), st.preds.modify w (· ++ [cur]), st.processed, newQ st w⟩ := by
  obtain ⟨hp, h1, h2⟩ := hu
  unfold visit newQ
  rw [if_neg (by simp [hp])]
  dsimp only
  rw [if_pos ⟨h1, by simpa using h2⟩]

theorem visit_of_not (cur : Nat) (st : St) (w : Nat) (hp : st.pr w = false) (h : ¬ upd cur st w) :
    visit cur st w = ⟨st.dist, st.preds, st.processed, newQ st w⟩ := by
  unfold visit newQ
  rw [if_neg (by simp [hp])]
  dsimp only
  rw [if_neg (by intro hh; apply h; exact ⟨hp, hh.1, by simpa using hh.2⟩)]

theorem visit_cases (cur : Nat) (st : St) (w : Nat) :
    (st.pr w = true ∧ visit cur st w = st) ∨
    (upd cur st w ∧ visit cur st w = ⟨st.dist.set w (st.d cur + 1), st.preds.modify w (· ++ [cur]), st.processed, newQ st w⟩) ∨
    (st.pr w = false ∧ ¬ upd cur st w ∧ visit cur st w = ⟨st.dist, st.preds, st.processed, newQ st w⟩) := by
  by_cases hp : st.pr w = true
  · exact Or.inl ⟨hp, visit_of_pr cur st w hp⟩
  · have hp' : st.pr w = false := by simpa using hp
    by_cases hu : upd cur st w
    · exact Or.inr (Or.inl ⟨hu, visit_of_upd cur st w hu⟩)
    · exact Or.inr (Or.inr ⟨hp', hu, visit_of_not cur st w hp' hu⟩)

theorem visit_sized {n} (cur : Nat) {st : St} (w : Nat) (h : Sized n st) : Sized n (visit cur st w) := by
  rcases visit_cases cur st w with ⟨_, e⟩ | ⟨_, e⟩ | ⟨_, _, e⟩ <;> rw [e]
  · exact h
  · exact ⟨by simp [h.hd], by simp [h.hp], h.hs⟩
  · exact ⟨h.hd, h.hp, h.hs⟩

theorem visit_pr (cur : Nat) (st : St) (w v : Nat) : (visit cur st w).pr v = st.pr v := by
  rcases visit_cases cur st w with ⟨_, e⟩ | ⟨_, e⟩ | ⟨_, _, e⟩ <;> rw [e] <;> rfl

theorem visit_queue (cur : Nat) (st : St) (w : Nat) :
    (visit cur st w).queue = if st.pr w = false ∧ st.d w = MAX then st.queue ++ [w] else st.queue := by
  rcases visit_cases cur st w with ⟨hp, e⟩ | ⟨hu, e⟩ | ⟨hp, _, e⟩ <;> rw [e]
  · simp [hp]
  · show newQ st w = _; simp only [newQ, hu.1, true_and]
  · show newQ st w = _; simp only [newQ, hp, true_and]

theorem visit_d {n} (cur : Nat) {st : St} (w v : Nat) (h : Sized n st) (hw : w < n) :
    (visit cur st w).d v = if upd cur st w ∧ v = w then st.d cur + 1 else st.d v := by
  rcases visit_cases cur st w with ⟨hp, e⟩ | ⟨hu, e⟩ | ⟨hp, hnu, e⟩ <;> rw [e]
  · have : ¬ upd cur st w := by intro hu; rw [hu.1] at hp; cases hp
    simp [this]
  · show (st.dist.set w (st.d cur + 1)).getD v MAX = _
    rw [getD_set]
    by_cases hvw : v = w
    · subst hvw; simp [hu, h.hd, hw]
    · have : ¬ w = v := fun e => hvw e.symm
      simp only [this, false_and, if_false, hvw, and_false]; rfl
  · simp only [hnu, false_and, if_false]; rfl

theorem visit_ps {n} (cur : Nat) {st : St} (w v : Nat) (h : Sized n st) (hw : w < n) :
    (visit cur st w).ps v = if upd cur st w ∧ v = w then st.ps v ++ [cur] else st.ps v := by
  rcases visit_cases cur st w with ⟨hp, e⟩ | ⟨hu, e⟩ | ⟨hp, hnu, e⟩ <;> rw [e]
  · have : ¬ upd cur st w := by intro hu; rw [hu.1] at hp; cases hp
    simp [this]
  · show (st.preds.modify w (· ++ [cur])).getD v [] = _
    rw [getD_modify_list]
    by_cases hvw : v = w
    · subst hvw; simp only [hu, h.hp, hw, and_self, if_true]; rfl
    · have : ¬ w = v := fun e => hvw e.symm
      simp only [this, false_and, if_false, hvw, and_false]; rfl
  · simp only [hnu, false_and, if_false]; rfl

/-- **characterisation of the inner loop** relative to the state `st` at its start -/
theorem fold_char {n} (cur : Nat) (nb : List Nat) (st : St) (hsz : Sized n st) (hb : ∀ w ∈ nb, w < n)
    (hcur : st.d cur + 1 < MAX) (hun : ∀ v, st.d v = MAX → st.ps v = []) :
    let st' := nb.foldl (visit cur) st
    Sized n st' ∧
    (∀ v, st'.pr v = st.pr v) ∧
    (∀ v, st'.d v = if v ∈ nb ∧ upd cur st v then st.d cur + 1 else st.d v) ∧
    (∀ v, st'.ps v = if v ∈ nb ∧ upd cur st v then st.ps v ++ [cur] else st.ps v) ∧
    (∃ new, st'.queue = st.queue ++ new ∧ new.Nodup ∧
      ∀ v, v ∈ new ↔ (v ∈ nb ∧ st.pr v = false ∧ st.d v = MAX)) := by
  induction nb generalizing st with
  | nil => intro st'; exact ⟨hsz, fun _ => rfl, fun _ => by simp [st'], fun _ => by simp [st'], [], by simp [st'], List.nodup_nil, by simp⟩
  | cons w nb ih =>
    intro st'
    have hw : w < n := hb w (by simp)
    have hb' : ∀ x ∈ nb, x < n := fun x hx => hb x (by simp [hx])
    have hsz1 := visit_sized cur w hsz
    -- d cur is never changed
    have hdcur : (visit cur st w).d cur = st.d cur := by
      rw [visit_d cur w cur hsz hw]
      by_cases hc : upd cur st w ∧ cur = w
      · obtain ⟨⟨_, h2, _⟩, rfl⟩ := hc; omega
      · simp [hc]
    have hun1 : ∀ v, (visit cur st w).d v = MAX → (visit cur st w).ps v = [] := by
      intro v hv
      rw [visit_d cur w v hsz hw] at hv
      rw [visit_ps cur w v hsz hw]
      by_cases hc : upd cur st w ∧ v = w
      · simp only [hc, and_self, if_true] at hv; omega
      · simp only [hc, if_false] at hv ⊢; exact hun v hv
    obtain ⟨i1, i2, i3, i4, new, i5, i6, i7⟩ := ih (visit cur st w) hsz1 hb' (by rw [hdcur]; exact hcur) hun1
    -- `upd` for the remaining neighbours, seen from the intermediate state
    have hupd : ∀ v, upd cur (visit cur st w) v ↔ (upd cur st v ∧ ¬ (upd cur st w ∧ v = w)) := by
      intro v
      by_cases hc : upd cur st w ∧ v = w
      · obtain ⟨hu, rfl⟩ := hc
        constructor
        · rintro ⟨_, _, h3⟩
          rw [visit_ps cur v v hsz hw] at h3
          simp [hu] at h3
        · rintro ⟨_, h2⟩; exact absurd ⟨hu, rfl⟩ h2
      · have e1 : (visit cur st w).d v = st.d v := by rw [visit_d cur w v hsz hw]; simp [hc]
        have e2 : (visit cur st w).ps v = st.ps v := by rw [visit_ps cur w v hsz hw]; simp [hc]
        constructor
        · rintro ⟨h1, h2, h3⟩
          rw [visit_pr] at h1; rw [hdcur, e1] at h2; rw [e2] at h3
          exact ⟨⟨h1, h2, h3⟩, hc⟩
        · rintro ⟨⟨h1, h2, h3⟩, _⟩
          exact ⟨by rw [visit_pr]; exact h1, by rw [hdcur, e1]; exact h2, by rw [e2]; exact h3⟩
    refine ⟨i1, ?_, ?_, ?_, ?_⟩
    · intro v; show (List.foldl (visit cur) (visit cur st w) nb).pr v = _; rw [i2, visit_pr]
    · intro v
      show (List.foldl (visit cur) (visit cur st w) nb).d v = _
      rw [i3, hdcur, visit_d cur w v hsz hw]
      by_cases hc : upd cur st w ∧ v = w
      · obtain ⟨hu, rfl⟩ := hc
        have : ¬ upd cur (visit cur st v) v := by rw [hupd]; simp [hu]
        simp [this, hu]
      · simp only [hc, if_false]
        have h1 : upd cur (visit cur st w) v ↔ upd cur st v := by rw [hupd]; simp [hc]
        by_cases hvw : v = w
        · subst hvw
          have hnu : ¬ upd cur st v := fun hu => hc ⟨hu, rfl⟩
          have : ¬ upd cur (visit cur st v) v := fun hh => hnu (h1.1 hh)
          simp [this, hnu]
        · simp only [h1, List.mem_cons, hvw, false_or]
    · intro v
      show (List.foldl (visit cur) (visit cur st w) nb).ps v = _
      rw [i4, visit_ps cur w v hsz hw]
      by_cases hc : upd cur st w ∧ v = w
      · obtain ⟨hu, rfl⟩ := hc
        have : ¬ upd cur (visit cur st v) v := by rw [hupd]; simp [hu]
        simp [this, hu]
      · simp only [hc, if_false]
        have h1 : upd cur (visit cur st w) v ↔ upd cur st v := by rw [hupd]; simp [hc]
        by_cases hvw : v = w
        · subst hvw
          have hnu : ¬ upd cur st v := fun hu => hc ⟨hu, rfl⟩
          have : ¬ upd cur (visit cur st v) v := fun hh => hnu (h1.1 hh)
          simp [this, hnu]
        · simp only [h1, List.mem_cons, hvw, false_or]
    · rw [visit_queue] at i5
      -- when `w` is new (unprocessed, distance MAX) it is enqueued now and gets a finite distance
      by_cases hnw : st.pr w = false ∧ st.d w = MAX
      · have hps : st.ps w = [] := hun w hnw.2
        have huw : upd cur st w := ⟨hnw.1, by rw [hnw.2]; omega, by simp [hps]⟩
        have hdw : (visit cur st w).d w = st.d cur + 1 := by
          rw [visit_d cur w w hsz hw]; simp [huw]
        refine ⟨w :: new, ?_, ?_, ?_⟩
        · show (List.foldl (visit cur) (visit cur st w) nb).queue = _
          rw [i5]; simp [hnw]
        · refine List.nodup_cons.2 ⟨?_, i6⟩
          intro hm
          have := ((i7 w).1 hm).2.2
          rw [hdw] at this; omega
        · intro v
          simp only [List.mem_cons, i7, visit_pr]
          rw [visit_d cur w v hsz hw]
          by_cases hvw : v = w
          · subst hvw; simp [hnw]
          · simp [hvw]
      · refine ⟨new, ?_, i6, ?_⟩
        · show (List.foldl (visit cur) (visit cur st w) nb).queue = _
          rw [i5]; simp [hnw]
        · intro v
          simp only [List.mem_cons, i7, visit_pr]
          rw [visit_d cur w v hsz hw]
          by_cases hvw : v = w
          · subst hvw
            constructor
            · rintro ⟨h1, h2, h3⟩
              exfalso
              by_cases hc : upd cur st v
              · simp only [hc, and_self, if_true] at h3; omega
              · simp only [hc, false_and, if_false] at h3; exact hnw ⟨h2, h3⟩
            · rintro ⟨_, h2, h3⟩; exact absurd ⟨h2, h3⟩ hnw
          · simp [hvw]

end BGV.AllPred
