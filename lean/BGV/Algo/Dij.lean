import BGV.Algo.Bfs
/-! Prototype: Dijkstra worklist (push on strict improvement), inner-loop characterisation -/
namespace BGV.Dij
open BGV.Bfs (nbrs getD_set MAX)

abbrev Adj := List (List Nat)

structure DS where
  dist : List (Option Nat)
  pred : List Nat
  work : List Nat

def DS.d (st : DS) (v : Nat) : Option Nat := st.dist.getD v none
def DS.p (st : DS) (v : Nat) : Nat := st.pred.getD v MAX

/-- `a < b` where `none` is +∞ -/
def ltInf (a : Nat) : Option Nat → Bool
  | none => true
  | some b => decide (a < b)

def relax (wt : Nat → Nat → Nat) (u : Nat) (st : DS) (w : Nat) : DS :=
  match st.d u with
  | none => st
  | some du =>
    if ltInf (du + wt u w) (st.d w) then
      ⟨st.dist.set w (some (du + wt u w)), st.pred.set w u, st.work ++ [w]⟩
    else st

def expand (wt : Nat → Nat → Nat) (adj : Adj) (u : Nat) (st : DS) : DS :=
  (nbrs adj u).foldl (relax wt u) st

structure Sized (n : Nat) (st : DS) : Prop where
  hd : st.dist.length = n
  hp : st.pred.length = n

/-- one relaxation, fully characterised (du is the current distance of u) -/
theorem relax_char {n : Nat} (wt : Nat → Nat → Nat) (u w : Nat) (st : DS) (du : Nat)
    (hs : Sized n st) (hw : w < n) (hu : st.d u = some du) :
    let st' := relax wt u st w
    Sized n st' ∧
    (∀ v, st'.d v = if v = w ∧ ltInf (du + wt u w) (st.d w) then some (du + wt u w) else st.d v) ∧
    (∀ v, st'.p v = if v = w ∧ ltInf (du + wt u w) (st.d w) then u else st.p v) ∧
    st'.work = st.work ++ (if ltInf (du + wt u w) (st.d w) then [w] else []) := by
  simp only [relax, hu]
  by_cases hlt : ltInf (du + wt u w) (st.d w) = true
  · simp only [hlt, if_true]
    refine ⟨⟨by simp [hs.hd], by simp [hs.hp]⟩, ?_, ?_, by simp⟩
    · intro v
      simp only [DS.d, getD_set, hs.hd]
      by_cases hv : w = v
      · subst hv; simp [hw]
      · have : ¬ v = w := fun e => hv e.symm
        simp [hv, this]
    · intro v
      simp only [DS.p, getD_set, hs.hp]
      by_cases hv : w = v
      · subst hv; simp [hw]
      · have : ¬ v = w := fun e => hv e.symm
        simp [hv, this]
  · have hf : ltInf (du + wt u w) (st.d w) = false := by simpa using hlt
    simp [hf]; exact hs

/-- a self-loop with a non-negative weight never improves u itself, so `d u` is stable -/
theorem ltInf_self (du k : Nat) : ltInf (du + k) (some du) = false := by
  simp [ltInf]
theorem ltInf_same (a : Nat) : ltInf a (some a) = false := by
  simp [ltInf]

/-- Inner loop: after scanning `nb`, every vertex has the min of its old distance and `du + wt u v`
    if it occurs in `nb`; distances never increase; `u` keeps `du`. -/
theorem fold_char {n : Nat} (wt : Nat → Nat → Nat) (u : Nat) (du : Nat) (nb : List Nat) :
    ∀ (st : DS), Sized n st → (∀ w ∈ nb, w < n) → st.d u = some du →
    let st' := nb.foldl (relax wt u) st
    Sized n st' ∧ st'.d u = some du ∧
    (∀ v, st'.d v = if v ∈ nb ∧ ltInf (du + wt u v) (st.d v) then some (du + wt u v) else st.d v) ∧
    (∀ v, st'.p v = if v ∈ nb ∧ ltInf (du + wt u v) (st.d v) then u else st.p v) ∧
    (∃ new, st'.work = st.work ++ new ∧ new.Nodup ∧
        ∀ v, v ∈ new ↔ (v ∈ nb ∧ ltInf (du + wt u v) (st.d v) = true)) := by
  induction nb with
  | nil => intro st hs _ hu; simp; exact ⟨hs, hu⟩
  | cons w nb ih =>
    intro st hs hb hu
    have hw : w < n := hb w (by simp)
    have hb' : ∀ x ∈ nb, x < n := fun x hx => hb x (by simp [hx])
    obtain ⟨r1, r2, r3, r4⟩ := relax_char wt u w st du hs hw hu
    have hu1 : (relax wt u st w).d u = some du := by
      rw [r2]; split
      · rename_i h; obtain ⟨rfl, h2⟩ := h; rw [hu, ltInf_self] at h2; cases h2
      · exact hu
    obtain ⟨i1, i2, i3, i4, new, i5, i6, i7⟩ := ih (relax wt u st w) r1 hb' hu1
    simp only [List.foldl_cons]
    -- key fact: after relaxing w, a second look at w never improves again
    have again : ∀ v, v = w → ltInf (du + wt u v) (st.d v) = true →
        ltInf (du + wt u v) ((relax wt u st w).d v) = false := by
      intro v hv hlt; subst hv
      have e : (relax wt u st v).d v = some (du + wt u v) := by rw [r2]; simp [hlt]
      rw [e, ltInf_same]
    refine ⟨i1, i2, ?_, ?_, ?_⟩
    · intro v; rw [i3]
      by_cases hvw : v = w
      · subst hvw
        by_cases hlt : ltInf (du + wt u v) (st.d v) = true
        · rw [again v rfl hlt, r2]; simp [hlt]
        · have hf : ltInf (du + wt u v) (st.d v) = false := by simpa using hlt
          rw [r2]; simp [hf]
      · rw [r2]; simp [hvw]
    · intro v; rw [i4]
      by_cases hvw : v = w
      · subst hvw
        by_cases hlt : ltInf (du + wt u v) (st.d v) = true
        · rw [again v rfl hlt, r3]; simp [hlt]
        · have hf : ltInf (du + wt u v) (st.d v) = false := by simpa using hlt
          rw [r2, r3]; simp [hf]
      · rw [r2, r3]; simp [hvw]
    · rw [r4] at i5
      refine ⟨(if ltInf (du + wt u w) (st.d w) then [w] else []) ++ new, by simpa [List.append_assoc] using i5, ?_, ?_⟩
      · by_cases hlt : ltInf (du + wt u w) (st.d w) = true
        · simp only [hlt, if_true, List.singleton_append, List.nodup_cons]
          refine ⟨?_, i6⟩
          intro hm
          have := ((i7 w).1 hm).2
          rw [again w rfl hlt] at this; cases this
        · have hf : ltInf (du + wt u w) (st.d w) = false := by simpa using hlt
          simpa [hf] using i6
      · intro v
        rw [List.mem_append, i7]
        by_cases hvw : v = w
        · subst hvw
          by_cases hlt : ltInf (du + wt u v) (st.d v) = true
          · rw [again v rfl hlt]; simp [hlt]
          · have hf : ltInf (du + wt u v) (st.d v) = false := by simpa using hlt
            rw [r2]; simp [hf]
        · rw [r2]; simp [hvw]

end BGV.Dij
