import BGV.Algo.MultiPath3
/-!
# BGV.Algo.MultiPath4 — a closed bound on the number of steps of the all-paths machine

With at most `n` predecessors per vertex and ranks (distances) at most `m`, a stack entry costs at
most `(n+1)^m` steps; the initial stack of `findMultiplePathsFromPredecessors` therefore costs fewer
than `(n+2)^(n+2)` steps, which is the fuel the model gives the machine: the budget never binds.
-/
namespace BGV.MultiPath

theorem sum_le_length_mul (l : List Nat) (b : Nat) (h : ∀ x ∈ l, x ≤ b) : l.sum ≤ l.length * b := by
  induction l with
  | nil => simp
  | cons a l ih =>
    have h1 := h a (by simp)
    have h2 := ih (fun x hx => h x (by simp [hx]))
    simp only [List.sum_cons, List.length_cons, Nat.succ_mul]
    omega

theorem cnt_le (preds : List (List Nat)) (s n : Nat) (hlen : ∀ c, (preds.getD c []).length ≤ n) :
    ∀ k c, cnt preds s k c ≤ (n + 1) ^ k := by
  intro k
  induction k with
  | zero => intro c; simp [cnt]
  | succ k ih =>
    intro c
    simp only [cnt]
    split
    · exact Nat.pow_pos (by omega)
    · have h1 : ((preds.getD c []).map (cnt preds s k)).sum ≤ ((preds.getD c []).map (cnt preds s k)).length * (n + 1) ^ k :=
        sum_le_length_mul _ _ (by
          intro x hx
          obtain ⟨p, _, rfl⟩ := List.mem_map.1 hx
          exact ih p)
      rw [List.length_map] at h1
      have h2 : (preds.getD c []).length * (n + 1) ^ k ≤ n * (n + 1) ^ k := Nat.mul_le_mul_right _ (hlen c)
      have h3 : 1 ≤ (n + 1) ^ k := Nat.pow_pos (by omega)
      have h4 : (n + 1) ^ (k + 1) = n * (n + 1) ^ k + (n + 1) ^ k := by
        rw [Nat.pow_succ, Nat.mul_comm, Nat.succ_mul]
      omega

theorem cnt_mono_bound (preds : List (List Nat)) (s n : Nat) (hlen : ∀ c, (preds.getD c []).length ≤ n)
    (k m c : Nat) (hk : k ≤ m) : cnt preds s k c ≤ (n + 1) ^ m :=
  Nat.le_trans (cnt_le preds s n hlen k c) (Nat.pow_le_pow_right (by omega) hk)

theorem stackCnt_le (preds : List (List Nat)) (s n m : Nat) (rank : Nat → Nat)
    (hlen : ∀ c, (preds.getD c []).length ≤ n) (stack : List (Nat × List Nat))
    (hr : ∀ e ∈ stack, rank e.1 ≤ m) : stackCnt preds s rank stack ≤ stack.length * (n + 1) ^ m := by
  simp only [stackCnt]
  have := sum_le_length_mul (stack.map (fun e => cnt preds s (rank e.1) e.1)) ((n + 1) ^ m) (by
    intro x hx
    obtain ⟨e, he, rfl⟩ := List.mem_map.1 hx
    exact cnt_mono_bound preds s n hlen _ m _ (hr e he))
  rwa [List.length_map] at this

/-- the fuel `(n+2)^(n+2)` exceeds `n * (n+1)^n` -/
theorem fuel_enough (n k : Nat) (hk : k ≤ n) : k * (n + 1) ^ n < (n + 2) ^ (n + 2) := by
  have h1 : (n + 1) ^ n ≤ (n + 2) ^ n := Nat.pow_le_pow_left (by omega) _
  have h2 : (n + 2) ^ (n + 2) = (n + 2) ^ n * ((n + 2) * (n + 2)) := by
    rw [Nat.pow_add]; congr 1; rw [Nat.pow_two]
  have h3 : 0 < (n + 2) ^ n := Nat.pow_pos (by omega)
  have h4 : k < (n + 2) * (n + 2) := by
    have : n + 2 ≤ (n + 2) * (n + 2) := Nat.le_mul_of_pos_left _ (by omega)
    omega
  rw [h2]
  calc k * (n + 1) ^ n ≤ k * (n + 2) ^ n := Nat.mul_le_mul_left _ h1
    _ = (n + 2) ^ n * k := Nat.mul_comm _ _
    _ < (n + 2) ^ n * ((n + 2) * (n + 2)) := Nat.mul_lt_mul_of_pos_left h4 h3

end BGV.MultiPath
