import BGV.Algo.AllPred1
/-!
# BGV.Algo.AllPred2 — `findAllVertexPredecessors`: the outer-loop invariant
-/
namespace BGV.AllPred
open Bfs (nbrs MAX WF Walk getD_set nbrs_lt pigeon)

structure AInv (adj : Adj) (s : Nat) (st : St) : Prop where
  sized : Sized adj.length st
  src : st.d s = 0 ∧ st.pr s = true ∧ st.ps s = [] ∧ s < adj.length
  seenlt : ∀ v, st.d v ≠ MAX → v < adj.length
  dle : ∀ v, st.d v ≤ MAX
  lev : ∀ v, st.d v ≠ MAX → ∀ k, k ≤ st.d v → ∃ u, st.d u = k
  tree : ∀ v, st.d v ≠ MAX → v ≠ s → st.ps v ≠ []
  pvalid : ∀ v p, p ∈ st.ps v → st.d p ≠ MAX ∧ v ∈ nbrs adj p ∧ st.d v = st.d p + 1
  pnodup : ∀ v, (st.ps v).Nodup
  qseen : ∀ x ∈ st.queue, st.d x ≠ MAX
  qnodup : st.queue.Nodup
  qtail : ∀ x ∈ st.queue.tail, st.pr x = false
  seen_np : ∀ v, st.d v ≠ MAX → st.pr v = false → v ∈ st.queue
  pr_seen : ∀ v, st.pr v = true → st.d v ≠ MAX
  closed : ∀ u, st.pr u = true → u ∉ st.queue →
    ∀ w ∈ nbrs adj u, st.d w ≠ MAX ∧ st.d w ≤ st.d u + 1 ∧ (st.d w = st.d u + 1 → u ∈ st.ps w)
  mono : ∀ u, st.pr u = true → u ∉ st.queue → ∀ x ∈ st.queue, st.d u ≤ st.d x
  qsorted : st.queue.Pairwise (fun a b => st.d a ≤ st.d b)
  qspan : ∀ h ∈ st.queue.head?, ∀ x ∈ st.queue, st.d x ≤ st.d h + 1
  unseen : ∀ v, st.d v = MAX → st.ps v = [] ∧ st.pr v = false

/-- distinct finite distances: the levels `0..k` are inhabited by distinct vertices -/
theorem level_list {adj : Adj} {s : Nat} {st : St} (h : AInv adj s st) (v : Nat) (hv : st.d v ≠ MAX) :
    ∀ k, k ≤ st.d v → ∃ l : List Nat, l.length = k + 1 ∧ l.Nodup ∧ ∀ u ∈ l, st.d u ≤ k ∧ u < adj.length := by
  have hdv := h.dle v
  intro k
  induction k with
  | zero =>
    intro _
    exact ⟨[s], rfl, by simp, by intro u hu; simp at hu; subst hu; exact ⟨by rw [h.src.1]; exact Nat.le_refl 0, h.src.2.2.2⟩⟩
  | succ k ih =>
    intro hk
    obtain ⟨l, h1, h2, h3⟩ := ih (by omega)
    obtain ⟨u, hu⟩ := h.lev v hv (k + 1) hk
    have hult : u < adj.length := by
      apply h.seenlt
      rw [hu]
      intro hmax
      omega
    refine ⟨u :: l, by simp [h1], List.nodup_cons.2 ⟨?_, h2⟩, ?_⟩
    · intro hm; have := (h3 u hm).1; omega
    · intro x hx
      rcases List.mem_cons.1 hx with rfl | hx
      · exact ⟨by omega, hult⟩
      · exact ⟨by have := (h3 x hx).1; omega, (h3 x hx).2⟩

end BGV.AllPred

namespace BGV.AllPred
open Bfs (nbrs MAX WF Walk getD_set nbrs_lt pigeon)

/-- a finite distance is below the number of vertices, hence (graphs with fewer than `MAX`
vertices) never reaches the sentinel -/
theorem dist_lt_n {adj : Adj} {s : Nat} {st : St} (h : AInv adj s st) (v : Nat) (hv : st.d v ≠ MAX) :
    st.d v + 1 ≤ adj.length := by
  obtain ⟨l, h1, h2, h3⟩ := level_list h v hv (st.d v) (Nat.le_refl _)
  have := pigeon l adj.length h2 (fun x hx => (h3 x hx).2)
  omega

theorem pairwise_of_forall_mem {α} (R : α → α → Prop) (l : List α) (h : ∀ a ∈ l, ∀ b ∈ l, R a b) : l.Pairwise R := by
  induction l with
  | nil => exact List.Pairwise.nil
  | cons a l ih =>
    refine List.Pairwise.cons (fun b hb' => h a (by simp) b (by simp [hb'])) (ih ?_)
    intro x hx y hy; exact h x (by simp [hx]) y (by simp [hy])

theorem finish_d (cur : Nat) (st : St) (v : Nat) : (finish cur st).d v = st.d v := rfl
theorem finish_ps (cur : Nat) (st : St) (v : Nat) : (finish cur st).ps v = st.ps v := rfl
theorem finish_queue (cur : Nat) (st : St) : (finish cur st).queue = st.queue.tail := rfl
theorem finish_pr {n} (cur : Nat) (st : St) (h : Sized n st) (hc : cur < n) (v : Nat) :
    (finish cur st).pr v = if v = cur then true else st.pr v := by
  show (st.processed.set cur true).getD v false = _
  rw [getD_set]
  by_cases hvc : v = cur
  · subst hvc; simp [h.hs, hc]
  · have : ¬ cur = v := fun e => hvc e.symm
    simp only [this, false_and, if_false, hvc]; rfl

theorem step_inv {adj : Adj} {s : Nat} (hwf : WF adj) (hn : adj.length < MAX) {st : St} {cur : Nat} {rest : List Nat}
    (h : AInv adj s st) (hq : st.queue = cur :: rest) :
    AInv adj s (finish cur (expand adj cur st)) ∧
    (∀ x ∈ (finish cur (expand adj cur st)).queue, (finish cur (expand adj cur st)).pr x = false) ∧
    (∀ x, st.pr x = true → (finish cur (expand adj cur st)).pr x = true) ∧
    (finish cur (expand adj cur st)).pr cur = true := by
  have hcurq : cur ∈ st.queue := by simp [hq]
  have hcs : st.d cur ≠ MAX := h.qseen cur hcurq
  have hcn : cur < adj.length := h.seenlt cur hcs
  have hb : ∀ w ∈ nbrs adj cur, w < adj.length := fun w hw => nbrs_lt hwf hw
  have hDn := dist_lt_n h cur hcs
  have hcur1 : st.d cur + 1 < MAX := by omega
  obtain ⟨f1, f2, f3, f4, new, f5, f6, f7⟩ :=
    fold_char cur (nbrs adj cur) st h.sized hb hcur1 (fun v hv => (h.unseen v hv).1)
  -- queue facts
  have hqn := h.qnodup; rw [hq] at hqn
  have hcr : cur ∉ rest := (List.nodup_cons.1 hqn).1
  have hrn : rest.Nodup := (List.nodup_cons.1 hqn).2
  have hqs := h.qsorted; rw [hq] at hqs
  have hcle : ∀ x ∈ rest, st.d cur ≤ st.d x := (List.pairwise_cons.1 hqs).1
  have hrs : rest.Pairwise (fun a b => st.d a ≤ st.d b) := (List.pairwise_cons.1 hqs).2
  have hspan : ∀ x ∈ cur :: rest, st.d x ≤ st.d cur + 1 := by
    have := h.qspan cur (by simp [hq]); rwa [hq] at this
  have hrestnp : ∀ x ∈ rest, st.pr x = false := by
    intro x hx; exact h.qtail x (by simp [hq, hx])
  -- abbreviations for the new state
  obtain ⟨F, hF⟩ : ∃ F, F = (nbrs adj cur).foldl (visit cur) st := ⟨_, rfl⟩
  rw [← hF] at f1 f2 f3 f4 f5
  have hexp : expand adj cur st = F := by rw [hF]; rfl
  rw [hexp]
  have hq' : (finish cur F).queue = rest ++ new := by
    rw [finish_queue, f5, hq]; rfl
  have hpr' : ∀ v, (finish cur F).pr v = if v = cur then true else st.pr v := by
    intro v; rw [finish_pr cur F f1 hcn, f2]
  -- (A) finite distances do not change
  have hA : ∀ v, st.d v ≠ MAX → F.d v = st.d v := by
    intro v hv
    rw [f3]
    by_cases hc : v ∈ nbrs adj cur ∧ upd cur st v
    · have hnp := hc.2.1
      have hle := hc.2.2.1
      have hvq : v ∈ st.queue := h.seen_np v hv hnp
      have := hspan v (by rw [← hq]; exact hvq)
      rw [if_pos hc]
      omega
    · rw [if_neg hc]
  -- (B) new vertices get distance d cur + 1
  have hB : ∀ v, st.d v = MAX → F.d v = if v ∈ nbrs adj cur then st.d cur + 1 else MAX := by
    intro v hv
    rw [f3]
    have hu : upd cur st v := ⟨(h.unseen v hv).2, by rw [hv]; omega, by rw [(h.unseen v hv).1]; simp⟩
    by_cases hm : v ∈ nbrs adj cur
    · simp [hm, hu]
    · simp [hm, hv]
  have hseen' : ∀ v, F.d v ≠ MAX ↔ (st.d v ≠ MAX ∨ v ∈ nbrs adj cur) := by
    intro v
    by_cases hv : st.d v = MAX
    · rw [hB v hv]
      by_cases hm : v ∈ nbrs adj cur
      · simp [hm, hv]; omega
      · simp [hm, hv]
    · rw [hA v hv]; simp [hv]
  have hnew : ∀ v, v ∈ new ↔ (v ∈ nbrs adj cur ∧ st.d v = MAX) := by
    intro v; rw [f7]
    constructor
    · rintro ⟨h1, _, h3⟩; exact ⟨h1, h3⟩
    · rintro ⟨h1, h3⟩; exact ⟨h1, (h.unseen v h3).2, h3⟩
  have hdnew : ∀ v ∈ new, F.d v = st.d cur + 1 := by
    intro v hv
    obtain ⟨h1, h2⟩ := (hnew v).1 hv
    rw [hB v h2]; simp [h1]
  have hpsmono : ∀ v p, p ∈ st.ps v → p ∈ F.ps v := by
    intro v p hp; rw [f4]; split
    · exact List.mem_append_left _ hp
    · exact hp
  have hunproc : ∀ x ∈ rest ++ new, (finish cur F).pr x = false := by
    intro x hx'
    have hxc : x ≠ cur := by
      rintro rfl
      rcases List.mem_append.1 hx' with h1 | h1
      · exact hcr h1
      · exact hcs ((hnew _).1 h1).2
    rw [hpr']; simp only [hxc, if_false]
    rcases List.mem_append.1 hx' with h1 | h1
    · exact hrestnp x h1
    · exact ((f7 x).1 h1).2.1
  refine ⟨
    { sized := ?_, src := ?_, seenlt := ?_, dle := ?_, lev := ?_, tree := ?_, pvalid := ?_, pnodup := ?_,
      qseen := ?_, qnodup := ?_, qtail := ?_, seen_np := ?_, pr_seen := ?_, closed := ?_, mono := ?_,
      qsorted := ?_, qspan := ?_, unseen := ?_ }, ?_, ?_, ?_⟩
  · -- sized
    exact ⟨f1.hd, f1.hp, by show (F.processed.set cur true).length = _; simp [f1.hs]⟩
  · -- src
    refine ⟨?_, ?_, ?_, h.src.2.2.2⟩
    · rw [finish_d, hA s (by rw [h.src.1]; decide)]; exact h.src.1
    · rw [hpr']; split
      · rfl
      · exact h.src.2.1
    · rw [finish_ps, f4]
      have : ¬ upd cur st s := by intro hu; have h1 := hu.1; rw [h.src.2.1] at h1; cases h1
      simp [this, h.src.2.2.1]
  · -- seenlt
    intro v hv
    rw [finish_d] at hv
    rcases (hseen' v).1 hv with h1 | h1
    · exact h.seenlt v h1
    · exact hb v h1
  · -- dle
    intro v
    rw [finish_d]
    by_cases hv : st.d v = MAX
    · rw [hB v hv]; split
      · omega
      · exact Nat.le_refl _
    · rw [hA v hv]; exact h.dle v
  · -- lev
    intro v hv k hk
    rw [finish_d] at hv hk
    by_cases hvs : st.d v = MAX
    · have hm : v ∈ nbrs adj cur := by
        rcases (hseen' v).1 hv with h1 | h1
        · exact absurd hvs h1
        · exact h1
      rw [hB v hvs] at hk
      simp only [hm, if_true] at hk
      by_cases hk' : k ≤ st.d cur
      · obtain ⟨u, hu⟩ := h.lev cur hcs k hk'
        have hus : st.d u ≠ MAX := by rw [hu]; omega
        exact ⟨u, by rw [finish_d, hA u hus]; exact hu⟩
      · refine ⟨v, ?_⟩
        rw [finish_d, hB v hvs]; simp only [hm, if_true]; omega
    · rw [hA v hvs] at hk
      obtain ⟨u, hu⟩ := h.lev v hvs k hk
      have hus : st.d u ≠ MAX := by
        rw [hu]; have := h.dle v; omega
      exact ⟨u, by rw [finish_d, hA u hus]; exact hu⟩
  · -- tree
    intro v hv hvs
    rw [finish_d] at hv
    rw [finish_ps, f4]
    by_cases hold : st.d v = MAX
    · have hm : v ∈ nbrs adj cur := by
        rcases (hseen' v).1 hv with h1 | h1
        · exact absurd hold h1
        · exact h1
      have hu : upd cur st v := ⟨(h.unseen v hold).2, by rw [hold]; omega, by rw [(h.unseen v hold).1]; simp⟩
      simp [hm, hu]
    · have := h.tree v hold hvs
      split
      · simp
      · exact this
  · -- pvalid
    intro v p hp
    rw [finish_ps, f4] at hp
    simp only [finish_d]
    have hold : ∀ p, p ∈ st.ps v → F.d p ≠ MAX ∧ v ∈ nbrs adj p ∧ F.d v = F.d p + 1 := by
      intro p hp
      obtain ⟨h1, h2, h3⟩ := h.pvalid v p hp
      have hvs : st.d v ≠ MAX := by
        intro hv; rw [(h.unseen v hv).1] at hp; cases hp
      rw [hA p h1, hA v hvs]; exact ⟨h1, h2, h3⟩
    by_cases hc : v ∈ nbrs adj cur ∧ upd cur st v
    · simp only [hc, and_self, if_true, List.mem_append, List.mem_singleton] at hp
      rcases hp with hp | rfl
      · exact hold p hp
      · refine ⟨by rw [hA p hcs]; exact hcs, hc.1, ?_⟩
        rw [f3]; simp only [hc, and_self, if_true]; rw [hA p hcs]
    · simp only [hc, if_false] at hp
      exact hold p hp
  · -- pnodup
    intro v
    rw [finish_ps, f4]
    split
    · rename_i hc
      rw [List.nodup_append]
      refine ⟨h.pnodup v, by simp, ?_⟩
      intro a ha b hb' hab
      simp only [List.mem_singleton] at hb'
      subst hb'; subst hab
      exact hc.2.2.2 ha
    · exact h.pnodup v
  · -- qseen
    intro x hx
    rw [hq'] at hx
    rw [finish_d]
    rcases List.mem_append.1 hx with h1 | h1
    · have := h.qseen x (by simp [hq, h1]); rw [hA x this]; exact this
    · rw [hdnew x h1]; omega
  · -- qnodup
    rw [hq', List.nodup_append]
    refine ⟨hrn, f6, ?_⟩
    intro a ha b hb' hab
    subst hab
    have := h.qseen a (by simp [hq, ha])
    exact this ((hnew a).1 hb').2
  · -- qtail
    intro x hx
    rw [hq'] at hx
    have hx' : x ∈ rest ++ new := List.mem_of_mem_tail hx
    have hxc : x ≠ cur := by
      rintro rfl
      rcases List.mem_append.1 hx' with h1 | h1
      · exact hcr h1
      · exact hcs ((hnew _).1 h1).2
    rw [hpr']; simp only [hxc, if_false]
    rcases List.mem_append.1 hx' with h1 | h1
    · exact hrestnp x h1
    · exact ((f7 x).1 h1).2.1
  · -- seen_np
    intro v hv hp
    rw [finish_d] at hv
    rw [hpr'] at hp
    rw [hq']
    by_cases hvc : v = cur
    · simp [hvc] at hp
    · simp only [hvc, if_false] at hp
      by_cases hold : st.d v = MAX
      · have hm : v ∈ nbrs adj cur := by
          rcases (hseen' v).1 hv with h1 | h1
          · exact absurd hold h1
          · exact h1
        exact List.mem_append_right _ ((hnew v).2 ⟨hm, hold⟩)
      · have := h.seen_np v hold hp
        rw [hq] at this
        rcases List.mem_cons.1 this with h1 | h1
        · exact absurd h1 hvc
        · exact List.mem_append_left _ h1
  · -- pr_seen
    intro v hp
    rw [hpr'] at hp
    rw [finish_d]
    by_cases hvc : v = cur
    · subst hvc; rw [hA v hcs]; exact hcs
    · simp only [hvc, if_false] at hp
      have := h.pr_seen v hp
      rw [hA v this]; exact this
  · -- closed
    intro u hu hnq w hw
    rw [hpr'] at hu
    rw [hq'] at hnq
    simp only [finish_d, finish_ps]
    by_cases huc : u = cur
    · subst huc
      rw [hA u hcs]
      by_cases hwp : st.pr w = true
      · have hws := h.pr_seen w hwp
        rw [hA w hws]
        have hwd : st.d w ≤ st.d u := by
          by_cases hwq : w ∈ st.queue
          · rw [hq] at hwq
            rcases List.mem_cons.1 hwq with h1 | h1
            · rw [h1]; exact Nat.le_refl _
            · have := hrestnp w h1; rw [hwp] at this; cases this
          · exact h.mono w hwp hwq u hcurq
        exact ⟨hws, by omega, fun he => by omega⟩
      · have hwp' : st.pr w = false := by simpa using hwp
        by_cases hws : st.d w = MAX
        · have hu' : upd u st w := ⟨hwp', by rw [hws]; omega, by rw [(h.unseen w hws).1]; simp⟩
          rw [hB w hws]; simp only [hw, if_true]
          refine ⟨by omega, Nat.le_refl _, fun _ => ?_⟩
          rw [f4]; simp [hw, hu']
        · rw [hA w hws]
          have hwq := h.seen_np w hws hwp'
          have h1 := hspan w (by rw [← hq]; exact hwq)
          refine ⟨hws, h1, fun he => ?_⟩
          rw [f4]
          by_cases hin : u ∈ st.ps w
          · split
            · exact List.mem_append_left _ hin
            · exact hin
          · have hu' : upd u st w := ⟨hwp', by omega, hin⟩
            simp [hw, hu']
    · simp only [huc, if_false] at hu
      have hunq : u ∉ st.queue := by
        rw [hq]; intro hm
        rcases List.mem_cons.1 hm with h1 | h1
        · exact huc h1
        · exact hnq (List.mem_append_left _ h1)
      obtain ⟨c1, c2, c3⟩ := h.closed u hu hunq w hw
      have hus := h.pr_seen u hu
      rw [hA w c1, hA u hus]
      exact ⟨c1, c2, fun he => hpsmono w u (c3 he)⟩
  · -- mono
    intro u hu hnq x hx
    rw [hpr'] at hu
    rw [hq'] at hnq hx
    simp only [finish_d]
    have hxd : st.d cur ≤ F.d x := by
      rcases List.mem_append.1 hx with h1 | h1
      · have hxs := h.qseen x (by simp [hq, h1])
        rw [hA x hxs]; exact hcle x h1
      · rw [hdnew x h1]; omega
    by_cases huc : u = cur
    · subst huc; rw [hA u hcs]; exact hxd
    · simp only [huc, if_false] at hu
      have hunq : u ∉ st.queue := by
        rw [hq]; intro hm
        rcases List.mem_cons.1 hm with h1 | h1
        · exact huc h1
        · exact hnq (List.mem_append_left _ h1)
      have hus := h.pr_seen u hu
      rw [hA u hus]
      have := h.mono u hu hunq cur hcurq
      omega
  · -- qsorted
    rw [hq', List.pairwise_append]
    refine ⟨?_, ?_, ?_⟩
    · refine hrs.imp_of_mem ?_
      intro a b ha hb' hab
      simp only [finish_d]
      rw [hA a (h.qseen a (by simp [hq, ha])), hA b (h.qseen b (by simp [hq, hb']))]; exact hab
    · have hall : ∀ a ∈ new, ∀ b ∈ new, (finish cur F).d a ≤ (finish cur F).d b := by
        intro a ha b hb'
        simp only [finish_d]
        rw [hdnew a ha, hdnew b hb']; exact Nat.le_refl _
      exact pairwise_of_forall_mem _ _ hall
    · intro a ha b hb'
      simp only [finish_d]
      rw [hA a (h.qseen a (by simp [hq, ha])), hdnew b hb']
      exact hspan a (by simp [ha])
  · -- qspan
    intro hd hhd x hx
    rw [hq'] at hhd hx
    simp only [finish_d]
    have hxle : F.d x ≤ st.d cur + 1 := by
      rcases List.mem_append.1 hx with h1 | h1
      · rw [hA x (h.qseen x (by simp [hq, h1]))]; exact hspan x (by simp [h1])
      · rw [hdnew x h1]; exact Nat.le_refl _
    have hhdm : hd ∈ rest ++ new := by
      cases hrl : rest ++ new with
      | nil => rw [hrl] at hhd; cases hhd
      | cons a l => rw [hrl] at hhd; simp at hhd; rw [← hhd]; simp
    have hhdge : st.d cur ≤ F.d hd := by
      rcases List.mem_append.1 hhdm with h1 | h1
      · rw [hA hd (h.qseen hd (by simp [hq, h1]))]; exact hcle hd h1
      · rw [hdnew hd h1]; omega
    omega
  · -- unseen
    intro v hv
    rw [finish_d] at hv
    have hold : st.d v = MAX := by
      by_cases hold : st.d v = MAX
      · exact hold
      · rw [hA v hold] at hv; exact absurd hv hold
    have hnm : v ∉ nbrs adj cur := by
      intro hm; rw [hB v hold] at hv; simp only [hm, if_true] at hv; omega
    refine ⟨?_, ?_⟩
    · rw [finish_ps, f4]; simp [hnm, (h.unseen v hold).1]
    · rw [hpr']
      have : v ≠ cur := by rintro rfl; exact hcs hold
      simp only [this, if_false]; exact (h.unseen v hold).2
  · intro x hx; rw [hq'] at hx; exact hunproc x hx
  · intro x hx; rw [hpr']; split
    · rfl
    · exact hx
  · rw [hpr']; simp

end BGV.AllPred
