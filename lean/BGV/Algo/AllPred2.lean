import BGV.Algo.AllPred1
/-!
# BGV.Algo.AllPred2 — `findAllVertexPredecessors`: the outer-loop invariant
-/
namespace BGV.AllPred
open Bfs (nbrs MAX WF Walk getD_set nbrs_lt pigeon)

structure AInv (adj : Adj) (s : Nat) (st : St) : Prop where
  sized : Sized adj.length st
  src : st.d s = 0 ∧ st.pr s = true ∧ st.ps s = [] ∧ s < adj.length
  seenlt : ∀ v, st.d v ≠ MAX → v < adj.length
  dle : ∀ v, st.d v ≤ MAX
  lev : ∀ v, st.d v ≠ MAX → ∀ k, k ≤ st.d v → ∃ u, st.d u = k
  tree : ∀ v, st.d v ≠ MAX → v ≠ s → st.ps v ≠ []
  pvalid : ∀ v p, p ∈ st.ps v → st.d p ≠ MAX ∧ v ∈ nbrs adj p ∧ st.d v = st.d p + 1
  pnodup : ∀ v, (st.ps v).Nodup
  qseen : ∀ x ∈ st.queue, st.d x ≠ MAX
  qnodup : st.queue.Nodup
  qtail : ∀ x ∈ st.queue.tail, st.pr x = false
  seen_np : ∀ v, st.d v ≠ MAX → st.pr v = false → v ∈ st.queue
  pr_seen : ∀ v, st.pr v = true → st.d v ≠ MAX
  closed : ∀ u, st.pr u = true → u ∉ st.queue →
    ∀ w ∈ nbrs adj u, st.d w ≠ MAX ∧ st.d w ≤ st.d u + 1 ∧ (st.d w = st.d u + 1 → u ∈ st.ps w)
  mono : ∀ u, st.pr u = true → u ∉ st.queue → ∀ x ∈ st.queue, st.d u ≤ st.d x
  qsorted : st.queue.Pairwise (fun a b => st.d a ≤ st.d b)
  qspan : ∀ h ∈ st.queue.head?, ∀ x ∈ st.queue, st.d x ≤ st.d h + 1
  unseen : ∀ v, st.d v = MAX → st.ps v = [] ∧ st.pr v = false

/-- distinct finite distances: the levels `0..k` are inhabited by distinct vertices -/
theorem level_list {adj : Adj} {s : Nat} {st : St} (h : AInv adj s st) (v : Nat) (hv : st.d v ≠ MAX) :
    ∀ k, k ≤ st.d v → ∃ l : List Nat, l.length = k + 1 ∧ l.Nodup ∧ ∀ u ∈ l, st.d u ≤ k ∧ u < adj.length := by
  have hdv := h.dle v
  intro k
  induction k with
  | zero =>
    intro _
    exact ⟨[s], rfl, by simp, by intro u hu; simp at hu; subst hu; exact ⟨by rw [h.src.1]; exact Nat.le_refl 0, h.src.2.2.2⟩⟩
  | succ k ih =>
    intro hk
    obtain ⟨l, h1, h2, h3⟩ := ih (by omega)
    obtain ⟨u, hu⟩ := h.lev v hv (k + 1) hk
    have hult : u < adj.length := by
      apply h.seenlt
      rw [hu]
      intro hmax
      omega
    refine ⟨u :: l, by simp [h1], List.nodup_cons.2 ⟨?_, h2⟩, ?_⟩
    · intro hm; have := (h3 u hm).1; omega
    · intro x hx
      rcases List.mem_cons.1 hx with rfl | hx
      · exact ⟨by omega, hult⟩
      · exact ⟨by have := (h3 x hx).1; omega, (h3 x hx).2⟩

end BGV.AllPred
