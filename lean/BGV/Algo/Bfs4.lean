import BGV.Algo.Bfs3
namespace BGV.Bfs

theorem getD_replicate {α} (n i : Nat) (x d : α) : (List.replicate n x).getD i d = if i < n then x else d := by
  simp only [List.getD_eq_getElem?_getD, List.getElem?_replicate]
  split <;> simp

theorem init_s (n s v : Nat) (hs : s < n) : (init n s).s v = decide (v = s) := by
  simp only [St.s, init, getD_set, getD_replicate, List.length_replicate]
  by_cases h : s = v
  · subst h; simp [hs]
  · have : ¬ v = s := fun e => h e.symm
    simp [h, this]

theorem init_d (n s v : Nat) (hs : s < n) : (init n s).d v = if v = s then 0 else MAX := by
  simp only [St.d, init, getD_set, getD_replicate, List.length_replicate]
  by_cases h : s = v
  · subst h; simp [hs]
  · have : ¬ v = s := fun e => h e.symm
    simp [h, this]

theorem init_p (n s v : Nat) : (init n s).p v = MAX := by
  simp only [St.p, init, getD_replicate]; split <;> rfl

theorem init_oinv (adj : Adj) (s : Nat) (hs : s < adj.length) : OInv adj s (init adj.length s) := by
  constructor
  · constructor <;> simp [init]
  · simp [init_s, init_d, hs]
  · intro v hv hne; rw [init_s _ _ _ hs] at hv; simp [hne] at hv
  · intro x hx; simp [init] at hx; subst hx; simp [init_s, hs]
  · simp [init]
  · simp [init]
  · intro h hh x hx; simp [init] at hh hx; subst hh; subst hx; omega
  · intro u hu hnot; rw [init_s _ _ _ hs] at hu; simp [init] at hnot hu; exact absurd hu hnot
  · intro u hu hnot; rw [init_s _ _ _ hs] at hu; simp [init] at hnot hu; exact absurd hu hnot
  · intro v hv; rw [init_s _ _ _ hs] at hv
    have : ¬ v = s := by simpa using hv
    simp [init_d, init_p, hs, this]

theorem init_ginv (adj : Adj) (s : Nat) (hs : s < adj.length) : GInv adj (init adj.length s) [] := by
  constructor
  · simp [init]
  · intro v; rw [init_s _ _ _ hs]; simp [init]
  · intro v hv; simp [init] at hv; subst hv; exact hs

/-- Main correctness statement for the single-parent BFS (prototype of C11 `bfs_dist`, `bfs_pred`). -/
theorem bfs_correct (adj : Adj) (s : Nat) (hwf : WF adj) (hs : s < adj.length) :
    let r := bfs adj s
    (∀ v k, Walk adj s v k → r.s v = true ∧ r.d v ≤ k) ∧
    (∀ v, r.s v = true → Walk adj s v (r.d v)) ∧
    (∀ v, r.s v = true → v ≠ s → v ∈ nbrs adj (r.p v) ∧ r.d v = r.d (r.p v) + 1) ∧
    (∀ v, r.s v = false → r.d v = MAX ∧ r.p v = MAX) := by
  intro r
  have hr : r = (loopG adj (2 * adj.length + 1) (init adj.length s) []).1 := loop_eq_loopG _ _ _ _
  have hi := init_oinv adj s hs
  have hg := init_ginv adj s hs
  have hinv : OInv adj s r := by rw [hr]; exact (loopG_inv hwf _ _ _ hi hg).1
  have hq : r.queue = [] := by
    rw [hr]; exact loopG_done hwf _ _ _ hi hg (by simp; omega)
  refine ⟨?_, ?_, ?_, hinv.unseen⟩
  · intro v k hw
    induction hw with
    | nil => exact ⟨hinv.src.1, by rw [hinv.src.2]; exact Nat.le_refl 0⟩
    | snoc _ hmem ih =>
      obtain ⟨c1, c2⟩ := hinv.closed _ ih.1 (by simp [hq]) _ hmem
      exact ⟨c1, by omega⟩
  · intro v
    generalize hd : r.d v = k
    induction k using Nat.strongRecOn generalizing v with
    | _ k ih =>
      intro hv
      by_cases hvs : v = s
      · subst hvs; rw [hinv.src.2] at hd; subst hd; exact Walk.nil
      · obtain ⟨t1, t2, t3⟩ := hinv.tree v hv hvs
        have hk : r.d (r.p v) < k := by omega
        have := ih _ hk (r.p v) rfl t1
        rw [← hd, t3]
        exact Walk.snoc this t2
  · intro v hv hvs
    obtain ⟨_, t2, t3⟩ := hinv.tree v hv hvs
    exact ⟨t2, t3⟩

end BGV.Bfs
