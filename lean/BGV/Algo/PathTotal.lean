import BGV.Algo.Bfs5
import BGV.Algo.PathRec
import BGV.Algo.MultiPath4
/-!
# BGV.Algo.PathTotal — `findPathToVertexFromPredecessors` is total for *any* requested source

The reconstruction loop follows `pred` from the destination.  On the predecessor array of a search
from `ps` every entry is either the sentinel or a reached vertex strictly closer to `ps`, so the
walk stays in range and ends — at the requested source, or at the sentinel (`runtime_error`) when
the requested source is not on the way.  It never indexes out of bounds and never runs out of fuel.
-/
namespace BGV
open Bfs

/-! ### the source of the search keeps the sentinel as its predecessor -/
namespace Bfs

def Keep (s : Nat) (st : St) : Prop := st.s s = true ∧ st.p s = MAX

theorem visit_keep {s cur : Nat} {st : St} (w : Nat) (h : Keep s st) : Keep s (visit cur st w) := by
  unfold visit
  split
  · exact h
  · rename_i hw
    have hne : w ≠ s := by
      intro e; subst e; exact hw h.1
    constructor
    · show (st.seen.set w true).getD s false = true
      rw [getD_set]; simp only [hne, false_and, if_false]; exact h.1
    · show (st.pred.set w cur).getD s MAX = MAX
      rw [getD_set]; simp only [hne, false_and, if_false]; exact h.2

theorem expand_keep (adj : Adj) {s cur : Nat} {st : St} (h : Keep s st) : Keep s (expand adj cur st) := by
  unfold expand
  generalize nbrs adj cur = l
  induction l generalizing st with
  | nil => exact h
  | cons w l ih => exact ih (visit_keep w h)

theorem loop_keep (adj : Adj) (s : Nat) (fuel : Nat) (st : St) (h : Keep s st) : Keep s (loop adj fuel st) := by
  induction fuel generalizing st with
  | zero => exact h
  | succ f ih =>
    simp only [loop]
    split
    · exact h
    · apply ih
      exact expand_keep adj h

theorem bfs_keep (adj : Adj) (s : Nat) (hs : s < adj.length) : (bfs adj s).p s = MAX := by
  have hi : Keep s (init adj.length s) := by
    constructor
    · show ((List.replicate adj.length false).set s true).getD s false = true
      rw [getD_set]; simp [hs]
    · show (List.replicate adj.length MAX).getD s MAX = MAX
      simp [List.getD_eq_getElem?_getD, List.getElem?_replicate, hs]
  exact (loop_keep adj s _ _ hi).2

end Bfs

/-- what the loop needs from the array: each entry is the sentinel or a strictly closer reached vertex -/
structure Descends (pred : List Nat) (d : Nat → Nat) (fin : Nat → Prop) : Prop where
  lt : ∀ v, fin v → v < pred.length
  down : ∀ v, v < pred.length → pred.getD v MAX = MAX ∨ (fin v ∧ fin (pred.getD v MAX) ∧ d (pred.getD v MAX) < d v)

theorem pathLoop_total {pred : List Nat} {d : Nat → Nat} {fin : Nat → Prop} (h : Descends pred d fin)
    (hn : pred.length ≤ MAX) (src : Nat) :
    ∀ (fuel cur : Nat) (path : List Nat), (cur = MAX ∨ cur < pred.length) → 2 ≤ fuel →
      (fin cur → d cur + 2 ≤ fuel) →
      ∃ r, pathLoop pred src fuel cur path = some r ∧ r ≠ .ub := by
  intro fuel
  induction fuel with
  | zero => intro cur path _ h2; omega
  | succ f ih =>
    intro cur path hc h2 hd
    by_cases hmax : cur = MAX
    · exact ⟨.threw .rte, by simp [pathLoop, hmax], by simp⟩
    · have hlt : cur < pred.length := by
        rcases hc with h | h
        · exact absurd h hmax
        · exact h
      have hget : pred[cur]? = some (pred.getD cur MAX) := by simp [List.getD_eq_getElem?_getD, hlt]
      simp only [pathLoop, hmax, if_false, hget]
      by_cases hps : pred.getD cur MAX = src
      · exact ⟨.ok (src :: cur :: path), by simp only [hps, if_true], by simp⟩
      · simp only [hps, if_false]
        rcases h.down cur hlt with hm | ⟨hf, hfp, hdp⟩
        · -- next is the sentinel: one more step, which throws
          rw [hm]
          cases f with
          | zero => omega
          | succ f' => exact ⟨.threw .rte, by simp [pathLoop], by simp⟩
        · have hd' := hd hf
          apply ih
          · right; exact h.lt _ hfp
          · omega
          · intro _; omega

theorem findPath_total {pred : List Nat} {d : Nat → Nat} {fin : Nat → Prop} (h : Descends pred d fin)
    (hn : pred.length ≤ MAX) (hd : ∀ v, fin v → d v ≤ pred.length) (src t : Nat) (ht : t < pred.length) :
    findPathFromPredecessors pred src t ≠ .ub := by
  unfold findPathFromPredecessors
  split
  · simp
  · obtain ⟨r, hr, hne⟩ := pathLoop_total h hn src (pred.length + 2) t [] (Or.inr ht) (by omega)
      (fun hf => by have := hd t hf; omega)
    rw [hr]; exact hne

/-- the predecessor array of the single-predecessor search descends -/
theorem bfs_descends (adj : Adj) (s : Nat) (hwf : WF adj) (hs : s < adj.length) (hn : adj.length ≤ MAX) :
    Descends (bfs adj s).pred (bfs adj s).d (fun v => (bfs adj s).s v = true) ∧
    (∀ v, (bfs adj s).s v = true → (bfs adj s).d v ≤ (bfs adj s).pred.length) ∧
    (bfs adj s).pred.length = adj.length := by
  obtain ⟨htree, hdlt, hplen⟩ := bfs_predTree adj s hwf hs hn
  obtain ⟨_, _, _, h4⟩ := bfs_correct adj s hwf hs
  refine ⟨⟨fun v hv => (htree.lt v hv).1, ?_⟩, fun v hv => by have := hdlt v hv; omega, hplen⟩
  intro v _
  by_cases hv : (bfs adj s).s v = true
  · by_cases hvs : v = s
    · left; subst hvs; exact bfs_keep adj v hs
    · right
      obtain ⟨a, _, c⟩ := htree.step v hv hvs
      exact ⟨hv, a, by omega⟩
  · left
    have : (bfs adj s).s v = false := by simpa using hv
    exact (h4 v this).2

end BGV

/-! ### the all-paths machine is total for any requested source -/
namespace BGV
open Bfs MultiPath

/-- potential of a stack: `(n+1)^rank` per entry -/
def pot (n : Nat) (rank : Nat → Nat) (stack : List (Nat × List Nat)) : Nat :=
  (stack.map (fun e => (n + 1) ^ rank e.1)).sum

theorem multiLoop_total {preds : List (List Nat)} {ok : Nat → Prop} {rank : Nat → Nat} (n : Nat)
    (hget : ∀ c, ok c → preds[c]? = some (preds.getD c []))
    (hdown : ∀ c, ok c → ∀ p ∈ preds.getD c [], ok p ∧ rank p < rank c)
    (hlen : ∀ c, (preds.getD c []).length ≤ n) (src t : Nat) :
    ∀ (fuel : Nat) (stack : List (Nat × List Nat)) (paths : List (List Nat)),
      (∀ e ∈ stack, ok e.1) → pot n rank stack < fuel →
      ∃ r, multiLoop preds src t fuel stack paths = some r ∧ r ≠ .ub := by
  intro fuel
  induction fuel with
  | zero => intro stack paths _ hf; omega
  | succ f ih =>
    intro stack paths hok hf
    cases stack with
    | nil => exact ⟨.ok paths, by simp [multiLoop], by simp⟩
    | cons e stack =>
      obtain ⟨cur, lst⟩ := e
      have hc : ok cur := hok (cur, lst) (by simp)
      simp only [multiLoop, hget cur hc]
      by_cases hthrow : (preds.getD cur []).isEmpty = true ∧ cur ≠ src
      · exact ⟨.threw .rte, by rw [if_pos hthrow], by simp⟩
      · rw [if_neg hthrow]
        apply ih
        · intro e he
          rcases List.mem_append.1 he with h1 | h1
          · simp only [List.mem_reverse, List.mem_map] at h1
            obtain ⟨p, hp, rfl⟩ := h1
            exact (hdown cur hc p hp).1
          · exact hok e (by simp [h1])
        · -- the potential drops by at least one
          have hsplit : pot n rank ((cur, lst) :: stack) = (n + 1) ^ rank cur + pot n rank stack := by
            simp [pot]
          have hnew : pot n rank (((preds.getD cur []).map (fun p => (p, cur :: lst))).reverse ++ stack)
              = ((preds.getD cur []).map (fun p => (n + 1) ^ rank p)).sum + pot n rank stack := by
            simp only [pot, List.map_append, List.sum_append, List.map_reverse, List.sum_reverse, List.map_map]
            rfl
          rw [hnew]
          rw [hsplit] at hf
          have hbound : ((preds.getD cur []).map (fun p => (n + 1) ^ rank p)).sum + 1 ≤ (n + 1) ^ rank cur := by
            by_cases hr0 : rank cur = 0
            · have hnil : preds.getD cur [] = [] := by
                cases hl : preds.getD cur [] with
                | nil => rfl
                | cons p l =>
                  have := (hdown cur hc p (by rw [hl]; simp)).2
                  omega
              rw [hnil, hr0]; simp
            · obtain ⟨k, hk⟩ : ∃ k, rank cur = k + 1 := ⟨rank cur - 1, by omega⟩
              rw [hk]
              have h1 := sum_le_length_mul ((preds.getD cur []).map (fun p => (n + 1) ^ rank p)) ((n + 1) ^ k) (by
                intro x hx
                obtain ⟨p, hp, rfl⟩ := List.mem_map.1 hx
                have := (hdown cur hc p hp).2
                exact Nat.pow_le_pow_right (by omega) (by omega))
              rw [List.length_map] at h1
              have h2 : (preds.getD cur []).length * (n + 1) ^ k ≤ n * (n + 1) ^ k := Nat.mul_le_mul_right _ (hlen cur)
              have h3 : 1 ≤ (n + 1) ^ k := Nat.pow_pos (by omega)
              have h4 : (n + 1) ^ (k + 1) = n * (n + 1) ^ k + (n + 1) ^ k := by
                rw [Nat.pow_succ, Nat.mul_comm, Nat.succ_mul]
              omega
          omega

end BGV
