import BGV.Model.Paths
/-!
# BGV.Algo.MultiPath — `findMultiplePathsToVertexFromPredecessors`: the two-stack machine
enumerates exactly the predecessor chains from the source to the destination, each once.
-/
namespace BGV.MultiPath
open Bfs (MAX)

/-- the predecessor structure the machine walks: `rank` decreases along predecessors, only the
source has none, every vertex met is in range -/
structure PS (preds : List (List Nat)) (s : Nat) (ok : Nat → Prop) (rank : Nat → Nat) : Prop where
  get : ∀ c, ok c → preds[c]? = some (preds.getD c [])
  src : ok s ∧ preds.getD s [] = []
  nonempty : ∀ c, ok c → c ≠ s → preds.getD c [] ≠ []
  down : ∀ c, ok c → ∀ p ∈ preds.getD c [], ok p ∧ rank p < rank c

variable (preds : List (List Nat)) (s t : Nat)

/-- the paths the machine emits for a stack entry `(cur, lst)`, in emission order -/
def enum : Nat → Nat → List Nat → List (List Nat)
  | 0, cur, lst => if cur = s then [cur :: lst ++ [t]] else []
  | k+1, cur, lst =>
    if cur = s then [cur :: lst ++ [t]]
    else (preds.getD cur []).reverse.flatMap (fun p => enum k p (cur :: lst))

/-- number of machine steps spent on a stack entry -/
def cnt : Nat → Nat → Nat
  | 0, _ => 1
  | k+1, cur => if cur = s then 1 else 1 + ((preds.getD cur []).map (cnt k)).sum

def stackCnt (rank : Nat → Nat) (stack : List (Nat × List Nat)) : Nat :=
  (stack.map (fun e => cnt preds s (rank e.1) e.1)).sum

def stackEnum (rank : Nat → Nat) (stack : List (Nat × List Nat)) : List (List Nat) :=
  stack.flatMap (fun e => enum preds s t (rank e.1) e.1 e.2)

variable {preds s t}

theorem flatMap_congr' {α β} (l : List α) (f g : α → List β) (h : ∀ a ∈ l, f a = g a) :
    l.flatMap f = l.flatMap g := by
  induction l with
  | nil => rfl
  | cons a l ih =>
    simp only [List.flatMap_cons]
    rw [h a (by simp), ih (fun x hx => h x (by simp [hx]))]

/-- the fuel of `enum` does not matter once it covers the rank -/
theorem enum_stable {ok : Nat → Prop} {rank : Nat → Nat} (h : PS preds s ok rank) (n : Nat) :
    ∀ c, ok c → rank c ≤ n → ∀ k k' lst, rank c ≤ k → rank c ≤ k' →
      enum preds s t k c lst = enum preds s t k' c lst := by
  induction n with
  | zero =>
    intro c hc hn k k' lst _ _
    by_cases hcs : c = s
    · cases k <;> cases k' <;> simp [enum, hcs]
    · obtain ⟨p0, l0, hp0⟩ := List.exists_cons_of_ne_nil (h.nonempty c hc hcs)
      have := (h.down c hc p0 (by rw [hp0]; simp)).2
      omega
  | succ n ih =>
    intro c hc hn k k' lst hk hk'
    by_cases hcs : c = s
    · cases k <;> cases k' <;> simp [enum, hcs]
    · obtain ⟨p0, l0, hp0⟩ := List.exists_cons_of_ne_nil (h.nonempty c hc hcs)
      have hp0r := (h.down c hc p0 (by rw [hp0]; simp)).2
      cases k with
      | zero => omega
      | succ k =>
        cases k' with
        | zero => omega
        | succ k' =>
          simp only [enum, hcs, if_false]
          apply flatMap_congr'
          intro p hp
          have hpm : p ∈ preds.getD c [] := by simpa using hp
          obtain ⟨hpo, hpr⟩ := h.down c hc p hpm
          exact ih p hpo (by omega) k k' (c :: lst) (by omega) (by omega)

theorem cnt_stable {ok : Nat → Prop} {rank : Nat → Nat} (h : PS preds s ok rank) (n : Nat) :
    ∀ c, ok c → rank c ≤ n → ∀ k k', rank c ≤ k → rank c ≤ k' → cnt preds s k c = cnt preds s k' c := by
  induction n with
  | zero =>
    intro c hc hn k k' _ _
    by_cases hcs : c = s
    · cases k <;> cases k' <;> simp [cnt, hcs]
    · obtain ⟨p0, l0, hp0⟩ := List.exists_cons_of_ne_nil (h.nonempty c hc hcs)
      have := (h.down c hc p0 (by rw [hp0]; simp)).2
      omega
  | succ n ih =>
    intro c hc hn k k' hk hk'
    by_cases hcs : c = s
    · cases k <;> cases k' <;> simp [cnt, hcs]
    · obtain ⟨p0, l0, hp0⟩ := List.exists_cons_of_ne_nil (h.nonempty c hc hcs)
      have hp0r := (h.down c hc p0 (by rw [hp0]; simp)).2
      cases k with
      | zero => omega
      | succ k =>
        cases k' with
        | zero => omega
        | succ k' =>
          simp only [cnt, hcs, if_false]
          congr 2
          apply List.map_congr_left
          intro p hp
          obtain ⟨hpo, hpr⟩ := h.down c hc p hp
          exact ih p hpo (by omega) k k' (by omega) (by omega)

theorem sum_map_reverse (l : List Nat) (f : Nat → Nat) : ((l.reverse).map f).sum = (l.map f).sum := by
  induction l with
  | nil => rfl
  | cons a l ih => simp [List.sum_append, ih]; omega

/-- **the machine**: with enough fuel, running from `stack` appends exactly the enumerations of
the stack entries, in order; it never throws and never indexes out of range -/
theorem multiLoop_spec {ok : Nat → Prop} {rank : Nat → Nat} (h : PS preds s ok rank) (fuel : Nat) :
    ∀ (stack : List (Nat × List Nat)) (paths : List (List Nat)),
      (∀ e ∈ stack, ok e.1) → stackCnt preds s rank stack < fuel →
      multiLoop preds s t fuel stack paths = some (.ok (paths ++ stackEnum preds s t rank stack)) := by
  induction fuel with
  | zero => intro stack paths _ hf; omega
  | succ f ih =>
    intro stack paths hok hf
    cases stack with
    | nil => simp [multiLoop, stackEnum]
    | cons e stack =>
      obtain ⟨cur, lst⟩ := e
      have hc : ok cur := hok (cur, lst) (by simp)
      have hget := h.get cur hc
      simp only [multiLoop, hget]
      by_cases hcs : cur = s
      · -- the source: emit the path, push nothing
        subst hcs
        have hps : preds.getD cur [] = [] := h.src.2
        have hcnt : cnt preds cur (rank cur) cur = 1 := by cases rank cur <;> simp [cnt]
        have henum : enum preds cur t (rank cur) cur lst = [cur :: lst ++ [t]] := by cases rank cur <;> simp [enum]
        simp only [hps, List.isEmpty_nil, ne_eq, not_true_eq_false, and_false, if_false, List.map_nil,
          List.reverse_nil, List.nil_append, if_true]
        rw [ih stack _ (fun e he => hok e (by simp [he])) (by
          simp only [stackCnt, List.map_cons, List.sum_cons, hcnt] at hf ⊢; omega)]
        simp only [stackEnum, List.flatMap_cons, henum, List.append_assoc, List.singleton_append]
      · have hne := h.nonempty cur hc hcs
        have hemp : ¬ ((preds.getD cur []).isEmpty = true ∧ cur ≠ s) := by
          intro hh; apply hne; simpa using hh.1
        simp only [hemp, if_false, hcs]
        obtain ⟨p0, l0, hp0⟩ := List.exists_cons_of_ne_nil hne
        have hp0r := (h.down cur hc p0 (by rw [hp0]; simp)).2
        obtain ⟨r, hr⟩ : ∃ r, rank cur = r + 1 := ⟨rank cur - 1, by omega⟩
        have hchild : ∀ p ∈ preds.getD cur [], ok p ∧ rank p ≤ r := by
          intro p hp; have := h.down cur hc p hp; exact ⟨this.1, by omega⟩
        have hcntc : cnt preds s (rank cur) cur = 1 + ((preds.getD cur []).map (fun p => cnt preds s (rank p) p)).sum := by
          rw [hr]; simp only [cnt, hcs, if_false]
          congr 2
          apply List.map_congr_left
          intro p hp
          exact cnt_stable h r p (hchild p hp).1 (hchild p hp).2 r (rank p) (hchild p hp).2 (Nat.le_refl _)
        have henumc : enum preds s t (rank cur) cur lst
            = (preds.getD cur []).reverse.flatMap (fun p => enum preds s t (rank p) p (cur :: lst)) := by
          rw [hr]; simp only [enum, hcs, if_false]
          apply flatMap_congr'
          intro p hp
          have hpm : p ∈ preds.getD cur [] := by simpa using hp
          exact enum_stable h r p (hchild p hpm).1 (hchild p hpm).2 r (rank p) _ (hchild p hpm).2 (Nat.le_refl _)
        rw [ih _ _ (by
          intro e he
          rcases List.mem_append.1 he with h1 | h1
          · simp only [List.mem_reverse, List.mem_map] at h1
            obtain ⟨p, hp, rfl⟩ := h1
            exact (hchild p hp).1
          · exact hok e (by simp [h1])) (by
          simp only [stackCnt, List.map_append, List.sum_append, List.map_reverse, List.map_map, List.map_cons,
            List.sum_cons, hcntc] at hf ⊢
          have := sum_map_reverse (preds.getD cur []) (fun p => cnt preds s (rank p) p)
          simp only [List.map_reverse] at this
          have h2 : ((fun e : Nat × List Nat => cnt preds s (rank e.1) e.1) ∘ fun p => (p, cur :: lst))
              = fun p => cnt preds s (rank p) p := by funext p; rfl
          rw [h2, this]; omega)]
        simp only [stackEnum, List.flatMap_append, List.flatMap_cons, henumc, List.flatMap_reverse]
        congr 2
        simp only [List.flatMap_map, List.map_reverse]
        rfl

end BGV.MultiPath
