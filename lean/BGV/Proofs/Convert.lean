import BGV.Proofs.AddAll
import BGV.Props.C06
/-!
# BGV.Proofs.Convert — `getReversedGraph` as an `addAll`
-/
set_option linter.unusedSectionVars false
namespace BGV
namespace G
variable {L : Type} [Inhabited L]

theorem dGetEdgeLabel_edge (g : G L) (hg : Inv g) (i j : Nat) (he : g.hasEdgeRaw i j = true) :
    g.dGetEdgeLabel i j true = .ok (g.labD (i, j)) := by
  obtain ⟨hi, hj⟩ := hg.hasEdgeRaw_lt he
  simp only [dGetEdgeLabel, inR, hi, hj, decide_true, Bool.and_self, if_true, getLab, labD_eq]
  by_cases hl : g.labelled = true
  · have hs := hg.lab hl i j
    rw [he] at hs
    obtain ⟨v, hv⟩ := Option.isSome_iff_exists.1 hs
    simp [hl, hv]
  · have hl : g.labelled = false := by simpa using hl
    simp [hl]

/-- the loop body of `getReversedGraph` -/
def revStep (g : G L) (r : Res (G L)) (e : Edge) : Res (G L) :=
  r.bind (fun h =>
    match g.dGetEdgeLabel e.1 e.2 true with
    | .ok l => match h.dAddEdge e.2 e.1 l false with
               | (h', .ok _) => .ok h'
               | (_, .threw x) => .threw x
               | (_, .ub) => .ub
    | .threw x => .threw x
    | .ub => .ub)

theorem dReversed_eq_fold (g : G L) : g.dReversed = g.dEdges.foldl (revStep g) (.ok (G.new g.labelled g.size)) := rfl

def revEdges (g : G L) (es : List Edge) : List (LEdge L) := es.map (fun e => (e.2, e.1, g.labD (e.1, e.2)))

theorem foldl_revStep (g : G L) (hg : Inv g) (es : List Edge) (hes : ∀ e ∈ es, g.hasEdgeRaw e.1 e.2 = true)
    (h : G L) (hs : h.size = g.size) :
    es.foldl (revStep g) (.ok h) = .ok (h.addAll (revEdges g es)) := by
  induction es generalizing h with
  | nil => rfl
  | cons e es ih =>
    have he := hes e (by simp)
    obtain ⟨hi, hj⟩ := hg.hasEdgeRaw_lt he
    simp only [List.foldl_cons, revEdges, List.map_cons, addAll]
    have hstep : revStep g (.ok h) e = .ok (h.dAddEdge e.2 e.1 (g.labD (e.1, e.2)) false).1 := by
      simp only [revStep, Res.bind, dGetEdgeLabel_edge g hg e.1 e.2 he]
      rw [dAddEdge_ok' h e.2 e.1 _ (by rw [hs]; exact hj) (by rw [hs]; exact hi)]
    rw [hstep]
    exact ih (fun x hx => hes x (by simp [hx])) _ (by rw [dAddEdge_size]; exact hs)

theorem dReversed_ok (g : G L) (hg : Inv g) :
    g.dReversed = .ok ((G.new g.labelled g.size : G L).addAll (revEdges g g.edgeSeq)) := by
  rw [dReversed_eq_fold, dEdges_eq g hg.len]
  exact foldl_revStep g hg g.edgeSeq (fun e he => (mem_edgeSeq_iff' g hg e).1 he) _ rfl
where
  mem_edgeSeq_iff' (g : G L) (hg : Inv g) (e : Edge) : e ∈ g.edgeSeq ↔ g.hasEdgeRaw e.1 e.2 = true := by
    obtain ⟨i, j⟩ := e
    rw [← dEdges_eq g hg.len]
    exact C08_mem_dEdges g hg.len i j

theorem firstLabel_swapped (es : List Edge) (F : Edge → L) (x y : Nat) :
    AG.firstLabel (es.map (fun e => ((e.2, e.1, F e) : LEdge L))) x y = if (y, x) ∈ es then some (F (y, x)) else none := by
  induction es with
  | nil => simp [AG.firstLabel]
  | cons e es ih =>
    obtain ⟨a, b⟩ := e
    simp only [AG.firstLabel, List.map_cons, List.find?_cons, List.mem_cons, Prod.mk.injEq] at ih ⊢
    by_cases hm : b = x ∧ a = y
    · obtain ⟨rfl, rfl⟩ := hm; simp
    · have hb : (b == x && a == y) = false := by
        simp only [Bool.and_eq_false_iff, beq_eq_false_iff_ne]
        by_cases h1 : b = x
        · right; intro h2; exact hm ⟨h1, h2⟩
        · left; exact h1
      have hne : ¬ (y = a ∧ x = b) := fun hh => hm ⟨hh.2.symm, hh.1.symm⟩
      simp only [hb, hne, false_or]
      exact ih

end G
end BGV
