import BGV.Proofs.Multi3
import BGV.Proofs.WeightedU
import BGV.Props.C04
/-!
# BGV.Proofs.MultiU — `UndirectedMultigraph`: the graph part of every mutator is a call of
the labelled undirected base class, multiplicities stay positive, `totalEdgeNumber` stays
the sum of the stored multiplicities.
-/
set_option linter.unusedSectionVars false
namespace BGV
namespace MG
open G

/-- the implementation's transition (model of `UndirectedMultigraph`, force off) -/
def uStep (m : MG) : MOp → MG
  | .addEdge i j => (m.uAddMultiedge i j 1 false).1
  | .addMultiedge i j k => (m.uAddMultiedge i j k false).1
  | .removeEdge i j => (m.uRemoveMultiedge i j 1).1
  | .removeMultiedge i j k => (m.uRemoveMultiedge i j k).1
  | .setEdgeMultiplicity i j k => (m.uSetEdgeMultiplicity i j k).1
  | .removeSelfLoops => m.uRemoveSelfLoops
  | .removeVertexFromEdgeList v => (m.uRemoveVertex v).1
  | .clearEdges => m.clearEdges
  | .resize n => (m.resize n).1

def uRun (m : MG) (ops : List MOp) : MG := ops.foldl uStep m

/-- multiplicity of the unordered pair, read the way `getEdgeMultiplicity` reads it -/
def umult (m : MG) (i j : Nat) : Nat := cur m.g (ordered i j)

structure MUInv (m : MG) : Prop where
  base : UInv m.g
  lbl : m.g.labelled = true
  keys : KeysNodup m.g
  pos : ∀ e v, m.g.labels.get? e = some v → 0 < v
  tot : m.total = AMap.sumVals m.g.labels

theorem muinv_new (n : Nat) : MUInv (MG.new n) :=
  ⟨uinv_new true n, rfl, keysNodup_new true n, by intro e v hv; simp [MG.new, G.new, AMap.get?] at hv,
   by simp [MG.new, G.new, AMap.sumVals]⟩

/-- base-class call performed on the graph part (`none`: the graph part is untouched) -/
def stepG (g : G Nat) : Option (SOp Nat) → G Nat
  | none => g
  | some op => (g.uStepM op).1

def addS (m : MG) (i j k : Nat) : Option (SOp Nat) :=
  if !(m.g.inR i && m.g.inR j) then none
  else if k = 0 then none
  else if m.g.uHasEdgeRaw i j then some (.setEdgeLabel i j (cur m.g (ordered i j) + k))
  else some (.addEdge i j k)

def remS (m : MG) (i j k : Nat) : Option (SOp Nat) :=
  if !(m.g.inR i && m.g.inR j) then none
  else if !m.g.hasEdgeRaw i j then none
  else if cur m.g (ordered i j) > k then some (.setEdgeLabel i j (cur m.g (ordered i j) - k))
  else some (.removeEdge i j)

def setS (m : MG) (i j k : Nat) : Option (SOp Nat) :=
  if !(m.g.inR i && m.g.inR j) then none
  else if k = 0 then some (.removeEdge i j)
  else if m.g.uHasEdgeRaw i j then some (.setEdgeLabel i j k)
  else some (.addEdge i j k)

def toSU (m : MG) : MOp → Option (SOp Nat)
  | .addEdge i j => m.addS i j 1
  | .addMultiedge i j k => m.addS i j k
  | .removeEdge i j => m.remS i j 1
  | .removeMultiedge i j k => m.remS i j k
  | .setEdgeMultiplicity i j k => m.setS i j k
  | .removeSelfLoops => some .removeSelfLoops
  | .removeVertexFromEdgeList v => some (.removeVertexFromEdgeList v)
  | .clearEdges => some .clearEdges
  | .resize n => some (.resize n)

/-! ### graph parts -/

theorem uAddMultiedge_g (m : MG) (hl : m.g.labelled = true) (i j k : Nat) :
    (m.uAddMultiedge i j k false).1.g = stepG m.g (m.addS i j k) := by
  unfold uAddMultiedge addS
  by_cases hr : (m.g.inR i && m.g.inR j) = true
  · simp only [hr, Bool.not_true, Bool.false_eq_true, if_false]
    by_cases hk : k = 0
    · simp [hk, stepG]
    · simp only [hk, if_false]
      by_cases he : m.g.uHasEdgeRaw i j = true
      · simp only [he, Bool.false_or, Bool.not_true, Bool.false_eq_true, if_false, if_true, stepG, G.uStepM,
          G.uSetEdgeLabel, hr, Bool.and_false]
        simp [setLab, hl, withLabels]
      · have he' : m.g.uHasEdgeRaw i j = false := by simpa using he
        simp only [he', Bool.not_false, Bool.or_true, if_true, Bool.false_eq_true, if_false, stepG, G.uStepM]
        rw [uAddEdge_forced_absent m.g i j k he']
  · have hr' : (m.g.inR i && m.g.inR j) = false := by simpa using hr
    simp [hr', stepG]

theorem uRemoveAllCore_g (m : MG) (i j : Nat) : (m.uRemoveAllCore i j).g = m.g.uRemoveEdgeCore i j := by
  unfold MG.uRemoveAllCore G.uRemoveEdgeCore
  simp only
  split <;> rfl

theorem modify_modify_same {α} (a : List α) (i : Nat) (f : α → α) (hf : ∀ x, f (f x) = f x) :
    (a.modify i f).modify i f = a.modify i f := by
  apply List.ext_getElem?
  intro k
  simp only [List.getElem?_modify]
  by_cases hik : i = k
  · subst hik
    cases a[i]? <;> simp [hf]
  · simp [hik]

theorem uRemoveMultiedge_all_g (m : MG) (h : UInv m.g) (i j : Nat) (he : m.g.hasEdgeRaw i j = true) :
    (⟨true, m.g.size,
        (if i ≠ j then (m.g.adj.modify i (fun l => l.erase j)).modify j (List.filter (· != i))
          else m.g.adj.modify i (fun l => l.erase j)),
        subW m.g.edgeNumber 1, m.g.labels.erase (ordered i j)⟩ : G Nat) = m.g.uRemoveEdgeCore i j ∨ m.g.labelled = false := by
  by_cases hl : m.g.labelled = true
  · left
    have hm : j ∈ m.g.nb i := (mem_nb_iff m.g i j).2 he
    rw [uRemoveEdgeCore_present m.g h.base i j hm]
    have hadj : m.g.adj.modify i (fun l => l.erase j) = m.g.adj.modify i (List.filter (· != j)) :=
      modify_congr _ _ _ _ (erase_eq_filter_of_nodup _ _ (h.base.nodup i))
    simp only [withLabels, withEN, remove, withAdj, hl, hadj]
    by_cases hij : i = j
    · subst hij
      simp only [ne_eq, not_true_eq_false, if_false]
      rw [modify_modify_same _ _ _ (by intro x; simp)]
    · simp [hij]
  · right; simpa using hl

theorem uRemoveMultiedge_g (m : MG) (h : UInv m.g) (hl : m.g.labelled = true) (i j k : Nat) :
    (m.uRemoveMultiedge i j k).1.g = stepG m.g (m.remS i j k) := by
  unfold uRemoveMultiedge remS
  by_cases hr : (m.g.inR i && m.g.inR j) = true
  · simp only [hr, Bool.not_true, Bool.false_eq_true, if_false]
    by_cases he : m.g.hasEdgeRaw i j = true
    · simp only [he, Bool.not_true, Bool.false_eq_true, if_false]
      by_cases hk : cur m.g (ordered i j) > k
      · have hu : m.g.uHasEdgeRaw i j = true := by rw [h.uHasEdgeRaw_eq]; exact he
        simp only [hk, if_true, stepG, G.uStepM, G.uSetEdgeLabel, hr, hu, Bool.not_true, Bool.and_false,
          Bool.false_eq_true, if_false]
        simp [setLab, hl, withLabels]
      · simp only [hk, if_false, stepG, G.uStepM, G.uRemoveEdge, hr, Bool.not_true, Bool.false_eq_true]
        rcases uRemoveMultiedge_all_g m h i j he with h1 | h1
        · exact h1
        · rw [hl] at h1; cases h1
    · have he' : m.g.hasEdgeRaw i j = false := by simpa using he
      simp [he', stepG]
  · have hr' : (m.g.inR i && m.g.inR j) = false := by simpa using hr
    simp [hr', stepG]

theorem uSetEdgeMultiplicity_g (m : MG) (hl : m.g.labelled = true) (i j k : Nat) :
    (m.uSetEdgeMultiplicity i j k).1.g = stepG m.g (m.setS i j k) := by
  unfold uSetEdgeMultiplicity setS
  by_cases hr : (m.g.inR i && m.g.inR j) = true
  · simp only [hr, Bool.not_true, Bool.false_eq_true, if_false]
    by_cases hk : k = 0
    · simp only [hk, if_true, stepG, G.uStepM, G.uRemoveEdge, hr, Bool.not_true, Bool.false_eq_true, if_false]
      exact uRemoveAllCore_g m i j
    · simp only [hk, if_false]
      by_cases he : m.g.uHasEdgeRaw i j = true
      · simp only [he, if_true, stepG, G.uStepM, G.uSetEdgeLabel, hr, Bool.not_true, Bool.and_false,
          Bool.false_eq_true, if_false]
        simp [setLab, hl, withLabels]
      · have he' : m.g.uHasEdgeRaw i j = false := by simpa using he
        simp only [he', Bool.false_eq_true, if_false, stepG, G.uStepM]
        simp only [uAddMultiedge, hr, Bool.not_true, Bool.false_eq_true, if_false, hk, he',
          Bool.not_false, Bool.or_true, if_true]
        rw [uAddEdge_forced_absent m.g i j k he']
  · have hr' : (m.g.inR i && m.g.inR j) = false := by simpa using hr
    simp [hr', stepG]

theorem foldl_uRemoveAll_g (f : Nat → Nat × Nat) (is : List Nat) (m : MG) :
    (is.foldl (fun m i => m.uRemoveAllCore (f i).1 (f i).2) m).g
      = is.foldl (fun g i => g.uRemoveEdgeCore (f i).1 (f i).2) m.g := by
  induction is generalizing m with
  | nil => rfl
  | cons i is ih => simp only [List.foldl_cons]; rw [ih, uRemoveAllCore_g]

/-! ### removeVertexFromEdgeList -/

theorem dropCnt_fst (i : Nat) (js : List Nat) (lab : AMap Nat) (t : Nat) :
    (dropCnt i js (lab, t)).1 = js.foldl (fun m j => AMap.erase m (i, j)) lab := by
  induction js generalizing lab t with
  | nil => rfl
  | cons j js ih => simp only [dropCnt, List.foldl_cons]; exact ih _ _

theorem dropCnt_snd (i : Nat) (js : List Nat) (lab : AMap Nat) (t : Nat) (hle : ∀ j ∈ js, i ≤ j)
    (hk : (AMap.keys lab).Nodup) (ht : t = AMap.sumVals lab) :
    (dropCnt i js (lab, t)).2 = AMap.sumVals (dropCnt i js (lab, t)).1 := by
  induction js generalizing lab t with
  | nil => exact ht
  | cons j js ih =>
    simp only [dropCnt]
    apply ih _ _ (fun x hx => hle x (by simp [hx])) (AMap.nodup_keys_erase lab _ hk)
    have h1 := AMap.sumVals_erase lab (i, j) hk
    have h2 := AMap.get?_le_sumVals lab (i, j)
    rw [ordered_of_le (hle j (by simp)), subW_of_le (by omega)]
    omega

def uRVStepM (v : Nat) (m : MG) (i : Nat) : MG :=
  let gone := (m.g.nb i).filter (fun j => i == v || j == v)
  let cnt := gone.filter (fun j => decide (i ≤ j))
  let (lab, t) := dropCnt i cnt (m.g.labels, m.total)
  ⟨⟨true, m.g.size, m.g.adj.modify i (List.filter (fun j => !(i == v || j == v))),
    subW m.g.edgeNumber cnt.length, lab⟩, t⟩

theorem uRVStepM_g (v : Nat) (m : MG) (hl : m.g.labelled = true) (i : Nat) :
    (uRVStepM v m i).g = uRVStep v m.g i := by
  simp only [uRVStepM, uRVStep, hl]
  rw [← dropCnt_fst i _ m.g.labels m.total]

theorem uRVStepM_tot (v : Nat) (m : MG) (hk : KeysNodup m.g) (ht : m.total = AMap.sumVals m.g.labels) (i : Nat) :
    (uRVStepM v m i).total = AMap.sumVals (uRVStepM v m i).g.labels := by
  show (dropCnt i _ (m.g.labels, m.total)).2 = AMap.sumVals (dropCnt i _ (m.g.labels, m.total)).1
  exact dropCnt_snd i _ _ _ (fun j hj => by simpa using (List.mem_filter.1 hj).2) hk ht

theorem uRemoveVertex_eqM (m : MG) (v : Nat) (hv : v < m.g.size) :
    (m.uRemoveVertex v).1 = (List.range m.g.size).foldl (uRVStepM v) m := by
  simp only [MG.uRemoveVertex, inR, hv, decide_true, Bool.not_true, Bool.false_eq_true, if_false]
  rfl

theorem uRemoveVertex_oorM (m : MG) (v : Nat) (hv : ¬ v < m.g.size) : m.uRemoveVertex v = (m, .threw .oor) := by
  simp [MG.uRemoveVertex, inR, hv]

theorem foldl_uRVStepM (v : Nat) (is : List Nat) (m : MG) (hl : m.g.labelled = true) (hk : KeysNodup m.g)
    (ht : m.total = AMap.sumVals m.g.labels) :
    (is.foldl (uRVStepM v) m).g = is.foldl (uRVStep v) m.g ∧
    (is.foldl (uRVStepM v) m).total = AMap.sumVals (is.foldl (uRVStepM v) m).g.labels := by
  induction is generalizing m with
  | nil => exact ⟨rfl, ht⟩
  | cons i is ih =>
    simp only [List.foldl_cons]
    have hg := uRVStepM_g v m hl i
    have := ih (uRVStepM v m i) (by rw [hg]; simpa using hl) (by rw [KeysNodup, hg]; exact keysNodup_uRVStep v m.g i hk)
      (uRVStepM_tot v m hk ht i)
    rw [hg] at this
    exact this

/-- **graph part**: every multigraph mutator acts on the inherited labelled undirected graph as
the base-class call `toSU` names (or leaves it untouched) -/
theorem uStep_g (m : MG) (h : UInv m.g) (hl : m.g.labelled = true) (hk : KeysNodup m.g)
    (ht : m.total = AMap.sumVals m.g.labels) (op : MOp) : (m.uStep op).g = stepG m.g (m.toSU op) := by
  cases op with
  | addEdge i j => exact uAddMultiedge_g m hl i j 1
  | addMultiedge i j k => exact uAddMultiedge_g m hl i j k
  | removeEdge i j => exact uRemoveMultiedge_g m h hl i j 1
  | removeMultiedge i j k => exact uRemoveMultiedge_g m h hl i j k
  | setEdgeMultiplicity i j k => exact uSetEdgeMultiplicity_g m hl i j k
  | removeSelfLoops =>
    show ((List.range m.g.size).foldl (fun (m : MG) i => m.uRemoveAllCore ((fun i => (i, i)) i).1 ((fun i => (i, i)) i).2) m).g = _
    rw [foldl_uRemoveAll_g]; rfl
  | removeVertexFromEdgeList v =>
    simp only [uStep, toSU, stepG, G.uStepM]
    by_cases hv : v < m.g.size
    · rw [uRemoveVertex_eqM m v hv, (foldl_uRVStepM v _ m hl hk ht).1, G.uRemoveVertex_eq m.g v hv]
    · rw [uRemoveVertex_oorM m v hv, G.uRemoveVertex_oor m.g v hv]
  | clearEdges => rfl
  | resize n =>
    simp only [uStep, toSU, stepG, G.uStepM, MG.resize]

/-! ### positivity and the running total -/

def Pos (lab : AMap Nat) : Prop := ∀ e v, lab.get? e = some v → 0 < v

theorem Pos.insert {lab : AMap Nat} (h : Pos lab) (e : Edge) (v : Nat) (hv : 0 < v) : Pos (lab.insert e v) := by
  intro e' w hw
  rw [AMap.get?_insert] at hw
  by_cases he : e' = e
  · simp only [he, if_true, Option.some.injEq] at hw; omega
  · simp only [he, if_false] at hw; exact h e' w hw

theorem Pos.erase {lab : AMap Nat} (h : Pos lab) (e : Edge) : Pos (lab.erase e) := by
  intro e' w hw
  rw [AMap.get?_erase] at hw
  split at hw
  · cases hw
  · exact h e' w hw

theorem Pos.foldl_erase {lab : AMap Nat} (h : Pos lab) (v : Nat) (js : List Nat) :
    Pos (js.foldl (fun m j => AMap.erase m (v, j)) lab) := by
  induction js generalizing lab with
  | nil => exact h
  | cons j js ih => exact ih (h.erase _)

theorem pos_stepG (g : G Nat) (hl : g.labelled = true) (hp : Pos g.labels) (o : Option (SOp Nat))
    (hv : ∀ i j l, o = some (.addEdge i j l) ∨ o = some (.setEdgeLabel i j l) → 0 < l) :
    Pos (stepG g o).labels := by
  cases o with
  | none => exact hp
  | some op =>
    cases op with
    | addEdge i j l =>
      have hl0 := hv i j l (Or.inl rfl)
      simp only [stepG, G.uStepM, G.uAddEdge]
      split
      · exact hp
      · split
        · simp only [withEN_labels]
          rw [setLab_labels_true _ _ _ (by split <;> simpa [push] using hl)]
          have : ((if i ≠ j then g.push i j else g).push j i).labels = g.labels := by split <;> rfl
          rw [this]; exact hp.insert _ _ hl0
        · exact hp
    | addReciprocalEdge i j l => exact hp
    | removeEdge i j =>
      simp only [stepG, G.uStepM, G.uRemoveEdge]
      split
      · exact hp
      · unfold G.uRemoveEdgeCore; simp only; split
        · exact hp.erase _
        · exact hp
    | removeSelfLoops =>
      simp only [stepG, G.uStepM, G.uRemoveSelfLoops]
      generalize List.range g.size = is
      induction is generalizing g with
      | nil => exact hp
      | cons i is ih =>
        simp only [List.foldl_cons]
        apply ih
        · unfold G.uRemoveEdgeCore; simp only; split <;> simp [hl]
        · unfold G.uRemoveEdgeCore; simp only; split
          · exact hp.erase _
          · exact hp
    | removeVertexFromEdgeList v =>
      simp only [stepG, G.uStepM]
      by_cases hv' : v < g.size
      · rw [G.uRemoveVertex_eq g v hv']
        clear hv'
        generalize List.range g.size = is
        induction is generalizing g with
        | nil => exact hp
        | cons i is ih =>
          simp only [List.foldl_cons]
          exact ih (uRVStep v g i) (by simp [hl]) (hp.foldl_erase i _)
      · rw [G.uRemoveVertex_oor g v hv']; exact hp
    | clearEdges => intro e v hv; simp [stepG, G.uStepM, G.clearEdges, AMap.get?] at hv
    | resize n => simp only [stepG, G.uStepM, G.resize]; split <;> exact hp
    | setEdgeLabel i j l =>
      have hl0 := hv i j l (Or.inr rfl)
      simp only [stepG, G.uStepM, G.uSetEdgeLabel]
      split
      · exact hp
      · split
        · exact hp
        · rw [setLab_labels_true _ _ _ hl]; exact hp.insert _ _ hl0


theorem get?_none_of_uabsentN (g : G Nat) (h : UInv g) (hl : g.labelled = true) (i j : Nat)
    (he : g.uHasEdgeRaw i j = false) : g.labels.get? (ordered i j) = none := by
  have he' : g.hasEdgeRaw i j = false := by rw [← h.uHasEdgeRaw_eq]; exact he
  have hnot : j ∉ g.nb i := by rw [mem_nb_iff]; simp [he']
  have hnot' : i ∉ g.nb j := fun hm => hnot ((h.sym i j).2 hm)
  have := h.base.lab hl (ordered i j).1 (ordered i j).2
  cases hg : g.labels.get? (ordered i j) with
  | none => rfl
  | some w =>
    rw [show ((ordered i j).1, (ordered i j).2) = ordered i j from rfl, hg] at this
    simp only [Option.isSome_some, ordered_fst_le, decide_true, Bool.true_and] at this
    have hm : (ordered i j).2 ∈ g.nb (ordered i j).1 := (mem_nb_iff g _ _).2 this.symm
    unfold ordered at hm
    split at hm
    · exact absurd hm hnot
    · exact absurd hm hnot'

theorem get?_some_of_upresent (m : MG) (h : MUInv m) (i j : Nat) (he : m.g.hasEdgeRaw i j = true) :
    ∃ v, m.g.labels.get? (ordered i j) = some v ∧ 0 < v := by
  have hm : j ∈ m.g.nb i := (mem_nb_iff m.g i j).2 he
  have hs := h.base.base.lab h.lbl (ordered i j).1 (ordered i j).2
  have hraw : m.g.hasEdgeRaw (ordered i j).1 (ordered i j).2 = true := by
    unfold ordered; split
    · exact he
    · exact (mem_nb_iff m.g j i).1 ((h.base.sym i j).1 hm)
  rw [hraw] at hs
  simp only [ordered_fst_le, decide_true, Bool.true_and] at hs
  obtain ⟨v, hv⟩ := Option.isSome_iff_exists.1 hs
  exact ⟨v, hv, h.pos _ _ hv⟩

theorem tot_uAddMultiedge (m : MG) (h : MUInv m) (i j k : Nat) :
    (m.uAddMultiedge i j k false).1.total = AMap.sumVals (m.uAddMultiedge i j k false).1.g.labels := by
  unfold uAddMultiedge
  split
  · exact h.tot
  · rename_i hr
    have hi : i < m.g.size ∧ j < m.g.size := by simpa [inR] using hr
    split
    · exact h.tot
    · by_cases he : m.g.uHasEdgeRaw i j = true
      · simp only [he, Bool.false_or, Bool.not_true, Bool.false_eq_true, if_false, withLabels_labels]
        have hraw : m.g.hasEdgeRaw i j = true := by rw [← h.base.uHasEdgeRaw_eq]; exact he
        obtain ⟨v, hv, _⟩ := get?_some_of_upresent m h i j hraw
        have := AMap.sumVals_insert m.g.labels (ordered i j) (cur m.g (ordered i j) + k) h.keys
        rw [h.tot, cur_eq] at *
        simp only [hv, Option.getD_some] at this ⊢
        omega
      · have he : m.g.uHasEdgeRaw i j = false := by simpa using he
        simp only [he, Bool.not_false, Bool.or_true, if_true]
        rw [uAddEdge_forced_absent m.g i j k he, uAddEdge_absent m.g i j k hi.1 hi.2 he]
        have hlabels : (m.g.uAdded i j k).labels = m.g.labels.insert (ordered i j) k := by
          simp only [uAdded, withEN_labels]
          rw [setLab_labels_true _ _ _ (by split <;> simpa [push] using h.lbl)]
          split <;> rfl
        rw [hlabels]
        have := AMap.sumVals_insert m.g.labels (ordered i j) k h.keys
        rw [get?_none_of_uabsentN m.g h.base h.lbl i j he] at this
        simp only [Option.getD_none] at this
        rw [h.tot]; omega

theorem tot_uRemoveAllCore (m : MG) (h : MUInv m) (i j : Nat) :
    (m.uRemoveAllCore i j).total = AMap.sumVals (m.uRemoveAllCore i j).g.labels := by
  have hd : (default : Nat) = 0 := rfl
  have hdiff := uRemove_diff m.g h.base.base i j
  by_cases hm : j ∈ m.g.nb i
  · simp only [hm, if_true] at hdiff
    simp only [MG.uRemoveAllCore, hdiff, Nat.zero_lt_one, if_true, labD, h.lbl, hd,
      withLabels_labels, Nat.mul_one]
    have := AMap.sumVals_erase m.g.labels (ordered i j) h.keys
    have hle := AMap.get?_le_sumVals m.g.labels (ordered i j)
    rw [subW_of_le (by rw [h.tot]; exact hle), h.tot]; omega
  · simp only [hm, if_false] at hdiff
    simp only [MG.uRemoveAllCore, hdiff, Nat.lt_irrefl, if_false, remove_labels]
    exact h.tot

theorem tot_uRemoveMultiedge (m : MG) (h : MUInv m) (i j k : Nat) :
    (m.uRemoveMultiedge i j k).1.total = AMap.sumVals (m.uRemoveMultiedge i j k).1.g.labels := by
  unfold uRemoveMultiedge
  split
  · exact h.tot
  · split
    · exact h.tot
    · rename_i _ he
      have he : m.g.hasEdgeRaw i j = true := by simpa using he
      obtain ⟨v, hv, _⟩ := get?_some_of_upresent m h i j he
      have hle := AMap.get?_le_sumVals m.g.labels (ordered i j)
      simp only [hv, Option.getD_some] at hle
      simp only [cur_eq, hv, Option.getD_some]
      split
      · simp only [withLabels_labels]
        have := AMap.sumVals_insert m.g.labels (ordered i j) (v - k) h.keys
        simp only [hv, Option.getD_some] at this
        rw [subW_of_le (by rw [h.tot]; omega), h.tot]; omega
      · simp only
        have := AMap.sumVals_erase m.g.labels (ordered i j) h.keys
        simp only [hv, Option.getD_some] at this
        rw [subW_of_le (by rw [h.tot]; omega), h.tot]; omega

theorem tot_uSetEdgeMultiplicity (m : MG) (h : MUInv m) (i j k : Nat) :
    (m.uSetEdgeMultiplicity i j k).1.total = AMap.sumVals (m.uSetEdgeMultiplicity i j k).1.g.labels := by
  unfold uSetEdgeMultiplicity
  split
  · exact h.tot
  · split
    · exact tot_uRemoveAllCore m h i j
    · rename_i hk
      by_cases he : m.g.uHasEdgeRaw i j = true
      · simp only [he, if_true, withLabels_labels]
        have hraw : m.g.hasEdgeRaw i j = true := by rw [← h.base.uHasEdgeRaw_eq]; exact he
        obtain ⟨v, hv, _⟩ := get?_some_of_upresent m h i j hraw
        have := AMap.sumVals_insert m.g.labels (ordered i j) k h.keys
        have hle := AMap.get?_le_sumVals m.g.labels (ordered i j)
        simp only [hv, Option.getD_some, cur_eq] at this hle ⊢
        rw [subW_of_le (by rw [h.tot]; omega), h.tot]; omega
      · have he' : m.g.uHasEdgeRaw i j = false := by simpa using he
        simp only [he', Bool.false_eq_true, if_false]
        have h1 := tot_uAddMultiedge m h i j k
        have : m.uAddMultiedge i j k true = m.uAddMultiedge i j k false := by simp [uAddMultiedge, he']
        rw [this]; exact h1

/-- the generic closing step: graph part from a base-class call, positivity, total -/
theorem muinv_of (m m' : MG) (h : MUInv m) (o : Option (SOp Nat)) (hg : m'.g = stepG m.g o)
    (hv : ∀ i j l, o = some (.addEdge i j l) ∨ o = some (.setEdgeLabel i j l) → 0 < l)
    (ht : m'.total = AMap.sumVals m'.g.labels) : MUInv m' := by
  refine ⟨?_, ?_, ?_, ?_, ht⟩
  · rw [hg]; cases o with
    | none => exact h.base
    | some op => exact uinv_uStepM m.g h.base op
  · rw [hg]; cases o with
    | none => exact h.lbl
    | some op => show (m.g.uStepM op).1.labelled = true; rw [uStepM_labelled m.g h.base]; exact h.lbl
  · rw [KeysNodup, hg]; cases o with
    | none => exact h.keys
    | some op => exact keysNodup_uStepM m.g op h.keys
  · rw [hg]; exact pos_stepG m.g h.lbl h.pos o hv

theorem muinv_uRemoveAllCore (m : MG) (h : MUInv m) (i j : Nat) : MUInv (m.uRemoveAllCore i j) := by
  by_cases hr : (m.g.inR i && m.g.inR j) = true
  · refine muinv_of m _ h (some (.removeEdge i j)) ?_ (by intro a b l hh; rcases hh with hh | hh <;> cases hh)
      (tot_uRemoveAllCore m h i j)
    simp only [stepG, G.uStepM, G.uRemoveEdge, hr, Bool.not_true, Bool.false_eq_true, if_false]
    exact uRemoveAllCore_g m i j
  · -- out of range: nothing is in `i`'s list, the state is unchanged
    have hnot : j ∉ m.g.nb i := by
      intro hm
      have hj := h.base.base.bound i j hm
      have hi := h.base.base.bound j i ((h.base.sym i j).1 hm)
      simp [inR, hi, hj] at hr
    have hg : (m.uRemoveAllCore i j).g = m.g.remove i j := by
      rw [uRemoveAllCore_g, uRemoveEdgeCore_absent m.g h.base.base i j hnot]
    have hgg : m.g.uRemoveEdgeCore i j = (m.g.uStepM (.removeEdge i j)).1 ∨ True := Or.inr trivial
    refine ⟨?_, ?_, ?_, ?_, tot_uRemoveAllCore m h i j⟩
    · rw [uRemoveAllCore_g]; exact uinv_uRemoveEdgeCore m.g h.base i j
    · rw [hg]; exact h.lbl
    · rw [KeysNodup, hg]; exact h.keys
    · rw [hg]; exact h.pos

theorem muinv_foldl_uRemoveAll (f : Nat → Nat × Nat) (is : List Nat) (m : MG) (h : MUInv m) :
    MUInv (is.foldl (fun m i => m.uRemoveAllCore (f i).1 (f i).2) m) := by
  induction is generalizing m with
  | nil => exact h
  | cons i is ih => exact ih _ (muinv_uRemoveAllCore m h _ _)

/-- every call keeps the invariant -/
theorem muinv_uStep (m : MG) (h : MUInv m) (op : MOp) : MUInv (m.uStep op) := by
  have hg := uStep_g m h.base h.lbl h.keys h.tot op
  cases op with
  | addEdge i j =>
    refine muinv_of m _ h _ hg ?_ (tot_uAddMultiedge m h i j 1)
    intro a b l hh
    simp only [toSU, addS] at hh
    split at hh
    · rcases hh with hh | hh <;> cases hh
    · split at hh
      · rcases hh with hh | hh <;> cases hh
      · split at hh
        · rcases hh with hh | hh
          · cases hh
          · cases hh; omega
        · rcases hh with hh | hh
          · cases hh; omega
          · cases hh
  | addMultiedge i j k =>
    refine muinv_of m _ h _ hg ?_ (tot_uAddMultiedge m h i j k)
    intro a b l hh
    simp only [toSU, addS] at hh
    split at hh
    · rcases hh with hh | hh <;> cases hh
    · split at hh
      · rcases hh with hh | hh <;> cases hh
      · split at hh
        · rcases hh with hh | hh
          · cases hh
          · cases hh; omega
        · rcases hh with hh | hh
          · cases hh; omega
          · cases hh
  | removeEdge i j =>
    refine muinv_of m _ h _ hg ?_ (tot_uRemoveMultiedge m h i j 1)
    intro a b l hh
    simp only [toSU, remS] at hh
    split at hh
    · rcases hh with hh | hh <;> cases hh
    · split at hh
      · rcases hh with hh | hh <;> cases hh
      · split at hh
        · rcases hh with hh | hh
          · cases hh
          · cases hh; omega
        · rcases hh with hh | hh <;> cases hh
  | removeMultiedge i j k =>
    refine muinv_of m _ h _ hg ?_ (tot_uRemoveMultiedge m h i j k)
    intro a b l hh
    simp only [toSU, remS] at hh
    split at hh
    · rcases hh with hh | hh <;> cases hh
    · split at hh
      · rcases hh with hh | hh <;> cases hh
      · split at hh
        · rcases hh with hh | hh
          · cases hh
          · cases hh; omega
        · rcases hh with hh | hh <;> cases hh
  | setEdgeMultiplicity i j k =>
    refine muinv_of m _ h _ hg ?_ (tot_uSetEdgeMultiplicity m h i j k)
    intro a b l hh
    simp only [toSU, setS] at hh
    split at hh
    · rcases hh with hh | hh <;> cases hh
    · split at hh
      · rcases hh with hh | hh <;> cases hh
      · split at hh
        · rcases hh with hh | hh
          · cases hh
          · cases hh; omega
        · rcases hh with hh | hh
          · cases hh; omega
          · cases hh
  | removeSelfLoops => exact muinv_foldl_uRemoveAll (fun i => (i, i)) _ m h
  | removeVertexFromEdgeList v =>
    refine muinv_of m _ h _ hg (by intro a b l hh; rcases hh with hh | hh <;> cases hh) ?_
    simp only [uStep]
    by_cases hv : v < m.g.size
    · rw [uRemoveVertex_eqM m v hv]; exact (foldl_uRVStepM v _ m h.lbl h.keys h.tot).2
    · rw [uRemoveVertex_oorM m v hv]; exact h.tot
  | clearEdges =>
    refine muinv_of m _ h _ hg (by intro a b l hh; rcases hh with hh | hh <;> cases hh) ?_
    simp [uStep, MG.clearEdges, G.clearEdges, AMap.sumVals]
  | resize n =>
    refine muinv_of m _ h _ hg (by intro a b l hh; rcases hh with hh | hh <;> cases hh) ?_
    simp only [uStep, MG.resize, G.resize]
    split <;> exact h.tot

theorem muinv_uRun (m : MG) (h : MUInv m) (ops : List MOp) : MUInv (m.uRun ops) := by
  induction ops generalizing m with
  | nil => exact h
  | cons op ops ih => exact ih _ (muinv_uStep m h op)

end MG
end BGV
