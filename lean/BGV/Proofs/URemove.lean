import BGV.Proofs.UInv
/-!
# BGV.Proofs.URemove — removals on `LabeledUndirectedGraph` preserve `UInv`
-/
set_option linter.unusedSectionVars false
namespace BGV
namespace G
variable {L : Type} [Inhabited L]

/-! ## removeEdge -/

theorem uRemove_diff (g : G L) (h : UInv0 g) (i j : Nat) :
    (g.nb i).length - ((g.remove i j).nb i).length = if j ∈ g.nb i then 1 else 0 := by
  rw [nb_remove]
  simp only [if_true]
  have := length_filter_ne_eq (g.nb i) j (h.nodup i)
  by_cases hm : j ∈ g.nb i
  · simp only [hm, if_true] at this ⊢; omega
  · simp only [hm, if_false] at this ⊢; omega

theorem uRemoveEdgeCore_present (g : G L) (h : UInv0 g) (i j : Nat) (hm : j ∈ g.nb i) :
    g.uRemoveEdgeCore i j =
      (((g.remove i j).remove j i).withEN (subW g.edgeNumber 1)).withLabels (g.labels.erase (ordered i j)) := by
  have hd := uRemove_diff g h i j
  simp only [hm, if_true] at hd
  simp only [uRemoveEdgeCore, hd]
  simp

theorem uRemoveEdgeCore_absent (g : G L) (h : UInv0 g) (i j : Nat) (hm : j ∉ g.nb i) :
    g.uRemoveEdgeCore i j = g.remove i j := by
  have hd := uRemove_diff g h i j
  simp only [hm, if_false] at hd
  simp only [uRemoveEdgeCore, hd]
  simp

theorem filter_ne_self_of_not_mem (l : List Nat) (x : Nat) (h : x ∉ l) : l.filter (· != x) = l := by
  apply List.filter_eq_self.2
  intro a ha; simp; intro e; subst e; exact h ha

theorem nb_uRemoveEdgeCore (g : G L) (h : UInv g) (i j k : Nat) :
    (g.uRemoveEdgeCore i j).nb k =
      if k = i then (g.nb k).filter (· != j) else if k = j then (g.nb k).filter (· != i) else g.nb k := by
  by_cases hm : j ∈ g.nb i
  · rw [uRemoveEdgeCore_present g h.base i j hm]
    simp only [withLabels_nb, withEN_nb]
    rw [nb_remove, nb_remove]
    by_cases hki : k = i
    · subst hki
      by_cases hkj : j = k
      · subst hkj; simp
      · simp [hkj]
    · have h1 : ¬ i = k := fun e => hki e.symm
      by_cases hkj : k = j
      · subst hkj; simp [hki, h1]
      · have h2 : ¬ j = k := fun e => hkj e.symm
        simp [hki, hkj, h1, h2]
  · rw [uRemoveEdgeCore_absent g h.base i j hm, nb_remove]
    have hm' : i ∉ g.nb j := fun hh => hm ((h.sym i j).2 hh)
    by_cases hki : k = i
    · subst hki; simp
    · have h1 : ¬ i = k := fun e => hki e.symm
      by_cases hkj : k = j
      · subst hkj
        simp only [h1, if_false, hki]
        simp only [if_true]
        exact (filter_ne_self_of_not_mem _ _ hm').symm
      · simp [hki, hkj, h1]

theorem mem_nb_uRemoveEdgeCore (g : G L) (h : UInv g) (i j a b : Nat) :
    b ∈ (g.uRemoveEdgeCore i j).nb a ↔ (b ∈ g.nb a ∧ ¬ (a = i ∧ b = j) ∧ ¬ (a = j ∧ b = i)) := by
  rw [nb_uRemoveEdgeCore g h i j a]
  by_cases hai : a = i
  · subst hai
    simp only [if_true, List.mem_filter, bne_iff_ne, ne_eq, true_and]
    constructor
    · rintro ⟨h1, h2⟩
      refine ⟨h1, h2, ?_⟩
      rintro ⟨rfl, rfl⟩; exact h2 rfl
    · rintro ⟨h1, h2, _⟩; exact ⟨h1, h2⟩
  · by_cases haj : a = j
    · subst haj
      simp only [hai, if_false, if_true, List.mem_filter, bne_iff_ne, ne_eq, false_and, not_false_eq_true, true_and]
    · simp [hai, haj]

@[simp] theorem uRemoveEdgeCore_size (g : G L) (i j : Nat) : (g.uRemoveEdgeCore i j).size = g.size := by
  simp only [uRemoveEdgeCore]; split <;> simp [remove]
@[simp] theorem uRemoveEdgeCore_labelled (g : G L) (i j : Nat) : (g.uRemoveEdgeCore i j).labelled = g.labelled := by
  simp only [uRemoveEdgeCore]; split <;> simp [remove]

theorem cnt_uRemove_i (g : G L) (h : UInv g) (i j : Nat) :
    (g.uRemoveEdgeCore i j).cnt i + (if j ∈ g.nb i ∧ i ≤ j then 1 else 0) = g.cnt i := by
  simp only [cnt]
  rw [nb_uRemoveEdgeCore g h i j i]
  simp only [if_true]
  have := length_filter_ne_of_nodup (g.nb i) j (fun x => decide (i ≤ x)) (h.base.nodup i)
  simp only [decide_eq_true_eq] at this
  exact this

theorem cnt_uRemove_j (g : G L) (h : UInv g) (i j : Nat) (hij : j ≠ i) :
    (g.uRemoveEdgeCore i j).cnt j + (if i ∈ g.nb j ∧ j ≤ i then 1 else 0) = g.cnt j := by
  simp only [cnt]
  rw [nb_uRemoveEdgeCore g h i j j]
  simp only [hij, if_false, if_true]
  have := length_filter_ne_of_nodup (g.nb j) i (fun x => decide (j ≤ x)) (h.base.nodup j)
  simp only [decide_eq_true_eq] at this
  exact this

theorem cnt_uRemove_other (g : G L) (h : UInv g) (i j k : Nat) (hki : k ≠ i) (hkj : k ≠ j) :
    (g.uRemoveEdgeCore i j).cnt k = g.cnt k := by
  simp only [cnt]
  rw [nb_uRemoveEdgeCore g h i j k]
  simp [hki, hkj]

theorem uCount_uRemoveEdgeCore (g : G L) (h : UInv g) (i j : Nat) :
    (g.uRemoveEdgeCore i j).uCount + (if j ∈ g.nb i then 1 else 0) = g.uCount := by
  simp only [uCount, uRemoveEdgeCore_size]
  have hci := cnt_uRemove_i g h i j
  by_cases hm : j ∈ g.nb i
  · have hi : i < g.size := by
      by_cases hi : i < g.size
      · exact hi
      · rw [h.base.nb_of_ge i (by omega)] at hm; simp at hm
    have hj : j < g.size := h.base.bound i j hm
    have hm' : i ∈ g.nb j := (h.sym i j).1 hm
    simp only [hm, if_true, true_and] at hci ⊢
    by_cases hle : i ≤ j
    · simp only [hle, if_true] at hci
      have := sum_map_range_change g.size i (g.uRemoveEdgeCore i j).cnt g.cnt hi (by
        intro k hk
        by_cases hkj : k = j
        · subst hkj
          have := cnt_uRemove_j g h i k hk
          have hn : ¬ (i ∈ g.nb k ∧ k ≤ i) := by rintro ⟨_, h2⟩; omega
          rw [if_neg hn] at this
          omega
        · exact (cnt_uRemove_other g h i j k hk hkj).symm)
      omega
    · simp only [hle, if_false] at hci
      have hlt : j < i := by omega
      have hji : j ≠ i := by omega
      have hcj := cnt_uRemove_j g h i j hji
      have hp : i ∈ g.nb j ∧ j ≤ i := ⟨hm', by omega⟩
      rw [if_pos hp] at hcj
      have := sum_map_range_change g.size j (g.uRemoveEdgeCore i j).cnt g.cnt hj (by
        intro k hk
        by_cases hki : k = i
        · subst hki; omega
        · exact (cnt_uRemove_other g h i j k hki hk).symm)
      omega
  · simp only [hm, if_false, Nat.add_zero, false_and] at hci ⊢
    apply sum_map_range_congr
    intro k _
    by_cases hki : k = i
    · subst hki; exact hci
    · by_cases hkj : k = j
      · subst hkj
        have := cnt_uRemove_j g h i k hki
        have hn : ¬ (i ∈ g.nb k ∧ k ≤ i) := fun hh => hm ((h.sym i k).2 hh.1)
        rw [if_neg hn] at this
        exact this
      · exact cnt_uRemove_other g h i j k hki hkj

theorem labels_uRemoveEdgeCore (g : G L) (h : UInv g) (i j : Nat) (e : Edge) :
    (g.uRemoveEdgeCore i j).labels.get? e =
      if j ∈ g.nb i ∧ e = ordered i j then none else g.labels.get? e := by
  by_cases hm : j ∈ g.nb i
  · rw [uRemoveEdgeCore_present g h.base i j hm]
    simp only [withLabels_labels, hm, true_and]
    exact AMap.get?_erase _ _ _
  · rw [uRemoveEdgeCore_absent g h.base i j hm]
    simp [hm]

theorem uinv_uRemoveEdgeCore (g : G L) (h : UInv g) (i j : Nat) : UInv (g.uRemoveEdgeCore i j) := by
  refine ⟨⟨?_, ?_, ?_, ?_, ?_, ?_⟩, ?_⟩
  · simp only [uRemoveEdgeCore]; split <;> simp [remove, h.base.len]
  · intro k
    rw [nb_uRemoveEdgeCore g h i j k]
    split
    · exact (h.base.nodup k).sublist List.filter_sublist
    · split
      · exact (h.base.nodup k).sublist List.filter_sublist
      · exact h.base.nodup k
  · intro a b hb
    rw [mem_nb_uRemoveEdgeCore g h] at hb
    simp only [uRemoveEdgeCore_size]
    exact h.base.bound a b hb.1
  · have hc := uCount_uRemoveEdgeCore g h i j
    by_cases hm : j ∈ g.nb i
    · have hen : (g.uRemoveEdgeCore i j).edgeNumber = subW g.edgeNumber 1 := by
        rw [uRemoveEdgeCore_present g h.base i j hm]; rfl
      rw [hen]
      simp only [hm, if_true] at hc
      have hpos : 1 ≤ g.edgeNumber := by rw [h.base.count]; omega
      rw [subW_of_le hpos, h.base.count]; omega
    · have hen : (g.uRemoveEdgeCore i j).edgeNumber = g.edgeNumber := by
        rw [uRemoveEdgeCore_absent g h.base i j hm]; rfl
      rw [hen]
      simp only [hm, if_false, Nat.add_zero] at hc
      rw [h.base.count, hc]
  · intro hl a b
    have hl' : g.labelled = true := by simpa using hl
    rw [labels_uRemoveEdgeCore g h i j (a, b)]
    have hmem : (g.uRemoveEdgeCore i j).hasEdgeRaw a b = (g.hasEdgeRaw a b && !((a == i && b == j) || (a == j && b == i))) := by
      rw [Bool.eq_iff_iff]
      simp only [← mem_nb_iff, Bool.and_eq_true, Bool.not_eq_true', Bool.or_eq_false_iff, Bool.and_eq_false_iff,
        beq_eq_false_iff_ne, ne_eq]
      rw [mem_nb_uRemoveEdgeCore g h]
      constructor
      · rintro ⟨h1, h2, h3⟩
        refine ⟨h1, ?_, ?_⟩
        · by_cases ha : a = i
          · right; exact fun hb => h2 ⟨ha, hb⟩
          · left; exact ha
        · by_cases ha : a = j
          · right; exact fun hb => h3 ⟨ha, hb⟩
          · left; exact ha
      · rintro ⟨h1, h2, h3⟩
        refine ⟨h1, ?_, ?_⟩
        · rintro ⟨ha, hb⟩; rcases h2 with h2 | h2 <;> contradiction
        · rintro ⟨ha, hb⟩; rcases h3 with h3 | h3 <;> contradiction
    rw [hmem]
    by_cases hc : j ∈ g.nb i ∧ (a, b) = ordered i j
    · rw [if_pos hc]
      obtain ⟨_, hab⟩ := hc
      have hcase : (a = i ∧ b = j) ∨ (a = j ∧ b = i) := by
        unfold ordered at hab
        by_cases hij : i < j
        · simp only [hij, if_true, Prod.mk.injEq] at hab; exact Or.inl hab
        · simp only [hij, if_false, Prod.mk.injEq] at hab; exact Or.inr hab
      have : ((a == i && b == j) || (a == j && b == i)) = true := by
        rcases hcase with ⟨rfl, rfl⟩ | ⟨rfl, rfl⟩ <;> simp
      simp [this]
    · rw [if_neg hc, h.base.lab hl' a b]
      by_cases hle : a ≤ b
      · simp only [hle, decide_true, Bool.true_and]
        by_cases he : g.hasEdgeRaw a b = true
        · have hx : ((a == i && b == j) || (a == j && b == i)) = false := by
            rw [Bool.eq_false_iff]
            intro hh
            simp only [Bool.or_eq_true, Bool.and_eq_true, beq_iff_eq] at hh
            apply hc
            rcases hh with ⟨rfl, rfl⟩ | ⟨rfl, rfl⟩
            · exact ⟨(mem_nb_iff g a b).2 he, (ordered_of_le hle).symm⟩
            · refine ⟨(h.sym a b).1 ((mem_nb_iff g a b).2 he), ?_⟩
              rw [ordered_comm]; exact (ordered_of_le hle).symm
          simp [he, hx]
        · have he : g.hasEdgeRaw a b = false := by simpa using he
          simp [he]
      · simp [hle]
  · intro hl
    have hl' : g.labelled = false := by simpa using hl
    by_cases hm : j ∈ g.nb i
    · rw [uRemoveEdgeCore_present g h.base i j hm]
      simp only [withLabels_labels]
      rw [h.base.nolab hl']; rfl
    · rw [uRemoveEdgeCore_absent g h.base i j hm]
      exact h.base.nolab hl'
  · intro a b
    rw [mem_nb_uRemoveEdgeCore g h, mem_nb_uRemoveEdgeCore g h, h.sym a b]
    constructor
    · rintro ⟨h1, h2, h3⟩
      exact ⟨h1, fun hh => h3 ⟨hh.2, hh.1⟩, fun hh => h2 ⟨hh.2, hh.1⟩⟩
    · rintro ⟨h1, h2, h3⟩
      exact ⟨h1, fun hh => h3 ⟨hh.2, hh.1⟩, fun hh => h2 ⟨hh.2, hh.1⟩⟩

end G
end BGV
