import BGV.Proofs.BinLift
import BGV.Props.C13
/-!
# BGV.Proofs.TextLift — from lines to graphs: `loadTextEdgeList(writeTextEdgeList(g))`
-/
set_option linter.unusedSectionVars false
namespace BGV
namespace FIO
open G
variable {L : Type} [Inhabited L]

/-! ### getline -/

theorem go_append_nl (l rest cur : Bytes) (hl : ∀ c ∈ l, c ≠ nl) :
    splitLines.go (l ++ nl :: rest) cur = (cur.reverse ++ l) :: splitLines.go rest [] := by
  induction l generalizing cur with
  | nil => simp [splitLines.go]
  | cons c l ih =>
    have hc : (c == nl) = false := by simpa using hl c (by simp)
    simp only [List.cons_append, splitLines.go, hc, Bool.false_eq_true, if_false]
    rw [ih _ (fun x hx => hl x (by simp [hx]))]
    simp

/-- a line without line break, followed by `\n`, is delivered as that line -/
theorem splitLines_cons (l rest : Bytes) (hl : ∀ c ∈ l, c ≠ nl) :
    splitLines (l ++ nl :: rest) = l :: splitLines rest := by
  simp only [splitLines]
  rw [go_append_nl l rest [] hl]; rfl

theorem splitLines_flatMap {α} (f : α → Bytes) (es : List α) (hf : ∀ e ∈ es, ∀ c ∈ f e, c ≠ nl) :
    splitLines (es.flatMap (fun e => f e ++ [nl])) = es.map f := by
  induction es with
  | nil => rfl
  | cons e es ih =>
    simp only [List.flatMap_cons, List.map_cons, List.append_assoc, List.singleton_append]
    rw [splitLines_cons _ _ (hf e (by simp)), ih (fun x hx => hf x (by simp [hx]))]

/-- a text codec for labels: what `operator<<` prints, `operator>>`/`stoX` reads back; the
printed form has no line break and (the loader skips blanks before the label) does not start
with a blank -/
structure TextCodec (L : Type) where
  toStr : L → Bytes
  ofStr : Bytes → Res L
  rt : ∀ l, ofStr (toStr l) = .ok l
  nonl : ∀ l, ∀ c ∈ toStr l, c ≠ nl
  lead : ∀ l, toStr l = [] ∨ ∃ c r, toStr l = c :: r ∧ isWs c = false

/-- the body of a written line (without the terminating `\n`) -/
def lineOf (labelled : Bool) (toStr : L → Bytes) (e : Nat × Nat × L) : Bytes :=
  showNat e.1 ++ [sp] ++ showNat e.2.1 ++ (if labelled then [sp] ++ toStr e.2.2 else [])

theorem writeText_eq (labelled : Bool) (toStr : L → Bytes) (es : List (Nat × Nat × L)) :
    writeText labelled toStr es = header ++ es.flatMap (fun e => lineOf labelled toStr e ++ [nl]) := by
  simp only [writeText, lineOf]

theorem showNat_nows (n : Nat) : NoWs (showNat n) := by
  intro c hc
  have hd := (showNat_digits n).2 c hc
  simp only [isDigit, Bool.and_eq_true, decide_eq_true_eq] at hd
  have h1' : 48 ≤ c.toNat := hd.1
  simp only [isWs, Bool.or_eq_false_iff, beq_eq_false_iff_ne, ne_eq]
  refine ⟨⟨⟨⟨⟨?_, ?_⟩, ?_⟩, ?_⟩, ?_⟩, ?_⟩ <;> (intro e; rw [e] at h1'; simp at h1')

theorem showNat_nonl (n : Nat) : ∀ c ∈ showNat n, c ≠ nl := by
  intro c hc hnl
  have := showNat_nows n c hc
  rw [hnl] at this
  revert this; decide

theorem lineOf_nonl (labelled : Bool) (tc : TextCodec L) (e : Nat × Nat × L) :
    ∀ c ∈ lineOf labelled tc.toStr e, c ≠ nl := by
  intro c hc
  simp only [lineOf, List.mem_append, List.mem_singleton] at hc
  rcases hc with ((h | h) | h) | h
  · exact showNat_nonl _ c h
  · rw [h]; decide
  · exact showNat_nonl _ c h
  · split at h
    · simp only [List.mem_append, List.mem_singleton] at h
      rcases h with h | h
      · rw [h]; decide
      · exact tc.nonl _ c h
    · cases h

/-- tokens of a written line -/
theorem tokens_lineOf (labelled : Bool) (tc : TextCodec L) (e : Nat × Nat × L) :
    findEdgeFromString (lineOf labelled tc.toStr e) =
      .ok (showNat e.1, showNat e.2.1, if labelled then tc.toStr e.2.2 else []) := by
  have hsp : AllWs [sp] := by intro c hc; simp at hc; subst hc; decide
  cases labelled with
  | false =>
    have := C13_tokenise [] (showNat e.1) [sp] (showNat e.2.1) [] [] (by intro c hc; simp at hc) (showNat_nows _)
      (showNat_digits _).1 hsp (by simp) (showNat_nows _) (showNat_digits _).1 (by intro c hc; simp at hc) (Or.inl ⟨rfl, rfl⟩)
    simpa [lineOf] using this
  | true =>
    have := C13_tokenise [] (showNat e.1) [sp] (showNat e.2.1) [sp] (tc.toStr e.2.2) (by intro c hc; simp at hc) (showNat_nows _)
      (showNat_digits _).1 hsp (by simp) (showNat_nows _) (showNat_digits _).1 hsp (Or.inr ⟨by simp, tc.lead _⟩)
    simpa [lineOf, List.append_assoc] using this

theorem lineOf_not_comment (labelled : Bool) (toStr : L → Bytes) (e : Nat × Nat × L) :
    ((lineOf labelled toStr e).head? == some 35) = false := by
  have hne := (showNat_digits e.1).1
  obtain ⟨c, r, hcr⟩ := List.exists_cons_of_ne_nil hne
  have hd := (showNat_digits e.1).2 c (by rw [hcr]; simp)
  simp only [lineOf, hcr, List.cons_append, List.head?_cons]
  simp only [isDigit, Bool.and_eq_true, decide_eq_true_eq] at hd
  have : c ≠ 35 := by intro h; rw [h] at hd; exact absurd hd.1 (by decide)
  simpa using this

/-- one written line moves the graph component exactly as one step of the edge-list constructor
with forced insertion -/
theorem loadLine_lineOf (und labelled : Bool) (tc : TextCodec L) (l0 : L) (h0 : tc.ofStr [] = .ok l0)
    (st : LoadSt L) (hl : st.g.adj.length = st.g.size) (e : Nat × Nat × L)
    (h31 : e.1 ≤ 2147483647 ∧ e.2.1 ≤ 2147483647) :
    ∃ st', loadLine und false tc.ofStr st (lineOf labelled tc.toStr e) = .ok st' ∧
      ctorStep (if und then uAddF else addF) (.ok st.g) (e.1, e.2.1, if labelled then e.2.2 else l0) = .ok st'.g := by
  have hv1 := (C13_stoi_showNat e.1 h31.1 [] (Or.inl rfl)).2
  have hv2 := (C13_stoi_showNat e.2.1 h31.2 [] (Or.inl rfl)).2
  simp only [List.append_nil] at hv1 hv2
  have hlab : tc.ofStr (if labelled then tc.toStr e.2.2 else []) = .ok (if labelled then e.2.2 else l0) := by
    cases labelled
    · exact h0
    · exact tc.rt _
  rw [ctorStep_as_grow _ st.g hl]
  simp only [loadLine, lineOf_not_comment, Bool.false_eq_true, if_false, tokens_lineOf, Res.bind, vertexOf,
    hv1, hv2, Res.map, hlab, chain]
  have hg1 : (if max e.1 e.2.1 ≥ st.g.size then (st.g.resize (max e.1 e.2.1 + 1)).1 else st.g)
      = st.g.grow (max st.g.size (max e.1 e.2.1 + 1)) := by
    by_cases hc : max e.1 e.2.1 ≥ st.g.size
    · have hk : max st.g.size (max e.1 e.2.1 + 1) = max e.1 e.2.1 + 1 := by omega
      simp only [hc, if_true, hk]; rfl
    · have hk : max st.g.size (max e.1 e.2.1 + 1) = st.g.size := by omega
      simp only [hc, if_false, hk, grow_self st.g hl]
  rw [hg1]
  cases und
  · simp only [Bool.false_eq_true, if_false, addF]
    cases hr : (st.g.grow (max st.g.size (max e.1 e.2.1 + 1))).dAddEdge e.1 e.2.1 (if labelled = true then e.2.2 else l0) true with
    | mk g2 r =>
      cases r with
      | ok u => exact ⟨_, rfl, rfl⟩
      | threw x =>
        exfalso
        have := addOK_addF.ok (st.g.grow (max st.g.size (max e.1 e.2.1 + 1))) e.1 e.2.1 (if labelled = true then e.2.2 else l0)
          (by rw [grow_size _ _ (Nat.le_max_left _ _)]; omega) (by rw [grow_size _ _ (Nat.le_max_left _ _)]; omega)
        simp only [addF, hr] at this; cases this
      | ub =>
        exfalso
        have := addOK_addF.ok (st.g.grow (max st.g.size (max e.1 e.2.1 + 1))) e.1 e.2.1 (if labelled = true then e.2.2 else l0)
          (by rw [grow_size _ _ (Nat.le_max_left _ _)]; omega) (by rw [grow_size _ _ (Nat.le_max_left _ _)]; omega)
        simp only [addF, hr] at this; cases this
  · simp only [if_true, uAddF]
    cases hr : (st.g.grow (max st.g.size (max e.1 e.2.1 + 1))).uAddEdge e.1 e.2.1 (if labelled = true then e.2.2 else l0) true with
    | mk g2 r =>
      cases r with
      | ok u => exact ⟨_, rfl, rfl⟩
      | threw x =>
        exfalso
        have := addOK_uAddF.ok (st.g.grow (max st.g.size (max e.1 e.2.1 + 1))) e.1 e.2.1 (if labelled = true then e.2.2 else l0)
          (by rw [grow_size _ _ (Nat.le_max_left _ _)]; omega) (by rw [grow_size _ _ (Nat.le_max_left _ _)]; omega)
        simp only [uAddF, hr] at this; cases this
      | ub =>
        exfalso
        have := addOK_uAddF.ok (st.g.grow (max st.g.size (max e.1 e.2.1 + 1))) e.1 e.2.1 (if labelled = true then e.2.2 else l0)
          (by rw [grow_size _ _ (Nat.le_max_left _ _)]; omega) (by rw [grow_size _ _ (Nat.le_max_left _ _)]; omega)
        simp only [uAddF, hr] at this; cases this

end FIO
end BGV

namespace BGV
namespace FIO
open G
variable {L : Type} [Inhabited L]

/-- "# Vertex1 Vertex2 Label" -/
def hdrBody : Bytes := [35, 32, 86, 101, 114, 116, 101, 120, 49, 32, 86, 101, 114, 116, 101, 120, 50, 32, 76, 97, 98, 101, 108]

theorem header_eq : header = hdrBody ++ [nl] := by decide +kernel

theorem hdrBody_nonl : ∀ c ∈ hdrBody, c ≠ nl := by decide

theorem hdrBody_comment : ∃ r, hdrBody = 35 :: r := ⟨_, rfl⟩

/-- relabelling applied by an unlabelled file (no label text: the parser's value for "") -/
def relab (labelled : Bool) (l0 : L) (e : Nat × Nat × L) : Nat × Nat × L := (e.1, e.2.1, if labelled then e.2.2 else l0)

theorem fold_lines (und labelled : Bool) (tc : TextCodec L) (l0 : L) (h0 : tc.ofStr [] = .ok l0)
    (es : List (Nat × Nat × L)) (h31 : ∀ e ∈ es, e.1 ≤ 2147483647 ∧ e.2.1 ≤ 2147483647)
    (st : LoadSt L) (hl : st.g.adj.length = st.g.size) :
    ∃ st', (es.map (lineOf labelled tc.toStr)).foldl
        (fun (r : Res (LoadSt L)) line => r.bind (fun st => loadLine und false tc.ofStr st line)) (.ok st) = .ok st' ∧
      (es.map (relab labelled l0)).foldl (ctorStep (if und then uAddF else addF)) (.ok st.g) = .ok st'.g := by
  have ha : AddOK (if und then uAddF else addF : G L → Nat → Nat → L → Bool → G L × Res Unit) := by
    cases und
    · exact addOK_addF
    · exact addOK_uAddF
  induction es generalizing st with
  | nil => exact ⟨st, rfl, rfl⟩
  | cons e es ih =>
    obtain ⟨st1, e1, e2⟩ := loadLine_lineOf und labelled tc l0 h0 st hl e (h31 e (by simp))
    obtain ⟨h', f1, f2, _, _⟩ := ctor_fold _ ha [relab labelled l0 e] st.g hl _ (Nat.le_refl _)
    simp only [List.foldl_cons, List.foldl_nil] at f1
    have hg : st1.g = h' := by
      have : ctorStep (if und then uAddF else addF) (.ok st.g) (relab labelled l0 e) = .ok st1.g := e2
      rw [this] at f1
      injection f1
    simp only [List.map_cons, List.foldl_cons, Res.bind, e1]
    obtain ⟨st', g1, g2⟩ := ih (fun x hx => h31 x (by simp [hx])) st1 (by rw [hg]; exact f2)
    refine ⟨st', g1, ?_⟩
    have : ctorStep (if und then uAddF else addF) (.ok st.g) (relab labelled l0 e) = .ok st1.g := e2
    rw [this]; exact g2

/-- **loading a written text file** = the edge-list constructor with forced insertion over the
written edges -/
theorem loadText_writeText (und labelled : Bool) (tc : TextCodec L) (l0 : L) (h0 : tc.ofStr [] = .ok l0)
    (es : List (Nat × Nat × L)) (h31 : ∀ e ∈ es, e.1 ≤ 2147483647 ∧ e.2.1 ≤ 2147483647) :
    ∃ names, loadText und false labelled tc.ofStr (writeText labelled tc.toStr es)
      = .ok (addOnly (if und then uAddF else addF) (G.new labelled (vcount (es.map (relab labelled l0)))) (es.map (relab labelled l0)), names) := by
  have ha : AddOK (if und then uAddF else addF : G L → Nat → Nat → L → Bool → G L × Res Unit) := by
    cases und
    · exact addOK_addF
    · exact addOK_uAddF
  have hsplit : splitLines (writeText labelled tc.toStr es) = hdrBody :: es.map (lineOf labelled tc.toStr) := by
    rw [writeText_eq, header_eq, List.append_assoc, List.singleton_append,
      splitLines_cons _ _ hdrBody_nonl, splitLines_flatMap _ _ (fun e _ => lineOf_nonl labelled tc e)]
  obtain ⟨r, hr⟩ := hdrBody_comment
  obtain ⟨st', e1, e2⟩ := fold_lines und labelled tc l0 h0 es h31 ⟨G.new labelled 0, [], []⟩ (by simp [G.new])
  simp only [loadText, hsplit, List.foldl_cons]
  have hfirst : (Res.ok (⟨G.new labelled 0, [], []⟩ : LoadSt L)).bind (fun st => loadLine und false tc.ofStr st hdrBody)
      = .ok ⟨G.new labelled 0, [], []⟩ := by
    simp only [Res.bind]; rw [hr, C13_comment_skipped]
  rw [hfirst, e1]
  simp only [Res.map]
  refine ⟨st'.names, ?_⟩
  have := ofEdgeList_eq labelled _ ha (es.map (relab labelled l0))
  rw [ofEdgeList_eq_fold] at this
  simp only at e2
  rw [this] at e2
  injection e2 with e2
  rw [e2]

end FIO
end BGV
