import BGV.Proofs.RefineD
/-!
# BGV.Proofs.Keys — the label store holds at most one entry per edge (what `unordered_map`
guarantees), preserved by every mutator; consequences for `operator==`.
-/
set_option linter.unusedSectionVars false
namespace BGV

namespace AMap
variable {L : Type}

theorem keys_erase_sublist (m : AMap L) (k : Edge) : (keys (erase m k)).Sublist (keys m) := by
  simp only [keys, erase]
  exact List.Sublist.map _ List.filter_sublist

theorem not_mem_keys_erase (m : AMap L) (k : Edge) : k ∉ keys (erase m k) := by
  intro hmem
  have h2 : k ∈ List.map Prod.fst (List.filter (fun p => p.1 != k) (m : List (Edge × L))) := hmem
  rw [List.mem_map] at h2
  obtain ⟨p, hp, hk⟩ := h2
  have := (List.mem_filter.1 hp).2
  simp [hk] at this

theorem keys_insert (m : AMap L) (k : Edge) (v : L) : keys (insert m k v) = k :: keys (erase m k) := rfl

theorem nodup_keys_erase (m : AMap L) (k : Edge) (h : (keys m).Nodup) : (keys (erase m k)).Nodup :=
  h.sublist (keys_erase_sublist m k)

theorem nodup_keys_insert (m : AMap L) (k : Edge) (v : L) (h : (keys m).Nodup) : (keys (insert m k v)).Nodup := by
  rw [keys_insert]
  exact List.nodup_cons.2 ⟨not_mem_keys_erase m k, nodup_keys_erase m k h⟩

theorem mem_keys_iff_get? (m : AMap L) (k : Edge) : k ∈ keys m ↔ (get? m k).isSome = true := by
  induction m with
  | nil => simp [keys, get?]
  | cons p m ih =>
    obtain ⟨a, v⟩ := p
    simp only [keys, get?, List.map_cons, List.mem_cons, List.lookup] at ih ⊢
    by_cases h : k = a
    · subst h; simp
    · have : (k == a) = false := by simpa using h
      simp [h, this, ih]

/-- with unique keys, membership of an entry is the same as `get?` returning its value -/
theorem mem_iff_get?_of_nodup (m : List (Edge × L)) (h : (List.map Prod.fst m).Nodup) (k : Edge) (v : L) :
    (k, v) ∈ m ↔ List.lookup k m = some v := by
  induction m with
  | nil => simp
  | cons p m ih =>
    obtain ⟨a, w⟩ := p
    have hn : a ∉ List.map Prod.fst m ∧ (List.map Prod.fst m).Nodup := List.nodup_cons.1 (by simpa using h)
    simp only [List.lookup, List.mem_cons, Prod.mk.injEq]
    by_cases hk : k = a
    · subst hk
      simp only [beq_self_eq_true, true_and, Option.some.injEq]
      constructor
      · intro hh
        rcases hh with e | hm
        · exact e.symm
        · exfalso; apply hn.1
          exact List.mem_map.2 ⟨(k, v), hm, rfl⟩
      · intro e; exact Or.inl e.symm
    · have hb : (k == a) = false := by simpa using hk
      simp only [hb, hk, false_and, false_or]
      exact ih hn.2

end AMap

namespace G
variable {L : Type} [Inhabited L]

def KeysNodup (g : G L) : Prop := (AMap.keys g.labels).Nodup

theorem keysNodup_new (lb : Bool) (n : Nat) : KeysNodup (G.new lb n : G L) := by
  simp [KeysNodup, G.new, AMap.keys]

theorem keysNodup_setLab (g : G L) (e : Edge) (l : L) (h : KeysNodup g) : KeysNodup (g.setLab e l) := by
  unfold setLab
  split
  · exact AMap.nodup_keys_insert _ _ _ h
  · exact h

theorem keysNodup_foldl_erase (v : Nat) (js : List Nat) (m : AMap L) (h : (AMap.keys m).Nodup) :
    (AMap.keys (js.foldl (fun m j => AMap.erase m (v, j)) m)).Nodup := by
  induction js generalizing m with
  | nil => exact h
  | cons j js ih => exact ih _ (AMap.nodup_keys_erase m _ h)

theorem keysNodup_dRemoveEdgeCore (g : G L) (i j : Nat) (h : KeysNodup g) : KeysNodup (g.dRemoveEdgeCore i j) := by
  simp only [KeysNodup, dRemoveEdgeCore, withLabels_labels]
  exact AMap.nodup_keys_erase _ _ h

theorem keysNodup_foldl_removeCore (f : Nat → Nat × Nat) (is : List Nat) (g : G L) (h : KeysNodup g) :
    KeysNodup (is.foldl (fun g i => g.dRemoveEdgeCore (f i).1 (f i).2) g) := by
  induction is generalizing g with
  | nil => exact h
  | cons i is ih => exact ih _ (keysNodup_dRemoveEdgeCore g _ _ h)

theorem keysNodup_dAddEdge (g : G L) (i j : Nat) (l : L) (f : Bool) (h : KeysNodup g) :
    KeysNodup (g.dAddEdge i j l f).1 := by
  unfold dAddEdge
  split
  · exact h
  · split
    · exact keysNodup_setLab _ _ _ (by simpa [KeysNodup, push] using h)
    · exact h

theorem keysNodup_dStep (g : G L) (op : SOp L) (h : KeysNodup g) : KeysNodup (g.dStep op).1 := by
  cases op with
  | addEdge i j l => exact keysNodup_dAddEdge g i j l false h
  | addReciprocalEdge i j l =>
    simp only [dStep, dAddReciprocalEdge]
    have h1 := keysNodup_dAddEdge g i j l false h
    split
    · rename_i g1 _ heq
      have : g1 = (g.dAddEdge i j l false).1 := by rw [heq]
      subst this
      exact keysNodup_dAddEdge _ j i l false h1
    · exact h1
  | removeEdge i j =>
    simp only [dStep, dRemoveEdge]; split
    · exact h
    · exact keysNodup_dRemoveEdgeCore g i j h
  | removeSelfLoops => simp only [dStep]; rw [dRemoveSelfLoops_eq]; exact keysNodup_foldl_removeCore _ _ g h
  | removeVertexFromEdgeList v =>
    simp only [dStep]
    by_cases hv : v < g.size
    · rw [dRemoveVertex_eq g v hv]
      apply keysNodup_foldl_removeCore
      exact keysNodup_foldl_erase v _ _ h
    · rw [dRemoveVertex_oor g v hv]; exact h
  | clearEdges => simp [dStep, KeysNodup, clearEdges, AMap.keys]
  | resize m => simp only [dStep, resize]; split <;> exact h
  | setEdgeLabel i j l =>
    simp only [dStep, dSetEdgeLabel]
    split
    · exact h
    · split
      · exact h
      · exact keysNodup_setLab _ _ _ h

theorem keysNodup_dRun (g : G L) (ops : List (SOp L)) (h : KeysNodup g) : KeysNodup (dRun g ops) := by
  induction ops generalizing g with
  | nil => exact h
  | cons op ops ih => exact ih _ (keysNodup_dStep g op h)

end G
end BGV
