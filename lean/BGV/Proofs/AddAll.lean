import BGV.Proofs.Keys
/-!
# BGV.Proofs.AddAll — building a graph by unforced `addEdge` along a list of labelled edges
(the common shape of `getReversedGraph`, `getSubgraph*`, the edge-list constructors and the
undirected→directed conversion).
-/
set_option linter.unusedSectionVars false
namespace BGV

abbrev LEdge (L : Type) := Nat × Nat × L

namespace AG
variable {L : Type} [Inhabited L]

def addAll (a : AG L) (es : List (LEdge L)) : AG L := es.foldl (fun a e => a.add e.1 e.2.1 e.2.2) a

@[simp] theorem add_n (a : AG L) (i j : Nat) (l : L) : (a.add i j l).n = a.n := rfl
theorem addAll_n (a : AG L) (es : List (LEdge L)) : (a.addAll es).n = a.n := by
  induction es generalizing a with
  | nil => rfl
  | cons e es ih => simp only [addAll, List.foldl_cons] at ih ⊢; rw [ih]; rfl

/-- the first entry of `es` for the pair (x,y) -/
def firstLabel (es : List (LEdge L)) (x y : Nat) : Option L :=
  (es.find? (fun e => e.1 == x && e.2.1 == y)).map (·.2.2)

theorem addAll_lab (a : AG L) (es : List (LEdge L)) (x y : Nat) :
    (a.addAll es).lab x y = match a.lab x y with
      | some l => some l
      | none => firstLabel es x y := by
  induction es generalizing a with
  | nil => cases h : a.lab x y <;> simp [addAll, firstLabel, h]
  | cons e es ih =>
    obtain ⟨i, j, l⟩ := e
    have := ih (a.add i j l)
    simp only [addAll, List.foldl_cons] at this ⊢
    rw [this]
    simp only [add, firstLabel, List.find?_cons]
    by_cases hxy : x = i ∧ y = j
    · obtain ⟨rfl, rfl⟩ := hxy
      cases hl : a.lab x y with
      | some v => simp [hl]
      | none => simp [hl]
    · have hb : (i == x && j == y) = false := by
        simp only [Bool.and_eq_false_iff, beq_eq_false_iff_ne]
        by_cases hx : i = x
        · right; intro hy; exact hxy ⟨hx.symm, hy.symm⟩
        · left; exact hx
      have hne : ¬ (x = i ∧ y = j ∧ (a.lab i j).isSome = false) := fun hh => hxy ⟨hh.1, hh.2.1⟩
      simp only [hne, if_false, hb]

end AG

namespace G
variable {L : Type} [Inhabited L]

def addAll (h : G L) (es : List (LEdge L)) : G L := es.foldl (fun h e => (h.dAddEdge e.1 e.2.1 e.2.2 false).1) h

theorem addAll_size (h : G L) (es : List (LEdge L)) : (h.addAll es).size = h.size := by
  induction es generalizing h with
  | nil => rfl
  | cons e es ih => simp only [addAll, List.foldl_cons] at ih ⊢; rw [ih, dAddEdge_size]

theorem addAll_labelled (h : G L) (es : List (LEdge L)) : (h.addAll es).labelled = h.labelled := by
  induction es generalizing h with
  | nil => rfl
  | cons e es ih => simp only [addAll, List.foldl_cons] at ih ⊢; rw [ih, dAddEdge_labelled]

theorem inv_addAll (h : G L) (hh : Inv h) (es : List (LEdge L)) : Inv (h.addAll es) := by
  induction es generalizing h with
  | nil => exact hh
  | cons e es ih => exact ih _ (inv_dAddEdge h hh _ _ _)

theorem keysNodup_addAll (h : G L) (hk : KeysNodup h) (es : List (LEdge L)) : KeysNodup (h.addAll es) := by
  induction es generalizing h with
  | nil => exact hk
  | cons e es ih => exact ih _ (keysNodup_dAddEdge h _ _ _ false hk)

/-- the labels the class can store: an unlabelled graph only ever stores the default one -/
def normLabel (lb : Bool) (l : L) : L := if lb then l else default

theorem absD_addAll (h : G L) (hh : Inv h) (es : List (LEdge L))
    (hr : ∀ e ∈ es, e.1 < h.size ∧ e.2.1 < h.size) :
    absD (h.addAll es) = (absD h).addAll (es.map (fun e => (e.1, e.2.1, normLabel h.labelled e.2.2))) := by
  induction es generalizing h with
  | nil => rfl
  | cons e es ih =>
    have he := hr e (by simp)
    have hs := dAddEdge_size h e.1 e.2.1 e.2.2 false
    have := ih (h.dAddEdge e.1 e.2.1 e.2.2 false).1 (inv_dAddEdge h hh _ _ _)
      (fun x hx => by rw [hs]; exact hr x (by simp [hx]))
    simp only [addAll, AG.addAll, List.foldl_cons, List.map_cons] at this ⊢
    rw [this, absD_dAddEdge h hh e.1 e.2.1 e.2.2 he.1 he.2, dAddEdge_labelled]
    rfl

/-- every step of the fold succeeds when the endpoints are in range -/
theorem dAddEdge_ok' (h : G L) (i j : Nat) (l : L) (hi : i < h.size) (hj : j < h.size) :
    h.dAddEdge i j l false = ((h.dAddEdge i j l false).1, .ok ()) := by
  have := dAddEdge_ok h i j l false hi hj
  rw [← this]

end G
end BGV
