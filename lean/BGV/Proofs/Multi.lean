import BGV.Proofs.Keys
import BGV.Model.Multi
/-!
# BGV.Proofs.Multi — `DirectedMultigraph`: multiplicities, `edgeNumber`, `totalEdgeNumber`
-/
set_option linter.unusedSectionVars false
namespace BGV

namespace AMap
def sumVals (m : AMap Nat) : Nat := (m.map (·.2)).sum

theorem sumVals_erase (m : AMap Nat) (k : Edge) (h : (keys m).Nodup) :
    sumVals (erase m k) + (get? m k).getD 0 = sumVals m := by
  induction m with
  | nil => simp [sumVals, erase, get?]
  | cons p m ih =>
    obtain ⟨a, v⟩ := p
    have hn : a ∉ keys m ∧ (keys m).Nodup := List.nodup_cons.1 (by simpa [keys] using h)
    by_cases hak : a = k
    · subst hak
      have hnone : get? m a = none := by
        cases hg : get? m a with
        | none => rfl
        | some w => exact absurd ((mem_keys_iff_get? m a).2 (by rw [hg]; rfl)) hn.1
      have herase : erase m a = m := by
        simp only [erase]
        apply List.filter_eq_self.2
        intro q hq
        simp only [bne_iff_ne, ne_eq]
        intro e; apply hn.1
        simp only [keys, List.mem_map]; exact ⟨q, hq, e⟩
      have h1 : erase ((a, v) :: m) a = erase m a := by simp [erase, List.filter_cons]
      have h2 : get? ((a, v) :: m) a = some v := by simp [get?, List.lookup]
      rw [h1, h2, herase]
      simp [sumVals]; omega
    · have hne : (a != k) = true := by simpa using hak
      have h1 : erase ((a, v) :: m) k = (a, v) :: erase m k := by simp [erase, List.filter_cons, hne]
      have hka : (k == a) = false := by simp; exact fun e => hak e.symm
      have h2 : get? ((a, v) :: m) k = get? m k := by simp [get?, List.lookup, hka]
      rw [h1, h2]
      have := ih hn.2
      simp only [sumVals, List.map_cons, List.sum_cons] at this ⊢
      omega

theorem sumVals_insert (m : AMap Nat) (k : Edge) (v : Nat) (h : (keys m).Nodup) :
    sumVals (insert m k v) + (get? m k).getD 0 = sumVals m + v := by
  have := sumVals_erase m k h
  simp only [insert, sumVals, List.map_cons, List.sum_cons] at this ⊢
  omega

theorem get?_le_sumVals (m : AMap Nat) (k : Edge) : (get? m k).getD 0 ≤ sumVals m := by
  induction m with
  | nil => simp [get?]
  | cons p m ih =>
    obtain ⟨a, v⟩ := p
    simp only [get?, List.lookup, sumVals, List.map_cons, List.sum_cons] at ih ⊢
    by_cases hk : k = a
    · subst hk; simp
    · have : (k == a) = false := by simpa using hk
      simp only [this]; omega
end AMap

namespace MG
open G

/-- the multiplicity function a multigraph state stands for -/
def mult (m : MG) (i j : Nat) : Nat := cur m.g (i, j)

structure MInv (m : MG) : Prop where
  base : Inv m.g
  lbl : m.g.labelled = true
  keys : KeysNodup m.g
  pos : ∀ e v, m.g.labels.get? e = some v → 0 < v
  tot : m.total = AMap.sumVals m.g.labels

theorem minv_new (n : Nat) : MInv (MG.new n) :=
  ⟨inv_new true n, rfl, keysNodup_new true n, by intro e v h; simp [MG.new, G.new, AMap.get?] at h, rfl⟩

/-- multiplicity is zero exactly when there is no edge -/
theorem mult_eq_zero_iff (m : MG) (h : MInv m) (i j : Nat) : m.mult i j = 0 ↔ m.g.hasEdgeRaw i j = false := by
  have hl := h.base.lab h.lbl i j
  simp only [mult, cur]
  cases hg : m.g.labels.get? (i, j) with
  | none => rw [hg] at hl; simp at hl ⊢; simpa using hl.symm
  | some v =>
    rw [hg] at hl
    have hp := h.pos _ _ hg
    simp at hl ⊢
    constructor
    · intro hv; omega
    · intro hf; rw [hf] at hl; cases hl

theorem minv_resize (m : MG) (h : MInv m) (n : Nat) : MInv (m.resize n).1 := by
  have hi := inv_resize m.g n h.base
  by_cases hn : n < m.g.size
  · simp only [MG.resize, G.resize, hn, if_true]; exact h
  · refine ⟨by simpa [MG.resize] using hi, ?_, ?_, ?_, ?_⟩
    · simp [MG.resize, G.resize, hn, h.lbl]
    · simpa [MG.resize, G.resize, hn, KeysNodup] using h.keys
    · intro e v hv; exact h.pos e v (by simpa [MG.resize, G.resize, hn] using hv)
    · simpa [MG.resize, G.resize, hn] using h.tot

/-! ## addMultiedge (unforced) -/

theorem dAddEdge_forced_absent {L : Type} [Inhabited L] (g : G L) (i j : Nat) (l : L) (he : g.hasEdgeRaw i j = false) :
    g.dAddEdge i j l true = g.dAddEdge i j l false := by
  simp [dAddEdge, he]

theorem cur_eq (g : G Nat) (e : Edge) : cur g e = (g.labels.get? e).getD 0 := rfl

theorem minv_dAddMultiedge (m : MG) (h : MInv m) (i j k : Nat) : MInv (m.dAddMultiedge i j k false).1 := by
  unfold dAddMultiedge
  split
  · exact h
  · rename_i hr
    have hi : i < m.g.size ∧ j < m.g.size := by simpa [inR] using hr
    split
    · exact h
    · rename_i hk
      by_cases he : m.g.hasEdgeRaw i j = true
      · -- present: the stored multiplicity goes up by k
        simp only [he, Bool.false_or, Bool.not_true, Bool.false_eq_true, if_false]
        have hsome := h.base.lab h.lbl i j
        rw [he] at hsome
        obtain ⟨v, hv⟩ := Option.isSome_iff_exists.1 hsome
        refine ⟨?_, h.lbl, ?_, ?_, ?_⟩
        · refine ⟨h.base.len, h.base.nodup, h.base.bound, h.base.count, ?_, ?_⟩
          · intro _ a b
            simp only [withLabels_labels, withLabels_hasEdgeRaw]
            rw [AMap.get?_insert]
            by_cases hab : (a, b) = (i, j)
            · simp at hab; obtain ⟨rfl, rfl⟩ := hab; simp [he]
            · simp [hab, h.base.lab h.lbl a b]
          · intro hl
            have : m.g.labelled = false := hl
            rw [h.lbl] at this; cases this
        · exact AMap.nodup_keys_insert _ _ _ h.keys
        · intro e w hw
          simp only [withLabels_labels] at hw
          rw [AMap.get?_insert] at hw
          by_cases hei : e = (i, j)
          · simp only [hei, if_true, Option.some.injEq] at hw; omega
          · simp only [hei, if_false] at hw; exact h.pos e w hw
        · simp only [withLabels_labels]
          have := AMap.sumVals_insert m.g.labels (i, j) (cur m.g (i, j) + k) h.keys
          rw [h.tot, cur_eq] at *
          simp only [hv, Option.getD_some] at this ⊢
          omega
      · have he : m.g.hasEdgeRaw i j = false := by simpa using he
        simp only [he, Bool.not_false, Bool.or_true, if_true]
        rw [dAddEdge_forced_absent m.g i j k he]
        have hnone : m.g.labels.get? (i, j) = none := by
          have := h.base.lab h.lbl i j
          rw [he] at this
          cases hg : m.g.labels.get? (i, j) with
          | none => rfl
          | some w => rw [hg] at this; cases this
        have hlabels : (m.g.dAddEdge i j k false).1.labels = m.g.labels.insert (i, j) k := by
          rw [dAddEdge_absent m.g i j k hi.1 hi.2 he]
          rw [setLab_labels_true _ _ _ (by simpa [push] using h.lbl)]; rfl
        refine ⟨inv_dAddEdge m.g h.base i j k, by rw [dAddEdge_labelled]; exact h.lbl,
          keysNodup_dAddEdge m.g i j k false h.keys, ?_, ?_⟩
        · intro e w hw
          simp only at hw
          rw [hlabels, AMap.get?_insert] at hw
          by_cases hei : e = (i, j)
          · simp only [hei, if_true, Option.some.injEq] at hw; omega
          · simp only [hei, if_false] at hw; exact h.pos e w hw
        · simp only
          rw [hlabels]
          have := AMap.sumVals_insert m.g.labels (i, j) k h.keys
          rw [hnone] at this
          simp only [Option.getD_none] at this
          rw [h.tot]; omega

/-- effect of `addMultiedge(i,j,k)` on multiplicities: `+k` on (i,j), nothing else -/
theorem mult_dAddMultiedge (m : MG) (h : MInv m) (i j k : Nat) (hi : i < m.g.size) (hj : j < m.g.size) (a b : Nat) :
    (m.dAddMultiedge i j k false).1.mult a b = m.mult a b + (if a = i ∧ b = j then k else 0) := by
  unfold dAddMultiedge
  have hr : (m.g.inR i && m.g.inR j) = true := by simp [inR, hi, hj]
  simp only [hr, Bool.not_true, Bool.false_eq_true, if_false]
  by_cases hk : k = 0
  · simp [hk]
  · simp only [hk, if_false]
    by_cases he : m.g.hasEdgeRaw i j = true
    · simp only [he, Bool.false_or, Bool.not_true, Bool.false_eq_true, if_false, mult, cur, withLabels_labels]
      rw [AMap.get?_insert]
      by_cases hab : a = i ∧ b = j
      · obtain ⟨rfl, rfl⟩ := hab; simp
      · have : ¬ (a, b) = (i, j) := by intro hh; apply hab; simpa using hh
        simp [this, hab]
    · have he : m.g.hasEdgeRaw i j = false := by simpa using he
      simp only [he, Bool.not_false, Bool.or_true, if_true, mult, cur]
      rw [dAddEdge_forced_absent m.g i j k he, dAddEdge_absent m.g i j k hi hj he,
        setLab_labels_true _ _ _ (by simpa [push] using h.lbl)]
      simp only [withEN_labels, push_labels]
      rw [AMap.get?_insert]
      have hnone : m.g.labels.get? (i, j) = none := by
        have := h.base.lab h.lbl i j
        rw [he] at this
        cases hg : m.g.labels.get? (i, j) with
        | none => rfl
        | some w => rw [hg] at this; cases this
      by_cases hab : a = i ∧ b = j
      · obtain ⟨rfl, rfl⟩ := hab; simp [hnone]
      · have : ¬ (a, b) = (i, j) := by intro hh; apply hab; simpa using hh
        simp [this, hab]

end MG
end BGV
