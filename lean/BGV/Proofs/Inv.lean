import BGV.Model.Graph
import BGV.Lemmas.Lists
/-!
# BGV.Proofs.Inv — representation invariant of the simple/labelled classes (force off)
and the per-index characterisation of the primitive updates.
-/
set_option linter.unusedSectionVars false
namespace BGV
namespace G
variable {L : Type} [Inhabited L]

/-- Representation invariant of `LabeledDirectedGraph` reachable with `force = false`. -/
structure Inv (g : G L) : Prop where
  len : g.adj.length = g.size
  nodup : ∀ i, (g.nb i).Nodup
  bound : ∀ i, ∀ j ∈ g.nb i, j < g.size
  count : g.edgeNumber = g.sumLen
  lab : g.labelled = true → ∀ i j, (g.labels.get? (i, j)).isSome = g.hasEdgeRaw i j
  nolab : g.labelled = false → g.labels = []

/-! ### projections of the record updates -/
@[simp] theorem withAdj_size (g : G L) (a) : (g.withAdj a).size = g.size := rfl
@[simp] theorem withAdj_adj (g : G L) (a) : (g.withAdj a).adj = a := rfl
@[simp] theorem withAdj_en (g : G L) (a) : (g.withAdj a).edgeNumber = g.edgeNumber := rfl
@[simp] theorem withAdj_labels (g : G L) (a) : (g.withAdj a).labels = g.labels := rfl
@[simp] theorem withAdj_labelled (g : G L) (a) : (g.withAdj a).labelled = g.labelled := rfl
@[simp] theorem withEN_size (g : G L) (n) : (g.withEN n).size = g.size := rfl
@[simp] theorem withEN_adj (g : G L) (n) : (g.withEN n).adj = g.adj := rfl
@[simp] theorem withEN_en (g : G L) (n) : (g.withEN n).edgeNumber = n := rfl
@[simp] theorem withEN_labels (g : G L) (n) : (g.withEN n).labels = g.labels := rfl
@[simp] theorem withEN_labelled (g : G L) (n) : (g.withEN n).labelled = g.labelled := rfl
@[simp] theorem withLabels_size (g : G L) (m) : (g.withLabels m).size = g.size := rfl
@[simp] theorem withLabels_adj (g : G L) (m) : (g.withLabels m).adj = g.adj := rfl
@[simp] theorem withLabels_en (g : G L) (m) : (g.withLabels m).edgeNumber = g.edgeNumber := rfl
@[simp] theorem withLabels_labels (g : G L) (m) : (g.withLabels m).labels = m := rfl
@[simp] theorem withLabels_labelled (g : G L) (m) : (g.withLabels m).labelled = g.labelled := rfl
@[simp] theorem withEN_nb (g : G L) (n k) : (g.withEN n).nb k = g.nb k := rfl
@[simp] theorem withLabels_nb (g : G L) (m k) : (g.withLabels m).nb k = g.nb k := rfl
@[simp] theorem withEN_hasEdgeRaw (g : G L) (n a b) : (g.withEN n).hasEdgeRaw a b = g.hasEdgeRaw a b := rfl
@[simp] theorem withLabels_hasEdgeRaw (g : G L) (m a b) : (g.withLabels m).hasEdgeRaw a b = g.hasEdgeRaw a b := rfl
@[simp] theorem withEN_sumLen (g : G L) (n) : (g.withEN n).sumLen = g.sumLen := rfl
@[simp] theorem withLabels_sumLen (g : G L) (m) : (g.withLabels m).sumLen = g.sumLen := rfl

@[simp] theorem push_size (g : G L) (i j) : (g.push i j).size = g.size := rfl
@[simp] theorem push_en (g : G L) (i j) : (g.push i j).edgeNumber = g.edgeNumber := rfl
@[simp] theorem push_labels (g : G L) (i j) : (g.push i j).labels = g.labels := rfl
@[simp] theorem push_labelled (g : G L) (i j) : (g.push i j).labelled = g.labelled := rfl
@[simp] theorem remove_size (g : G L) (i j) : (g.remove i j).size = g.size := rfl
@[simp] theorem remove_en (g : G L) (i j) : (g.remove i j).edgeNumber = g.edgeNumber := rfl
@[simp] theorem remove_labels (g : G L) (i j) : (g.remove i j).labels = g.labels := rfl
@[simp] theorem remove_labelled (g : G L) (i j) : (g.remove i j).labelled = g.labelled := rfl

@[simp] theorem setLab_size (g : G L) (e l) : (g.setLab e l).size = g.size := by
  unfold setLab; split <;> rfl
@[simp] theorem setLab_adj (g : G L) (e l) : (g.setLab e l).adj = g.adj := by
  unfold setLab; split <;> rfl
@[simp] theorem setLab_en (g : G L) (e l) : (g.setLab e l).edgeNumber = g.edgeNumber := by
  unfold setLab; split <;> rfl
@[simp] theorem setLab_labelled (g : G L) (e l) : (g.setLab e l).labelled = g.labelled := by
  unfold setLab; split
  · rename_i h; simp [h]
  · rfl
@[simp] theorem setLab_nb (g : G L) (e l k) : (g.setLab e l).nb k = g.nb k := by
  simp [nb]
@[simp] theorem setLab_hasEdgeRaw (g : G L) (e l a b) : (g.setLab e l).hasEdgeRaw a b = g.hasEdgeRaw a b := by
  simp [hasEdgeRaw]
@[simp] theorem setLab_sumLen (g : G L) (e l) : (g.setLab e l).sumLen = g.sumLen := by
  simp [sumLen]
theorem setLab_labels_true (g : G L) (e l) (h : g.labelled = true) :
    (g.setLab e l).labels = g.labels.insert e l := by
  simp [setLab, h]
theorem setLab_labels_false (g : G L) (e l) (h : g.labelled = false) :
    (g.setLab e l).labels = g.labels := by
  simp [setLab, h]

/-! ### neighbour lists after `push` / `remove` -/
theorem nb_push (g : G L) (i j k : Nat) (hi : i < g.adj.length) :
    (g.push i j).nb k = if i = k then g.nb k ++ [j] else g.nb k := by
  simp only [push, nb, withAdj_adj]
  exact getD_modify_lt _ _ _ _ hi

theorem nb_remove (g : G L) (i j k : Nat) :
    (g.remove i j).nb k = if i = k then (g.nb k).filter (· != j) else g.nb k := by
  simp only [remove, nb, withAdj_adj]
  exact getD_modify _ _ _ _ (by simp)

theorem nb_of_ge (g : G L) (k : Nat) (h : g.adj.length ≤ k) : g.nb k = [] := by
  simp [nb, List.getD_eq_getElem?_getD, h]

theorem Inv.nb_of_ge {g : G L} (h : Inv g) (k : Nat) (hk : g.size ≤ k) : g.nb k = [] :=
  G.nb_of_ge g k (by rw [h.len]; exact hk)

theorem Inv.hasEdgeRaw_lt {g : G L} (h : Inv g) {a b : Nat} (he : g.hasEdgeRaw a b = true) :
    a < g.size ∧ b < g.size := by
  have hm : b ∈ g.nb a := by simpa [hasEdgeRaw] using he
  refine ⟨?_, h.bound a b hm⟩
  by_cases ha : a < g.size
  · exact ha
  · rw [h.nb_of_ge a (by omega)] at hm; simp at hm

theorem sumLen_push (g : G L) (i j : Nat) (hi : i < g.adj.length) :
    (g.push i j).sumLen = g.sumLen + 1 := by
  have := sum_len_modify g.adj i (· ++ [j]) hi
  simp only [push, sumLen, withAdj_adj]
  simp at this ⊢
  omega

theorem sumLen_remove (g : G L) (i j : Nat) :
    (g.remove i j).sumLen + ((g.nb i).length - ((g.remove i j).nb i).length) = g.sumLen := by
  by_cases hi : i < g.adj.length
  · have := sum_len_modify g.adj i (List.filter (· != j)) hi
    have hle : (List.filter (· != j) (g.adj.getD i [])).length ≤ (g.adj.getD i []).length :=
      List.length_filter_le _ _
    rw [nb_remove]
    simp only [remove, sumLen, withAdj_adj, nb, if_true] at this ⊢
    omega
  · have hge : g.adj.length ≤ i := by omega
    have h1 : (g.remove i j).adj = g.adj := by simp [remove, modify_of_ge _ _ _ hge]
    rw [nb_remove]
    simp [sumLen, h1, G.nb_of_ge g i hge]

theorem sumLen_ge_nb (g : G L) (i : Nat) : (g.nb i).length ≤ g.sumLen := getD_len_le_sum g.adj i

/-! ### the empty graph -/
theorem nb_new (labelled : Bool) (n k : Nat) : (G.new labelled n : G L).nb k = [] := by
  simp only [nb, G.new]; exact getD_replicate_nil _ _

theorem inv_new (labelled : Bool) (n : Nat) : Inv (G.new labelled n : G L) := by
  constructor
  · simp [G.new]
  · intro i; rw [nb_new]; exact List.nodup_nil
  · intro i j hj; rw [nb_new] at hj; simp at hj
  · simp [G.new, sumLen]
  · intro _ i j; simp only [hasEdgeRaw]; rw [nb_new]; simp [G.new, AMap.get?]
  · intro _; rfl

/-! ### resize -/
theorem inv_resize (g : G L) (n : Nat) (h : Inv g) : Inv (g.resize n).1 := by
  unfold resize
  split
  · exact h
  · rename_i hn
    have hn : g.size ≤ n := by omega
    have hnb : ∀ k, (⟨g.labelled, n, g.adj ++ List.replicate (n - g.adj.length) [], g.edgeNumber, g.labels⟩ : G L).nb k = g.nb k := by
      intro k; simp only [nb]; exact getD_append_replicate _ _ _
    constructor
    · simp [h.len]; omega
    · intro i; rw [hnb]; exact h.nodup i
    · intro i j hj; rw [hnb] at hj; have := h.bound i j hj; simp; omega
    · simp only [sumLen]; rw [sum_map_length_append_replicate]; exact h.count
    · intro hl i j
      have := h.lab hl i j
      simp only [hasEdgeRaw] at this ⊢
      rw [hnb]; exact this
    · intro hl; exact h.nolab hl

theorem nb_resize (g : G L) (n k : Nat) : (g.resize n).1.nb k = g.nb k := by
  unfold resize
  split
  · rfl
  · simp only [nb]; exact getD_append_replicate _ _ _

end G
end BGV
