import BGV.Proofs.URemove
/-!
# BGV.Proofs.URemove2 — removeSelfLoops, removeVertexFromEdgeList, clearEdges, setEdgeLabel on
`LabeledUndirectedGraph`
-/
set_option linter.unusedSectionVars false
namespace BGV
namespace G
variable {L : Type} [Inhabited L]

/-! ## generic: folds that rewrite one neighbour list per step -/
theorem foldl_nb_indexwise (step : G L → Nat → G L) (F : Nat → List Nat → List Nat)
    (hstep : ∀ g i k, (step g i).nb k = if i = k then F i (g.nb k) else g.nb k) :
    ∀ (is : List Nat), is.Nodup → ∀ g k, (is.foldl step g).nb k = if k ∈ is then F k (g.nb k) else g.nb k := by
  intro is
  induction is with
  | nil => intro _ g k; simp
  | cons i is ih =>
    intro hn g k
    have hn' := List.nodup_cons.1 hn
    simp only [List.foldl_cons]
    rw [ih hn'.2, hstep]
    by_cases hik : i = k
    · subst hik
      simp [hn'.1]
    · have : ¬ k = i := fun e => hik e.symm
      simp [hik, this]

/-! ## removeSelfLoops -/
theorem uRemoveSelfLoops_inv_aux (is : List Nat) (g : G L) (h : UInv g) :
    UInv (is.foldl (fun g i => g.uRemoveEdgeCore i i) g) := by
  induction is generalizing g with
  | nil => exact h
  | cons i is ih => exact ih _ (uinv_uRemoveEdgeCore g h i i)

theorem uinv_uRemoveSelfLoops (g : G L) (h : UInv g) : UInv g.uRemoveSelfLoops :=
  uRemoveSelfLoops_inv_aux _ g h

theorem uRemoveSelfLoops_size_aux (is : List Nat) (g : G L) :
    (is.foldl (fun g i => g.uRemoveEdgeCore i i) g).size = g.size := by
  induction is generalizing g with
  | nil => rfl
  | cons i is ih => simp only [List.foldl_cons]; rw [ih]; simp

theorem mem_nb_uRemoveSelfLoops_aux (is : List Nat) (g : G L) (h : UInv g) (a b : Nat) :
    b ∈ (is.foldl (fun g i => g.uRemoveEdgeCore i i) g).nb a ↔ (b ∈ g.nb a ∧ ¬ (a = b ∧ a ∈ is)) := by
  induction is generalizing g with
  | nil => simp
  | cons i is ih =>
    simp only [List.foldl_cons]
    rw [ih _ (uinv_uRemoveEdgeCore g h i i), mem_nb_uRemoveEdgeCore g h]
    constructor
    · rintro ⟨⟨h1, h2, _⟩, h3⟩
      refine ⟨h1, ?_⟩
      rintro ⟨hab, hmem⟩
      rcases List.mem_cons.1 hmem with rfl | hmem
      · exact h2 ⟨rfl, hab.symm⟩
      · exact h3 ⟨hab, hmem⟩
    · rintro ⟨h1, h2⟩
      refine ⟨⟨h1, ?_, ?_⟩, ?_⟩
      · rintro ⟨rfl, rfl⟩; exact h2 ⟨rfl, by simp⟩
      · rintro ⟨rfl, rfl⟩; exact h2 ⟨rfl, by simp⟩
      · rintro ⟨hab, hmem⟩; exact h2 ⟨hab, List.mem_cons_of_mem _ hmem⟩

theorem mem_nb_uRemoveSelfLoops (g : G L) (h : UInv g) (a b : Nat) :
    b ∈ g.uRemoveSelfLoops.nb a ↔ (b ∈ g.nb a ∧ a ≠ b) := by
  unfold uRemoveSelfLoops
  rw [mem_nb_uRemoveSelfLoops_aux _ g h]
  constructor
  · rintro ⟨h1, h2⟩
    refine ⟨h1, ?_⟩
    intro hab
    apply h2
    refine ⟨hab, ?_⟩
    rw [List.mem_range]
    by_cases ha : a < g.size
    · exact ha
    · rw [h.base.nb_of_ge a (by omega)] at h1; simp at h1
  · rintro ⟨h1, h2⟩; exact ⟨h1, fun hh => h2 hh.1⟩

theorem labels_uRemoveSelfLoops_aux (is : List Nat) (g : G L) (h : UInv g) (e : Edge) (hne : e.1 ≠ e.2) :
    (is.foldl (fun g i => g.uRemoveEdgeCore i i) g).labels.get? e = g.labels.get? e := by
  induction is generalizing g with
  | nil => rfl
  | cons i is ih =>
    simp only [List.foldl_cons]
    rw [ih _ (uinv_uRemoveEdgeCore g h i i), labels_uRemoveEdgeCore g h]
    have : ¬ (i ∈ g.nb i ∧ e = ordered i i) := by
      rintro ⟨_, he⟩
      apply hne
      rw [he]; simp [ordered]
    rw [if_neg this]

/-! ## removeVertexFromEdgeList: one pass over all lists -/

/-- one iteration of the outer loop (vertex `i`) -/
def uRVStep (v : Nat) (g : G L) (i : Nat) : G L :=
  ⟨g.labelled, g.size, g.adj.modify i (List.filter (fun j => !(i == v || j == v))),
    subW g.edgeNumber (((g.nb i).filter (fun j => i == v || j == v)).filter (fun j => decide (i ≤ j))).length,
    (((g.nb i).filter (fun j => i == v || j == v)).filter (fun j => decide (i ≤ j))).foldl
      (fun m j => AMap.erase m (i, j)) g.labels⟩

theorem uRemoveVertex_eq (g : G L) (v : Nat) (hv : v < g.size) :
    (g.uRemoveVertex v).1 = (List.range g.size).foldl (uRVStep v) g := by
  simp only [uRemoveVertex, inR, hv, decide_true, Bool.not_true, Bool.false_eq_true, if_false]
  rfl

theorem nb_uRVStep (v : Nat) (g : G L) (i k : Nat) :
    (uRVStep v g i).nb k = if i = k then (g.nb k).filter (fun j => !(i == v || j == v)) else g.nb k := by
  simp only [uRVStep, nb]
  rw [getD_modify _ _ _ _ (by simp)]

@[simp] theorem uRVStep_size (v : Nat) (g : G L) (i : Nat) : (uRVStep v g i).size = g.size := rfl
@[simp] theorem uRVStep_labelled (v : Nat) (g : G L) (i : Nat) : (uRVStep v g i).labelled = g.labelled := rfl

theorem cnt_uRVStep (v : Nat) (g : G L) (i k : Nat) :
    (uRVStep v g i).cnt k +
      (if i = k then (((g.nb i).filter (fun j => i == v || j == v)).filter (fun j => decide (i ≤ j))).length else 0)
      = g.cnt k := by
  simp only [cnt]
  rw [nb_uRVStep]
  by_cases hik : i = k
  · subst hik
    simp only [if_true]
    have := length_filter_partition (g.nb i) (fun j => !(i == v || j == v)) (fun j => decide (i ≤ j))
    have hcg : (g.nb i).filter (fun a => !(fun j => !(i == v || j == v)) a) = (g.nb i).filter (fun j => i == v || j == v) := by
      apply List.filter_congr; intro a _; simp
    rw [hcg] at this
    exact this
  · simp [hik]

theorem uinv0_uRVStep (v : Nat) (g : G L) (h : UInv0 g) (i : Nat) : UInv0 (uRVStep v g i) := by
  have hgone_le : (((g.nb i).filter (fun j => i == v || j == v)).filter (fun j => decide (i ≤ j))).length ≤ g.cnt i := by
    have := cnt_uRVStep v g i i; simp only [if_true] at this; omega
  refine ⟨?_, ?_, ?_, ?_, ?_, ?_⟩
  · simp [uRVStep, h.len]
  · intro k; rw [nb_uRVStep]; split
    · exact (h.nodup k).sublist List.filter_sublist
    · exact h.nodup k
  · intro k x hx; rw [nb_uRVStep] at hx
    show x < g.size
    split at hx
    · exact h.bound k x (List.mem_filter.1 hx).1
    · exact h.bound k x hx
  · show subW g.edgeNumber _ = (uRVStep v g i).uCount
    by_cases hi : i < g.size
    · have hsum := sum_map_range_change g.size i (uRVStep v g i).cnt g.cnt hi (by
        intro k hk
        have := cnt_uRVStep v g i k
        have hne : ¬ i = k := fun e => hk e.symm
        simp only [hne, if_false, Nat.add_zero] at this
        exact this.symm)
      have hci := cnt_uRVStep v g i i
      simp only [if_true] at hci
      have hle : g.cnt i ≤ g.uCount := by
        simp only [uCount]
        have : g.cnt i ∈ (List.range g.size).map g.cnt := List.mem_map.2 ⟨i, by simpa using hi, rfl⟩
        exact le_sum_of_mem' _ _ this
      rw [subW_of_le (by rw [h.count]; omega), h.count]
      simp only [uCount, uRVStep_size]
      simp only [uCount] at hle
      omega
    · have hnil : g.nb i = [] := h.nb_of_ge i (by omega)
      simp only [hnil, List.filter_nil, List.length_nil, subW_zero]
      rw [h.count]
      simp only [uCount, uRVStep_size]
      apply (sum_map_range_congr _ _ _ _).symm
      intro k hk
      have := cnt_uRVStep v g i k
      have hne : ¬ i = k := by omega
      simp only [hne, if_false, Nat.add_zero] at this
      exact this
  · intro hl a b
    have hl' : g.labelled = true := hl
    show (AMap.get? ((((g.nb i).filter (fun j => i == v || j == v)).filter (fun j => decide (i ≤ j))).foldl
        (fun m j => AMap.erase m (i, j)) g.labels) (a, b)).isSome = _
    rw [AMap.get?_foldl_erase]
    simp only [hasEdgeRaw]
    rw [nb_uRVStep]
    by_cases hai : i = a
    · subst hai
      simp only [true_and, if_true, List.mem_filter, decide_eq_true_eq, List.contains_eq_mem]
      by_cases hgone : (b ∈ g.nb i ∧ (i == v || b == v) = true) ∧ i ≤ b
      · rw [if_pos hgone]
        have : (i == v || b == v) = true := hgone.1.2
        simp [this]
      · rw [if_neg hgone, h.lab hl' i b]
        simp only [hasEdgeRaw, List.contains_eq_mem]
        by_cases hle : i ≤ b
        · by_cases hmem : b ∈ g.nb i
          · have hk : (i == v || b == v) = false := by
              by_cases hq : (i == v || b == v) = true
              · exact absurd ⟨⟨hmem, hq⟩, hle⟩ hgone
              · simpa using hq
            simp [hle, hmem, hk]
          · simp [hle, hmem]
        · simp [hle]
    · have hne : ¬ (a = i) := fun e => hai e.symm
      simp only [hne, false_and, if_false, hai]
      exact h.lab hl' a b
  · intro hl
    have hl' : g.labelled = false := hl
    show (((g.nb i).filter (fun j => i == v || j == v)).filter (fun j => decide (i ≤ j))).foldl
        (fun m j => AMap.erase m (i, j)) g.labels = []
    exact foldl_erase_nil i _ _ (h.nolab hl')

theorem uinv0_foldl_uRVStep (v : Nat) (is : List Nat) (g : G L) (h : UInv0 g) : UInv0 (is.foldl (uRVStep v) g) := by
  induction is generalizing g with
  | nil => exact h
  | cons i is ih => exact ih _ (uinv0_uRVStep v g h i)

theorem size_foldl_uRVStep (v : Nat) (is : List Nat) (g : G L) : (is.foldl (uRVStep v) g).size = g.size := by
  induction is generalizing g with
  | nil => rfl
  | cons i is ih => simp only [List.foldl_cons]; rw [ih]; rfl

theorem labelled_foldl_uRVStep (v : Nat) (is : List Nat) (g : G L) : (is.foldl (uRVStep v) g).labelled = g.labelled := by
  induction is generalizing g with
  | nil => rfl
  | cons i is ih => simp only [List.foldl_cons]; rw [ih]; rfl

theorem mem_nb_uRemoveVertex (g : G L) (h : UInv g) (v : Nat) (hv : v < g.size) (a b : Nat) :
    b ∈ (g.uRemoveVertex v).1.nb a ↔ (b ∈ g.nb a ∧ a ≠ v ∧ b ≠ v) := by
  rw [uRemoveVertex_eq g v hv]
  rw [foldl_nb_indexwise (uRVStep v) (fun i l => l.filter (fun j => !(i == v || j == v))) (nb_uRVStep v)
      (List.range g.size) List.nodup_range g a]
  by_cases ha : a < g.size
  · have : a ∈ List.range g.size := by simpa using ha
    simp only [this, if_true, List.mem_filter, Bool.not_eq_true', Bool.or_eq_false_iff, beq_eq_false_iff_ne, ne_eq]
  · have hnil : g.nb a = [] := h.base.nb_of_ge a (by omega)
    have : a ∉ List.range g.size := by simpa using ha
    simp [this, hnil]

theorem uinv_uRemoveVertex (g : G L) (h : UInv g) (v : Nat) : UInv (g.uRemoveVertex v).1 := by
  by_cases hv : v < g.size
  · refine ⟨?_, ?_⟩
    · rw [uRemoveVertex_eq g v hv]; exact uinv0_foldl_uRVStep v _ g h.base
    · intro a b
      rw [mem_nb_uRemoveVertex g h v hv, mem_nb_uRemoveVertex g h v hv, h.sym a b]
      constructor
      · rintro ⟨h1, h2, h3⟩; exact ⟨h1, h3, h2⟩
      · rintro ⟨h1, h2, h3⟩; exact ⟨h1, h3, h2⟩
  · have : (g.uRemoveVertex v).1 = g := by simp [uRemoveVertex, inR, hv]
    rw [this]; exact h

/-! ## clearEdges -/
theorem uinv_clearEdges (g : G L) (h : UInv g) : UInv g.clearEdges := by
  refine ⟨⟨?_, ?_, ?_, ?_, ?_, ?_⟩, ?_⟩
  · simp [clearEdges, h.base.len]
  · intro k; rw [nb_clearEdges]; exact List.nodup_nil
  · intro k x hx; rw [nb_clearEdges] at hx; simp at hx
  · show 0 = g.clearEdges.uCount
    symm
    simp only [uCount]
    apply sum_eq_zero_of_forall
    intro x hx
    simp only [List.mem_map] at hx
    obtain ⟨k, _, rfl⟩ := hx
    simp only [cnt]; rw [nb_clearEdges]; rfl
  · intro _ a b; simp only [hasEdgeRaw]; rw [nb_clearEdges]; simp [clearEdges, AMap.get?]
  · intro _; rfl
  · intro a b; rw [nb_clearEdges, nb_clearEdges]; simp

/-! ## setEdgeLabel (unforced) -/
theorem uinv_uSetEdgeLabel (g : G L) (h : UInv g) (i j : Nat) (l : L) : UInv (g.uSetEdgeLabel i j l false).1 := by
  unfold uSetEdgeLabel
  split
  · exact h
  · split
    · exact h
    · rename_i h1 h2
      have he : g.uHasEdgeRaw i j = true := by simpa using h2
      have he' : g.hasEdgeRaw (ordered i j).1 (ordered i j).2 = true := he
      refine ⟨⟨?_, ?_, ?_, ?_, ?_, ?_⟩, ?_⟩
      · simp [h.base.len]
      · intro k; simp; exact h.base.nodup k
      · intro k x hx; simp at hx ⊢; exact h.base.bound k x hx
      · simp only [setLab_en]
        rw [h.base.count]
        simp only [uCount, setLab_size]
        have : (g.setLab (ordered i j) l).cnt = g.cnt := by funext k; simp [cnt]
        rw [this]
      · intro hl a b
        have hl' : g.labelled = true := by simpa using hl
        simp only [setLab_hasEdgeRaw]
        rw [setLab_labels_true _ _ _ hl', AMap.get?_insert]
        by_cases hab : (a, b) = ordered i j
        · have hle := ordered_fst_le i j
          rw [← hab] at hle he'
          simp only at hle he'
          simp [hab, hle, he']
        · simp [hab, h.base.lab hl' a b]
      · intro hl
        have hl' : g.labelled = false := by simpa using hl
        rw [setLab_labels_false _ _ _ hl']; exact h.base.nolab hl'
      · intro a b; simp; exact h.sym a b

end G
end BGV
