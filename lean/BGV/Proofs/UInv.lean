import BGV.Proofs.Directed
/-!
# BGV.Proofs.UInv — representation invariant of `LabeledUndirectedGraph` (force off)

`UInv0`: everything except symmetry (it also holds between the steps of the one-pass
`removeVertexFromEdgeList`); `UInv = UInv0 ∧ Sym`.
-/
set_option linter.unusedSectionVars false
namespace BGV
namespace G
variable {L : Type} [Inhabited L]

/-- half-edges `(i,j)` with `i ≤ j` in `i`'s list: each undirected edge is counted here once -/
def cnt (g : G L) (i : Nat) : Nat := ((g.nb i).filter (fun j => decide (i ≤ j))).length
def uCount (g : G L) : Nat := ((List.range g.size).map g.cnt).sum

structure UInv0 (g : G L) : Prop where
  len : g.adj.length = g.size
  nodup : ∀ i, (g.nb i).Nodup
  bound : ∀ i, ∀ j ∈ g.nb i, j < g.size
  count : g.edgeNumber = g.uCount
  lab : g.labelled = true → ∀ i j, (g.labels.get? (i, j)).isSome = (decide (i ≤ j) && g.hasEdgeRaw i j)
  nolab : g.labelled = false → g.labels = []

def Sym (g : G L) : Prop := ∀ i j, j ∈ g.nb i ↔ i ∈ g.nb j

structure UInv (g : G L) : Prop where
  base : UInv0 g
  sym : Sym g

theorem UInv0.nb_of_ge {g : G L} (h : UInv0 g) (k : Nat) (hk : g.size ≤ k) : g.nb k = [] :=
  G.nb_of_ge g k (by rw [h.len]; exact hk)

theorem ordered_fst_le (i j : Nat) : (ordered i j).1 ≤ (ordered i j).2 := by
  unfold ordered; split <;> simp <;> omega

theorem ordered_comm (i j : Nat) : ordered i j = ordered j i := by
  unfold ordered
  by_cases h1 : i < j
  · have h2 : ¬ j < i := by omega
    simp [h1, h2]
  · by_cases h2 : j < i
    · simp [h1, h2]
    · have : i = j := by omega
      subst this; simp

theorem ordered_of_le {i j : Nat} (h : i ≤ j) : ordered i j = (i, j) := by
  unfold ordered
  by_cases h1 : i < j
  · simp [h1]
  · have : i = j := by omega
    subst this; simp

theorem mem_nb_iff (g : G L) (i j : Nat) : j ∈ g.nb i ↔ g.hasEdgeRaw i j = true := by
  simp [hasEdgeRaw]

/-- under symmetry the public `hasEdge` (which looks in the smaller vertex's list) agrees with
membership in either list -/
theorem UInv.uHasEdgeRaw_eq {g : G L} (h : UInv g) (i j : Nat) : g.uHasEdgeRaw i j = g.hasEdgeRaw i j := by
  unfold uHasEdgeRaw ordered
  by_cases hij : i < j
  · simp [hij]
  · simp only [hij, if_false]
    rw [Bool.eq_iff_iff, ← mem_nb_iff, ← mem_nb_iff]
    exact (h.sym i j).symm

theorem uinv_new (lb : Bool) (n : Nat) : UInv (G.new lb n : G L) := by
  refine ⟨⟨?_, ?_, ?_, ?_, ?_, ?_⟩, ?_⟩
  · simp [G.new]
  · intro i; rw [nb_new]; exact List.nodup_nil
  · intro i j hj; rw [nb_new] at hj; simp at hj
  · have hc : ∀ k, (G.new lb n : G L).cnt k = 0 := by intro k; simp only [cnt]; rw [nb_new]; rfl
    show 0 = (G.new lb n : G L).uCount
    symm
    simp only [uCount]
    apply sum_eq_zero_of_forall _
    intro x hx
    simp only [List.mem_map] at hx
    obtain ⟨k, _, rfl⟩ := hx
    exact hc k
  · intro _ i j; simp only [hasEdgeRaw]; rw [nb_new]; simp [G.new, AMap.get?]
  · intro _; rfl
  · intro i j; rw [nb_new, nb_new]; simp

/-! ## resize -/
theorem cnt_resize (g : G L) (n k : Nat) : (g.resize n).1.cnt k = g.cnt k := by
  simp only [cnt]; rw [nb_resize]

theorem uinv_resize (g : G L) (n : Nat) (h : UInv g) : UInv (g.resize n).1 := by
  by_cases hn : n < g.size
  · simp only [resize, hn, if_true]; exact h
  · have hle : g.size ≤ n := by omega
    have hsz : (g.resize n).1.size = n := by simp [resize, hn]
    refine ⟨⟨?_, ?_, ?_, ?_, ?_, ?_⟩, ?_⟩
    · simp [resize, hn, h.base.len]; omega
    · intro i; rw [nb_resize]; exact h.base.nodup i
    · intro i j hj; rw [nb_resize] at hj; rw [hsz]; have := h.base.bound i j hj; omega
    · have h1 : (g.resize n).1.edgeNumber = g.edgeNumber := by simp [resize, hn]
      rw [h1, h.base.count]
      simp only [uCount, hsz]
      have hc : (g.resize n).1.cnt = g.cnt := funext (cnt_resize g n)
      show ((List.range g.size).map g.cnt).sum = ((List.range n).map (g.resize n).1.cnt).sum
      rw [hc]
      -- vertices beyond the old size have empty lists
      have : n = g.size + (n - g.size) := by omega
      rw [this, List.range_add, List.map_append, List.sum_append]
      have hz : ((List.map (fun x => g.size + x) (List.range (n - g.size))).map g.cnt).sum = 0 := by
        apply sum_eq_zero_of_forall _
        intro x hx
        simp only [List.mem_map, List.mem_range] at hx
        obtain ⟨y, ⟨z, _, rfl⟩, rfl⟩ := hx
        simp [cnt, h.base.nb_of_ge (g.size + z) (by omega)]
      rw [hz]; simp
    · intro hl i j
      have hl' : g.labelled = true := by simpa [resize, hn] using hl
      have := h.base.lab hl' i j
      simp only [hasEdgeRaw] at this ⊢
      rw [nb_resize]
      simpa [resize, hn] using this
    · intro hl
      have hl' : g.labelled = false := by simpa [resize, hn] using hl
      simpa [resize, hn] using h.base.nolab hl'
    · intro i j; rw [nb_resize, nb_resize]; exact h.sym i j

/-! ## addEdge (unforced) -/

theorem uAddEdge_oor (g : G L) (i j : Nat) (l : L) (f : Bool) (h : ¬ (i < g.size ∧ j < g.size)) :
    g.uAddEdge i j l f = (g, .threw .oor) := by
  unfold uAddEdge
  have : (g.inR i && g.inR j) = false := by
    simp only [inR, Bool.and_eq_false_iff, decide_eq_false_iff_not]
    by_cases hi : i < g.size
    · right; exact fun hj => h ⟨hi, hj⟩
    · left; exact hi
  simp [this]

theorem uAddEdge_present (g : G L) (i j : Nat) (l : L) (hi : i < g.size) (hj : j < g.size)
    (he : g.uHasEdgeRaw i j = true) : g.uAddEdge i j l false = (g, .ok ()) := by
  simp [uAddEdge, inR, hi, hj, he]

/-- state after a successful insertion of an absent pair -/
def uAdded (g : G L) (i j : Nat) (l : L) : G L :=
  ((((if i ≠ j then g.push i j else g).push j i).setLab (ordered i j) l).withEN (g.edgeNumber + 1))

theorem uAddEdge_absent (g : G L) (i j : Nat) (l : L) (hi : i < g.size) (hj : j < g.size)
    (he : g.uHasEdgeRaw i j = false) : g.uAddEdge i j l false = (g.uAdded i j l, .ok ()) := by
  simp [uAddEdge, inR, hi, hj, he, uAdded]

theorem nb_uAdded (g : G L) (i j k : Nat) (l : L) (hi : i < g.adj.length) (hj : j < g.adj.length) :
    (g.uAdded i j l).nb k =
      if k = i ∧ k = j then g.nb k ++ [i]
      else if k = i then g.nb k ++ [j]
      else if k = j then g.nb k ++ [i]
      else g.nb k := by
  simp only [uAdded, withEN_nb, setLab_nb]
  by_cases hij : i = j
  · subst hij
    simp only [ne_eq, not_true_eq_false, if_false]
    rw [nb_push g i i k hi]
    by_cases hk : i = k
    · subst hk; simp
    · have : ¬ k = i := fun e => hk e.symm
      simp [hk, this]
  · simp only [ne_eq, hij, not_false_eq_true, if_true]
    have hj' : j < (g.push i j).adj.length := by simpa [push] using hj
    rw [nb_push (g.push i j) j i k hj', nb_push g i j k hi]
    by_cases hki : k = i
    · subst hki
      have : ¬ j = k := fun e => hij e.symm
      simp [this, hij]
    · by_cases hkj : k = j
      · subst hkj
        have : ¬ i = k := fun e => hki e.symm
        simp [this, hki]
      · have h1 : ¬ i = k := fun e => hki e.symm
        have h2 : ¬ j = k := fun e => hkj e.symm
        simp [h1, h2, hki, hkj]

theorem mem_nb_uAdded (g : G L) (i j a b : Nat) (l : L) (hi : i < g.adj.length) (hj : j < g.adj.length) :
    b ∈ (g.uAdded i j l).nb a ↔ (b ∈ g.nb a ∨ (a = i ∧ b = j) ∨ (a = j ∧ b = i)) := by
  rw [nb_uAdded g i j a l hi hj]
  by_cases hai : a = i <;> by_cases haj : a = j
  · subst hai; subst haj; simp
  · subst hai; simp [haj]
  · subst haj; simp [hai]
  · simp [hai, haj]

theorem cnt_uAdded (g : G L) (i j k : Nat) (l : L) (hi : i < g.adj.length) (hj : j < g.adj.length) :
    (g.uAdded i j l).cnt k =
      g.cnt k + (if (k = i ∧ i ≤ j) ∨ (k = j ∧ j < i) then 1 else 0) := by
  simp only [cnt]
  rw [nb_uAdded g i j k l hi hj]
  by_cases hki : k = i
  · subst hki
    by_cases hkj : k = j
    · subst hkj
      simp only [and_self, if_true]
      rw [length_filter_append_singleton]; simp
    · simp only [hkj, and_false, if_false, if_true, false_and, or_false, true_and]
      rw [length_filter_append_singleton]
      by_cases hle : k ≤ j <;> simp [hle]
  · by_cases hkj : k = j
    · subst hkj
      simp only [hki, false_and, if_false, if_true, false_or, true_and]
      rw [length_filter_append_singleton]
      by_cases hle : k < i
      · have : k ≤ i := by omega
        simp [hle, this]
      · have : ¬ k ≤ i := by omega
        simp [hle, this]
    · simp [hki, hkj]

theorem uCount_uAdded (g : G L) (i j : Nat) (l : L) (hi : i < g.size) (hj : j < g.size) (hl : g.adj.length = g.size) :
    (g.uAdded i j l).uCount = g.uCount + 1 := by
  have hil : i < g.adj.length := by omega
  have hjl : j < g.adj.length := by omega
  have hsz : (g.uAdded i j l).size = g.size := by
    simp only [uAdded, withEN_size, setLab_size]
    by_cases hij : i = j <;> simp [hij]
  simp only [uCount, hsz]
  -- the vertex whose count goes up by one
  by_cases hle : i ≤ j
  · have := sum_map_range_change g.size i g.cnt (g.uAdded i j l).cnt hi (by
      intro k hk
      rw [cnt_uAdded g i j k l hil hjl]
      have : ¬ ((k = i ∧ i ≤ j) ∨ (k = j ∧ j < i)) := by
        rintro (⟨h, _⟩ | ⟨_, h⟩); exact hk h; omega
      simp [this])
    rw [cnt_uAdded g i j i l hil hjl] at this
    simp only [hle, and_self, true_or, if_true] at this
    omega
  · have hlt : j < i := by omega
    have := sum_map_range_change g.size j g.cnt (g.uAdded i j l).cnt hj (by
      intro k hk
      rw [cnt_uAdded g i j k l hil hjl]
      have : ¬ ((k = i ∧ i ≤ j) ∨ (k = j ∧ j < i)) := by
        rintro (⟨_, h⟩ | ⟨h, _⟩); exact hle h; exact hk h
      simp [this])
    rw [cnt_uAdded g i j j l hil hjl] at this
    have hc : (j = i ∧ i ≤ j) ∨ (j = j ∧ j < i) := Or.inr ⟨rfl, hlt⟩
    rw [if_pos hc] at this
    omega

theorem uinv_uAddEdge (g : G L) (h : UInv g) (i j : Nat) (l : L) : UInv (g.uAddEdge i j l false).1 := by
  by_cases hr : i < g.size ∧ j < g.size
  · obtain ⟨hi, hj⟩ := hr
    by_cases he : g.uHasEdgeRaw i j = true
    · rw [uAddEdge_present g i j l hi hj he]; exact h
    · have he : g.uHasEdgeRaw i j = false := by simpa using he
      rw [uAddEdge_absent g i j l hi hj he]
      have hil : i < g.adj.length := by rw [h.base.len]; exact hi
      have hjl : j < g.adj.length := by rw [h.base.len]; exact hj
      have hraw : g.hasEdgeRaw i j = false := by rw [← h.uHasEdgeRaw_eq]; exact he
      have hnij : j ∉ g.nb i := by rw [mem_nb_iff]; simp [hraw]
      have hnji : i ∉ g.nb j := fun hm => hnij ((h.sym i j).2 hm)
      have hsz : (g.uAdded i j l).size = g.size := by
        simp only [uAdded, withEN_size, setLab_size]
        by_cases hij : i = j <;> simp [hij]
      have hlbl : (g.uAdded i j l).labelled = g.labelled := by
        simp only [uAdded, withEN_labelled, setLab_labelled]
        by_cases hij : i = j <;> simp [hij]
      refine ⟨⟨?_, ?_, ?_, ?_, ?_, ?_⟩, ?_⟩
      · simp only [uAdded, withEN_adj, setLab_adj]
        by_cases hij : i = j <;> simp [hij, push, h.base.len]
      · intro k
        rw [nb_uAdded g i j k l hil hjl]
        by_cases hki : k = i
        · subst hki
          by_cases hkj : k = j
          · subst hkj
            simp only [and_self, if_true]
            exact List.nodup_append.2 ⟨h.base.nodup k, by simp, by
              intro a ha b hb; simp at hb; subst hb; intro e; subst e; exact hnij ha⟩
          · simp only [hkj, and_false, if_false, if_true]
            exact List.nodup_append.2 ⟨h.base.nodup k, by simp, by
              intro a ha b hb; simp at hb; subst hb; intro e; subst e; exact hnij ha⟩
        · by_cases hkj : k = j
          · subst hkj
            simp only [hki, false_and, if_false, if_true]
            exact List.nodup_append.2 ⟨h.base.nodup k, by simp, by
              intro a ha b hb; simp at hb; subst hb; intro e; subst e; exact hnji ha⟩
          · simp only [hki, hkj, false_and, if_false]; exact h.base.nodup k
      · intro a b hb
        rw [mem_nb_uAdded g i j a b l hil hjl] at hb
        rw [hsz]
        rcases hb with hb | ⟨_, rfl⟩ | ⟨_, rfl⟩
        · exact h.base.bound a b hb
        · exact hj
        · exact hi
      · have hen : (g.uAdded i j l).edgeNumber = g.edgeNumber + 1 := by simp [uAdded]
        rw [hen, uCount_uAdded g i j l hi hj h.base.len, h.base.count]
      · intro hl a b
        have hl' : g.labelled = true := by rw [← hlbl]; exact hl
        have hlabels : (g.uAdded i j l).labels = g.labels.insert (ordered i j) l := by
          simp only [uAdded, withEN_labels]
          rw [setLab_labels_true _ _ _ (by by_cases hij : i = j <;> simp [hij, hl'])]
          by_cases hij : i = j <;> simp [hij]
        rw [hlabels, AMap.get?_insert]
        have hmem : (g.uAdded i j l).hasEdgeRaw a b = (g.hasEdgeRaw a b || ((a == i && b == j) || (a == j && b == i))) := by
          rw [Bool.eq_iff_iff]
          simp only [← mem_nb_iff, Bool.or_eq_true, Bool.and_eq_true, beq_iff_eq]
          exact mem_nb_uAdded g i j a b l hil hjl
        rw [hmem]
        by_cases hab : (a, b) = ordered i j
        · simp only [hab, if_true, Option.isSome_some]
          have hle := ordered_fst_le i j
          rw [← hab] at hle
          have hcase : (a = i ∧ b = j) ∨ (a = j ∧ b = i) := by
            unfold ordered at hab
            by_cases hij : i < j
            · simp only [hij, if_true, Prod.mk.injEq] at hab; exact Or.inl hab
            · simp only [hij, if_false, Prod.mk.injEq] at hab; exact Or.inr hab
          have : ((a == i && b == j) || (a == j && b == i)) = true := by
            rcases hcase with ⟨rfl, rfl⟩ | ⟨rfl, rfl⟩ <;> simp
          simp at hle
          simp [this, hle]
        · simp only [hab, if_false]
          rw [h.base.lab hl' a b]
          by_cases hle : a ≤ b
          · simp only [hle, decide_true, Bool.true_and]
            -- (a,b) is not the new ordered pair, and a ≤ b, so it is not the new pair in any orientation
            have : ((a == i && b == j) || (a == j && b == i)) = false := by
              rw [Bool.eq_false_iff]
              intro hh
              simp only [Bool.or_eq_true, Bool.and_eq_true, beq_iff_eq] at hh
              apply hab
              rcases hh with ⟨rfl, rfl⟩ | ⟨rfl, rfl⟩
              · exact (ordered_of_le hle).symm
              · rw [ordered_comm]; exact (ordered_of_le hle).symm
            simp [this]
          · simp [hle]
      · intro hl
        have hl' : g.labelled = false := by rw [← hlbl]; exact hl
        simp only [uAdded, withEN_labels]
        rw [setLab_labels_false _ _ _ (by by_cases hij : i = j <;> simp [hij, hl'])]
        by_cases hij : i = j <;> simpa [hij] using h.base.nolab hl'
      · intro a b
        rw [mem_nb_uAdded g i j a b l hil hjl, mem_nb_uAdded g i j b a l hil hjl, h.sym a b]
        constructor
        · rintro (h1 | ⟨h1, h2⟩ | ⟨h1, h2⟩)
          · exact Or.inl h1
          · exact Or.inr (Or.inr ⟨h2, h1⟩)
          · exact Or.inr (Or.inl ⟨h2, h1⟩)
        · rintro (h1 | ⟨h1, h2⟩ | ⟨h1, h2⟩)
          · exact Or.inl h1
          · exact Or.inr (Or.inr ⟨h2, h1⟩)
          · exact Or.inr (Or.inl ⟨h2, h1⟩)
  · rw [uAddEdge_oor g i j l false hr]; exact h

end G
end BGV
