import BGV.Proofs.Ctor
import BGV.Model.Multi
import BGV.Model.Weighted
/-!
# BGV.Proofs.CtorGen — the edge-list constructors of the derived classes

The argument of `Proofs/Ctor.lean`, abstracted over the state type: a class given by its size,
its `resize`-to-at-least (`grow`) and its unforced insertion, where insertion commutes with `grow`.
The constructor loop (`resize(max+1)` on demand, then insert) then ends in *literally* the state
obtained by creating `1 + largest index` vertices first and inserting the entries one at a time.
Instances: the four multigraph / weighted classes.
-/
set_option linter.unusedSectionVars false
namespace BGV

structure CSys (S V : Type) where
  size : S → Nat
  wf : S → Prop
  grow : S → Nat → S
  add : S → Nat → Nat → V → S × Res Unit

namespace CSys
variable {S V : Type} [Inhabited V] (Y : CSys S V)

structure OK : Prop where
  grow_self : ∀ h, Y.wf h → Y.grow h (Y.size h) = h
  grow_grow : ∀ h n m, Y.wf h → Y.size h ≤ n → n ≤ m → Y.grow (Y.grow h n) m = Y.grow h m
  grow_size : ∀ h n, Y.size h ≤ n → Y.size (Y.grow h n) = n
  grow_wf : ∀ h n, Y.wf h → Y.size h ≤ n → Y.wf (Y.grow h n)
  add_ok : ∀ h i j v, i < Y.size h → j < Y.size h → (Y.add h i j v).2 = .ok ()
  add_size : ∀ h i j v, Y.size (Y.add h i j v).1 = Y.size h
  add_wf : ∀ h i j v, Y.wf h → Y.wf (Y.add h i j v).1
  comm : ∀ h i j v n, Y.wf h → i < Y.size h → j < Y.size h → Y.size h ≤ n →
    (Y.add (Y.grow h n) i j v).1 = Y.grow (Y.add h i j v).1 n

/-- one iteration of the constructor loop -/
def step (r : Res S) (e : Nat × Nat × V) : Res S :=
  r.bind (fun h =>
    let mx := max e.1 e.2.1
    let h1 := if mx ≥ Y.size h then Y.grow h (mx + 1) else h
    match Y.add h1 e.1 e.2.1 e.2.2 with
    | (h2, .ok _) => .ok h2
    | (_, .threw x) => .threw x
    | (_, .ub) => .ub)

def addOnly (h : S) (es : List (Nat × Nat × V)) : S :=
  es.foldl (fun h e => (Y.add h e.1 e.2.1 e.2.2).1) h

theorem fold (ok : Y.OK) (es : List (Nat × Nat × V)) (h : S) (hw : Y.wf h) (n : Nat)
    (hn : G.vcountFrom (Y.size h) es ≤ n) :
    ∃ h', es.foldl Y.step (.ok h) = .ok h' ∧ Y.wf h' ∧
      Y.size h' = G.vcountFrom (Y.size h) es ∧ Y.grow h' n = Y.addOnly (Y.grow h n) es := by
  induction es generalizing h with
  | nil => exact ⟨h, rfl, hw, rfl, rfl⟩
  | cons e es ih =>
    obtain ⟨i, j, l⟩ := e
    simp only [List.foldl_cons, G.vcountFrom] at hn ⊢
    let k := max (Y.size h) (max i j + 1)
    have hk : Y.size h ≤ k := Nat.le_max_left _ _
    have hik : i < k := by simp only [k]; omega
    have hjk : j < k := by simp only [k]; omega
    have hsel : (if max i j ≥ Y.size h then Y.grow h (max i j + 1) else h) = Y.grow h k := by
      by_cases hc : max i j ≥ Y.size h
      · have hk' : k = max i j + 1 := by simp only [k]; omega
        simp only [hc, if_true, hk']
      · have hk' : k = Y.size h := by simp only [k]; omega
        simp only [hc, if_false, hk', ok.grow_self h hw]
    have hsz1 : Y.size (Y.grow h k) = k := ok.grow_size h k hk
    have hw1 : Y.wf (Y.grow h k) := ok.grow_wf h k hw hk
    have hok := ok.add_ok (Y.grow h k) i j l (by rw [hsz1]; exact hik) (by rw [hsz1]; exact hjk)
    have hstep : Y.step (.ok h) (i, j, l) = .ok (Y.add (Y.grow h k) i j l).1 := by
      simp only [step, Res.bind]
      rw [hsel]
      cases hr : Y.add (Y.grow h k) i j l with
      | mk h2 r2 =>
        rw [hr] at hok
        simp only at hok
        subst hok
        rfl
    rw [hstep]
    have hsz2 : Y.size (Y.add (Y.grow h k) i j l).1 = k := by rw [ok.add_size, hsz1]
    have hw2 : Y.wf (Y.add (Y.grow h k) i j l).1 := ok.add_wf _ _ _ _ hw1
    have hvc : G.vcountFrom (max (Y.size h) (max i j + 1)) es = G.vcountFrom k es := rfl
    have hkn : k ≤ n := Nat.le_trans (G.vcountFrom_ge k es) (by rw [← hvc]; exact hn)
    obtain ⟨h', e1, e2, e3, e4⟩ := ih (Y.add (Y.grow h k) i j l).1 hw2 (by rw [hsz2]; exact hn)
    refine ⟨h', e1, e2, by rw [e3, hsz2]; rfl, ?_⟩
    rw [e4]
    simp only [addOnly, List.foldl_cons]
    congr 1
    rw [← ok.comm (Y.grow h k) i j l n hw1 (by rw [hsz1]; exact hik) (by rw [hsz1]; exact hjk) (by rw [hsz1]; exact hkn),
      ok.grow_grow h k n hw hk hkn]

/-- **the constructor theorem, generic in the class** -/
theorem ctor_eq (ok : Y.OK) (es : List (Nat × Nat × V)) (h0 : S) (hw : Y.wf h0) (hs : Y.size h0 = 0) :
    es.foldl Y.step (.ok h0) = .ok (Y.addOnly (Y.grow h0 (G.vcount es)) es) := by
  obtain ⟨h', e1, e2, e3, e4⟩ := Y.fold ok es h0 hw (G.vcount es) (by rw [hs]; exact Nat.le_refl _)
  rw [e1]
  congr 1
  have hs' : Y.size h' = G.vcount es := by rw [e3, hs]; rfl
  rw [← hs', ok.grow_self h' e2] at e4
  rw [e4, hs']

end CSys

/-! ## forced / unforced base insertions commute with `grow` -/
namespace G
variable {L : Type} [Inhabited L]

theorem dAddEdge_grow (h : G L) (i j : Nat) (l : L) (f : Bool) (n : Nat) (hl : h.adj.length = h.size)
    (hi : i < h.size) (hj : j < h.size) (hn : h.size ≤ n) :
    ((h.grow n).dAddEdge i j l f).1 = (h.dAddEdge i j l f).1.grow n := by
  have hr : (h.inR i && h.inR j) = true := by simp [inR, hi, hj]
  have hr' : ((h.grow n).inR i && (h.grow n).inR j) = true := by
    simp [inR, grow_size h n hn]; omega
  simp only [dAddEdge, hr, hr', Bool.not_true, Bool.false_eq_true, if_false, hasEdgeRaw_grow]
  split
  · have hen : (h.grow n).edgeNumber = h.edgeNumber := by rw [grow_eq h n hn]
    rw [hen, push_grow h hl i j n hi hn, withEN_grow _ _ _ (by simpa using hn), setLab_grow _ _ _ _ (by simpa using hn)]
  · rfl

theorem uAddEdge_grow (h : G L) (i j : Nat) (l : L) (f : Bool) (n : Nat) (hl : h.adj.length = h.size)
    (hi : i < h.size) (hj : j < h.size) (hn : h.size ≤ n) :
    ((h.grow n).uAddEdge i j l f).1 = (h.uAddEdge i j l f).1.grow n := by
  have hr : (h.inR i && h.inR j) = true := by simp [inR, hi, hj]
  have hr' : ((h.grow n).inR i && (h.grow n).inR j) = true := by
    simp [inR, grow_size h n hn]; omega
  have hu : (h.grow n).uHasEdgeRaw i j = h.uHasEdgeRaw i j := by simp only [uHasEdgeRaw, hasEdgeRaw_grow]
  simp only [uAddEdge, hr, hr', Bool.not_true, Bool.false_eq_true, if_false, hu]
  split
  · have hen : (h.grow n).edgeNumber = h.edgeNumber := by rw [grow_eq h n hn]
    rw [hen]
    by_cases hij : i = j
    · subst hij
      simp only [ne_eq, not_true_eq_false, if_false]
      rw [push_grow h hl i i n hi hn, setLab_grow _ _ _ _ (by simpa using hn), withEN_grow _ _ _ (by simpa using hn)]
    · simp only [ne_eq, hij, not_false_eq_true, if_true]
      rw [push_grow h hl i j n hi hn, push_grow (h.push i j) (by simp [push, withAdj, hl]) j i n (by simpa using hj) (by simpa using hn),
        setLab_grow _ _ _ _ (by simpa using hn), withEN_grow _ _ _ (by simpa using hn)]
  · rfl

theorem withLabels_grow (h : G L) (m : AMap L) (n : Nat) (hn : h.size ≤ n) :
    (h.grow n).withLabels m = (h.withLabels m).grow n := by
  rw [grow_eq h n hn, grow_eq (h.withLabels m) n (by simpa using hn)]; rfl

theorem labels_grow (h : G L) (n : Nat) (hn : h.size ≤ n) : (h.grow n).labels = h.labels := by
  rw [grow_eq h n hn]

theorem dAddEdge_len (h : G L) (i j : Nat) (l : L) (f : Bool) (hl : h.adj.length = h.size) :
    (h.dAddEdge i j l f).1.adj.length = (h.dAddEdge i j l f).1.size := by
  simp only [dAddEdge]
  split
  · exact hl
  · split
    · simp [push, hl]
    · exact hl

theorem uAddEdge_len (h : G L) (i j : Nat) (l : L) (f : Bool) (hl : h.adj.length = h.size) :
    (h.uAddEdge i j l f).1.adj.length = (h.uAddEdge i j l f).1.size := by
  simp only [uAddEdge]
  split
  · exact hl
  · split
    · simp only [withEN_adj, setLab_adj, push, withAdj_adj, List.length_modify, withEN_size, setLab_size]
      split <;> simp [hl, withAdj]
    · exact hl

theorem uAddEdge_size_any (h : G L) (i j : Nat) (l : L) (f : Bool) : (h.uAddEdge i j l f).1.size = h.size := by
  simp only [uAddEdge]
  split
  · rfl
  · split
    · simp only [withEN_size, setLab_size, push_size]; split <;> rfl
    · rfl

end G
end BGV
