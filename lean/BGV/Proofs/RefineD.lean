import BGV.Proofs.Directed
import BGV.Spec.AGraph
/-!
# BGV.Proofs.RefineD — the directed model refines the abstract graph, one call at a time.
-/
set_option linter.unusedSectionVars false
namespace BGV
namespace G
variable {L : Type} [Inhabited L]

/-- abstraction: the graph a directed model state stands for -/
def absD (g : G L) : AG L :=
  ⟨g.size, fun i j => if g.hasEdgeRaw i j then some (g.labD (i, j)) else none⟩

/-- the model's transition for a public directed mutator called with `force = false` -/
def dStep (g : G L) : SOp L → G L × Res Unit
  | .addEdge i j l => g.dAddEdge i j l false
  | .addReciprocalEdge i j l => g.dAddReciprocalEdge i j l false
  | .removeEdge i j => g.dRemoveEdge i j
  | .removeSelfLoops => (g.dRemoveSelfLoops, .ok ())
  | .removeVertexFromEdgeList v => g.dRemoveVertex v
  | .clearEdges => (g.clearEdges, .ok ())
  | .resize m => g.resize m
  | .setEdgeLabel i j l => g.dSetEdgeLabel i j l false

def dRun (g : G L) (ops : List (SOp L)) : G L := ops.foldl (fun g op => (g.dStep op).1) g

theorem labD_eq (g : G L) (e : Edge) :
    g.labD e = if g.labelled then (g.labels.get? e).getD default else default := rfl

/-! ### addEdge -/
theorem absD_dAddEdge (g : G L) (h : Inv g) (i j : Nat) (l : L) (hi : i < g.size) (hj : j < g.size) :
    absD (g.dAddEdge i j l false).1 = (absD g).add i j (if g.labelled then l else default) := by
  apply AG.ext'
  · simp [absD, AG.add, dAddEdge_size]
  · intro x y
    simp only [absD, AG.add]
    rw [hasEdgeRaw_dAddEdge g h i j x y l hi hj]
    by_cases hxy : x = i ∧ y = j
    · obtain ⟨rfl, rfl⟩ := hxy
      by_cases he : g.hasEdgeRaw x y = true
      · rw [dAddEdge_present g x y l hi hj he]
        simp [he]
      · have he : g.hasEdgeRaw x y = false := by simpa using he
        simp only [he, beq_self_eq_true, Bool.and_self, Bool.or_true, if_true, Bool.false_eq_true, if_false,
          Option.isSome_none, and_self]
        rw [labD_eq, dAddEdge_labelled]
        by_cases hl : g.labelled = true
        · simp only [hl, if_true]
          rw [labels_dAddEdge g x y l hi hj hl]; simp [he]
        · have hl : g.labelled = false := by simpa using hl
          simp [hl]
    · have hb : (x == i && y == j) = false := by
        simp only [Bool.and_eq_false_iff, beq_eq_false_iff_ne]
        by_cases hx : x = i
        · right; exact fun hy => hxy ⟨hx, hy⟩
        · left; exact hx
      have hne : ¬ (x = i ∧ y = j ∧ (if g.hasEdgeRaw i j = true then some (g.labD (i, j)) else none).isSome = false) :=
        fun hh => hxy ⟨hh.1, hh.2.1⟩
      simp only [hb, Bool.or_false, hne, if_false]
      by_cases hxe : g.hasEdgeRaw x y = true
      · simp only [hxe, if_true]
        congr 1
        rw [labD_eq, labD_eq, dAddEdge_labelled]
        by_cases hl : g.labelled = true
        · simp only [hl, if_true]
          rw [labels_dAddEdge g i j l hi hj hl]
          rw [if_neg (by intro hh; apply hxy; simpa using hh.2)]
        · have hl : g.labelled = false := by simpa using hl
          simp [hl]
      · simp [hxe]

/-! ### removeEdge -/
theorem labD_dRemoveEdgeCore (g : G L) (i j : Nat) (e : Edge) (hne : e ≠ (i, j)) :
    (g.dRemoveEdgeCore i j).labD e = g.labD e := by
  rw [labD_eq, labD_eq, dRemoveEdgeCore_labelled, labels_dRemoveEdgeCore]
  simp [hne]

theorem absD_dRemoveEdgeCore (g : G L) (i j : Nat) :
    absD (g.dRemoveEdgeCore i j) = (absD g).remove i j := by
  apply AG.ext'
  · simp [absD, AG.remove]
  · intro x y
    simp only [absD, AG.remove]
    rw [hasEdgeRaw_dRemoveEdgeCore]
    by_cases hxy : x = i ∧ y = j
    · obtain ⟨rfl, rfl⟩ := hxy; simp
    · have hb : (x == i && y == j) = false := by
        simp only [Bool.and_eq_false_iff, beq_eq_false_iff_ne]
        by_cases hx : x = i
        · right; exact fun hy => hxy ⟨hx, hy⟩
        · left; exact hx
      have hne : (x, y) ≠ (i, j) := by intro hh; apply hxy; simpa using hh
      simp only [hb, Bool.not_false, Bool.and_true, hxy, if_false]
      rw [labD_dRemoveEdgeCore g i j (x, y) hne]

/-! ### folds of removeEdge -/
theorem foldl_removeCore_labD (f : Nat → Nat × Nat) (is : List Nat) (g : G L) (e : Edge)
    (hne : is.any (fun i => f i == e) = false) :
    (is.foldl (fun g i => g.dRemoveEdgeCore (f i).1 (f i).2) g).labD e = g.labD e := by
  rw [labD_eq, labD_eq, foldl_removeCore_labelled, foldl_removeCore_labels]
  simp [hne]

theorem absD_dRemoveSelfLoops (g : G L) (h : Inv g) :
    absD g.dRemoveSelfLoops = ⟨g.size, fun x y => if x = y then none else (absD g).lab x y⟩ := by
  apply AG.ext'
  · show g.dRemoveSelfLoops.size = g.size
    rw [dRemoveSelfLoops_eq]; exact foldl_removeCore_size _ _ _
  · intro x y
    simp only [absD]
    rw [hasEdgeRaw_dRemoveSelfLoops g h]
    by_cases hxy : x = y
    · subst hxy; simp
    · have hb : (x == y) = false := by simpa using hxy
      simp only [hb, Bool.not_false, Bool.and_true, hxy, if_false]
      by_cases hxe : g.hasEdgeRaw x y = true
      · simp only [hxe, if_true]
        congr 1
        rw [dRemoveSelfLoops_eq]
        apply foldl_removeCore_labD
        simp only [List.any_eq_false, List.mem_range, beq_iff_eq, Prod.mk.injEq, not_and]
        intro k _ hk1 hk2; exact hxy (hk1.symm.trans hk2)
      · simp [hxe]

theorem labD_dropVertexOut (g : G L) (v : Nat) (e : Edge) (hne : e.1 ≠ v) :
    (g.dropVertexOut v).labD e = g.labD e := by
  rw [labD_eq, labD_eq]
  show (if g.labelled then (AMap.get? ((g.nb v).foldl (fun m j => AMap.erase m (v, j)) g.labels) e).getD default else default) = _
  rw [AMap.get?_foldl_erase]
  simp [hne]

theorem absD_dRemoveVertex (g : G L) (h : Inv g) (v : Nat) (hv : v < g.size) :
    absD (g.dRemoveVertex v).1 = ⟨g.size, fun x y => if x = v ∨ y = v then none else (absD g).lab x y⟩ := by
  apply AG.ext'
  · show (g.dRemoveVertex v).1.size = g.size
    rw [dRemoveVertex_eq g v hv, foldl_removeCore_size]; rfl
  · intro x y
    simp only [absD]
    rw [hasEdgeRaw_dRemoveVertex g h v hv]
    by_cases hxv : x = v
    · subst hxv; simp
    · by_cases hyv : y = v
      · subst hyv; simp
      · have hb1 : (x == v) = false := by simpa using hxv
        have hb2 : (y == v) = false := by simpa using hyv
        have hor : ¬ (x = v ∨ y = v) := by rintro (h1 | h1) <;> contradiction
        simp only [hb1, hb2, Bool.not_false, Bool.and_true, hor, if_false]
        by_cases hxe : g.hasEdgeRaw x y = true
        · simp only [hxe, if_true]
          congr 1
          rw [dRemoveVertex_eq g v hv, foldl_removeCore_labD, labD_dropVertexOut g v (x, y) hxv]
          simp only [List.any_eq_false, List.mem_range, beq_iff_eq, Prod.mk.injEq, not_and]
          intro k _ _ hk2; exact hyv hk2.symm
        · simp [hxe]

theorem hasEdgeRaw_clearEdges (g : G L) (x y : Nat) : g.clearEdges.hasEdgeRaw x y = false := by
  simp only [hasEdgeRaw]; rw [nb_clearEdges]; rfl

theorem absD_clearEdges (g : G L) : absD g.clearEdges = ⟨g.size, fun _ _ => none⟩ := by
  apply AG.ext'
  · rfl
  · intro x y
    simp [absD, hasEdgeRaw_clearEdges]

theorem hasEdgeRaw_resize (g : G L) (m x y : Nat) : (g.resize m).1.hasEdgeRaw x y = g.hasEdgeRaw x y := by
  simp only [hasEdgeRaw]; rw [nb_resize]

theorem absD_resize (g : G L) (m : Nat) (hm : g.size ≤ m) : absD (g.resize m).1 = ⟨m, (absD g).lab⟩ := by
  have hlt : ¬ m < g.size := by omega
  apply AG.ext'
  · simp [absD, resize, hlt]
  · intro x y
    simp only [absD, hasEdgeRaw_resize]
    have : (g.resize m).1.labD (x, y) = g.labD (x, y) := by simp [resize, hlt, labD_eq]
    rw [this]

theorem absD_dSetEdgeLabel (g : G L) (i j : Nat) (l : L) (hi : i < g.size) (hj : j < g.size) :
    absD (g.dSetEdgeLabel i j l false).1 =
      ⟨g.size, fun x y => if x = i ∧ y = j ∧ ((absD g).lab i j).isSome = true
        then some (if g.labelled then l else default) else (absD g).lab x y⟩ := by
  unfold dSetEdgeLabel
  have hr : (g.inR i && g.inR j) = true := by simp [inR, hi, hj]
  simp only [hr, Bool.not_true, Bool.false_eq_true, if_false, Bool.not_false, Bool.true_and]
  by_cases he : g.hasEdgeRaw i j = true
  · simp only [he, Bool.not_true, Bool.false_eq_true, if_false]
    apply AG.ext'
    · simp [absD]
    · intro x y
      simp only [absD, setLab_hasEdgeRaw, he, if_true, Option.isSome_some, and_true]
      by_cases hxy : x = i ∧ y = j
      · obtain ⟨rfl, rfl⟩ := hxy
        simp only [he, if_true, and_self]
        congr 1
        rw [labD_eq, setLab_labelled]
        by_cases hl : g.labelled = true
        · simp [hl, setLab_labels_true _ _ _ hl, AMap.get?_insert]
        · have hl : g.labelled = false := by simpa using hl
          simp [hl]
      · simp only [hxy, if_false]
        by_cases hxe : g.hasEdgeRaw x y = true
        · simp only [hxe, if_true]
          congr 1
          rw [labD_eq, labD_eq, setLab_labelled]
          by_cases hl : g.labelled = true
          · have hne : ¬ (x, y) = (i, j) := by intro hh; apply hxy; simpa using hh
            simp [hl, setLab_labels_true _ _ _ hl, AMap.get?_insert, hne]
          · have hl : g.labelled = false := by simpa using hl
            simp [hl]
        · simp [hxe]
  · have he : g.hasEdgeRaw i j = false := by simpa using he
    simp only [he, Bool.not_false, if_true]
    apply AG.ext'
    · rfl
    · intro x y; simp [absD, he]

/-! ### one call: invariant preserved, outcome ok, abstraction commutes -/

theorem inv_dAddReciprocalEdge (g : G L) (h : Inv g) (i j : Nat) (l : L) :
    Inv (g.dAddReciprocalEdge i j l false).1 := by
  unfold dAddReciprocalEdge
  have h1 := inv_dAddEdge g h i j l
  split
  · rename_i g1 _ heq
    have : g1 = (g.dAddEdge i j l false).1 := by rw [heq]
    subst this
    exact inv_dAddEdge _ h1 j i l
  · exact h1

theorem dAddEdge_ok (g : G L) (i j : Nat) (l : L) (f : Bool) (hi : i < g.size) (hj : j < g.size) :
    (g.dAddEdge i j l f).2 = .ok () := by
  unfold dAddEdge
  simp only [inR, hi, hj, decide_true, Bool.and_self, Bool.not_true, Bool.false_eq_true, if_false]
  split <;> rfl

theorem inv_dStep (g : G L) (h : Inv g) (op : SOp L) : Inv (g.dStep op).1 := by
  cases op with
  | addEdge i j l => exact inv_dAddEdge g h i j l
  | addReciprocalEdge i j l => exact inv_dAddReciprocalEdge g h i j l
  | removeEdge i j =>
    simp only [dStep, dRemoveEdge]; split
    · exact h
    · exact inv_dRemoveEdgeCore g h i j
  | removeSelfLoops => exact inv_dRemoveSelfLoops g h
  | removeVertexFromEdgeList v => exact inv_dRemoveVertex g h v
  | clearEdges => exact inv_clearEdges g h
  | resize m => exact inv_resize g m h
  | setEdgeLabel i j l => exact inv_dSetEdgeLabel g h i j l

theorem dStep_labelled (g : G L) (op : SOp L) : (g.dStep op).1.labelled = g.labelled := by
  cases op with
  | addEdge i j l => exact dAddEdge_labelled g i j l false
  | addReciprocalEdge i j l =>
    simp only [dStep, dAddReciprocalEdge]
    split
    · rename_i g1 _ heq
      have : g1 = (g.dAddEdge i j l false).1 := by rw [heq]
      subst this
      rw [dAddEdge_labelled, dAddEdge_labelled]
    · exact dAddEdge_labelled g i j l false
  | removeEdge i j =>
    simp only [dStep, dRemoveEdge]; split
    · rfl
    · simp
  | removeSelfLoops => simp only [dStep]; rw [dRemoveSelfLoops_eq]; exact foldl_removeCore_labelled _ _ _
  | removeVertexFromEdgeList v =>
    simp only [dStep]
    by_cases hv : v < g.size
    · rw [dRemoveVertex_eq g v hv, foldl_removeCore_labelled]; rfl
    · rw [dRemoveVertex_oor g v hv]
  | clearEdges => rfl
  | resize m => simp only [dStep, resize]; split <;> rfl
  | setEdgeLabel i j l =>
    simp only [dStep, dSetEdgeLabel]
    split
    · rfl
    · split
      · rfl
      · simp

/-- **Refinement square.** A valid call on a state satisfying the invariant denotes exactly the
abstract operation. -/
theorem absD_dStep (g : G L) (h : Inv g) (op : SOp L) (hv : op.valid g.size) :
    absD (g.dStep op).1 = AG.dStep g.labelled (absD g) op := by
  cases op with
  | addEdge i j l => exact absD_dAddEdge g h i j l hv.1 hv.2
  | addReciprocalEdge i j l =>
    obtain ⟨hi, hj⟩ := hv
    simp only [dStep, dAddReciprocalEdge, AG.dStep]
    have hok := dAddEdge_ok g i j l false hi hj
    have h1 := inv_dAddEdge g h i j l
    split
    · rename_i g1 _ heq
      have : g1 = (g.dAddEdge i j l false).1 := by rw [heq]
      subst this
      have hs := dAddEdge_size g i j l false
      rw [absD_dAddEdge _ h1 j i l (by rw [hs]; exact hj) (by rw [hs]; exact hi),
          absD_dAddEdge g h i j l hi hj, dAddEdge_labelled]
    · rename_i hne
      exfalso
      apply hne (g.dAddEdge i j l false).1 ()
      rw [← hok]
  | removeEdge i j =>
    obtain ⟨hi, hj⟩ := hv
    simp only [dStep, dRemoveEdge, AG.dStep, inR, hi, hj, decide_true, Bool.and_self, Bool.not_true,
      Bool.false_eq_true, if_false]
    exact absD_dRemoveEdgeCore g i j
  | removeSelfLoops => exact absD_dRemoveSelfLoops g h
  | removeVertexFromEdgeList v => exact absD_dRemoveVertex g h v hv
  | clearEdges => exact absD_clearEdges g
  | resize m => exact absD_resize g m hv
  | setEdgeLabel i j l => exact absD_dSetEdgeLabel g i j l hv.1 hv.2

theorem AG_dStep_n (lb : Bool) (a : AG L) (op : SOp L) : (AG.dStep lb a op).n = op.newSize a.n := by
  cases op <;> rfl

theorem dStep_size (g : G L) (h : Inv g) (op : SOp L) (hv : op.valid g.size) :
    (g.dStep op).1.size = op.newSize g.size := by
  have := congrArg AG.n (absD_dStep g h op hv)
  rw [AG_dStep_n] at this
  exact this

end G
end BGV
