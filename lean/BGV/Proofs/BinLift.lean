import BGV.Proofs.Convert2
import BGV.Props.C14
/-!
# BGV.Proofs.BinLift — from records to graphs: `loadBinaryEdgeList(writeBinaryEdgeList(g))`

The binary loader resizes on demand (source, then destination) and inserts with `force = true`.
On the records written from a graph (distinct pairs) this is the edge-list constructor.
-/
set_option linter.unusedSectionVars false
namespace BGV
namespace G
variable {L : Type} [Inhabited L]

/-- forced insertion as an `add` for the generic constructor theorem (the flag is ignored) -/
def addF (h : G L) (i j : Nat) (l : L) (_ : Bool) : G L × Res Unit := h.dAddEdge i j l true
def uAddF (h : G L) (i j : Nat) (l : L) (_ : Bool) : G L × Res Unit := h.uAddEdge i j l true

theorem addOK_addF : AddOK (addF (L := L)) := by
  refine ⟨?_, ?_, ?_, ?_⟩
  · intro h i j l hi hj; simp [addF, dAddEdge, inR, hi, hj]
  · intro h i j l; exact dAddEdge_size h i j l true
  · intro h i j l hl
    simp only [addF, dAddEdge]
    split
    · exact hl
    · simp [push, hl]
  · intro h i j l n hl hi hj hn
    have hr : (h.inR i && h.inR j) = true := by simp [inR, hi, hj]
    have hr' : ((h.grow n).inR i && (h.grow n).inR j) = true := by
      simp [inR, grow_size h n hn]; omega
    simp only [addF, dAddEdge, hr, hr', Bool.not_true, Bool.false_eq_true, if_false, Bool.true_or, if_true]
    have hen : (h.grow n).edgeNumber = h.edgeNumber := by rw [grow_eq h n hn]
    rw [hen, push_grow h hl i j n hi hn, withEN_grow _ _ _ (by simpa using hn), setLab_grow _ _ _ _ (by simpa using hn)]

theorem addOK_uAddF : AddOK (uAddF (L := L)) := by
  refine ⟨?_, ?_, ?_, ?_⟩
  · intro h i j l hi hj; simp [uAddF, uAddEdge, inR, hi, hj]
  · intro h i j l
    simp only [uAddF, uAddEdge]
    split
    · rfl
    · simp only [Bool.true_or, if_true, withEN_size, setLab_size, push_size]; split <;> rfl
  · intro h i j l hl
    simp only [uAddF, uAddEdge]
    split
    · exact hl
    · simp only [Bool.true_or, if_true, withEN_adj, setLab_adj, push, withAdj_adj, List.length_modify]
      split <;> simp [hl, withAdj]
  · intro h i j l n hl hi hj hn
    have hr : (h.inR i && h.inR j) = true := by simp [inR, hi, hj]
    have hr' : ((h.grow n).inR i && (h.grow n).inR j) = true := by
      simp [inR, grow_size h n hn]; omega
    simp only [uAddF, uAddEdge, hr, hr', Bool.not_true, Bool.false_eq_true, if_false, Bool.true_or, if_true]
    have hen : (h.grow n).edgeNumber = h.edgeNumber := by rw [grow_eq h n hn]
    rw [hen]
    by_cases hij : i = j
    · subst hij
      simp only [ne_eq, not_true_eq_false, if_false]
      rw [push_grow h hl i i n hi hn, setLab_grow _ _ _ _ (by simpa using hn), withEN_grow _ _ _ (by simpa using hn)]
    · simp only [ne_eq, hij, not_false_eq_true, if_true]
      rw [push_grow h hl i j n hi hn, push_grow (h.push i j) (by simp [push, withAdj, hl]) j i n (by simpa using hj) (by simpa using hn),
        setLab_grow _ _ _ _ (by simpa using hn), withEN_grow _ _ _ (by simpa using hn)]

/-- the loader's two successive resizes are the constructor's single one -/
theorem two_resizes (g : G L) (hl : g.adj.length = g.size) (a b : Nat) :
    (let g1 := if a ≥ g.size then (g.resize (a + 1)).1 else g
     if b ≥ g1.size then (g1.resize (b + 1)).1 else g1)
      = g.grow (max g.size (max a b + 1)) := by
  simp only
  by_cases ha : a ≥ g.size
  · simp only [ha, if_true]
    have hs1 : (g.resize (a + 1)).1.size = a + 1 := grow_size g (a + 1) (by omega)
    have hl1 : (g.resize (a + 1)).1.adj.length = (g.resize (a + 1)).1.size := by
      rw [hs1]; exact grow_len g hl (a + 1) (by omega)
    by_cases hb : b ≥ (g.resize (a + 1)).1.size
    · simp only [hb, if_true]
      rw [hs1] at hb
      have : max g.size (max a b + 1) = b + 1 := by omega
      rw [this]
      exact grow_grow g hl (a + 1) (b + 1) (by omega) (by omega)
    · simp only [hb, if_false]
      rw [hs1] at hb
      have : max g.size (max a b + 1) = a + 1 := by omega
      rw [this]; rfl
  · simp only [ha, if_false]
    by_cases hb : b ≥ g.size
    · simp only [hb, if_true]
      have : max g.size (max a b + 1) = b + 1 := by omega
      rw [this]; rfl
    · simp only [hb, if_false]
      have : max g.size (max a b + 1) = g.size := by omega
      rw [this, grow_self g hl]

theorem ctorStep_as_grow (add : G L → Nat → Nat → L → Bool → G L × Res Unit) (h : G L) (hl : h.adj.length = h.size)
    (e : Nat × Nat × L) :
    ctorStep add (.ok h) e = chain (.ok (h.grow (max h.size (max e.1 e.2.1 + 1)))) (fun h => add h e.1 e.2.1 e.2.2 false) := by
  simp only [ctorStep, chain, Res.bind]
  by_cases hc : max e.1 e.2.1 ≥ h.size
  · have hk : max h.size (max e.1 e.2.1 + 1) = max e.1 e.2.1 + 1 := by omega
    have hlt : ¬ (max e.1 e.2.1 + 1 < h.size) := by omega
    simp only [hc, if_true, hk, grow, resize, hlt, if_false]
  · have hk : max h.size (max e.1 e.2.1 + 1) = h.size := by omega
    simp only [hc, if_false, hk, grow_self h hl]

end G

namespace FIO
open G
variable {L : Type} [Inhabited L]

/-- the binary loader's step is the constructor's step with forced insertion -/
theorem loadBinStep_eq (und : Bool) (h : G L) (hl : h.adj.length = h.size) (e : Nat × Nat × L) :
    loadBinStep und (.ok h) e = ctorStep (if und then uAddF else addF) (.ok h) e := by
  rw [ctorStep_as_grow _ h hl]
  simp only [loadBinStep, Res.bind, chain]
  rw [two_resizes h hl e.1 e.2.1]
  cases und <;> rfl

theorem loadBin_fold_eq (und : Bool) (es : List (Nat × Nat × L)) (h : G L) (hl : h.adj.length = h.size) :
    es.foldl (loadBinStep und) (.ok h) = es.foldl (ctorStep (if und then uAddF else addF)) (.ok h) := by
  have ha : AddOK (if und then uAddF else addF : G L → Nat → Nat → L → Bool → G L × Res Unit) := by
    cases und
    · exact addOK_addF
    · exact addOK_uAddF
  induction es generalizing h with
  | nil => rfl
  | cons e es ih =>
    simp only [List.foldl_cons]
    rw [loadBinStep_eq und h hl e]
    obtain ⟨h', e1, e2, _, _⟩ := ctor_fold _ ha [e] h hl _ (Nat.le_refl _)
    simp only [List.foldl_cons, List.foldl_nil] at e1
    rw [e1]
    exact ih h' e2

/-- **loading a list of records** = the edge-list constructor with forced insertion:
never throws, ends with `1 + largest index` vertices -/
theorem loadBin_records (und lb : Bool) (es : List (Nat × Nat × L)) :
    es.foldl (loadBinStep und) (.ok (G.new lb 0 : G L))
      = .ok (addOnly (if und then uAddF else addF) (G.new lb (vcount es)) es) := by
  have ha : AddOK (if und then uAddF else addF : G L → Nat → Nat → L → Bool → G L × Res Unit) := by
    cases und
    · exact addOK_addF
    · exact addOK_uAddF
  rw [loadBin_fold_eq und es _ (by simp [G.new])]
  exact ofEdgeList_eq lb _ ha es

end FIO
end BGV

namespace BGV
namespace G
variable {L : Type} [Inhabited L]

theorem hasEdgeRaw_of_absU (g : G L) (a b : Nat) : g.hasEdgeRaw a b = ((absU g).lab a b).isSome := by
  simp only [absU]; split <;> simp_all

/-- forced = unforced undirected insertion when the unordered pairs are new and pairwise distinct -/
theorem uAddAllF_eq (h : G L) (hh : UInv h) (es : List (LEdge L))
    (hr : ∀ e ∈ es, e.1 < h.size ∧ e.2.1 < h.size)
    (hnd : (es.map (fun e => ordered e.1 e.2.1)).Nodup)
    (hnew : ∀ e ∈ es, h.hasEdgeRaw e.1 e.2.1 = false) :
    addOnly uAddF h es = addOnly (fun h i j l f => h.uAddEdge i j l f) h es := by
  induction es generalizing h with
  | nil => rfl
  | cons e es ih =>
    have he := hnew e (by simp)
    have hre := hr e (by simp)
    have heu : h.uHasEdgeRaw e.1 e.2.1 = false := by rw [hh.uHasEdgeRaw_eq]; exact he
    simp only [addOnly, List.foldl_cons, uAddF]
    rw [show h.uAddEdge e.1 e.2.1 e.2.2 true = h.uAddEdge e.1 e.2.1 e.2.2 false by simp [uAddEdge, heu]]
    have hs := uAddEdge_size h e.1 e.2.1 e.2.2
    simp only [List.map_cons, List.nodup_cons] at hnd
    apply ih _ (uinv_uAddEdge h hh _ _ _) (fun x hx => by rw [hs]; exact hr x (by simp [hx])) hnd.2
    intro x hx
    rw [hasEdgeRaw_of_absU, absU_uAddEdge h hh e.1 e.2.1 e.2.2 hre.1 hre.2]
    have hne : ¬ AG.samePair x.1 x.2.1 e.1 e.2.1 := by
      intro hsp
      apply hnd.1
      rw [← (ordered_eq_iff x.1 x.2.1 e.1 e.2.1).2 hsp]
      exact List.mem_map.2 ⟨x, hx, rfl⟩
    simp only [AG.uAdd, hne, false_and, if_false]
    rw [← hasEdgeRaw_of_absU]; exact hnew x (by simp [hx])

/-- the undirected graph's enumerated edges with their labels -/
def uLblEdges (g : G L) : List (LEdge L) := g.uEdges.map (fun e => (e.1, e.2, g.labD (ordered e.1 e.2)))

end G
end BGV
