import BGV.Proofs.Weighted
import BGV.Proofs.RefineU
/-!
# BGV.Proofs.WeightedU — `UndirectedWeightedGraph`: graph part = base-class call, and
`totalWeight` = sum of the stored weights (one entry per unordered pair).
-/
set_option linter.unusedSectionVars false
namespace BGV
namespace G
variable {L : Type} [Inhabited L]

/-! ### the label keys stay distinct under the undirected mutators -/

theorem keysNodup_uAddEdge (g : G L) (i j : Nat) (l : L) (f : Bool) (h : KeysNodup g) :
    KeysNodup (g.uAddEdge i j l f).1 := by
  unfold uAddEdge
  split
  · exact h
  · split
    · show KeysNodup ((_ : G L).withEN _)
      have : ∀ (g' : G L) n, KeysNodup (g'.withEN n) ↔ KeysNodup g' := fun _ _ => Iff.rfl
      rw [this]
      apply keysNodup_setLab
      show (AMap.keys ((if i ≠ j then g.push i j else g).push j i).labels).Nodup
      split <;> exact h
    · exact h

theorem keysNodup_uRemoveEdgeCore (g : G L) (i j : Nat) (h : KeysNodup g) : KeysNodup (g.uRemoveEdgeCore i j) := by
  unfold uRemoveEdgeCore
  simp only
  split
  · exact AMap.nodup_keys_erase _ _ h
  · exact h

theorem keysNodup_foldl_uRemoveCore (f : Nat → Nat × Nat) (is : List Nat) (g : G L) (h : KeysNodup g) :
    KeysNodup (is.foldl (fun g i => g.uRemoveEdgeCore (f i).1 (f i).2) g) := by
  induction is generalizing g with
  | nil => exact h
  | cons i is ih => exact ih _ (keysNodup_uRemoveEdgeCore g _ _ h)

theorem keysNodup_uRVStep (v : Nat) (g : G L) (i : Nat) (h : KeysNodup g) : KeysNodup (uRVStep v g i) :=
  keysNodup_foldl_erase i _ _ h

theorem keysNodup_foldl_uRVStep (v : Nat) (is : List Nat) (g : G L) (h : KeysNodup g) :
    KeysNodup (is.foldl (uRVStep v) g) := by
  induction is generalizing g with
  | nil => exact h
  | cons i is ih => exact ih _ (keysNodup_uRVStep v g i h)

theorem uRemoveVertex_oor (g : G L) (v : Nat) (hv : ¬ v < g.size) : g.uRemoveVertex v = (g, .threw .oor) := by
  simp [uRemoveVertex, inR, hv]

theorem keysNodup_uStepM (g : G L) (op : SOp L) (h : KeysNodup g) : KeysNodup (g.uStepM op).1 := by
  cases op with
  | addEdge i j l => exact keysNodup_uAddEdge g i j l false h
  | addReciprocalEdge i j l => exact h
  | removeEdge i j =>
    simp only [uStepM, uRemoveEdge]; split
    · exact h
    · exact keysNodup_uRemoveEdgeCore g i j h
  | removeSelfLoops => exact keysNodup_foldl_uRemoveCore (fun i => (i, i)) _ g h
  | removeVertexFromEdgeList v =>
    simp only [uStepM]
    by_cases hv : v < g.size
    · rw [uRemoveVertex_eq g v hv]; exact keysNodup_foldl_uRVStep v _ g h
    · rw [uRemoveVertex_oor g v hv]; exact h
  | clearEdges => simp [uStepM, KeysNodup, clearEdges, AMap.keys]
  | resize m => simp only [uStepM, resize]; split <;> exact h
  | setEdgeLabel i j l =>
    simp only [uStepM, uSetEdgeLabel]
    split
    · exact h
    · split
      · exact h
      · exact keysNodup_setLab _ _ _ h

theorem uAddEdge_forced_absent (g : G L) (i j : Nat) (l : L) (he : g.uHasEdgeRaw i j = false) :
    g.uAddEdge i j l true = g.uAddEdge i j l false := by
  simp [uAddEdge, he]

end G

namespace WG
open G

/-- the implementation's transition (model of `UndirectedWeightedGraph`, force off) -/
def uStep (m : WG) : WOp → WG
  | .addEdge i j w => (m.uAddEdge i j w false).1
  | .setEdgeWeight i j w => (m.uSetEdgeWeight i j w).1
  | .removeEdge i j => (m.uRemoveEdge i j).1
  | .removeSelfLoops => m.uRemoveSelfLoops
  | .removeVertexFromEdgeList v => (m.uRemoveVertex v).1
  | .clearEdges => m.clearEdges
  | .resize n => (m.resize n).1

def uRun (m : WG) (ops : List WOp) : WG := ops.foldl uStep m

def toSU (m : WG) : WOp → SOp Int
  | .addEdge i j w => .addEdge i j w
  | .setEdgeWeight i j w => if m.g.uHasEdgeRaw i j then .setEdgeLabel i j w else .addEdge i j w
  | .removeEdge i j => .removeEdge i j
  | .removeSelfLoops => .removeSelfLoops
  | .removeVertexFromEdgeList v => .removeVertexFromEdgeList v
  | .clearEdges => .clearEdges
  | .resize n => .resize n

structure WUInv (m : WG) : Prop where
  base : UInv m.g
  lbl : m.g.labelled = true
  keys : KeysNodup m.g
  tot : m.total = AMap.sumI m.g.labels

theorem wuinv_new (n : Nat) : WUInv (WG.new n) :=
  ⟨uinv_new true n, rfl, keysNodup_new true n, by simp [WG.new, G.new, AMap.sumI]⟩

/-! ### the graph part -/

theorem uAddEdge_g (m : WG) (i j : Nat) (w : Int) : (m.uAddEdge i j w false).1.g = (m.g.uAddEdge i j w false).1 := by
  unfold WG.uAddEdge
  split
  · rename_i hr; simp [G.uAddEdge, hr]
  · rename_i hr
    by_cases he : m.g.uHasEdgeRaw i j = true
    · simp [he, G.uAddEdge, hr]
    · have he : m.g.uHasEdgeRaw i j = false := by simpa using he
      simp only [he, Bool.not_false, Bool.or_true, if_true]
      rw [uAddEdge_forced_absent m.g i j w he]

theorem uRemoveEdgeCore_g (m : WG) (i j : Nat) : (m.uRemoveEdgeCore i j).g = m.g.uRemoveEdgeCore i j := by
  unfold WG.uRemoveEdgeCore G.uRemoveEdgeCore
  simp only
  split <;> rfl

theorem foldl_uRemoveCore_g (f : Nat → Nat × Nat) (is : List Nat) (m : WG) :
    (is.foldl (fun m i => m.uRemoveEdgeCore (f i).1 (f i).2) m).g
      = is.foldl (fun g i => g.uRemoveEdgeCore (f i).1 (f i).2) m.g := by
  induction is generalizing m with
  | nil => rfl
  | cons i is ih => simp only [List.foldl_cons]; rw [ih, uRemoveEdgeCore_g]

theorem dropCnt_fst (i : Nat) (js : List Nat) (lab : AMap Int) (t : Int) :
    (dropCnt i js (lab, t)).1 = js.foldl (fun m j => AMap.erase m (i, j)) lab := by
  induction js generalizing lab t with
  | nil => rfl
  | cons j js ih => simp only [dropCnt, List.foldl_cons]; exact ih _ _

theorem dropCnt_snd (i : Nat) (js : List Nat) (lab : AMap Int) (t : Int) (hle : ∀ j ∈ js, i ≤ j)
    (hk : (AMap.keys lab).Nodup) (ht : t = AMap.sumI lab) :
    (dropCnt i js (lab, t)).2 = AMap.sumI (dropCnt i js (lab, t)).1 := by
  induction js generalizing lab t with
  | nil => exact ht
  | cons j js ih =>
    simp only [dropCnt]
    apply ih _ _ (fun x hx => hle x (by simp [hx])) (AMap.nodup_keys_erase lab _ hk)
    have h1 := AMap.sumI_erase lab (i, j) hk
    rw [ordered_of_le (hle j (by simp))]
    omega

/-- one iteration of the outer loop of `removeVertexFromEdgeList` on the weighted graph -/
def uRVStepW (v : Nat) (m : WG) (i : Nat) : WG :=
  let gone := (m.g.nb i).filter (fun j => i == v || j == v)
  let cnt := gone.filter (fun j => decide (i ≤ j))
  let (lab, t) := dropCnt i cnt (m.g.labels, m.total)
  ⟨⟨true, m.g.size, m.g.adj.modify i (List.filter (fun j => !(i == v || j == v))),
    subW m.g.edgeNumber cnt.length, lab⟩, t⟩

theorem uRVStepW_g (v : Nat) (m : WG) (hl : m.g.labelled = true) (i : Nat) :
    (uRVStepW v m i).g = uRVStep v m.g i := by
  simp only [uRVStepW, uRVStep, hl]
  rw [← dropCnt_fst i _ m.g.labels m.total]

theorem uRVStepW_tot (v : Nat) (m : WG) (hk : KeysNodup m.g) (ht : m.total = AMap.sumI m.g.labels) (i : Nat) :
    (uRVStepW v m i).total = AMap.sumI (uRVStepW v m i).g.labels := by
  show (dropCnt i _ (m.g.labels, m.total)).2 = AMap.sumI (dropCnt i _ (m.g.labels, m.total)).1
  exact dropCnt_snd i _ _ _ (fun j hj => by simpa using (List.mem_filter.1 hj).2) hk ht

theorem uRemoveVertex_eqW (m : WG) (v : Nat) (hv : v < m.g.size) :
    (m.uRemoveVertex v).1 = (List.range m.g.size).foldl (uRVStepW v) m := by
  simp only [WG.uRemoveVertex, inR, hv, decide_true, Bool.not_true, Bool.false_eq_true, if_false]
  rfl

theorem uRemoveVertex_oorW (m : WG) (v : Nat) (hv : ¬ v < m.g.size) : m.uRemoveVertex v = (m, .threw .oor) := by
  simp [WG.uRemoveVertex, inR, hv]

theorem foldl_uRVStepW (v : Nat) (is : List Nat) (m : WG) (hl : m.g.labelled = true) (hk : KeysNodup m.g)
    (ht : m.total = AMap.sumI m.g.labels) :
    (is.foldl (uRVStepW v) m).g = is.foldl (uRVStep v) m.g ∧
    (is.foldl (uRVStepW v) m).total = AMap.sumI (is.foldl (uRVStepW v) m).g.labels := by
  induction is generalizing m with
  | nil => exact ⟨rfl, ht⟩
  | cons i is ih =>
    simp only [List.foldl_cons]
    have hg := uRVStepW_g v m hl i
    have := ih (uRVStepW v m i) (by rw [hg]; simpa using hl) (by rw [KeysNodup, hg]; exact keysNodup_uRVStep v m.g i hk)
      (uRVStepW_tot v m hk ht i)
    rw [hg] at this
    exact this

/-- **graph part**: every weighted mutator acts on the inherited labelled undirected graph
exactly as the base-class call `toSU` names -/
theorem uStep_g (m : WG) (h : WUInv m) (op : WOp) : (m.uStep op).g = (m.g.uStepM (m.toSU op)).1 := by
  cases op with
  | addEdge i j w => exact uAddEdge_g m i j w
  | setEdgeWeight i j w =>
    simp only [uStep, toSU, uSetEdgeWeight]
    by_cases hr : (m.g.inR i && m.g.inR j) = true
    · by_cases he : m.g.uHasEdgeRaw i j = true
      · simp only [hr, he, Bool.not_true, Bool.false_eq_true, if_false, if_true, G.uStepM, G.uSetEdgeLabel,
          Bool.and_false]
        simp [setLab, h.lbl, withLabels]
      · have he' : m.g.uHasEdgeRaw i j = false := by simpa using he
        simp only [hr, he', Bool.not_true, Bool.false_eq_true, if_false, G.uStepM]
        exact uAddEdge_g m i j w
    · have hr' : (m.g.inR i && m.g.inR j) = false := by simpa using hr
      simp only [hr', Bool.not_false, if_true]
      split
      · simp [G.uStepM, G.uSetEdgeLabel, hr']
      · simp [G.uStepM, G.uAddEdge, hr']
  | removeEdge i j =>
    simp only [uStep, toSU, G.uStepM, WG.uRemoveEdge, G.uRemoveEdge]
    split
    · rfl
    · exact uRemoveEdgeCore_g m i j
  | removeSelfLoops =>
    show ((List.range m.g.size).foldl (fun (m : WG) i => m.uRemoveEdgeCore ((fun i => (i, i)) i).1 ((fun i => (i, i)) i).2) m).g = _
    rw [foldl_uRemoveCore_g]; rfl
  | removeVertexFromEdgeList v =>
    simp only [uStep, toSU, G.uStepM]
    by_cases hv : v < m.g.size
    · rw [uRemoveVertex_eqW m v hv, (foldl_uRVStepW v _ m h.lbl h.keys h.tot).1, G.uRemoveVertex_eq m.g v hv]
    · rw [uRemoveVertex_oorW m v hv, G.uRemoveVertex_oor m.g v hv]
  | clearEdges => rfl
  | resize n =>
    simp only [uStep, toSU, G.uStepM, WG.resize]

/-! ### the running total -/

theorem wuinv_of_g (m m' : WG) (h : WUInv m) (op : SOp Int) (hg : m'.g = (m.g.uStepM op).1)
    (ht : m'.total = AMap.sumI m'.g.labels) : WUInv m' :=
  ⟨by rw [hg]; exact uinv_uStepM m.g h.base op, by rw [hg, uStepM_labelled m.g h.base]; exact h.lbl,
   by rw [hg]; exact keysNodup_uStepM m.g op h.keys, ht⟩

theorem get?_none_of_uabsent (g : G Int) (h : UInv g) (hl : g.labelled = true) (i j : Nat)
    (he : g.uHasEdgeRaw i j = false) : g.labels.get? (ordered i j) = none := by
  have he' : g.hasEdgeRaw i j = false := by rw [← h.uHasEdgeRaw_eq]; exact he
  have hnot : j ∉ g.nb i := by rw [mem_nb_iff]; simp [he']
  have hnot' : i ∉ g.nb j := fun hm => hnot ((h.sym i j).2 hm)
  have := h.base.lab hl (ordered i j).1 (ordered i j).2
  cases hg : g.labels.get? (ordered i j) with
  | none => rfl
  | some w =>
    rw [show ((ordered i j).1, (ordered i j).2) = ordered i j from rfl, hg] at this
    simp only [Option.isSome_some, ordered_fst_le, decide_true, Bool.true_and] at this
    have hm : (ordered i j).2 ∈ g.nb (ordered i j).1 := (mem_nb_iff g _ _).2 this.symm
    unfold ordered at hm
    split at hm
    · exact absurd hm hnot
    · exact absurd hm hnot'

theorem tot_uAddEdge (m : WG) (h : WUInv m) (i j : Nat) (w : Int) :
    (m.uAddEdge i j w false).1.total = AMap.sumI (m.uAddEdge i j w false).1.g.labels := by
  unfold WG.uAddEdge
  split
  · exact h.tot
  · rename_i hr
    have hi : i < m.g.size ∧ j < m.g.size := by simpa [inR] using hr
    by_cases he : m.g.uHasEdgeRaw i j = true
    · simp only [he, Bool.false_or, Bool.not_true, Bool.false_eq_true, if_false]; exact h.tot
    · have he : m.g.uHasEdgeRaw i j = false := by simpa using he
      simp only [he, Bool.not_false, Bool.or_true, if_true]
      rw [uAddEdge_forced_absent m.g i j w he, uAddEdge_absent m.g i j w hi.1 hi.2 he]
      have hlabels : (m.g.uAdded i j w).labels = m.g.labels.insert (ordered i j) w := by
        simp only [uAdded, withEN_labels]
        rw [setLab_labels_true _ _ _ (by split <;> simpa [push] using h.lbl)]
        split <;> rfl
      rw [hlabels]
      have := AMap.sumI_insert m.g.labels (ordered i j) w h.keys
      rw [get?_none_of_uabsent m.g h.base h.lbl i j he] at this
      simp only [Option.getD_none] at this
      rw [h.tot]; omega

theorem tot_uRemoveEdgeCore (m : WG) (h : WUInv m) (i j : Nat) :
    (m.uRemoveEdgeCore i j).total = AMap.sumI (m.uRemoveEdgeCore i j).g.labels := by
  have hd : (default : Int) = 0 := rfl
  have hdiff := uRemove_diff m.g h.base.base i j
  by_cases hm : j ∈ m.g.nb i
  · simp only [hm, if_true] at hdiff
    simp only [WG.uRemoveEdgeCore, hdiff, Nat.lt_irrefl, Nat.zero_lt_one, if_true, labD, h.lbl, hd,
      withLabels_labels]
    have := AMap.sumI_erase m.g.labels (ordered i j) h.keys
    rw [h.tot]; omega
  · simp only [hm, if_false] at hdiff
    simp only [WG.uRemoveEdgeCore, hdiff, Nat.lt_irrefl, if_false, remove_labels]
    exact h.tot

theorem wuinv_uRemoveEdgeCore (m : WG) (h : WUInv m) (i j : Nat) : WUInv (m.uRemoveEdgeCore i j) :=
  ⟨by rw [uRemoveEdgeCore_g]; exact uinv_uRemoveEdgeCore m.g h.base i j,
   by rw [uRemoveEdgeCore_g]
      have := uStepM_labelled m.g h.base (.removeEdge i j)
      by_cases hr : (m.g.inR i && m.g.inR j) = true
      · simp only [G.uStepM, G.uRemoveEdge, hr, Bool.not_true, Bool.false_eq_true, if_false] at this
        rw [this]; exact h.lbl
      · unfold G.uRemoveEdgeCore; simp only; split <;> simp [h.lbl],
   by rw [KeysNodup, uRemoveEdgeCore_g]; exact keysNodup_uRemoveEdgeCore m.g i j h.keys,
   tot_uRemoveEdgeCore m h i j⟩

theorem wuinv_foldl_uRemoveCore (f : Nat → Nat × Nat) (is : List Nat) (m : WG) (h : WUInv m) :
    WUInv (is.foldl (fun m i => m.uRemoveEdgeCore (f i).1 (f i).2) m) := by
  induction is generalizing m with
  | nil => exact h
  | cons i is ih => exact ih _ (wuinv_uRemoveEdgeCore m h _ _)

/-- every call keeps the invariant -/
theorem wuinv_uStep (m : WG) (h : WUInv m) (op : WOp) : WUInv (m.uStep op) := by
  cases op with
  | addEdge i j w => exact wuinv_of_g m _ h _ (uStep_g m h (.addEdge i j w)) (tot_uAddEdge m h i j w)
  | setEdgeWeight i j w =>
    refine wuinv_of_g m _ h _ (uStep_g m h (.setEdgeWeight i j w)) ?_
    simp only [uStep, uSetEdgeWeight]
    split
    · exact h.tot
    · split
      · simp only [withLabels_labels]
        have := AMap.sumI_insert m.g.labels (ordered i j) w h.keys
        rw [h.tot, cur_eq]; omega
      · exact tot_uAddEdge m h i j w
  | removeEdge i j =>
    simp only [uStep, WG.uRemoveEdge]
    split
    · exact h
    · exact wuinv_uRemoveEdgeCore m h i j
  | removeSelfLoops => exact wuinv_foldl_uRemoveCore (fun i => (i, i)) _ m h
  | removeVertexFromEdgeList v =>
    refine wuinv_of_g m _ h _ (uStep_g m h (.removeVertexFromEdgeList v)) ?_
    simp only [uStep]
    by_cases hv : v < m.g.size
    · rw [uRemoveVertex_eqW m v hv]; exact (foldl_uRVStepW v _ m h.lbl h.keys h.tot).2
    · rw [uRemoveVertex_oorW m v hv]; exact h.tot
  | clearEdges =>
    show WUInv m.clearEdges
    exact ⟨uinv_clearEdges m.g h.base, h.lbl, by simp [KeysNodup, WG.clearEdges, G.clearEdges, AMap.keys],
      by simp [WG.clearEdges, G.clearEdges, AMap.sumI]⟩
  | resize n =>
    refine wuinv_of_g m _ h (.resize n) (uStep_g m h (.resize n)) ?_
    simp only [uStep, WG.resize, G.resize]
    split <;> exact h.tot

theorem wuinv_uRun (m : WG) (h : WUInv m) (ops : List WOp) : WUInv (m.uRun ops) := by
  induction ops generalizing m with
  | nil => exact h
  | cons op ops ih => exact ih _ (wuinv_uStep m h op)

end WG
end BGV
