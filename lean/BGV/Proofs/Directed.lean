import BGV.Proofs.Inv
/-!
# BGV.Proofs.Directed — every mutator of `LabeledDirectedGraph` (force off) preserves `Inv`,
with an exact description of its effect on `hasEdgeRaw` and on the label store.
-/
set_option linter.unusedSectionVars false
namespace BGV

theorem AMap.get?_foldl_erase {L : Type} (v : Nat) (js : List Nat) (m : AMap L) (e : Edge) :
    AMap.get? (js.foldl (fun m j => AMap.erase m (v, j)) m) e
      = if e.1 = v ∧ e.2 ∈ js then none else AMap.get? m e := by
  induction js generalizing m with
  | nil => simp
  | cons j js ih =>
    simp only [List.foldl_cons]
    rw [ih, AMap.get?_erase]
    obtain ⟨a, b⟩ := e
    by_cases h1 : a = v <;> by_cases h2 : b = j <;> by_cases h3 : b ∈ js <;> simp [h1, h2, h3]
    all_goals (intro h; simp_all)

namespace G
variable {L : Type} [Inhabited L]

/-! ## addEdge (unforced) -/

theorem dAddEdge_present (g : G L) (i j : Nat) (l : L) (hi : i < g.size) (hj : j < g.size)
    (he : g.hasEdgeRaw i j = true) : g.dAddEdge i j l false = (g, .ok ()) := by
  simp [dAddEdge, inR, hi, hj, he]

theorem dAddEdge_absent (g : G L) (i j : Nat) (l : L) (hi : i < g.size) (hj : j < g.size)
    (he : g.hasEdgeRaw i j = false) :
    g.dAddEdge i j l false = ((((g.push i j).withEN (g.edgeNumber + 1)).setLab (i, j) l), .ok ()) := by
  simp [dAddEdge, inR, hi, hj, he]

theorem dAddEdge_oor (g : G L) (i j : Nat) (l : L) (f : Bool) (h : ¬ (i < g.size ∧ j < g.size)) :
    g.dAddEdge i j l f = (g, .threw .oor) := by
  unfold dAddEdge
  have : (g.inR i && g.inR j) = false := by
    simp only [inR, Bool.and_eq_false_iff, decide_eq_false_iff_not]
    by_cases hi : i < g.size
    · right; exact fun hj => h ⟨hi, hj⟩
    · left; exact hi
  simp [this]

theorem hasEdgeRaw_push (g : G L) (i j a b : Nat) (hi : i < g.adj.length) :
    (g.push i j).hasEdgeRaw a b = (g.hasEdgeRaw a b || (a == i && b == j)) := by
  simp only [hasEdgeRaw]
  rw [nb_push g i j a hi]
  by_cases hai : i = a
  · subst hai
    cases hb : (b == j) <;> simp_all [List.contains_eq_mem]
  · have : (a == i) = false := by simp; omega
    simp [hai, this]

/-- effect of a successful (range-checked, unforced) `addEdge` on edge membership -/
theorem hasEdgeRaw_dAddEdge (g : G L) (h : Inv g) (i j a b : Nat) (l : L) (hi : i < g.size) (hj : j < g.size) :
    (g.dAddEdge i j l false).1.hasEdgeRaw a b = (g.hasEdgeRaw a b || (a == i && b == j)) := by
  have hil : i < g.adj.length := by rw [h.len]; exact hi
  cases he : g.hasEdgeRaw i j with
  | true =>
    rw [dAddEdge_present g i j l hi hj he]
    by_cases hab : a = i ∧ b = j
    · obtain ⟨rfl, rfl⟩ := hab; simp [he]
    · have : (a == i && b == j) = false := by
        simp only [Bool.and_eq_false_iff, beq_eq_false_iff_ne]
        by_cases ha : a = i
        · right; exact fun hb => hab ⟨ha, hb⟩
        · left; exact ha
      simp [this]
  | false =>
    rw [dAddEdge_absent g i j l hi hj he]
    simp [hasEdgeRaw_push g i j a b hil]

theorem inv_dAddEdge (g : G L) (h : Inv g) (i j : Nat) (l : L) : Inv (g.dAddEdge i j l false).1 := by
  by_cases hr : i < g.size ∧ j < g.size
  · obtain ⟨hi, hj⟩ := hr
    have hil : i < g.adj.length := by rw [h.len]; exact hi
    cases he : g.hasEdgeRaw i j with
    | true => rw [dAddEdge_present g i j l hi hj he]; exact h
    | false =>
      rw [dAddEdge_absent g i j l hi hj he]
      have hnm : j ∉ g.nb i := by simpa [hasEdgeRaw] using he
      constructor
      · simp [push, h.len]
      · intro k
        simp only [setLab_nb, withEN_nb]
        rw [nb_push g i j k hil]
        by_cases hik : i = k
        · subst hik
          simp only [if_true]
          exact List.nodup_append.2 ⟨h.nodup i, by simp, by
            intro a ha b hb; simp at hb; subst hb; intro e; subst e; exact hnm ha⟩
        · simp only [hik, if_false]; exact h.nodup k
      · intro k x hx
        simp only [setLab_nb, withEN_nb] at hx
        rw [nb_push g i j k hil] at hx
        simp only [setLab_size, withEN_size]
        show x < g.size
        by_cases hik : i = k
        · subst hik
          simp only [if_true, List.mem_append, List.mem_singleton] at hx
          rcases hx with hx | rfl
          · exact h.bound i x hx
          · exact hj
        · simp only [hik, if_false] at hx; exact h.bound k x hx
      · simp only [setLab_en, setLab_sumLen, withEN_en, withEN_sumLen]
        rw [sumLen_push g i j hil, h.count]
      · intro hl a b
        have hl' : g.labelled = true := by simpa using hl
        simp only [setLab_hasEdgeRaw, withEN_hasEdgeRaw]
        rw [hasEdgeRaw_push g i j a b hil, setLab_labels_true _ _ _ (by simpa using hl')]
        simp only [withEN_labels, push, withAdj_labels]
        rw [AMap.get?_insert]
        by_cases hab : (a, b) = (i, j)
        · simp at hab; obtain ⟨rfl, rfl⟩ := hab; simp
        · have : (a == i && b == j) = false := by
            simp only [Bool.and_eq_false_iff, beq_eq_false_iff_ne]; simp at hab
            by_cases ha : a = i
            · right; exact hab ha
            · left; exact ha
          simp [hab, this, h.lab hl' a b]
      · intro hl
        have hl' : g.labelled = false := by simpa using hl
        rw [setLab_labels_false _ _ _ (by simpa using hl')]
        simpa [push] using h.nolab hl'
  · rw [dAddEdge_oor g i j l false hr]; exact h

theorem dAddEdge_size (g : G L) (i j : Nat) (l : L) (f : Bool) : (g.dAddEdge i j l f).1.size = g.size := by
  unfold dAddEdge; split
  · rfl
  · split
    · simp [push]
    · rfl

theorem dAddEdge_labelled (g : G L) (i j : Nat) (l : L) (f : Bool) : (g.dAddEdge i j l f).1.labelled = g.labelled := by
  unfold dAddEdge; split
  · rfl
  · split
    · simp [push]
    · rfl

/-- label store after a successful unforced `addEdge`, labelled graphs -/
theorem labels_dAddEdge (g : G L) (i j : Nat) (l : L) (hi : i < g.size) (hj : j < g.size)
    (hl : g.labelled = true) (e : Edge) :
    (g.dAddEdge i j l false).1.labels.get? e
      = if g.hasEdgeRaw i j = false ∧ e = (i, j) then some l else g.labels.get? e := by
  cases he : g.hasEdgeRaw i j with
  | true => rw [dAddEdge_present g i j l hi hj he]; simp
  | false =>
    rw [dAddEdge_absent g i j l hi hj he]
    rw [setLab_labels_true _ _ _ (by simpa [push] using hl)]
    simp only [withEN_labels, push, withAdj_labels]
    rw [AMap.get?_insert]; simp

/-! ## removeEdge -/

theorem nb_dRemoveEdgeCore (g : G L) (i j k : Nat) :
    (g.dRemoveEdgeCore i j).nb k = if i = k then (g.nb k).filter (· != j) else g.nb k := by
  simp only [dRemoveEdgeCore, withLabels_nb, withEN_nb]; exact nb_remove g i j k

theorem hasEdgeRaw_dRemoveEdgeCore (g : G L) (i j a b : Nat) :
    (g.dRemoveEdgeCore i j).hasEdgeRaw a b = (g.hasEdgeRaw a b && !(a == i && b == j)) := by
  simp only [hasEdgeRaw]
  rw [nb_dRemoveEdgeCore]
  by_cases hai : i = a
  · subst hai
    by_cases hbj : b = j
    · subst hbj; simp [List.contains_eq_mem]
    · simp [hbj, List.contains_eq_mem]
  · have : (a == i) = false := by simp; omega
    simp [hai, this]

theorem labels_dRemoveEdgeCore (g : G L) (i j : Nat) (e : Edge) :
    (g.dRemoveEdgeCore i j).labels.get? e = if e = (i, j) then none else g.labels.get? e := by
  simp only [dRemoveEdgeCore, withLabels_labels]
  exact AMap.get?_erase _ _ _

@[simp] theorem dRemoveEdgeCore_size (g : G L) (i j : Nat) : (g.dRemoveEdgeCore i j).size = g.size := by
  simp [dRemoveEdgeCore, remove]
@[simp] theorem dRemoveEdgeCore_labelled (g : G L) (i j : Nat) : (g.dRemoveEdgeCore i j).labelled = g.labelled := by
  simp [dRemoveEdgeCore, remove]

theorem erase_nil {L : Type} (e : Edge) : AMap.erase ([] : AMap L) e = [] := rfl

/-- `removeEdge` preserves the invariant for *any* arguments (out-of-range ones change nothing) -/
theorem inv_dRemoveEdgeCore (g : G L) (h : Inv g) (i j : Nat) : Inv (g.dRemoveEdgeCore i j) := by
  constructor
  · simp [dRemoveEdgeCore, remove, h.len]
  · intro k; rw [nb_dRemoveEdgeCore]; split
    · exact (h.nodup k).sublist List.filter_sublist
    · exact h.nodup k
  · intro k x hx; rw [nb_dRemoveEdgeCore] at hx
    simp only [dRemoveEdgeCore_size]
    split at hx
    · exact h.bound k x (List.mem_filter.1 hx).1
    · exact h.bound k x hx
  · have h1 := sumLen_remove g i j
    have h2 := sumLen_ge_nb g i
    simp only [dRemoveEdgeCore, withLabels_en, withEN_en, withLabels_sumLen, withEN_sumLen]
    have hle : (g.nb i).length - ((g.remove i j).nb i).length ≤ g.edgeNumber := by rw [h.count]; omega
    rw [subW_of_le hle, h.count]; omega
  · intro hl a b
    have hl' : g.labelled = true := by simpa using hl
    rw [hasEdgeRaw_dRemoveEdgeCore, labels_dRemoveEdgeCore]
    by_cases hab : (a, b) = (i, j)
    · simp at hab; obtain ⟨rfl, rfl⟩ := hab; simp
    · have : (a == i && b == j) = false := by
        simp only [Bool.and_eq_false_iff, beq_eq_false_iff_ne]; simp at hab
        by_cases ha : a = i
        · right; exact hab ha
        · left; exact ha
      simp [hab, this, h.lab hl' a b]
  · intro hl
    have hl' : g.labelled = false := by simpa using hl
    simp only [dRemoveEdgeCore, withLabels_labels]
    rw [h.nolab hl']; rfl

/-! ## folds of `removeEdge` (removeSelfLoops, second loop of removeVertexFromEdgeList) -/

theorem foldl_removeCore_inv (f : Nat → Nat × Nat) (is : List Nat) (g : G L) (h : Inv g) :
    Inv (is.foldl (fun g i => g.dRemoveEdgeCore (f i).1 (f i).2) g) := by
  induction is generalizing g with
  | nil => exact h
  | cons i is ih => exact ih _ (inv_dRemoveEdgeCore g h _ _)

theorem foldl_removeCore_size (f : Nat → Nat × Nat) (is : List Nat) (g : G L) :
    (is.foldl (fun g i => g.dRemoveEdgeCore (f i).1 (f i).2) g).size = g.size := by
  induction is generalizing g with
  | nil => rfl
  | cons i is ih => simp only [List.foldl_cons]; rw [ih]; simp

theorem foldl_removeCore_labelled (f : Nat → Nat × Nat) (is : List Nat) (g : G L) :
    (is.foldl (fun g i => g.dRemoveEdgeCore (f i).1 (f i).2) g).labelled = g.labelled := by
  induction is generalizing g with
  | nil => rfl
  | cons i is ih => simp only [List.foldl_cons]; rw [ih]; simp

theorem foldl_removeCore_hasEdge (f : Nat → Nat × Nat) (is : List Nat) (g : G L) (a b : Nat) :
    (is.foldl (fun g i => g.dRemoveEdgeCore (f i).1 (f i).2) g).hasEdgeRaw a b
      = (g.hasEdgeRaw a b && !(is.any (fun i => f i == (a, b)))) := by
  induction is generalizing g with
  | nil => simp
  | cons i is ih =>
    simp only [List.foldl_cons, List.any_cons]
    rw [ih, hasEdgeRaw_dRemoveEdgeCore]
    have : (f i == (a, b)) = (a == (f i).1 && b == (f i).2) := by
      generalize f i = p
      obtain ⟨x, y⟩ := p
      rw [Bool.eq_iff_iff]
      simp only [beq_iff_eq, Bool.and_eq_true, Prod.mk.injEq]
      constructor <;> rintro ⟨h1, h2⟩ <;> exact ⟨h1.symm, h2.symm⟩
    rw [this]
    cases g.hasEdgeRaw a b <;> cases (a == (f i).1 && b == (f i).2) <;> simp

theorem foldl_removeCore_labels (f : Nat → Nat × Nat) (is : List Nat) (g : G L) (e : Edge) :
    (is.foldl (fun g i => g.dRemoveEdgeCore (f i).1 (f i).2) g).labels.get? e
      = if is.any (fun i => f i == e) then none else g.labels.get? e := by
  induction is generalizing g with
  | nil => simp
  | cons i is ih =>
    simp only [List.foldl_cons, List.any_cons]
    rw [ih, labels_dRemoveEdgeCore]
    by_cases h1 : f i = e
    · simp [h1]
    · have : (f i == e) = false := by simpa using h1
      have h2 : ¬ e = ((f i).1, (f i).2) := by intro h; exact h1 h.symm
      simp [this, h2]

theorem any_diag (n a b : Nat) (ha : a < n) :
    (List.range n).any (fun i => (i, i) == (a, b)) = (a == b) := by
  rw [Bool.eq_iff_iff]
  simp only [List.any_eq_true, List.mem_range, beq_iff_eq, Prod.mk.injEq]
  constructor
  · rintro ⟨x, _, rfl, rfl⟩; rfl
  · rintro rfl; exact ⟨a, ha, rfl, rfl⟩

theorem any_col (n v a b : Nat) (ha : a < n) :
    (List.range n).any (fun i => (i, v) == (a, b)) = (b == v) := by
  rw [Bool.eq_iff_iff]
  simp only [List.any_eq_true, List.mem_range, beq_iff_eq, Prod.mk.injEq]
  constructor
  · rintro ⟨x, _, _, rfl⟩; rfl
  · rintro rfl; exact ⟨a, ha, rfl, rfl⟩

theorem dRemoveSelfLoops_eq (g : G L) :
    g.dRemoveSelfLoops = (List.range g.size).foldl (fun g i => g.dRemoveEdgeCore ((fun i => (i, i)) i).1 ((fun i => (i, i)) i).2) g := rfl

theorem inv_dRemoveSelfLoops (g : G L) (h : Inv g) : Inv g.dRemoveSelfLoops := by
  rw [dRemoveSelfLoops_eq]; exact foldl_removeCore_inv _ _ g h

theorem hasEdgeRaw_dRemoveSelfLoops (g : G L) (h : Inv g) (a b : Nat) :
    g.dRemoveSelfLoops.hasEdgeRaw a b = (g.hasEdgeRaw a b && !(a == b)) := by
  rw [dRemoveSelfLoops_eq, foldl_removeCore_hasEdge]
  cases he : g.hasEdgeRaw a b with
  | false => simp
  | true =>
    have ha := (h.hasEdgeRaw_lt he).1
    simp only [Bool.true_and]
    rw [any_diag _ a b ha]

/-! ## removeVertexFromEdgeList -/

/-- state after the first loop of `removeVertexFromEdgeList(v)` -/
def dropVertexOut (g : G L) (v : Nat) : G L :=
  ⟨g.labelled, g.size, g.adj.modify v (fun _ => []), subW g.edgeNumber (g.nb v).length,
    (g.nb v).foldl (fun m j => AMap.erase m (v, j)) g.labels⟩

theorem nb_dropVertexOut (g : G L) (v k : Nat) :
    (g.dropVertexOut v).nb k = if v = k then [] else g.nb k := by
  simp only [dropVertexOut, nb]
  rw [getD_modify _ _ _ _ rfl]

theorem hasEdgeRaw_dropVertexOut (g : G L) (v a b : Nat) :
    (g.dropVertexOut v).hasEdgeRaw a b = (g.hasEdgeRaw a b && !(a == v)) := by
  simp only [hasEdgeRaw]
  rw [nb_dropVertexOut]
  by_cases hav : v = a
  · subst hav; simp
  · have : (a == v) = false := by simp; omega
    simp [hav, this]

theorem foldl_erase_nil {L : Type} (v : Nat) (js : List Nat) (m : AMap L) (hm : m = AMap.empty) :
    js.foldl (fun m j => AMap.erase m (v, j)) m = AMap.empty := by
  induction js generalizing m with
  | nil => exact hm
  | cons j js ih => exact ih _ (by subst hm; rfl)

theorem inv_dropVertexOut (g : G L) (h : Inv g) (v : Nat) : Inv (g.dropVertexOut v) := by
  constructor
  · simp [dropVertexOut, h.len]
  · intro k; rw [nb_dropVertexOut]; split
    · exact List.nodup_nil
    · exact h.nodup k
  · intro k x hx; rw [nb_dropVertexOut] at hx
    split at hx
    · simp at hx
    · exact h.bound k x hx
  · show subW g.edgeNumber (g.nb v).length = (g.dropVertexOut v).sumLen
    have h2 := sumLen_ge_nb g v
    rw [subW_of_le (by rw [h.count]; exact h2), h.count]
    by_cases hv : v < g.adj.length
    · have := sum_len_modify g.adj v (fun _ => []) hv
      simp only [List.length_nil, Nat.add_zero] at this
      simp only [dropVertexOut, sumLen, nb] at this ⊢
      omega
    · have hge : g.adj.length ≤ v := by omega
      have : (g.dropVertexOut v).adj = g.adj := by simp [dropVertexOut, modify_of_ge _ _ _ hge]
      simp only [sumLen, this, G.nb_of_ge g v hge]; simp
  · intro hl a b
    have hl' : g.labelled = true := hl
    rw [hasEdgeRaw_dropVertexOut]
    show (AMap.get? ((g.nb v).foldl (fun m j => AMap.erase m (v, j)) g.labels) (a, b)).isSome = _
    rw [AMap.get?_foldl_erase]
    by_cases hav : a = v
    · subst hav
      by_cases hb : b ∈ g.nb a
      · simp [hb]
      · have : g.hasEdgeRaw a b = false := by simpa [hasEdgeRaw] using hb
        simp [hb, this, h.lab hl' a b]
    · have : (a == v) = false := by simpa using hav
      simp [hav, this, h.lab hl' a b]
  · intro hl
    have hl' : g.labelled = false := hl
    show (g.nb v).foldl (fun m j => AMap.erase m (v, j)) g.labels = []
    exact foldl_erase_nil v _ _ (h.nolab hl')

theorem dRemoveVertex_eq (g : G L) (v : Nat) (hv : v < g.size) :
    (g.dRemoveVertex v).1 =
      (List.range g.size).foldl (fun g i => g.dRemoveEdgeCore ((fun i => (i, v)) i).1 ((fun i => (i, v)) i).2) (g.dropVertexOut v) := by
  simp [dRemoveVertex, inR, hv, dropVertexOut]

theorem dRemoveVertex_oor (g : G L) (v : Nat) (hv : ¬ v < g.size) : g.dRemoveVertex v = (g, .threw .oor) := by
  simp [dRemoveVertex, inR, hv]

theorem inv_dRemoveVertex (g : G L) (h : Inv g) (v : Nat) : Inv (g.dRemoveVertex v).1 := by
  by_cases hv : v < g.size
  · rw [dRemoveVertex_eq g v hv]; exact foldl_removeCore_inv _ _ _ (inv_dropVertexOut g h v)
  · rw [dRemoveVertex_oor g v hv]; exact h

theorem hasEdgeRaw_dRemoveVertex (g : G L) (h : Inv g) (v : Nat) (hv : v < g.size) (a b : Nat) :
    (g.dRemoveVertex v).1.hasEdgeRaw a b = (g.hasEdgeRaw a b && !(a == v) && !(b == v)) := by
  rw [dRemoveVertex_eq g v hv, foldl_removeCore_hasEdge, hasEdgeRaw_dropVertexOut]
  cases he : g.hasEdgeRaw a b with
  | false => simp
  | true =>
    have ha := (h.hasEdgeRaw_lt he).1
    have ha' : a < (g.dropVertexOut v).size := ha
    simp only [Bool.true_and]
    have hsz : (g.dropVertexOut v).size = g.size := rfl
    rw [any_col _ v a b ha]

/-! ## clearEdges -/

theorem nb_clearEdges (g : G L) (k : Nat) : g.clearEdges.nb k = [] := by
  simp only [clearEdges, nb, List.getD_eq_getElem?_getD, List.getElem?_map]
  cases g.adj[k]? <;> simp

theorem inv_clearEdges (g : G L) (h : Inv g) : Inv g.clearEdges := by
  constructor
  · simp [clearEdges, h.len]
  · intro k; rw [nb_clearEdges]; exact List.nodup_nil
  · intro k x hx; rw [nb_clearEdges] at hx; simp at hx
  · simp only [clearEdges, sumLen]
    induction g.adj with
    | nil => simp
    | cons x xs ih => simpa using ih
  · intro _ a b; simp only [hasEdgeRaw]; rw [nb_clearEdges]; simp [clearEdges, AMap.get?]
  · intro _; rfl

/-! ## setEdgeLabel (unforced) -/

theorem inv_dSetEdgeLabel (g : G L) (h : Inv g) (i j : Nat) (l : L) : Inv (g.dSetEdgeLabel i j l false).1 := by
  unfold dSetEdgeLabel
  split
  · exact h
  · split
    · exact h
    · rename_i h1 h2
      have he : g.hasEdgeRaw i j = true := by simpa using h2
      constructor
      · simp [h.len]
      · intro k; simp; exact h.nodup k
      · intro k x hx; simp at hx ⊢; exact h.bound k x hx
      · simp; exact h.count
      · intro hl a b
        have hl' : g.labelled = true := by simpa using hl
        simp only [setLab_hasEdgeRaw]
        rw [setLab_labels_true _ _ _ hl', AMap.get?_insert]
        by_cases hab : (a, b) = (i, j)
        · simp at hab; obtain ⟨rfl, rfl⟩ := hab; simp [he]
        · simp [hab, h.lab hl' a b]
      · intro hl
        have hl' : g.labelled = false := by simpa using hl
        rw [setLab_labels_false _ _ _ hl']; exact h.nolab hl'

end G
end BGV
