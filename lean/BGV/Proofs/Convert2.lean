import BGV.Proofs.Convert
import BGV.Proofs.Ctor
import BGV.Props.C02
import BGV.Props.C08
/-!
# BGV.Proofs.Convert2 — `LabeledUndirectedGraph(const Directed&)` and `getDirectedGraph()`
-/
set_option linter.unusedSectionVars false
namespace BGV

namespace AG
variable {L : Type} [Inhabited L]

def uAddAll (a : AG L) (es : List (LEdge L)) : AG L := es.foldl (fun a e => a.uAdd e.1 e.2.1 e.2.2) a

def SymLab (a : AG L) : Prop := ∀ x y, a.lab x y = a.lab y x

theorem samePair_comm (x y i j : Nat) : samePair x y i j ↔ samePair y x j i := by
  unfold samePair; constructor <;> (rintro (⟨h1, h2⟩ | ⟨h1, h2⟩) <;> simp [h1, h2])

theorem samePair_swap (x y i j : Nat) : samePair x y i j ↔ samePair y x i j := by
  unfold samePair; constructor <;> (rintro (⟨h1, h2⟩ | ⟨h1, h2⟩) <;> simp [h1, h2])

theorem symLab_uAdd (a : AG L) (h : SymLab a) (i j : Nat) (l : L) : SymLab (a.uAdd i j l) := by
  intro x y
  simp only [uAdd]
  by_cases hs : samePair x y i j
  · have hs' : samePair y x i j := (samePair_swap x y i j).1 hs
    simp [hs, hs', h x y]
  · have hs' : ¬ samePair y x i j := fun hh => hs ((samePair_swap x y i j).2 hh)
    simp [hs, hs', h x y]

/-- the first entry of `es` for the unordered pair {x,y} -/
def firstLabelU (es : List (LEdge L)) (x y : Nat) : Option L :=
  (es.find? (fun e => decide (samePair x y e.1 e.2.1))).map (·.2.2)

theorem uAddAll_n (a : AG L) (es : List (LEdge L)) : (a.uAddAll es).n = a.n := by
  induction es generalizing a with
  | nil => rfl
  | cons e es ih => simp only [uAddAll, List.foldl_cons] at ih ⊢; rw [ih]; rfl

theorem uAddAll_lab (a : AG L) (h : SymLab a) (es : List (LEdge L)) (x y : Nat) :
    (a.uAddAll es).lab x y = match a.lab x y with
      | some l => some l
      | none => firstLabelU es x y := by
  induction es generalizing a with
  | nil => cases h : a.lab x y <;> simp [uAddAll, firstLabelU, h]
  | cons e es ih =>
    obtain ⟨i, j, l⟩ := e
    have := ih (a.uAdd i j l) (symLab_uAdd a h i j l)
    simp only [uAddAll, List.foldl_cons] at this ⊢
    rw [this]
    simp only [uAdd, firstLabelU, List.find?_cons]
    by_cases hs : samePair x y i j
    · have hxy : a.lab x y = a.lab i j := by
        rcases hs with ⟨rfl, rfl⟩ | ⟨rfl, rfl⟩
        · rfl
        · exact h _ _
      cases hl : a.lab i j with
      | some v => simp [hs, hxy, hl]
      | none => simp [hs, hxy, hl]
    · simp only [hs, false_and, if_false, decide_false]

theorem uDenote_addOps (lb : Bool) (a : AG L) (es : List (LEdge L)) :
    uDenote lb a (es.map (fun e => SOp.addEdge e.1 e.2.1 e.2.2))
      = a.uAddAll (es.map (fun e => (e.1, e.2.1, if lb then e.2.2 else default))) := by
  induction es generalizing a with
  | nil => rfl
  | cons e es ih =>
    simp only [uDenote, uAddAll, List.map_cons, List.foldl_cons] at ih ⊢
    exact ih _

end AG

namespace G
variable {L : Type} [Inhabited L]

/-- the directed graph's entries, in enumeration order, with their labels -/
def lblEdges (d : G L) : List (LEdge L) := d.edgeSeq.map (fun e => (e.1, e.2, d.labD e))

/-- inner loop of the converting constructor -/
def ofDirStep (d : G L) (i : Nat) (r : Res (G L)) (j : Nat) : Res (G L) :=
  match d.dGetEdgeLabel i j true with
  | .ok l => chain r (fun h => h.uAddEdge i j l false)
  | .threw x => r.bind (fun _ => .threw x)
  | .ub => .ub

theorem uOfDirected_eq_fold (d : G L) :
    d.uOfDirected = (List.range d.size).foldl (fun r i => (d.nb i).foldl (ofDirStep d i) r) (.ok (G.new d.labelled d.size)) := rfl

theorem uAddEdge_ok' (h : G L) (i j : Nat) (l : L) (hi : i < h.size) (hj : j < h.size) :
    h.uAddEdge i j l false = ((h.uAddEdge i j l false).1, .ok ()) := by
  have := addOK_uAddEdge.ok h i j l hi hj
  cases hr : h.uAddEdge i j l false with
  | mk a b =>
    simp only [hr] at this
    simp [this]

theorem uAddEdge_size (h : G L) (i j : Nat) (l : L) : (h.uAddEdge i j l false).1.size = h.size :=
  addOK_uAddEdge.size h i j l

theorem fold_inner (d : G L) (hd : Inv d) (i : Nat) (js : List Nat) (hjs : ∀ j ∈ js, d.hasEdgeRaw i j = true)
    (h : G L) (hs : h.size = d.size) :
    js.foldl (ofDirStep d i) (.ok h) =
      .ok (addOnly (fun h i j l f => h.uAddEdge i j l f) h (js.map (fun j => (i, j, d.labD (i, j))))) := by
  induction js generalizing h with
  | nil => rfl
  | cons j js ih =>
    have he := hjs j (by simp)
    obtain ⟨hi, hj⟩ := hd.hasEdgeRaw_lt he
    simp only [List.foldl_cons, List.map_cons, addOnly]
    have hstep : ofDirStep d i (.ok h) j = .ok (h.uAddEdge i j (d.labD (i, j)) false).1 := by
      simp only [ofDirStep, dGetEdgeLabel_edge d hd i j he, chain, Res.bind]
      rw [uAddEdge_ok' h i j _ (by rw [hs]; exact hi) (by rw [hs]; exact hj)]
    rw [hstep]
    exact ih (fun x hx => hjs x (by simp [hx])) _ (by rw [uAddEdge_size]; exact hs)

theorem addOnly_size (add : G L → Nat → Nat → L → Bool → G L × Res Unit) (ha : AddOK add) (h : G L)
    (es : List (LEdge L)) : (addOnly add h es).size = h.size := by
  induction es generalizing h with
  | nil => rfl
  | cons e es ih => simp only [addOnly, List.foldl_cons] at ih ⊢; rw [ih, ha.size]

theorem addOnly_append (add : G L → Nat → Nat → L → Bool → G L × Res Unit) (h : G L) (a b : List (LEdge L)) :
    addOnly add h (a ++ b) = addOnly add (addOnly add h a) b := by
  simp [addOnly, List.foldl_append]

theorem fold_outer (d : G L) (hd : Inv d) (is : List Nat) (h : G L) (hs : h.size = d.size) :
    is.foldl (fun r i => (d.nb i).foldl (ofDirStep d i) r) (.ok h) =
      .ok (addOnly (fun h i j l f => h.uAddEdge i j l f) h
        (is.flatMap (fun i => (d.nb i).map (fun j => (i, j, d.labD (i, j)))))) := by
  induction is generalizing h with
  | nil => rfl
  | cons i is ih =>
    simp only [List.foldl_cons, List.flatMap_cons]
    rw [fold_inner d hd i (d.nb i) (fun j hj => by simpa [hasEdgeRaw] using hj) h hs, addOnly_append]
    exact ih _ (by rw [addOnly_size _ addOK_uAddEdge]; exact hs)

theorem lblEdges_eq (d : G L) :
    d.lblEdges = (List.range d.size).flatMap (fun i => (d.nb i).map (fun j => (i, j, d.labD (i, j)))) := by
  simp only [lblEdges, edgeSeq, List.map_flatMap, List.map_map]
  rfl

/-- **`LabeledUndirectedGraph(directed)`** never throws on a reachable state and is the undirected
history `addEdge(i,j,label(i,j))` along the directed graph's enumeration -/
theorem uOfDirected_ok (d : G L) (hd : Inv d) :
    d.uOfDirected = .ok (uRun (G.new d.labelled d.size : G L)
      (d.lblEdges.map (fun e => SOp.addEdge e.1 e.2.1 e.2.2))) := by
  rw [uOfDirected_eq_fold, fold_outer d hd (List.range d.size) (G.new d.labelled d.size) rfl, ← lblEdges_eq]
  congr 1
  generalize (G.new d.labelled d.size : G L) = h
  generalize d.lblEdges = es
  induction es generalizing h with
  | nil => rfl
  | cons e es ih =>
    simp only [addOnly, List.map_cons, uRun, List.foldl_cons] at ih ⊢
    exact ih _

theorem validFrom_addOps (n : Nat) (es : List (LEdge L)) (h : ∀ e ∈ es, e.1 < n ∧ e.2.1 < n) :
    AG.ValidFrom n (es.map (fun e => SOp.addEdge e.1 e.2.1 e.2.2)) := by
  induction es with
  | nil => trivial
  | cons e es ih =>
    exact ⟨h e (by simp), ih (fun x hx => h x (by simp [hx]))⟩

end G
end BGV

namespace BGV
namespace G
variable {L : Type} [Inhabited L]

/-! ## getDirectedGraph -/

theorem uGetEdgeLabel_edge (g : G L) (hg : UInv g) (i j : Nat) (he : g.hasEdgeRaw i j = true) :
    g.uGetEdgeLabel i j true = .ok (g.labD (ordered i j)) := by
  have hm : j ∈ g.nb i := (mem_nb_iff g i j).2 he
  have hj := hg.base.bound i j hm
  have hi := hg.base.bound j i ((hg.sym i j).1 hm)
  simp only [uGetEdgeLabel, inR, hi, hj, decide_true, Bool.and_self, if_true, getLab, labD_eq]
  by_cases hl : g.labelled = true
  · have hs := hg.base.lab hl (ordered i j).1 (ordered i j).2
    have hraw : g.hasEdgeRaw (ordered i j).1 (ordered i j).2 = true := by
      have := hg.uHasEdgeRaw_eq i j; simp only [uHasEdgeRaw] at this; rw [this]; exact he
    rw [hraw] at hs
    simp only [ordered_fst_le, decide_true, Bool.true_and] at hs
    obtain ⟨v, hv⟩ := Option.isSome_iff_exists.1 hs
    have hv' : g.labels.get? (ordered i j) = some v := hv
    simp [hl, hv']
  · have hl : g.labelled = false := by simpa using hl
    simp [hl]

/-- forced insertion of a list of labelled edges -/
def addAllF (h : G L) (es : List (LEdge L)) : G L := es.foldl (fun h e => (h.dAddEdge e.1 e.2.1 e.2.2 true).1) h

/-- forced = unforced when the pairs are new and pairwise distinct -/
theorem addAllF_eq (h : G L) (hh : Inv h) (es : List (LEdge L))
    (hr : ∀ e ∈ es, e.1 < h.size ∧ e.2.1 < h.size)
    (hnd : (es.map (fun e => (e.1, e.2.1))).Nodup)
    (hnew : ∀ e ∈ es, h.hasEdgeRaw e.1 e.2.1 = false) :
    h.addAllF es = h.addAll es := by
  induction es generalizing h with
  | nil => rfl
  | cons e es ih =>
    have he := hnew e (by simp)
    have hre := hr e (by simp)
    simp only [addAllF, addAll, List.foldl_cons]
    rw [show h.dAddEdge e.1 e.2.1 e.2.2 true = h.dAddEdge e.1 e.2.1 e.2.2 false by simp [dAddEdge, he]]
    have hs := dAddEdge_size h e.1 e.2.1 e.2.2 false
    simp only [List.map_cons, List.nodup_cons] at hnd
    apply ih _ (inv_dAddEdge h hh _ _ _) (fun x hx => by rw [hs]; exact hr x (by simp [hx])) hnd.2
    intro x hx
    rw [hasEdgeRaw_dAddEdge h hh e.1 e.2.1 x.1 x.2.1 e.2.2 hre.1 hre.2, hnew x (by simp [hx])]
    have hne : (x.1, x.2.1) ≠ (e.1, e.2.1) := by
      intro heq
      apply hnd.1
      rw [← heq]
      exact List.mem_map.2 ⟨x, hx, rfl⟩
    have : (x.1 == e.1 && x.2.1 == e.2.1) = false := by
      simp only [Bool.and_eq_false_iff, beq_eq_false_iff_ne]
      by_cases h1 : x.1 = e.1
      · right; intro h2; exact hne (Prod.ext h1 h2)
      · left; exact h1
    simp [this]

/-- the labelled directed edges `getDirectedGraph` inserts, in order -/
def dirOf (g : G L) (e : Edge) : List (LEdge L) :=
  if e.1 < e.2 then [(e.1, e.2, g.labD (ordered e.1 e.2)), (e.2, e.1, g.labD (ordered e.1 e.2))]
  else if e.1 = e.2 then [(e.1, e.2, g.labD (ordered e.1 e.2))] else []

def dirEdges (g : G L) : List (LEdge L) := g.uEdges.flatMap (dirOf g)

def toDirStep (g : G L) (r : Res (G L)) (e : Edge) : Res (G L) :=
  if e.1 < e.2 then
    match g.uGetEdgeLabel e.1 e.2 true with
    | .ok l => chain r (fun h => h.dAddReciprocalEdge e.1 e.2 l true)
    | .threw x => r.bind (fun _ => .threw x)
    | .ub => .ub
  else if e.1 = e.2 then
    match g.uGetEdgeLabel e.1 e.2 true with
    | .ok l => chain r (fun h => h.dAddEdge e.1 e.2 l true)
    | .threw x => r.bind (fun _ => .threw x)
    | .ub => .ub
  else r

theorem uGetDirectedGraph_eq_fold (g : G L) :
    g.uGetDirectedGraph = g.uEdges.foldl (toDirStep g) (.ok (G.new g.labelled g.size)) := rfl

theorem dAddEdge_forced_ok (h : G L) (i j : Nat) (l : L) (hi : i < h.size) (hj : j < h.size) :
    h.dAddEdge i j l true = ((h.dAddEdge i j l true).1, .ok ()) := by
  simp [dAddEdge, inR, hi, hj]

theorem dAddEdge_forced_size (h : G L) (i j : Nat) (l : L) : (h.dAddEdge i j l true).1.size = h.size :=
  dAddEdge_size h i j l true

theorem addAllF_size (h : G L) (es : List (LEdge L)) : (h.addAllF es).size = h.size := by
  induction es generalizing h with
  | nil => rfl
  | cons e es ih => simp only [addAllF, List.foldl_cons] at ih ⊢; rw [ih, dAddEdge_forced_size]

theorem addAllF_append (h : G L) (a b : List (LEdge L)) : h.addAllF (a ++ b) = (h.addAllF a).addAllF b := by
  simp [addAllF, List.foldl_append]

theorem fold_toDir (g : G L) (hg : UInv g) (es : List Edge) (hes : ∀ e ∈ es, g.hasEdgeRaw e.1 e.2 = true)
    (h : G L) (hs : h.size = g.size) :
    es.foldl (toDirStep g) (.ok h) = .ok (h.addAllF (es.flatMap (dirOf g))) := by
  induction es generalizing h with
  | nil => rfl
  | cons e es ih =>
    have he := hes e (by simp)
    have hm : e.2 ∈ g.nb e.1 := (mem_nb_iff g e.1 e.2).2 he
    have hj := hg.base.bound e.1 e.2 hm
    have hi := hg.base.bound e.2 e.1 ((hg.sym e.1 e.2).1 hm)
    simp only [List.foldl_cons, List.flatMap_cons]
    rw [addAllF_append]
    have hstep : toDirStep g (.ok h) e = .ok (h.addAllF (dirOf g e)) := by
      simp only [toDirStep, dirOf, uGetEdgeLabel_edge g hg e.1 e.2 he]
      by_cases h1 : e.1 < e.2
      · simp only [h1, if_true, chain, Res.bind, dAddReciprocalEdge, addAllF, List.foldl_cons, List.foldl_nil]
        rw [dAddEdge_forced_ok h e.1 e.2 _ (by rw [hs]; exact hi) (by rw [hs]; exact hj)]
        simp only
        rw [dAddEdge_forced_ok _ e.2 e.1 _ (by rw [dAddEdge_forced_size, hs]; exact hj) (by rw [dAddEdge_forced_size, hs]; exact hi)]
      · simp only [h1, if_false]
        by_cases h2 : e.1 = e.2
        · simp only [h2, if_true, chain, Res.bind, addAllF, List.foldl_cons, List.foldl_nil]
          rw [dAddEdge_forced_ok h e.2 e.2 _ (by rw [hs]; exact hj) (by rw [hs]; exact hj)]
        · simp [h2, addAllF]
    rw [hstep]
    exact ih (fun x hx => hes x (by simp [hx])) _ (by rw [addAllF_size]; exact hs)

theorem mem_dirEdges (g : G L) (hg : UInv g) (x y : Nat) (l : L) :
    (x, y, l) ∈ g.dirEdges ↔ g.hasEdgeRaw x y = true ∧ l = g.labD (ordered x y) := by
  simp only [dirEdges, List.mem_flatMap]
  constructor
  · rintro ⟨⟨a, b⟩, hab, hmem⟩
    obtain ⟨hle, he⟩ := (C08_mem_uEdges g hg a b).1 hab
    simp only [dirOf] at hmem
    by_cases h1 : a < b
    · simp only [h1, if_true, List.mem_cons, Prod.mk.injEq, List.not_mem_nil, or_false] at hmem
      rcases hmem with ⟨rfl, rfl, rfl⟩ | ⟨rfl, rfl, rfl⟩
      · exact ⟨he, rfl⟩
      · refine ⟨?_, by rw [ordered_comm]⟩
        exact (mem_nb_iff g _ _).1 ((hg.sym _ _).1 ((mem_nb_iff g _ _).2 he))
    · simp only [h1, if_false] at hmem
      by_cases h2 : a = b
      · simp only [h2, if_true, List.mem_cons, Prod.mk.injEq, List.not_mem_nil, or_false] at hmem
        obtain ⟨rfl, rfl, rfl⟩ := hmem
        subst h2
        exact ⟨he, rfl⟩
      · omega
  · rintro ⟨he, rfl⟩
    by_cases hxy : x ≤ y
    · refine ⟨(x, y), (C08_mem_uEdges g hg x y).2 ⟨hxy, he⟩, ?_⟩
      simp only [dirOf]
      by_cases h1 : x < y
      · simp [h1]
      · have : x = y := by omega
        simp [this]
    · have he' : g.hasEdgeRaw y x = true :=
        (mem_nb_iff g _ _).1 ((hg.sym _ _).1 ((mem_nb_iff g _ _).2 he))
      refine ⟨(y, x), (C08_mem_uEdges g hg y x).2 ⟨by omega, he'⟩, ?_⟩
      simp only [dirOf]
      have h1 : y < x := by omega
      simp [h1, ordered_comm x y]

end G
end BGV

namespace BGV
namespace G
variable {L : Type} [Inhabited L]

theorem dirEdges_pairs_nodup (g : G L) (hg : UInv g) : (g.dirEdges.map (fun e => (e.1, e.2.1))).Nodup := by
  simp only [dirEdges, List.map_flatMap, List.Nodup]
  rw [List.pairwise_flatMap]
  constructor
  · intro e _
    simp only [dirOf]
    by_cases h1 : e.1 < e.2
    · simp only [h1, if_true, List.map_cons, List.map_nil]
      refine List.Pairwise.cons ?_ (List.Pairwise.cons (by simp) List.Pairwise.nil)
      intro b hb
      simp only [List.mem_cons, List.not_mem_nil, or_false] at hb
      subst hb
      intro heq
      have := (Prod.mk.inj heq).1
      omega
    · simp only [h1, if_false]
      by_cases h2 : e.1 = e.2
      · simp [h2]
      · simp [h2]
  · have hnd := C08_uEdges_nodup g hg
    refine List.Pairwise.imp_of_mem ?_ hnd
    intro a b ha hb hab x hx y hy hxy
    apply hab
    obtain ⟨a1, a2⟩ := a
    obtain ⟨b1, b2⟩ := b
    have hale := ((C08_mem_uEdges g hg a1 a2).1 ha).1
    have hble := ((C08_mem_uEdges g hg b1 b2).1 hb).1
    simp only [dirOf] at hx hy
    have hx' : x = (a1, a2) ∨ x = (a2, a1) := by
      by_cases h1 : a1 < a2
      · simp only [h1, if_true, List.map_cons, List.map_nil, List.mem_cons, List.not_mem_nil, or_false] at hx
        exact hx
      · simp only [h1, if_false] at hx
        by_cases h2 : a1 = a2
        · simp only [h2, if_true, List.map_cons, List.map_nil, List.mem_cons, List.not_mem_nil, or_false] at hx
          left; rw [hx, h2]
        · simp [h2] at hx
    have hy' : y = (b1, b2) ∨ y = (b2, b1) := by
      by_cases h1 : b1 < b2
      · simp only [h1, if_true, List.map_cons, List.map_nil, List.mem_cons, List.not_mem_nil, or_false] at hy
        exact hy
      · simp only [h1, if_false] at hy
        by_cases h2 : b1 = b2
        · simp only [h2, if_true, List.map_cons, List.map_nil, List.mem_cons, List.not_mem_nil, or_false] at hy
          left; rw [hy, h2]
        · simp [h2] at hy
    subst hxy
    rcases hx' with rfl | rfl <;> rcases hy' with h | h
    · exact h
    · have h1 := (Prod.mk.inj h).1; have h2 := (Prod.mk.inj h).2
      have e1 : a1 = b1 := by omega
      have e2 : a2 = b2 := by omega
      rw [e1, e2]
    · have h1 := (Prod.mk.inj h).1; have h2 := (Prod.mk.inj h).2
      have e1 : a1 = b1 := by omega
      have e2 : a2 = b2 := by omega
      rw [e1, e2]
    · have h1 := (Prod.mk.inj h).1; have h2 := (Prod.mk.inj h).2
      rw [h1, h2]

/-- **`getDirectedGraph()`** never throws on a reachable state and is the unforced insertion of
both orientations (one for a self-loop) of every enumerated edge, each with that edge's label -/
theorem uGetDirectedGraph_ok (g : G L) (hg : UInv g) :
    g.uGetDirectedGraph = .ok ((G.new g.labelled g.size : G L).addAll g.dirEdges) := by
  rw [uGetDirectedGraph_eq_fold,
    fold_toDir g hg g.uEdges (fun e he => ((C08_mem_uEdges g hg e.1 e.2).1 he).2) (G.new g.labelled g.size) rfl]
  congr 1
  apply addAllF_eq _ (inv_new _ _)
  · intro e he
    obtain ⟨x, y, l⟩ := e
    have h1 := ((mem_dirEdges g hg x y l).1 he).1
    have hm : y ∈ g.nb x := (mem_nb_iff g x y).2 h1
    exact ⟨hg.base.bound y x ((hg.sym x y).1 hm), hg.base.bound x y hm⟩
  · exact dirEdges_pairs_nodup g hg
  · intro e _
    simp only [hasEdgeRaw]; rw [nb_new]; rfl

end G
end BGV
